import Mathlib.Logic.Relation
import Mathlib.Data.List.Nodup
import Mathlib.Data.List.Perm.Subperm
import Mathlib.Data.List.Perm.Basic
import Mathlib.Tactic.Tauto
import Mathlib.Algebra.Order.Ring.Rat
import PgFdr.Model.C04

/-! Helper lemmas for C04 (rescue regrouping). -/
namespace PgFdr.C04

/-! ### `dedup`, `isort`, `sortDedup`, `collect` -/

theorem mem_dedup (l : List String) (x : String) : x ∈ dedup l ↔ x ∈ l := by
  induction l with
  | nil => simp [dedup]
  | cons a r ih =>
    simp only [dedup]
    split
    · rename_i h
      rw [ih]; constructor
      · intro hx; exact List.mem_cons_of_mem _ hx
      · intro hx
        rcases List.mem_cons.mp hx with rfl | hx
        · exact h
        · exact hx
    · simp [ih]

theorem nodup_dedup (l : List String) : (dedup l).Nodup := by
  induction l with
  | nil => simp [dedup]
  | cons a r ih =>
    simp only [dedup]
    split
    · exact ih
    · rename_i h
      exact List.nodup_cons.mpr ⟨fun hm => h ((mem_dedup r a).mp hm), ih⟩

theorem ins_perm (a : String) (l : List String) : (ins a l).Perm (a :: l) := by
  induction l with
  | nil => simp [ins]
  | cons b r ih =>
    simp only [ins]
    split
    · exact List.Perm.refl _
    · exact (List.Perm.cons b ih).trans (List.Perm.swap a b r)

theorem isort_perm (l : List String) : (isort l).Perm l := by
  induction l with
  | nil => simp [isort]
  | cons a r ih => exact (ins_perm a (isort r)).trans (List.Perm.cons a ih)

theorem mem_sortDedup (l : List String) (x : String) : x ∈ sortDedup l ↔ x ∈ l := by
  unfold sortDedup
  rw [(isort_perm _).mem_iff, mem_dedup]

theorem nodup_sortDedup (l : List String) : (sortDedup l).Nodup :=
  (isort_perm _).nodup_iff.mpr (nodup_dedup l)

theorem collect_ok {α β : Type} (f : α → Except String (List β)) :
    ∀ (l : List α) (r : List β), collect f l = .ok r →
      ∀ b ∈ r, ∃ a ∈ l, ∃ x, f a = .ok x ∧ b ∈ x := by
  intro l
  induction l with
  | nil => intro r h b hb; simp [collect] at h; subst h; simp at hb
  | cons a t ih =>
    intro r h b hb
    simp only [collect] at h
    cases hfa : f a with
    | error e => rw [hfa] at h; simp at h
    | ok x =>
      rw [hfa] at h
      cases hct : collect f t with
      | error e => rw [hct] at h; simp at h
      | ok y =>
        rw [hct] at h
        simp only [Except.ok.injEq] at h
        subst h
        rcases List.mem_append.mp hb with hb | hb
        · exact ⟨a, List.mem_cons_self, x, hfa, hb⟩
        · obtain ⟨a', ha', x', hx', hbx⟩ := ih y hct b hb
          exact ⟨a', List.mem_cons_of_mem _ ha', x', hx', hbx⟩

/-! ### the index -/

theorem idxOf_lt : ∀ (N : Groups) (p : String) (i : Nat), idxOf N p = some i → i < N.length := by
  intro N
  induction N with
  | nil => intro p i h; simp [idxOf] at h
  | cons g rest ih =>
    intro p i h
    cases hr : idxOf rest p with
    | some k =>
      simp only [idxOf, hr, Option.some.injEq] at h; subst h
      have := ih p k hr
      simp; omega
    | none =>
      simp only [idxOf, hr] at h
      by_cases hm : p ∈ g
      · simp only [hm, if_true, Option.some.injEq] at h; subst h; simp
      · simp [hm] at h

theorem idxOf_mem : ∀ (N : Groups) (p : String) (i : Nat), idxOf N p = some i → p ∈ N.getD i [] := by
  intro N
  induction N with
  | nil => intro p i h; simp [idxOf] at h
  | cons g rest ih =>
    intro p i h
    cases hr : idxOf rest p with
    | some k =>
      simp only [idxOf, hr, Option.some.injEq] at h; subst h
      simpa using ih p k hr
    | none =>
      simp only [idxOf, hr] at h
      by_cases hm : p ∈ g
      · simp only [hm, if_true, Option.some.injEq] at h; subst h; simpa using hm
      · simp [hm] at h

theorem idxOf_none : ∀ (N : Groups) (p : String), idxOf N p = none ↔ p ∉ N.flatten := by
  intro N
  induction N with
  | nil => intro p; simp [idxOf]
  | cons g rest ih =>
    intro p
    simp only [idxOf, List.flatten_cons, List.mem_append, not_or]
    cases hr : idxOf rest p with
    | some k =>
      have : ¬ (p ∉ rest.flatten) := by rw [← ih p, hr]; simp
      simp only [reduceCtorEq, false_iff, not_and]
      intro _; exact this
    | none =>
      have : p ∉ rest.flatten := (ih p).mp hr
      by_cases hm : p ∈ g
      · simp [hm]
      · simp [hm, this]

theorem idxOf_isSome (N : Groups) (p : String) : (idxOf N p).isSome ↔ p ∈ N.flatten := by
  rw [← not_iff_not, ← idxOf_none]
  cases idxOf N p <;> simp

/-- in a partition the index is *the* position of the group holding the protein -/
theorem idxOf_eq_of_nodup : ∀ (N : Groups), N.flatten.Nodup → ∀ (i : Nat) (g : List String) (p : String),
    N[i]? = some g → p ∈ g → idxOf N p = some i := by
  intro N
  induction N with
  | nil => intro _ i g p h; simp at h
  | cons g0 rest ih =>
    intro hnd i g p hi hp
    rw [List.flatten_cons, List.nodup_append] at hnd
    obtain ⟨_, hrest, hdisj⟩ := hnd
    simp only [idxOf]
    cases i with
    | zero =>
      simp only [List.getElem?_cons_zero, Option.some.injEq] at hi; subst hi
      have : idxOf rest p = none := by
        rw [idxOf_none]; intro hm; exact hdisj p hp p hm rfl
      rw [this]; simp [hp]
    | succ k =>
      simp only [List.getElem?_cons_succ] at hi
      rw [ih hrest k g p hi hp]

theorem getD_of_getElem? {α : Type} (l : List α) (i : Nat) (x d : α) (h : l[i]? = some x) : l.getD i d = x := by
  simp [List.getD, h]

theorem getElem?_of_lt_getD (N : Groups) (i : Nat) (h : i < N.length) : N[i]? = some (N.getD i []) := by
  simp [List.getD, List.getElem?_eq_getElem h]

theorem leaderOf_of_nodup (N : Groups) (hnd : N.flatten.Nodup) (i : Nat) (g : List String) (p h : String)
    (hi : N[i]? = some g) (hp : p ∈ g) (hh : g.head? = some h) : leaderOf N p = some h := by
  unfold leaderOf
  rw [idxOf_eq_of_nodup N hnd i g p hi hp]
  simp only
  rw [getD_of_getElem? N i g [] hi]; exact hh

/-! ### the protein nodes -/

theorem mem_protNodesAux (ident : List Nat) : ∀ (N : Groups) (k : Nat) (x : String),
    x ∈ protNodesAux ident k N ↔ ∃ j g, N[j]? = some g ∧ g.head? = some x ∧ (k + j) ∉ ident := by
  intro N
  induction N with
  | nil => intro k x; simp [protNodesAux]
  | cons g0 rest ih =>
    intro k x
    have shift : (∃ j g, rest[j]? = some g ∧ g.head? = some x ∧ (k + 1 + j) ∉ ident) ↔
        ∃ j g, (g0 :: rest)[j + 1]? = some g ∧ g.head? = some x ∧ (k + (j + 1)) ∉ ident := by
      constructor
      · rintro ⟨j, g, h1, h2, h3⟩; exact ⟨j, g, by simpa using h1, h2, by rwa [show k + (j + 1) = k + 1 + j by omega]⟩
      · rintro ⟨j, g, h1, h2, h3⟩; exact ⟨j, g, by simpa using h1, h2, by rwa [show k + 1 + j = k + (j + 1) by omega]⟩
    have split0 : (∃ j g, (g0 :: rest)[j]? = some g ∧ g.head? = some x ∧ (k + j) ∉ ident) ↔
        (g0.head? = some x ∧ k ∉ ident) ∨
          ∃ j g, (g0 :: rest)[j + 1]? = some g ∧ g.head? = some x ∧ (k + (j + 1)) ∉ ident := by
      constructor
      · rintro ⟨j, g, h1, h2, h3⟩
        cases j with
        | zero => left; simp only [List.getElem?_cons_zero, Option.some.injEq] at h1; subst h1; exact ⟨h2, by simpa using h3⟩
        | succ j => right; exact ⟨j, g, h1, h2, h3⟩
      · rintro (⟨h2, h3⟩ | ⟨j, g, h1, h2, h3⟩)
        · exact ⟨0, g0, by simp, h2, by simpa using h3⟩
        · exact ⟨j + 1, g, h1, h2, h3⟩
    rw [split0, ← shift, ← ih (k + 1) x]
    simp only [protNodesAux]
    by_cases hk : k ∈ ident
    · simp [hk]
    · cases g0 with
      | nil => simp [hk]
      | cons p t =>
        simp only [hk, if_false, List.mem_cons, List.head?_cons, Option.some.injEq, not_false_eq_true, and_true]
        constructor
        · rintro (h | h)
          · exact Or.inl h.symm
          · exact Or.inr h
        · rintro (h | h)
          · exact Or.inl h.symm
          · exact Or.inr h

theorem mem_protNodes (N : Groups) (f : List PepInfo) (x : String) :
    x ∈ protNodes N f ↔ ∃ j g, N[j]? = some g ∧ g.head? = some x ∧ j ∉ identifiedIdxs N f := by
  unfold protNodes
  rw [mem_protNodesAux]
  simp

/-- a protein node is the leader of a group that has no peptide of its own, and (in a partition)
    the index sends it to that group -/
theorem protNode_spec (N : Groups) (f : List PepInfo) (hnd : N.flatten.Nodup) (x : String)
    (hx : x ∈ protNodes N f) :
    ∃ i, idxOf N x = some i ∧ i < N.length ∧ (N.getD i []).head? = some x ∧ i ∉ identifiedIdxs N f := by
  obtain ⟨j, g, hj, hh, hid⟩ := (mem_protNodes N f x).mp hx
  have hxg : x ∈ g := by
    cases g with
    | nil => simp at hh
    | cons a t => simp only [List.head?_cons, Option.some.injEq] at hh; subst hh; simp
  refine ⟨j, idxOf_eq_of_nodup N hnd j g x hj hxg, ?_, ?_, hid⟩
  · by_contra hlt
    rw [List.getElem?_eq_none (by omega)] at hj; simp at hj
  · rw [getD_of_getElem? N j g [] hj]; exact hh

/-- two protein nodes with the same index are equal -/
theorem protNode_idx_inj (N : Groups) (f : List PepInfo) (hnd : N.flatten.Nodup) (x y : String)
    (hx : x ∈ protNodes N f) (hy : y ∈ protNodes N f) (h : idxOf N x = idxOf N y) : x = y := by
  obtain ⟨i, hi, _, hhx, _⟩ := protNode_spec N f hnd x hx
  obtain ⟨j, hj, _, hhy, _⟩ := protNode_spec N f hnd y hy
  rw [hi, hj] at h
  simp only [Option.some.injEq] at h; subst h
  rw [hhx] at hhy; simpa using hhy

/-! ### connected components -/

/-- adjacency relation of the bipartite graph -/
def Adj (es : List (String × String)) (a b : String) : Prop := b ∈ adj es a

/-- connected in the bipartite graph: a path of (group leader, shared peptide) incidences -/
def Conn (es : List (String × String)) (a b : String) : Prop := Relation.ReflTransGen (Adj es) a b

theorem mem_adj (es : List (String × String)) (a b : String) :
    b ∈ adj es a ↔ (a, b) ∈ es ∨ (b, a) ∈ es := by
  unfold adj
  simp only [List.mem_filterMap]
  constructor
  · rintro ⟨⟨e1, e2⟩, he, h⟩
    by_cases h1 : e1 = a
    · simp only [h1, if_true, Option.some.injEq] at h; subst h1; subst h; exact Or.inl he
    · simp only [h1, if_false] at h
      by_cases h2 : e2 = a
      · simp only [h2, if_true, Option.some.injEq] at h; subst h2; subst h; exact Or.inr he
      · simp [h2] at h
  · rintro (h | h)
    · exact ⟨(a, b), h, by simp⟩
    · refine ⟨(b, a), h, ?_⟩
      by_cases hba : b = a
      · simp [hba]
      · simp [hba]

theorem adj_symm (es : List (String × String)) (a b : String) : Adj es a b → Adj es b a := by
  unfold Adj; rw [mem_adj, mem_adj]; tauto

theorem conn_symm (es : List (String × String)) (a b : String) (h : Conn es a b) : Conn es b a := by
  unfold Conn at *
  induction h with
  | refl => exact Relation.ReflTransGen.refl
  | tail _ hstep ih => exact Relation.ReflTransGen.head (adj_symm es _ _ hstep) ih

theorem conn_trans (es : List (String × String)) (a b c : String) (h1 : Conn es a b) (h2 : Conn es b c) :
    Conn es a c := Relation.ReflTransGen.trans h1 h2

theorem mem_adjIn (es : List (String × String)) (nodes : List String) (a b : String) :
    b ∈ adjIn es nodes a ↔ a ∈ nodes ∧ b ∈ nodes ∧ b ∈ adj es a := by
  unfold adjIn
  by_cases ha : a ∈ nodes
  · simp [ha, List.mem_filter]; tauto
  · simp [ha]

theorem fresh_sound (ad : String → List String) (S : List String) (x : String) (hx : x ∈ fresh ad S) :
    (∃ a ∈ S, x ∈ ad a) ∧ x ∉ S := by
  simp only [fresh, mem_dedup, List.mem_filter, List.mem_flatMap, decide_eq_true_eq] at hx
  exact hx

theorem mem_fresh (ad : String → List String) (S : List String) (x : String) :
    x ∈ fresh ad S ↔ (∃ a ∈ S, x ∈ ad a) ∧ x ∉ S := by
  simp only [fresh, mem_dedup, List.mem_filter, List.mem_flatMap, decide_eq_true_eq]

/-- everything collected is reachable from the start set, along `ad` -/
theorem iter_sound (ad : String → List String) : ∀ (k : Nat) (S : List String) (x : String), x ∈ iter ad k S →
    ∃ s ∈ S, Relation.ReflTransGen (fun a b => b ∈ ad a) s x := by
  intro k
  induction k with
  | zero => intro S x hx; exact ⟨x, hx, Relation.ReflTransGen.refl⟩
  | succ k ih =>
    intro S x hx
    simp only [iter] at hx
    split at hx
    · exact ⟨x, hx, Relation.ReflTransGen.refl⟩
    · obtain ⟨s, hs, hsx⟩ := ih _ x hx
      rcases List.mem_append.mp hs with hs | hs
      · exact ⟨s, hs, hsx⟩
      · obtain ⟨⟨a, ha, has⟩, _⟩ := fresh_sound ad S s hs
        exact ⟨a, ha, Relation.ReflTransGen.head has hsx⟩

theorem iter_mono (ad : String → List String) : ∀ (k : Nat) (S : List String), ∀ x ∈ S, x ∈ iter ad k S := by
  intro k
  induction k with
  | zero => intro S x hx; exact hx
  | succ k ih =>
    intro S x hx
    simp only [iter]
    split
    · exact hx
    · exact ih _ x (List.mem_append_left _ hx)

theorem rtg_adjIn_sub (es : List (String × String)) (nodes : List String) (s x : String)
    (h : Relation.ReflTransGen (fun a b => b ∈ adjIn es nodes a) s x) :
    Conn es s x ∧ (s ∈ nodes → x ∈ nodes) := by
  induction h with
  | refl => exact ⟨Relation.ReflTransGen.refl, id⟩
  | tail _ hstep ih =>
    rw [mem_adjIn] at hstep
    exact ⟨Relation.ReflTransGen.tail ih.1 hstep.2.2, fun _ => hstep.2.1⟩

/-- members of a component are in the node set and connected to its seed -/
theorem component_sound (es : List (String × String)) (nodes : List String) (s x : String)
    (hx : x ∈ component es nodes s) : Conn es s x ∧ (s ∈ nodes → x ∈ nodes) := by
  obtain ⟨s', hs', hr⟩ := iter_sound _ _ _ x hx
  simp only [List.mem_singleton] at hs'; subst hs'
  exact rtg_adjIn_sub es nodes _ x hr

theorem seed_mem_component (es : List (String × String)) (nodes : List String) (s : String) :
    s ∈ component es nodes s := iter_mono _ _ _ s (by simp)

theorem compsAux_spec (es : List (String × String)) (nodes : List String) :
    ∀ (k : Nat) (l : List String) (c : List String), c ∈ compsAux es nodes k l →
      ∃ s ∈ l, c = component es nodes s := by
  intro k
  induction k with
  | zero => intro l c h; simp [compsAux] at h
  | succ k ih =>
    intro l c h
    cases l with
    | nil => simp [compsAux] at h
    | cons s rest =>
      simp only [compsAux, List.mem_cons] at h
      rcases h with h | h
      · exact ⟨s, by simp, h⟩
      · obtain ⟨s', hs', hc⟩ := ih _ c h
        exact ⟨s', List.mem_cons_of_mem _ (List.mem_filter.mp hs').1, hc⟩

theorem comps_spec (es : List (String × String)) (nodes : List String) (c : List String)
    (h : c ∈ comps es nodes) : ∃ s ∈ nodes, c = component es nodes s :=
  compsAux_spec es nodes _ _ c h

/-- members of one component of a sub-graph lie in the sub-graph and are pairwise connected -/
theorem comps_sound (es : List (String × String)) (nodes : List String) (c : List String)
    (h : c ∈ comps es nodes) : (∀ x ∈ c, x ∈ nodes) ∧ (∀ x ∈ c, ∀ y ∈ c, Conn es x y) ∧ c ≠ [] := by
  obtain ⟨s, hs, rfl⟩ := comps_spec es nodes c h
  refine ⟨fun x hx => (component_sound es nodes s x hx).2 hs, ?_, ?_⟩
  · intro x hx y hy
    exact conn_trans es x s y (conn_symm es s x (component_sound es nodes s x hx).1)
      (component_sound es nodes s y hy).1
  · exact List.ne_nil_of_mem (seed_mem_component es nodes s)

/-! ### the decoupling tree -/

/-- what `splitLoop` returns is the initial `best` or the components of the sub-graph without an accepted cut -/
theorem splitLoop_spec (es : List (String × String)) (nodes B : List String) (cuts : CutMap) :
    ∀ (ps : List (String × String)) (seen best subs : List (List String)),
      splitLoop es nodes B cuts ps seen best = .ok subs →
      subs = best ∨ ∃ cut : List String, cut ≠ [] ∧ (∀ x ∈ cut, x ∈ B) ∧
        subs = comps es (nodes.filter (fun x => decide (x ∉ cut))) ∧
        (∀ c ∈ subs, c.length ≠ 1) := by
  intro ps
  induction ps with
  | nil => intro seen best subs h; simp only [splitLoop, Except.ok.injEq] at h; exact Or.inl h.symm
  | cons st rest ih =>
    intro seen best subs h
    obtain ⟨s, t⟩ := st
    simp only [splitLoop] at h
    cases hl : List.lookup (sortDedup nodes, s, t) cuts with
    | none => simp [hl] at h
    | some cut0 =>
      simp only [hl] at h
      by_cases hne : sortDedup cut0 = []
      · simp [hne] at h
      · simp only [hne, if_false] at h
        by_cases hacc : ((sortDedup cut0).all (fun x => decide (x ∈ B)) && !(seen.contains (sortDedup cut0))) = true
        · simp only [hacc, if_true] at h
          have hB : ∀ x ∈ sortDedup cut0, x ∈ B := by
            simp only [Bool.and_eq_true, List.all_eq_true, decide_eq_true_eq] at hacc
            exact hacc.1
          by_cases hall : (comps es (nodes.filter (fun x => decide (x ∉ sortDedup cut0)))).all (fun c => c.length != 1) = true
          · simp only [hall, if_true] at h
            have hlen : ∀ c ∈ comps es (nodes.filter (fun x => decide (x ∉ sortDedup cut0))), c.length ≠ 1 := by
              simp only [List.all_eq_true, bne_iff_ne] at hall; exact hall
            by_cases h1 : (sortDedup cut0).length = 1
            · simp only [h1, if_true, Except.ok.injEq] at h
              subst h
              exact Or.inr ⟨sortDedup cut0, hne, hB, rfl, hlen⟩
            · simp only [h1, if_false] at h
              rcases ih _ _ _ h with h' | h'
              · subst h'
                exact Or.inr ⟨sortDedup cut0, hne, hB, rfl, hlen⟩
              · exact Or.inr h'
          · simp only [hall] at h
            exact ih _ _ _ h
        · simp only [hacc] at h
          exact ih _ _ _ h

/-- facts about every leaf below a sub-graph -/
theorem decouple_spec (es : List (String × String)) (cuts : CutMap) (isProt : String → Bool) :
    ∀ (fuel : Nat) (nodes : List String) (lvs : List (List String)),
      decouple es cuts isProt fuel nodes = .ok lvs →
      ∀ leaf ∈ lvs, leaf.Nodup ∧ (∀ x ∈ leaf, isProt x = true) ∧ (∀ x ∈ leaf, x ∈ nodes) := by
  intro fuel
  induction fuel with
  | zero => intro nodes lvs h; simp [decouple] at h
  | succ fuel ih =>
    intro nodes lvs h leaf hleaf
    simp only [decouple] at h
    have hA : (sortDedup (nodes.filter isProt)).Nodup ∧
        (∀ x ∈ sortDedup (nodes.filter isProt), isProt x = true) ∧
        (∀ x ∈ sortDedup (nodes.filter isProt), x ∈ nodes) := by
      refine ⟨nodup_sortDedup _, ?_, ?_⟩
      · intro x hx; rw [mem_sortDedup] at hx; exact (List.mem_filter.mp hx).2
      · intro x hx; rw [mem_sortDedup] at hx; exact (List.mem_filter.mp hx).1
    by_cases hlen : (sortDedup (nodes.filter isProt)).length ≤ 1
    · simp only [hlen, if_true, Except.ok.injEq] at h
      subst h
      simp only [List.mem_singleton] at hleaf; subst hleaf
      exact hA
    · simp only [hlen, if_false] at h
      cases hs : splitLoop es nodes (sortDedup (nodes.filter (fun x => !isProt x))) cuts
          (pairs (sortDedup (nodes.filter isProt))) [] [] with
      | error e => simp [hs] at h
      | ok subs =>
        simp only [hs] at h
        cases subs with
        | nil =>
          simp only [Except.ok.injEq] at h
          subst h
          simp only [List.mem_singleton] at hleaf; subst hleaf
          exact hA
        | cons s0 subs =>
          simp only at h
          obtain ⟨c, hc, x, hx, hlx⟩ := collect_ok _ _ _ h leaf hleaf
          obtain ⟨h1, h2, h3⟩ := ih c x hx leaf hlx
          refine ⟨h1, h2, ?_⟩
          rcases splitLoop_spec es nodes _ cuts _ _ _ _ hs with hb | ⟨cut, _, _, hsub, _⟩
          · simp at hb
          · rw [hsub] at hc
            intro y hy
            exact (List.mem_filter.mp ((comps_sound es _ c hc).1 y (h3 y hy))).1

/-- one `merge_groups` step on positions -/
def mergeStep (gs : Groups) (i j : Nat) : Groups := (gs.set i (gs.getD i [] ++ gs.getD j [])).set j []

theorem set_flatten_perm : ∀ (gs : Groups) (i : Nat) (x : List String), i < gs.length →
    ((gs.set i x).flatten ++ gs.getD i []).Perm (x ++ gs.flatten) := by
  intro gs
  induction gs with
  | nil => intro i x h; simp at h
  | cons g rest ih =>
    intro i x h
    cases i with
    | zero =>
      simp only [List.set_cons_zero, List.flatten_cons, List.getD_cons_zero]
      -- x ++ rest.flatten ++ g ~ x ++ (g ++ rest.flatten)
      rw [List.append_assoc]
      exact List.Perm.append_left x List.perm_append_comm
    | succ k =>
      simp only [List.set_cons_succ, List.flatten_cons, List.getD_cons_succ]
      have hk : k < rest.length := by simpa using h
      have := ih k x hk
      -- g ++ (rest.set k x).flatten ++ rest.getD k [] ~ x ++ (g ++ rest.flatten)
      rw [List.append_assoc]
      refine (List.Perm.append_left g this).trans ?_
      rw [← List.append_assoc, ← List.append_assoc]
      exact List.Perm.append_right _ List.perm_append_comm

theorem getD_set_ne (gs : Groups) (i j : Nat) (x : List String) (h : i ≠ j) :
    (gs.set i x).getD j [] = gs.getD j [] := by
  simp [List.getD, List.getElem?_set_ne h]

theorem getD_set_eq (gs : Groups) (i : Nat) (x : List String) (h : i < gs.length) :
    (gs.set i x).getD i [] = x := by
  simp [List.getD, List.getElem?_set_self h]

theorem mergeStep_length (gs : Groups) (i j : Nat) : (mergeStep gs i j).length = gs.length := by
  simp [mergeStep]

theorem mergeStep_perm (gs : Groups) (i j : Nat) (hij : i ≠ j) (hi : i < gs.length) (hj : j < gs.length) :
    (mergeStep gs i j).flatten.Perm gs.flatten := by
  unfold mergeStep
  have h1 := set_flatten_perm gs i (gs.getD i [] ++ gs.getD j []) hi
  have hj' : j < (gs.set i (gs.getD i [] ++ gs.getD j [])).length := by simpa using hj
  have h2 := set_flatten_perm (gs.set i (gs.getD i [] ++ gs.getD j [])) j [] hj'
  rw [getD_set_ne gs i j _ hij] at h2
  simp only [List.nil_append] at h2
  -- h2 : F2 ++ gj ~ F1 ; h1 : F1 ++ gi ~ (gi ++ gj) ++ F
  have h3 : (((gs.set i (gs.getD i [] ++ gs.getD j [])).set j []).flatten ++ (gs.getD j [] ++ gs.getD i [])).Perm
      (gs.flatten ++ (gs.getD j [] ++ gs.getD i [])) := by
    rw [← List.append_assoc]
    refine (List.Perm.append_right _ h2).trans (h1.trans ?_)
    refine List.perm_append_comm.trans ?_
    exact List.Perm.append_left _ List.perm_append_comm
  exact (List.perm_append_right_iff _).mp h3

theorem mergeStep_getD (gs : Groups) (i j k : Nat) (hij : i ≠ j) (hi : i < gs.length) (hj : j < gs.length) :
    (mergeStep gs i j).getD k [] =
      if k = j then [] else if k = i then gs.getD i [] ++ gs.getD j [] else gs.getD k [] := by
  unfold mergeStep
  by_cases hkj : k = j
  · subst hkj
    simp only [if_true]
    exact getD_set_eq _ _ _ (by simpa using hj)
  · simp only [hkj, if_false]
    rw [getD_set_ne _ j k _ (Ne.symm hkj)]
    by_cases hki : k = i
    · subst hki; simp only [if_true]; exact getD_set_eq _ _ _ hi
    · simp only [hki, if_false]; exact getD_set_ne _ i k _ (Ne.symm hki)

/-! ### invariants of the merge fold -/

/-- `(l, p)` is a pair the fold passes to `merge_groups`: head of a leaf and a later member -/
def MergePair (lvs : List (List String)) (l p : String) : Prop := ∃ rest, (l :: rest) ∈ lvs ∧ p ∈ rest

theorem applyLeaf_inv (idx : String → Option Nat) (Inv : Groups → Prop) (l : String) :
    ∀ (rest : List String) (gs : Groups),
      (∀ gs p, p ∈ rest → Inv gs → Inv (mergeGroups idx gs l p)) → Inv gs →
      Inv (rest.foldl (fun acc p => mergeGroups idx acc l p) gs) := by
  intro rest
  induction rest with
  | nil => intro gs _ h0; exact h0
  | cons p t ih =>
    intro gs hstep h0
    simp only [List.foldl_cons]
    exact ih _ (fun gs q hq => hstep gs q (List.mem_cons_of_mem _ hq)) (hstep gs p List.mem_cons_self h0)

theorem applyLeaves_inv (idx : String → Option Nat) (Inv : Groups → Prop) :
    ∀ (lvs : List (List String)) (gs : Groups),
      (∀ gs l p, MergePair lvs l p → Inv gs → Inv (mergeGroups idx gs l p)) → Inv gs →
      Inv (applyLeaves idx gs lvs) := by
  intro lvs
  induction lvs with
  | nil => intro gs _ h0; exact h0
  | cons leaf t ih =>
    intro gs hstep h0
    simp only [applyLeaves, List.foldl_cons]
    have hleaf : Inv (applyLeaf idx gs leaf) := by
      cases leaf with
      | nil => exact h0
      | cons l rest =>
        simp only [applyLeaf]
        exact applyLeaf_inv idx Inv l rest gs
          (fun gs p hp => hstep gs l p ⟨rest, List.mem_cons_self, hp⟩) h0
    exact ih _ (fun gs l p ⟨rest, hm, hp⟩ => hstep gs l p ⟨rest, List.mem_cons_of_mem _ hm, hp⟩) hleaf

/-- leaves made of distinct protein nodes -/
def GoodLeaves (N : Groups) (f : List PepInfo) (lvs : List (List String)) : Prop :=
  ∀ leaf ∈ lvs, leaf.Nodup ∧ ∀ x ∈ leaf, x ∈ protNodes N f

/-- every merge of the fold moves the whole slot of one unidentified group into the slot of another one -/
theorem mergePair_spec (N : Groups) (f : List PepInfo) (hnd : N.flatten.Nodup) (lvs : List (List String))
    (hg : GoodLeaves N f lvs) (l p : String) (hp : MergePair lvs l p) :
    ∃ i j, idxOf N l = some i ∧ idxOf N p = some j ∧ i ≠ j ∧ i < N.length ∧ j < N.length ∧
      (N.getD i []).head? = some l ∧ (N.getD j []).head? = some p ∧
      i ∉ identifiedIdxs N f ∧ j ∉ identifiedIdxs N f ∧
      ∀ gs, mergeGroups (idxOf N) gs l p = mergeStep gs i j := by
  obtain ⟨rest, hm, hpr⟩ := hp
  obtain ⟨hnodup, hprot⟩ := hg _ hm
  obtain ⟨i, hi, hil, hih, hii⟩ := protNode_spec N f hnd l (hprot l List.mem_cons_self)
  obtain ⟨j, hj, hjl, hjh, hji⟩ := protNode_spec N f hnd p (hprot p (List.mem_cons_of_mem _ hpr))
  refine ⟨i, j, hi, hj, ?_, hil, hjl, hih, hjh, hii, hji, ?_⟩
  · intro hij
    subst hij
    have : l = p := protNode_idx_inj N f hnd l p (hprot l List.mem_cons_self)
      (hprot p (List.mem_cons_of_mem _ hpr)) (by rw [hi, hj])
    subst this
    exact (List.nodup_cons.mp hnodup).1 hpr
  · intro gs
    simp [mergeGroups, hi, hj, mergeStep]

theorem applyLeaves_perm (N : Groups) (f : List PepInfo) (hnd : N.flatten.Nodup) (lvs : List (List String))
    (hg : GoodLeaves N f lvs) :
    (applyLeaves (idxOf N) N lvs).length = N.length ∧ (applyLeaves (idxOf N) N lvs).flatten.Perm N.flatten := by
  apply applyLeaves_inv (idxOf N) (fun gs => gs.length = N.length ∧ gs.flatten.Perm N.flatten) lvs N
  · intro gs l p hp ⟨hlen, hperm⟩
    obtain ⟨i, j, _, _, hij, hi, hj, _, _, _, _, hm⟩ := mergePair_spec N f hnd lvs hg l p hp
    rw [hm gs]
    exact ⟨by rw [mergeStep_length, hlen],
      (mergeStep_perm gs i j hij (by omega) (by omega)).trans hperm⟩
  · exact ⟨rfl, List.Perm.refl _⟩

/-- refinement: the members of one group of `N` are never separated -/
theorem applyLeaves_block (N : Groups) (f : List PepInfo) (hnd : N.flatten.Nodup) (lvs : List (List String))
    (hg : GoodLeaves N f lvs) :
    ∀ n ∈ N, ∃ m, ∀ q ∈ n, q ∈ (applyLeaves (idxOf N) N lvs).getD m [] := by
  have := applyLeaves_inv (idxOf N)
    (fun gs => gs.length = N.length ∧ ∀ n ∈ N, ∃ m, ∀ q ∈ n, q ∈ gs.getD m []) lvs N ?_ ?_
  · exact this.2
  · intro gs l p hp ⟨hlen, hb⟩
    obtain ⟨i, j, _, _, hij, hi, hj, _, _, _, _, hm⟩ := mergePair_spec N f hnd lvs hg l p hp
    rw [hm gs]
    refine ⟨by rw [mergeStep_length, hlen], ?_⟩
    intro n hn
    obtain ⟨m, hmem⟩ := hb n hn
    by_cases hmj : m = j
    · refine ⟨i, fun q hq => ?_⟩
      rw [mergeStep_getD gs i j i hij (by omega) (by omega)]
      simp only [hij, if_false, if_true]
      exact List.mem_append_right _ (hmj ▸ hmem q hq)
    · by_cases hmi : m = i
      · refine ⟨i, fun q hq => ?_⟩
        rw [mergeStep_getD gs i j i hij (by omega) (by omega)]
        simp only [hij, if_false, if_true]
        exact List.mem_append_left _ (hmi ▸ hmem q hq)
      · refine ⟨m, fun q hq => ?_⟩
        rw [mergeStep_getD gs i j m hij (by omega) (by omega)]
        simp only [hmj, hmi, if_false]
        exact hmem q hq
  · refine ⟨rfl, fun n hn => ?_⟩
    obtain ⟨m, hm, rfl⟩ := List.mem_iff_getElem.mp hn
    exact ⟨m, fun q hq => by simpa [List.getD, List.getElem?_eq_getElem hm] using hq⟩

/-- a slot that is no merge position keeps its content -/
theorem applyLeaves_untouched (N : Groups) (f : List PepInfo) (hnd : N.flatten.Nodup) (lvs : List (List String))
    (hg : GoodLeaves N f lvs) (k : Nat) (hk : k ∈ identifiedIdxs N f) :
    (applyLeaves (idxOf N) N lvs).getD k [] = N.getD k [] := by
  have := applyLeaves_inv (idxOf N)
    (fun gs => gs.length = N.length ∧ gs.getD k [] = N.getD k []) lvs N ?_ ⟨rfl, rfl⟩
  · exact this.2
  · intro gs l p hp ⟨hlen, hb⟩
    obtain ⟨i, j, _, _, hij, hi, hj, _, _, hii, hji, hm⟩ := mergePair_spec N f hnd lvs hg l p hp
    rw [hm gs]
    refine ⟨by rw [mergeStep_length, hlen], ?_⟩
    rw [mergeStep_getD gs i j k hij (by omega) (by omega)]
    have hkj : k ≠ j := fun h => hji (h ▸ hk)
    have hki : k ≠ i := fun h => hii (h ▸ hk)
    simp only [hkj, hki, if_false]
    exact hb

/-- every member of a slot belongs to a group whose leader is connected to the slot's original leader -/
theorem applyLeaves_conn (N : Groups) (f : List PepInfo) (hnd : N.flatten.Nodup) (lvs : List (List String))
    (hg : GoodLeaves N f lvs)
    (hc : ∀ leaf ∈ lvs, ∀ x ∈ leaf, ∀ y ∈ leaf, Conn (edges N f) x y) :
    ∀ m, ∀ q ∈ (applyLeaves (idxOf N) N lvs).getD m [],
      ∃ lq h, leaderOf N q = some lq ∧ (N.getD m []).head? = some h ∧ Conn (edges N f) lq h := by
  have := applyLeaves_inv (idxOf N)
    (fun gs => gs.length = N.length ∧ ∀ m, ∀ q ∈ gs.getD m [],
      ∃ lq h, leaderOf N q = some lq ∧ (N.getD m []).head? = some h ∧ Conn (edges N f) lq h) lvs N ?_ ?_
  · exact this.2
  · intro gs l p hp ⟨hlen, hb⟩
    obtain ⟨i, j, _, _, hij, hi, hj, hih, hjh, _, _, hm⟩ := mergePair_spec N f hnd lvs hg l p hp
    rw [hm gs]
    refine ⟨by rw [mergeStep_length, hlen], ?_⟩
    intro m q hq
    rw [mergeStep_getD gs i j m hij (by omega) (by omega)] at hq
    by_cases hmj : m = j
    · simp [hmj] at hq
    · simp only [hmj, if_false] at hq
      by_cases hmi : m = i
      · simp only [hmi, if_true] at hq
        rcases List.mem_append.mp hq with hq | hq
        · exact hmi ▸ hb i q hq
        · obtain ⟨lq, h, h1, h2, h3⟩ := hb j q hq
          rw [hjh] at h2
          simp only [Option.some.injEq] at h2; subst h2
          refine ⟨lq, l, h1, hmi ▸ hih, conn_trans _ lq p l h3 ?_⟩
          obtain ⟨rest, hmem, hpr⟩ := hp
          exact hc _ hmem p (List.mem_cons_of_mem _ hpr) l List.mem_cons_self
      · simp only [hmi, if_false] at hq
        exact hb m q hq
  · refine ⟨rfl, fun m q hq => ?_⟩
    by_cases hm : m < N.length
    · have hget := getElem?_of_lt_getD N m hm
      cases hg' : N.getD m [] with
      | nil => rw [hg'] at hq; simp at hq
      | cons a t =>
        refine ⟨a, a, ?_, by simp, Relation.ReflTransGen.refl⟩
        exact leaderOf_of_nodup N hnd m (N.getD m []) q a hget hq (by rw [hg']; simp)
    · have : N.getD m [] = [] := by simp [List.getD, List.getElem?_eq_none (Nat.le_of_not_lt hm)]
      rw [this] at hq; simp at hq

/-! ### the leaves of the whole graph -/

theorem leaves_spec (N : Groups) (f : List PepInfo) (cuts : CutMap) (lvs : List (List String))
    (h : leaves N f cuts = .ok lvs) :
    GoodLeaves N f lvs ∧ ∀ leaf ∈ lvs, ∀ x ∈ leaf, ∀ y ∈ leaf, Conn (edges N f) x y := by
  unfold leaves at h
  simp only at h
  have key : ∀ leaf ∈ lvs, ∃ c ∈ comps (edges N f) (allNodes N f),
      leaf.Nodup ∧ (∀ x ∈ leaf, x ∈ protNodes N f) ∧ ∀ x ∈ leaf, x ∈ c := by
    intro leaf hleaf
    obtain ⟨c, hc, x, hx, hlx⟩ := collect_ok _ _ _ h leaf hleaf
    obtain ⟨h1, h2, h3⟩ := decouple_spec _ _ _ _ _ _ hx leaf hlx
    exact ⟨c, hc, h1, fun y hy => by simpa using h2 y hy, h3⟩
  constructor
  · intro leaf hleaf
    obtain ⟨c, _, h1, h2, _⟩ := key leaf hleaf
    exact ⟨h1, h2⟩
  · intro leaf hleaf x hx y hy
    obtain ⟨c, hc, _, _, h3⟩ := key leaf hleaf
    exact (comps_sound _ _ c hc).2.1 x (h3 x hx) y (h3 y hy)

theorem mem_dropEmpty (gs : Groups) (g : List String) : g ∈ dropEmpty gs ↔ g ∈ gs ∧ g ≠ [] := by
  simp [dropEmpty, List.mem_filter]

theorem dropEmpty_flatten (gs : Groups) : (dropEmpty gs).flatten = gs.flatten := by
  unfold dropEmpty
  induction gs with
  | nil => rfl
  | cons a l ih =>
    cases a with
    | nil => simp [ih]
    | cons x xs => simp [ih]

theorem mem_iff_getD (gs : Groups) (g : List String) (hg : g ≠ []) : g ∈ gs ↔ ∃ m, gs.getD m [] = g := by
  constructor
  · intro h
    obtain ⟨m, hm, rfl⟩ := List.mem_iff_getElem.mp h
    exact ⟨m, by simp [List.getD, List.getElem?_eq_getElem hm]⟩
  · rintro ⟨m, rfl⟩
    by_cases hm : m < gs.length
    · simp only [List.getD, List.getElem?_eq_getElem hm, Option.getD_some]; exact List.getElem_mem hm
    · exfalso; apply hg; simp [List.getD, List.getElem?_eq_none (Nat.le_of_not_lt hm)]

/-! ### `add_unseen_protein_groups` (DESIGN-lean-scratch §14.10) -/

theorem flatten_filter_nonempty (l : Groups) : (l.filter (fun r => !r.isEmpty)).flatten = l.flatten :=
  dropEmpty_flatten l

theorem flatten_map_filter (l : Groups) (q : String → Bool) :
    (l.map (List.filter q)).flatten = l.flatten.filter q := by
  induction l with
  | nil => rfl
  | cons a l ih => rw [List.map_cons, List.flatten_cons, List.flatten_cons, List.filter_append, ih]

/-- if the rescued groups are a partition of proteins that all occur in the first-pass partition, the
    merged collection is a partition of exactly the first-pass proteins -/
theorem merged_perm (new old : Groups) (hn : new.flatten.Nodup) (ho : old.flatten.Nodup)
    (hsub : ∀ p ∈ new.flatten, p ∈ old.flatten) :
    (merged new old).flatten.Perm old.flatten := by
  unfold merged
  rw [List.flatten_append, flatten_filter_nonempty]
  have h1 : (old.map (remnant new.flatten)).flatten =
      old.flatten.filter (fun p => decide (p ∉ new.flatten)) := by
    unfold remnant; exact flatten_map_filter old _
  rw [h1]
  generalize new.flatten = known at *
  generalize old.flatten = all at *
  have hsplit : (all.filter (fun p => decide (p ∈ known)) ++
      all.filter (fun p => decide (p ∉ known))).Perm all := by
    have := List.filter_append_perm (fun p => decide (p ∈ known)) all
    refine List.Perm.trans ?_ this
    apply List.Perm.append_left
    apply List.Perm.of_eq
    apply List.filter_congr
    intro x _; simp
  refine List.Perm.trans ?_ hsplit
  apply List.Perm.append_right
  rw [List.perm_ext_iff_of_nodup hn (ho.filter _)]
  intro p
  simp only [List.mem_filter, decide_eq_true_eq]
  exact ⟨fun h => ⟨hsub p h, h⟩, fun h => h.2⟩

theorem merged_mem (new old : Groups) (g : List String) :
    g ∈ merged new old ↔ g ∈ new ∨ (g ≠ [] ∧ ∃ g0 ∈ old, g = remnant new.flatten g0) := by
  unfold merged
  simp only [List.mem_append, List.mem_filter, List.mem_map, Bool.not_eq_true',
    List.isEmpty_eq_false_iff]
  constructor
  · rintro (h | ⟨⟨g0, h0, rfl⟩, hne⟩)
    · exact Or.inl h
    · exact Or.inr ⟨hne, g0, h0, rfl⟩
  · rintro (h | ⟨hne, g0, h0, rfl⟩)
    · exact Or.inl h
    · exact Or.inr ⟨⟨g0, h0, rfl⟩, hne⟩

theorem absorbed_mem {ι : Type} (new : Groups) (old : List (List String × ι)) (g : List String × ι) :
    g ∈ absorbed new old ↔ g ∈ old ∧ ∀ p ∈ g.1, p ∈ new.flatten := by
  unfold absorbed remnant
  simp only [List.mem_filter, List.isEmpty_iff, List.filter_eq_nil_iff, decide_eq_true_eq,
    Decidable.not_not]

theorem merged_nonempty (new old : Groups) (hn : ∀ g ∈ new, g ≠ []) :
    ∀ g ∈ merged new old, g ≠ [] := by
  intro g hg
  rcases (merged_mem new old g).mp hg with h | ⟨h, _⟩
  · exact hn g h
  · exact h

/-! ### the run -/

/-- unfolding a successful run of the rescue stage -/
theorem run_spec {ι : Type} (N : Groups) (old : List (List String × ι)) (pil : List PepInfo) (cutoff : Rat)
    (cuts : CutMap) (out : RescueOut ι) (h : rescueGroupsN N old pil cutoff cuts = .ok out) :
    ∃ lvs, leaves N (filterByCutoff pil cutoff) cuts = .ok lvs ∧
      out.rescued = dropEmpty (applyLeaves (idxOf N) N lvs) ∧
      out.filtered = filterByCutoff pil cutoff ∧
      out.groups = merged out.rescued (old.map (·.1)) ∧
      out.obsolete = (absorbed out.rescued old).map (fun g => g.1.map obsoleteName) ∧
      out.obsoleteInfos = (absorbed out.rescued old).map (·.2) := by
  unfold rescueGroupsN mergeWithRescued rescuedGroups at h
  cases hl : leaves N (filterByCutoff pil cutoff) cuts with
  | error e => simp [hl] at h
  | ok lvs =>
    simp only [hl, Except.ok.injEq] at h
    subst h
    exact ⟨lvs, rfl, rfl, rfl, rfl, rfl, rfl⟩

theorem containsSub_of_prefix (pat : List Char) : ∀ (l : List Char), pat.isPrefixOf l = true → containsSub pat l = true := by
  intro l h
  cases l with
  | nil =>
    cases pat with
    | nil => rfl
    | cons a t => simp [List.isPrefixOf] at h
  | cons c t => simp [containsSub, h]

theorem isObsolete_placeholder (g : List String) : isObsolete (g.map obsoleteName) = true := by
  unfold isObsolete allContain
  simp only [List.all_map, List.all_eq_true, Function.comp]
  intro p _
  unfold strContains obsoleteName
  apply containsSub_of_prefix
  rw [String.toList_append]
  simp

theorem sublist_flatten {α : Type} {l1 l2 : List (List α)} (h : l1.Sublist l2) : l1.flatten.Sublist l2.flatten := by
  induction h with
  | slnil => exact List.Sublist.refl _
  | cons a _ ih => rw [List.flatten_cons]; exact ih.trans (List.sublist_append_right _ _)
  | cons_cons a _ ih => rw [List.flatten_cons, List.flatten_cons]; exact List.Sublist.append_left ih _

theorem uniqueIdx_of_all_in (N : Groups) (hnd : N.flatten.Nodup) (k : Nat) (g : List String) (x : PepInfo)
    (hk : N[k]? = some g) (hne : x.proteins ≠ []) (hall : ∀ p ∈ x.proteins, p ∈ g) :
    uniqueIdx N x = some k := by
  unfold uniqueIdx
  cases hp : x.proteins with
  | nil => exact absurd hp hne
  | cons p ps =>
    rw [hp] at hall
    simp only
    rw [idxOf_eq_of_nodup N hnd k g p hk (hall p List.mem_cons_self)]
    simp only
    have : ps.all (fun q => idxOf N q == some k) = true := by
      rw [List.all_eq_true]
      intro q hq
      rw [idxOf_eq_of_nodup N hnd k g q hk (hall q (List.mem_cons_of_mem _ hq))]
      simp
    simp [this]

/-- converse: a peptide unique to position `k` has all its proteins in the group at `k` -/
theorem uniqueIdx_spec (N : Groups) (k : Nat) (x : PepInfo) (h : uniqueIdx N x = some k) :
    x.proteins ≠ [] ∧ ∀ p ∈ x.proteins, p ∈ N.getD k [] := by
  unfold uniqueIdx at h
  cases hp : x.proteins with
  | nil => simp [hp] at h
  | cons p ps =>
    simp only [hp] at h
    cases hi : idxOf N p with
    | none => simp [hi] at h
    | some i =>
      simp only [hi] at h
      by_cases hall : ps.all (fun q => idxOf N q == some i) = true
      · simp only [hall, if_true, Option.some.injEq] at h
        subst h
        refine ⟨by simp, ?_⟩
        intro q hq
        rcases List.mem_cons.mp hq with rfl | hq
        · exact idxOf_mem N _ i hi
        · rw [List.all_eq_true] at hall
          have := hall q hq
          simp only [beq_iff_eq] at this
          exact idxOf_mem N q i this
      · simp [hall] at h

theorem mem_identifiedIdxs (N : Groups) (f : List PepInfo) (k : Nat) :
    k ∈ identifiedIdxs N f ↔ ∃ x ∈ f, uniqueIdx N x = some k := by
  simp [identifiedIdxs, List.mem_filterMap]

theorem closed_of_fresh_nil (ad : String → List String) (S : List String) (h : fresh ad S = []) :
    ∀ a ∈ S, ∀ b ∈ ad a, b ∈ S := by
  intro a ha b hb
  by_contra hnot
  have : b ∈ fresh ad S := (mem_fresh ad S b).mpr ⟨⟨a, ha, hb⟩, hnot⟩
  rw [h] at this; simp at this

theorem closed_complete (ad : String → List String) (S : List String) (hcl : ∀ a ∈ S, ∀ b ∈ ad a, b ∈ S)
    (s x : String) (hs : s ∈ S) (h : Relation.ReflTransGen (fun a b => b ∈ ad a) s x) : x ∈ S := by
  induction h with
  | refl => exact hs
  | tail _ hstep ih => exact hcl _ ih _ hstep

theorem iter_nodup (ad : String → List String) : ∀ (k : Nat) (S : List String), S.Nodup → (iter ad k S).Nodup := by
  intro k
  induction k with
  | zero => intro S h; exact h
  | succ k ih =>
    intro S hS
    simp only [iter]
    split
    · exact hS
    · apply ih
      rw [List.nodup_append]
      refine ⟨hS, nodup_dedup _, ?_⟩
      intro x hx y hy hxy
      subst hxy
      exact ((mem_fresh ad S x).mp hy).2 hx

/-- with enough fuel (the number of nodes not yet collected) the result is closed -/
theorem iter_closed (ad : String → List String) (U : List String)
    (hadj : ∀ a ∈ U, ∀ b ∈ ad a, b ∈ U) :
    ∀ (k : Nat) (S : List String), S.Nodup → (∀ x ∈ S, x ∈ U) → U.length ≤ S.length + k →
      ∀ a ∈ iter ad k S, ∀ b ∈ ad a, b ∈ iter ad k S := by
  intro k
  induction k with
  | zero =>
    intro S hS hSU hlen a ha b hb
    simp only [iter] at ha ⊢
    have hsub : S.Subperm U := List.subperm_of_subset hS hSU
    have hperm : S.Perm U := hsub.perm_of_length_le (by omega)
    exact hperm.symm.subset (hadj a (hSU a ha) b hb)
  | succ k ih =>
    intro S hS hSU hlen a ha b hb
    simp only [iter] at ha ⊢
    split
    · rename_i hnil
      simp only [hnil, if_true] at ha
      exact closed_of_fresh_nil ad S hnil a ha b hb
    · rename_i hne
      simp only [hne, if_false] at ha
      have hfd : (fresh ad S).Nodup := nodup_dedup _
      have hdisj : ∀ x ∈ S, x ∉ fresh ad S := fun x hx hxf => ((mem_fresh ad S x).mp hxf).2 hx
      have hS' : (S ++ fresh ad S).Nodup := by
        rw [List.nodup_append]
        exact ⟨hS, hfd, fun x hx y hy hxy => hdisj x hx (hxy ▸ hy)⟩
      have hSU' : ∀ x ∈ S ++ fresh ad S, x ∈ U := by
        intro x hx
        rcases List.mem_append.mp hx with hx | hx
        · exact hSU x hx
        · obtain ⟨⟨a', ha', hax⟩, _⟩ := (mem_fresh ad S x).mp hx
          exact hadj a' (hSU a' ha') x hax
      have hpos : 0 < (fresh ad S).length := List.length_pos_iff.mpr hne
      exact ih _ hS' hSU' (by simp only [List.length_append]; omega) a ha b hb

/-- the component of `s` in the sub-graph induced by `nodes` is exactly what is reachable from `s`
    inside the sub-graph.  The node list may contain repetitions. -/
theorem mem_component (es : List (String × String)) (nodes : List String) (s : String) (hs : s ∈ nodes) (x : String) :
    x ∈ component es nodes s ↔ Relation.ReflTransGen (fun a b => b ∈ adjIn es nodes a) s x := by
  constructor
  · intro h
    obtain ⟨s', hs', hr⟩ := iter_sound _ _ _ x h
    simp only [List.mem_singleton] at hs'; subst hs'; exact hr
  · intro h
    -- work with the duplicate-free node list for the counting argument
    have hadj : ∀ a ∈ dedup nodes, ∀ b ∈ adjIn es nodes a, b ∈ dedup nodes := by
      intro a _ b hb
      rw [mem_dedup]; exact ((mem_adjIn es nodes a b).mp hb).2.1
    have hlen : (dedup nodes).length ≤ nodes.length := by
      have : (dedup nodes).Subperm nodes :=
        List.subperm_of_subset (nodup_dedup nodes) (fun x hx => (mem_dedup nodes x).mp hx)
      exact this.length_le
    have hcl := iter_closed (adjIn es nodes) (dedup nodes) hadj nodes.length [s] (by simp)
      (by intro y hy; simp only [List.mem_singleton] at hy; subst hy; exact (mem_dedup nodes _).mpr hs)
      (by simp; omega)
    exact closed_complete _ _ hcl s x (iter_mono _ _ _ s (by simp)) h

/-- a group has a peptide of its own: some filtered peptide maps only to members of the group -/
def HasOwnPeptide (f : List PepInfo) (g : List String) : Prop :=
  ∃ x ∈ f, x.proteins ≠ [] ∧ ∀ p ∈ x.proteins, p ∈ g

theorem allNodes_closed (N : Groups) (f : List PepInfo) (a b : String) (_ha : a ∈ allNodes N f)
    (hb : b ∈ adj (edges N f) a) : b ∈ allNodes N f := by
  unfold allNodes at *
  rw [mem_dedup] at *
  rw [mem_adj] at hb
  have hsrc : ∀ u v, (u, v) ∈ edges N f → u ∈ protNodes N f := by
    intro u v h
    unfold edges at h
    simp only [List.mem_flatMap, List.mem_map, Prod.mk.injEq] at h
    obtain ⟨a', ha', x, _, rfl, _⟩ := h
    exact ha'
  rcases hb with hb | hb
  · exact List.mem_append_right _ (List.mem_map.mpr ⟨(a, b), hb, rfl⟩)
  · exact List.mem_append_left _ (hsrc b a hb)

theorem rtg_adjIn_of_conn (N : Groups) (f : List PepInfo) (s x : String) (hs : s ∈ allNodes N f)
    (h : Conn (edges N f) s x) :
    Relation.ReflTransGen (fun a b => b ∈ adjIn (edges N f) (allNodes N f) a) s x ∧ x ∈ allNodes N f := by
  induction h with
  | refl => exact ⟨Relation.ReflTransGen.refl, hs⟩
  | tail _ hstep ih =>
    have hb := allNodes_closed N f _ _ ih.2 hstep
    exact ⟨Relation.ReflTransGen.tail ih.1 ((mem_adjIn _ _ _ _).mpr ⟨ih.2, hb, hstep⟩), hb⟩

theorem collect_error {α β : Type} (f : α → Except String (List β)) :
    ∀ (l : List α) (e : String), collect f l = .error e → ∃ a ∈ l, f a = .error e := by
  intro l
  induction l with
  | nil => intro e h; simp [collect] at h
  | cons a t ih =>
    intro e h
    simp only [collect] at h
    cases hfa : f a with
    | error e' =>
      simp only [hfa, Except.error.injEq] at h
      subst h
      exact ⟨a, List.mem_cons_self, hfa⟩
    | ok x =>
      simp only [hfa] at h
      cases hct : collect f t with
      | error e' =>
        simp only [hct, Except.error.injEq] at h
        subst h
        obtain ⟨a', ha', h'⟩ := ih e' hct
        exact ⟨a', List.mem_cons_of_mem _ ha', h'⟩
      | ok y => simp [hct] at h

theorem splitLoop_error (es : List (String × String)) (nodes B : List String) (cuts : CutMap) :
    ∀ (ps : List (String × String)) (seen best : List (List String)) (e : String),
      splitLoop es nodes B cuts ps seen best = .error e → e = "cut_lookup_miss" ∨ e = "empty_cut" := by
  intro ps
  induction ps with
  | nil => intro seen best e h; simp [splitLoop] at h
  | cons st rest ih =>
    intro seen best e h
    obtain ⟨s, t⟩ := st
    simp only [splitLoop] at h
    cases hl : List.lookup (sortDedup nodes, s, t) cuts with
    | none => simp only [hl, Except.error.injEq] at h; exact Or.inl h.symm
    | some cut0 =>
      simp only [hl] at h
      by_cases hne : sortDedup cut0 = []
      · simp only [hne, if_true, Except.error.injEq] at h; exact Or.inr h.symm
      · simp only [hne, if_false] at h
        split at h
        · split at h
          · split at h
            · simp at h
            · exact ih _ _ e h
          · exact ih _ _ e h
        · exact ih _ _ e h

theorem component_nodup (es : List (String × String)) (nodes : List String) (s : String) :
    (component es nodes s).Nodup := iter_nodup _ _ _ (by simp)

theorem comps_nodup (es : List (String × String)) (nodes : List String) (c : List String)
    (h : c ∈ comps es nodes) : c.Nodup := by
  obtain ⟨s, _, rfl⟩ := comps_spec es nodes c h
  exact component_nodup es nodes s

/-- a component of the sub-graph without a non-empty set of its nodes is shorter than the node list -/
theorem comp_length_lt (es : List (String × String)) (nodes cut : List String) (x : String) (hx : x ∈ cut)
    (hxn : x ∈ nodes) (c : List String) (hc : c ∈ comps es (nodes.filter (fun y => decide (y ∉ cut)))) :
    c.length < nodes.length := by
  have hsub : c.Subperm (nodes.filter (fun y => decide (y ∉ cut))) :=
    List.subperm_of_subset (comps_nodup es _ c hc) (comps_sound es _ c hc).1
  have h1 := hsub.length_le
  have h2 : (nodes.filter (fun y => decide (y ∉ cut))).length < nodes.length := by
    rw [List.length_filter_lt_length_iff_exists]
    exact ⟨x, hxn, by simp [hx]⟩
  omega

/-- the decoupling never runs out of fuel: the only errors come from the recorded cut map -/
theorem decouple_error (es : List (String × String)) (cuts : CutMap) (isProt : String → Bool) :
    ∀ (fuel : Nat) (nodes : List String) (e : String), nodes.length < fuel →
      decouple es cuts isProt fuel nodes = .error e → e = "cut_lookup_miss" ∨ e = "empty_cut" := by
  intro fuel
  induction fuel with
  | zero => intro nodes e h; omega
  | succ fuel ih =>
    intro nodes e hlen h
    simp only [decouple] at h
    by_cases hA : (sortDedup (nodes.filter isProt)).length ≤ 1
    · simp [hA] at h
    · simp only [hA, if_false] at h
      cases hs : splitLoop es nodes (sortDedup (nodes.filter (fun x => !isProt x))) cuts
          (pairs (sortDedup (nodes.filter isProt))) [] [] with
      | error e' =>
        simp only [hs, Except.error.injEq] at h
        subst h
        exact splitLoop_error _ _ _ _ _ _ _ _ hs
      | ok subs =>
        simp only [hs] at h
        cases subs with
        | nil => simp at h
        | cons s0 subs =>
          simp only at h
          obtain ⟨c, hc, hce⟩ := collect_error _ _ _ h
          rcases splitLoop_spec es nodes _ cuts _ _ _ _ hs with hb | ⟨cut, hne, hB, hsub, _⟩
          · simp at hb
          · rw [hsub] at hc
            obtain ⟨x, hx⟩ := List.exists_mem_of_ne_nil cut hne
            have hxn : x ∈ nodes := by
              have := hB x hx
              rw [mem_sortDedup] at this
              exact (List.mem_filter.mp this).1
            have := comp_length_lt es nodes cut x hx hxn c hc
            exact ih c e (by omega) hce

/-! ### components: cover, disjointness, connectivity inside a sub-graph -/

/-- connected inside the sub-graph induced by `nodes` -/
def ConnIn (es : List (String × String)) (nodes : List String) (a b : String) : Prop :=
  Relation.ReflTransGen (fun a b => b ∈ adjIn es nodes a) a b

theorem adjIn_symm (es : List (String × String)) (nodes : List String) (a b : String)
    (h : b ∈ adjIn es nodes a) : a ∈ adjIn es nodes b := by
  rw [mem_adjIn] at *
  exact ⟨h.2.1, h.1, adj_symm es a b h.2.2⟩

theorem connIn_symm (es : List (String × String)) (nodes : List String) (a b : String)
    (h : ConnIn es nodes a b) : ConnIn es nodes b a := by
  unfold ConnIn at *
  induction h with
  | refl => exact Relation.ReflTransGen.refl
  | tail _ hstep ih => exact Relation.ReflTransGen.head (adjIn_symm es nodes _ _ hstep) ih

theorem connIn_trans (es : List (String × String)) (nodes : List String) (a b c : String)
    (h1 : ConnIn es nodes a b) (h2 : ConnIn es nodes b c) : ConnIn es nodes a c :=
  Relation.ReflTransGen.trans h1 h2

theorem connIn_congr (es : List (String × String)) (n1 n2 : List String) (hmem : ∀ x, x ∈ n1 ↔ x ∈ n2)
    (a b : String) (h : ConnIn es n1 a b) : ConnIn es n2 a b := by
  unfold ConnIn at *
  induction h with
  | refl => exact Relation.ReflTransGen.refl
  | tail _ hstep ih =>
    refine Relation.ReflTransGen.tail ih ?_
    rw [mem_adjIn] at *
    exact ⟨(hmem _).mp hstep.1, (hmem _).mp hstep.2.1, hstep.2.2⟩

theorem mem_component_iff (es : List (String × String)) (nodes : List String) (s : String) (hs : s ∈ nodes)
    (x : String) : x ∈ component es nodes s ↔ ConnIn es nodes s x := mem_component es nodes s hs x

/-- disjointness of two lists -/
def Disj (a b : List String) : Prop := ∀ x ∈ a, x ∉ b

theorem compsAux_cover (es : List (String × String)) (nodes : List String) :
    ∀ (k : Nat) (l : List String), l.length ≤ k → ∀ x ∈ l, ∃ c ∈ compsAux es nodes k l, x ∈ c := by
  intro k
  induction k with
  | zero =>
    intro l hl x hx
    have : l = [] := List.length_eq_zero_iff.mp (by omega)
    subst this; simp at hx
  | succ k ih =>
    intro l hl x hx
    cases l with
    | nil => simp at hx
    | cons s rest =>
      simp only [compsAux]
      by_cases hxc : x ∈ component es nodes s
      · exact ⟨_, List.mem_cons_self, hxc⟩
      · rcases List.mem_cons.mp hx with rfl | hxr
        · exact absurd (seed_mem_component es nodes x) hxc
        · have hxf : x ∈ rest.filter (fun y => decide (y ∉ component es nodes s)) := by
            simp [List.mem_filter, hxr, hxc]
          have hlen : (rest.filter (fun y => decide (y ∉ component es nodes s))).length ≤ k := by
            have := List.length_filter_le (fun y => decide (y ∉ component es nodes s)) rest
            simp only [List.length_cons] at hl
            omega
          obtain ⟨c, hc, hxc'⟩ := ih _ hlen x hxf
          exact ⟨c, List.mem_cons_of_mem _ hc, hxc'⟩

theorem comps_cover (es : List (String × String)) (nodes : List String) (x : String) (hx : x ∈ nodes) :
    ∃ c ∈ comps es nodes, x ∈ c := compsAux_cover es nodes _ nodes (Nat.le_refl _) x hx

theorem compsAux_disj (es : List (String × String)) (nodes : List String) :
    ∀ (k : Nat) (l : List String), (∀ x ∈ l, x ∈ nodes) → (compsAux es nodes k l).Pairwise Disj := by
  intro k
  induction k with
  | zero => intro l _; simp [compsAux]
  | succ k ih =>
    intro l hl
    cases l with
    | nil => simp [compsAux]
    | cons s rest =>
      simp only [compsAux]
      rw [List.pairwise_cons]
      have hs : s ∈ nodes := hl s List.mem_cons_self
      constructor
      · intro c' hc' x hx hx'
        obtain ⟨s', hs', rfl⟩ := compsAux_spec es nodes _ _ c' hc'
        have hs'm := List.mem_filter.mp hs'
        have hs'n : s' ∈ nodes := hl s' (List.mem_cons_of_mem _ hs'm.1)
        have h1 := (mem_component_iff es nodes s hs x).mp hx
        have h2 := (mem_component_iff es nodes s' hs'n x).mp hx'
        have : s' ∈ component es nodes s :=
          (mem_component_iff es nodes s hs s').mpr (connIn_trans es nodes s x s' h1 (connIn_symm es nodes s' x h2))
        simpa [this] using hs'm.2
      · exact ih _ (fun x hx => hl x (List.mem_cons_of_mem _ (List.mem_filter.mp hx).1))

theorem comps_disj (es : List (String × String)) (nodes : List String) : (comps es nodes).Pairwise Disj :=
  compsAux_disj es nodes _ nodes (fun _ h => h)

/-- members of one component are connected inside the sub-graph -/
theorem comps_connIn (es : List (String × String)) (nodes : List String) (c : List String)
    (h : c ∈ comps es nodes) (x y : String) (hx : x ∈ c) (hy : y ∈ c) : ConnIn es nodes x y := by
  obtain ⟨s, hs, rfl⟩ := comps_spec es nodes c h
  exact connIn_trans es nodes x s y
    (connIn_symm es nodes s x ((mem_component_iff es nodes s hs x).mp hx))
    ((mem_component_iff es nodes s hs y).mp hy)

/-! ### inseparable components -/

/-- executable reading of `SeparableSet` below, through the model's component function: some non-empty
    set of pseudo-peptide nodes whose removal leaves at least two components, each of at least two nodes -/
def Separable (es : List (String × String)) (isProt : String → Bool) (c : List String) : Prop :=
  ∃ cut : List String, cut ≠ [] ∧ (∀ x ∈ cut, x ∈ c ∧ isProt x = false) ∧
    2 ≤ (comps es (c.filter (fun x => decide (x ∉ cut)))).length ∧
    ∀ part ∈ comps es (c.filter (fun x => decide (x ∉ cut))), 2 ≤ part.length

theorem collect_ok_mem {α β : Type} (f : α → Except String (List β)) :
    ∀ (l : List α) (r : List β), collect f l = .ok r → ∀ a ∈ l, ∃ x, f a = .ok x ∧ ∀ b ∈ x, b ∈ r := by
  intro l
  induction l with
  | nil => intro r _ a ha; simp at ha
  | cons a0 t ih =>
    intro r h a ha
    simp only [collect] at h
    cases hfa : f a0 with
    | error e => simp [hfa] at h
    | ok x =>
      simp only [hfa] at h
      cases hct : collect f t with
      | error e => simp [hct] at h
      | ok y =>
        simp only [hct, Except.ok.injEq] at h
        subst h
        rcases List.mem_cons.mp ha with rfl | ha
        · exact ⟨x, hfa, fun b hb => List.mem_append_left _ hb⟩
        · obtain ⟨x', hx', hsub⟩ := ih y hct a ha
          exact ⟨x', hx', fun b hb => List.mem_append_right _ (hsub b hb)⟩

/-- results computed from pairwise disjoint node lists, each staying inside its node list, are
    pairwise disjoint -/
theorem collect_pairwise (f : List String → Except String (List (List String))) :
    ∀ (l : List (List String)) (r : List (List String)), collect f l = .ok r → l.Pairwise Disj →
      (∀ a ∈ l, ∀ x, f a = .ok x → x.Pairwise Disj ∧ ∀ leaf ∈ x, ∀ y ∈ leaf, y ∈ a) → r.Pairwise Disj := by
  intro l
  induction l with
  | nil => intro r h _ _; simp only [collect, Except.ok.injEq] at h; subst h; exact List.Pairwise.nil
  | cons a t ih =>
    intro r h hl hin
    simp only [collect] at h
    cases hfa : f a with
    | error e => simp [hfa] at h
    | ok x =>
      simp only [hfa] at h
      cases hct : collect f t with
      | error e => simp [hct] at h
      | ok y =>
        simp only [hct, Except.ok.injEq] at h
        subst h
        rw [List.pairwise_cons] at hl
        rw [List.pairwise_append]
        refine ⟨(hin a List.mem_cons_self x hfa).1,
          ih y hct hl.2 (fun a' ha' => hin a' (List.mem_cons_of_mem _ ha')), ?_⟩
        intro leaf hleaf leaf' hleaf' z hz hz'
        obtain ⟨a', ha', x', hx', hl'⟩ := collect_ok f t y hct leaf' hleaf'
        have h1 := (hin a List.mem_cons_self x hfa).2 leaf hleaf z hz
        have h2 := (hin a' (List.mem_cons_of_mem _ ha') x' hx').2 leaf' hl' z hz'
        exact hl.1 a' ha' z h1 h2

theorem decouple_disj (es : List (String × String)) (cuts : CutMap) (isProt : String → Bool) :
    ∀ (fuel : Nat) (nodes : List String) (lvs : List (List String)),
      decouple es cuts isProt fuel nodes = .ok lvs → lvs.Pairwise Disj := by
  intro fuel
  induction fuel with
  | zero => intro nodes lvs h; simp [decouple] at h
  | succ fuel ih =>
    intro nodes lvs h
    have h0 := h
    simp only [decouple] at h
    by_cases hlen : (sortDedup (nodes.filter isProt)).length ≤ 1
    · simp only [hlen, if_true, Except.ok.injEq] at h; subst h; simp
    · simp only [hlen, if_false] at h
      cases hs : splitLoop es nodes (sortDedup (nodes.filter (fun x => !isProt x))) cuts
          (pairs (sortDedup (nodes.filter isProt))) [] [] with
      | error e => simp [hs] at h
      | ok subs =>
        simp only [hs] at h
        cases subs with
        | nil => simp only [Except.ok.injEq] at h; subst h; simp
        | cons s0 subs =>
          simp only at h
          rcases splitLoop_spec es nodes _ cuts _ _ _ _ hs with hb | ⟨cut, _, _, hsub, _⟩
          · simp at hb
          · apply collect_pairwise _ _ _ h
            · rw [hsub]; exact comps_disj es _
            · intro a _ x hx
              exact ⟨ih a x hx, fun leaf hleaf y hy => (decouple_spec es cuts isProt fuel a x hx leaf hleaf).2.2 y hy⟩

theorem leaves_disj (N : Groups) (f : List PepInfo) (cuts : CutMap) (lvs : List (List String))
    (h : leaves N f cuts = .ok lvs) : lvs.Pairwise Disj := by
  unfold leaves at h
  apply collect_pairwise _ _ _ h (comps_disj _ _)
  intro a _ x hx
  exact ⟨decouple_disj _ _ _ _ a x hx, fun leaf hleaf y hy => (decouple_spec _ _ _ _ a x hx leaf hleaf).2.2 y hy⟩

theorem protNode_idx_ne (N : Groups) (f : List PepInfo) (hnd : N.flatten.Nodup) (x y : String)
    (hx : x ∈ protNodes N f) (hy : y ∈ protNodes N f) (hne : x ≠ y) : idxOf N x ≠ idxOf N y :=
  fun h => hne (protNode_idx_inj N f hnd x y hx hy h)

/-- merging the members of one leaf gathers their groups in the slot of the leaf's first protein -/
theorem applyLeaf_gather (N : Groups) (f : List PepInfo) (hnd : N.flatten.Nodup) (l0 : String)
    (hl0 : l0 ∈ protNodes N f) (i0 : Nat) (hi0 : idxOf N l0 = some i0) :
    ∀ (rest : List String) (gs : Groups), gs.length = N.length → rest.Nodup → l0 ∉ rest →
      (∀ p ∈ rest, p ∈ protNodes N f) →
      (∀ p ∈ rest, ∀ i, idxOf N p = some i → ∀ q ∈ N.getD i [], q ∈ gs.getD i []) →
      (rest.foldl (fun acc p => mergeGroups (idxOf N) acc l0 p) gs).length = N.length ∧
      (∀ q ∈ gs.getD i0 [], q ∈ (rest.foldl (fun acc p => mergeGroups (idxOf N) acc l0 p) gs).getD i0 []) ∧
      (∀ p ∈ rest, ∀ i, idxOf N p = some i → ∀ q ∈ N.getD i [],
        q ∈ (rest.foldl (fun acc p => mergeGroups (idxOf N) acc l0 p) gs).getD i0 []) := by
  intro rest
  induction rest with
  | nil => intro gs hlen _ _ _ _; exact ⟨hlen, fun q hq => hq, fun p hp => by simp at hp⟩
  | cons p t ih =>
    intro gs hlen hnodup hl0r hprot hin
    simp only [List.foldl_cons]
    have hpn : p ∈ protNodes N f := hprot p List.mem_cons_self
    obtain ⟨j, hj, hjlt, _, _⟩ := protNode_spec N f hnd p hpn
    have hi0lt : i0 < N.length := idxOf_lt N l0 i0 hi0
    have hl0p : l0 ≠ p := fun h => hl0r (h ▸ List.mem_cons_self)
    have hij : i0 ≠ j := by
      intro h
      have := protNode_idx_ne N f hnd l0 p hl0 hpn hl0p
      rw [hi0, hj, h] at this; exact this rfl
    have hm : mergeGroups (idxOf N) gs l0 p = mergeStep gs i0 j := by simp [mergeGroups, hi0, hj, mergeStep]
    rw [hm]
    have hnd' := List.nodup_cons.mp hnodup
    have hstep_len : (mergeStep gs i0 j).length = N.length := by rw [mergeStep_length, hlen]
    have hin' : ∀ p' ∈ t, ∀ i, idxOf N p' = some i → ∀ q ∈ N.getD i [], q ∈ (mergeStep gs i0 j).getD i [] := by
      intro p' hp' i hi q hq
      have hp'n : p' ∈ protNodes N f := hprot p' (List.mem_cons_of_mem _ hp')
      have hpp' : p ≠ p' := fun h => hnd'.1 (h ▸ hp')
      have hl0p' : l0 ≠ p' := fun h => hl0r (h ▸ List.mem_cons_of_mem _ hp')
      have hij' : i ≠ j := by
        intro h
        have := protNode_idx_ne N f hnd p p' hpn hp'n hpp'
        rw [hj, hi, h] at this; exact this rfl
      have hii0 : i ≠ i0 := by
        intro h
        have := protNode_idx_ne N f hnd l0 p' hl0 hp'n hl0p'
        rw [hi0, hi, h] at this; exact this rfl
      rw [mergeStep_getD gs i0 j i hij (by omega) (by omega)]
      simp only [hij', hii0, if_false]
      exact hin p' (List.mem_cons_of_mem _ hp') i hi q hq
    obtain ⟨h1, h2, h3⟩ := ih (mergeStep gs i0 j) hstep_len hnd'.2
      (fun h => hl0r (List.mem_cons_of_mem _ h)) (fun p' hp' => hprot p' (List.mem_cons_of_mem _ hp')) hin'
    have hi0' : (mergeStep gs i0 j).getD i0 [] = gs.getD i0 [] ++ gs.getD j [] := by
      rw [mergeStep_getD gs i0 j i0 hij (by omega) (by omega)]
      simp [hij]
    refine ⟨h1, ?_, ?_⟩
    · intro q hq
      apply h2; rw [hi0']; exact List.mem_append_left _ hq
    · intro p' hp' i hi q hq
      rcases List.mem_cons.mp hp' with rfl | hp'
      · rw [hj] at hi
        simp only [Option.some.injEq] at hi; subst hi
        apply h2; rw [hi0']
        exact List.mem_append_right _ (hin p' List.mem_cons_self j hj q hq)
      · exact h3 p' hp' i hi q hq

theorem applyLeaves_append (idx : String → Option Nat) (gs : Groups) (a b : List (List String)) :
    applyLeaves idx gs (a ++ b) = applyLeaves idx (applyLeaves idx gs a) b := by
  simp [applyLeaves, List.foldl_append]

theorem goodLeaves_sub (N : Groups) (f : List PepInfo) (lvs sub : List (List String)) (hg : GoodLeaves N f lvs)
    (hs : ∀ l ∈ sub, l ∈ lvs) : GoodLeaves N f sub := fun leaf hleaf => hg leaf (hs leaf hleaf)

/-- the groups of all members of a leaf end in the slot of the leaf's first protein -/
theorem applyLeaves_gather (N : Groups) (f : List PepInfo) (hnd : N.flatten.Nodup) (lvs : List (List String))
    (hg : GoodLeaves N f lvs) (hd : lvs.Pairwise Disj) (l0 : String) (rest : List String)
    (hL : (l0 :: rest) ∈ lvs) (i0 : Nat) (hi0 : idxOf N l0 = some i0) :
    ∀ p ∈ l0 :: rest, ∀ i, idxOf N p = some i → ∀ q ∈ N.getD i [],
      q ∈ (applyLeaves (idxOf N) N lvs).getD i0 [] := by
  obtain ⟨pre, post, rfl⟩ := List.append_of_mem hL
  rw [List.pairwise_append] at hd
  obtain ⟨_, hdpost, hdpre⟩ := hd
  rw [List.pairwise_cons] at hdpost
  have hgL := hg (l0 :: rest) hL
  have hl0n : l0 ∈ protNodes N f := hgL.2 l0 List.mem_cons_self
  have hLnd := List.nodup_cons.mp hgL.1
  -- phase 1: the leaves before `L` leave the slots of `L` alone
  have hpre : (applyLeaves (idxOf N) N pre).length = N.length ∧
      ∀ p ∈ l0 :: rest, ∀ i, idxOf N p = some i → (applyLeaves (idxOf N) N pre).getD i [] = N.getD i [] := by
    apply applyLeaves_inv (idxOf N) (fun gs => gs.length = N.length ∧
      ∀ p ∈ l0 :: rest, ∀ i, idxOf N p = some i → gs.getD i [] = N.getD i []) pre N
    · intro gs l p hp ⟨hlen, hb⟩
      obtain ⟨r', hm', hp'⟩ := hp
      have hmp : MergePair (pre ++ (l0 :: rest) :: post) l p := ⟨r', List.mem_append_left _ hm', hp'⟩
      obtain ⟨i, j, hi, hj, hij, hilt, hjlt, _, _, _, _, hm⟩ := mergePair_spec N f hnd _ hg l p hmp
      rw [hm gs]
      refine ⟨by rw [mergeStep_length, hlen], ?_⟩
      intro x hx k hk
      have hgl := hg (l :: r') (List.mem_append_left _ hm')
      have hxn : x ∈ protNodes N f := hgL.2 x hx
      have hdis := hdpre (l :: r') hm' (l0 :: rest) List.mem_cons_self
      have hxl : x ≠ l := fun h => hdis l List.mem_cons_self (h ▸ hx)
      have hxp : x ≠ p := fun h => hdis p (List.mem_cons_of_mem _ hp') (h ▸ hx)
      have hki : k ≠ i := by
        intro h
        have := protNode_idx_ne N f hnd x l hxn (hgl.2 l List.mem_cons_self) hxl
        rw [hk, hi, h] at this; exact this rfl
      have hkj : k ≠ j := by
        intro h
        have := protNode_idx_ne N f hnd x p hxn (hgl.2 p (List.mem_cons_of_mem _ hp')) hxp
        rw [hk, hj, h] at this; exact this rfl
      rw [mergeStep_getD gs i j k hij (by omega) (by omega)]
      simp only [hkj, hki, if_false]
      exact hb x hx k hk
    · exact ⟨rfl, fun _ _ _ _ => rfl⟩
  -- phase 2: the merges of `L`
  have hmid := applyLeaf_gather N f hnd l0 hl0n i0 hi0 rest (applyLeaves (idxOf N) N pre) hpre.1 hLnd.2 hLnd.1
    (fun p hp => hgL.2 p (List.mem_cons_of_mem _ hp))
    (fun p hp i hi q hq => by rw [hpre.2 p (List.mem_cons_of_mem _ hp) i hi]; exact hq)
  have hmid' : (applyLeaf (idxOf N) (applyLeaves (idxOf N) N pre) (l0 :: rest)).length = N.length ∧
      ∀ p ∈ l0 :: rest, ∀ i, idxOf N p = some i → ∀ q ∈ N.getD i [],
        q ∈ (applyLeaf (idxOf N) (applyLeaves (idxOf N) N pre) (l0 :: rest)).getD i0 [] := by
    simp only [applyLeaf]
    refine ⟨hmid.1, ?_⟩
    intro p hp i hi q hq
    rcases List.mem_cons.mp hp with rfl | hp
    · rw [hi0] at hi
      simp only [Option.some.injEq] at hi; subst hi
      apply hmid.2.1
      rw [hpre.2 p List.mem_cons_self i0 hi0]; exact hq
    · exact hmid.2.2 p hp i hi q hq
  -- phase 3: the leaves after `L` never empty the slot
  rw [applyLeaves_append]
  simp only [applyLeaves, List.foldl_cons]
  have hpost := applyLeaves_inv (idxOf N) (fun gs => gs.length = N.length ∧
      ∀ p ∈ l0 :: rest, ∀ i, idxOf N p = some i → ∀ q ∈ N.getD i [], q ∈ gs.getD i0 []) post
      (applyLeaf (idxOf N) (applyLeaves (idxOf N) N pre) (l0 :: rest)) ?_ hmid'
  · exact hpost.2
  · intro gs l p hp ⟨hlen, hb⟩
    obtain ⟨r', hm', hp'⟩ := hp
    have hmp : MergePair (pre ++ (l0 :: rest) :: post) l p :=
      ⟨r', List.mem_append_right _ (List.mem_cons_of_mem _ hm'), hp'⟩
    obtain ⟨i, j, hi, hj, hij, hilt, hjlt, _, _, _, _, hm⟩ := mergePair_spec N f hnd _ hg l p hmp
    rw [hm gs]
    refine ⟨by rw [mergeStep_length, hlen], ?_⟩
    intro x hx k hk q hq
    have hgl := hg (l :: r') (List.mem_append_right _ (List.mem_cons_of_mem _ hm'))
    have hdis := hdpost.1 (l :: r') hm'
    have hl0p : l0 ≠ p := fun h => hdis l0 List.mem_cons_self (h ▸ List.mem_cons_of_mem _ hp')
    have hi0j : i0 ≠ j := by
      intro h
      have := protNode_idx_ne N f hnd l0 p hl0n (hgl.2 p (List.mem_cons_of_mem _ hp')) hl0p
      rw [hi0, hj, h] at this; exact this rfl
    rw [mergeStep_getD gs i j i0 hij (by omega) (by omega)]
    simp only [hi0j, if_false]
    by_cases hi0i : i0 = i
    · simp only [hi0i, if_true]
      exact List.mem_append_left _ (hi0i ▸ hb x hx k hk q hq)
    · simp only [hi0i, if_false]
      exact hb x hx k hk q hq

/-! ### the cutoff score -/

theorem minRat_spec : ∀ (l : List Rat) (m : Rat), minRat l = some m → m ∈ l ∧ ∀ x ∈ l, m ≤ x := by
  intro l
  induction l with
  | nil => intro m h; simp [minRat] at h
  | cons a r ih =>
    intro m h
    simp only [minRat] at h
    cases hr : minRat r with
    | none =>
      simp only [hr, Option.some.injEq] at h
      subst h
      have : r = [] := by
        cases r with
        | nil => rfl
        | cons b t =>
          simp only [minRat] at hr
          cases h' : minRat t <;> simp [h'] at hr
      subst this
      simp
    | some m' =>
      simp only [hr, Option.some.injEq] at h
      obtain ⟨hm', hle⟩ := ih m' hr
      by_cases ha : a ≤ m'
      · simp only [ha, if_true] at h
        subst h
        refine ⟨List.mem_cons_self, ?_⟩
        intro x hx
        rcases List.mem_cons.mp hx with rfl | hx
        · exact le_refl _
        · exact le_trans ha (hle x hx)
      · simp only [ha, if_false] at h
        subst h
        refine ⟨List.mem_cons_of_mem _ hm', ?_⟩
        intro x hx
        rcases List.mem_cons.mp hx with rfl | hx
        · exact le_of_lt (lt_of_not_ge ha)
        · exact hle x hx

theorem minRat_none (l : List Rat) : minRat l = none ↔ l = [] := by
  cases l with
  | nil => simp [minRat]
  | cons a r =>
    simp only [minRat]
    cases minRat r <;> simp

/-! ### inseparable components, for every cut map -/

/-- a connected set `c` of nodes can be separated by removing shared peptides: some non-empty set of
    pseudo-peptide nodes of `c` leaves at least two parts (two remaining nodes are no longer connected)
    and every part keeps at least two nodes (every remaining node is still connected to another one) -/
def SeparableSet (es : List (String × String)) (isProt : String → Bool) (c : List String) : Prop :=
  ∃ cut : List String, cut ≠ [] ∧ (∀ x ∈ cut, x ∈ c ∧ isProt x = false) ∧
    (∃ x y, x ∈ c ∧ x ∉ cut ∧ y ∈ c ∧ y ∉ cut ∧ ¬ ConnIn es (c.filter (fun z => decide (z ∉ cut))) x y) ∧
    (∀ x, x ∈ c → x ∉ cut → ∃ y, y ≠ x ∧ ConnIn es (c.filter (fun z => decide (z ∉ cut))) x y)

theorem two_le_length_of_two_mem {α : Type} (l : List α) (x y : α) (hx : x ∈ l) (hy : y ∈ l) (hne : x ≠ y) :
    2 ≤ l.length := by
  match l, hx, hy with
  | [], hx, _ => simp at hx
  | [a], hx, hy =>
    simp only [List.mem_singleton] at hx hy
    exact absurd (hx.trans hy.symm) hne
  | _ :: _ :: _, _, _ => simp

/-- the executable reading of `SeparableSet` (what the model's component function computes) -/
theorem separable_of_separableSet (es : List (String × String)) (isProt : String → Bool) (c : List String)
    (h : SeparableSet es isProt c) : Separable es isProt c := by
  obtain ⟨cut, hne, hcut, ⟨x, y, hx, hxc, hy, hyc, hnot⟩, hpart⟩ := h
  refine ⟨cut, hne, hcut, ?_, ?_⟩
  · by_contra hlt
    have hxF : x ∈ c.filter (fun z => decide (z ∉ cut)) := by simp [List.mem_filter, hx, hxc]
    have hyF : y ∈ c.filter (fun z => decide (z ∉ cut)) := by simp [List.mem_filter, hy, hyc]
    obtain ⟨c1, hc1, hx1⟩ := comps_cover es _ x hxF
    obtain ⟨c2, hc2, hy2⟩ := comps_cover es _ y hyF
    have hc12 : c1 = c2 := by
      have hl1 : (comps es (c.filter (fun z => decide (z ∉ cut)))).length ≤ 1 := by omega
      match hcs : comps es (c.filter (fun z => decide (z ∉ cut))), hl1 with
      | [], _ => rw [hcs] at hc1; simp at hc1
      | [a], _ =>
        rw [hcs] at hc1 hc2
        simp only [List.mem_singleton] at hc1 hc2
        rw [hc1, hc2]
      | _ :: _ :: _, h2 => simp at h2
    subst hc12
    exact hnot (comps_connIn es _ c1 hc1 x y hx1 hy2)
  · intro part hp
    obtain ⟨s, hs, rfl⟩ := comps_spec es _ part hp
    have hs' := List.mem_filter.mp hs
    obtain ⟨y, hys, hconn⟩ := hpart s hs'.1 (by simpa using hs'.2)
    exact two_le_length_of_two_mem _ s y (seed_mem_component es _ s)
      ((mem_component_iff es _ s hs y).mpr hconn) (Ne.symm hys)

/-- an inseparable connected set ends as one leaf holding all its protein nodes — for *every* cut map.
    `R` collects the pseudo-peptide nodes removed so far; as long as `c` is inseparable every accepted
    cut leaves a single part, so the tree is a path and no protein node is ever split off. -/
theorem decouple_inseparable_gen (es : List (String × String)) (cuts : CutMap) (isProt : String → Bool)
    (c : List String) (hins : ¬ SeparableSet es isProt c) :
    ∀ (fuel : Nat) (nodes R : List String) (lvs : List (List String)),
      (∀ x ∈ R, x ∈ c ∧ isProt x = false) → (∀ x, x ∈ nodes ↔ x ∈ c ∧ x ∉ R) →
      decouple es cuts isProt fuel nodes = .ok lvs →
      ∃ leaf, lvs = [leaf] ∧ ∀ x, x ∈ leaf ↔ x ∈ c ∧ isProt x = true := by
  intro fuel
  induction fuel with
  | zero => intro nodes R lvs _ _ h; simp [decouple] at h
  | succ fuel ih =>
    intro nodes R lvs hR hnodes h
    have hleafA : ∀ x, x ∈ sortDedup (nodes.filter isProt) ↔ x ∈ c ∧ isProt x = true := by
      intro x
      rw [mem_sortDedup, List.mem_filter, hnodes]
      constructor
      · rintro ⟨⟨hc, _⟩, hp⟩; exact ⟨hc, hp⟩
      · rintro ⟨hc, hp⟩
        refine ⟨⟨hc, fun hr => ?_⟩, hp⟩
        have := (hR x hr).2
        rw [hp] at this; simp at this
    simp only [decouple] at h
    by_cases hA : (sortDedup (nodes.filter isProt)).length ≤ 1
    · simp only [hA, if_true, Except.ok.injEq] at h
      exact ⟨_, h.symm, hleafA⟩
    · simp only [hA, if_false] at h
      cases hs : splitLoop es nodes (sortDedup (nodes.filter (fun x => !isProt x))) cuts
          (pairs (sortDedup (nodes.filter isProt))) [] [] with
      | error e => simp [hs] at h
      | ok subs =>
        simp only [hs] at h
        cases subs with
        | nil =>
          simp only [Except.ok.injEq] at h
          exact ⟨_, h.symm, hleafA⟩
        | cons s0 subs =>
          simp only at h
          rcases splitLoop_spec es nodes _ cuts _ _ _ _ hs with hb | ⟨cut, hne, hB, hsub, hlen⟩
          · simp at hb
          · -- the removed nodes so far, plus this cut
            have hcut : ∀ x ∈ cut, x ∈ c ∧ isProt x = false ∧ x ∈ nodes := by
              intro x hx
              have := hB x hx
              rw [mem_sortDedup] at this
              have hm := List.mem_filter.mp this
              exact ⟨((hnodes x).mp hm.1).1, by simpa using hm.2, hm.1⟩
            have hR' : ∀ x ∈ R ++ cut, x ∈ c ∧ isProt x = false := by
              intro x hx
              rcases List.mem_append.mp hx with hx | hx
              · exact hR x hx
              · exact ⟨(hcut x hx).1, (hcut x hx).2.1⟩
            have hmemF : ∀ x, x ∈ nodes.filter (fun z => decide (z ∉ cut)) ↔
                x ∈ c.filter (fun z => decide (z ∉ R ++ cut)) := by
              intro x
              simp only [List.mem_filter, decide_eq_true_eq, hnodes, List.mem_append, not_or]
              tauto
            -- all parts are of size ≥ 2 and pairwise not connected: at most one part, or `c` is separable
            have hparts2 : ∀ part ∈ s0 :: subs, 2 ≤ part.length := by
              intro part hp
              have h1 := hlen part hp
              have h2 : part ≠ [] := (comps_sound es _ part (hsub ▸ hp)).2.2
              have : part.length ≠ 0 := fun h0 => h2 (List.length_eq_zero_iff.mp h0)
              omega
            have hone : subs = [] := by
              by_contra hsubs
              apply hins
              obtain ⟨s1, subs', rfl⟩ := List.exists_cons_of_ne_nil hsubs
              have hdisj : (s0 :: s1 :: subs').Pairwise Disj := hsub ▸ comps_disj es _
              have hs0m : s0 ∈ comps es (nodes.filter (fun z => decide (z ∉ cut))) := hsub ▸ List.mem_cons_self
              have hs1m : s1 ∈ comps es (nodes.filter (fun z => decide (z ∉ cut))) :=
                hsub ▸ List.mem_cons_of_mem _ List.mem_cons_self
              obtain ⟨x, hx⟩ := List.exists_mem_of_ne_nil s0 (comps_sound es _ s0 hs0m).2.2
              obtain ⟨y, hy⟩ := List.exists_mem_of_ne_nil s1 (comps_sound es _ s1 hs1m).2.2
              have hxF := (comps_sound es _ s0 hs0m).1 x hx
              have hyF := (comps_sound es _ s1 hs1m).1 y hy
              have hxF' := List.mem_filter.mp ((hmemF x).mp hxF)
              have hyF' := List.mem_filter.mp ((hmemF y).mp hyF)
              refine ⟨R ++ cut, ?_, hR', ⟨x, y, hxF'.1, by simpa using hxF'.2, hyF'.1, by simpa using hyF'.2, ?_⟩, ?_⟩
              · obtain ⟨z, hz⟩ := List.exists_mem_of_ne_nil cut hne
                exact List.ne_nil_of_mem (List.mem_append_right R hz)
              · intro hconn
                have hconn' := connIn_congr es _ _ (fun z => (hmemF z).symm) x y hconn
                -- then `y` would be in the component `s0`
                obtain ⟨sd, hsd, rfl⟩ := comps_spec es _ s0 hs0m
                have h1 := (mem_component_iff es _ sd hsd x).mp hx
                have h2 : y ∈ component es _ sd :=
                  (mem_component_iff es _ sd hsd y).mpr (connIn_trans es _ sd x y h1 hconn')
                have := (List.pairwise_cons.mp hdisj).1 s1 List.mem_cons_self
                exact this y h2 hy
              · intro x hxc hxr
                have hxF : x ∈ nodes.filter (fun z => decide (z ∉ cut)) :=
                  (hmemF x).mpr (List.mem_filter.mpr ⟨hxc, by simpa using hxr⟩)
                obtain ⟨part, hpart, hxp⟩ := comps_cover es _ x hxF
                have h2 := hparts2 part (hsub ▸ hpart)
                have hnd := comps_nodup es _ part hpart
                -- a second member of the part
                have : ∃ y ∈ part, y ≠ x := by
                  by_contra hall0
                  have hall : ∀ y ∈ part, y = x := by
                    intro y hy
                    by_contra hne
                    exact hall0 ⟨y, hy, hne⟩
                  have : part = [x] := by
                    match part, h2, hnd, hxp, hall with
                    | a :: b :: t, _, hnd, _, hall =>
                      have ha := hall a List.mem_cons_self
                      have hb := hall b (List.mem_cons_of_mem _ List.mem_cons_self)
                      rw [ha, hb] at hnd
                      simp at hnd
                  rw [this] at h2; simp at h2
                obtain ⟨y, hy, hyx⟩ := this
                exact ⟨y, hyx, connIn_congr es _ _ hmemF x y (comps_connIn es _ part hpart x y hxp hy)⟩
            subst hone
            -- the single part is all that is left
            have hs0m : s0 ∈ comps es (nodes.filter (fun z => decide (z ∉ cut))) := hsub ▸ List.mem_cons_self
            have hs0 : ∀ x, x ∈ s0 ↔ x ∈ c ∧ x ∉ R ++ cut := by
              intro x
              constructor
              · intro hx
                have := (hmemF x).mp ((comps_sound es _ s0 hs0m).1 x hx)
                have := List.mem_filter.mp this
                exact ⟨this.1, by simpa using this.2⟩
              · rintro ⟨hxc, hxr⟩
                have hxF : x ∈ nodes.filter (fun z => decide (z ∉ cut)) :=
                  (hmemF x).mpr (List.mem_filter.mpr ⟨hxc, by simpa using hxr⟩)
                obtain ⟨part, hpart, hxp⟩ := comps_cover es _ x hxF
                rw [← hsub] at hpart
                simp only [List.mem_singleton] at hpart
                exact hpart ▸ hxp
            simp only [collect] at h
            cases hd : decouple es cuts isProt fuel s0 with
            | error e => simp [hd] at h
            | ok x =>
              simp only [hd, List.append_nil, Except.ok.injEq] at h
              subst h
              exact ih s0 (R ++ cut) x hR' hs0 hd

/-- the leaf of an inseparable component, for every cut map -/
theorem leaves_inseparable (N : Groups) (f : List PepInfo) (cuts : CutMap) (lvs : List (List String))
    (h : leaves N f cuts = .ok lvs)
    (c : List String) (hc : c ∈ comps (edges N f) (allNodes N f))
    (hins : ¬ SeparableSet (edges N f) (fun x => decide (x ∈ protNodes N f)) c) :
    ∃ leaf ∈ lvs, ∀ x, x ∈ leaf ↔ x ∈ c ∧ x ∈ protNodes N f := by
  unfold leaves at h
  obtain ⟨x, hx, hsub⟩ := collect_ok_mem _ _ _ h c hc
  obtain ⟨leaf, rfl, hmem⟩ := decouple_inseparable_gen _ cuts _ c hins _ c [] x (by simp) (by simp) hx
  exact ⟨leaf, hsub _ List.mem_cons_self, fun y => by simpa using hmem y⟩

end PgFdr.C04
