import PgFdr.Proofs.C10
import PgFdr.Proofs.C09

/-! Helper lemmas for C10, digests of non-specific searches (`Digest.hashed`):

* ingestion with a digest of either kind IS ingestion with the dict the digest amounts to on the file
  (`Digest.tabulate`), so every lemma about dict digests carries over;
* `hashLookup` on the pair `C09.fromParams` builds: the identifiers of the database records that list the
  peptide's prefix key and contain the peptide. -/
namespace PgFdr.C10

/-! ### dict digests are the special case -/

theorem rowPsmBy_dict (T : Transforms) (mode : Mode) (m : DMap) (flank : Bool) (r : RawRow) :
    rowPsmBy T mode (digestLookup m) flank r = rowPsm T mode m flank r := rfl

theorem filePsmsBy_dict (T : Transforms) (mode : Mode) (m : DMap) (rows : List RawRow) :
    filePsmsBy T mode (digestLookup m) rows = filePsms T mode m rows := rfl

theorem fileRaisesBy_dict (T : Transforms) (mode : Mode) (m : DMap) (rows : List RawRow) :
    fileRaisesBy T mode (digestLookup m) rows = fileRaises T mode m rows := rfl

theorem rowNegInfBy_dict (T : Transforms) (mode : Mode) (m : DMap) (flank : Bool) (r : RawRow) :
    rowNegInfBy T mode (digestLookup m) flank r = rowNegInf T mode m flank r := rfl

theorem zip_map_dict : ∀ (l : List DMap) (files : List (List RawRow)),
    (l.map Digest.dict).zip files = (l.zip files).map (fun p => (Digest.dict p.1, p.2))
  | [], _ => rfl
  | _ :: _, [] => rfl
  | m :: l, f :: files => by simp [zip_map_dict l files]

theorem pairUpD_dict (remap : Bool) (maps : List DMap) (files : List (List RawRow)) :
    pairUpD remap (maps.map Digest.dict) files = (pairUp remap maps files).map (fun p => (Digest.dict p.1, p.2)) := by
  unfold pairUpD pairUp
  cases remap
  · simp only [Bool.false_eq_true, if_false, List.length_singleton, if_true, List.headD_cons]
    rw [← zip_map_dict, List.map_replicate]
  · simp only [if_true, List.length_map]
    by_cases h1 : maps.length = 1
    · simp only [h1, if_true]
      match maps, h1 with
      | [m], _ =>
        simp only [List.map_cons, List.map_nil, List.headD_cons]
        rw [← zip_map_dict, List.map_replicate]
    · simp only [h1, if_false]
      exact zip_map_dict _ _

theorem any_congr' {α : Type} {l : List α} {f g : α → Bool} (h : ∀ a ∈ l, f a = g a) : l.any f = l.any g := by
  induction l with
  | nil => rfl
  | cons a t ih =>
    simp only [List.any_cons]
    rw [h a (by simp), ih (fun b hb => h b (by simp [hb]))]

theorem ingestCheckedD_dict (T : Transforms) (mode : Mode) (pairs : List (DMap × List RawRow)) :
    ingestCheckedD T mode (pairs.map (fun p => (Digest.dict p.1, p.2))) = ingestChecked T mode pairs := by
  unfold ingestCheckedD ingestChecked ingestPairsD ingestPairs allPsmsD allPsms
  simp only [List.any_map, List.flatMap_map]
  rfl

/-! ### tabulation -/

theorem digestLookup_tab (look : String → List String) (qs : List String) (q : String) :
    digestLookup (tab look qs) q = if q ∈ qs then look q else [] := by
  unfold digestLookup tab
  induction qs with
  | nil => simp
  | cons a t ih =>
    simp only [List.map_cons, List.lookup_cons, List.mem_cons]
    by_cases h : q = a
    · subst h; simp
    · have hb : (q == a) = false := by simpa using h
      rw [hb]
      simp only [h, false_or]
      exact ih

theorem mem_queries {mode : Mode} {rows : List RawRow} {r : RawRow} (hr : r ∈ rows) (flank : Bool) :
    removeMods (rowPeptide mode.format flank r) ∈ queries mode rows := by
  unfold queries
  rw [List.mem_flatMap]
  refine ⟨r, hr, ?_⟩
  cases flank <;> simp

theorem sourceProteins_tab (d : Digest) (mode : Mode) {rows : List RawRow} {r : RawRow} (hr : r ∈ rows)
    (flank : Bool) (fp : List String) :
    sourceProteins mode.remap (d.tabulate mode rows) (rowPeptide mode.format flank r) fp =
      sourceProteinsBy mode.remap d.lookup (rowPeptide mode.format flank r) fp := by
  unfold sourceProteins sourceProteinsBy Digest.tabulate
  rw [digestLookup_tab, if_pos (mem_queries hr flank)]

theorem rowPsmBy_tab (T : Transforms) (mode : Mode) (d : Digest) {rows : List RawRow} {r : RawRow}
    (hr : r ∈ rows) (flank : Bool) :
    rowPsmBy T mode d.lookup flank r = rowPsm T mode (d.tabulate mode rows) flank r := by
  unfold rowPsmBy rowPsm mapProteinsBy mapProteins
  rw [sourceProteins_tab d mode hr flank]

theorem filePsmsBy_tab (T : Transforms) (mode : Mode) (d : Digest) (rows : List RawRow) :
    filePsmsBy T mode d.lookup rows = filePsms T mode (d.tabulate mode rows) rows := by
  unfold filePsmsBy filePsms
  apply List.filterMap_congr
  intro r hr
  exact rowPsmBy_tab T mode d hr _

theorem fileRaisesBy_tab (T : Transforms) (mode : Mode) (d : Digest) (rows : List RawRow) :
    fileRaisesBy T mode d.lookup rows = fileRaises T mode (d.tabulate mode rows) rows := by
  unfold fileRaisesBy fileRaises
  cases hf : mode.format <;> simp only
  all_goals first
    | (congr 1
       apply any_congr'
       intro r hr
       rw [rowPsmBy_tab T mode d hr])
    | (apply any_congr'
       intro r hr
       unfold rowRaisesBy rowRaises
       rw [rowPsmBy_tab T mode d hr])

theorem rowNegInfBy_tab (T : Transforms) (mode : Mode) (d : Digest) {rows : List RawRow} {r : RawRow}
    (hr : r ∈ rows) (flank : Bool) :
    rowNegInfBy T mode d.lookup flank r = rowNegInf T mode (d.tabulate mode rows) flank r := by
  unfold rowNegInfBy rowNegInf
  rw [rowPsmBy_tab T mode d hr]

theorem allPsmsD_eq (T : Transforms) (mode : Mode) (pairs : List (Digest × List RawRow)) :
    allPsmsD T mode pairs = allPsms T mode (dictPairs mode pairs) := by
  unfold allPsmsD allPsms dictPairs
  rw [List.flatMap_map]
  congr 1
  funext p
  exact filePsmsBy_tab T mode p.1 p.2

theorem ingestPairsD_eq (T : Transforms) (mode : Mode) (pairs : List (Digest × List RawRow)) :
    ingestPairsD T mode pairs = ingestPairs T mode (dictPairs mode pairs) := by
  unfold ingestPairsD ingestPairs
  rw [allPsmsD_eq]

theorem ingestCheckedD_eq (T : Transforms) (mode : Mode) (pairs : List (Digest × List RawRow)) :
    ingestCheckedD T mode pairs = ingestChecked T mode (dictPairs mode pairs) := by
  unfold ingestCheckedD ingestChecked
  rw [ingestPairsD_eq]
  have h1 : pairs.any (fun p => fileRaisesBy T mode p.1.lookup p.2) =
      (dictPairs mode pairs).any (fun p => fileRaises T mode p.1 p.2) := by
    unfold dictPairs
    rw [List.any_map]
    apply any_congr'
    intro p _
    exact fileRaisesBy_tab T mode p.1 p.2
  have h2 : pairs.any (fun p => p.2.any (rowNegInfBy T mode p.1.lookup (flankOf mode.format p.2))) =
      (dictPairs mode pairs).any (fun p => p.2.any (rowNegInf T mode p.1 (flankOf mode.format p.2))) := by
    unfold dictPairs
    rw [List.any_map]
    apply any_congr'
    intro p _
    apply any_congr'
    intro r hr
    exact rowNegInfBy_tab T mode p.1 hr _
  rw [h1, h2]

/-- what a tabulated dict answers: the digest's answer for the peptides of the file, nothing otherwise -/
theorem tabulate_lookup (d : Digest) (mode : Mode) (rows : List RawRow) (q : String) :
    digestLookup (d.tabulate mode rows) q = if q ∈ queries mode rows then d.lookup q else [] :=
  digestLookup_tab _ _ _

theorem tabulate_lookup_nil {d : Digest} {mode : Mode} {rows : List RawRow} {q : String}
    (h : d.lookup q = []) : digestLookup (d.tabulate mode rows) q = [] := by
  rw [tabulate_lookup]; split <;> simp [h]

/-- a PSM of the stream over digests of either kind comes from a row of a paired file -/
theorem mem_allPsmsD {T : Transforms} {mode : Mode} {pairs : List (Digest × List RawRow)} {x : Psm}
    (h : x ∈ allPsmsD T mode pairs) :
    ∃ p ∈ pairs, ∃ r ∈ p.2, rowPsmBy T mode p.1.lookup (flankOf mode.format p.2) r = some x := by
  unfold allPsmsD at h
  rw [List.mem_flatMap] at h
  obtain ⟨p, hp, hx⟩ := h
  unfold filePsmsBy at hx
  rw [List.mem_filterMap] at hx
  obtain ⟨r, hr, hrx⟩ := hx
  exact ⟨p, hp, r, hr, hrx⟩

theorem rowPsmBy_some {T : Transforms} {mode : Mode} {look : String → List String} {flank : Bool} {r : RawRow}
    {x : Psm} (h : rowPsmBy T mode look flank r = some x) :
    x.modPep = rowPeptide mode.format flank r ∧ x.score = rowScore T mode.format r ∧
    x.prots = removeDecoyProteinsFromTargetPeptides
      (sourceProteinsBy mode.remap look (rowPeptide mode.format flank r) (rowProteinsOf mode r)) ∧
    x.prots ≠ [] ∧
    (mode.remap = true → look x.key ≠ []) := by
  unfold rowPsmBy mapProteinsBy at h
  by_cases hc : mode.remap = true ∧
      (sourceProteinsBy mode.remap look (rowPeptide mode.format flank r) (rowProteinsOf mode r)).isEmpty = true
  · rw [if_pos hc] at h; simp at h
  · rw [if_neg hc] at h
    by_cases he : (removeDecoyProteinsFromTargetPeptides
        (sourceProteinsBy mode.remap look (rowPeptide mode.format flank r) (rowProteinsOf mode r))).isEmpty = true
    · simp [he] at h
    · simp only [he] at h
      simp only [Bool.false_eq_true, if_false, Option.some.injEq] at h
      subst h
      refine ⟨rfl, rfl, rfl, by simpa [List.isEmpty_iff] using he, ?_⟩
      intro hm hnil
      apply hc
      refine ⟨hm, ?_⟩
      simp only [sourceProteinsBy, hm, if_true, List.isEmpty_iff]
      exact hnil

/-! ### the lookup on the pair -/

open PgFdr.C09 in
/-- membership in the answer of `hashLookup` when the confirmation succeeds -/
theorem mem_hashLookup_of_confirm {idx : C09.PMap} {seqs : C09.SeqMap} {q : String} {l : List C09.Str}
    (h : C09.confirm seqs q.toList (C09.get idx (q.toList.take 6)) = .ok l) (p : String) :
    p ∈ hashLookup idx seqs q ↔ p.toList ∈ l := by
  unfold hashLookup
  rw [h]
  simp only [List.mem_map]
  constructor
  · rintro ⟨s, hs, rfl⟩
    simpa using (C09.sortStrs_perm l).mem_iff.mp hs
  · intro hp
    exact ⟨p.toList, (C09.sortStrs_perm l).mem_iff.mpr hp, by simp⟩

theorem hashLookup_of_confirm {idx : C09.PMap} {seqs : C09.SeqMap} {q : String} {l : List C09.Str}
    (h : C09.confirm seqs q.toList (C09.get idx (q.toList.take 6)) = .ok l) :
    hashLookup idx seqs q = (C09.sortStrs l).map String.ofList := by
  unfold hashLookup
  rw [h]

/-- the filter `hashLookup` applies to the proteins listed under the prefix key -/
def containsIn (seqs : C09.SeqMap) (pep : C09.Str) (p : C09.Str) : Bool :=
  match C09.lookupSeq seqs p with
  | some s => containsSub pep s
  | none => false

theorem get_mem {Q P : Type} [DecidableEq Q] : ∀ (d : List (Q × List P)) (k : Q) (p : P),
    p ∈ C09.get d k → ∃ kv ∈ d, p ∈ kv.2
  | [], _, _, h => by simp [C09.get] at h
  | (k', vs) :: r, k, p, h => by
    simp only [C09.get] at h
    split at h
    · exact ⟨(k', vs), by simp, h⟩
    · obtain ⟨kv, hkv, hp⟩ := get_mem r k p h
      exact ⟨kv, by simp [hkv], hp⟩

theorem confirm_filter (seqs : C09.SeqMap) (pep : C09.Str) : ∀ (ps : List C09.Str),
    (∀ p ∈ ps, (C09.lookupSeq seqs p).isSome = true) →
      C09.confirm seqs pep ps = .ok (ps.filter (containsIn seqs pep))
  | [], _ => rfl
  | p :: ps, h => by
    have hp := h p (by simp)
    have ih := confirm_filter seqs pep ps (fun x hx => h x (by simp [hx]))
    obtain ⟨s, hs⟩ := Option.isSome_iff_exists.mp hp
    simp only [C09.confirm, hs, ih, List.filter_cons, containsIn]

theorem wf_listed {idx : C09.PMap} {seqs : C09.SeqMap} (hwf : (Digest.hashed idx seqs).wf = true) (k : C09.Str) :
    ∀ p ∈ C09.get idx k, (C09.lookupSeq seqs p).isSome = true := by
  intro p hp
  obtain ⟨kv, hkv, hpk⟩ := get_mem idx k p hp
  simp only [Digest.wf, List.all_eq_true] at hwf
  exact hwf kv hkv p hpk

/-- `d` is what `get_peptide_to_protein_map_from_params(files, [p])` returns for ONE non-specific parameter
    set (`digestion = "none"`, hence hash keys) over FASTA files with distinct identifiers;
    `C09.dbRecords parse p files` is the database it was built from: the targets and the generated decoys of
    the files, in file and record order (`Model/C09.lean`, `readFasta`) -/
def IsNonSpecificDigest (d : Digest) (parse : C09.ParseId) (files : List (List C09.Str)) (p : C09.Params) : Prop :=
  ∃ res, C09.fromParams parse files [p] = .ok res ∧ d = .hashed res.1 res.2 ∧
    C08.modeOf p.digestion = .none ∧ p.useHash = true ∧ ((C09.dbRecords parse p files).map (·.1)).Nodup

namespace Built
open PgFdr.C09 PgFdr.C08 PgFdr.Generated

/-- the confirmation step on the pair `fromParams` builds from several files under ONE hash-key parameter
    set (distinct identifiers): the identifiers, in database order, of the records that list the prefix key
    and contain the peptide — for EVERY peptide, whatever its length -/
theorem confirm_built (parse : ParseId) (files : List (List Str)) (p : Params) (r : EnzymeRule)
    (hr : lookupEnzyme p.enzyme = some r) (res : PMap × SeqMap) (h : fromParams parse files [p] = .ok res)
    (hhash : p.useHash = true) (hd : ((dbRecords parse p files).map (·.1)).Nodup) (pep : Str) :
    confirm res.2 pep (C09.get res.1 (pep.take 6)) =
      .ok (((dbRecords parse p files).filter
        (fun x => decide (pep.take 6 ∈ keysOf (argsOf r p parse) x.2) && containsSub pep x.2)).map (·.1)) := by
  have hget := fromParams_one_get parse files p r hr res h (pep.take 6)
  have hseq : res.2 = dbRecords parse p files := by
    have hjobs := jobs_one files p
    unfold fromParams at h
    rw [hjobs] at h
    have := fromParamsGo_seqs_eq parse p r hr hhash files [] [] res h (by simpa using hd)
    simpa using this
  rw [hget, hseq]
  rw [confirm_spec (dbRecords parse p files) pep _
    (fun x hx => lookupSeq_of_mem _ hd x (List.mem_filter.mp hx).1), List.filter_filter]
  refine congrArg _ (congrArg _ (List.filter_congr ?_))
  intro x _
  rw [Bool.and_comm]

/-- the keys a record lists under non-specific digestion with hash keys -/
theorem keysOf_none (r : EnzymeRule) (p : Params) (parse : ParseId) (hmode : C08.modeOf p.digestion = .none)
    (hhash : p.useHash = true) (seq : Str) :
    keysOf (argsOf r p parse) seq = (nonSpecific seq p.minL p.maxL).map (fun x => x.take 6) := by
  simp [keysOf, digestPeptides, argsOf, hmode, hhash, hashKey]

/-- "the prefix index loses nothing": a record that contains the peptide lists the peptide's prefix key as
    soon as a peptide of the digest can start where the peptide starts with at least the peptide's first six
    residues: `max 6 minL ≤ |pep|` and the window admits such a length, or the peptide itself lies in the
    window -/
theorem key_of_contains (r : EnzymeRule) (p : Params) (parse : ParseId) (hmode : C08.modeOf p.digestion = .none)
    (hhash : p.useHash = true) (pep seq : Str) (hc : containsSub pep seq = true)
    (hlen : (p.minL ≤ pep.length ∧ pep.length ≤ p.maxL) ∨
      (6 ≤ pep.length ∧ p.minL ≤ pep.length ∧ max 6 p.minL ≤ p.maxL)) :
    pep.take 6 ∈ keysOf (argsOf r p parse) seq := by
  obtain ⟨pre, suf, hseq⟩ := (containsSub_iff pep seq).mp hc
  rw [keysOf_none r p parse hmode hhash, List.mem_map]
  rcases hlen with ⟨hlo, hhi⟩ | ⟨h6, hlo, hwin⟩
  · refine ⟨pep, ?_, rfl⟩
    rw [mem_nonSpecific]
    refine ⟨pre.length, pre.length + pep.length, by omega, by omega, ?_, ?_⟩
    · rw [hseq]; simp
    · rw [hseq]; exact (slice_of_append pre pep suf).symm
  · -- the peptide of length `max 6 minL` starting where `pep` starts
    refine ⟨pep.take (max 6 p.minL), ?_, ?_⟩
    · rw [mem_nonSpecific]
      refine ⟨pre.length, pre.length + max 6 p.minL, by omega, by omega, ?_, ?_⟩
      · rw [hseq]; simp only [List.length_append]; omega
      · have hsplit : pep = pep.take (max 6 p.minL) ++ pep.drop (max 6 p.minL) := (List.take_append_drop _ _).symm
        have hseq' : seq = pre ++ pep.take (max 6 p.minL) ++ (pep.drop (max 6 p.minL) ++ suf) := by
          rw [hseq, List.append_assoc, List.append_assoc, ← List.append_assoc (pep.take _), List.take_append_drop]
        have hl : (pep.take (max 6 p.minL)).length = max 6 p.minL := by
          rw [List.length_take]; omega
        have := slice_of_append pre (pep.take (max 6 p.minL)) (pep.drop (max 6 p.minL) ++ suf)
        rw [hl] at this
        rw [hseq']
        exact this.symm
    · rw [List.take_take]
      congr 1
      omega

/-- a peptide shorter than six residues and shorter than the window's lower bound has no key in any record:
    every key is the first `min 6 |x|` residues of a peptide `x` of length at least `minL` -/
theorem no_key_of_short (r : EnzymeRule) (p : Params) (parse : ParseId) (hmode : C08.modeOf p.digestion = .none)
    (hhash : p.useHash = true) (pep seq : Str) (h6 : pep.length < 6) (hlo : pep.length < p.minL) :
    pep.take 6 ∉ keysOf (argsOf r p parse) seq := by
  rw [keysOf_none r p parse hmode hhash, List.mem_map]
  rintro ⟨x, hx, hk⟩
  rw [mem_nonSpecific] at hx
  obtain ⟨i, j, h1, _, h3, rfl⟩ := hx
  have hlen := congrArg List.length hk
  simp only [List.length_take, C08.slice, List.length_drop] at hlen
  omega

end Built

end PgFdr.C10
