import PgFdr.Model.C16

/-! Helper lemmas for C16 (atomic publication on the abstract file system). -/
namespace PgFdr.C16

@[simp] theorem FS.set_same (fs : FS) (p : Path) (v : Option Bytes) : (fs.set p v) p = v := by
  simp [FS.set]

theorem FS.set_other (fs : FS) (p q : Path) (v : Option Bytes) (h : q ≠ p) : (fs.set p v) q = fs q := by
  simp [FS.set, h]

theorem tmpOf_ne (f : Path) : tmpOf f ≠ f := by
  intro h
  have : (tmpOf f).length = f.length := by rw [h]
  unfold tmpOf at this
  rw [String.length_append] at this
  have h4 : (".tmp" : String).length = 4 := by decide
  omega

theorem run_append (fs : FS) (a b : List FOp) : run fs (a ++ b) = run (run fs a) b := by
  simp [run, List.foldl_append]

theorem run_nil (fs : FS) : run fs [] = fs := rfl

theorem run_cons (fs : FS) (o : FOp) (ops : List FOp) : run fs (o :: ops) = run (apply fs o) ops := rfl

/-- the paths an operation can change -/
def writes : FOp → List Path
  | .openTrunc p => [p]
  | .append p _ => [p]
  | .close _ => []
  | .rename s d => [s, d]

theorem apply_frame (fs : FS) (o : FOp) (q : Path) (h : q ∉ writes o) : apply fs o q = fs q := by
  cases o with
  | openTrunc p => simp [writes] at h; simp [apply, FS.set_other _ _ _ _ h]
  | append p b => simp [writes] at h; simp [apply, FS.set_other _ _ _ _ h]
  | close p => rfl
  | rename s d =>
    simp [writes] at h
    simp only [apply]
    cases hs : fs s with
    | none => rfl
    | some c => simp only; rw [FS.set_other _ _ _ _ h.1, FS.set_other _ _ _ _ h.2]

theorem run_frame (ops : List FOp) (q : Path) (h : ∀ o ∈ ops, q ∉ writes o) : ∀ fs : FS, run fs ops q = fs q := by
  induction ops with
  | nil => intro fs; rfl
  | cons o ops ih =>
    intro fs
    rw [run_cons, ih (fun o' ho' => h o' (by simp [ho'])), apply_frame _ _ _ (h o (by simp))]

/-- appends extend the temporary file and touch nothing else -/
theorem appends_run (t : Path) (cs : List Bytes) : ∀ (fs : FS) (acc : Bytes), fs t = some acc →
    run fs (cs.map (FOp.append t)) t = some (acc ++ cs.flatten) := by
  induction cs with
  | nil => intro fs acc h; simp [run, h]
  | cons c cs ih =>
    intro fs acc h
    have h1 : (apply fs (.append t c)) t = some (acc ++ c) := by simp [apply, h]
    simp only [List.map_cons, run_cons, List.flatten_cons]
    rw [ih _ _ h1, List.append_assoc]

theorem program_length (f : Path) (chunks : List Bytes) : (program f chunks).length = chunks.length + 3 := by
  simp [program]

/-- the complete program publishes exactly the whole output and leaves no temporary file -/
theorem full_program (f : Path) (chunks : List Bytes) (fs : FS) :
    run fs (program f chunks) f = some chunks.flatten ∧ run fs (program f chunks) (tmpOf f) = none := by
  unfold program
  rw [run_append, run_append]
  have h0 : (run fs [FOp.openTrunc (tmpOf f)]) (tmpOf f) = some [] := by simp [run, apply]
  have hb := appends_run (tmpOf f) chunks _ [] h0
  generalize run (run fs [FOp.openTrunc (tmpOf f)]) (List.map (FOp.append (tmpOf f)) chunks) = st at hb
  simp only [run, List.foldl_cons, List.foldl_nil, apply, hb]
  constructor
  · rw [FS.set_other _ _ _ _ (tmpOf_ne f).symm]; simp
  · simp

/-- every operation of the program only writes the temporary and the final path -/
theorem program_writes (f : Path) (chunks : List Bytes) : ∀ o ∈ program f chunks, ∀ q ∈ writes o, q = tmpOf f ∨ q = f := by
  intro o ho q hq
  unfold program at ho
  simp only [List.mem_append, List.mem_map, List.mem_cons, List.not_mem_nil, or_false] at ho
  rcases ho with (h | ⟨b, _, h⟩) | h | h <;> subst h <;> simp [writes] at hq
  · exact Or.inl hq
  · exact Or.inl hq
  · rcases hq with h | h
    · exact Or.inl h
    · exact Or.inr h

/-- before the rename, only the temporary path is written -/
theorem program_take_writes (f : Path) (chunks : List Bytes) (n : Nat) (hn : n < chunks.length + 3) :
    ∀ o ∈ (program f chunks).take n, ∀ q ∈ writes o, q = tmpOf f := by
  intro o ho q hq
  have hsub : (program f chunks).take n <+: (program f chunks).take (chunks.length + 2) :=
    List.take_prefix_take_left (show n ≤ chunks.length + 2 by omega)
  have ho' := hsub.subset ho
  have : (program f chunks).take (chunks.length + 2)
      = [FOp.openTrunc (tmpOf f)] ++ chunks.map (FOp.append (tmpOf f)) ++ [FOp.close (tmpOf f)] := by
    unfold program
    have : ([FOp.openTrunc (tmpOf f)] ++ List.map (FOp.append (tmpOf f)) chunks ++ [FOp.close (tmpOf f), FOp.rename (tmpOf f) f])
        = ([FOp.openTrunc (tmpOf f)] ++ List.map (FOp.append (tmpOf f)) chunks ++ [FOp.close (tmpOf f)]) ++ [FOp.rename (tmpOf f) f] := by simp
    rw [this, List.take_append_of_le_length (by simp)]
    apply List.take_of_length_le
    simp
  rw [this] at ho'
  simp only [List.mem_append, List.mem_singleton, List.mem_map] at ho'
  rcases ho' with (h | ⟨b, _, h⟩) | h <;> subst h <;> simp [writes] at hq <;> exact hq

/-- the partial operation writes where the whole one would -/
theorem partialOp_writes (o : Option FOp) (k : Nat) : ∀ o' ∈ partialOp o k, ∃ o₀, o = some o₀ ∧ writes o' = writes o₀ ∧ ∃ p b, o₀ = .append p b := by
  intro o' ho'
  cases o with
  | none => simp [partialOp] at ho'
  | some o₀ =>
    cases o₀ with
    | append p b =>
      simp only [partialOp] at ho'
      split at ho'
      · simp at ho'
      · simp at ho'; subst ho'; exact ⟨_, rfl, rfl, p, b, rfl⟩
    | openTrunc p => simp [partialOp] at ho'
    | close p => simp [partialOp] at ho'
    | rename s d => simp [partialOp] at ho'

/-- a crash at or beyond the end of the operation list is no crash -/
theorem crashPrefix_all (ops : List FOp) (c : Crash) (h : ops.length ≤ c.ops) : crashPrefix ops c = ops := by
  unfold crashPrefix
  rw [List.take_of_length_le h, List.getElem?_eq_none h]
  simp [partialOp]

/-- the effective operations of a (possibly killed) run write only where the whole list writes -/
theorem effective_writes (ops : List FOp) (c : Option Crash) :
    ∀ o ∈ effective ops c, ∃ o₀ ∈ ops, writes o = writes o₀ := by
  intro o ho
  cases c with
  | none => exact ⟨o, ho, rfl⟩
  | some c =>
    simp only [effective, crashPrefix, List.mem_append] at ho
    rcases ho with h | h
    · exact ⟨o, List.mem_of_mem_take h, rfl⟩
    · obtain ⟨o₀, h0, hw, _⟩ := partialOp_writes _ _ o h
      exact ⟨o₀, List.mem_of_getElem? h0, hw⟩

/-- a run that is killed before the rename has completed leaves the final path alone -/
theorem crashPrefix_program_final (f : Path) (chunks : List Bytes) (c : Crash) (hlt : c.ops < chunks.length + 3)
    (fs : FS) : run fs (crashPrefix (program f chunks) c) f = fs f := by
  apply run_frame
  intro o ho hq
  simp only [crashPrefix, List.mem_append] at ho
  rcases ho with h | h
  · exact tmpOf_ne f (program_take_writes f chunks c.ops hlt o h f hq).symm
  · obtain ⟨o₀, h0, hw, p, b, hpb⟩ := partialOp_writes _ _ o h
    -- the operation in flight is an append of the program, hence on the temporary path
    have hmem : o₀ ∈ program f chunks := List.mem_of_getElem? h0
    rw [hw] at hq
    rcases program_writes f chunks o₀ hmem f hq with h1 | _
    · exact tmpOf_ne f h1.symm
    · -- `f ∈ writes (append p b)` means `p = f`; but the appends of the program are on `tmpOf f`
      subst hpb
      simp [writes] at hq
      subst hq
      unfold program at hmem
      simp only [List.mem_append, List.mem_map, List.mem_cons, List.not_mem_nil, or_false] at hmem
      rcases hmem with (h | ⟨b', _, h⟩) | h | h
      · cases h
      · injection h with h1 _; exact tmpOf_ne _ h1
      · cases h
      · cases h

/-! ### one step -/

theorem stepOps_of_some (fs : FS) (f : Path) (chunks : List Bytes) (h : (fs f).isSome) : stepOps fs f chunks = [] := by
  simp [stepOps, h]

theorem stepOps_of_none (fs : FS) (f : Path) (chunks : List Bytes) (h : fs f = none) : stepOps fs f chunks = program f chunks := by
  simp [stepOps, h]

theorem effective_nil (c : Option Crash) : effective [] c = [] := by
  cases c with
  | none => rfl
  | some c => simp [effective, crashPrefix, partialOp]

/-- an existing final output makes the step the identity -/
theorem runStep_existing (fs : FS) (f : Path) (chunks : List Bytes) (c : Option Crash) (h : (fs f).isSome) :
    runStep fs f chunks c = fs := by
  unfold runStep
  rw [stepOps_of_some _ _ _ h, effective_nil]
  rfl

/-- a step changes nothing but its temporary and its final path -/
theorem runStep_frame (fs : FS) (f : Path) (chunks : List Bytes) (c : Option Crash) (q : Path)
    (h1 : q ≠ f) (h2 : q ≠ tmpOf f) : runStep fs f chunks c q = fs q := by
  unfold runStep
  apply run_frame
  intro o ho hq
  obtain ⟨o₀, h0, hw⟩ := effective_writes _ _ o ho
  rw [hw] at hq
  have hmem : o₀ ∈ program f chunks := by
    unfold stepOps at h0
    split at h0
    · simp at h0
    · exact h0
  rcases program_writes f chunks o₀ hmem q hq with h | h
  · exact h2 h
  · exact h1 h

/-- from a state whose final path is absent or complete, a (possibly killed) step ends in such a state -/
theorem runStep_inv (fs : FS) (f : Path) (chunks : List Bytes) (c : Option Crash)
    (h : fs f = none ∨ fs f = some chunks.flatten) :
    runStep fs f chunks c f = none ∨ runStep fs f chunks c f = some chunks.flatten := by
  cases hf : fs f with
  | some x =>
    rw [runStep_existing fs f chunks c (by simp [hf])]
    exact h
  | none =>
    unfold runStep
    rw [stepOps_of_none _ _ _ hf]
    cases c with
    | none => right; exact (full_program f chunks fs).1
    | some c =>
      simp only [effective]
      rcases Nat.lt_or_ge c.ops (chunks.length + 3) with hlt | hge
      · left; rw [crashPrefix_program_final f chunks c hlt]; exact hf
      · right
        rw [crashPrefix_all _ _ (by rw [program_length]; exact hge)]
        exact (full_program f chunks fs).1

/-- an uninterrupted step from such a state ends with the complete output -/
theorem runStep_complete (fs : FS) (f : Path) (chunks : List Bytes)
    (h : fs f = none ∨ fs f = some chunks.flatten) : runStep fs f chunks none f = some chunks.flatten := by
  cases hf : fs f with
  | some x =>
    rw [runStep_existing fs f chunks none (by simp [hf])]
    rcases h with h | h
    · rw [h] at hf; cases hf
    · exact h
  | none =>
    unfold runStep
    rw [stepOps_of_none _ _ _ hf]
    exact (full_program f chunks fs).1

/-! ### the loop over several outputs -/

theorem crashPrefix_append_left (a b : List FOp) (c : Crash) (h : c.ops < a.length) :
    crashPrefix (a ++ b) c = crashPrefix a c := by
  unfold crashPrefix
  rw [List.take_append_of_le_length (Nat.le_of_lt h), List.getElem?_append_left h]

theorem crashPrefix_append_right (a b : List FOp) (c : Crash) (h : a.length ≤ c.ops) :
    crashPrefix (a ++ b) c = a ++ crashPrefix b ⟨c.ops - a.length, c.bytes⟩ := by
  unfold crashPrefix
  rw [List.take_append, List.take_of_length_le h, List.getElem?_append_right h]
  simp

/-- where the kill falls relative to the first step -/
def shiftCrash (c : Option Crash) (n : Nat) : Option Crash :=
  match c with
  | none => none
  | some c => some ⟨c.ops - n, c.bytes⟩

/-- a pass over `o :: rest` is the step for `o` (killed, if the kill falls inside it) followed,
    if the process is still alive, by the pass over `rest` -/
theorem runJob_cons (fs : FS) (o : Output) (rest : List Output) (c : Option Crash) :
    runJob fs (o :: rest) c =
      match c with
      | none => runJob (runStep fs o.final o.chunks none) rest none
      | some cr =>
        if cr.ops < (stepOps fs o.final o.chunks).length then runStep fs o.final o.chunks (some cr)
        else runJob (runStep fs o.final o.chunks none) rest (some ⟨cr.ops - (stepOps fs o.final o.chunks).length, cr.bytes⟩) := by
  cases c with
  | none =>
    simp only [runJob, jobOps, effective, runStep, run_append]
  | some cr =>
    simp only [runJob, jobOps, effective, runStep]
    split
    · rename_i hlt
      rw [crashPrefix_append_left _ _ _ hlt]
    · rename_i hge
      rw [crashPrefix_append_right _ _ _ (Nat.le_of_not_lt hge), run_append]

theorem runJob_nil (fs : FS) (c : Option Crash) : runJob fs [] c = fs := by
  unfold runJob jobOps
  rw [effective_nil]; rfl

/-- a property of the file system that every (possibly killed) step of `outs` preserves is
    preserved by the (possibly killed) pass -/
theorem runJob_preserves (P : FS → Prop) (outs : List Output)
    (hstep : ∀ o ∈ outs, ∀ fs c, P fs → P (runStep fs o.final o.chunks c)) :
    ∀ fs c, P fs → P (runJob fs outs c) := by
  induction outs with
  | nil => intro fs c h; rw [runJob_nil]; exact h
  | cons o rest ih =>
    intro fs c h
    have ih' := ih (fun o' ho' => hstep o' (by simp [ho']))
    have hs := hstep o (by simp)
    rw [runJob_cons]
    cases c with
    | none => exact ih' _ _ (hs fs none h)
    | some cr =>
      simp only
      split
      · exact hs fs (some cr) h
      · exact ih' _ _ (hs fs none h)

theorem runHistory_preserves (P : FS → Prop) (outs : List Output)
    (hjob : ∀ fs c, P fs → P (runJob fs outs c)) : ∀ (hist : List (Option Crash)) fs, P fs → P (runHistory fs outs hist) := by
  intro hist
  induction hist with
  | nil => intro fs h; exact h
  | cons c hist ih => intro fs h; exact ih _ (hjob fs c h)

/-- the outputs of one pipeline loop do not get in each other's way: two different outputs have
    different final names, and no final name is the temporary name of another output -/
def Indep (outs : List Output) : Prop :=
  ∀ a ∈ outs, ∀ b ∈ outs, a = b ∨ (a.final ≠ b.final ∧ a.final ≠ tmpOf b.final)

/-- an uninterrupted pass completes the output `T` if it is among the outputs (or was complete before) -/
theorem runJob_completes (T : Output) : ∀ (outs : List Output)
    (_ : ∀ o ∈ outs, T = o ∨ (T.final ≠ o.final ∧ T.final ≠ tmpOf o.final)) (fs : FS),
    (fs T.final = some T.chunks.flatten ∨ (fs T.final = none ∧ T ∈ outs)) →
    runJob fs outs none T.final = some T.chunks.flatten := by
  intro outs
  induction outs with
  | nil =>
    intro _ fs h
    rw [runJob_nil]
    rcases h with h | ⟨_, h⟩
    · exact h
    · simp at h
  | cons o rest ih =>
    intro hT fs h
    rw [runJob_cons]
    simp only
    have hT' : ∀ o' ∈ rest, T = o' ∨ (T.final ≠ o'.final ∧ T.final ≠ tmpOf o'.final) :=
      fun o' ho' => hT o' (by simp [ho'])
    rcases hT o (by simp) with heq | ⟨hne1, hne2⟩
    · subst heq
      apply ih hT'
      left
      apply runStep_complete
      rcases h with h | ⟨h, _⟩
      · exact Or.inr h
      · exact Or.inl h
    · apply ih hT'
      rw [runStep_frame _ _ _ _ _ hne1 hne2]
      rcases h with h | ⟨h, hmem⟩
      · exact Or.inl h
      · right
        refine ⟨h, ?_⟩
        rcases List.mem_cons.mp hmem with he | hr
        · exact absurd (by rw [he]) hne1
        · exact hr

end PgFdr.C16
