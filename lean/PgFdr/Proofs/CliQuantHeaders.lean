import PgFdr.Proofs.CliQuant
import PgFdr.Proofs.C12Design

/-!
Where the cells of a written quantification table sit: the header list `CliQuant.quantHeaders` builds (the C13 header
functions of the MaxQuant writer's generators) cut into segments (`quantHeaders_split`), the cells of a row cut into the
same segments, and `cells_are_slots`: the cell under each per-experiment header STRING of the `i`-th experiment name is
the rendering of the experiment's slot of the corresponding value list of `C12.groupOut`.  The property theorems
(`cells_under_named_headers`, `design_cells_under_named_headers`) are in `Props/C12.lean`.
-/
namespace PgFdr.CliQuant
open PgFdr.Cli

/-! ### the header list of the MaxQuant writer, explicitly -/

/-- the headers the valid generators of a history contribute, in order -/
def genHeaders (ctx : C13.Ctx) (gs : List C13.Gen) : List String :=
  gs.flatMap (fun g => if g.valid ctx then (match g.hdrs ctx with | .ok l => l | .error _ => []) else [])

theorem applyGen_headers (ctx : C13.Ctx) (t t' : C13.Table) (g : C13.Gen) (h : C13.applyGen ctx t g = .ok t') :
    t'.headers = t.headers ++ genHeaders ctx [g] := by
  unfold C13.applyGen at h
  unfold genHeaders
  split at h
  · rename_i hv
    have hv' : g.valid ctx = false := by simpa using hv
    cases h
    simp [hv']
  · rename_i hv
    have hv' : g.valid ctx = true := by simpa using hv
    cases hh : g.hdrs ctx with
    | error e => rw [hh] at h; cases h
    | ok new =>
      rw [hh] at h
      simp only [bind, Except.bind] at h
      cases ha : C13.appendHeaders t.headers new with
      | error e => rw [ha] at h; cases h
      | ok hs =>
        rw [ha] at h
        simp only [pure, Except.pure] at h
        cases h
        obtain ⟨h1, -, -⟩ := C13.appendHeaders_spec _ _ _ ha
        simp [hv', hh, h1]

theorem applyAll_headers (ctx : C13.Ctx) : ∀ (gs : List C13.Gen) (t t' : C13.Table),
    C13.applyAll ctx t gs = .ok t' → t'.headers = t.headers ++ genHeaders ctx gs := by
  intro gs
  induction gs with
  | nil => intro t t' h; simp only [C13.applyAll] at h; cases h; simp [genHeaders]
  | cons g gs ih =>
    intro t t' h
    simp only [C13.applyAll, bind, Except.bind] at h
    cases hg : C13.applyGen ctx t g with
    | error e => rw [hg] at h; cases h
    | ok t1 =>
      rw [hg] at h
      rw [ih t1 t' h, applyGen_headers ctx t t1 g hg]
      simp [genHeaders, List.append_assoc]

/-- number of SILAC channel names = number of SILAC slots -/
theorem silac_names_length (s : Int) (S : Nat) (ch : List String) (hS : C12.silacChannels s = .ok S)
    (hch : C13.silacChannels s = .ok ch) : ch.length = S := by
  unfold C12.silacChannels at hS
  unfold C13.silacChannels at hch
  by_cases h3 : s = 3
  · subst h3; simp at hS hch; subst hS hch; rfl
  · by_cases h2 : s = 2
    · subst h2; simp at hS hch; subst hS hch; rfl
    · have h3' : (s == 3) = false := by simpa using h3
      have h2' : (s == 2) = false := by simpa using h2
      simp only [h3', h2', h3, h2, Bool.false_eq_true, if_false] at hS hch
      split at hS
      · cases hS
      · rename_i hpos
        rw [if_neg hpos] at hch
        cases hS; cases hch; rfl


/-! ### positions -/

theorem cellUnder_at (hs row : List String) (hn : hs.Nodup) (j : Nat) (h : String) (hh : hs[j]? = some h) :
    cellUnder hs row h = row[j]? := by
  have hj : j < hs.length := by
    by_contra hc
    rw [List.getElem?_eq_none (by omega)] at hh
    cases hh
  have hget : hs[j] = h := by
    rw [List.getElem?_eq_getElem hj] at hh
    exact Option.some.inj hh
  have hmem : h ∈ hs := hget ▸ List.getElem_mem hj
  unfold cellUnder
  rw [if_pos hmem, ← hget, hn.idxOf_getElem j hj]

theorem getElem?_flatMap_block {α β : Type} (f : α → List β) (n : Nat) (hf : ∀ a, (f a).length = n) :
    ∀ (l : List α) (i k : Nat), k < n → (l.flatMap f)[i * n + k]? = (l[i]?).bind (fun a => (f a)[k]?) := by
  intro l
  induction l with
  | nil => intro i k _; simp
  | cons a l ih =>
    intro i k hk
    cases i with
    | zero =>
      simp only [List.flatMap_cons, Nat.zero_mul, Nat.zero_add, List.getElem?_cons_zero, Option.bind_some]
      rw [List.getElem?_append_left (by rw [hf]; exact hk)]
    | succ i =>
      simp only [List.flatMap_cons, List.getElem?_cons_succ]
      rw [List.getElem?_append_right (by rw [hf, Nat.add_mul]; omega)]
      have : (i + 1) * n + k - (f a).length = i * n + k := by rw [hf, Nat.add_mul]; omega
      rw [this]
      exact ih i k hk

theorem getElem?_seg {α : Type} (a b c : List α) (j : Nat) (hj : j < b.length) :
    (a ++ (b ++ c))[a.length + j]? = b[j]? := by
  rw [List.getElem?_append_right (by omega), Nat.add_sub_cancel_left, List.getElem?_append_left hj]

theorem length_peptideCounts (exps : List String) (c : Rat) (quants : List C12.Row) :
    (C12.peptideCounts exps c quants).length = exps.length + 1 := by
  unfold C12.peptideCounts C12.peptideSets
  rw [List.length_map]
  have : ∀ (qs : List C12.Row) (acc : List (List String)),
      (qs.foldl (C12.countsStep exps c) acc).length = acc.length := by
    intro qs
    induction qs with
    | nil => intro acc; rfl
    | cons q qs ih => intro acc; rw [List.foldl_cons, ih, C12.length_countsStep]
  rw [this]
  simp

theorem length_idTypes (exps : List String) (c : Rat) (quants : List C12.Row) :
    (C12.idTypes exps c quants).length = exps.length := by
  unfold C12.idTypes
  have : ∀ (qs : List C12.Row) (acc : List String),
      (qs.foldl (C12.idStep exps c) acc).length = acc.length := by
    intro qs
    induction qs with
    | nil => intro acc; rfl
    | cons q qs ih => intro acc; rw [List.foldl_cons, ih, C12.length_idStep]
  rw [this]
  simp

theorem genHeaders_cons (ctx : C13.Ctx) (g : C13.Gen) (gs : List C13.Gen) :
    genHeaders ctx (g :: gs) = genHeaders ctx [g] ++ genHeaders ctx gs := by
  simp [genHeaders]

/-- the header list of a quantification table, cut into the segments the theorems below index: nine base headers and
    three annotation headers; the unique-peptide headers; the identification-type headers; `Intensity` and one block
    per experiment; the two iBAQ scalars and one block per experiment; the rest (coverage, reporter, evidence ids) -/
theorem quantHeaders_split (exps : List String) (s T : Int) (ch hs : List String)
    (hch : C13.silacChannels s = .ok ch)
    (h : quantHeaders { experiments := exps, silac := s, tmt := T } = .ok hs) :
    hs.Nodup ∧ ∃ rest, hs =
      (C13.baseHeaders ++ C13.mqAnnotationHeaders) ++
      (("Combined Total Peptides" :: exps.map (fun e => "Unique peptides " ++ e)) ++
      (exps.map (fun e => "Identification type " ++ e) ++
      (("Intensity" :: exps.flatMap (fun e => ("Intensity " ++ e) :: ch.map (fun c => "Intensity " ++ c ++ " " ++ e))) ++
      (("Number of theoretical peptides iBAQ" :: "iBAQ" ::
          exps.flatMap (fun e => ("iBAQ " ++ e) :: ch.map (fun c => "iBAQ " ++ c ++ " " ++ e))) ++ rest)))) := by
  refine ⟨(quantHeaders_spec _ hs h).2, ?_⟩
  unfold quantHeaders at h
  cases ha : C13.applyAll { experiments := exps, silac := s, tmt := T } (C13.Table.init [])
      (C13.Writer.maxquant true).columns with
  | error e => rw [ha] at h; simp at h
  | ok t =>
    rw [ha] at h
    simp only [Except.ok.injEq] at h
    subst h
    rw [applyAll_headers _ _ _ _ ha]
    have hcols : (C13.Writer.maxquant true).columns =
        [.annotations, .uniqueCounts, .idType, .sumIbaq, .coverage, .tmt, .triqler, .evidenceIds] := rfl
    rw [hcols, genHeaders_cons, genHeaders_cons _ .uniqueCounts, genHeaders_cons _ .idType, genHeaders_cons _ .sumIbaq]
    refine ⟨genHeaders { experiments := exps, silac := s, tmt := T } [.coverage, .tmt, .triqler, .evidenceIds], ?_⟩
    have h1 : genHeaders { experiments := exps, silac := s, tmt := T } [.annotations] = C13.mqAnnotationHeaders := by
      simp [genHeaders, C13.Gen.valid, C13.Gen.hdrs]
    have h2 : genHeaders { experiments := exps, silac := s, tmt := T } [.uniqueCounts] =
        "Combined Total Peptides" :: exps.map (fun e => "Unique peptides " ++ e) := by
      simp [genHeaders, C13.Gen.valid, C13.Gen.hdrs]
    have h3 : genHeaders { experiments := exps, silac := s, tmt := T } [.idType] =
        exps.map (fun e => "Identification type " ++ e) := by
      simp [genHeaders, C13.Gen.valid, C13.Gen.hdrs]
    have h4 : genHeaders { experiments := exps, silac := s, tmt := T } [.sumIbaq] =
        ("Intensity" :: exps.flatMap (fun e => ("Intensity " ++ e) :: ch.map (fun c => "Intensity " ++ c ++ " " ++ e))) ++
        ("Number of theoretical peptides iBAQ" :: "iBAQ" ::
          exps.flatMap (fun e => ("iBAQ " ++ e) :: ch.map (fun c => "iBAQ " ++ c ++ " " ++ e))) := by
      simp [genHeaders, C13.Gen.valid, C13.Gen.hdrs, hch, bind, Except.bind, pure, Except.pure]
    rw [h1, h2, h3, h4]
    simp [C13.Table.init, List.append_assoc]


theorem silac_names_exist (s : Int) (S : Nat) (hS : C12.silacChannels s = .ok S) :
    ∃ ch, C13.silacChannels s = .ok ch ∧ ch.length = S := by
  cases hch : C13.silacChannels s with
  | ok ch => exact ⟨ch, rfl, silac_names_length s S ch hS hch⟩
  | error e =>
    exfalso
    unfold C12.silacChannels at hS
    unfold C13.silacChannels at hch
    by_cases h3 : s = 3
    · subst h3; simp at hch
    · by_cases h2 : s = 2
      · subst h2; simp at hch
      · have h3' : (s == 3) = false := by simpa using h3
        have h2' : (s == 2) = false := by simpa using h2
        simp only [h3', h2', h3, h2, Bool.false_eq_true, if_false] at hS hch
        split at hS
        · cases hS
        · rename_i hpos
          rw [if_neg hpos] at hch
          cases hch

theorem getElem?_getD_of_lt {α : Type} (l : List α) (j : Nat) (d : α) (h : j < l.length) : l[j]? = some (l.getD j d) := by
  rw [List.getD_eq_getElem?_getD, List.getElem?_eq_getElem h]
  rfl

theorem seg1 {α : Type} (A0 A1 r : List α) (n0 j : Nat) (h0 : A0.length = n0) (hj : j < A1.length) :
    (A0 ++ (A1 ++ r))[n0 + j]? = A1[j]? := by
  rw [List.getElem?_append_right (by omega), h0, Nat.add_sub_cancel_left, List.getElem?_append_left hj]

theorem seg2 {α : Type} (A0 A1 A2 r : List α) (n0 n1 j : Nat) (h0 : A0.length = n0) (h1 : A1.length = n1)
    (hj : j < A2.length) : (A0 ++ (A1 ++ (A2 ++ r)))[n0 + n1 + j]? = A2[j]? := by
  rw [List.getElem?_append_right (by omega), h0]
  have : n0 + n1 + j - n0 = n1 + j := by omega
  rw [this]
  exact seg1 A1 A2 r n1 j h1 hj

theorem seg3 {α : Type} (A0 A1 A2 A3 r : List α) (n0 n1 n2 j : Nat) (h0 : A0.length = n0) (h1 : A1.length = n1)
    (h2 : A2.length = n2) (hj : j < A3.length) :
    (A0 ++ (A1 ++ (A2 ++ (A3 ++ r))))[n0 + n1 + n2 + j]? = A3[j]? := by
  rw [List.getElem?_append_right (by omega), h0]
  have : n0 + n1 + n2 + j - n0 = n1 + n2 + j := by omega
  rw [this]
  exact seg2 A1 A2 A3 r n1 n2 j h1 h2 hj

theorem seg4 {α : Type} (A0 A1 A2 A3 A4 r : List α) (n0 n1 n2 n3 j : Nat) (h0 : A0.length = n0) (h1 : A1.length = n1)
    (h2 : A2.length = n2) (h3 : A3.length = n3) (hj : j < A4.length) :
    (A0 ++ (A1 ++ (A2 ++ (A3 ++ (A4 ++ r)))))[n0 + n1 + n2 + n3 + j]? = A4[j]? := by
  rw [List.getElem?_append_right (by omega), h0]
  have : n0 + n1 + n2 + n3 + j - n0 = n1 + n2 + n3 + j := by omega
  rw [this]
  exact seg3 A1 A2 A3 A4 r n1 n2 n3 j h1 h2 h3 hj

/-- in a written quantification row, the cell under each per-experiment header of the `i`-th experiment name is the
    rendering of the experiment's slot of the corresponding value list (`pre`: the nine base cells and three
    annotation cells) -/
theorem cells_are_slots (exps : List String) (s T : Int) (S : Nat) (hS : C12.silacChannels s = .ok S)
    (c : Rat) (ibaq : List (String × Nat)) (ids : List String) (quants : List C12.Row) (seqs : C09.SeqMap)
    (pre : List String) (hpre : pre.length = 12) (hs : List String)
    (hhs : quantHeaders { experiments := exps, silac := s, tmt := T } = .ok hs)
    (i : Nat) (name : String) (hi : exps[i]? = some name) :
    let row := pre ++ quantCells seqs exps c (C12.groupOut exps S T c ibaq ids quants)
    let intens := C12.intensities exps S c quants
    let lead : Rat := ((C12.leadingN ibaq ids : Nat) : Rat)
    cellUnder hs row ("Unique peptides " ++ name) = some (toString ((C12.peptideCounts exps c quants).getD (i + 1) 0)) ∧
    cellUnder hs row ("Identification type " ++ name) = some ((C12.idTypes exps c quants).getD i "") ∧
    cellUnder hs row ("Intensity " ++ name) = some (ratCell (intens.getD (i * (1 + S)) 0)) ∧
    cellUnder hs row ("iBAQ " ++ name) = some (ratCell (intens.getD (i * (1 + S)) 0 / lead)) ∧
    ∀ ch, C13.silacChannels s = .ok ch → ∀ k chName, ch[k]? = some chName →
      cellUnder hs row ("Intensity " ++ chName ++ " " ++ name) = some (ratCell (intens.getD (i * (1 + S) + (k + 1)) 0)) ∧
      cellUnder hs row ("iBAQ " ++ chName ++ " " ++ name) =
        some (ratCell (intens.getD (i * (1 + S) + (k + 1)) 0 / lead)) := by
  intro row intens lead
  obtain ⟨ch, hch, hchl⟩ := silac_names_exist s S hS
  obtain ⟨hnd, rest, hsplit⟩ := quantHeaders_split exps s T ch hs hch hhs
  have hil : i < exps.length := by
    by_contra hcon
    rw [List.getElem?_eq_none (by omega)] at hi
    cases hi
  have hblk : (i + 1) * (1 + S) ≤ exps.length * (1 + S) := Nat.mul_le_mul_right _ hil
  rw [Nat.add_mul] at hblk
  -- the row, cut into the same segments
  have hrow : row = pre ++ (((C12.peptideCounts exps c quants).map toString) ++ ((C12.idTypes exps c quants) ++
      ((ratCell (C12.totalOf S intens) :: intens.map ratCell) ++
      ((joinSemi ((ids.map (C12.nPepsOf ibaq)).map toString) :: ratCell (C12.totalOf S intens / lead) ::
          (intens.map (· / lead)).map ratCell) ++
        ((coverageCols seqs exps c ids quants).map ratCell ++
          ((if T > 0 then C12.tmtSums exps T.toNat c quants else []).map ratCell ++
            [joinSemi ((C12.evidenceIds c quants).map toString)])))))) := by
    simp [row, intens, lead, quantCells, C12.groupOut, List.append_assoc]
  have e0 : (C13.baseHeaders ++ C13.mqAnnotationHeaders).length = 12 := by decide
  have eI : intens.length = exps.length * (1 + S) := C12.length_intensities _ _ _ _
  have eF : ∀ (f : String → String) (g : String → String → String),
      (exps.flatMap (fun e => f e :: ch.map (fun c => g c e))).length = exps.length * (1 + S) := by
    intro f g
    rw [C13.length_flatMap_const _ (1 + S) (by intro a; simp [hchl]; omega)]
  have eB : ∀ (f : String → String) (g : String → String → String) (k : Nat), k < 1 + S →
      (exps.flatMap (fun e => f e :: ch.map (fun c => g c e)))[i * (1 + S) + k]? =
        (f name :: ch.map (fun c => g c name))[k]? := by
    intro f g k hk
    rw [getElem?_flatMap_block _ (1 + S) (by intro a; simp [hchl]; omega) exps i k hk, hi]
    rfl
  have key : ∀ (j : Nat) (h v : String), hs[j]? = some h → row[j]? = some v → cellUnder hs row h = some v := by
    intro j h v h1 h2
    rw [cellUnder_at hs row hnd j h h1, h2]
  have l1 : ("Combined Total Peptides" :: exps.map (fun e => "Unique peptides " ++ e)).length = exps.length + 1 := by simp
  have l2 : (exps.map (fun e => "Identification type " ++ e)).length = exps.length := by simp
  have l3 : ("Intensity" :: exps.flatMap (fun e => ("Intensity " ++ e) :: ch.map (fun c => "Intensity " ++ c ++ " " ++ e))).length =
      1 + exps.length * (1 + S) := by rw [List.length_cons, eF]; omega
  have r1 : ((C12.peptideCounts exps c quants).map toString).length = exps.length + 1 := by
    rw [List.length_map, length_peptideCounts]
  have r2 : (C12.idTypes exps c quants).length = exps.length := length_idTypes _ _ _
  have r3 : (ratCell (C12.totalOf S intens) :: intens.map ratCell).length = 1 + exps.length * (1 + S) := by
    rw [List.length_cons, List.length_map, eI]; omega
  have slotI : ∀ k, k < 1 + S → (intens.map ratCell)[i * (1 + S) + k]? = some (ratCell (intens.getD (i * (1 + S) + k) 0)) := by
    intro k hk
    rw [List.getElem?_map, getElem?_getD_of_lt _ _ 0 (by rw [eI]; omega)]
    rfl
  have slotB : ∀ k, k < 1 + S → ((intens.map (· / lead)).map ratCell)[i * (1 + S) + k]? =
      some (ratCell (intens.getD (i * (1 + S) + k) 0 / lead)) := by
    intro k hk
    rw [List.getElem?_map, List.getElem?_map, getElem?_getD_of_lt _ _ 0 (by rw [eI]; omega)]
    rfl
  have l4 : ∀ k, k < 1 + S → 2 + (i * (1 + S) + k) < ("Number of theoretical peptides iBAQ" :: "iBAQ" ::
      exps.flatMap (fun e => ("iBAQ " ++ e) :: ch.map (fun c => "iBAQ " ++ c ++ " " ++ e))).length := by
    intro k hk
    rw [List.length_cons, List.length_cons, eF]; omega
  have r4 : ∀ k, k < 1 + S → 2 + (i * (1 + S) + k) < (joinSemi ((ids.map (C12.nPepsOf ibaq)).map toString) ::
      ratCell (C12.totalOf S intens / lead) :: (intens.map (· / lead)).map ratCell).length := by
    intro k hk
    rw [List.length_cons, List.length_cons, List.length_map, List.length_map, eI]; omega
  have hdrI : ∀ k, k < 1 + S → hs[12 + (exps.length + 1) + exps.length + (1 + (i * (1 + S) + k))]? =
      (("Intensity " ++ name) :: ch.map (fun c => "Intensity " ++ c ++ " " ++ name))[k]? := by
    intro k hk
    rw [hsplit, seg3 _ _ _ _ _ 12 (exps.length + 1) exps.length _ e0 l1 l2 (by rw [l3]; omega)]
    rw [Nat.add_comm 1, List.getElem?_cons_succ, eB _ _ k hk]
  have rowI : ∀ k, k < 1 + S → row[12 + (exps.length + 1) + exps.length + (1 + (i * (1 + S) + k))]? =
      some (ratCell (intens.getD (i * (1 + S) + k) 0)) := by
    intro k hk
    rw [hrow, seg3 _ _ _ _ _ 12 (exps.length + 1) exps.length _ hpre r1 r2 (by rw [r3]; omega)]
    rw [Nat.add_comm 1, List.getElem?_cons_succ, slotI k hk]
  have hdrB : ∀ k, k < 1 + S →
      hs[12 + (exps.length + 1) + exps.length + (1 + exps.length * (1 + S)) + (2 + (i * (1 + S) + k))]? =
      (("iBAQ " ++ name) :: ch.map (fun c => "iBAQ " ++ c ++ " " ++ name))[k]? := by
    intro k hk
    rw [hsplit, seg4 _ _ _ _ _ _ 12 (exps.length + 1) exps.length (1 + exps.length * (1 + S)) _ e0 l1 l2 l3 (l4 k hk)]
    rw [Nat.add_comm 2, List.getElem?_cons_succ, List.getElem?_cons_succ, eB _ _ k hk]
  have rowB : ∀ k, k < 1 + S →
      row[12 + (exps.length + 1) + exps.length + (1 + exps.length * (1 + S)) + (2 + (i * (1 + S) + k))]? =
      some (ratCell (intens.getD (i * (1 + S) + k) 0 / lead)) := by
    intro k hk
    rw [hrow, seg4 _ _ _ _ _ _ 12 (exps.length + 1) exps.length (1 + exps.length * (1 + S)) _ hpre r1 r2 r3 (r4 k hk)]
    rw [Nat.add_comm 2, List.getElem?_cons_succ, List.getElem?_cons_succ, slotB k hk]
  refine ⟨?_, ?_, ?_, ?_, ?_⟩
  · -- unique peptides
    apply key (12 + (1 + i))
    · rw [hsplit, seg1 _ _ _ 12 (1 + i) e0 (by rw [l1]; omega)]
      simp [Nat.add_comm 1 i, hi]
    · rw [hrow, seg1 _ _ _ 12 (1 + i) hpre (by rw [r1]; omega)]
      rw [List.getElem?_map, getElem?_getD_of_lt _ (1 + i) 0 (by rw [length_peptideCounts]; omega), Nat.add_comm 1 i]
      rfl
  · -- identification type
    apply key (12 + (exps.length + 1) + i)
    · rw [hsplit, seg2 _ _ _ _ 12 (exps.length + 1) i e0 l1 (by rw [l2]; exact hil)]
      simp [hi]
    · rw [hrow, seg2 _ _ _ _ 12 (exps.length + 1) i hpre r1 (by rw [r2]; exact hil)]
      exact getElem?_getD_of_lt _ i "" (by rw [r2]; exact hil)
  · exact key _ _ _ (hdrI 0 (by omega)) (rowI 0 (by omega))
  · exact key _ _ _ (hdrB 0 (by omega)) (rowB 0 (by omega))
  · intro ch' hch' k chName hk
    have : ch' = ch := by rw [hch] at hch'; exact (Except.ok.inj hch').symm
    subst this
    have hkl : k < S := by
      by_contra hcon
      rw [List.getElem?_eq_none (by omega)] at hk
      cases hk
    have e1 : (("Intensity " ++ name) :: ch'.map (fun c => "Intensity " ++ c ++ " " ++ name))[k + 1]? =
        some ("Intensity " ++ chName ++ " " ++ name) := by
      rw [List.getElem?_cons_succ, List.getElem?_map, hk]; rfl
    have e2 : (("iBAQ " ++ name) :: ch'.map (fun c => "iBAQ " ++ c ++ " " ++ name))[k + 1]? =
        some ("iBAQ " ++ chName ++ " " ++ name) := by
      rw [List.getElem?_cons_succ, List.getElem?_map, hk]; rfl
    exact ⟨key _ _ _ ((hdrI (k + 1) (by omega)).trans e1) (rowI (k + 1) (by omega)),
      key _ _ _ ((hdrB (k + 1) (by omega)).trans e2) (rowB (k + 1) (by omega))⟩

end PgFdr.CliQuant
