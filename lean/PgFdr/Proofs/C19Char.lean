import PgFdr.Proofs.C19

/-!
Character level = word level for the header parsers of C19.

Core: `splitKey_unwords` — Python's `s.split(" " + key)` on a string that is a list of blank-free
words joined by single blanks (EVERY string is one: `unwords_words`, `words_blankfree`) cuts
exactly at the words (after the first) that start with `key`:

  (t0 ␣ t1 ␣ … ␣ tn).split(" KEY") = [t0 ␣ … ␣ t(i-1)] ++ (drop |KEY| ti ␣ t(i+1) ␣ … ␣ tn).split(" KEY")

for the first `i ≥ 1` with `ti` starting with KEY, and `[s]` when there is none.  From it: the
first field, the second field, `" KEY" in s`; then each `parse_*Char` function equals the
word-level function on `words s`, for every `s`.  Mathlib-free.
-/
namespace PgFdr.C19

/-! ### `splitStrAux`: general facts -/

theorem consHead_ne_nil (c : Char) (l : List (List Char)) : consHead c l ≠ [] := by
  cases l <;> simp [consHead]

theorem splitStrAux_ne_nil (sep : List Char) (n : Nat) (s : List Char) : splitStrAux sep n s ≠ [] := by
  induction s generalizing n with
  | nil => simp [splitStrAux]
  | cons c t ih =>
    cases n with
    | zero =>
      simp only [splitStrAux]
      split
      · simp
      · exact consHead_ne_nil _ _
    | succ n => simp only [splitStrAux]; exact ih n

/-- the `skip` counter only drops characters -/
theorem splitStrAux_skip (sep : List Char) (n : Nat) (s : List Char) :
    splitStrAux sep n s = splitStrAux sep 0 (s.drop n) := by
  induction n generalizing s with
  | zero => simp
  | succ n ih =>
    cases s with
    | nil => simp [splitStrAux]
    | cons c t => simp only [splitStrAux, List.drop_succ_cons]; exact ih t

/-- prepend characters to the first field -/
def prependHead (a : List Char) : List (List Char) → List (List Char)
  | [] => [a]
  | f :: fs => (a ++ f) :: fs

theorem consHead_prependHead (x : Char) (a : List Char) (l : List (List Char)) :
    consHead x (prependHead a l) = prependHead (x :: a) l := by
  cases l <;> simp [consHead, prependHead]

theorem prependHead_nil (l : List (List Char)) (h : l ≠ []) : prependHead [] l = l := by
  cases l with
  | nil => exact absurd rfl h
  | cons f fs => simp [prependHead]

/-- characters different from the separator's first character cannot start a match: they are
    copied to the field being read -/
theorem splitStrAux_pass (c : Char) (k a rest : List Char) (ha : c ∉ a) :
    splitStrAux (c :: k) 0 (a ++ rest) = prependHead a (splitStrAux (c :: k) 0 rest) := by
  induction a with
  | nil => simp [prependHead_nil _ (splitStrAux_ne_nil _ _ _)]
  | cons x a ih =>
    have hx : ¬ c = x := fun e => ha (by simp [e])
    have ha' : c ∉ a := fun e => ha (by simp [e])
    have hb : (c == x) = false := by simp [hx]
    simp only [List.cons_append, splitStrAux, List.isPrefixOf, hb, Bool.false_and,
      Bool.false_eq_true, and_false, if_false, ih ha', consHead_prependHead]

theorem splitStrAux_no_first (c : Char) (k a : List Char) (ha : c ∉ a) :
    splitStrAux (c :: k) 0 a = [a] := by
  have := splitStrAux_pass c k a [] ha
  simpa [splitStrAux, prependHead] using this

/-- at the separator's first character: a match iff the rest of the separator follows -/
theorem splitStrAux_at (c : Char) (k rest : List Char) :
    splitStrAux (c :: k) 0 (c :: rest) =
      if k.isPrefixOf rest then [] :: splitStrAux (c :: k) 0 (rest.drop k.length)
      else consHead c (splitStrAux (c :: k) 0 rest) := by
  simp only [splitStrAux, List.isPrefixOf, beq_self_eq_true, Bool.true_and, ne_eq,
    List.cons_ne_nil, not_false_eq_true, true_and, List.length_cons, Nat.add_sub_cancel]
  rw [splitStrAux_skip]

/-- a one-character separator: `splitStr` is `splitOn` -/
theorem splitStrAux_single (c : Char) (s : List Char) : splitStrAux [c] 0 s = splitOn c s := by
  induction s with
  | nil => rfl
  | cons x r ih =>
    by_cases hx : x = c
    · subst hx
      rw [splitStrAux_at]
      simp [splitOn, ih]
    · have hx' : ¬ c = x := fun e => hx e.symm
      have hb : (c == x) = false := by simp [hx']
      simp only [splitStrAux, List.isPrefixOf, hb, Bool.false_and, Bool.false_eq_true,
        and_false, if_false, ih, splitOn, hx]
      cases splitOn c r <;> rfl

/-! ### `containsSub` (Python `in`) -/

theorem containsSub_pass (c : Char) (k a rest : List Char) (ha : c ∉ a) :
    containsSub (c :: k) (a ++ rest) = containsSub (c :: k) rest := by
  induction a with
  | nil => rfl
  | cons x a ih =>
    have hx : ¬ c = x := fun e => ha (by simp [e])
    have ha' : c ∉ a := fun e => ha (by simp [e])
    have hb : (c == x) = false := by simp [hx]
    simp only [List.cons_append, containsSub, List.isPrefixOf, hb, Bool.false_and,
      Bool.false_or, ih ha']

theorem containsSub_no_first (c : Char) (k a : List Char) (ha : c ∉ a) :
    containsSub (c :: k) a = false := by
  have := containsSub_pass c k a [] ha
  simpa [containsSub] using this

theorem containsSub_single (c : Char) (s : List Char) : containsSub [c] s = s.contains c := by
  induction s with
  | nil => rfl
  | cons x r ih =>
    simp only [containsSub, List.isPrefixOf, Bool.and_true, ih, List.contains_cons]

/-! ### words -/

theorem splitOn_blankfree (c : Char) (s : List Char) : ∀ t ∈ splitOn c s, c ∉ t := by
  induction s with
  | nil => simp [splitOn]
  | cons x r ih =>
    unfold splitOn
    by_cases hx : x = c
    · simp only [hx, if_true, List.mem_cons]
      rintro t (rfl | ht)
      · simp
      · exact ih t ht
    · simp only [hx, if_false]
      cases hs : splitOn c r with
      | nil => exact absurd hs (splitOn_ne_nil c r)
      | cons f fs =>
        rw [hs] at ih
        simp only [List.mem_cons]
        rintro t (rfl | ht)
        · simp only [List.mem_cons, not_or]
          exact ⟨fun e => hx e.symm, ih f (by simp)⟩
        · exact ih t (by simp [ht])

theorem joinOn_splitOn (c : Char) (s : List Char) : joinOn c (splitOn c s) = s := by
  induction s with
  | nil => rfl
  | cons x r ih =>
    unfold splitOn
    by_cases hx : x = c
    · simp only [hx, if_true]
      cases hs : splitOn c r with
      | nil => exact absurd hs (splitOn_ne_nil c r)
      | cons f fs => rw [hs] at ih; simp [joinOn, ih]
    · simp only [hx, if_false]
      cases hs : splitOn c r with
      | nil => exact absurd hs (splitOn_ne_nil c r)
      | cons f fs =>
        rw [hs] at ih
        cases fs with
        | nil => simp only [joinOn] at ih ⊢; rw [ih]
        | cons g gs => simp only [joinOn] at ih ⊢; rw [← ih]; rfl

/-- every string is its words joined by single blanks -/
theorem unwords_words (s : List Char) : unwords (words s) = s := joinOn_splitOn ' ' s

theorem words_blankfree (s : List Char) : ∀ t ∈ words s, ' ' ∉ t := splitOn_blankfree ' ' s

theorem unwords_cons (t : Tok) (r : List Tok) :
    unwords (t :: r) = if r = [] then t else t ++ ' ' :: unwords r := by
  cases r <;> simp [unwords, joinOn]

theorem unwords_cons_cons (t t' : Tok) (r : List Tok) :
    unwords (t :: t' :: r) = t ++ ' ' :: unwords (t' :: r) := rfl

theorem unwords_append_head (k t : Tok) (r : List Tok) : unwords ((k ++ t) :: r) = k ++ unwords (t :: r) := by
  cases r <;> simp [unwords, joinOn]

/-- a blank-free key is a prefix of the joined text iff it is a prefix of the first word -/
theorem isPrefixOf_before_blank (k t rest : List Char) (hk : ' ' ∉ k) :
    k.isPrefixOf (t ++ ' ' :: rest) = k.isPrefixOf t := by
  induction k generalizing t with
  | nil => simp
  | cons y k ih =>
    have hy : ¬ y = ' ' := fun e => hk (by simp [e])
    have hk' : ' ' ∉ k := fun e => hk (by simp [e])
    cases t with
    | nil => simp [List.isPrefixOf, hy]
    | cons z t => simp only [List.cons_append, List.isPrefixOf, ih t hk']

theorem isPrefixOf_unwords (k t : Tok) (r : List Tok) (hk : ' ' ∉ k) :
    k.isPrefixOf (unwords (t :: r)) = startsWith k t := by
  unfold startsWith
  cases r with
  | nil => rfl
  | cons t' r' => rw [unwords_cons_cons, isPrefixOf_before_blank k t _ hk]

theorem drop_unwords (k t : Tok) (r : List Tok) (h : startsWith k t = true) :
    (unwords (t :: r)).drop k.length = unwords (t.drop k.length :: r) := by
  unfold startsWith at h
  obtain ⟨t', rfl⟩ := List.isPrefixOf_iff_prefix.mp h
  rw [unwords_append_head]
  simp

theorem mem_before (p : Tok → Bool) (ts : List Tok) : ∀ t ∈ before p ts, t ∈ ts := by
  induction ts with
  | nil => simp [before]
  | cons x r ih =>
    unfold before
    by_cases hx : p x = true
    · simp [hx]
    · simp only [hx, Bool.false_eq_true, if_false, List.mem_cons]
      intro t ht
      rcases ht with rfl | ht
      · exact Or.inl rfl
      · exact Or.inr (ih t ht)

theorem fromFirst_some_mem (p : Tok → Bool) (ts : List Tok) (t : Tok) (r : List Tok)
    (h : fromFirst p ts = some (t, r)) : t ∈ ts ∧ ∀ x ∈ r, x ∈ ts := by
  induction ts with
  | nil => simp [fromFirst] at h
  | cons x xs ih =>
    unfold fromFirst at h
    by_cases hx : p x = true
    · simp only [hx, if_true, Option.some.injEq, Prod.mk.injEq] at h
      obtain ⟨rfl, rfl⟩ := h
      exact ⟨by simp, fun y hy => by simp [hy]⟩
    · simp only [hx, Bool.false_eq_true, if_false] at h
      obtain ⟨h1, h2⟩ := ih h
      exact ⟨by simp [h1], fun y hy => by simp [h2 y hy]⟩

theorem before_of_fromFirst_none (p : Tok → Bool) (ts : List Tok) (h : fromFirst p ts = none) :
    before p ts = ts := by
  induction ts with
  | nil => rfl
  | cons x xs ih =>
    unfold fromFirst at h
    by_cases hx : p x = true
    · simp [hx] at h
    · simp only [hx, Bool.false_eq_true, if_false] at h
      simp only [before, hx, Bool.false_eq_true, if_false, ih h]

/-! ### the core: `split(" KEY")` of words joined by single blanks -/

/-- Python's `s.split(" " + key)` for `s = " ".join(t0 :: ts)` with blank-free words and a
    blank-free key: cut at the first word after `t0` that starts with the key; the next field
    starts with the rest of that word -/
theorem splitKey_unwords (k : List Char) (hk : ' ' ∉ k) (ts : List Tok) :
    ∀ (t0 : Tok), ' ' ∉ t0 → (∀ t ∈ ts, ' ' ∉ t) →
    splitStrAux (' ' :: k) 0 (unwords (t0 :: ts)) =
      match fromFirst (startsWith k) ts with
      | none => [unwords (t0 :: ts)]
      | some (t, r) =>
        unwords (t0 :: before (startsWith k) ts) ::
          splitStrAux (' ' :: k) 0 (unwords (t.drop k.length :: r)) := by
  induction ts with
  | nil =>
    intro t0 h0 _
    simpa [fromFirst, unwords, joinOn] using splitStrAux_no_first ' ' k t0 h0
  | cons t r ih =>
    intro t0 h0 hts
    have ht : ' ' ∉ t := hts t (by simp)
    have hr : ∀ x ∈ r, ' ' ∉ x := fun x hx => hts x (by simp [hx])
    rw [unwords_cons_cons, splitStrAux_pass ' ' k t0 _ h0, splitStrAux_at, isPrefixOf_unwords k t r hk]
    by_cases hm : startsWith k t = true
    · simp only [hm, if_true, fromFirst, before, prependHead, List.append_nil]
      rw [drop_unwords k t r hm]
      simp [unwords, joinOn]
    · simp only [hm, Bool.false_eq_true, if_false, fromFirst, before]
      rw [ih t ht hr]
      cases fromFirst (startsWith k) r with
      | none => simp [consHead, prependHead]
      | some x =>
        obtain ⟨t', r'⟩ := x
        simp only [consHead, prependHead, List.cons.injEq, and_true]
        exact (unwords_cons_cons t0 t _).symm

/-- `s.split(" KEY")[0]` -/
theorem splitKey_first (k : List Char) (hk : ' ' ∉ k) (t0 : Tok) (ts : List Tok)
    (h0 : ' ' ∉ t0) (hts : ∀ t ∈ ts, ' ' ∉ t) :
    idx (splitStrAux (' ' :: k) 0 (unwords (t0 :: ts))) 0 = unwords (t0 :: before (startsWith k) ts) := by
  rw [splitKey_unwords k hk ts t0 h0 hts]
  cases h : fromFirst (startsWith k) ts with
  | none => simp [idx, before_of_fromFirst_none _ _ h]
  | some x => simp [idx]

/-- `s.split(" KEY")[1]` when a word after the first starts with the key -/
theorem splitKey_second (k : List Char) (hk : ' ' ∉ k) (t0 : Tok) (ts : List Tok)
    (h0 : ' ' ∉ t0) (hts : ∀ t ∈ ts, ' ' ∉ t) (t : Tok) (r : List Tok)
    (h : fromFirst (startsWith k) ts = some (t, r)) :
    idx (splitStrAux (' ' :: k) 0 (unwords (t0 :: ts))) 1 =
      unwords (t.drop k.length :: before (startsWith k) r) := by
  obtain ⟨hm, hsub⟩ := fromFirst_some_mem _ _ _ _ h
  have ht : ' ' ∉ t.drop k.length := fun e => hts t hm (List.mem_of_mem_drop e)
  have hr : ∀ x ∈ r, ' ' ∉ x := fun x hx => hts x (hsub x hx)
  rw [splitKey_unwords k hk ts t0 h0 hts, h]
  have := splitKey_first k hk (t.drop k.length) r ht hr
  simp only [idx] at this ⊢
  cases hs : splitStrAux (' ' :: k) 0 (unwords (List.drop k.length t :: r)) with
  | nil => exact absurd hs (splitStrAux_ne_nil _ _ _)
  | cons f fs => rw [hs] at this; simpa using this

/-- `" KEY" in s` -/
theorem containsKey_unwords (k : List Char) (hk : ' ' ∉ k) (ts : List Tok) :
    ∀ (t0 : Tok), ' ' ∉ t0 → (∀ t ∈ ts, ' ' ∉ t) →
    containsSub (' ' :: k) (unwords (t0 :: ts)) = (fromFirst (startsWith k) ts).isSome := by
  induction ts with
  | nil =>
    intro t0 h0 _
    simpa [fromFirst, unwords, joinOn] using containsSub_no_first ' ' k t0 h0
  | cons t r ih =>
    intro t0 h0 hts
    have ht : ' ' ∉ t := hts t (by simp)
    have hr : ∀ x ∈ r, ' ' ∉ x := fun x hx => hts x (by simp [hx])
    rw [unwords_cons_cons, containsSub_pass ' ' k t0 _ h0]
    simp only [containsSub, List.isPrefixOf, beq_self_eq_true, Bool.true_and]
    rw [isPrefixOf_unwords k t r hk, ih t ht hr]
    by_cases hm : startsWith k t = true
    · simp [hm, fromFirst]
    · simp [hm, fromFirst]

/-- `s.split(" ")` of blank-free words joined by single blanks -/
theorem splitBlank_unwords (t0 : Tok) (ts : List Tok) (h0 : ' ' ∉ t0) (hts : ∀ t ∈ ts, ' ' ∉ t) :
    splitStrAux [' '] 0 (unwords (t0 :: ts)) = t0 :: ts := by
  rw [splitStrAux_single]
  exact words_unwords (t0 :: ts) (by simp) (by
    intro t ht
    simp only [List.mem_cons] at ht
    rcases ht with rfl | ht
    · exact h0
    · exact hts t ht)

/-- a statement about all blank-joined word lists is a statement about all strings -/
theorem lift_words {α : Type} (P : List Char → α) (F : List Tok → α)
    (core : ∀ (t0 : Tok) (ts : List Tok), ' ' ∉ t0 → (∀ t ∈ ts, ' ' ∉ t) → P (unwords (t0 :: ts)) = F (t0 :: ts))
    (s : List Char) : P s = F (words s) := by
  cases hw : words s with
  | nil => exact absurd hw (splitOn_ne_nil ' ' s)
  | cons t0 ts =>
    have hb := words_blankfree s
    rw [hw] at hb
    have := core t0 ts (hb t0 (by simp)) (fun t ht => hb t (by simp [ht]))
    rw [← hw, unwords_words] at this
    rw [← hw]; exact this

/-! ### the keys are blank-free -/

theorem os_noblank : ' ' ∉ OS := by decide
theorem gn_noblank : ' ' ∉ GN := by decide
theorem pe_noblank : ' ' ∉ PE := by decide

theorem sepOS : " OS=".toList = ' ' :: OS := rfl
theorem sepGN : " GN=".toList = ' ' :: GN := rfl
theorem sepPE : " PE=".toList = ' ' :: PE := rfl
theorem sepBlank : " ".toList = [' '] := rfl
theorem sepBar : "|".toList = ['|'] := rfl

/-! ### each character-level parser = the word-level parser, on every string -/

theorem parseIdChar_eq (s : List Char) : parseIdChar s = parseId (words s) := by
  unfold parseIdChar parseId splitStr idx words
  rw [sepBlank, splitStrAux_single]
  cases splitOn ' ' s <;> rfl

theorem parseUniprotIdChar_eq (s : List Char) : parseUniprotIdChar s = parseUniprotId (words s) := by
  unfold parseUniprotIdChar parseUniprotId pyIn splitStr idx
  simp only [parseIdChar_eq, sepBar, splitStrAux_single, containsSub_single]

theorem parseEntryNameChar_eq (s : List Char) : parseEntryNameChar s = parseEntryName (words s) := by
  unfold parseEntryNameChar parseEntryName pyIn splitStr idx
  simp only [parseIdChar_eq, sepBar, splitStrAux_single, containsSub_single]
  by_cases hc : List.count '|' (parseId (words s)) ≥ 2
  · have hm : '|' ∈ parseId (words s) := List.count_pos_iff.mp (by omega)
    simp [hc, hm]
  · simp [hc]

theorem parseDescriptionChar_eq (s : List Char) :
    parseDescriptionChar s = unwords (parseDescription (words s)) := by
  refine lift_words parseDescriptionChar (fun ts => unwords (parseDescription ts)) ?_ s
  intro t0 ts h0 hts
  unfold parseDescriptionChar parseDescription splitStr
  rw [sepOS, sepBlank, splitKey_first OS os_noblank t0 ts h0 hts,
    splitBlank_unwords t0 _ h0 (fun t ht => hts t (mem_before _ _ t ht))]
  rfl

theorem parseOrganismChar_eq (s : List Char) :
    parseOrganismChar s = (parseOrganism (words s)).map unwords := by
  refine lift_words parseOrganismChar (fun ts => (parseOrganism ts).map unwords) ?_ s
  intro t0 ts h0 hts
  unfold parseOrganismChar parseOrganism pyIn splitStr
  rw [sepOS, sepGN, containsKey_unwords OS os_noblank ts t0 h0 hts, List.tail_cons]
  cases h : fromFirst (startsWith OS) ts with
  | none => simp
  | some x =>
    obtain ⟨t, r⟩ := x
    obtain ⟨hm, hsub⟩ := fromFirst_some_mem _ _ _ _ h
    have ht : ' ' ∉ t.drop OS.length := fun e => hts t hm (List.mem_of_mem_drop e)
    have hr : ∀ x ∈ before (startsWith OS) r, ' ' ∉ x := fun x hx => hts x (hsub x (mem_before _ _ x hx))
    simp only [Option.isSome_some, if_true, Option.map_some]
    rw [splitKey_second OS os_noblank t0 ts h0 hts t r h,
      splitKey_first GN gn_noblank _ _ ht hr]

/-- `s.split(" KEY")[1].split(" ")[0]`: the rest of the first key word -/
theorem keyValue_unwords (k : List Char) (hk : ' ' ∉ k) (t0 : Tok) (ts : List Tok)
    (h0 : ' ' ∉ t0) (hts : ∀ t ∈ ts, ' ' ∉ t) (t : Tok) (r : List Tok)
    (h : fromFirst (startsWith k) ts = some (t, r)) :
    idx (splitStrAux [' '] 0 (idx (splitStrAux (' ' :: k) 0 (unwords (t0 :: ts))) 1)) 0 = t.drop k.length := by
  obtain ⟨hm, hsub⟩ := fromFirst_some_mem _ _ _ _ h
  have ht : ' ' ∉ t.drop k.length := fun e => hts t hm (List.mem_of_mem_drop e)
  have hr : ∀ x ∈ before (startsWith k) r, ' ' ∉ x := fun x hx => hts x (hsub x (mem_before _ _ x hx))
  rw [splitKey_second k hk t0 ts h0 hts t r h, splitBlank_unwords _ _ ht hr]
  rfl

theorem parseGeneChar_eq (s : List Char) : parseGeneChar s = parseGene (words s) := by
  refine lift_words parseGeneChar parseGene ?_ s
  intro t0 ts h0 hts
  unfold parseGeneChar parseGene pyIn splitStr
  rw [sepGN, sepBlank, containsKey_unwords GN gn_noblank ts t0 h0 hts, List.tail_cons]
  cases h : fromFirst (startsWith GN) ts with
  | none => simp
  | some x =>
    obtain ⟨t, r⟩ := x
    simp only [Option.isSome_some, if_true, Option.map_some]
    rw [keyValue_unwords GN gn_noblank t0 ts h0 hts t r h]

theorem parseExistenceChar_eq (s : List Char) : parseExistenceChar s = parseExistence (words s) := by
  refine lift_words parseExistenceChar parseExistence ?_ s
  intro t0 ts h0 hts
  unfold parseExistenceChar parseExistence pyIn splitStr
  rw [sepPE, sepBlank, containsKey_unwords PE pe_noblank ts t0 h0 hts, List.tail_cons]
  cases h : fromFirst (startsWith PE) ts with
  | none => simp
  | some x =>
    obtain ⟨t, r⟩ := x
    simp only [Option.isSome_some, if_true, Option.map_some]
    rw [keyValue_unwords PE pe_noblank t0 ts h0 hts t r h]

theorem applyRuleChar_eq (rule : IdRule) (s : List Char) : applyRuleChar rule s = applyRule rule (words s) := by
  cases rule <;> simp [applyRuleChar, applyRule, parseIdChar_eq, parseUniprotIdChar_eq, parseGeneChar_eq]

/-- the whole annotation: the character-level reading is the word-level reading, for EVERY header -/
theorem annotateChar_eq (rule : IdRule) (s : List Char) (n : Nat) :
    annotateChar rule s n = annotate rule s n := by
  unfold annotateChar annotate
  simp only [parseExistenceChar_eq, applyRuleChar_eq, parseUniprotIdChar_eq, parseEntryNameChar_eq,
    parseGeneChar_eq, parseOrganismChar_eq, parseDescriptionChar_eq]

end PgFdr.C19
