import Mathlib.Order.Defs.LinearOrder
import Mathlib.Algebra.Order.Ring.Rat
import Mathlib.Tactic.Linarith
import Mathlib.Logic.Relation
import Mathlib.Data.List.Basic
import Mathlib.Data.List.Induction
import PgFdr.Model.C10
import PgFdr.Props.C03

/-! Helper lemmas for C10: the dict operations, the per-peptide view of the fold, its complete
characterisation (first PSM attaining the minimum), permutation lemmas, the mapper, purity. -/
namespace PgFdr.C10

/-! ### dict operations -/

theorem get_upsert (d : List PepInfo) (e : PepInfo) (k : String) :
    get (upsert d e) k = if e.peptide = k then some e else get d k := by
  induction d with
  | nil => simp [upsert, get]
  | cons h r ih =>
    simp only [upsert]
    by_cases hak : h.peptide = e.peptide
    · by_cases hk : e.peptide = k
      · simp [get, hak, hk]
      · simp [get, hak, hk]
    · simp only [hak, if_false, get]
      by_cases hak' : h.peptide = k
      · have : ¬ e.peptide = k := by rw [← hak']; exact fun h' => hak h'.symm
        simp [hak', this]
      · simp [hak', ih]

theorem mem_upsert {d : List PepInfo} {e a : PepInfo} (h : a ∈ upsert d e) : a ∈ d ∨ a = e := by
  induction d with
  | nil => simp [upsert] at h; exact Or.inr h
  | cons x r ih =>
    simp only [upsert] at h
    by_cases hk : x.peptide = e.peptide
    · simp only [hk, if_true, List.mem_cons] at h
      rcases h with h | h
      · exact Or.inr h
      · exact Or.inl (List.mem_cons_of_mem _ h)
    · simp only [hk, if_false, List.mem_cons] at h
      rcases h with h | h
      · exact Or.inl (h ▸ List.mem_cons_self)
      · rcases ih h with h' | h'
        · exact Or.inl (List.mem_cons_of_mem _ h')
        · exact Or.inr h'

/-- keys of the dict after an assignment -/
theorem keys_upsert (d : List PepInfo) (e : PepInfo) :
    (upsert d e).map (·.peptide) =
      if e.peptide ∈ d.map (·.peptide) then d.map (·.peptide) else d.map (·.peptide) ++ [e.peptide] := by
  induction d with
  | nil => simp [upsert]
  | cons x r ih =>
    simp only [upsert]
    by_cases hk : x.peptide = e.peptide
    · simp [hk]
    · simp only [hk, if_false, List.map_cons, ih, List.mem_cons]
      have : ¬ e.peptide = x.peptide := fun h => hk h.symm
      by_cases hm : e.peptide ∈ r.map (·.peptide)
      · simp [hm]
      · simp [hm, this]

theorem keys_nodup_upsert {d : List PepInfo} (e : PepInfo) (h : (d.map (·.peptide)).Nodup) :
    ((upsert d e).map (·.peptide)).Nodup := by
  rw [keys_upsert]
  by_cases hm : e.peptide ∈ d.map (·.peptide)
  · simp only [hm, if_true]; exact h
  · simp only [hm, if_false]
    rw [List.nodup_append]
    refine ⟨h, by simp, ?_⟩
    intro a ha b hb
    simp only [List.mem_singleton] at hb
    subst hb
    intro hab; subst hab; exact hm ha

theorem get_of_mem_nodup {d : List PepInfo} (h : (d.map (·.peptide)).Nodup) {e : PepInfo} (he : e ∈ d) :
    get d e.peptide = some e := by
  induction d with
  | nil => simp at he
  | cons x r ih =>
    simp only [List.map_cons, List.nodup_cons] at h
    rcases List.mem_cons.mp he with rfl | he'
    · simp [get]
    · have hne : ¬ x.peptide = e.peptide := by
        intro hx
        exact h.1 (hx ▸ List.mem_map_of_mem he')
      simp [get, hne, ih h.2 he']

theorem get_some_mem {d : List PepInfo} {k : String} {e : PepInfo} (h : get d k = some e) :
    e ∈ d ∧ e.peptide = k := by
  induction d with
  | nil => simp [get] at h
  | cons x r ih =>
    simp only [get] at h
    by_cases hx : x.peptide = k
    · simp only [hx, if_true, Option.some.injEq] at h
      subst h; exact ⟨List.mem_cons_self, hx⟩
    · simp only [hx, if_false] at h
      exact ⟨List.mem_cons_of_mem _ (ih h).1, (ih h).2⟩

/-! ### per-peptide view of one row -/

/-- the effect of one PSM on the entry of peptide `q` -/
def best1 (q : String) (cur : Option PepInfo) (x : Psm) : Option PepInfo :=
  if x.key = q then
    match x.score with
    | none => cur
    | some s =>
      match cur with
      | none => some { peptide := x.key, pep := s, proteins := x.prots }
      | some e0 => if e0.pep ≤ s then some e0 else some { peptide := x.key, pep := s, proteins := x.prots }
  else cur

theorem get_ingest (d : List PepInfo) (x : Psm) (q : String) :
    get (ingest d x) q = best1 q (get d q) x := by
  unfold ingest best1
  cases hs : x.score with
  | none => by_cases h : x.key = q <;> simp [h]
  | some s =>
    simp only
    by_cases h : x.key = q
    · subst h
      cases hg : get d x.key with
      | none => simp [get_upsert]
      | some e0 =>
        simp only [if_true]
        by_cases hle : e0.pep ≤ s
        · simp [hle, hg]
        · simp [hle, get_upsert]
    · simp only [h, if_false]
      cases hg : get d x.key with
      | none => simp [get_upsert, h]
      | some e0 =>
        by_cases hle : e0.pep ≤ s
        · simp [hle]
        · simp [hle, get_upsert, h]

theorem get_foldl_ingest (xs : List Psm) (q : String) (d : List PepInfo) :
    get (xs.foldl ingest d) q = xs.foldl (best1 q) (get d q) := by
  induction xs generalizing d with
  | nil => rfl
  | cons x xs ih => simp only [List.foldl_cons]; rw [ih, get_ingest]

/-- the dictionary entry of a peptide is the per-peptide fold over the PSMs -/
theorem get_parse (xs : List Psm) (q : String) :
    get (parse xs) q = xs.foldl (best1 q) none := by
  unfold parse
  rw [get_foldl_ingest]; rfl

/-! ### complete characterisation of the per-peptide fold -/

/-- `e` is the entry the first PSM of peptide `q` attaining the minimal score writes -/
def FirstBest (q : String) (xs : List Psm) (e : PepInfo) : Prop :=
  e.peptide = q ∧ ∃ pre x post, xs = pre ++ x :: post ∧ x.key = q ∧ x.score = some e.pep ∧
    x.prots = e.proteins ∧
    (∀ y ∈ pre, y.key = q → ∀ s, y.score = some s → e.pep < s) ∧
    (∀ y ∈ post, y.key = q → ∀ s, y.score = some s → e.pep ≤ s)

def NoScore (q : String) (xs : List Psm) : Prop := ∀ x ∈ xs, x.key = q → x.score = none

theorem fold_spec (q : String) (xs : List Psm) :
    match xs.foldl (best1 q) none with
    | none => NoScore q xs
    | some e => FirstBest q xs e := by
  induction xs using List.reverseRecOn with
  | nil => simp [NoScore]
  | append_singleton xs x ih =>
    rw [List.foldl_append, List.foldl_cons, List.foldl_nil]
    cases hres : xs.foldl (best1 q) none with
    | none =>
      rw [hres] at ih
      simp only at ih
      unfold best1
      by_cases hk : x.key = q
      · simp only [hk, if_true]
        cases hs : x.score with
        | none =>
          simp only
          intro y hy hyk
          rcases List.mem_append.mp hy with hy | hy
          · exact ih y hy hyk
          · simp only [List.mem_singleton] at hy; subst hy; exact hs
        | some s =>
          simp only
          refine ⟨rfl, xs, x, [], rfl, hk, hs, rfl, ?_, by simp⟩
          intro y hy hyk t ht
          have := ih y hy hyk
          rw [this] at ht; cases ht
      · simp only [hk, if_false]
        intro y hy hyk
        rcases List.mem_append.mp hy with hy | hy
        · exact ih y hy hyk
        · simp only [List.mem_singleton] at hy; subst hy; exact absurd hyk hk
    | some e =>
      rw [hres] at ih
      simp only at ih
      obtain ⟨hpe, pre, z, post, hxs, hzk, hzs, hzp, hpre, hpost⟩ := ih
      unfold best1
      by_cases hk : x.key = q
      · simp only [hk, if_true]
        cases hs : x.score with
        | none =>
          simp only
          refine ⟨hpe, pre, z, post ++ [x], by simp [hxs], hzk, hzs, hzp, hpre, ?_⟩
          intro y hy hyk t ht
          rcases List.mem_append.mp hy with hy | hy
          · exact hpost y hy hyk t ht
          · simp only [List.mem_singleton] at hy; subst hy; rw [hs] at ht; cases ht
        | some s =>
          simp only
          by_cases hle : e.pep ≤ s
          · simp only [hle, if_true]
            refine ⟨hpe, pre, z, post ++ [x], by simp [hxs], hzk, hzs, hzp, hpre, ?_⟩
            intro y hy hyk t ht
            rcases List.mem_append.mp hy with hy | hy
            · exact hpost y hy hyk t ht
            · simp only [List.mem_singleton] at hy; subst hy
              rw [hs] at ht; cases ht; exact hle
          · simp only [hle, if_false]
            have hlt : s < e.pep := not_le.mp hle
            refine ⟨rfl, xs, x, [], rfl, hk, hs, rfl, ?_, by simp⟩
            intro y hy hyk t ht
            show s < t
            rw [hxs] at hy
            rcases List.mem_append.mp hy with hy | hy
            · exact lt_trans hlt (hpre y hy hyk t ht)
            · rcases List.mem_cons.mp hy with rfl | hy
              · rw [hzs] at ht; cases ht; exact hlt
              · exact lt_of_lt_of_le hlt (hpost y hy hyk t ht)
      · simp only [hk, if_false]
        refine ⟨hpe, pre, z, post ++ [x], by simp [hxs], hzk, hzs, hzp, hpre, ?_⟩
        intro y hy hyk t ht
        rcases List.mem_append.mp hy with hy | hy
        · exact hpost y hy hyk t ht
        · simp only [List.mem_singleton] at hy; subst hy; exact absurd hyk hk

theorem mem_scoresOf {q : String} {xs : List Psm} {s : Rat} :
    s ∈ scoresOf q xs ↔ ∃ x ∈ xs, x.key = q ∧ x.score = some s := by
  unfold scoresOf
  rw [List.mem_filterMap]
  constructor
  · rintro ⟨x, hx, h⟩
    by_cases hk : x.key = q
    · simp only [hk, if_true] at h; exact ⟨x, hx, hk, h⟩
    · simp [hk] at h
  · rintro ⟨x, hx, hk, hs⟩
    exact ⟨x, hx, by simp [hk, hs]⟩

theorem scoresOf_perm (q : String) {xs ys : List Psm} (h : xs.Perm ys) :
    (scoresOf q xs).Perm (scoresOf q ys) := h.filterMap _

theorem firstBest_min {q : String} {xs : List Psm} {e : PepInfo} (h : FirstBest q xs e) :
    e.pep ∈ scoresOf q xs ∧ ∀ s ∈ scoresOf q xs, e.pep ≤ s := by
  obtain ⟨_, pre, x, post, hxs, hxk, hxsc, _, hpre, hpost⟩ := h
  constructor
  · rw [mem_scoresOf]; exact ⟨x, by simp [hxs], hxk, hxsc⟩
  · intro s hs
    rw [mem_scoresOf] at hs
    obtain ⟨y, hy, hyk, hys⟩ := hs
    rw [hxs] at hy
    rcases List.mem_append.mp hy with hy | hy
    · exact le_of_lt (hpre y hy hyk s hys)
    · rcases List.mem_cons.mp hy with rfl | hy
      · rw [hxsc] at hys; cases hys; exact le_refl _
      · exact hpost y hy hyk s hys

theorem noScore_scoresOf {q : String} {xs : List Psm} (h : NoScore q xs) : scoresOf q xs = [] := by
  rw [List.eq_nil_iff_forall_not_mem]
  intro s hs
  rw [mem_scoresOf] at hs
  obtain ⟨x, hx, hk, hsc⟩ := hs
  rw [h x hx hk] at hsc; cases hsc

/-! ### every entry of the result stems from a PSM; keys are unique -/

theorem mem_foldl_ingest (xs : List Psm) (d : List PepInfo) (e : PepInfo)
    (h : e ∈ xs.foldl ingest d) :
    e ∈ d ∨ ∃ x ∈ xs, x.key = e.peptide ∧ x.score = some e.pep ∧ x.prots = e.proteins := by
  induction xs generalizing d with
  | nil => exact Or.inl h
  | cons x xs ih =>
    simp only [List.foldl_cons] at h
    rcases ih _ h with h1 | ⟨y, hy, hh⟩
    · have hx : e ∈ d ∨ (x.key = e.peptide ∧ x.score = some e.pep ∧ x.prots = e.proteins) := by
        unfold ingest at h1
        cases hs : x.score with
        | none => rw [hs] at h1; exact Or.inl h1
        | some s =>
          rw [hs] at h1
          simp only at h1
          have key : e ∈ upsert d { peptide := x.key, pep := s, proteins := x.prots } →
              e ∈ d ∨ (x.key = e.peptide ∧ some s = some e.pep ∧ x.prots = e.proteins) := by
            intro hm
            rcases mem_upsert hm with hm | hm
            · exact Or.inl hm
            · subst hm; exact Or.inr ⟨rfl, rfl, rfl⟩
          cases hg : get d x.key with
          | none => rw [hg] at h1; exact key h1
          | some e0 =>
            rw [hg] at h1
            simp only at h1
            by_cases hle : e0.pep ≤ s
            · simp only [hle, if_true] at h1; exact Or.inl h1
            · simp only [hle, if_false] at h1; exact key h1
      rcases hx with hx | hx
      · exact Or.inl hx
      · exact Or.inr ⟨x, List.mem_cons_self, hx⟩
    · exact Or.inr ⟨y, List.mem_cons_of_mem _ hy, hh⟩

theorem mem_parse {xs : List Psm} {e : PepInfo} (h : e ∈ parse xs) :
    ∃ x ∈ xs, x.key = e.peptide ∧ x.score = some e.pep ∧ x.prots = e.proteins := by
  rcases mem_foldl_ingest xs [] e h with h | h
  · simp at h
  · exact h

theorem keys_nodup_ingest {d : List PepInfo} (x : Psm) (h : (d.map (·.peptide)).Nodup) :
    ((ingest d x).map (·.peptide)).Nodup := by
  unfold ingest
  cases x.score with
  | none => exact h
  | some s =>
    simp only
    cases get d x.key with
    | none => exact keys_nodup_upsert _ h
    | some e0 =>
      simp only
      by_cases hle : e0.pep ≤ s
      · simp only [hle, if_true]; exact h
      · simp only [hle, if_false]; exact keys_nodup_upsert _ h

theorem keys_nodup_parse (xs : List Psm) : ((parse xs).map (·.peptide)).Nodup := by
  unfold parse
  suffices h : ∀ d : List PepInfo, (d.map (·.peptide)).Nodup → ((xs.foldl ingest d).map (·.peptide)).Nodup by
    exact h [] (by simp)
  induction xs with
  | nil => intro d h; exact h
  | cons x xs ih => intro d h; exact ih _ (keys_nodup_ingest x h)

/-! ### rows, files, permutations -/

theorem flankOf_not_perc {fmt : Format} (h : isPerc fmt = false) (rows : List RawRow) :
    flankOf fmt rows = false := by
  cases fmt <;> simp [isPerc] at h <;> cases rows <;> rfl

/-- all rows of the file agree with `b` on carrying flanks -/
theorem flankOf_uniform {fmt : Format} (hp : isPerc fmt = true) {rows : List RawRow} {b : Bool}
    (h : ∀ r ∈ rows, hasFlanks r.pep = b) (hne : rows ≠ []) : flankOf fmt rows = b := by
  cases rows with
  | nil => exact absurd rfl hne
  | cons r t =>
    have := h r List.mem_cons_self
    cases fmt <;> simp [isPerc] at hp <;> simpa [flankOf] using this

theorem filePsms_perm (T : Transforms) (mode : Mode) (m : DMap) {rows rows' : List RawRow}
    (hp : rows.Perm rows') (hf : flankOf mode.format rows = flankOf mode.format rows') :
    (filePsms T mode m rows).Perm (filePsms T mode m rows') := by
  unfold filePsms
  rw [hf]
  exact hp.filterMap _

/-! ### the mapper -/

theorem rowPsm_some {T : Transforms} {mode : Mode} {m : DMap} {flank : Bool} {r : RawRow} {x : Psm}
    (h : rowPsm T mode m flank r = some x) :
    x.modPep = rowPeptide mode.format flank r ∧ x.score = rowScore T mode.format r ∧
    x.prots = removeDecoyProteinsFromTargetPeptides
      (sourceProteins mode.remap m (rowPeptide mode.format flank r) (rowProteinsOf mode r)) ∧
    x.prots ≠ [] ∧
    (mode.remap = true → digestLookup m x.key ≠ []) := by
  unfold rowPsm mapProteins at h
  by_cases hc : mode.remap = true ∧
      (sourceProteins mode.remap m (rowPeptide mode.format flank r) (rowProteinsOf mode r)).isEmpty = true
  · rw [if_pos hc] at h; simp at h
  · rw [if_neg hc] at h
    by_cases he : (removeDecoyProteinsFromTargetPeptides
        (sourceProteins mode.remap m (rowPeptide mode.format flank r) (rowProteinsOf mode r))).isEmpty = true
    · simp [he] at h
    · simp only [he] at h
      simp only [Bool.false_eq_true, if_false, Option.some.injEq] at h
      subst h
      refine ⟨rfl, rfl, rfl, ?_, ?_⟩
      · simpa [List.isEmpty_iff] using he
      · intro hr
        simp only [Psm.key]
        intro hl
        apply hc
        refine ⟨hr, ?_⟩
        simp [sourceProteins, hr, hl]

theorem mem_filePsms {T : Transforms} {mode : Mode} {m : DMap} {rows : List RawRow} {x : Psm}
    (h : x ∈ filePsms T mode m rows) :
    ∃ r ∈ rows, rowPsm T mode m (flankOf mode.format rows) r = some x := by
  unfold filePsms at h
  rw [List.mem_filterMap] at h
  exact h

theorem mem_allPsms {T : Transforms} {mode : Mode} {pairs : List (DMap × List RawRow)} {x : Psm}
    (h : x ∈ allPsms T mode pairs) :
    ∃ p ∈ pairs, ∃ r ∈ p.2, rowPsm T mode p.1 (flankOf mode.format p.2) r = some x := by
  unfold allPsms at h
  rw [List.mem_flatMap] at h
  obtain ⟨p, hp, hx⟩ := h
  exact ⟨p, hp, mem_filePsms hx⟩

/-! ### markers -/

theorem containsSub_of_isPrefixOf {pat s : List Char} (h : pat.isPrefixOf s = true) :
    containsSub pat s = true := by
  cases s with
  | nil =>
    cases pat with
    | nil => rfl
    | cons a t => simp [List.isPrefixOf] at h
  | cons c t => simp [containsSub, h]

theorem strContains_of_startsWith {p m : String} (h : strStartsWith p m = true) :
    strContains p m = true := containsSub_of_isPrefixOf h

theorem not_both_prefixes {p : String} (h : strStartsWith p "REV__" = true) :
    strStartsWith p "rev_" = false := by
  unfold strStartsWith at *
  have h1 : "REV__".toList = ['R', 'E', 'V', '_', '_'] := by decide
  have h2 : "rev_".toList = ['r', 'e', 'v', '_'] := by decide
  rw [h1] at h
  rw [h2]
  cases hp : p.toList with
  | nil => rw [hp] at h; simp [List.isPrefixOf] at h
  | cons c t =>
    rw [hp] at h
    simp only [List.isPrefixOf, Bool.and_eq_true, beq_iff_eq] at h
    have hc : c = 'R' := h.1.symm
    subst hc
    simp [List.isPrefixOf]

/-- 0 = `REV__…`, 1 = `rev_…`, 2 = target -/
def kind (p : String) : Nat :=
  if strStartsWith p "REV__" then 0 else if strStartsWith p "rev_" then 1 else 2

/-- the list a peptide keeps after the mapper is of one kind -/
theorem removeDecoy_homogeneous (src : List String)
    (hids : ∀ p ∈ removeDecoyProteinsFromTargetPeptides src, MarkerOnlyAsPrefix p) :
    ∀ a ∈ removeDecoyProteinsFromTargetPeptides src, ∀ b ∈ removeDecoyProteinsFromTargetPeptides src,
      kind a = kind b := by
  unfold removeDecoyProteinsFromTargetPeptides at *
  by_cases hd : isDecoy src = true
  · simp only [hd, if_true] at hids ⊢
    unfold isDecoy at hd
    rw [Bool.or_eq_true] at hd
    rcases hd with hd | hd
    · have hall : ∀ p ∈ src, kind p = 0 := by
        intro p hp
        have hc : strContains p "REV__" = true := by
          unfold allContain at hd; exact List.all_eq_true.mp hd p hp
        simp [kind, (hids p hp).1 hc]
      intro a ha b hb; rw [hall a ha, hall b hb]
    · have hall : ∀ p ∈ src, kind p = 1 := by
        intro p hp
        have hc : strContains p "rev_" = true := by
          unfold allContain at hd; exact List.all_eq_true.mp hd p hp
        have hs := (hids p hp).2 hc
        have hn : strStartsWith p "REV__" = false := by
          cases hR : strStartsWith p "REV__" with
          | false => rfl
          | true => rw [not_both_prefixes hR] at hs; cases hs
        simp [kind, hs, hn]
      intro a ha b hb; rw [hall a ha, hall b hb]
  · simp only [hd] at hids ⊢
    have hall : ∀ p ∈ src.filter (fun p => !(strStartsWith p "REV__" || strStartsWith p "rev_")),
        kind p = 2 := by
      intro p hp
      have := (List.mem_filter.mp hp).2
      simp only [Bool.not_eq_true', Bool.or_eq_false_iff] at this
      simp [kind, this.1, this.2]
    intro a ha b hb; rw [hall a ha, hall b hb]

theorem kind_of_chain {pil : List PepInfo}
    (hh : ∀ e ∈ pil, ∀ a ∈ e.proteins, ∀ b ∈ e.proteins, kind a = kind b) {a b : String}
    (h : Relation.ReflTransGen (SharePeptide pil) a b) : kind a = kind b := by
  induction h with
  | refl => rfl
  | tail _ hstep ih =>
    obtain ⟨e, he, ha, hb⟩ := hstep
    rw [ih]; exact hh e he _ ha _ hb

theorem group_pure_of_kind {g : List String} (h : ∀ a ∈ g, ∀ b ∈ g, kind a = kind b) :
    isDecoy g = true ∨ ∀ p ∈ g, isDecoyId p = false := by
  cases g with
  | nil => right; simp
  | cons a t =>
    have hall : ∀ p ∈ a :: t, kind p = kind a := fun p hp => h p hp a List.mem_cons_self
    by_cases hR : strStartsWith a "REV__" = true
    · left
      unfold isDecoy
      rw [Bool.or_eq_true]; left
      unfold allContain
      rw [List.all_eq_true]
      intro p hp
      have hk := hall p hp
      have ha0 : kind a = 0 := by simp [kind, hR]
      rw [ha0] at hk
      apply strContains_of_startsWith
      unfold kind at hk
      by_cases h1 : strStartsWith p "REV__" = true
      · exact h1
      · simp only [h1] at hk
        by_cases h2 : strStartsWith p "rev_" = true <;> simp [h2] at hk
    · by_cases hr : strStartsWith a "rev_" = true
      · left
        unfold isDecoy
        rw [Bool.or_eq_true]; right
        unfold allContain
        rw [List.all_eq_true]
        intro p hp
        have hk := hall p hp
        have ha1 : kind a = 1 := by simp [kind, hR, hr]
        rw [ha1] at hk
        apply strContains_of_startsWith
        unfold kind at hk
        by_cases h1 : strStartsWith p "REV__" = true
        · simp [h1] at hk
        · simp only [h1] at hk
          by_cases h2 : strStartsWith p "rev_" = true
          · exact h2
          · simp [h2] at hk
      · right
        intro p hp
        have hk := hall p hp
        have ha2 : kind a = 2 := by simp [kind, hR, hr]
        rw [ha2] at hk
        unfold kind at hk
        unfold isDecoyId
        by_cases h1 : strStartsWith p "REV__" = true
        · simp [h1] at hk
        · by_cases h2 : strStartsWith p "rev_" = true
          · simp [h1, h2] at hk
          · simp [h1, h2]

/-! ### transforms -/

theorem pow10_pos (n : Int) : 0 < pow10 n := by
  unfold pow10
  split
  · exact_mod_cast Nat.pos_of_ne_zero (by positivity)
  · apply div_pos one_pos
    exact_mod_cast Nat.pos_of_ne_zero (by positivity)

/-! ### order independence of the stored score -/

theorem parse_score_perm {xs ys : List Psm} (h : xs.Perm ys) (q : String) :
    (get (parse xs) q).map (·.pep) = (get (parse ys) q).map (·.pep) := by
  have hx := fold_spec q xs
  have hy := fold_spec q ys
  rw [← get_parse] at hx hy
  have hp := scoresOf_perm q h
  cases gx : get (parse xs) q with
  | none =>
    rw [gx] at hx
    cases gy : get (parse ys) q with
    | none => rfl
    | some e' =>
      rw [gy] at hy
      have := hp.symm.subset (firstBest_min hy).1
      rw [noScore_scoresOf hx] at this; simp at this
  | some e =>
    rw [gx] at hx
    cases gy : get (parse ys) q with
    | none =>
      rw [gy] at hy
      have := hp.subset (firstBest_min hx).1
      rw [noScore_scoresOf hy] at this; simp at this
    | some e' =>
      rw [gy] at hy
      simp only [Option.map_some, Option.some.injEq]
      have h1 : e.pep ≤ e'.pep := (firstBest_min hx).2 _ (hp.symm.subset (firstBest_min hy).1)
      have h2 : e'.pep ≤ e.pep := (firstBest_min hy).2 _ (hp.subset (firstBest_min hx).1)
      exact le_antisymm h1 h2

theorem flatMap_perm_of_forall₂ {α β : Type} (f : α → List β) {l l' : List α}
    (h : List.Forall₂ (fun a b => (f a).Perm (f b)) l l') : (l.flatMap f).Perm (l'.flatMap f) := by
  induction h with
  | nil => simp
  | cons hab _ ih => simp only [List.flatMap_cons]; exact hab.append ih

theorem rowsShuffled_forall₂ {l l' : List (DMap × List RawRow)} (h : RowsShuffled l l') :
    List.Forall₂ (fun a b => a.1 = b.1 ∧ a.2.Perm b.2) l l' := by
  induction h with
  | nil => exact List.Forall₂.nil
  | cons h1 h2 _ ih => exact List.Forall₂.cons ⟨h1, h2⟩ ih

/-! ### rows without a PEP -/

theorem foldl_ingest_filter (xs : List Psm) (d : List PepInfo) :
    (xs.filter (fun x => x.score.isSome)).foldl ingest d = xs.foldl ingest d := by
  induction xs generalizing d with
  | nil => rfl
  | cons x xs ih =>
    cases hs : x.score with
    | none =>
      have : ingest d x = d := by simp [ingest, hs]
      simp [List.filter, hs, this, ih]
    | some s => simp [List.filter, hs, ih]

/-! ### `pow10` is `10 ^ n` -/

theorem pow10_eq_zpow (n : Int) : pow10 n = (10 : Rat) ^ n := by
  unfold pow10
  split
  · rename_i h
    obtain ⟨k, rfl⟩ := Int.eq_ofNat_of_zero_le h
    simp
  · rename_i h
    have hneg : n < 0 := not_le.mp h
    obtain ⟨k, hk⟩ := Int.exists_eq_neg_ofNat (le_of_lt hneg)
    subst hk
    simp

/-! ### remove_modifications on well-formed spellings -/

theorem stripDelimAux_false_append (o c : Char) (a rest : List Char) (ha : ∀ x ∈ a, x ≠ o) :
    stripDelimAux o c false (a ++ rest) = a ++ stripDelimAux o c false rest := by
  induction a with
  | nil => rfl
  | cons x t ih =>
    have hx : x ≠ o := ha x List.mem_cons_self
    simp only [List.cons_append, stripDelimAux, hx, false_and, if_false]
    rw [ih (fun y hy => ha y (List.mem_cons_of_mem _ hy))]

theorem stripDelimAux_true_body (o c : Char) (body rest : List Char) (hb : ∀ x ∈ body, x ≠ c) :
    stripDelimAux o c true (body ++ c :: rest) = stripDelimAux o c false rest := by
  induction body with
  | nil => simp [stripDelimAux]
  | cons x t ih =>
    have hx : x ≠ c := hb x List.mem_cons_self
    simp only [List.cons_append, stripDelimAux, hx, if_false]
    exact ih (fun y hy => hb y (List.mem_cons_of_mem _ hy))

theorem stripDelim_token (o c : Char) (body rest : List Char) (hb : ∀ x ∈ body, x ≠ c) :
    stripDelimAux o c false (o :: (body ++ c :: rest)) = stripDelimAux o c false rest := by
  have hc : (body ++ c :: rest).contains c = true := by simp
  simp only [stripDelimAux, hc, and_self, if_true]
  exact stripDelimAux_true_body o c body rest hb

theorem removeModsL_plain_append (a rest : List Char) (ha : Plain a) :
    removeModsL (a ++ rest) = a ++ removeModsL rest := by
  unfold removeModsL stripDelim
  rw [stripDelimAux_false_append _ _ _ _ (fun x hx => (ha x hx).1),
    stripDelimAux_false_append _ _ _ _ (fun x hx => (ha x hx).2.2.1), List.filter_append]
  congr 1
  rw [List.filter_eq_self]
  intro x hx
  simpa using (ha x hx).2.1

theorem removeModsL_paren (body rest : List Char) (hb : ∀ x ∈ body, x ≠ ')') :
    removeModsL ('(' :: (body ++ ')' :: rest)) = removeModsL rest := by
  unfold removeModsL stripDelim
  rw [stripDelim_token _ _ _ _ hb]

theorem removeModsL_bracket (body rest : List Char)
    (hb : ∀ x ∈ body, x ≠ ']' ∧ x ≠ '(') :
    removeModsL ('[' :: (body ++ ']' :: rest)) = removeModsL rest := by
  unfold removeModsL stripDelim
  have h1 : stripDelimAux '(' ')' false ('[' :: (body ++ ']' :: rest)) =
      '[' :: (body ++ ']' :: stripDelimAux '(' ')' false rest) := by
    have := stripDelimAux_false_append '(' ')' ('[' :: (body ++ [']'])) rest (by
      intro x hx
      rcases List.mem_cons.mp hx with rfl | hx
      · decide
      · rcases List.mem_append.mp hx with hx | hx
        · exact (hb x hx).2
        · simp only [List.mem_singleton] at hx; subst hx; decide)
    simpa using this
  rw [h1, stripDelim_token _ _ _ _ (fun x hx => (hb x hx).1)]

theorem removeModsL_close (rest : List Char) : removeModsL (')' :: rest) = removeModsL rest := by
  unfold removeModsL stripDelim
  have h1 : stripDelimAux '(' ')' false (')' :: rest) = ')' :: stripDelimAux '(' ')' false rest := by
    simp [stripDelimAux]
  rw [h1]
  have h2 : ∀ l, stripDelimAux '[' ']' false (')' :: l) = ')' :: stripDelimAux '[' ']' false l := by
    intro l; simp [stripDelimAux]
  rw [h2]
  simp


theorem removeModsL_spells {s b : List Char} (h : Spells s b) : removeModsL s = b := by
  induction h with
  | nil => rfl
  | @residue s0 b0 c hc _ ih =>
    have := removeModsL_plain_append [c] s0 (by intro x hx; simp only [List.mem_singleton] at hx; subst hx; exact hc)
    simpa [ih] using this
  | paren body hb _ ih => rw [removeModsL_paren _ _ hb, ih]
  | bracket body hb _ ih => rw [removeModsL_bracket _ _ hb, ih]
  | close _ ih => rw [removeModsL_close, ih]

/-! ### dict order -/

def addNew (ks : List String) (k : String) : List String := if k ∈ ks then ks else ks ++ [k]

theorem dedupFirst_filter (p : String → Bool) (l : List String) :
    dedupFirst (l.filter p) = (dedupFirst l).filter p := by
  induction l with
  | nil => rfl
  | cons k r ih =>
    by_cases hp : p k = true
    · simp only [List.filter_cons, hp, if_true, dedupFirst, ih]
      congr 1
      rw [List.filter_filter, List.filter_filter]
      congr 1; funext x; exact Bool.and_comm _ _
    · simp only [List.filter_cons, hp, dedupFirst]
      simp only [Bool.false_eq_true, if_false]
      rw [List.filter_filter, ih]
      apply List.filter_congr
      intro x _
      by_cases hx : x = k
      · subst hx; simp [hp]
      · simp [hx]

theorem foldl_addNew (l ks : List String) :
    l.foldl addNew ks = ks ++ dedupFirst (l.filter (fun x => !(ks.contains x))) := by
  induction l generalizing ks with
  | nil => simp [dedupFirst]
  | cons k r ih =>
    simp only [List.foldl_cons]
    by_cases hk : k ∈ ks
    · have : addNew ks k = ks := by simp [addNew, hk]
      rw [this, ih]
      simp [hk]
    · have : addNew ks k = ks ++ [k] := by simp [addNew, hk]
      rw [this, ih]
      simp only [List.filter_cons, List.contains_eq_mem, hk, decide_false, Bool.not_false, if_true,
        dedupFirst, List.append_assoc, List.singleton_append]
      congr 2
      rw [← dedupFirst_filter, List.filter_filter]
      congr 1
      apply List.filter_congr
      intro x _
      by_cases hx : x = k
      · subst hx; simp
      · simp [hx]

theorem keys_ingest (d : List PepInfo) (x : Psm) :
    (ingest d x).map (·.peptide) =
      if x.score.isSome then addNew (d.map (·.peptide)) x.key else d.map (·.peptide) := by
  unfold ingest
  cases hs : x.score with
  | none => simp
  | some s =>
    simp only [Option.isSome_some, if_true]
    cases hg : get d x.key with
    | none =>
      simp only
      rw [keys_upsert]
      rfl
    | some e0 =>
      have hmem : x.key ∈ d.map (·.peptide) := by
        obtain ⟨h1, h2⟩ := get_some_mem hg
        rw [← h2]; exact List.mem_map_of_mem h1
      simp only
      by_cases hle : e0.pep ≤ s
      · simp [hle, addNew, hmem]
      · simp only [hle, if_false]
        rw [keys_upsert]; rfl

theorem keys_foldl_ingest (xs : List Psm) (d : List PepInfo) :
    (xs.foldl ingest d).map (·.peptide) =
      ((xs.filter (fun x => x.score.isSome)).map Psm.key).foldl addNew (d.map (·.peptide)) := by
  induction xs generalizing d with
  | nil => rfl
  | cons x xs ih =>
    simp only [List.foldl_cons]
    rw [ih, keys_ingest]
    cases hs : x.score.isSome with
    | true => simp [hs]
    | false => simp [hs]

theorem keys_parse (xs : List Psm) :
    (parse xs).map (·.peptide) = dedupFirst ((xs.filter (fun x => x.score.isSome)).map Psm.key) := by
  unfold parse
  rw [keys_foldl_ingest, foldl_addNew]
  simp


/-! ### composition with the executable groupings of C03 -/

theorem sharePeptide_toPairs (pil : List PepInfo) (a b : String) :
    (∃ e ∈ C03.toPairs pil, a ∈ e.2 ∧ b ∈ e.2) ↔ SharePeptide pil a b := by
  unfold C03.toPairs SharePeptide
  constructor
  · rintro ⟨e, he, ha, hb⟩
    rw [List.mem_map] at he
    obtain ⟨x, hx, rfl⟩ := he
    exact ⟨x, hx, ha, hb⟩
  · rintro ⟨x, hx, ha, hb⟩
    exact ⟨(x.peptide, x.proteins), List.mem_map_of_mem hx, ha, hb⟩

theorem keys_toPairs (pil : List PepInfo) : (C03.toPairs pil).map (·.1) = pil.map (·.peptide) := by
  simp [C03.toPairs]

/-- members of a subset group are linked through the leading protein -/
theorem subsetGrouping_conn (pil : List PepInfo) (hk : (pil.map (·.peptide)).Nodup) :
    ∀ g ∈ C03.subsetGrouping pil, ∀ a ∈ g, ∀ b ∈ g,
      Relation.ReflTransGen (SharePeptide pil) a b := by
  intro g hg a ha b hb
  have hkeys : ((C03.toPairs pil).map (·.1)).Nodup := by rw [keys_toPairs]; exact hk
  unfold C03.subsetGrouping at hg
  obtain ⟨hne, _, hmem⟩ := C03.subset_partition (C03.toPairs pil) hkeys
  have hgne := hne g hg
  obtain ⟨r, hr⟩ : ∃ r, g.head? = some r := by
    cases g with
    | nil => exact absurd rfl hgne
    | cons r t => exact ⟨r, rfl⟩
  have link : ∀ x ∈ g, SharePeptide pil x r := by
    intro x hx
    have hxin : x ∈ (C03.subsetGroups (C03.toPairs pil)).flatten :=
      List.mem_flatten.mpr ⟨g, hg, hx⟩
    obtain ⟨e, he, hxe⟩ := (hmem x).mp hxin
    have hre := C03.subset_leader_contains (C03.toPairs pil) hkeys g hg r hr x hx e he hxe
    exact (sharePeptide_toPairs pil x r).mp ⟨e, he, hxe, hre⟩
  have sym : ∀ x y, SharePeptide pil x y → SharePeptide pil y x := by
    rintro x y ⟨e, he, h1, h2⟩; exact ⟨e, he, h2, h1⟩
  exact (Relation.ReflTransGen.single (link a ha)).trans
    (Relation.ReflTransGen.single (sym _ _ (link b hb)))

theorem pseudoGeneGrouping_conn (pil : List PepInfo) (hk : (pil.map (·.peptide)).Nodup) :
    ∀ g ∈ C03.pseudoGeneGrouping pil, ∀ a ∈ g, ∀ b ∈ g,
      Relation.ReflTransGen (SharePeptide pil) a b := by
  intro g hg a ha b hb
  have hkeys : ((C03.toPairs pil).map (·.1)).Nodup := by rw [keys_toPairs]; exact hk
  unfold C03.pseudoGeneGrouping at hg
  obtain ⟨_, _, hmem⟩ := C03.pseudogene_partition C03.strLe (C03.toPairs pil) hkeys
  have hin : ∀ x ∈ g, ∃ e ∈ C03.toPairs pil, x ∈ e.2 := fun x hx =>
    (hmem x).mp (List.mem_flatten.mpr ⟨g, hg, hx⟩)
  have := (C03.pseudogene_components C03.strLe (C03.toPairs pil) hkeys a b (hin a ha) (hin b hb)).mp
    ⟨g, hg, ha, hb⟩
  have hrel : (fun p q => ∃ e ∈ C03.toPairs pil, p ∈ e.2 ∧ q ∈ e.2) = SharePeptide pil := by
    funext p q; exact propext (sharePeptide_toPairs pil p q)
  rw [hrel] at this
  exact this

theorem noGrouping_conn (pil : List PepInfo) :
    ∀ g ∈ C03.noGrouping pil, ∀ a ∈ g, ∀ b ∈ g, Relation.ReflTransGen (SharePeptide pil) a b := by
  intro g hg a ha b hb
  unfold C03.noGrouping at hg
  obtain ⟨p, rfl⟩ := (C03.nogrouping_singletons (C03.toPairs pil)).2.1 g hg
  simp only [List.mem_singleton] at ha hb
  subst ha hb
  exact Relation.ReflTransGen.refl


end PgFdr.C10
