import Mathlib.Tactic.Linarith
import Mathlib.Algebra.Order.Ring.Rat
import Mathlib.Data.List.Basic
import PgFdr.Model.C06

namespace PgFdr.C06
end PgFdr.C06
