import Mathlib.Tactic.Linarith
import Mathlib.Algebra.Order.Ring.Rat
import Mathlib.Data.List.Basic
import Mathlib.Data.List.Perm.Basic
import Mathlib.Data.String.Basic
import Mathlib.Data.Finset.Card
import Mathlib.Algebra.BigOperators.Group.List.Basic
import PgFdr.Model.C06

/-! Helper lemmas for C06: the evidence sort, the count loop, the best peptide, the shape of a row,
    the positional loop of `from_protein_groups`. -/
namespace PgFdr.C06

/-! ### `sorted(evidence)` -/

theorem evLt_pep_le {a b : Evidence} (h : evLt a b = true) : a.pep ≤ b.pep := by
  unfold evLt at h
  simp only [Bool.or_eq_true, Bool.and_eq_true, decide_eq_true_eq, beq_iff_eq] at h
  rcases h with h | ⟨h, -⟩
  · exact le_of_lt h
  · exact le_of_eq h

theorem not_evLt_pep_le {a b : Evidence} (h : evLt b a = false) : a.pep ≤ b.pep := by
  unfold evLt at h
  simp only [Bool.or_eq_false_iff, decide_eq_false_iff_not, not_lt] at h
  exact h.1

theorem insertEv_perm (a : Evidence) : ∀ l, (insertEv a l).Perm (a :: l) := by
  intro l
  induction l with
  | nil => exact List.Perm.refl _
  | cons b l ih =>
    simp only [insertEv]
    split
    · exact ((List.Perm.cons b ih).trans (List.Perm.swap a b l))
    · exact List.Perm.refl _

theorem sortEv_perm (l : List Evidence) : (sortEv l).Perm l := by
  induction l with
  | nil => exact List.Perm.refl _
  | cons a l ih =>
    show (insertEv a (sortEv l)).Perm (a :: l)
    exact (insertEv_perm a _).trans (List.Perm.cons a ih)

theorem insertEv_pairwise (a : Evidence) : ∀ l, l.Pairwise (fun x y => x.pep ≤ y.pep) →
    (insertEv a l).Pairwise (fun x y => x.pep ≤ y.pep) := by
  intro l
  induction l with
  | nil => intro _; simp [insertEv]
  | cons b l ih =>
    intro h
    have hb := (List.pairwise_cons.mp h).1
    have hl := (List.pairwise_cons.mp h).2
    simp only [insertEv]
    by_cases hba : evLt b a = true
    · simp only [hba, if_true]
      refine List.pairwise_cons.mpr ⟨?_, ih hl⟩
      intro x hx
      rcases List.mem_cons.mp ((insertEv_perm a l).subset hx) with rfl | hx
      · exact evLt_pep_le hba
      · exact hb x hx
    · have hba' : evLt b a = false := by simpa using hba
      simp only [hba', Bool.false_eq_true, if_false]
      have hab := not_evLt_pep_le hba'
      refine List.pairwise_cons.mpr ⟨?_, h⟩
      intro x hx
      rcases List.mem_cons.mp hx with rfl | hx
      · exact hab
      · exact le_trans hab (hb x hx)

theorem sortEv_pairwise (l : List Evidence) : (sortEv l).Pairwise (fun x y => x.pep ≤ y.pep) := by
  induction l with
  | nil => simp [sortEv]
  | cons a l ih => exact insertEv_pairwise a _ ih

/-! ### the count loop -/

/-- with pairwise distinct peptides nothing is ever skipped as "seen", and the `break` at the first
    PEP above the cutoff of the ascending list is a filter -/
theorem countLoop_nodup (cutoff : Option Rat) (p : String) :
    ∀ (l : List Evidence) (seen : List String),
      (l.map (·.peptide)).Nodup → (∀ e ∈ l, e.peptide ∉ seen) →
      l.Pairwise (fun a b => a.pep ≤ b.pep) →
      countLoop cutoff p l seen =
        (l.filter (fun e => within cutoff e && decide (p ∈ e.proteins))).length := by
  intro l
  induction l with
  | nil => intro _ _ _ _; rfl
  | cons e r ih =>
    intro seen hnd hseen hsort
    have hnd' : (r.map (·.peptide)).Nodup := (List.nodup_cons.mp (by simpa using hnd)).2
    have he_notin : e.peptide ∉ r.map (·.peptide) := (List.nodup_cons.mp (by simpa using hnd)).1
    have hsort' := (List.pairwise_cons.mp hsort).2
    have hle := (List.pairwise_cons.mp hsort).1
    have hes : e.peptide ∉ seen := hseen e (by simp)
    have hseen' : ∀ e' ∈ r, e'.peptide ∉ e.peptide :: seen := by
      intro e' he'
      simp only [List.mem_cons, not_or]
      refine ⟨?_, hseen e' (by simp [he'])⟩
      intro heq
      exact he_notin (heq ▸ List.mem_map_of_mem he')
    simp only [countLoop]
    by_cases hw : within cutoff e = true
    · simp only [hw, Bool.not_true, Bool.false_eq_true, if_false, hes]
      rw [ih (e.peptide :: seen) hnd' hseen' hsort']
      by_cases hp : p ∈ e.proteins
      · simp [hw, hp, Nat.add_comm]
      · simp [hw, hp]
    · have hw' : within cutoff e = false := by simpa using hw
      simp only [hw', Bool.not_false, if_true]
      -- everything from here on is above the cutoff
      have hall : ∀ e' ∈ e :: r, within cutoff e' = false := by
        intro e' he'
        rcases List.mem_cons.mp he' with rfl | he'
        · exact hw'
        · cases cutoff with
          | none => simp [within] at hw'
          | some c =>
            simp only [within, decide_eq_false_iff_not, not_le] at hw' ⊢
            exact lt_of_lt_of_le hw' (hle e' he')
      symm
      rw [List.length_eq_zero_iff, List.filter_eq_nil_iff]
      intro e' he'
      simp [hall e' he']

/-- the number `_get_peptide_counts` reports for `p`: entries at or below the cutoff listing `p` -/
theorem countLoop_sortEv (cutoff : Option Rat) (info : List Evidence) (p : String)
    (hnd : (info.map (·.peptide)).Nodup) :
    countLoop cutoff p (sortEv info) [] =
      (info.filter (fun e => within cutoff e && decide (p ∈ e.proteins))).length := by
  have hperm := sortEv_perm info
  rw [countLoop_nodup cutoff p (sortEv info) [] ((hperm.map _).nodup_iff.mpr hnd) (by simp)
    (sortEv_pairwise info)]
  exact (hperm.filter _).length_eq

theorem peptideCounts_eq (cutoff : Option Rat) (info : List Evidence) (group : List String) :
    peptideCounts cutoff info group = group.map (fun p => countLoop cutoff p (sortEv info) []) := rfl

/-! ### the best peptide -/

/-- `a ≤ b` for Python's tuple order on `(PEP, peptide)` -/
def ppLe (a b : Rat × String) : Prop := a.1 < b.1 ∨ (a.1 = b.1 ∧ a.2 ≤ b.2)

theorem ppLe_refl (a : Rat × String) : ppLe a a := Or.inr ⟨rfl, le_refl _⟩

theorem ppLe_trans {a b c : Rat × String} (h1 : ppLe a b) (h2 : ppLe b c) : ppLe a c := by
  rcases h1 with h1 | ⟨h1, h1'⟩ <;> rcases h2 with h2 | ⟨h2, h2'⟩
  · exact Or.inl (lt_trans h1 h2)
  · exact Or.inl (h2 ▸ h1)
  · exact Or.inl (h1 ▸ h2)
  · exact Or.inr ⟨h1.trans h2, le_trans h1' h2'⟩

theorem ppLt_true {a b : Rat × String} (h : ppLt a b = true) : ppLe a b := by
  unfold ppLt at h
  simp only [Bool.or_eq_true, Bool.and_eq_true, decide_eq_true_eq, beq_iff_eq] at h
  rcases h with h | ⟨h, h'⟩
  · exact Or.inl h
  · exact Or.inr ⟨h, le_of_lt h'⟩

theorem ppLt_false {a b : Rat × String} (h : ppLt a b = false) : ppLe b a := by
  unfold ppLt at h
  simp only [Bool.or_eq_false_iff, decide_eq_false_iff_not, not_lt, Bool.and_eq_false_iff,
    beq_eq_false_iff_ne, ne_eq] at h
  obtain ⟨h1, h2⟩ := h
  rcases lt_or_eq_of_le h1 with h3 | h3
  · exact Or.inl h3
  · rcases h2 with h2 | h2
    · exact absurd h3.symm h2
    · exact Or.inr ⟨h3, h2⟩

theorem foldMin_spec : ∀ (l : List Evidence) (m : Rat × String),
    let r := l.foldl (fun m x => if ppLt (x.pep, x.peptide) m then (x.pep, x.peptide) else m) m
    (r = m ∨ ∃ x ∈ l, r = (x.pep, x.peptide)) ∧ ppLe r m ∧ ∀ x ∈ l, ppLe r (x.pep, x.peptide) := by
  intro l
  induction l with
  | nil => intro m; exact ⟨Or.inl rfl, ppLe_refl _, by simp⟩
  | cons y ys ih =>
    intro m
    simp only [List.foldl_cons]
    by_cases hy : ppLt (y.pep, y.peptide) m = true
    · simp only [hy, if_true]
      obtain ⟨h1, h2, h3⟩ := ih (y.pep, y.peptide)
      refine ⟨?_, ppLe_trans h2 (ppLt_true hy), ?_⟩
      · rcases h1 with h1 | ⟨x, hx, h1⟩
        · exact Or.inr ⟨y, by simp, h1⟩
        · exact Or.inr ⟨x, by simp [hx], h1⟩
      · intro x hx
        rcases List.mem_cons.mp hx with rfl | hx
        · exact h2
        · exact h3 x hx
    · have hy' : ppLt (y.pep, y.peptide) m = false := by simpa using hy
      simp only [hy', Bool.false_eq_true, if_false]
      obtain ⟨h1, h2, h3⟩ := ih m
      refine ⟨?_, h2, ?_⟩
      · rcases h1 with h1 | ⟨x, hx, h1⟩
        · exact Or.inl h1
        · exact Or.inr ⟨x, by simp [hx], h1⟩
      · intro x hx
        rcases List.mem_cons.mp hx with rfl | hx
        · exact ppLe_trans h2 (ppLt_false hy')
        · exact h3 x hx

/-- the best pair is an evidence entry's `(PEP, peptide)` and is minimal in Python's tuple order -/
theorem bestPair_spec (info : List Evidence) (v : Rat) (s : String) (h : bestPair info = some (v, s)) :
    (∃ e ∈ info, e.pep = v ∧ e.peptide = s) ∧
    ∀ e ∈ info, v ≤ e.pep ∧ (e.pep = v → s ≤ e.peptide) := by
  cases info with
  | nil => simp [bestPair] at h
  | cons e r =>
    simp only [bestPair, Option.some.injEq] at h
    obtain ⟨h1, h2, h3⟩ := foldMin_spec r (e.pep, e.peptide)
    simp only [h] at h1 h2 h3
    have hall : ∀ x ∈ e :: r, ppLe (v, s) (x.pep, x.peptide) := by
      intro x hx
      rcases List.mem_cons.mp hx with rfl | hx
      · exact h2
      · exact h3 x hx
    constructor
    · rcases h1 with h1 | ⟨x, hx, h1⟩
      · refine ⟨e, by simp, ?_, ?_⟩
        · exact (congrArg Prod.fst h1).symm
        · exact (congrArg Prod.snd h1).symm
      · refine ⟨x, by simp [hx], ?_, ?_⟩
        · exact (congrArg Prod.fst h1).symm
        · exact (congrArg Prod.snd h1).symm
    · intro x hx
      rcases hall x hx with h4 | ⟨h4, h5⟩
      · exact ⟨le_of_lt h4, fun h6 => absurd h4 (by simp only [h6]; exact lt_irrefl _)⟩
      · exact ⟨le_of_eq h4, fun _ => h5⟩

theorem bestPair_isSome (info : List Evidence) : (bestPair info).isSome = !info.isEmpty := by
  cases info <;> simp [bestPair]

/-! ### distinct peptides -/

theorem eraseDups_of_nodup {α : Type} [DecidableEq α] : ∀ (l : List α), l.Nodup → l.eraseDups = l := by
  intro l
  induction l with
  | nil => intro _; simp
  | cons a l ih =>
    intro h
    have ha : a ∉ l := (List.nodup_cons.mp h).1
    have hl : l.Nodup := (List.nodup_cons.mp h).2
    rw [List.eraseDups_cons]
    have : l.filter (fun b => !b == a) = l := by
      rw [List.filter_eq_self]
      intro x hx
      have : x ≠ a := fun e => ha (e ▸ hx)
      simpa using this
    rw [this, ih hl]

/-- with pairwise distinct evidence peptides the number of supporting entries is the number of
    distinct supporting peptides -/
theorem distinctCount_of_nodup (cutoff : Option Rat) (info : List Evidence) (p : String)
    (hnd : (info.map (·.peptide)).Nodup) :
    distinctCount cutoff info p = (supporting cutoff info p).length := by
  unfold distinctCount
  have : ((supporting cutoff info p).map (·.peptide)).Nodup := by
    unfold supporting
    exact hnd.sublist ((List.filter_sublist).map _)
  rw [eraseDups_of_nodup _ this, List.length_map]

theorem count_eq_distinctCount (cutoff : Option Rat) (info : List Evidence) (p : String)
    (hnd : (info.map (·.peptide)).Nodup) :
    countLoop cutoff p (sortEv info) [] = distinctCount cutoff info p := by
  rw [countLoop_sortEv cutoff info p hnd, distinctCount_of_nodup cutoff info p hnd]; rfl

/-! ### the shape of a row -/

theorem zip_map_self {α β : Type} (f : α → β) : ∀ l : List α, l.zip (l.map f) = l.map (fun a => (a, f a)) := by
  intro l; induction l with
  | nil => rfl
  | cons a l ih => simp [ih]

theorem foldl_max_spec : ∀ (l : List Nat) (m : Nat),
    (∀ c ∈ l, c ≤ l.foldl max m) ∧ m ≤ l.foldl max m ∧ (l.foldl max m = m ∨ l.foldl max m ∈ l) := by
  intro l
  induction l with
  | nil => intro m; simp
  | cons a l ih =>
    intro m
    obtain ⟨h1, h2, h3⟩ := ih (max m a)
    simp only [List.foldl_cons]
    refine ⟨?_, le_trans (le_max_left m a) h2, ?_⟩
    · intro c hc
      rcases List.mem_cons.mp hc with rfl | hc
      · exact le_trans (le_max_right m _) h2
      · exact h1 c hc
    · rcases h3 with h3 | h3
      · rcases le_total m a with hma | hma
        · right; rw [h3, max_eq_right hma]; simp
        · left; rw [h3, max_eq_left hma]
      · right; exact List.mem_cons_of_mem _ h3

/-- `max(counts)` of a non-empty list: an upper bound that is attained -/
theorem maxCount_spec (l : List Nat) (hne : l ≠ []) : (∀ c ∈ l, c ≤ maxCount l) ∧ maxCount l ∈ l := by
  obtain ⟨h1, -, h3⟩ := foldl_max_spec l 0
  refine ⟨h1, ?_⟩
  rcases h3 with h3 | h3
  · -- the maximum is 0: every entry is 0, and there is one
    obtain ⟨a, ha⟩ := List.exists_mem_of_ne_nil l hne
    have : a = 0 := by have := h1 a ha; rw [h3] at this; omega
    unfold maxCount; rw [h3]; exact this ▸ ha
  · exact h3

/-- the per-protein count the model uses -/
abbrev cnt (cutoff : Option Rat) (info : List Evidence) (p : String) : Nat :=
  countLoop cutoff p (sortEv info) []

theorem cnt_eq_distinctCount (cutoff : Option Rat) (info : List Evidence) (p : String)
    (hnd : (info.map (·.peptide)).Nodup) : cnt cutoff info p = distinctCount cutoff info p :=
  count_eq_distinctCount cutoff info p hnd

/-- `from_protein_group` with the zip/filter/unzip of pairs written as filters of the member list -/
theorem fromProteinGroup_eq (g : List String) (info : List Evidence) (q s : Rat)
    (cutoff : Option Rat) (keepAll : Bool) :
    fromProteinGroup g info q s cutoff keepAll =
      if ((g.map (cnt cutoff info)).sum == 0 && !keepAll) = true then .ok none
      else if (g.filter (fun p => decide (0 < cnt cutoff info p) || keepAll)).isEmpty = true then
        .error "empty_group"
      else
        match bestPeptide info with
        | none => .error "no_evidence"
        | some best =>
          .ok (some {
            proteins := g.filter (fun p => decide (0 < cnt cutoff info p) || keepAll)
            majority := (g.filter (fun p => decide (0 < cnt cutoff info p) || keepAll)).filter
              (fun p => decide (maxCount ((g.filter (fun p => decide (0 < cnt cutoff info p) || keepAll)).map
                (cnt cutoff info)) ≤ 2 * cnt cutoff info p))
            counts := (g.filter (fun p => decide (0 < cnt cutoff info p) || keepAll)).map (cnt cutoff info)
            bestPeptide := best
            numberOfProteins := (g.filter (fun p => decide (0 < cnt cutoff info p) || keepAll)).length
            qValue := q
            score := s
            reverse := isDecoy (g.filter (fun p => decide (0 < cnt cutoff info p) || keepAll))
            contaminant := isContaminant (g.filter (fun p => decide (0 < cnt cutoff info p) || keepAll)) }) := by
  have hkept : (g.zip (g.map (cnt cutoff info))).filter (fun pc => decide (0 < pc.2) || keepAll) =
      (g.filter (fun p => decide (0 < cnt cutoff info p) || keepAll)).map (fun a => (a, cnt cutoff info a)) := by
    rw [zip_map_self, List.filter_map]; rfl
  have hfst : ∀ l : List String, (l.map (fun a => (a, cnt cutoff info a))).map (·.1) = l := by
    intro l; induction l with
    | nil => rfl
    | cons a l ih => simp only [List.map_cons, ih]
  have hsnd : ∀ l : List String, (l.map (fun a => (a, cnt cutoff info a))).map (·.2) = l.map (cnt cutoff info) := by
    intro l; simp
  have hmaj : ∀ (l : List String) (M : Nat),
      ((l.map (fun a => (a, cnt cutoff info a))).filter (fun pc => decide (M ≤ 2 * pc.2))).map (·.1) =
        l.filter (fun p => decide (M ≤ 2 * cnt cutoff info p)) := by
    intro l M
    rw [List.filter_map, List.map_map]
    simp [Function.comp_def]
  unfold fromProteinGroup
  simp only [peptideCounts_eq]
  show (if (((g.map (cnt cutoff info)).sum == 0 && !keepAll) = true) then _ else _) = _
  simp only [hkept, hfst, hsnd, hmaj, List.isEmpty_map]
  rfl

/-- everything `from_protein_group` puts into a row, in terms of the count function -/
theorem fromProteinGroup_some (g : List String) (info : List Evidence) (q s : Rat)
    (cutoff : Option Rat) (keepAll : Bool) (row : RowData)
    (h : fromProteinGroup g info q s cutoff keepAll = .ok (some row)) :
    row.proteins = g.filter (fun p => decide (0 < cnt cutoff info p) || keepAll) ∧
    row.counts = row.proteins.map (cnt cutoff info) ∧
    row.majority = row.proteins.filter (fun p => decide (maxCount row.counts ≤ 2 * cnt cutoff info p)) ∧
    bestPeptide info = some row.bestPeptide ∧
    row.numberOfProteins = row.proteins.length ∧ row.qValue = q ∧ row.score = s ∧
    row.reverse = isDecoy row.proteins ∧ row.contaminant = isContaminant row.proteins ∧
    row.proteins ≠ [] ∧ (keepAll = true ∨ ∃ p ∈ g, 0 < cnt cutoff info p) := by
  rw [fromProteinGroup_eq] at h
  split at h
  · simp at h
  · rename_i hsum
    split at h
    · simp at h
    · rename_i hkept
      cases hb : bestPeptide info with
      | none => simp [hb] at h
      | some best =>
        simp only [hb, Except.ok.injEq, Option.some.injEq] at h
        subst h
        refine ⟨rfl, rfl, rfl, rfl, rfl, rfl, rfl, rfl, rfl, ?_, ?_⟩
        · intro hnil
          exact hkept (List.isEmpty_iff.mpr hnil)
        · by_cases hk : keepAll = true
          · exact Or.inl hk
          · right
            have hk' : keepAll = false := by simpa using hk
            simp only [hk', Bool.not_false, Bool.and_true, beq_iff_eq] at hsum
            rw [List.sum_eq_zero_iff_forall_eq_nat] at hsum
            by_contra hno
            apply hsum
            intro c hc
            obtain ⟨p, hp, rfl⟩ := List.mem_map.mp hc
            by_contra hc0
            exact hno ⟨p, hp, Nat.pos_of_ne_zero hc0⟩

/-- a group is omitted exactly when keep-all is off and no member has a count -/
theorem fromProteinGroup_none_iff (g : List String) (info : List Evidence) (q s : Rat)
    (cutoff : Option Rat) (keepAll : Bool) :
    fromProteinGroup g info q s cutoff keepAll = .ok none ↔
      keepAll = false ∧ ∀ p ∈ g, cnt cutoff info p = 0 := by
  rw [fromProteinGroup_eq]
  constructor
  · intro h
    split at h
    · rename_i hsum
      simp only [Bool.and_eq_true, beq_iff_eq, Bool.not_eq_eq_eq_not, Bool.not_true] at hsum
      refine ⟨hsum.2, ?_⟩
      intro p hp
      exact (List.sum_eq_zero_iff_forall_eq_nat.mp hsum.1) _ (List.mem_map.mpr ⟨p, hp, rfl⟩)
    · split at h
      · simp at h
      · split at h <;> simp at h
  · rintro ⟨hk, hz⟩
    have : (g.map (cnt cutoff info)).sum = 0 := by
      rw [List.sum_eq_zero_iff_forall_eq_nat]
      intro c hc
      obtain ⟨p, hp, rfl⟩ := List.mem_map.mp hc
      exact hz p hp
    simp [this, hk]

theorem bestPeptide_none {info : List Evidence} (h : bestPeptide info = none) : info = [] := by
  cases info with
  | nil => rfl
  | cons a l => simp [bestPeptide, bestPair] at h

/-- the errors of `from_protein_group`: only with keep-all, for an empty group or a group without
    any evidence -/
theorem fromProteinGroup_error (g : List String) (info : List Evidence) (q s : Rat)
    (cutoff : Option Rat) (keepAll : Bool) (e : String)
    (h : fromProteinGroup g info q s cutoff keepAll = .error e) :
    keepAll = true ∧ ((e = "empty_group" ∧ g = []) ∨ (e = "no_evidence" ∧ info = [])) := by
  rw [fromProteinGroup_eq] at h
  split at h
  · simp at h
  · rename_i hsum
    have hk : keepAll = true := by
      by_contra hk
      have hk' : keepAll = false := by simpa using hk
      apply hsum
      simp only [hk', Bool.not_false, Bool.and_true, beq_iff_eq]
      rw [List.sum_eq_zero_iff_forall_eq_nat]
      intro c hc
      obtain ⟨p, hp, rfl⟩ := List.mem_map.mp hc
      split at h
      · rename_i hkept
        rw [List.isEmpty_iff, List.filter_eq_nil_iff] at hkept
        have := hkept p hp
        simpa [hk'] using this
      · cases hb : bestPeptide info with
        | some b => simp [hb] at h
        | none => simp [bestPeptide_none hb, cnt, sortEv, countLoop]
    refine ⟨hk, ?_⟩
    split at h
    · rename_i hkept
      left
      simp only [Except.error.injEq] at h
      refine ⟨h.symm, ?_⟩
      rw [List.isEmpty_iff, List.filter_eq_nil_iff] at hkept
      cases g with
      | nil => rfl
      | cons p g' =>
        have := hkept p (by simp)
        simp [hk] at this
    · right
      cases hb : bestPeptide info with
      | some b => simp [hb] at h
      | none =>
        simp only [hb, Except.error.injEq] at h
        exact ⟨h.symm, bestPeptide_none hb⟩

/-! ### the positional loop of `from_protein_groups` -/

/-- position `i` of the zipped input is reported as `row` -/
def Reported (cutoff : Option Rat) (keepAll : Bool) (sl : List Slot) (i : Nat) (row : RowData) : Prop :=
  ∃ g info s q, sl[i]? = some (g, info, s, q) ∧ isObsolete g = false ∧
    fromProteinGroup g info q s cutoff keepAll = .ok (some row)

/-- position `i` of the zipped input is withheld: a placeholder, or a group `from_protein_group` omits -/
def Withheld (cutoff : Option Rat) (keepAll : Bool) (sl : List Slot) (i : Nat) : Prop :=
  ∃ g info s q, sl[i]? = some (g, info, s, q) ∧
    (isObsolete g = true ∨ fromProteinGroup g info q s cutoff keepAll = .ok none)

/-- `idx` lists, in increasing order, the positions that are reported; `rows` are their rows -/
def Aligned (cutoff : Option Rat) (keepAll : Bool) (sl : List Slot) (idx : List Nat) (rows : List RowData) : Prop :=
  idx.Pairwise (· < ·) ∧ idx.length = rows.length ∧
  (∀ (k i : Nat), idx[k]? = some i → ∃ row, rows[k]? = some row ∧ Reported cutoff keepAll sl i row) ∧
  (∀ i, i < sl.length → i ∉ idx → Withheld cutoff keepAll sl i)

theorem aligned_shift (cutoff : Option Rat) (keepAll : Bool) (x : Slot) (rest : List Slot)
    (idx : List Nat) (rows : List RowData) (h : Aligned cutoff keepAll rest idx rows) :
    (idx.map (· + 1)).Pairwise (· < ·) ∧ (idx.map (· + 1)).length = rows.length ∧
    (∀ (k i : Nat), (idx.map (· + 1))[k]? = some i → ∃ row, rows[k]? = some row ∧ Reported cutoff keepAll (x :: rest) i row) ∧
    (∀ i, i < (x :: rest).length → i ≠ 0 → i ∉ idx.map (· + 1) → Withheld cutoff keepAll (x :: rest) i) ∧
    (∀ i ∈ idx.map (· + 1), 0 < i) := by
  obtain ⟨h1, h2, h3, h4⟩ := h
  refine ⟨?_, by simpa using h2, ?_, ?_, ?_⟩
  · exact List.Pairwise.map _ (fun a b hab => Nat.succ_lt_succ hab) h1
  · intro k i hk
    rw [List.getElem?_map] at hk
    cases hi : idx[k]? with
    | none => simp [hi] at hk
    | some i' =>
      simp only [hi, Option.map_some, Option.some.injEq] at hk
      subst hk
      obtain ⟨row, hr, g, info, s, q, hsl, ho, hf⟩ := h3 k i' hi
      exact ⟨row, hr, g, info, s, q, by simpa using hsl, ho, hf⟩
  · intro i hi hi0 hni
    cases i with
    | zero => exact absurd rfl hi0
    | succ i' =>
      have : i' ∉ idx := fun hmem => hni (List.mem_map.mpr ⟨i', hmem, rfl⟩)
      obtain ⟨g, info, s, q, hsl, hw⟩ := h4 i' (by simpa using hi) this
      exact ⟨g, info, s, q, by simpa using hsl, hw⟩
  · intro i hi
    obtain ⟨j, -, rfl⟩ := List.mem_map.mp hi
    omega

/-- what the loop returns: the rows of the reported positions, in position order -/
theorem rowsOfSlots_aligned (cutoff : Option Rat) (keepAll : Bool) :
    ∀ (sl : List Slot) (rows : List RowData), rowsOfSlots cutoff keepAll sl = .ok rows →
      ∃ idx, Aligned cutoff keepAll sl idx rows := by
  intro sl
  induction sl with
  | nil =>
    intro rows h
    simp only [rowsOfSlots, Except.ok.injEq] at h
    subst h
    exact ⟨[], by simp, rfl, by simp, by simp⟩
  | cons x rest ih =>
    intro rows h
    obtain ⟨g, info, s, q⟩ := x
    simp only [rowsOfSlots] at h
    by_cases hobs : isObsolete g = true
    · simp only [hobs, if_true] at h
      obtain ⟨idx, hal⟩ := ih rows h
      obtain ⟨a1, a2, a3, a4, a5⟩ := aligned_shift cutoff keepAll (g, info, s, q) rest idx rows hal
      refine ⟨idx.map (· + 1), a1, a2, a3, ?_⟩
      intro i hi hni
      by_cases hi0 : i = 0
      · subst hi0; exact ⟨g, info, s, q, by simp, Or.inl hobs⟩
      · exact a4 i hi hi0 hni
    · have hobs' : isObsolete g = false := by simpa using hobs
      simp only [hobs', Bool.false_eq_true, if_false] at h
      cases hf : fromProteinGroup g info q s cutoff keepAll with
      | error e => simp [hf] at h
      | ok r =>
        cases r with
        | none =>
          simp only [hf] at h
          obtain ⟨idx, hal⟩ := ih rows h
          obtain ⟨a1, a2, a3, a4, a5⟩ := aligned_shift cutoff keepAll (g, info, s, q) rest idx rows hal
          refine ⟨idx.map (· + 1), a1, a2, a3, ?_⟩
          intro i hi hni
          by_cases hi0 : i = 0
          · subst hi0; exact ⟨g, info, s, q, by simp, Or.inr hf⟩
          · exact a4 i hi hi0 hni
        | some row =>
          simp only [hf] at h
          cases hrest : rowsOfSlots cutoff keepAll rest with
          | error e => simp [hrest] at h
          | ok rows' =>
            simp only [hrest, Except.ok.injEq] at h
            subst h
            obtain ⟨idx, hal⟩ := ih rows' hrest
            obtain ⟨a1, a2, a3, a4, a5⟩ := aligned_shift cutoff keepAll (g, info, s, q) rest idx rows' hal
            refine ⟨0 :: idx.map (· + 1), ?_, by simp [a2], ?_, ?_⟩
            · exact List.pairwise_cons.mpr ⟨a5, a1⟩
            · intro k i hk
              cases k with
              | zero =>
                simp only [List.getElem?_cons_zero, Option.some.injEq] at hk
                subst hk
                exact ⟨row, by simp, g, info, s, q, by simp, hobs', hf⟩
              | succ k =>
                simp only [List.getElem?_cons_succ] at hk ⊢
                exact a3 k i hk
            · intro i hi hni
              have hi0 : i ≠ 0 := fun e => hni (e ▸ List.mem_cons_self)
              exact a4 i hi hi0 (fun hm => hni (List.mem_cons_of_mem _ hm))

/-- an error of the loop is the error of a position that is not a placeholder -/
theorem rowsOfSlots_error (cutoff : Option Rat) (keepAll : Bool) :
    ∀ (sl : List Slot) (e : String), rowsOfSlots cutoff keepAll sl = .error e →
      ∃ g info s q, (g, info, s, q) ∈ sl ∧ isObsolete g = false ∧
        fromProteinGroup g info q s cutoff keepAll = .error e := by
  intro sl
  induction sl with
  | nil => intro e h; simp [rowsOfSlots] at h
  | cons x rest ih =>
    intro e h
    obtain ⟨g, info, s, q⟩ := x
    simp only [rowsOfSlots] at h
    have lift : (∃ g' info' s' q', (g', info', s', q') ∈ rest ∧ isObsolete g' = false ∧
        fromProteinGroup g' info' q' s' cutoff keepAll = .error e) →
        ∃ g' info' s' q', (g', info', s', q') ∈ (g, info, s, q) :: rest ∧ isObsolete g' = false ∧
        fromProteinGroup g' info' q' s' cutoff keepAll = .error e := by
      rintro ⟨g', info', s', q', hm, ho, hf⟩
      exact ⟨g', info', s', q', List.mem_cons_of_mem _ hm, ho, hf⟩
    by_cases hobs : isObsolete g = true
    · simp only [hobs, if_true] at h
      exact lift (ih e h)
    · have hobs' : isObsolete g = false := by simpa using hobs
      simp only [hobs', Bool.false_eq_true, if_false] at h
      cases hf : fromProteinGroup g info q s cutoff keepAll with
      | error e' =>
        simp only [hf, Except.error.injEq] at h
        subst h
        exact ⟨g, info, s, q, by simp, hobs', hf⟩
      | ok r =>
        cases r with
        | none => simp only [hf] at h; exact lift (ih e h)
        | some row =>
          simp only [hf] at h
          cases hrest : rowsOfSlots cutoff keepAll rest with
          | error e' =>
            simp only [hrest, Except.error.injEq] at h
            subst h
            exact lift (ih _ hrest)
          | ok rows' => simp [hrest] at h

/-- a position of the four-way zip -/
theorem slots_getElem? (groups : List (List String)) (infos : List (List Evidence))
    (scores qvals : List Rat) (i : Nat) (g : List String) (info : List Evidence) (s q : Rat) :
    (slots groups infos scores qvals)[i]? = some (g, info, s, q) ↔
      groups[i]? = some g ∧ infos[i]? = some info ∧ scores[i]? = some s ∧ qvals[i]? = some q := by
  unfold slots
  rw [List.getElem?_zip_eq_some]
  simp only [List.getElem?_zip_eq_some]

theorem slots_length (groups : List (List String)) (infos : List (List Evidence))
    (scores qvals : List Rat) :
    (slots groups infos scores qvals).length =
      min groups.length (min infos.length (min scores.length qvals.length)) := by
  simp [slots, List.length_zip]

/-- every row comes from a position of the zip, in order (statement: `report_alignment`) -/
theorem report_alignment_aux (groups : List (List String)) (infos : List (List Evidence))
    (scores qvals : List Rat) (cutoff : Option Rat) (keepAll : Bool) (rows : List RowData)
    (h : fromProteinGroups groups infos scores qvals cutoff keepAll = .ok rows) :
    ∃ idx : List Nat, idx.Pairwise (· < ·) ∧ idx.length = rows.length ∧
      ∀ (k i : Nat), idx[k]? = some i →
        ∃ row g info s q, rows[k]? = some row ∧
          groups[i]? = some g ∧ infos[i]? = some info ∧ scores[i]? = some s ∧ qvals[i]? = some q ∧
          row.score = s ∧ row.qValue = q ∧ isObsolete g = false ∧
          fromProteinGroup g info q s cutoff keepAll = .ok (some row) := by
  obtain ⟨idx, h1, h2, h3, -⟩ := rowsOfSlots_aligned cutoff keepAll _ rows h
  refine ⟨idx, h1, h2, ?_⟩
  intro k i hk
  obtain ⟨row, hr, g, info, s, q, hsl, ho, hf⟩ := h3 k i hk
  obtain ⟨e1, e2, e3, e4⟩ := (slots_getElem? groups infos scores qvals i g info s q).mp hsl
  obtain ⟨-, -, -, -, -, hq, hs, -⟩ := fromProteinGroup_some g info q s cutoff keepAll row hf
  exact ⟨row, g, info, s, q, hr, e1, e2, e3, e4, hs, hq, ho, hf⟩

/-! ### the count without the no-duplicate hypothesis -/

theorem eraseDups_length_eq_card : ∀ (n : Nat) (l : List String), l.length ≤ n →
    l.eraseDups.length = l.toFinset.card := by
  intro n
  induction n with
  | zero =>
    intro l hl
    have : l = [] := List.eq_nil_of_length_eq_zero (by omega)
    subst this; simp
  | succ n ih =>
    intro l hl
    cases l with
    | nil => simp
    | cons a l =>
      rw [List.eraseDups_cons, List.length_cons]
      have hlen : (l.filter (fun b => !b == a)).length ≤ n := by
        have := List.length_filter_le (fun b => !b == a) l
        simp only [List.length_cons] at hl
        omega
      rw [ih _ hlen]
      have hset : (a :: l).toFinset = insert a (l.filter (fun b => !b == a)).toFinset := by
        ext x
        simp only [List.toFinset_cons, Finset.mem_insert, List.mem_toFinset, List.mem_filter,
          Bool.not_eq_eq_eq_not, Bool.not_true, beq_eq_false_iff_ne, ne_eq]
        constructor
        · rintro (h | h)
          · exact Or.inl h
          · by_cases hx : x = a
            · exact Or.inl hx
            · exact Or.inr ⟨h, hx⟩
        · rintro (h | h)
          · exact Or.inl h
          · exact Or.inr h.1
      have hnot : a ∉ (l.filter (fun b => !b == a)).toFinset := by
        simp
      rw [hset, Finset.card_insert_of_notMem hnot]

theorem eraseDups_length_perm {l l' : List String} (h : l.Perm l') :
    l.eraseDups.length = l'.eraseDups.length := by
  rw [eraseDups_length_eq_card _ l le_rfl, eraseDups_length_eq_card _ l' le_rfl,
    List.toFinset_eq_of_perm _ _ h]

/-- the count the loop produces, as a number of distinct peptides not seen before -/
def dcount (cutoff : Option Rat) (p : String) (l : List Evidence) (seen : List String) : Nat :=
  ((((l.filter (fun e => within cutoff e && decide (p ∈ e.proteins))).map (·.peptide)).filter
    (fun q => decide (q ∉ seen))).eraseDups).length

theorem countLoop_consistent (cutoff : Option Rat) (p : String) :
    ∀ (l : List Evidence) (seen : List String),
      l.Pairwise (fun a b => a.pep ≤ b.pep) →
      (∀ e ∈ l, ∀ e' ∈ l, e.peptide = e'.peptide → (p ∈ e.proteins ↔ p ∈ e'.proteins)) →
      countLoop cutoff p l seen = dcount cutoff p l seen := by
  intro l
  induction l with
  | nil => intro _ _ _; rfl
  | cons e r ih =>
    intro seen hsort hcons
    have hsort' := (List.pairwise_cons.mp hsort).2
    have hle := (List.pairwise_cons.mp hsort).1
    have hcons' : ∀ a ∈ r, ∀ b ∈ r, a.peptide = b.peptide → (p ∈ a.proteins ↔ p ∈ b.proteins) :=
      fun a ha b hb => hcons a (List.mem_cons_of_mem _ ha) b (List.mem_cons_of_mem _ hb)
    simp only [countLoop]
    by_cases hw : within cutoff e = true
    · simp only [hw, Bool.not_true, Bool.false_eq_true, if_false]
      by_cases hs : e.peptide ∈ seen
      · simp only [hs, if_true]
        rw [ih seen hsort' hcons']
        unfold dcount
        by_cases hp : p ∈ e.proteins
        · simp [hw, hp, hs]
        · simp [hw, hp]
      · simp only [hs, if_false]
        rw [ih (e.peptide :: seen) hsort' hcons']
        unfold dcount
        by_cases hp : p ∈ e.proteins
        · simp only [List.filter_cons, hw, hp, decide_true, Bool.and_self, if_true, List.map_cons,
            hs, not_false_eq_true, List.eraseDups_cons, List.length_cons]
          rw [List.filter_filter, Nat.add_comm]
          congr 3
          apply List.filter_congr
          intro q _
          by_cases hq : q = e.peptide <;> simp [hq, hs]
        · simp only [List.filter_cons, hw, hp, decide_false, Bool.and_false, Bool.false_eq_true,
            if_false, Nat.zero_add]
          congr 2
          apply List.filter_congr
          intro q hq
          obtain ⟨e', he', rfl⟩ := List.mem_map.mp hq
          have hpe' : p ∈ e'.proteins := by
            have := (List.mem_filter.mp he').2
            simp only [Bool.and_eq_true, decide_eq_true_eq] at this
            exact this.2
          have hne : e'.peptide ≠ e.peptide := by
            intro heq
            exact hp ((hcons e' (List.mem_cons_of_mem _ (List.mem_filter.mp he').1) e (by simp) heq).mp hpe')
          simp [hne]
    · have hw' : within cutoff e = false := by simpa using hw
      simp only [hw', Bool.not_false, if_true]
      have hall : ∀ e' ∈ e :: r, within cutoff e' = false := by
        intro e' he'
        rcases List.mem_cons.mp he' with rfl | he'
        · exact hw'
        · cases cutoff with
          | none => simp [within] at hw'
          | some c =>
            simp only [within, decide_eq_false_iff_not, not_le] at hw' ⊢
            exact lt_of_lt_of_le hw' (hle e' he')
      unfold dcount
      have : (e :: r).filter (fun e => within cutoff e && decide (p ∈ e.proteins)) = [] := by
        rw [List.filter_eq_nil_iff]
        intro e' he'
        simp [hall e' he']
      rw [this]; rfl

theorem cnt_eq_distinctCount_of_consistent (cutoff : Option Rat) (info : List Evidence) (p : String)
    (hc : ∀ e ∈ info, ∀ e' ∈ info, e.peptide = e'.peptide → (p ∈ e.proteins ↔ p ∈ e'.proteins)) :
    cnt cutoff info p = distinctCount cutoff info p := by
  have hperm := sortEv_perm info
  have hc' : ∀ e ∈ sortEv info, ∀ e' ∈ sortEv info, e.peptide = e'.peptide →
      (p ∈ e.proteins ↔ p ∈ e'.proteins) :=
    fun e he e' he' => hc e (hperm.subset he) e' (hperm.subset he')
  show countLoop cutoff p (sortEv info) [] = _
  rw [countLoop_consistent cutoff p (sortEv info) [] (sortEv_pairwise info) hc']
  unfold dcount distinctCount supporting
  have : ∀ l : List String, l.filter (fun q => decide (q ∉ ([] : List String))) = l := by
    intro l; simp
  rw [this]
  exact eraseDups_length_perm ((hperm.filter _).map _)

theorem cnt_eq_of_consistent (cutoff : Option Rat) (info : List Evidence) (hc : Consistent info)
    (p : String) : cnt cutoff info p = distinctCount cutoff info p :=
  cnt_eq_distinctCount_of_consistent cutoff info p (fun e he e' he' h => hc e he e' he' h p)

theorem consistent_of_nodup_aux (info : List Evidence) (hnd : (info.map (·.peptide)).Nodup) :
    Consistent info := by
  intro e he e' he' h p
  have : e = e' := List.inj_on_of_nodup_map hnd he he' h
  rw [this]

end PgFdr.C06
