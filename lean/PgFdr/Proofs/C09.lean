import PgFdr.Model.C09
import PgFdr.Proofs.C08

/-! Helper lemmas for C09: association-list dictionaries, the per-record loop, the merge over
(file, parameter set) jobs, the decoy swap, reading of well-formed FASTA lines, counting. -/
namespace PgFdr.C09
open PgFdr.Generated PgFdr.C08

/-! ## dictionaries -/
section Dict
variable {Q P : Type} [DecidableEq Q]

def keys (d : List (Q × List P)) : List Q := d.map (·.1)

theorem get_push (d : List (Q × List P)) (k k' : Q) (v : P) :
    get (push d k v) k' = if k = k' then get d k' ++ [v] else get d k' := by
  induction d with
  | nil => by_cases h : k = k' <;> simp [push, get, h]
  | cons hd r ih =>
    obtain ⟨a, vs⟩ := hd
    simp only [push]
    by_cases hak : a = k
    · subst hak
      by_cases hk : a = k' <;> simp [get, hk]
    · simp only [hak, if_false, get]
      by_cases hak' : a = k'
      · subst hak'; simp [Ne.symm hak]
      · simp [hak', ih]

theorem keys_push (d : List (Q × List P)) (k : Q) (v : P) :
    keys (push d k v) = if k ∈ keys d then keys d else keys d ++ [k] := by
  induction d with
  | nil => simp [push, keys]
  | cons hd r ih =>
    obtain ⟨a, vs⟩ := hd
    simp only [push]
    by_cases hak : a = k
    · subst hak; simp [keys]
    · have hka : ¬ k = a := fun e => hak e.symm
      simp only [hak, if_false]
      simp only [keys, List.map_cons, List.mem_cons, hka, false_or] at ih ⊢
      rw [ih]
      by_cases hm : k ∈ List.map (fun x => x.fst) r <;> simp [hm]

theorem nodup_keys_push (d : List (Q × List P)) (k : Q) (v : P) (h : (keys d).Nodup) :
    (keys (push d k v)).Nodup := by
  rw [keys_push]
  split
  · exact h
  · rename_i hk
    rw [List.nodup_append]
    refine ⟨h, by simp, ?_⟩
    intro a ha b hb
    simp at hb; subst hb
    intro e; exact hk (e ▸ ha)

theorem get_addRecord (pid : P) (k : Q) : ∀ (qs seen : List Q) (d : List (Q × List P)),
    get (addRecord pid qs seen d) k =
      get d k ++ (if k ∈ qs ∧ k ∉ seen then [pid] else []) := by
  intro qs
  induction qs with
  | nil => intro seen d; simp [addRecord]
  | cons q qs ih =>
    intro seen d
    simp only [addRecord]
    by_cases hq : q ∈ seen
    · simp only [hq, if_true]
      rw [ih]
      by_cases hk : k = q
      · subst hk; simp [hq]
      · simp [hk]
    · simp only [hq, if_false]
      rw [ih, get_push]
      by_cases hk : q = k
      · subst hk; simp [hq]
      · have hk' : k ≠ q := fun e => hk e.symm
        simp only [hk, if_false, List.mem_cons, hk', false_or, not_or]

theorem nodup_keys_addRecord (pid : P) : ∀ (qs seen : List Q) (d : List (Q × List P)),
    (keys d).Nodup → (keys (addRecord pid qs seen d)).Nodup := by
  intro qs
  induction qs with
  | nil => intro seen d h; simpa [addRecord] using h
  | cons q qs ih =>
    intro seen d h
    simp only [addRecord]
    split
    · exact ih _ _ h
    · exact ih _ _ (nodup_keys_push d q pid h)

/-- a key is in the dictionary iff its entry is non-empty, for dictionaries without empty entries -/
theorem mem_keys_push (d : List (Q × List P)) (k k' : Q) (v : P) :
    k' ∈ keys (push d k v) ↔ k' = k ∨ k' ∈ keys d := by
  rw [keys_push]
  split
  · rename_i h
    constructor
    · intro h'; exact Or.inr h'
    · rintro (rfl | h')
      · exact h
      · exact h'
  · simp [or_comm]

theorem mem_keys_addRecord (pid : P) (k : Q) : ∀ (qs seen : List Q) (d : List (Q × List P)),
    k ∈ keys (addRecord pid qs seen d) ↔ k ∈ keys d ∨ (k ∈ qs ∧ k ∉ seen) := by
  intro qs
  induction qs with
  | nil => intro seen d; simp [addRecord]
  | cons q qs ih =>
    intro seen d
    simp only [addRecord]
    by_cases hq : q ∈ seen
    · simp only [hq, if_true]
      rw [ih]
      by_cases hk : k = q
      · subst hk; simp [hq]
      · simp [hk]
    · simp only [hq, if_false]
      rw [ih, mem_keys_push]
      by_cases hk : k = q
      · subst hk; simp [hq]
      · simp [hk]

theorem get_extend (d : List (Q × List P)) (k k' : Q) (vs : List P) :
    get (extend d k vs) k' = if k = k' then get d k' ++ vs else get d k' := by
  induction d with
  | nil => by_cases h : k = k' <;> simp [extend, get, h]
  | cons hd r ih =>
    obtain ⟨a, ws⟩ := hd
    simp only [extend]
    by_cases hak : a = k
    · subst hak
      by_cases hk : a = k' <;> simp [get, hk]
    · simp only [hak, if_false, get]
      by_cases hak' : a = k'
      · subst hak'; simp [Ne.symm hak]
      · simp [hak', ih]

theorem get_of_not_mem_keys (d : List (Q × List P)) (k : Q) (h : k ∉ keys d) : get d k = [] := by
  induction d with
  | nil => rfl
  | cons hd r ih =>
    obtain ⟨a, ws⟩ := hd
    simp only [keys, List.map_cons, List.mem_cons, not_or] at h
    simp only [get]
    rw [if_neg (fun e => h.1 e.symm)]
    exact ih h.2

/-- merging a dictionary with distinct keys into an accumulator appends its entry -/
theorem get_foldl_extend (tmp : List (Q × List P)) : ∀ (acc : List (Q × List P)) (k : Q), (keys tmp).Nodup →
    get (tmp.foldl (fun d kv => extend d kv.1 kv.2) acc) k = get acc k ++ get tmp k := by
  induction tmp with
  | nil => intro acc k _; simp [get]
  | cons hd r ih =>
    intro acc k hnd
    obtain ⟨a, ws⟩ := hd
    simp only [keys, List.map_cons, List.nodup_cons] at hnd
    simp only [List.foldl_cons]
    rw [ih _ _ hnd.2, get_extend]
    by_cases hak : a = k
    · subst hak
      have : get r a = [] := get_of_not_mem_keys r a hnd.1
      simp [get, this]
    · simp [get, hak]

end Dict

/-! ## the per-record loop -/

theorem mapRecords_spec (a : MapArgs) : ∀ (recs : List (Str × Str)) (m : PMap) (sm : SeqMap) (res : PMap × SeqMap),
    mapRecords a recs (m, sm) = .ok res →
      (∀ k, get res.1 k = get m k ++ (recs.filter (fun r => decide (k ∈ keysOf a r.2))).map (·.1)) ∧
      ((keys m).Nodup → (keys res.1).Nodup) ∧
      (∀ k, k ∈ keys res.1 ↔ k ∈ keys m ∨ ∃ r ∈ recs, k ∈ keysOf a r.2) := by
  intro recs
  induction recs with
  | nil =>
    intro m sm res h
    simp only [mapRecords, Except.ok.injEq] at h
    subst h
    simp
  | cons r recs ih =>
    intro m sm res h
    obtain ⟨pid, seq⟩ := r
    simp only [mapRecords] at h
    split at h
    · simp at h
    · rename_i peps hd
      have hk : keysOf a seq = peps.map (hashKey a.useHash) := by simp [keysOf, hd]
      obtain ⟨h1, h2, h3⟩ := ih _ _ _ h
      refine ⟨?_, ?_, ?_⟩
      · intro k
        rw [h1, get_addRecord, List.filter_cons]
        simp only [hk]
        by_cases hm : k ∈ peps.map (hashKey a.useHash)
        · simp [hm]
        · simp [hm]
      · intro hn
        exact h2 (nodup_keys_addRecord pid _ _ _ hn)
      · intro k
        rw [h3, mem_keys_addRecord]
        simp only [hk, List.mem_cons, List.not_mem_nil, not_false_eq_true, and_true]
        constructor
        · rintro ((h | h) | ⟨r, hr, hkr⟩)
          · exact Or.inl h
          · exact Or.inr ⟨(pid, seq), Or.inl rfl, by simpa [hk] using h⟩
          · exact Or.inr ⟨r, Or.inr hr, hkr⟩
        · rintro (h | ⟨r, hr | hr, hkr⟩)
          · exact Or.inl (Or.inl h)
          · subst hr; exact Or.inl (Or.inr (by simpa [hk] using hkr))
          · exact Or.inr ⟨r, hr, hkr⟩

theorem pepMapFile_ok (a : MapArgs) (lines : List Str) (res : PMap × SeqMap) (h : pepMapFile a lines = .ok res) :
    mapRecords a (readFasta a.db a.special a.parse lines).1 ([], []) = .ok res ∧
      (readFasta a.db a.special a.parse lines).2 = none := by
  unfold pepMapFile at h
  simp only at h
  split at h
  · simp at h
  · rename_i res' hm
    split at h
    · simp at h
    · rename_i hn
      simp only [Except.ok.injEq] at h
      subst h
      exact ⟨hm, hn⟩

/-! ## the merge over (file, parameter set) jobs -/

/-- what one job contributes to the entry of `k` -/
def jobEntry (parse : ParseId) (j : List Str × Params) (k : Str) : List Str :=
  match pepMapSingle parse j.2 j.1 with
  | .ok r => get r.1 k
  | .error _ => []

theorem pepMapSingle_nodup (parse : ParseId) (p : Params) (f : List Str) (r : PMap × SeqMap)
    (h : pepMapSingle parse p f = .ok r) : (keys r.1).Nodup := by
  unfold pepMapSingle at h
  split at h
  · simp at h
  · obtain ⟨hm, _⟩ := pepMapFile_ok _ _ _ h
    exact (mapRecords_spec _ _ _ _ _ hm).2.1 (by simp [keys])

theorem fromParamsGo_spec (parse : ParseId) : ∀ (js : List (List Str × Params)) (m : PMap) (sm : SeqMap)
    (res : PMap × SeqMap), fromParamsGo parse js (m, sm) = .ok res →
      ∀ k, get res.1 k = get m k ++ js.flatMap (fun j => jobEntry parse j k) := by
  intro js
  induction js with
  | nil =>
    intro m sm res h k
    simp only [fromParamsGo, Except.ok.injEq] at h
    subst h; simp
  | cons j js ih =>
    intro m sm res h k
    obtain ⟨f, p⟩ := j
    simp only [fromParamsGo] at h
    split at h
    · simp at h
    · rename_i tm tsm hs
      rw [ih _ _ _ h k]
      unfold mergeMap
      rw [get_foldl_extend tm m k (pepMapSingle_nodup parse p f (tm, tsm) hs)]
      simp [jobEntry, hs]

/-! ## decoy sequences -/

theorem swapGo_perm (sp : List Char) : ∀ (t : Str) (prev : Char), (swapGo sp prev t).Perm (prev :: t) := by
  intro t
  induction t with
  | nil => intro prev; simp [swapGo]
  | cons c t ih =>
    intro prev
    simp only [swapGo]
    split
    · exact ((ih prev).cons c).trans (List.Perm.swap prev c t)
    · exact (ih c).cons prev

theorem swapSpecial_perm (sp : List Char) (s : Str) : (swapSpecial sp s).Perm s := by
  cases s with
  | nil => simp [swapSpecial]
  | cons a t => exact swapGo_perm sp t a

theorem decoySeq_perm (sp : List Char) (s : Str) : (decoySeq sp s).Perm s := by
  unfold decoySeq
  split
  · exact List.reverse_perm s
  · exact (swapSpecial_perm sp _).trans (List.reverse_perm s)

/-- a run of special residues moves in front of the residue that preceded it -/
theorem swapGo_run (sp : List Char) : ∀ (R : Str) (prev c : Char) (t : Str),
    (∀ x ∈ R, sp.contains x = true) → sp.contains c = false →
      swapGo sp prev (R ++ c :: t) = R ++ prev :: swapGo sp c t := by
  intro R
  induction R with
  | nil =>
    intro prev c t _ hc
    simp only [List.nil_append, swapGo, hc, Bool.false_eq_true, if_false]
  | cons x R ih =>
    intro prev c t hR hc
    have hx : sp.contains x = true := hR x (by simp)
    simp only [List.cons_append, swapGo, hx, if_true]
    rw [ih prev c t (fun y hy => hR y (by simp [hy])) hc]

theorem swapGo_end (sp : List Char) : ∀ (R : Str) (prev : Char),
    (∀ x ∈ R, sp.contains x = true) → swapGo sp prev R = R ++ [prev] := by
  intro R
  induction R with
  | nil => intro prev _; simp [swapGo]
  | cons x R ih =>
    intro prev hR
    have hx : sp.contains x = true := hR x (by simp)
    simp only [List.cons_append, swapGo, hx, if_true]
    rw [ih prev (fun y hy => hR y (by simp [hy]))]

/-! ## reading well-formed FASTA lines -/

theorem dropWhile_append_singleton {α : Type} (p : α → Bool) (l : List α) (c : α) (hc : p c = false) :
    (l ++ [c]).dropWhile p = l.dropWhile p ++ [c] := by
  induction l with
  | nil => simp [List.dropWhile, hc]
  | cons x l ih =>
    simp only [List.cons_append, List.dropWhile_cons]
    split
    · exact ih
    · rfl

theorem rstrip_cons (c : Char) (s : Str) (hc : isPySpace c = false) : rstrip (c :: s) = c :: rstrip s := by
  unfold rstrip
  rw [List.reverse_cons, dropWhile_append_singleton _ _ _ hc, List.reverse_append]
  simp

theorem rstrip_gt : rstrip ['>'] = ['>'] := by decide

/-- sequence lines are appended to the open record -/
theorem readGo_chunks (db : Db) (sp : List Char) (parse : ParseId) (nm : Option Str) :
    ∀ (chunks : List Str) (acc : List Str) (rest : List Str),
      (∀ l ∈ chunks, (rstrip l).head? ≠ some '>') →
      readGo db sp parse { name := nm, buf := .lines acc } (chunks ++ rest) =
        readGo db sp parse { name := nm, buf := .lines (acc ++ chunks.map rstrip) } rest := by
  intro chunks
  induction chunks with
  | nil => intro acc rest _; simp
  | cons l chunks ih =>
    intro acc rest h
    have hl : (rstrip l).head? ≠ some '>' := h l (by simp)
    have hl' : ((rstrip l).head? == some '>') = false := by simpa using hl
    simp only [List.cons_append, readGo, readStep, hl', Bool.false_eq_true, if_false]
    rw [ih (acc ++ [rstrip l]) rest (fun x hx => h x (by simp [hx]))]
    simp

/-- the records the state still owes when the next header (or the end) arrives -/
def pendingOut (db : Db) (sp : List Char) (st : RState) : List (Str × Str) :=
  match truthy st.name with
  | some nm => yieldRecords db sp nm st.buf.join
  | none => []

def idOf (parse : ParseId) (h : Str) : Str := (applyParse parse (rstrip h)).getD []

/-- the lines of a file holding the records `(header, sequence lines)` -/
def renderFasta (recs : List (Str × List Str)) : List Str := recs.flatMap (fun r => ('>' :: r.1) :: r.2)

theorem readGo_wellformed (db : Db) (sp : List Char) (parse : ParseId) :
    ∀ (recs : List (Str × List Str)) (st : RState),
      (∀ r ∈ recs, rstrip r.1 ≠ [] ∧ (∃ c t, applyParse parse (rstrip r.1) = some (c :: t)) ∧
        ∀ l ∈ r.2, (rstrip l).head? ≠ some '>') →
      readGo db sp parse st (renderFasta recs ++ [['>']]) =
        (pendingOut db sp st ++
          recs.flatMap (fun r => yieldRecords db sp (idOf parse r.1) (r.2.map rstrip).flatten), none) := by
  intro recs
  induction recs with
  | nil =>
    intro st _
    simp only [renderFasta, List.flatMap_nil, List.nil_append, readGo, rstrip_gt, readStep, List.head?_cons,
      beq_self_eq_true, if_true, List.length_singleton, Nat.lt_irrefl, if_false, List.append_nil]
    unfold pendingOut
    cases truthy st.name <;> simp
  | cons r recs ih =>
    intro st h
    obtain ⟨hd, chunks⟩ := r
    obtain ⟨h1, ⟨c, t, h2⟩, h3⟩ := h (hd, chunks) (by simp)
    have hline : rstrip ('>' :: hd) = '>' :: rstrip hd := rstrip_cons '>' hd (by decide)
    have hlen : ('>' :: rstrip hd).length > 1 := by
      cases hr : rstrip hd with
      | nil => exact absurd hr h1
      | cons _ _ => simp
    simp only [renderFasta, List.flatMap_cons, List.cons_append, List.append_assoc]
    rw [readGo]
    simp only [hline, readStep, List.head?_cons, beq_self_eq_true, if_true, hlen, List.tail_cons]
    have ih' := ih { name := applyParse parse (rstrip hd), buf := .lines ([] ++ chunks.map rstrip) }
      (fun r hr => h r (by simp [hr]))
    have hch := readGo_chunks db sp parse (applyParse parse (rstrip hd)) chunks [] (renderFasta recs ++ [['>']]) h3
    simp only [renderFasta] at ih' hch
    have hpend : pendingOut db sp { name := applyParse parse (rstrip hd), buf := .lines ([] ++ chunks.map rstrip) } =
        yieldRecords db sp (idOf parse hd) (chunks.map rstrip).flatten := by
      simp [pendingOut, h2, truthy, idOf, SeqBuf.join]
    cases htr : truthy st.name with
    | none =>
      simp only [htr]
      rw [hch, ih', hpend]
      simp [pendingOut, htr]
    | some nm =>
      simp only [htr]
      rw [hch, ih', hpend]
      simp [pendingOut, htr]

/-! ## counting -/

theorem mem_uniq (l : List Str) (x : Str) : x ∈ uniq l ↔ x ∈ l := by
  induction l with
  | nil => simp [uniq]
  | cons a l ih =>
    simp only [uniq, List.mem_cons, List.mem_filter, ih, decide_eq_true_eq]
    by_cases h : x = a <;> simp [h]

theorem nodup_uniq (l : List Str) : (uniq l).Nodup := by
  induction l with
  | nil => simp [uniq]
  | cons a l ih =>
    simp only [uniq, List.nodup_cons, List.mem_filter, decide_eq_true_eq]
    exact ⟨fun h => h.2 rfl, ih.filter _⟩

def cnt (d : List (Str × Nat)) (k : Str) : Nat :=
  match d with
  | [] => 0
  | (k', n) :: r => if k' = k then n else cnt r k

theorem cnt_incr (d : List (Str × Nat)) (k k' : Str) (hpos : ∀ kv ∈ d, 0 < kv.2) :
    cnt (incr d k) k' = if k = k' then cnt d k' + 1 else cnt d k' := by
  induction d with
  | nil => by_cases h : k = k' <;> simp [incr, cnt, h]
  | cons hd r ih =>
    obtain ⟨a, n⟩ := hd
    have ih' := ih (fun kv hkv => hpos kv (by simp [hkv]))
    simp only [incr]
    by_cases hak : a = k
    · subst hak
      by_cases hk : a = k' <;> simp [cnt, hk]
    · simp only [hak, if_false, cnt]
      by_cases hak' : a = k'
      · subst hak'; simp [Ne.symm hak]
      · simp [hak', ih']

theorem incr_pos (d : List (Str × Nat)) (k : Str) (hpos : ∀ kv ∈ d, 0 < kv.2) : ∀ kv ∈ incr d k, 0 < kv.2 := by
  induction d with
  | nil => intro kv h; simp [incr] at h; subst h; simp
  | cons hd r ih =>
    obtain ⟨a, n⟩ := hd
    intro kv h
    simp only [incr] at h
    split at h
    · rcases List.mem_cons.mp h with rfl | h
      · simp
      · exact hpos kv (by simp [h])
    · rcases List.mem_cons.mp h with rfl | h
      · exact hpos _ (by simp)
      · exact ih (fun kv hkv => hpos kv (by simp [hkv])) kv h

theorem cnt_foldl_incr (l : List Str) : ∀ (d : List (Str × Nat)) (k : Str), (∀ kv ∈ d, 0 < kv.2) → l.Nodup →
    cnt (l.foldl incr d) k = cnt d k + (if k ∈ l then 1 else 0) ∧ (∀ kv ∈ l.foldl incr d, 0 < kv.2) := by
  induction l with
  | nil => intro d k hpos _; exact ⟨by simp, hpos⟩
  | cons a l ih =>
    intro d k hpos hnd
    simp only [List.nodup_cons] at hnd
    simp only [List.foldl_cons]
    obtain ⟨h1, h2⟩ := ih (incr d a) k (incr_pos d a hpos) hnd.2
    refine ⟨?_, h2⟩
    rw [h1, cnt_incr d a k hpos]
    by_cases hak : a = k
    · subst hak; simp [hnd.1]
    · have : ¬ k = a := fun e => hak e.symm
      simp [hak, this]

/-- `get_num_peptides_per_protein` (repaired): the number of map entries that list the protein -/
theorem cnt_numPeptides (m : PMap) (p : Str) :
    cnt (numPeptidesPerProtein m) p = (m.filter (fun kv => decide (p ∈ kv.2))).length := by
  unfold numPeptidesPerProtein
  suffices h : ∀ (d : List (Str × Nat)), (∀ kv ∈ d, 0 < kv.2) →
      cnt (m.foldl (fun d kv => (uniq kv.2).foldl incr d) d) p =
        cnt d p + (m.filter (fun kv => decide (p ∈ kv.2))).length by
    simpa [cnt] using h [] (by simp)
  induction m with
  | nil => intro d _; simp
  | cons kv m ih =>
    intro d hpos
    simp only [List.foldl_cons]
    obtain ⟨h1, h2⟩ := cnt_foldl_incr (uniq kv.2) d p hpos (nodup_uniq _)
    rw [ih _ h2, h1, List.filter_cons]
    by_cases hp : p ∈ kv.2
    · simp [hp, mem_uniq]; omega
    · simp [hp, mem_uniq]

/-! ## entries, keys and the merge into an empty accumulator -/

theorem get_of_mem {Q P : Type} [DecidableEq Q] (d : List (Q × List P)) (hnd : (keys d).Nodup) (kv : Q × List P)
    (h : kv ∈ d) : get d kv.1 = kv.2 := by
  induction d with
  | nil => simp at h
  | cons hd r ih =>
    obtain ⟨a, ws⟩ := hd
    simp only [keys, List.map_cons, List.nodup_cons] at hnd
    rcases List.mem_cons.mp h with rfl | h
    · simp [get]
    · have hne : a ≠ kv.1 := by
        intro e
        exact hnd.1 (e ▸ List.mem_map.mpr ⟨kv, h, rfl⟩)
      simp only [get, hne, if_false]
      exact ih hnd.2 h

theorem mem_keys_iff {Q P : Type} (d : List (Q × List P)) (k : Q) : k ∈ keys d ↔ ∃ vs, (k, vs) ∈ d := by
  simp [keys]

theorem extend_of_not_mem {Q P : Type} [DecidableEq Q] (d : List (Q × List P)) (k : Q) (vs : List P)
    (h : k ∉ keys d) : extend d k vs = d ++ [(k, vs)] := by
  induction d with
  | nil => rfl
  | cons hd r ih =>
    obtain ⟨a, ws⟩ := hd
    simp only [keys, List.map_cons, List.mem_cons, not_or] at h
    have hne : ¬ a = k := fun e => h.1 e.symm
    simp only [extend, hne, if_false, List.cons_append]
    rw [ih h.2]

theorem foldl_extend_append {Q P : Type} [DecidableEq Q] (tmp : List (Q × List P)) :
    ∀ (acc : List (Q × List P)), (keys tmp).Nodup → (∀ k ∈ keys tmp, k ∉ keys acc) →
      tmp.foldl (fun d kv => extend d kv.1 kv.2) acc = acc ++ tmp := by
  induction tmp with
  | nil => intro acc _ _; simp
  | cons hd r ih =>
    intro acc hnd hdis
    obtain ⟨a, ws⟩ := hd
    simp only [keys, List.map_cons, List.nodup_cons] at hnd
    simp only [List.foldl_cons]
    rw [extend_of_not_mem acc a ws (hdis a (by simp [keys]))]
    rw [ih _ hnd.2]
    · simp
    · intro k hk
      simp only [keys, List.map_append, List.map_cons, List.map_nil, List.mem_append, List.mem_singleton, not_or]
      refine ⟨hdis k (by simp only [keys, List.map_cons, List.mem_cons]; exact Or.inr hk), ?_⟩
      intro e; subst e; exact hnd.1 hk

theorem mergeMap_nil (tm : PMap) (h : (keys tm).Nodup) : mergeMap [] tm = tm := by
  unfold mergeMap
  rw [foldl_extend_append tm [] h (by simp [keys])]
  simp

/-- the number of entries listing `p` is the number of distinct keys whose entry lists `p` -/
theorem count_entries_eq (m : PMap) (hnd : (keys m).Nodup) (p : Str) (K : List Str)
    (hK : ∀ k, k ∈ K ↔ k ∈ keys m ∧ p ∈ get m k) :
    (m.filter (fun kv => decide (p ∈ kv.2))).length = (uniq K).length := by
  have hL : ((m.filter (fun kv => decide (p ∈ kv.2))).map (·.1)).Nodup := by
    have : ((m.filter (fun kv => decide (p ∈ kv.2))).map (·.1)).Sublist (m.map (·.1)) :=
      (List.filter_sublist).map _
    exact this.nodup hnd
  have hperm : ((m.filter (fun kv => decide (p ∈ kv.2))).map (·.1)).Perm (uniq K) := by
    rw [List.perm_ext_iff_of_nodup hL (nodup_uniq K)]
    intro k
    rw [mem_uniq, hK]
    simp only [List.mem_map, List.mem_filter, decide_eq_true_eq]
    constructor
    · rintro ⟨kv, ⟨hkv, hp⟩, rfl⟩
      refine ⟨List.mem_map.mpr ⟨kv, hkv, rfl⟩, ?_⟩
      rw [get_of_mem m hnd kv hkv]; exact hp
    · rintro ⟨hk, hp⟩
      obtain ⟨vs, hvs⟩ := (mem_keys_iff m k).mp hk
      refine ⟨(k, vs), ⟨hvs, ?_⟩, rfl⟩
      have := get_of_mem m hnd (k, vs) hvs
      simp only at this
      rw [← this]; exact hp
  rw [← hperm.length_eq, List.length_map]

/-- the arguments `get_peptide_to_protein_map` receives for the iBAQ digest of one parameter set -/
def ibaqArgs (r : EnzymeRule) (p : Params) (parse : ParseId) : MapArgs :=
  { rule := r, db := p.db, minL := max 6 p.minL, maxL := min 30 p.maxL, mode := .full, mc := 0, met := false,
    useHash := false, special := p.special, parse := parse }

theorem pepMapSingle_ibaq (parse : ParseId) (p : Params) (r : EnzymeRule) (hr : lookupEnzyme p.enzyme = some r)
    (lines : List Str) : pepMapSingle parse (ibaqParams p) lines = pepMapFile (ibaqArgs r p parse) lines := by
  simp only [pepMapSingle, ibaqParams, hr, ibaqArgs]
  congr

theorem inj_of_nodup_map {α β : Type} (f : α → β) : ∀ (l : List α), (l.map f).Nodup →
    ∀ a ∈ l, ∀ b ∈ l, f a = f b → a = b := by
  intro l
  induction l with
  | nil => intro _ a ha; simp at ha
  | cons x l ih =>
    intro hnd a ha b hb hab
    simp only [List.map_cons, List.nodup_cons, List.mem_map, not_exists, not_and] at hnd
    rcases List.mem_cons.mp ha with ha' | ha' <;> rcases List.mem_cons.mp hb with hb' | hb'
    · rw [ha', hb']
    · subst ha'; exact absurd hab.symm (hnd.1 b hb')
    · subst hb'; exact absurd hab (hnd.1 a ha')
    · exact ih hnd.2 a ha' b hb' hab

theorem hashKey_false : hashKey false = fun x => x := by
  funext x; simp [hashKey]

/-! ## the non-specific lookup -/

theorem containsSub_iff (pat : Str) : ∀ (s : Str), containsSub pat s = true ↔ ∃ pre suf, s = pre ++ pat ++ suf := by
  intro s
  induction s with
  | nil =>
    simp only [containsSub, List.isEmpty_iff]
    constructor
    · intro h; exact ⟨[], [], by simp [h]⟩
    · rintro ⟨pre, suf, h⟩
      have := congrArg List.length h
      simp at this
      exact List.eq_nil_of_length_eq_zero (by omega)
  | cons c t ih =>
    simp only [containsSub, Bool.or_eq_true, List.isPrefixOf_iff_prefix]
    constructor
    · rintro (⟨suf, h⟩ | h)
      · exact ⟨[], suf, by simp [h]⟩
      · obtain ⟨pre, suf, h⟩ := ih.mp h
        exact ⟨c :: pre, suf, by simp [h]⟩
    · rintro ⟨pre, suf, h⟩
      cases pre with
      | nil => left; exact ⟨suf, by simpa using h.symm⟩
      | cons x pre =>
        right
        simp only [List.cons_append, List.cons.injEq] at h
        exact ih.mpr ⟨pre, suf, h.2⟩

theorem slice_of_append (pre pat suf : Str) :
    slice (pre ++ pat ++ suf) pre.length (pre.length + pat.length) = pat := by
  unfold slice
  simp [List.drop_append, List.take_append]

theorem lookupSeq_setKey (d : SeqMap) (k k' : Str) (v : Str) :
    lookupSeq (setKey d k v) k' = if k = k' then some v else lookupSeq d k' := by
  induction d with
  | nil => by_cases h : k = k' <;> simp [setKey, lookupSeq, List.find?, h]
  | cons hd r ih =>
    obtain ⟨a, w⟩ := hd
    simp only [setKey]
    by_cases hak : a = k
    · subst hak
      by_cases hk : a = k' <;> simp [lookupSeq, List.find?, hk]
    · simp only [hak, if_false]
      by_cases hak' : a = k'
      · subst hak'
        have : ¬ k = a := fun e => hak e.symm
        simp [lookupSeq, List.find?, this]
      · have ih' := ih
        simp only [lookupSeq] at ih' ⊢
        simp only [List.find?, hak', decide_false]
        exact ih'

theorem setKey_ne_nil (d : SeqMap) (k v : Str) : setKey d k v ≠ [] := by
  cases d with
  | nil => simp [setKey]
  | cons hd r =>
    obtain ⟨a, w⟩ := hd
    simp only [setKey]
    split <;> simp

/-- the sequence map after the record loop: every record's identifier maps to its sequence (distinct identifiers) -/
theorem mapRecords_seqs (a : MapArgs) : ∀ (recs : List (Str × Str)) (m : PMap) (sm : SeqMap) (res : PMap × SeqMap),
    mapRecords a recs (m, sm) = .ok res → (recs.map (·.1)).Nodup →
      (∀ r ∈ recs, lookupSeq res.2 r.1 = some r.2) ∧
      (∀ pid, pid ∉ recs.map (·.1) → lookupSeq res.2 pid = lookupSeq sm pid) ∧
      (recs ≠ [] → res.2 ≠ []) ∧ (recs = [] → res.2 = sm) := by
  intro recs
  induction recs with
  | nil =>
    intro m sm res h _
    simp only [mapRecords, Except.ok.injEq] at h
    subst h
    simp
  | cons r recs ih =>
    intro m sm res h hnd
    obtain ⟨pid, seq⟩ := r
    simp only [List.map_cons, List.nodup_cons] at hnd
    simp only [mapRecords] at h
    split at h
    · simp at h
    · obtain ⟨h1, h2, h3, h4⟩ := ih _ _ _ h hnd.2
      refine ⟨?_, ?_, ?_, by simp⟩
      · intro r hr
        rcases List.mem_cons.mp hr with rfl | hr
        · rw [h2 _ hnd.1, lookupSeq_setKey]; simp
        · exact h1 r hr
      · intro p hp
        simp only [List.map_cons, List.mem_cons, not_or] at hp
        rw [h2 p hp.2, lookupSeq_setKey]
        have : ¬ pid = p := fun e => hp.1 e.symm
        simp [this]
      · intro _
        cases recs with
        | nil => rw [h4 rfl]; exact setKey_ne_nil _ _ _
        | cons _ _ => exact h3 (by simp)

theorem confirm_spec (sm : SeqMap) (pep : Str) : ∀ (recs : List (Str × Str)),
    (∀ r ∈ recs, lookupSeq sm r.1 = some r.2) →
      confirm sm pep (recs.map (·.1)) = .ok ((recs.filter (fun r => containsSub pep r.2)).map (·.1)) := by
  intro recs
  induction recs with
  | nil => intro _; rfl
  | cons r recs ih =>
    intro h
    have hr := h r (by simp)
    have ih' := ih (fun x hx => h x (by simp [hx]))
    simp only [List.map_cons, confirm, hr, ih', List.filter_cons]
    cases containsSub pep r.2 <;> simp

theorem insertSorted_perm (x : Str) (l : List Str) : (insertSorted x l).Perm (x :: l) := by
  induction l with
  | nil => simp [insertSorted]
  | cons y ys ih =>
    simp only [insertSorted]
    split
    · exact List.Perm.refl _
    · exact (ih.cons y).trans (List.Perm.swap x y ys)

theorem sortStrs_perm (l : List Str) : (sortStrs l).Perm l := by
  unfold sortStrs
  induction l with
  | nil => simp
  | cons x xs ih =>
    simp only [List.foldr_cons]
    exact (insertSorted_perm x _).trans (ih.cons x)

/-! ## keys of merged maps; the iBAQ number over several jobs -/

theorem keys_extend {Q P : Type} [DecidableEq Q] (d : List (Q × List P)) (k : Q) (vs : List P) :
    keys (extend d k vs) = if k ∈ keys d then keys d else keys d ++ [k] := by
  induction d with
  | nil => simp [extend, keys]
  | cons hd r ih =>
    obtain ⟨a, ws⟩ := hd
    simp only [extend]
    by_cases hak : a = k
    · subst hak; simp [keys]
    · have hka : ¬ k = a := fun e => hak e.symm
      simp only [hak, if_false]
      simp only [keys, List.map_cons, List.mem_cons, hka, false_or] at ih ⊢
      rw [ih]
      by_cases hm : k ∈ List.map (fun x => x.fst) r <;> simp [hm]

theorem keys_foldl_extend {Q P : Type} [DecidableEq Q] (tmp : List (Q × List P)) :
    ∀ (acc : List (Q × List P)), (keys acc).Nodup →
      (keys (tmp.foldl (fun d kv => extend d kv.1 kv.2) acc)).Nodup ∧
      ∀ k, k ∈ keys (tmp.foldl (fun d kv => extend d kv.1 kv.2) acc) ↔ k ∈ keys acc ∨ k ∈ keys tmp := by
  induction tmp with
  | nil => intro acc h; exact ⟨h, by simp [keys]⟩
  | cons hd r ih =>
    intro acc h
    obtain ⟨a, ws⟩ := hd
    simp only [List.foldl_cons]
    have hnd : (keys (extend acc a ws)).Nodup := by
      rw [keys_extend]
      split
      · exact h
      · rename_i hk
        rw [List.nodup_append]
        refine ⟨h, by simp, ?_⟩
        intro x hx y hy
        simp at hy; subst hy
        intro e; exact hk (e ▸ hx)
    obtain ⟨h1, h2⟩ := ih _ hnd
    refine ⟨h1, ?_⟩
    intro k
    rw [h2, keys_extend]
    simp only [keys, List.map_cons, List.mem_cons]
    by_cases hm : a ∈ keys acc
    · simp only [keys] at hm
      simp only [hm, if_true]
      constructor
      · rintro (h' | h')
        · exact Or.inl h'
        · exact Or.inr (Or.inr h')
      · rintro (h' | h' | h')
        · exact Or.inl h'
        · subst h'; exact Or.inl hm
        · exact Or.inr h'
    · simp only [keys] at hm
      simp only [hm, if_false, List.mem_append, List.mem_singleton]
      constructor
      · rintro ((h' | h') | h')
        · exact Or.inl h'
        · exact Or.inr (Or.inl h')
        · exact Or.inr (Or.inr h')
      · rintro (h' | h' | h')
        · exact Or.inl (Or.inl h')
        · exact Or.inl (Or.inr h')
        · exact Or.inr h'

/-- the keys one job contributes -/
def jobKeys (parse : ParseId) (j : List Str × Params) : List Str :=
  match pepMapSingle parse j.2 j.1 with
  | .ok r => keys r.1
  | .error _ => []

theorem fromParamsGo_keys (parse : ParseId) : ∀ (js : List (List Str × Params)) (m : PMap) (sm : SeqMap)
    (res : PMap × SeqMap), fromParamsGo parse js (m, sm) = .ok res → (keys m).Nodup →
      (keys res.1).Nodup ∧ ∀ k, k ∈ keys res.1 ↔ k ∈ keys m ∨ ∃ j ∈ js, k ∈ jobKeys parse j := by
  intro js
  induction js with
  | nil =>
    intro m sm res h hnd
    simp only [fromParamsGo, Except.ok.injEq] at h
    subst h; exact ⟨hnd, by simp⟩
  | cons j js ih =>
    intro m sm res h hnd
    obtain ⟨f, p⟩ := j
    simp only [fromParamsGo] at h
    split at h
    · simp at h
    · rename_i tm tsm hs
      obtain ⟨h1, h2⟩ := keys_foldl_extend tm m hnd
      obtain ⟨h3, h4⟩ := ih _ _ _ h h1
      refine ⟨h3, ?_⟩
      intro k
      rw [h4]
      unfold mergeMap
      rw [h2]
      have hjk : jobKeys parse (f, p) = keys tm := by simp [jobKeys, hs]
      constructor
      · rintro ((h' | h') | ⟨j, hj, hk⟩)
        · exact Or.inl h'
        · exact Or.inr ⟨(f, p), by simp, by rw [hjk]; exact h'⟩
        · exact Or.inr ⟨j, by simp [hj], hk⟩
      · rintro (h' | ⟨j, hj, hk⟩)
        · exact Or.inl (Or.inl h')
        · rcases List.mem_cons.mp hj with rfl | hj
          · exact Or.inl (Or.inr (by rw [← hjk]; exact hk))
          · exact Or.inr ⟨j, hj, hk⟩

theorem mem_jobKeys_of_mem_jobEntry (parse : ParseId) (j : List Str × Params) (k pid : Str)
    (h : pid ∈ jobEntry parse j k) : k ∈ jobKeys parse j := by
  unfold jobEntry at h
  unfold jobKeys
  cases hr : pepMapSingle parse j.2 j.1 with
  | error e => rw [hr] at h; simp at h
  | ok r =>
    rw [hr] at h
    simp only at h ⊢
    rcases Classical.em (k ∈ keys r.1) with hk | hk
    · exact hk
    · rw [get_of_not_mem_keys r.1 k hk] at h; simp at h

/-! ## several files, one parameter set (audit findings B2, B3) -/

/-- the arguments `pepMapSingle` hands to `pepMapFile` for a parameter set whose enzyme is `r` -/
def argsOf (r : EnzymeRule) (p : Params) (parse : ParseId) : MapArgs :=
  { rule := r, db := p.db, minL := p.minL, maxL := p.maxL, mode := modeOf p.digestion, mc := p.mc, met := p.met,
    useHash := p.useHash, special := p.special, parse := parse }

/-- the database of several files under one parameter set: the records (targets and generated decoys) of the files
    in file order, inside a file in record order -/
def dbRecords (parse : ParseId) (p : Params) (files : List (List Str)) : List (Str × Str) :=
  files.flatMap (fun f => (readFasta p.db p.special parse f).1)

theorem pepMapSingle_args (parse : ParseId) (p : Params) (r : EnzymeRule) (hr : lookupEnzyme p.enzyme = some r)
    (lines : List Str) : pepMapSingle parse p lines = pepMapFile (argsOf r p parse) lines := by
  simp only [pepMapSingle, hr, argsOf]

theorem jobs_one (files : List (List Str)) (p : Params) : jobs files [p] = files.map (fun f => (f, p)) := by
  induction files with
  | nil => rfl
  | cons f files ih =>
    simp only [jobs, List.flatMap_cons, List.map_cons, List.map_nil, List.cons_append, List.nil_append] at ih ⊢
    rw [ih]

theorem setKey_of_not_mem (d : SeqMap) (k v : Str) (h : k ∉ d.map (·.1)) : setKey d k v = d ++ [(k, v)] := by
  induction d with
  | nil => rfl
  | cons hd r ih =>
    obtain ⟨a, w⟩ := hd
    simp only [List.map_cons, List.mem_cons, not_or] at h
    have hne : ¬ a = k := fun e => h.1 e.symm
    simp only [setKey, hne, if_false, List.cons_append]
    rw [ih h.2]

theorem foldl_setKey_append (tmp : SeqMap) : ∀ (acc : SeqMap), (acc.map (·.1) ++ tmp.map (·.1)).Nodup →
    tmp.foldl (fun d kv => setKey d kv.1 kv.2) acc = acc ++ tmp := by
  induction tmp with
  | nil => intro acc _; simp
  | cons hd r ih =>
    intro acc hnd
    obtain ⟨a, w⟩ := hd
    have ha : a ∉ acc.map (·.1) := by
      intro hmem
      have := (List.nodup_append.mp hnd).2.2 a hmem a (by simp)
      exact this rfl
    simp only [List.foldl_cons]
    rw [setKey_of_not_mem acc a w ha, ih]
    · simp
    · simpa [List.append_assoc] using hnd

/-- with identifiers that are new and pairwise distinct the record loop appends the records to the sequence map -/
theorem mapRecords_seqs_eq (a : MapArgs) : ∀ (recs : List (Str × Str)) (m : PMap) (sm : SeqMap) (res : PMap × SeqMap),
    mapRecords a recs (m, sm) = .ok res → (sm.map (·.1) ++ recs.map (·.1)).Nodup → res.2 = sm ++ recs := by
  intro recs
  induction recs with
  | nil =>
    intro m sm res h _
    simp only [mapRecords, Except.ok.injEq] at h
    subst h; simp
  | cons r recs ih =>
    intro m sm res h hnd
    obtain ⟨pid, seq⟩ := r
    simp only [mapRecords] at h
    split at h
    · simp at h
    · have hp : pid ∉ sm.map (·.1) := by
        intro hmem
        exact (List.nodup_append.mp hnd).2.2 pid hmem pid (by simp) rfl
      rw [setKey_of_not_mem sm pid seq hp] at h
      rw [ih _ _ _ h]
      · simp
      · simpa [List.append_assoc] using hnd

theorem fromParamsGo_jobs_ok (parse : ParseId) : ∀ (js : List (List Str × Params)) (acc : PMap × SeqMap)
    (res : PMap × SeqMap), fromParamsGo parse js acc = .ok res →
      ∀ j ∈ js, ∃ r, pepMapSingle parse j.2 j.1 = .ok r := by
  intro js
  induction js with
  | nil => intro _ _ _ j hj; cases hj
  | cons j0 js ih =>
    intro acc res h j hj
    obtain ⟨f, p⟩ := j0
    obtain ⟨m, sm⟩ := acc
    simp only [fromParamsGo] at h
    split at h
    · simp at h
    · rename_i tm tsm hs
      rcases List.mem_cons.mp hj with rfl | hj
      · exact ⟨_, hs⟩
      · exact ih _ _ h j hj

/-- the sequence map after the merge over several files with one hash-key parameter set -/
theorem fromParamsGo_seqs_eq (parse : ParseId) (p : Params) (r : EnzymeRule) (hr : lookupEnzyme p.enzyme = some r)
    (hh : p.useHash = true) : ∀ (files : List (List Str)) (m : PMap) (sm : SeqMap) (res : PMap × SeqMap),
    fromParamsGo parse (files.map (fun f => (f, p))) (m, sm) = .ok res →
    (sm.map (·.1) ++ (dbRecords parse p files).map (·.1)).Nodup → res.2 = sm ++ dbRecords parse p files := by
  intro files
  induction files with
  | nil =>
    intro m sm res h _
    simp only [List.map_nil, fromParamsGo, Except.ok.injEq] at h
    subst h; simp [dbRecords]
  | cons f files ih =>
    intro m sm res h hnd
    simp only [List.map_cons, fromParamsGo] at h
    split at h
    · simp at h
    · rename_i tm tsm hs
      simp only [hh, if_true] at h
      rw [pepMapSingle_args parse p r hr] at hs
      obtain ⟨hm, _⟩ := pepMapFile_ok _ _ _ hs
      have hdb : dbRecords parse p (f :: files) = (readFasta p.db p.special parse f).1 ++ dbRecords parse p files := by
        simp [dbRecords]
      rw [hdb] at hnd ⊢
      simp only [List.map_append] at hnd
      have hrecs : (readFasta (argsOf r p parse).db (argsOf r p parse).special (argsOf r p parse).parse f).1 =
          (readFasta p.db p.special parse f).1 := rfl
      rw [hrecs] at hm
      have htsm : tsm = (readFasta p.db p.special parse f).1 := by
        have := mapRecords_seqs_eq _ _ _ _ _ hm (by
          simp only [List.map_nil, List.nil_append]
          exact ((List.nodup_append.mp hnd).2.1.sublist (List.sublist_append_left _ _)))
        simpa using this
      subst htsm
      have hmerge : mergeSeqs sm (readFasta p.db p.special parse f).1 = sm ++ (readFasta p.db p.special parse f).1 := by
        unfold mergeSeqs
        apply foldl_setKey_append
        rw [← List.append_assoc] at hnd
        exact hnd.sublist (List.sublist_append_left _ _)
      rw [hmerge] at h
      rw [ih _ _ _ h]
      · simp
      · simpa [List.append_assoc] using hnd

theorem lookupSeq_of_mem (sm : SeqMap) (hnd : (sm.map (·.1)).Nodup) (r : Str × Str) (hr : r ∈ sm) :
    lookupSeq sm r.1 = some r.2 := by
  induction sm with
  | nil => cases hr
  | cons hd t ih =>
    simp only [List.map_cons, List.nodup_cons] at hnd
    rcases List.mem_cons.mp hr with rfl | hr
    · simp [lookupSeq, List.find?]
    · have hne : ¬ hd.1 = r.1 := by
        intro e
        exact hnd.1 (e ▸ List.mem_map.mpr ⟨r, hr, rfl⟩)
      have := ih hnd.2 hr
      simp only [lookupSeq] at this ⊢
      simp only [List.find?, hne, decide_false]
      exact this

/-- the merged map of several files under ONE parameter set, entry by entry: the identifiers, in database order,
    of the records whose digest yields the key -/
theorem fromParams_one_get (parse : ParseId) (files : List (List Str)) (p : Params) (r : EnzymeRule)
    (hr : lookupEnzyme p.enzyme = some r) (res : PMap × SeqMap) (h : fromParams parse files [p] = .ok res) (k : Str) :
    get res.1 k =
      ((dbRecords parse p files).filter (fun x => decide (k ∈ keysOf (argsOf r p parse) x.2))).map (·.1) := by
  have hjobs := jobs_one files p
  have hget := fromParamsGo_spec parse (jobs files [p]) [] [] res h k
  have hok := fromParamsGo_jobs_ok parse _ _ _ h
  rw [hjobs] at hget hok
  rw [hget]
  simp only [get, List.nil_append, dbRecords]
  clear hget h hjobs
  induction files with
  | nil => simp
  | cons f files ih =>
    simp only [List.map_cons, List.flatMap_cons, List.filter_append, List.map_append]
    rw [ih (fun j hj => hok j (List.mem_cons_of_mem _ hj))]
    congr 1
    obtain ⟨r1, hr1⟩ := hok (f, p) (by simp)
    simp only at hr1
    simp only [jobEntry, hr1]
    rw [pepMapSingle_args parse p r hr] at hr1
    obtain ⟨hm, _⟩ := pepMapFile_ok _ _ _ hr1
    have := (mapRecords_spec _ _ _ _ _ hm).1 k
    simp only [get, List.nil_append] at this
    exact this

/-- without a known enzyme only the empty file list gets through -/
theorem fromParams_one_no_enzyme (parse : ParseId) (files : List (List Str)) (p : Params)
    (hr : lookupEnzyme p.enzyme = none) (res : PMap × SeqMap) (h : fromParams parse files [p] = .ok res) :
    files = [] ∧ res = ([], []) := by
  cases files with
  | nil =>
    simp only [fromParams, jobs, List.flatMap_nil, fromParamsGo, Except.ok.injEq] at h
    exact ⟨rfl, h.symm⟩
  | cons f files =>
    simp only [fromParams, jobs, List.flatMap_cons, List.map_cons, List.map_nil, List.cons_append, List.nil_append,
      fromParamsGo, pepMapSingle, hr] at h
    cases h

end PgFdr.C09
