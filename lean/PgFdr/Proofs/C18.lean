import PgFdr.Model.C18

/-!
Helper definitions and lemmas for the C18 theorems: a Boolean checker of "this shipped file is
usable when selected by name with its own input type" (evaluated by the kernel over
`Generated.methods`) and its specification; the characterisation of `runMethod`.
-/
namespace PgFdr.C18
open PgFdr.Generated (MethodToml)

/-- decidable equality of results (core `Except` has none), so that `decide` can compare runs -/
instance decEqExcept {ε α : Type} [DecidableEq ε] [DecidableEq α] : DecidableEq (Except ε α)
  | .ok a, .ok b => if h : a = b then isTrue (by rw [h]) else isFalse (fun h' => h (Except.ok.inj h'))
  | .error a, .error b => if h : a = b then isTrue (by rw [h]) else isFalse (fun h' => h (Except.error.inj h'))
  | .ok _, .error _ => isFalse (fun h => by cases h)
  | .error _, .ok _ => isFalse (fun h => by cases h)

/-- everything supplied on the command line except a MaxQuant proteinGroups file -/
def everything : Supplied :=
  { mq := true, perc := true, fragpipe := true, sage := true, diann := true, map := true, mqGroups := false }

/-- the Boolean obligation checked over the generated table: the file parses, a rescue step is
    only configured for a score that can rescue, and the command line selecting the method BY NAME
    with (i) exactly its own input type and a FASTA file, (ii) all inputs, writes a table -/
def shippedOk (table : List MethodToml) (m : MethodToml) : Bool :=
  match parseMethod false m with
  | .error _ => false
  | .ok cfg =>
    (!cfg.grouping.rescues || cfg.score.canRescue) &&
    (match runCli table false (matching cfg) [.builtin m.name] with
     | .ok (cs, os) => cs == [cfg] && os == [Outcome.table]
     | .error _ => false) &&
    (match findMethod table m.name with
     | .ok m' => m' == m
     | .error _ => false) &&
    (match runMethod everything cfg with
     | .ok () => true
     | .error _ => false)

theorem shippedOk_spec (table : List MethodToml) (m : MethodToml) (h : shippedOk table m = true) :
    ∃ cfg, parseMethod false m = .ok cfg ∧
      (cfg.grouping.rescues = true → cfg.score.canRescue = true) ∧
      runCli table false (matching cfg) [.builtin m.name] = .ok ([cfg], [Outcome.table]) ∧
      findMethod table m.name = .ok m ∧
      runMethod everything cfg = .ok () := by
  unfold shippedOk at h
  cases hp : parseMethod false m with
  | error e => rw [hp] at h; simp at h
  | ok cfg =>
    rw [hp] at h
    simp only [Bool.and_eq_true] at h
    obtain ⟨⟨⟨h1, h2⟩, h3⟩, h4⟩ := h
    refine ⟨cfg, rfl, ?_, ?_, ?_, ?_⟩
    · intro hr; simpa [hr] using h1
    · cases hr : runCli table false (matching cfg) [.builtin m.name] with
      | error e => rw [hr] at h2; simp at h2
      | ok p =>
        obtain ⟨cs, os⟩ := p
        rw [hr] at h2
        simp only [Bool.and_eq_true, beq_iff_eq] at h2
        rw [h2.1, h2.2]
    · cases hf : findMethod table m.name with
      | error e => rw [hf] at h3; simp at h3
      | ok m' =>
        rw [hf] at h3
        simp only [beq_iff_eq] at h3
        rw [h3]
    · cases hr : runMethod everything cfg with
      | error e => rw [hr] at h4; simp at h4
      | ok u => rfl

/-- `runMethod` produces a table exactly when the four preconditions hold -/
theorem runMethod_ok_iff (s : Supplied) (c : Cfg) :
    runMethod s c = .ok () ↔
      s.has c.input = true ∧ c.scoreColumn.isSome = true ∧
      (c.grouping.needsMqGroups = true → s.mqGroups = true) ∧
      (c.grouping.rescues = true → c.score.canRescue = true) := by
  unfold runMethod
  cases h1 : s.has c.input <;> cases h2 : c.scoreColumn.isNone <;>
    cases h3 : c.grouping.needsMqGroups <;> cases h4 : s.mqGroups <;>
    cases h5 : c.grouping.rescues <;> cases h6 : c.score.canRescue <;>
    simp_all [Option.isNone_iff_eq_none, Option.isSome_iff_ne_none] <;>
    (first | (intro hh; simp_all) | skip)

theorem runMethod_error_cases (s : Supplied) (c : Cfg) (e : Err) (h : runMethod s c = .error e) :
    e = .missingInput ∨ e = .noScoreColumn ∨ e = .missingMqProteinGroups ∨ e = .rescueUnsupported := by
  unfold runMethod at h
  split at h
  · injection h with h; exact Or.inl h.symm
  · split at h
    · injection h with h; exact Or.inr (Or.inl h.symm)
    · split at h
      · injection h with h; exact Or.inr (Or.inr (Or.inl h.symm))
      · split at h
        · injection h with h; exact Or.inr (Or.inr (Or.inr h.symm))
        · cases h

/-! ### Python `sub in d` as "d = a ++ sub ++ b" -/

theorem containsSub_iff (pat s : List Char) :
    containsSub pat s = true ↔ ∃ a b, s = a ++ pat ++ b := by
  induction s with
  | nil =>
    simp only [containsSub, List.isEmpty_iff]
    constructor
    · intro h; exact ⟨[], [], by simp [h]⟩
    · rintro ⟨a, b, h⟩
      have := congrArg List.length h
      simp at this
      exact List.eq_nil_of_length_eq_zero (by omega)
  | cons c t ih =>
    simp only [containsSub, Bool.or_eq_true, ih]
    constructor
    · rintro (h | ⟨a, b, h⟩)
      · obtain ⟨b, hb⟩ := List.isPrefixOf_iff_prefix.mp h
        exact ⟨[], b, by simp [hb]⟩
      · exact ⟨c :: a, b, by simp [h]⟩
    · rintro ⟨a, b, h⟩
      cases a with
      | nil =>
        left
        rw [List.isPrefixOf_iff_prefix]
        exact ⟨b, by simpa using h.symm⟩
      | cons x a' =>
        right
        simp only [List.cons_append, List.cons.injEq] at h
        exact ⟨a', b, h.2⟩

theorem containsSub_of_append (p q s : List Char) (h : containsSub (p ++ q) s = true) :
    containsSub q s = true := by
  rw [containsSub_iff] at h ⊢
  obtain ⟨a, b, h⟩ := h
  exact ⟨a ++ p, b, by simp [h]⟩

theorem has_remap_of_no_remap (d : String) (h : has d "no_remap" = true) : has d "remap" = true := by
  unfold has at h ⊢
  have e : "no_remap".toList = "no_".toList ++ "remap".toList := by decide
  rw [e] at h
  exact containsSub_of_append _ _ _ h

theorem has_razor_appended (st : String) : has (st ++ " razor") "razor" = true := by
  unfold has
  rw [containsSub_iff]
  refine ⟨st.toList ++ [' '], [], ?_⟩
  have : " razor".toList = ' ' :: "razor".toList := by decide
  simp [String.toList_append, this]

end PgFdr.C18
