import PgFdr.Model.C18

/-!
Helper definitions and lemmas for the C18 theorems: a Boolean checker of "this shipped file is
usable when selected by name with its own input type" (evaluated by the kernel over
`Generated.methods`) and its specification; the characterisation of `runMethod`.
-/
namespace PgFdr.C18
open PgFdr.Generated (MethodToml)

/-- decidable equality of results (core `Except` has none), so that `decide` can compare runs -/
instance decEqExcept {ε α : Type} [DecidableEq ε] [DecidableEq α] : DecidableEq (Except ε α)
  | .ok a, .ok b => if h : a = b then isTrue (by rw [h]) else isFalse (fun h' => h (Except.ok.inj h'))
  | .error a, .error b => if h : a = b then isTrue (by rw [h]) else isFalse (fun h' => h (Except.error.inj h'))
  | .ok _, .error _ => isFalse (fun h => by cases h)
  | .error _, .ok _ => isFalse (fun h => by cases h)

/-- everything supplied on the command line except a MaxQuant proteinGroups file -/
def everything : Supplied :=
  { mq := true, perc := true, fragpipe := true, sage := true, diann := true, map := true, mqGroups := false }

/-- the Boolean obligation checked over the generated table: the file parses, a rescue step is
    only configured for a score that can rescue, and the command line selecting the method BY NAME
    with (i) exactly its own input type and a FASTA file, (ii) all inputs, writes a table -/
def shippedOk (table : List MethodToml) (m : MethodToml) : Bool :=
  match parseMethod false m with
  | .error _ => false
  | .ok cfg =>
    (!cfg.grouping.rescues || cfg.score.canRescue) &&
    (match runCli table false (matching cfg) [.builtin m.name] with
     | .ok (cs, os) => cs == [cfg] && os == [Outcome.table]
     | .error _ => false) &&
    (match findMethod table m.name with
     | .ok m' => m' == m
     | .error _ => false) &&
    (match runMethod everything cfg with
     | .ok () => true
     | .error _ => false)

theorem shippedOk_spec (table : List MethodToml) (m : MethodToml) (h : shippedOk table m = true) :
    ∃ cfg, parseMethod false m = .ok cfg ∧
      (cfg.grouping.rescues = true → cfg.score.canRescue = true) ∧
      runCli table false (matching cfg) [.builtin m.name] = .ok ([cfg], [Outcome.table]) ∧
      findMethod table m.name = .ok m ∧
      runMethod everything cfg = .ok () := by
  unfold shippedOk at h
  cases hp : parseMethod false m with
  | error e => rw [hp] at h; simp at h
  | ok cfg =>
    rw [hp] at h
    simp only [Bool.and_eq_true] at h
    obtain ⟨⟨⟨h1, h2⟩, h3⟩, h4⟩ := h
    refine ⟨cfg, rfl, ?_, ?_, ?_, ?_⟩
    · intro hr; simpa [hr] using h1
    · cases hr : runCli table false (matching cfg) [.builtin m.name] with
      | error e => rw [hr] at h2; simp at h2
      | ok p =>
        obtain ⟨cs, os⟩ := p
        rw [hr] at h2
        simp only [Bool.and_eq_true, beq_iff_eq] at h2
        rw [h2.1, h2.2]
    · cases hf : findMethod table m.name with
      | error e => rw [hf] at h3; simp at h3
      | ok m' =>
        rw [hf] at h3
        simp only [beq_iff_eq] at h3
        rw [h3]
    · cases hr : runMethod everything cfg with
      | error e => rw [hr] at h4; simp at h4
      | ok u => rfl

theorem isSome_eq_not_isNone' {α : Type} (o : Option α) : o.isSome = !o.isNone := by cases o <;> rfl

/-- `runMethod` produces a table exactly when the four preconditions hold -/
theorem runMethod_ok_iff (s : Supplied) (c : Cfg) :
    runMethod s c = .ok () ↔
      s.has c.input = true ∧ c.scoreColumn.isSome = true ∧
      (c.grouping.needsMqGroups = true → s.mqGroups = true) ∧
      (c.grouping.rescues = true → c.score.canRescue = true) := by
  unfold runMethod
  cases h0 : (c.input == Input.mq) <;>
  cases h1 : s.has c.input <;> cases h2 : c.scoreColumn.isNone <;>
    cases h3 : c.grouping.needsMqGroups <;> cases h4 : s.mqGroups <;>
    cases h5 : c.grouping.rescues <;> cases h6 : c.score.canRescue <;>
    simp [isSome_eq_not_isNone', h2]

theorem runMethod_error_cases (s : Supplied) (c : Cfg) (e : Err) (h : runMethod s c = .error e) :
    e = .missingInput ∨ e = .noScoreColumn ∨ e = .missingMqProteinGroups ∨ e = .noProteinScoreFile ∨
      e = .rescueUnsupported := by
  unfold runMethod at h
  split at h
  · injection h with h; exact Or.inl h.symm
  · split at h
    · injection h with h; exact Or.inr (Or.inl h.symm)
    · split at h
      · injection h with h; exact Or.inr (Or.inr (Or.inl h.symm))
      · split at h
        · injection h with h; exact Or.inr (Or.inr (Or.inr (Or.inl h.symm)))
        · split at h
          · injection h with h; exact Or.inr (Or.inr (Or.inr (Or.inr h.symm)))
          · cases h

/-! ### Python `sub in d` as "d = a ++ sub ++ b" -/

theorem containsSub_iff (pat s : List Char) :
    containsSub pat s = true ↔ ∃ a b, s = a ++ pat ++ b := by
  induction s with
  | nil =>
    simp only [containsSub, List.isEmpty_iff]
    constructor
    · intro h; exact ⟨[], [], by simp [h]⟩
    · rintro ⟨a, b, h⟩
      have := congrArg List.length h
      simp at this
      exact List.eq_nil_of_length_eq_zero (by omega)
  | cons c t ih =>
    simp only [containsSub, Bool.or_eq_true, ih]
    constructor
    · rintro (h | ⟨a, b, h⟩)
      · obtain ⟨b, hb⟩ := List.isPrefixOf_iff_prefix.mp h
        exact ⟨[], b, by simp [hb]⟩
      · exact ⟨c :: a, b, by simp [h]⟩
    · rintro ⟨a, b, h⟩
      cases a with
      | nil =>
        left
        rw [List.isPrefixOf_iff_prefix]
        exact ⟨b, by simpa using h.symm⟩
      | cons x a' =>
        right
        simp only [List.cons_append, List.cons.injEq] at h
        exact ⟨a', b, h.2⟩

theorem containsSub_of_append (p q s : List Char) (h : containsSub (p ++ q) s = true) :
    containsSub q s = true := by
  rw [containsSub_iff] at h ⊢
  obtain ⟨a, b, h⟩ := h
  exact ⟨a ++ p, b, by simp [h]⟩

theorem has_remap_of_no_remap (d : String) (h : has d "no_remap" = true) : has d "remap" = true := by
  unfold has at h ⊢
  have e : "no_remap".toList = "no_".toList ++ "remap".toList := by decide
  rw [e] at h
  exact containsSub_of_append _ _ _ h

theorem has_razor_appended (st : String) : has (st ++ " razor") "razor" = true := by
  unfold has
  rw [containsSub_iff]
  refine ⟨st.toList ++ [' '], [], ?_⟩
  have : " razor".toList = ' ' :: "razor".toList := by decide
  simp [String.toList_append, this]

/-! ### The refusals of `parseAll` / `runCli` / `runLoop` (audit finding A1) -/

/-- all five keys of the TOML file are present ("well-typed configuration") -/
def wellTyped (t : MethodToml) : Bool :=
  t.pickedStrategy.isSome && t.scoreType.isSome && t.sharedPeptides.isSome && t.grouping.isSome &&
    t.label.isSome

/-- a `--methods` value is well-typed: a name, or a custom file with all five keys -/
def MethodRef.wellTyped : MethodRef → Bool
  | .builtin _ => true
  | .custom t => C18.wellTyped t

/-- the errors `parseMethod` can return at all, and the field each one blames -/
theorem parseMethod_error_cases (g : Bool) (t : MethodToml) (e : Err) (h : parseMethod g t = .error e) :
    (e = .missingKey "pickedStrategy" ∧ t.pickedStrategy = none) ∨
    (e = .missingKey "scoreType" ∧ t.scoreType = none) ∨
    (e = .missingKey "sharedPeptides" ∧ t.sharedPeptides = none) ∨
    (e = .missingKey "grouping" ∧ t.grouping = none ∧ g = false) ∨
    (e = .missingKey "label" ∧ t.label = none) ∨
    e = .unknownPicked ∨ e = .unknownScore ∨ e = .unknownGrouping := by
  unfold parseMethod at h
  split at h
  · injection h with h; subst h; simp_all
  · split at h
    · injection h with h; subst h; simp
    · split at h
      · injection h with h; subst h; simp_all
      · split at h
        · injection h with h; subst h; simp_all
        · split at h
          · injection h with h; subst h; simp
          · split at h
            · injection h with h; subst h
              rename_i hg
              cases g <;> simp_all
            · split at h
              · injection h with h; subst h; simp
              · split at h
                · injection h with h; subst h; simp_all
                · cases h

theorem parseMethod_error_wellTyped (g : Bool) (t : MethodToml) (e : Err) (hw : wellTyped t = true)
    (h : parseMethod g t = .error e) : e = .unknownPicked ∨ e = .unknownScore ∨ e = .unknownGrouping := by
  simp only [wellTyped, Bool.and_eq_true] at hw
  obtain ⟨⟨⟨⟨h1, h2⟩, h3⟩, h4⟩, h5⟩ := hw
  rcases parseMethod_error_cases g t e h with ⟨-, h'⟩ | ⟨-, h'⟩ | ⟨-, h'⟩ | ⟨-, h', -⟩ | ⟨-, h'⟩ | h'
  · rw [h'] at h1; cases h1
  · rw [h'] at h2; cases h2
  · rw [h'] at h3; cases h3
  · rw [h'] at h4; cases h4
  · rw [h'] at h5; cases h5
  · exact h'

/-- exact characterisation of the three parse refusals on a configuration with all five keys -/
theorem parseMethod_refusals (g : Bool) (t : MethodToml) (pk st sh gr lb : String)
    (hpk : t.pickedStrategy = some pk) (hst : t.scoreType = some st) (hsh : t.sharedPeptides = some sh)
    (hgr : t.grouping = some gr) (hlb : t.label = some lb) :
    (parseMethod g t = .error .unknownPicked ↔ parsePicked pk = none) ∧
    (parseMethod g t = .error .unknownScore ↔
      parsePicked pk ≠ none ∧ parseScore (scoreDescription st sh) = none) ∧
    (parseMethod g t = .error .unknownGrouping ↔
      parsePicked pk ≠ none ∧ parseScore (scoreDescription st sh) ≠ none ∧
        parseGrouping (if g then "pseudo_gene" else gr) = none) ∧
    ((∃ c, parseMethod g t = .ok c) ↔
      parsePicked pk ≠ none ∧ parseScore (scoreDescription st sh) ≠ none ∧
        parseGrouping (if g then "pseudo_gene" else gr) ≠ none) := by
  unfold parseMethod
  simp only [hpk, hst, hsh, hgr, hlb]
  have hgn : (if g = true then some "pseudo_gene" else some gr) = some (if g then "pseudo_gene" else gr) := by
    cases g <;> rfl
  simp only [hgn]
  cases h1 : parsePicked pk <;> cases h2 : parseScore (scoreDescription st sh) <;>
    cases h3 : parseGrouping (if g then "pseudo_gene" else gr) <;> simp

theorem findMethod_error_iff (tbl : List MethodToml) (n : String) (e : Err) :
    findMethod tbl n = .error e ↔ e = .unknownMethod ∧ n ∉ tbl.map (·.name) := by
  unfold findMethod
  cases hf : tbl.find? (fun m => m.name == n) with
  | some m =>
    have hm := List.find?_some hf
    have hmem := List.mem_of_find?_eq_some hf
    simp only [beq_iff_eq] at hm
    simp only [reduceCtorEq, false_iff, not_and, Classical.not_not]
    intro _
    exact List.mem_map.mpr ⟨m, hmem, hm⟩
  | none =>
    rw [List.find?_eq_none] at hf
    simp only [Except.error.injEq]
    constructor
    · intro h
      refine ⟨h.symm, ?_⟩
      intro hmem
      obtain ⟨m, hm, hn⟩ := List.mem_map.mp hmem
      exact hf m hm (by simpa using hn)
    · intro h; exact h.1.symm

theorem findMethod_ok_mem (tbl : List MethodToml) (n : String) (m : MethodToml) (h : findMethod tbl n = .ok m) :
    m ∈ tbl ∧ m.name = n := by
  unfold findMethod at h
  cases hf : tbl.find? (fun m => m.name == n) with
  | some m' =>
    rw [hf] at h
    injection h with h
    subst h
    exact ⟨List.mem_of_find?_eq_some hf, by simpa using List.find?_some hf⟩
  | none => rw [hf] at h; cases h

/-- a `--methods` value resolves and parses -/
def Parses (tbl : List MethodToml) (g : Bool) (m : MethodRef) (c : Cfg) : Prop :=
  ∃ t, resolve tbl m = .ok t ∧ parseMethod g t = .ok c

/-- a `--methods` value is refused with `e` while being located or parsed -/
def RefusedAt (tbl : List MethodToml) (g : Bool) (m : MethodRef) (e : Err) : Prop :=
  resolve tbl m = .error e ∨ ∃ t, resolve tbl m = .ok t ∧ parseMethod g t = .error e

theorem parseAll_ok_iff (tbl : List MethodToml) (g : Bool) (ms : List MethodRef) (cfgs : List Cfg) :
    parseAll tbl g ms = .ok cfgs ↔
      ms.length = cfgs.length ∧ ∀ p ∈ ms.zip cfgs, Parses tbl g p.1 p.2 := by
  induction ms generalizing cfgs with
  | nil =>
    simp only [parseAll, Except.ok.injEq, List.length_nil, List.zip_nil_left, List.not_mem_nil, false_imp_iff,
      implies_true, and_true]
    constructor
    · intro h; subst h; rfl
    · intro h; exact (List.length_eq_zero_iff.mp h.symm).symm
  | cons m r ih =>
    simp only [parseAll]
    constructor
    · intro h
      cases hr : resolve tbl m with
      | error e => rw [hr] at h; cases h
      | ok t =>
        rw [hr] at h
        simp only at h
        cases hp : parseMethod g t with
        | error e => rw [hp] at h; cases h
        | ok c =>
          rw [hp] at h
          simp only at h
          cases hpa : parseAll tbl g r with
          | error e => rw [hpa] at h; cases h
          | ok cs =>
            rw [hpa] at h
            injection h with h
            subst h
            obtain ⟨hl, hz⟩ := (ih cs).mp hpa
            refine ⟨by simp [hl], ?_⟩
            intro p hp'
            simp only [List.zip_cons_cons, List.mem_cons] at hp'
            rcases hp' with rfl | hp'
            · exact ⟨t, hr, hp⟩
            · exact hz p hp'
    · rintro ⟨hl, hz⟩
      cases cfgs with
      | nil => simp at hl
      | cons c cs =>
        obtain ⟨t, hr, hp⟩ := hz (m, c) (by simp)
        rw [hr]
        have := (ih cs).mpr ⟨by simpa using hl, fun p hp' => hz p (by simp [hp'])⟩
        simp only [hp, this]

theorem parseAll_error_iff (tbl : List MethodToml) (g : Bool) (ms : List MethodRef) (e : Err) :
    parseAll tbl g ms = .error e ↔
      ∃ pre m post, ms = pre ++ m :: post ∧ (∀ x ∈ pre, ∃ c, Parses tbl g x c) ∧ RefusedAt tbl g m e := by
  induction ms with
  | nil =>
    simp only [parseAll, reduceCtorEq, false_iff]
    rintro ⟨pre, m, post, h, -⟩
    simp at h
  | cons m r ih =>
    simp only [parseAll]
    constructor
    · intro h
      cases hr : resolve tbl m with
      | error e' =>
        rw [hr] at h
        injection h with h
        subst h
        exact ⟨[], m, r, rfl, by simp, Or.inl hr⟩
      | ok t =>
        rw [hr] at h
        simp only at h
        cases hp : parseMethod g t with
        | error e' =>
          rw [hp] at h
          injection h with h
          subst h
          exact ⟨[], m, r, rfl, by simp, Or.inr ⟨t, hr, hp⟩⟩
        | ok c =>
          rw [hp] at h
          simp only at h
          cases hpa : parseAll tbl g r with
          | ok cs => rw [hpa] at h; cases h
          | error e' =>
            rw [hpa] at h
            injection h with h
            subst h
            obtain ⟨pre, m', post, hms, hpre, hm'⟩ := ih.mp hpa
            refine ⟨m :: pre, m', post, by simp [hms], ?_, hm'⟩
            intro x hx
            rcases List.mem_cons.mp hx with hx | hx
            · subst hx; exact ⟨c, t, hr, hp⟩
            · exact hpre x hx
    · rintro ⟨pre, m', post, hms, hpre, hm'⟩
      cases pre with
      | nil =>
        simp only [List.nil_append, List.cons.injEq] at hms
        obtain ⟨rfl, rfl⟩ := hms
        rcases hm' with hr | ⟨t, hr, hp⟩
        · rw [hr]
        · rw [hr]; simp only [hp]
      | cons x pre' =>
        simp only [List.cons_append, List.cons.injEq] at hms
        obtain ⟨rfl, hr'⟩ := hms
        obtain ⟨c, t, hr, hp⟩ := hpre m List.mem_cons_self
        rw [hr]
        simp only [hp]
        have := ih.mpr ⟨pre', m', post, hr', fun y hy => hpre y (List.mem_cons_of_mem _ hy), hm'⟩
        rw [this]

theorem RefusedAt_cases (tbl : List MethodToml) (g : Bool) (m : MethodRef) (e : Err) (h : RefusedAt tbl g m e) :
    (e = .unknownMethod ∧ ∃ n, m = .builtin n ∧ n ∉ tbl.map (·.name)) ∨
    ∃ t, resolve tbl m = .ok t ∧ parseMethod g t = .error e := by
  rcases h with h | h
  · left
    cases m with
    | builtin n =>
      obtain ⟨h1, h2⟩ := (findMethod_error_iff tbl n e).mp h
      exact ⟨h1, n, rfl, h2⟩
    | custom t => cases h
  · exact Or.inr h

theorem parseMethod_ne_unknownMethod (g : Bool) (t : MethodToml) : parseMethod g t ≠ .error .unknownMethod := by
  intro h
  have := parseMethod_error_cases g t _ h
  simp at this

/-- what `runLoop` returns: every method up to the first refusal has a `table`/`skipped` entry, the
    refusal ends the list -/
theorem runLoop_spec (s : Supplied) (cfgs : List Cfg) :
    ((∀ x ∈ cfgs, runMethod s x = .ok () ∨ runMethod s x = .error .missingInput) ∧
      runLoop s cfgs =
        cfgs.map (fun x => match runMethod s x with | .ok () => Outcome.table | .error _ => Outcome.skipped)) ∨
    (∃ pre c post e, cfgs = pre ++ c :: post ∧
      (∀ x ∈ pre, runMethod s x = .ok () ∨ runMethod s x = .error .missingInput) ∧
      runMethod s c = .error e ∧ e ≠ .missingInput ∧
      runLoop s cfgs =
        pre.map (fun x => match runMethod s x with | .ok () => Outcome.table | .error _ => Outcome.skipped)
          ++ [.abort e]) := by
  induction cfgs with
  | nil => left; exact ⟨by simp, rfl⟩
  | cons c r ih =>
    cases hc : runMethod s c with
    | ok u =>
      rcases ih with ⟨h1, h2⟩ | ⟨pre, c', post, e, h1, h2, h3, h4, h5⟩
      · left
        refine ⟨?_, ?_⟩
        · intro x hx
          rcases List.mem_cons.mp hx with hx | hx
          · subst hx; exact Or.inl hc
          · exact h1 x hx
        · simp only [runLoop, hc, h2, List.map_cons]
      · right
        refine ⟨c :: pre, c', post, e, by simp [h1], ?_, h3, h4, ?_⟩
        · intro x hx
          rcases List.mem_cons.mp hx with hx | hx
          · subst hx; exact Or.inl hc
          · exact h2 x hx
        · simp only [runLoop, hc, h5, List.map_cons, List.cons_append]
    | error e =>
      by_cases he : e = .missingInput
      · subst he
        rcases ih with ⟨h1, h2⟩ | ⟨pre, c', post, e, h1, h2, h3, h4, h5⟩
        · left
          refine ⟨?_, ?_⟩
          · intro x hx
            rcases List.mem_cons.mp hx with hx | hx
            · subst hx; exact Or.inr hc
            · exact h1 x hx
          · simp only [runLoop, hc, h2, List.map_cons]
        · right
          refine ⟨c :: pre, c', post, e, by simp [h1], ?_, h3, h4, ?_⟩
          · intro x hx
            rcases List.mem_cons.mp hx with hx | hx
            · subst hx; exact Or.inr hc
            · exact h2 x hx
          · simp only [runLoop, hc, h5, List.map_cons, List.cons_append]
      · right
        refine ⟨[], c, r, e, rfl, by simp, hc, he, ?_⟩
        cases e <;> first | exact absurd rfl he | simp [runLoop, hc]


theorem runLoop_map_irrelevant (s : Supplied) (b : Bool) (cfgs : List Cfg) :
    runLoop { s with map := b } cfgs = runLoop s cfgs := by
  induction cfgs with
  | nil => rfl
  | cons c r ih =>
    have : runMethod { s with map := b } c = runMethod s c := by
      unfold runMethod
      have : ({ s with map := b } : Supplied).has c.input = s.has c.input := by
        cases c.input <;> rfl
      rw [this]
    simp only [runLoop, this, ih]

end PgFdr.C18
