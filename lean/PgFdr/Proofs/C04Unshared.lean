import PgFdr.Proofs.C04
import PgFdr.Props.C03
import PgFdr.Proofs.C05
import PgFdr.Proofs.C02
import PgFdr.Proofs.C07

/-!
Helper lemmas for the last sentence of C04 on the composed pipeline model (`Model/Pipeline.lean`):
"When no peptide is shared between proteins the rescue pass reports exactly the groups, scores and
q-values that plain subset grouping reports."

Layers
  1. `Unshared`: subset grouping of a list without shared peptides consists of singletons; the rescue
     stage merges nothing and returns a rearrangement of the first-pass groups.
  2. the evidence a pass collects for a group of a partition is a function of the group's members
     (`evOf`), so the items handed to a competition are `groups.map (mkItem …)`.
  3. a competition on a rearranged item list, with the first-pass placeholders added, ranks the same
     list when the scores of the groups with evidence are pairwise distinct (`pass_filter`,
     `twin_rejected`).
  4. unfolding `Pipeline.run` for the two runs (`passFacts`, `runFacts_plain`, `runFacts_rescue`,
     `unsharedRuns`) and the comparison of the rankings (`unshared_ranking_eq`).
  5. the reported rows (`rowCore`, `unshared_rows`).
  6. tied scores (`unshared_classic_perm`, `exists_shuffle`, `unshared_ties`).
  7. evaluation lemmas for concrete inputs whose recorded shuffles leave the lists sorted, and a worked
     example (`demo_run`, `demo_runS`) used by the non-vacuity examples of `Props/C04.lean` / `Props/C10.lean`.

This file must stay importable from `Props/C04.lean` (it imports no `Props/C04`).
-/
namespace PgFdr.C04

/-- "no peptide is shared between proteins": no peptide lists two different proteins (a protein listed
    repeatedly for one peptide is allowed) -/
def Unshared (pil : List PepInfo) : Prop := ∀ x ∈ pil, ∀ p ∈ x.proteins, ∀ q ∈ x.proteins, p = q

theorem Unshared.sublist {l l' : List PepInfo} (h : Unshared l') (hs : l.Sublist l') : Unshared l :=
  fun x hx => h x (hs.subset hx)

/-! ### 1. grouping -/

theorem toPairs_keys (pil : List PepInfo) : ((C03.toPairs pil).map (·.1)) = pil.map (·.peptide) := by
  unfold C03.toPairs; rw [List.map_map]; rfl

/-- subset grouping of a list without shared peptides: every group is a singleton -/
theorem subset_singletons (pil : List PepInfo) (hkeys : (pil.map (·.peptide)).Nodup) (hun : Unshared pil) :
    ∀ g ∈ C03.subsetGrouping pil, ∃ p, g = [p] := by
  intro g hg
  have hk : ((C03.toPairs pil).map (·.1)).Nodup := by rw [toPairs_keys]; exact hkeys
  obtain ⟨hne, hnd, hmem⟩ := C03.subset_partition (C03.toPairs pil) hk
  cases hgc : g with
  | nil => exact absurd hgc (hne g hg)
  | cons r t =>
    refine ⟨r, ?_⟩
    have hall : ∀ x ∈ g, x = r := by
      intro x hx
      have hxf : x ∈ (C03.subsetGroups (C03.toPairs pil)).flatten := List.mem_flatten.mpr ⟨g, hg, hx⟩
      obtain ⟨e, he, hxe⟩ := (hmem x).mp hxf
      have hre := C03.subset_leader_contains (C03.toPairs pil) hk g hg r (by rw [hgc]; rfl) x hx e he hxe
      obtain ⟨y, hy, rfl⟩ := List.mem_map.mp he
      exact hun y hy x hxe r hre
    have hgn : g.Nodup := (List.nodup_flatten.mp hnd).1 g hg
    rw [hgc] at hall hgn
    cases t with
    | nil => rfl
    | cons a t' =>
      have : a = r := hall a (by simp)
      subst this
      simp at hgn

/-- the groups of the subset grouping are a partition of the listed proteins (restated for `PepInfo`) -/
theorem subsetGrouping_partition (pil : List PepInfo) (hkeys : (pil.map (·.peptide)).Nodup) :
    (∀ g ∈ C03.subsetGrouping pil, g ≠ []) ∧ (C03.subsetGrouping pil).flatten.Nodup ∧
    (∀ p, p ∈ (C03.subsetGrouping pil).flatten ↔ ∃ x ∈ pil, p ∈ x.proteins) := by
  have hk : ((C03.toPairs pil).map (·.1)).Nodup := by rw [toPairs_keys]; exact hkeys
  obtain ⟨hne, hnd, hmem⟩ := C03.subset_partition (C03.toPairs pil) hk
  refine ⟨hne, hnd, fun p => ?_⟩
  rw [show C03.subsetGrouping pil = C03.subsetGroups (C03.toPairs pil) from rfl, hmem p]
  unfold C03.toPairs
  constructor
  · rintro ⟨e, he, hp⟩
    obtain ⟨y, hy, rfl⟩ := List.mem_map.mp he
    exact ⟨y, hy, hp⟩
  · rintro ⟨y, hy, hp⟩
    exact ⟨_, List.mem_map.mpr ⟨y, hy, rfl⟩, hp⟩

theorem subsetOf_eq (f : List PepInfo) : subsetOf f = C03.subsetGrouping f := rfl

theorem filterByCutoff_sublist (pil : List PepInfo) (c : Rat) : (filterByCutoff pil c).Sublist pil :=
  List.filter_sublist

/-- a list of singletons is determined by its concatenation -/
theorem singletons_eq_map (G : Groups) (h : ∀ g ∈ G, ∃ p, g = [p]) : G = G.flatten.map (fun p => [p]) := by
  induction G with
  | nil => rfl
  | cons g G ih =>
    obtain ⟨p, rfl⟩ := h g (by simp)
    rw [List.flatten_cons, List.singleton_append, List.map_cons, ← ih (fun g hg => h g (by simp [hg]))]

theorem singletons_perm (G G' : Groups) (h : ∀ g ∈ G, ∃ p, g = [p]) (h' : ∀ g ∈ G', ∃ p, g = [p])
    (hp : G.flatten.Perm G'.flatten) : G.Perm G' := by
  rw [singletons_eq_map G h, singletons_eq_map G' h']
  exact hp.map _

/-- the rescue stage on a list without shared peptides (`N` = subset grouping of the filtered list):
    nothing is merged -/
theorem rescue_unshared {ι : Type} (old : List (List String × ι)) (pil : List PepInfo) (cutoff : Rat)
    (cuts : CutMap) (hkeys : (pil.map (·.peptide)).Nodup) (hun : Unshared pil) :
    ∃ out, rescueGroups old pil cutoff cuts = .ok out ∧
      out.rescued = subsetOf (filterByCutoff pil cutoff) ∧
      out.groups = merged (subsetOf (filterByCutoff pil cutoff)) (old.map (·.1)) ∧
      out.obsolete = (absorbed (subsetOf (filterByCutoff pil cutoff)) old).map (fun g => g.1.map obsoleteName) ∧
      out.obsoleteInfos = (absorbed (subsetOf (filterByCutoff pil cutoff)) old).map (·.2) := by
  set f := filterByCutoff pil cutoff with hf
  set N := subsetOf f with hNdef
  have hfk : (f.map (·.peptide)).Nodup := ((filterByCutoff_sublist pil cutoff).map _).nodup hkeys
  have hfu : Unshared f := hun.sublist (filterByCutoff_sublist pil cutoff)
  obtain ⟨hne, hN, hmem⟩ := subsetGrouping_partition f hfk
  have hsing := subset_singletons f hfk hfu
  have hnodes : protNodes N f = [] := by
    rw [List.eq_nil_iff_forall_not_mem]
    intro h hm
    obtain ⟨j, g, hj, _, hnid⟩ := (mem_protNodes N _ h).mp hm
    have hgN : g ∈ N := List.mem_of_getElem? hj
    obtain ⟨p, rfl⟩ := hsing g hgN
    obtain ⟨x, hx, hpx⟩ := (hmem p).mp (List.mem_flatten.mpr ⟨[p], hgN, by simp⟩)
    apply hnid
    rw [mem_identifiedIdxs]
    refine ⟨x, hx, uniqueIdx_of_all_in N hN j [p] x hj (List.ne_nil_of_mem hpx) ?_⟩
    intro q hq
    rw [hfu x hx q hq p hpx]; simp
  have hleaves : leaves N f cuts = .ok [] := by
    unfold leaves
    have he : edges N f = [] := by unfold edges; rw [hnodes]; rfl
    have ha : allNodes N f = [] := by unfold allNodes; rw [hnodes, he]; rfl
    simp only [ha]
    rfl
  have hdrop : dropEmpty N = N := by
    unfold dropEmpty
    rw [List.filter_eq_self]
    intro g hg
    cases g with
    | nil => exact absurd rfl (hne [] hg)
    | cons a t => rfl
  unfold rescueGroups rescueGroupsWith rescueGroupsN mergeWithRescued rescuedGroups
  rw [← hf, ← hNdef, hleaves]
  simp only [applyLeaves, List.foldl_nil, hdrop]
  exact ⟨_, rfl, rfl, rfl, rfl, rfl⟩


/-! ### 2. the evidence of a group of a partition is a function of its members -/

theorem flatten_nodup_disj {G : Groups} (h : G.flatten.Nodup) {i j : Nat} {g g' : List String}
    (hi : G[i]? = some g) (hj : G[j]? = some g') (hij : i ≠ j) : ∀ p ∈ g, p ∉ g' := by
  have hpw := (List.nodup_flatten.mp h).2
  rw [List.pairwise_iff_getElem] at hpw
  obtain ⟨hil, rfl⟩ := List.getElem?_eq_some_iff.mp hi
  obtain ⟨hjl, rfl⟩ := List.getElem?_eq_some_iff.mp hj
  intro p hp hp'
  rcases Nat.lt_or_gt_of_ne hij with h1 | h1
  · exact hpw i j hil hjl h1 hp hp'
  · exact hpw j i hjl hil h1 hp' hp

theorem idxOf5_iff_mem {G : Groups} (h : G.flatten.Nodup) {i : Nat} {g : List String} (hi : G[i]? = some g)
    (p : String) : C05.idxOf G p = some i ↔ p ∈ g := by
  rw [C05.idxOf_some_iff]
  constructor
  · rintro ⟨⟨g', hg', hp⟩, _⟩
    rw [hi] at hg'; cases hg'; exact hp
  · intro hp
    refine ⟨⟨g, hi, hp⟩, ?_⟩
    intro m hm g' hg'
    exact flatten_nodup_disj h hi hg' (by omega) p hp

/-- the evidence tuple peptide `x` contributes to a group with members `g` (in a partition): its
    (razor-filtered) proteins are all members -/
def evOne (rz : Option C05.Razor) (g : List String) (x : PepInfo) : Option Evidence :=
  match C05.filterProteins rz x.proteins with
  | .error _ => none
  | .ok prots => if prots ≠ [] ∧ ∀ p ∈ prots, p ∈ g then some ⟨x.pep, x.peptide, prots⟩ else none

/-- the evidence list of a group with members `g`, in peptide-list order -/
def evOf (rz : Option C05.Razor) (pil : List PepInfo) (g : List String) : List Evidence :=
  pil.filterMap (evOne rz g)

theorem evFor_eq_evOne {G : Groups} (h : G.flatten.Nodup) (rz : Option C05.Razor) {i : Nat} {g : List String}
    (hi : G[i]? = some g) (x : PepInfo) : C05.evFor G rz i x = evOne rz g x := by
  unfold C05.evFor C05.assign evOne
  cases hf : C05.filterProteins rz x.proteins with
  | error e => rfl
  | ok prots =>
    simp only
    have key : C05.supportOf G prots = some i ↔ prots ≠ [] ∧ ∀ p ∈ prots, p ∈ g := by
      rw [C05.supportOf_eq_some]
      constructor
      · rintro ⟨h1, h2⟩; exact ⟨h1, fun p hp => (idxOf5_iff_mem h hi p).mp (h2 p hp)⟩
      · rintro ⟨h1, h2⟩; exact ⟨h1, fun p hp => (idxOf5_iff_mem h hi p).mpr (h2 p hp)⟩
    cases hs : C05.supportOf G prots with
    | none =>
      have : ¬ (prots ≠ [] ∧ ∀ p ∈ prots, p ∈ g) := fun hc => by
        have := key.mpr hc; rw [hs] at this; cases this
      simp only [this, if_false]
    | some j =>
      simp only
      by_cases hji : j = i
      · subst hji
        rw [if_pos rfl, if_pos (key.mp hs)]
      · rw [if_neg hji]
        have : ¬ (prots ≠ [] ∧ ∀ p ∈ prots, p ∈ g) := fun hc => by
          have := key.mpr hc; rw [hs] at this; exact hji (Option.some.inj this)
        rw [if_neg this]

/-- whenever the evidence collection succeeds on a partition, position `i` holds `evOf` of group `i` -/
theorem collect_evOf (G : Groups) (pil : List PepInfo) (rz : Option C05.Razor) (s : Bool)
    (evs : List (List Evidence)) (peps : List Rat) (hnd : G.flatten.Nodup)
    (h : C05.collectEvidence G pil rz s = .ok (evs, peps)) : evs = G.map (evOf rz pil) := by
  obtain ⟨hlen, hget, _⟩ := C05.collect_get G pil rz s evs peps h
  apply List.ext_getElem?
  intro i
  by_cases hi : i < G.length
  · rw [hget i hi, List.getElem?_map, List.getElem?_eq_getElem hi]
    simp only [Option.map_some, Option.some.injEq]
    unfold evOf
    apply List.filterMap_congr
    intro x _
    exact evFor_eq_evOne hnd rz (List.getElem?_eq_getElem hi) x
  · rw [List.getElem?_eq_none (by omega), List.getElem?_eq_none (by simp; omega)]

theorem evOf_spec (rz : Option C05.Razor) (pil : List PepInfo) (g : List String) (e : Evidence)
    (he : e ∈ evOf rz pil g) : e.proteins ≠ [] ∧ ∀ p ∈ e.proteins, p ∈ g := by
  unfold evOf at he
  obtain ⟨x, _, hx⟩ := List.mem_filterMap.mp he
  unfold evOne at hx
  cases hf : C05.filterProteins rz x.proteins with
  | error e' => rw [hf] at hx; cases hx
  | ok prots =>
    rw [hf] at hx
    simp only at hx
    split at hx
    · rename_i hc
      cases hx; exact hc
    · cases hx

/-- a member listed by a peptide of the list gives the group evidence, when no peptide is shared -/
theorem evOf_ne_nil (rz : Option C05.Razor) (pil : List PepInfo) (hun : Unshared pil) (g : List String)
    (p : String) (hp : p ∈ g) (x : PepInfo) (hx : x ∈ pil) (hpx : p ∈ x.proteins) : evOf rz pil g ≠ [] := by
  have hall : ∀ q ∈ x.proteins, q = p := fun q hq => hun x hx q hq p hpx
  have hsome : ∃ e, evOne rz g x = some e := by
    unfold evOne
    cases rz with
    | none =>
      simp only [C05.filterProteins]
      refine ⟨_, if_pos ⟨List.ne_nil_of_mem hpx, fun q hq => by rw [hall q hq]; exact hp⟩⟩
    | some r =>
      simp only [C05.filterProteins]
      obtain ⟨w, hw⟩ := C05.razorPick_isSome r x.proteins (List.ne_nil_of_mem hpx)
      have hwm : w ∈ x.proteins := by
        unfold C05.razorPick at hw
        cases hxp : x.proteins with
        | nil => rw [hxp] at hw; cases hw
        | cons a t =>
          rw [hxp] at hw
          simp only [Option.some.injEq] at hw
          rw [hxp] at hall
          have hfold : ∀ (l : List String) (b : String), b = p → (∀ q ∈ l, q = p) →
              l.foldl (fun b q => if C05.candLt (C05.cand r b) (C05.cand r q) then q else b) b = p := by
            intro l
            induction l with
            | nil => intro b hb _; exact hb
            | cons c l ih =>
              intro b hb hl
              simp only [List.foldl_cons]
              apply ih
              · split
                · exact hl c (by simp)
                · exact hb
              · intro q hq; exact hl q (by simp [hq])
          rw [hfold t a (hall a (by simp)) (fun q hq => hall q (by simp [hq]))] at hw
          subst hw
          rw [← hxp]; exact hpx
      rw [hw]
      refine ⟨_, if_pos ⟨by simp, fun q hq => ?_⟩⟩
      simp only [List.mem_singleton] at hq
      subst hq
      rw [hall q hwm]; exact hp
  obtain ⟨e, he⟩ := hsome
  have : e ∈ evOf rz pil g := List.mem_filterMap.mpr ⟨x, hx, he⟩
  exact List.ne_nil_of_mem this

/-! ### items handed to a competition -/

/-- the item of a group: its members, its evidence and the score `sc` gives that evidence -/
def mkItem (sc : List Evidence → Rat) (rz : Option C05.Razor) (pil : List PepInfo) (g : List String) : C02.Item :=
  ⟨g, evOf rz pil g, sc (evOf rz pil g)⟩

/-- the item of a placeholder: renamed group, the evidence recorded for the absorbed group -/
def mkExtra (sc : List Evidence → Rat) (ge : List String × List Evidence) : C02.Item := ⟨ge.1, ge.2, sc ge.2⟩

theorem zipItems_extra (sc : List Evidence → Rat) : ∀ (X : List (List String × List Evidence)),
    Pipeline.zipItems (X.map (·.1)) (X.map (·.2)) ((X.map (·.2)).map sc) = X.map (mkExtra sc) := by
  intro X
  induction X with
  | nil => rfl
  | cons a X ih => simp only [List.map_cons, Pipeline.zipItems, ih]; rfl

theorem zipItems_mk (sc : List Evidence → Rat) (f : List String → List Evidence)
    (X : List (List String × List Evidence)) : ∀ (G : Groups),
    Pipeline.zipItems (G ++ X.map (·.1)) (G.map f ++ X.map (·.2)) ((G.map f ++ X.map (·.2)).map sc) =
      G.map (fun g => ⟨g, f g, sc (f g)⟩) ++ X.map (mkExtra sc) := by
  intro G
  induction G with
  | nil => simpa using zipItems_extra sc X
  | cons g G ih =>
    simp only [List.cons_append, List.map_cons, Pipeline.zipItems]
    rw [ih]


/-! ### 3. the competition on a rearranged item list with twins -/

section Generic
variable {G K : Type} [DecidableEq K]
open C02

theorem seenAfter_cons (st : Strategy G K) (contam : G → Bool) (seen : List K) (x : G) (pre : List G) :
    seenAfter st contam seen (x :: pre) =
      if (isSeen seen (st.key x) || contam x) = true then seenAfter st contam seen pre
      else seenAfter st contam (seen ++ st.marks x) pre := by
  by_cases hd : (isSeen seen (st.key x) || contam x) = true
  · rw [if_pos hd]; simp [seenAfter, pass, hd]
  · rw [if_neg hd]; simp [seenAfter, pass, hd, List.append_assoc]

/-- groups that the pass rejects where they stand can be dropped from the list beforehand -/
theorem pass_filter (st : Strategy G K) (contam : G → Bool) (keep : G → Bool) : ∀ (l : List G) (seen : List K),
    (∀ pre b post, l = pre ++ b :: post → keep b = false →
      (isSeen (seenAfter st contam seen pre) (st.key b) || contam b) = true) →
    pass st contam seen l = pass st contam seen (l.filter keep) := by
  intro l
  induction l with
  | nil => intro _ _; rfl
  | cons x l ih =>
    intro seen H
    by_cases hd : (isSeen seen (st.key x) || contam x) = true
    · have hrest : pass st contam seen l = pass st contam seen (l.filter keep) := by
        apply ih
        intro pre b post hl hk
        have := H (x :: pre) b post (by rw [hl]; rfl) hk
        rwa [seenAfter_cons, if_pos hd] at this
      cases hk : keep x with
      | false => simp only [pass, hd, if_true, List.filter_cons, hk, Bool.false_eq_true, if_false]; exact hrest
      | true => simp only [pass, hd, if_true, List.filter_cons, hk]; exact hrest
    · have hkx : keep x = true := by
        by_contra hk
        have hk' : keep x = false := by simpa using hk
        have := H [] x l rfl hk'
        simp only [seenAfter, pass, List.flatMap_nil, List.append_nil] at this
        exact hd this
      have hrest : pass st contam (seen ++ st.marks x) l = pass st contam (seen ++ st.marks x) (l.filter keep) := by
        apply ih
        intro pre b post hl hk
        have := H (x :: pre) b post (by rw [hl]; rfl) hk
        rwa [seenAfter_cons, if_neg hd] at this
      simp only [pass, hd, if_false, List.filter_cons, hkx, if_true, Bool.false_eq_true]
      rw [hrest]

theorem isSeen_of_mem (seen ks : List K) (k : K) (hk : k ∈ ks) (hs : k ∈ seen) : isSeen seen ks = true := by
  simp only [isSeen, List.any_eq_true, decide_eq_true_eq]
  exact ⟨k, hk, hs⟩

/-- a group standing after a twin (same looked-up identifiers, contaminant alike, one of its identifiers
    among the twin's marks) is rejected -/
theorem twin_rejected (st : Strategy G K) (contam : G → Bool) (seen : List K) (pre : List G) (a b : G)
    (ha : a ∈ pre) (hkey : st.key b = st.key a) (hcon : contam b = contam a)
    (hmark : ∃ k ∈ st.key b, k ∈ st.marks a) :
    (isSeen (seenAfter st contam seen pre) (st.key b) || contam b) = true := by
  cases hc : contam a with
  | true => rw [hcon, hc]; simp
  | false =>
    rw [Bool.or_eq_true]; left
    by_cases hin : a ∈ pass st contam seen pre
    · obtain ⟨k, hk, hkm⟩ := hmark
      apply isSeen_of_mem _ _ k hk
      simp only [seenAfter, List.mem_append, List.mem_flatMap]
      exact Or.inr ⟨a, hin, hkm⟩
    · obtain ⟨p1, p2, hsplit, k, hk, hks⟩ := removed_justified st contam pre a seen ha hin hc
      rw [hkey]
      apply isSeen_of_mem _ _ k hk
      simp only [seenAfter, List.mem_append, List.mem_flatMap]
      rcases hks with h | ⟨s, hs, hkm⟩
      · exact Or.inl h
      · refine Or.inr ⟨s, ?_, hkm⟩
        rw [hsplit, pass_append]
        exact List.mem_append_left _ hs

end Generic

open C02 in
theorem le1_antisymm_of_nodup (R : List Item) (hd : (R.map (·.score)).Nodup) (a b : Item) (ha : a ∈ R) (hb : b ∈ R)
    (h1 : le1 a b = true) (h2 : le1 b a = true) : a = b := by
  have hs : a.score = b.score := by
    rw [le1_iff] at h1 h2
    rcases h1 with h1 | ⟨h1, _⟩
    · rcases h2 with h2 | ⟨h2, _⟩
      · exact absurd h1 (not_lt.mpr (le_of_lt h2))
      · exact h2.symm
    · exact h1
  exact List.inj_on_of_nodup_map hd ha hb hs

open C02 in
theorem le2_antisymm_of_nodup (R : List Item) (hd : (R.map (·.score)).Nodup) (a b : Item) (ha : a ∈ R) (hb : b ∈ R)
    (h1 : le2 a b = true) (h2 : le2 b a = true) : a = b := by
  have hs : a.score = b.score := by
    simp only [le2, decide_eq_true_eq] at h1 h2
    exact le_antisymm h2 h1
  exact List.inj_on_of_nodup_map hd ha hb hs

open C02 in
/-- the core of the comparison: two pass lists, one a rearrangement of the regular items `R`, the other a
    rearrangement of `R` plus twins `P` (each of which sorts after a regular twin), give the same accepted
    groups when the scores of `R` are pairwise distinct -/
theorem kept_eq_of_twins (mode : Mode) (R P L2 LS : List Item) (keep : Item → Bool)
    (h2 : L2.Perm (R ++ P)) (hS : LS.Perm R)
    (hdist : (R.map (·.score)).Nodup)
    (hR : ∀ r ∈ R, keep r = true)
    (hP : ∀ b ∈ P, keep b = false ∧ ∃ a ∈ R, le1 b a = false ∧
      (strategy mode).key b = (strategy mode).key a ∧ contam b = contam a ∧
      ∃ k ∈ (strategy mode).key b, k ∈ (strategy mode).marks a) :
    pass (strategy mode) contam [] (L2.mergeSort le1) = pass (strategy mode) contam [] (LS.mergeSort le1) := by
  have hs2 : (L2.mergeSort le1).Pairwise (fun a b => le1 a b = true) :=
    List.pairwise_mergeSort (le := le1) le1_trans le1_total _
  have hsS : (LS.mergeSort le1).Pairwise (fun a b => le1 a b = true) :=
    List.pairwise_mergeSort (le := le1) le1_trans le1_total _
  have hp2 : (L2.mergeSort le1).Perm (R ++ P) := (List.mergeSort_perm _ _).trans h2
  have hpS : (LS.mergeSort le1).Perm R := (List.mergeSort_perm _ _).trans hS
  -- dropping the twins
  rw [pass_filter (strategy mode) contam keep (L2.mergeSort le1) []]
  · congr 1
    have hfp : ((L2.mergeSort le1).filter keep).Perm R := by
      refine (hp2.filter keep).trans ?_
      rw [List.filter_append]
      have h1 : R.filter keep = R := List.filter_eq_self.mpr hR
      have h2' : P.filter keep = [] := by
        rw [List.filter_eq_nil_iff]
        intro b hb; rw [(hP b hb).1]; simp
      rw [h1, h2', List.append_nil]
    refine List.Perm.eq_of_pairwise (le := fun a b => le1 a b = true) ?_ (hs2.sublist List.filter_sublist) hsS
      (hfp.trans hpS.symm)
    intro a b ha hb hab hba
    exact le1_antisymm_of_nodup R hdist a b (hfp.subset ha) (hpS.subset hb) hab hba
  · intro pre b post hsplit hk
    have hbm : b ∈ R ++ P := hp2.subset (by rw [hsplit]; simp)
    have hbP : b ∈ P := by
      rcases List.mem_append.mp hbm with h | h
      · rw [hR b h] at hk; cases hk
      · exact h
    obtain ⟨_, a, haR, hle, hkey, hcon, hmark⟩ := hP b hbP
    have ham : a ∈ L2.mergeSort le1 := hp2.symm.subset (List.mem_append_left _ haR)
    have hapre : a ∈ pre := by
      rw [hsplit] at ham hs2
      rcases List.mem_append.mp ham with h | h
      · exact h
      · rcases List.mem_cons.mp h with rfl | h
        · rw [hR a haR] at hk; cases hk
        · have := (List.pairwise_append.mp hs2).2.1
          have := List.rel_of_pairwise_cons this h
          rw [hle] at this; cases this
    exact twin_rejected (strategy mode) contam [] pre a b hapre hkey hcon hmark


/-! ### placeholders: `OBSOLETE__p` is a twin of `p` -/

theorem toList_obsoleteName (q : String) :
    (obsoleteName q).toList = ['O','B','S','O','L','E','T','E','_','_'] ++ q.toList := by
  unfold obsoleteName
  rw [String.toList_append]
  rfl

theorem contam_obsoleteName (q : String) : strContains (obsoleteName q) "CON__" = strContains q "CON__" := by
  unfold strContains
  rw [toList_obsoleteName]
  have : "CON__".toList = ['C','O','N','_','_'] := rfl
  rw [this]
  simp [containsSub, List.isPrefixOf]

theorem replace_rev_obs (s : List Char) :
    replaceAll ['R','E','V','_','_'] [] (['O','B','S','O','L','E','T','E','_','_'] ++ s) =
      ['O','B','S','O','L','E','T','E','_','_'] ++ replaceAll ['R','E','V','_','_'] [] s := by
  simp [replaceAll, replaceAux, List.isPrefixOf]

theorem replace_obs_obs (s : List Char) :
    replaceAll ['O','B','S','O','L','E','T','E','_','_'] [] (['O','B','S','O','L','E','T','E','_','_'] ++ s) =
      replaceAll ['O','B','S','O','L','E','T','E','_','_'] [] s := by
  simp [replaceAll, replaceAux, List.isPrefixOf]

/-- the identifier comparison of the picked-group competition does not see the placeholder prefix -/
theorem clean_obsoleteName (q : String) : cleanProteinId (obsoleteName q) = cleanProteinId q := by
  unfold cleanProteinId strReplace
  simp only [String.toList_ofList]
  rw [toList_obsoleteName]
  have h1 : "REV__".toList = ['R','E','V','_','_'] := rfl
  have h2 : "OBSOLETE__".toList = ['O','B','S','O','L','E','T','E','_','_'] := rfl
  have h3 : "".toList = [] := rfl
  rw [h1, h2, h3, replace_rev_obs, replace_obs_obs]

section Comp
open C02

theorem eraseDups_all_eq (q : String) : ∀ l : List String, l ≠ [] → (∀ p ∈ l, p = q) → l.eraseDups = [q] := by
  intro l hne hall
  cases l with
  | nil => exact absurd rfl hne
  | cons a t =>
    have ha : a = q := hall a (by simp)
    subst ha
    rw [List.eraseDups_cons]
    have : t.filter (fun b => !b == a) = [] := by
      rw [List.filter_eq_nil_iff]
      intro b hb
      simp [hall b (by simp [hb])]
    rw [this]; rfl

theorem mem_evInsert (a x : Evidence) : ∀ l : List Evidence, x ∈ evInsert a l → x = a ∨ x ∈ l := by
  intro l
  induction l with
  | nil => intro h; simpa [evInsert] using h
  | cons b l ih =>
    intro h
    simp only [evInsert] at h
    split at h
    · rcases List.mem_cons.mp h with rfl | h
      · exact Or.inr (by simp)
      · rcases ih h with h | h
        · exact Or.inl h
        · exact Or.inr (by simp [h])
    · rcases List.mem_cons.mp h with rfl | h
      · exact Or.inl rfl
      · exact Or.inr h

theorem mem_evSort (x : Evidence) : ∀ l : List Evidence, x ∈ evSort l → x ∈ l := by
  intro l
  induction l with
  | nil => intro h; simp [evSort] at h
  | cons a l ih =>
    intro h
    simp only [evSort] at h
    rcases mem_evInsert a x _ h with rfl | h
    · simp
    · simp [ih h]

theorem countLoop_single (q : String) : ∀ (l : List Evidence) (seen : List String) (counts : List (String × Nat)),
    (counts = [] ∨ ∃ n, counts = [(q, n)]) →
    (∀ e ∈ l, e.proteins ≠ [] ∧ ∀ p ∈ e.proteins, p = q) →
    (countLoop seen counts l = [] ∨ ∃ n, countLoop seen counts l = [(q, n)]) := by
  intro l
  induction l with
  | nil => intro seen counts hc _; simpa [countLoop] using hc
  | cons e l ih =>
    intro seen counts hc hl
    simp only [countLoop]
    split
    · exact ih _ _ hc (fun e' he' => hl e' (by simp [he']))
    · apply ih _ _ _ (fun e' he' => hl e' (by simp [he']))
      rw [eraseDups_all_eq q e.proteins (hl e (by simp)).1 (hl e (by simp)).2]
      right
      rcases hc with rfl | ⟨n, rfl⟩
      · exact ⟨1, rfl⟩
      · exact ⟨n + 1, by simp [bump]⟩

theorem mem_select_singleton (pk : Picking) (q : String) (ev : List Evidence) (s : Rat)
    (hev : ∀ e ∈ ev, e.proteins ≠ [] ∧ ∀ p ∈ e.proteins, p = q) : q ∈ select pk ⟨[q], ev, s⟩ := by
  have hc : peptideCounts pickCutoff ev = [] ∨ ∃ n, peptideCounts pickCutoff ev = [(q, n)] :=
    countLoop_single q ((evSort ev).takeWhile (fun e => !decide (pickCutoff < e.pep))) [] [] (Or.inl rfl)
      (fun e he => hev e (mem_evSort e ev (List.takeWhile_sublist _ |>.subset he)))
  cases pk with
  | all => simp [select]
  | majority =>
    simp only [select, majority, List.mem_filter, List.mem_singleton, true_and, decide_eq_true_eq]
    rcases hc with h | ⟨n, h⟩ <;> simp only [h] <;> simp [maxCount, countOf, List.lookup]
    omega
  | leading =>
    simp only [select, leading, List.mem_filter, List.mem_singleton, true_and, beq_iff_eq]
    rcases hc with h | ⟨n, h⟩ <;> simp only [h] <;> simp [maxCount, countOf, List.lookup]


/-! ### 4. unfolding the composed model -/

open Pipeline in
/-- what a successful pass of the composed model establishes -/
structure PassFacts (cfg : Pipeline.Config) (inp : Pipeline.Input) (p : Pipeline.PassOut) (rs : Bool)
    (gs : Groups) (extra : List (List String × List Evidence)) (scores : List Rat) (π₁ π₂ : List Nat) : Prop where
  groups : p.groups = gs
  collect : C05.collectEvidence gs inp.pil (razorOf cfg inp) rs = .ok (p.infos, p.pepList)
  pepCutoff : p.pepCutoff = C17.cutoff (p.pepList.map C17.PepVal.fin) inp.psm
  compGroups : p.compGroups = gs ++ extra.map (·.1)
  compInfos : p.compInfos = p.infos ++ extra.map (·.2)
  shuffles : ShufflesOK cfg.mode (zipItems p.compGroups p.compInfos scores) π₁ π₂
  ranking : p.ranking = doCompetition cfg.mode (zipItems p.compGroups p.compInfos scores) π₁ π₂
  fdrs : C01.calcProteinFdrs (p.ranking.map (·.group)) (p.ranking.map (·.score)) = .ok (p.fdrs, p.qvals)
  rows : C06.fromProteinGroups (p.ranking.map (·.group)) (p.ranking.map (·.evidence))
      (p.ranking.map (·.score)) p.qvals (if rs then some p.pepCutoff else none) inp.keepAll = .ok p.rows

open Pipeline in
theorem passFacts (cfg : Config) (inp : Input) (groups : Groups)
    (extra : List (List String × List Evidence)) (rs : Bool) (scores : List Rat) (π₁ π₂ : List Nat)
    (p : PassOut) (s : List String)
    (h : runPassFrom cfg inp [] groups extra rs scores π₁ π₂ = .ok (p, s)) :
    PassFacts cfg inp p rs groups extra scores π₁ π₂ := by
  unfold runPassFrom at h
  split at h
  · contradiction
  rename_i infos peps hc
  dsimp only at h
  -- peel the guards one by one (robust against further guards in front of the competition)
  repeat (split at h; contradiction)
  rename_i hfit hne _ fdrs qvals hf _ rows hr
  simp only [Except.ok.injEq, Prod.mk.injEq] at h
  obtain ⟨rfl, -⟩ := h
  exact {
    groups := rfl
    collect := hc
    pepCutoff := rfl
    compGroups := rfl
    compInfos := rfl
    shuffles := shufflesOK_of_fit cfg.mode ⟨_, π₁, π₂⟩ (by simpa using hfit)
    ranking := rfl
    fdrs := hf
    rows := hr }

open Pipeline in
/-- a successful run without a rescue pass -/
theorem runFacts_plain (cfg : Config) (inp : Input) (r : Result) (hg : cfg.grouping ≠ .rescuedSubset)
    (h : run cfg inp = .ok r) :
    PassFacts cfg inp r.pass1 false (firstGrouping cfg inp.pil) [] inp.scores1 (shuffleAt inp 0) (shuffleAt inp 1) ∧
      r.pass2 = none ∧ r.rows = r.pass1.rows := by
  unfold run at h
  split at h
  · contradiction
  · rename_i r' s hrf
    simp only [Except.ok.injEq] at h
    subst h
    unfold runFrom at hrf
    dsimp only at hrf
    split at hrf
    · contradiction
    · rename_i p1 seen1 h1
      have hs1 : seen1 = [] := runPassFrom_seen _ _ _ _ _ _ _ _ _ _ h1
      subst hs1
      rw [if_pos hg] at hrf
      simp only [Except.ok.injEq, Prod.mk.injEq] at hrf
      obtain ⟨rfl, -⟩ := hrf
      exact ⟨passFacts _ _ _ _ _ _ _ _ _ _ h1, rfl, rfl⟩

open Pipeline in
/-- a successful run with a rescue pass -/
theorem runFacts_rescue (cfg : Config) (inp : Input) (r : Result) (hg : cfg.grouping = .rescuedSubset)
    (h : run cfg inp = .ok r) :
    PassFacts cfg inp r.pass1 false (firstGrouping cfg inp.pil) [] inp.scores1 (shuffleAt inp 0) (shuffleAt inp 1) ∧
    ∃ (p2 : PassOut) (out : RescueOut (List Evidence)) (cutoff : Rat),
      r.pass2 = some p2 ∧ r.rescue = some out ∧ inp.rescueCutoff = some cutoff ∧
      rescueGroups (r.pass1.groups.zip r.pass1.infos) inp.pil cutoff inp.cuts = .ok out ∧
      PassFacts cfg inp p2 true out.groups
        (if isPickedGroup cfg.mode then out.obsolete.zip out.obsoleteInfos else [])
        inp.scores2 (shuffleAt inp 2) (shuffleAt inp 3) ∧
      r.rows = p2.rows := by
  unfold run at h
  split at h
  · contradiction
  · rename_i r' s hrf
    simp only [Except.ok.injEq] at h
    subst h
    unfold runFrom at hrf
    dsimp only at hrf
    split at hrf
    · contradiction
    · rename_i p1 seen1 h1
      have hs1 : seen1 = [] := runPassFrom_seen _ _ _ _ _ _ _ _ _ _ h1
      subst hs1
      rw [if_neg (by rw [hg]; simp)] at hrf
      split at hrf
      · contradiction
      · split at hrf
        · contradiction
        · rename_i cutoff hcut
          split at hrf
          · contradiction
          · rename_i out hout
            split at hrf
            · contradiction
            · rename_i p2 seen2 h2
              simp only [Except.ok.injEq, Prod.mk.injEq] at hrf
              obtain ⟨rfl, -⟩ := hrf
              exact ⟨passFacts _ _ _ _ _ _ _ _ _ _ h1, p2, out, cutoff, rfl, rfl, hcut, hout,
                passFacts _ _ _ _ _ _ _ _ _ _ h2, rfl⟩


theorem mem_zip_map {α β : Type} (f : α → β) : ∀ (l : List α) (a : α) (b : β), (a, b) ∈ l.zip (l.map f) → a ∈ l ∧ b = f a := by
  intro l
  induction l with
  | nil => intro a b h; simp at h
  | cons x l ih =>
    intro a b h
    simp only [List.map_cons, List.zip_cons_cons, List.mem_cons, Prod.mk.injEq] at h
    rcases h with ⟨rfl, rfl⟩ | h
    · exact ⟨by simp, rfl⟩
    · obtain ⟨h1, h2⟩ := ih a b h
      exact ⟨by simp [h1], h2⟩

theorem map_fst_zip_map {α β : Type} (f : α → β) (l : List α) : (l.zip (l.map f)).map (·.1) = l := by
  induction l with
  | nil => rfl
  | cons x l ih => simp only [List.map_cons, List.zip_cons_cons, ih]

/-- what the two runs of the last sentence of C04 have in common, in the vocabulary of this file -/
structure UnsharedRuns (cfg : Pipeline.Config) (inp inpS : Pipeline.Input) (p2 q1 : Pipeline.PassOut)
    (sc : List Evidence → Rat) (G1 G2 : Groups) (X : List (List String × List Evidence)) : Prop where
  singles1 : ∀ g ∈ G1, ∃ p, g = [p]
  listed1 : ∀ p, p ∈ G1.flatten ↔ ∃ x ∈ inp.pil, p ∈ x.proteins
  perm : G2.Perm G1
  items2 : Pipeline.zipItems p2.compGroups p2.compInfos inp.scores2 =
    G2.map (mkItem sc (Pipeline.razorOf cfg inp) inp.pil) ++ X.map (mkExtra sc)
  itemsS : Pipeline.zipItems q1.compGroups q1.compInfos inpS.scores1 =
    G1.map (mkItem sc (Pipeline.razorOf cfg inp) inp.pil)
  extra : ∀ b ∈ X, ∃ p, [p] ∈ G1 ∧ b = ([obsoleteName p], evOf (Pipeline.razorOf cfg inp) inp.pil [p])
  extraNil : Pipeline.isPickedGroup cfg.mode = false → X = []
  facts2 : PassFacts cfg inp p2 true G2 X inp.scores2 (Pipeline.shuffleAt inp 2) (Pipeline.shuffleAt inp 3)
  factsS : PassFacts { cfg with grouping := .subset } inpS q1 false G1 [] inpS.scores1
    (Pipeline.shuffleAt inpS 0) (Pipeline.shuffleAt inpS 1)

open Pipeline in
theorem unsharedRuns (cfg : Config) (inp inpS : Input) (r rS : Result) (p2 : PassOut)
    (sc : List Evidence → Rat)
    (hcfg : cfg.grouping = .rescuedSubset)
    (hrun : run cfg inp = .ok r) (hrunS : run { cfg with grouping := .subset } inpS = .ok rS)
    (hp2 : r.pass2 = some p2)
    (hpil : inpS.pil = inp.pil) (hrzk : inpS.razorKeys = inp.razorKeys)
    (hkeys : (inp.pil.map (·.peptide)).Nodup) (hun : Unshared inp.pil)
    (hsc2 : inp.scores2 = p2.compInfos.map sc) (hscS : inpS.scores1 = rS.pass1.compInfos.map sc) :
    ∃ G1 G2 X, UnsharedRuns cfg inp inpS p2 rS.pass1 sc G1 G2 X := by
  obtain ⟨hq1, -, -⟩ := runFacts_plain { cfg with grouping := .subset } inpS rS (by simp) hrunS
  obtain ⟨hp1, p2', out, cutoff, hp2', -, -, hresc, hP2, -⟩ := runFacts_rescue cfg inp r hcfg hrun
  rw [hp2] at hp2'
  cases hp2'
  have hG1 : firstGrouping cfg inp.pil = C03.subsetGrouping inp.pil := by simp [firstGrouping, hcfg]
  have hG1S : firstGrouping { cfg with grouping := .subset } inpS.pil = C03.subsetGrouping inp.pil := by
    simp [firstGrouping, hpil]
  have hrz : razorOf { cfg with grouping := .subset } inpS = razorOf cfg inp := by simp [razorOf, hpil, hrzk]
  rw [hG1] at hp1
  rw [hG1S] at hq1
  generalize hG1def : C03.subsetGrouping inp.pil = G1 at hp1 hq1
  generalize hrzdef : razorOf cfg inp = rz at hrz
  obtain ⟨hne1, hnd1, hmem1⟩ := subsetGrouping_partition inp.pil hkeys
  have hsing1 := subset_singletons inp.pil hkeys hun
  rw [hG1def] at hne1 hnd1 hmem1 hsing1
  -- evidence of the two first passes
  have hinfos1 : r.pass1.infos = G1.map (evOf rz inp.pil) :=
    collect_evOf G1 inp.pil rz false _ _ hnd1 (by have := hp1.collect; rwa [hrzdef] at this)
  have hinfosS : rS.pass1.infos = G1.map (evOf rz inp.pil) :=
    collect_evOf G1 inp.pil rz false _ _ hnd1 (by have := hq1.collect; rwa [hpil, hrz] at this)
  -- the rescue stage merges nothing
  obtain ⟨out', hout', -, hgroups, hobs, hobsI⟩ := rescue_unshared (ι := List Evidence)
    (G1.zip (G1.map (evOf rz inp.pil))) inp.pil cutoff inp.cuts hkeys hun
  rw [hp1.groups, hinfos1, hout'] at hresc
  cases hresc
  rw [map_fst_zip_map] at hgroups
  generalize hfdef : filterByCutoff inp.pil cutoff = f at hgroups hobs hobsI
  have hfs : f.Sublist inp.pil := by rw [← hfdef]; exact filterByCutoff_sublist _ _
  have hfk : (f.map (·.peptide)).Nodup := (hfs.map _).nodup hkeys
  have hfu : Unshared f := hun.sublist hfs
  obtain ⟨hneN, hndN, hmemN⟩ := subsetGrouping_partition f hfk
  have hsingN := subset_singletons f hfk hfu
  rw [← subsetOf_eq] at hneN hndN hmemN hsingN
  generalize hNdef : subsetOf f = N at hgroups hobs hobsI hneN hndN hmemN hsingN
  have hsubN : ∀ p ∈ N.flatten, p ∈ G1.flatten := by
    intro p hp
    obtain ⟨x, hx, hpx⟩ := (hmemN p).mp hp
    exact (hmem1 p).mpr ⟨x, hfs.subset hx, hpx⟩
  have hsing2 : ∀ g ∈ merged N G1, ∃ p, g = [p] := by
    intro g hg
    rcases (merged_mem N G1 g).mp hg with h | ⟨hne, g0, hg0, rfl⟩
    · exact hsingN g h
    · obtain ⟨p, rfl⟩ := hsing1 g0 hg0
      refine ⟨p, ?_⟩
      by_cases hk : p ∈ N.flatten
      · exfalso; apply hne
        unfold remnant; rw [List.filter_cons_of_neg (by simpa using hk)]; rfl
      · unfold remnant; rw [List.filter_cons_of_pos (by simpa using hk)]; rfl
  have hperm2f : (merged N G1).flatten.Perm G1.flatten := merged_perm N G1 hndN hnd1 hsubN
  have hperm2 : (merged N G1).Perm G1 := singletons_perm _ _ hsing2 hsing1 hperm2f
  have hnd2 : (merged N G1).flatten.Nodup := hperm2f.nodup_iff.mpr hnd1
  rw [hgroups] at hP2
  have hinfos2 : p2.infos = (merged N G1).map (evOf rz inp.pil) :=
    collect_evOf _ inp.pil rz true _ _ hnd2 (by have := hP2.collect; rwa [hrzdef] at this)
  subst hrzdef
  refine ⟨G1, merged N G1, (if isPickedGroup cfg.mode = true then out.obsolete.zip out.obsoleteInfos else []), ?_⟩
  refine {
    singles1 := hsing1
    listed1 := hmem1
    perm := hperm2
    items2 := ?_
    itemsS := ?_
    extra := ?_
    extraNil := ?_
    facts2 := hP2
    factsS := hq1 }
  · rw [hsc2, hP2.compGroups, hP2.compInfos, hinfos2, zipItems_mk]
    rfl
  · rw [hscS, hq1.compGroups, hq1.compInfos, hinfosS]
    have := zipItems_mk sc (evOf (razorOf cfg inp) inp.pil) [] G1
    simp only [List.map_nil, List.append_nil] at this ⊢
    rw [this]; rfl
  · intro b hb
    split at hb
    · rw [hobs, hobsI, List.zip_map'] at hb
      obtain ⟨g, hg, rfl⟩ := List.mem_map.mp hb
      obtain ⟨hgo, _⟩ := (absorbed_mem N _ g).mp hg
      obtain ⟨g0, e0⟩ := g
      obtain ⟨hg0, rfl⟩ := mem_zip_map _ _ _ _ hgo
      obtain ⟨p, rfl⟩ := hsing1 g0 hg0
      exact ⟨p, hg0, rfl⟩
    · cases hb
  · intro hpk
    simp [hpk]


theorem isObsolete_single (p : String) : isObsolete [p] = strContains p "OBSOLETE__" := by
  simp [isObsolete, allContain]

theorem isContaminant_single (p : String) : isContaminant [p] = strContains p "CON__" := by
  simp [isContaminant, allContain]

open Pipeline in
/-- the accepted groups of the rescue run's second competition and of the plain run's competition agree -/
theorem unshared_kept_eq (cfg : Config) (inp inpS : Input) (p2 q1 : PassOut) (sc : List Evidence → Rat)
    (G1 G2 : Groups) (X : List (List String × List Evidence))
    (h : UnsharedRuns cfg inp inpS p2 q1 sc G1 G2 X)
    (hnoobs : isPickedGroup cfg.mode = true →
      ∀ x ∈ inp.pil, ∀ p ∈ x.proteins, strContains p "OBSOLETE__" = false)
    (hdist : (((zipItems q1.compGroups q1.compInfos inpS.scores1).filter (·.hasEvidence)).map (·.score)).Nodup) :
    keptFrom cfg.mode [] (zipItems p2.compGroups p2.compInfos inp.scores2) (shuffleAt inp 2) =
      keptFrom cfg.mode [] (zipItems q1.compGroups q1.compInfos inpS.scores1) (shuffleAt inpS 0) := by
  have hok2 := h.facts2.shuffles
  have hokS := h.factsS.shuffles
  rw [h.itemsS] at hdist hokS ⊢
  rw [h.items2] at hok2 ⊢
  set mk := mkItem sc (razorOf cfg inp) inp.pil with hmk
  set R := (G1.map mk).filter (·.hasEvidence) with hRdef
  set P := (X.map (mkExtra sc)).filter (·.hasEvidence) with hPdef
  have hL2 : (shuffle ((G2.map mk ++ X.map (mkExtra sc)).filter (·.hasEvidence)) (shuffleAt inp 2)).Perm (R ++ P) := by
    refine (shuffle_perm _ _ hok2.p1).trans ?_
    rw [List.filter_append]
    exact List.Perm.append_right _ ((h.perm.map mk).filter _)
  have hLS : (shuffle ((G1.map mk).filter (·.hasEvidence)) (shuffleAt inpS 0)).Perm R :=
    shuffle_perm _ _ hokS.p1
  unfold keptFrom passOrder
  cases hpk : isPickedGroup cfg.mode with
  | false =>
    have hX : X = [] := h.extraNil hpk
    have hP0 : P = [] := by rw [hPdef, hX]; rfl
    rw [hP0] at hL2
    exact kept_eq_of_twins cfg.mode R [] _ _ (fun _ => true) hL2 hLS hdist (fun _ _ => rfl) (fun b hb => by cases hb)
  | true =>
    obtain ⟨pk, hmode⟩ : ∃ pk, cfg.mode = .pickedGroup pk := by
      cases hm : cfg.mode with
      | pickedGroup pk => exact ⟨pk, rfl⟩
      | picked => rw [hm] at hpk; cases hpk
      | classic => rw [hm] at hpk; cases hpk
    have hnob : ∀ p, [p] ∈ G1 → isObsolete [p] = false := by
      intro p hp
      obtain ⟨x, hx, hpx⟩ := (h.listed1 p).mp (List.mem_flatten.mpr ⟨[p], hp, by simp⟩)
      rw [isObsolete_single]; exact hnoobs hpk x hx p hpx
    refine kept_eq_of_twins cfg.mode R P _ _ (fun x => !x.obsolete) hL2 hLS hdist ?_ ?_
    · intro r hr
      obtain ⟨hr1, _⟩ := List.mem_filter.mp hr
      obtain ⟨g, hg, rfl⟩ := List.mem_map.mp hr1
      obtain ⟨p, rfl⟩ := h.singles1 g hg
      simp only [Item.obsolete, hmk, mkItem, hnob p hg, Bool.not_false]
    · intro b hb
      obtain ⟨hb1, hbev⟩ := List.mem_filter.mp hb
      obtain ⟨ge, hge, rfl⟩ := List.mem_map.mp hb1
      obtain ⟨p, hpG, rfl⟩ := h.extra ge hge
      have hbo : isObsolete [obsoleteName p] = true := isObsolete_placeholder [p]
      refine ⟨by simp [Item.obsolete, mkExtra, hbo], mk [p], ?_, ?_, ?_, ?_, ?_⟩
      · exact List.mem_filter.mpr ⟨List.mem_map.mpr ⟨[p], hpG, rfl⟩, hbev⟩
      · simp [le1, Item.obsolete, mkExtra, hmk, mkItem, hbo, hnob p hpG]
      · rw [hmode]
        simp [strategy, mkExtra, hmk, mkItem, clean_obsoleteName]
      · simp [contam, mkExtra, hmk, mkItem, isContaminant_single, contam_obsoleteName]
      · rw [hmode]
        refine ⟨cleanProteinId p, by simp [strategy, mkExtra, clean_obsoleteName], ?_⟩
        simp only [strategy, List.mem_map]
        refine ⟨p, ?_, rfl⟩
        apply mem_select_singleton
        intro e he
        obtain ⟨h1, h2⟩ := evOf_spec _ _ _ e he
        exact ⟨h1, fun q hq => by simpa using h2 q hq⟩

open Pipeline in
/-- … hence the rankings, the estimates and the q-values agree -/
theorem unshared_ranking_eq (cfg : Config) (inp inpS : Input) (p2 q1 : PassOut) (sc : List Evidence → Rat)
    (G1 G2 : Groups) (X : List (List String × List Evidence))
    (h : UnsharedRuns cfg inp inpS p2 q1 sc G1 G2 X)
    (hnoobs : isPickedGroup cfg.mode = true →
      ∀ x ∈ inp.pil, ∀ p ∈ x.proteins, strContains p "OBSOLETE__" = false)
    (hdist : (((zipItems q1.compGroups q1.compInfos inpS.scores1).filter (·.hasEvidence)).map (·.score)).Nodup) :
    p2.ranking = q1.ranking ∧ p2.fdrs = q1.fdrs ∧ p2.qvals = q1.qvals := by
  have hK := unshared_kept_eq cfg inp inpS p2 q1 sc G1 G2 X h hnoobs hdist
  have hok2 := h.facts2.shuffles
  have hokS := h.factsS.shuffles
  have hr2 := h.facts2.ranking
  have hrS := h.factsS.ranking
  rw [doCompetition_eq] at hr2 hrS
  have hp2 := hok2.p2
  have hpS := hokS.p2
  change (shuffleAt inpS 1).Perm (List.range (keptFrom cfg.mode [] _ (shuffleAt inpS 0)).length) at hpS
  change q1.ranking = (shuffle (keptFrom cfg.mode [] _ (shuffleAt inpS 0)) (shuffleAt inpS 1)).mergeSort le2 at hrS
  rw [hK] at hr2 hp2
  generalize hKdef : keptFrom cfg.mode [] (zipItems q1.compGroups q1.compInfos inpS.scores1) (shuffleAt inpS 0) = K
    at hr2 hp2 hrS hpS
  have hKsub : ∀ a ∈ K, a ∈ (zipItems q1.compGroups q1.compInfos inpS.scores1).filter (·.hasEvidence) := by
    intro a ha
    rw [← hKdef] at ha
    unfold keptFrom at ha
    have h1 := (pass_sublist (strategy cfg.mode) contam _ []).subset ha
    exact (passOrder_perm _ _ hokS.p1).subset h1
  have hrank : p2.ranking = q1.ranking := by
    rw [hr2, hrS]
    refine List.Perm.eq_of_pairwise (le := fun a b => le2 a b = true) ?_
      (List.pairwise_mergeSort (le := le2) le2_trans le2_total _)
      (List.pairwise_mergeSort (le := le2) le2_trans le2_total _) ?_
    · intro a b ha hb hab hba
      have ha' : a ∈ K := (shuffle_perm _ _ hp2).subset ((List.mergeSort_perm _ _).subset ha)
      have hb' : b ∈ K := (shuffle_perm _ _ hpS).subset ((List.mergeSort_perm _ _).subset hb)
      exact le2_antisymm_of_nodup _ hdist a b (hKsub a ha') (hKsub b hb') hab hba
    · exact ((List.mergeSort_perm _ _).trans (shuffle_perm _ _ hp2)).trans
        ((List.mergeSort_perm _ _).trans (shuffle_perm _ _ hpS)).symm
  have hf2 := h.facts2.fdrs
  have hfS := h.factsS.fdrs
  rw [hrank, hfS] at hf2
  simp only [Except.ok.injEq, Prod.mk.injEq] at hf2
  exact ⟨hrank, hf2.1.symm, hf2.2.symm⟩

end Comp

/-! ### 5. the reported rows -/

section Rows
open C06

/-- the fields of a row other than the peptide counts (and the majority list derived from them) -/
def rowCore (r : RowData) : List String × String × Nat × Rat × Rat × Bool × Bool :=
  (r.proteins, r.bestPeptide, r.numberOfProteins, r.qValue, r.score, r.reverse, r.contaminant)

theorem countLoop_mono (c : Rat) (p : String) : ∀ (l : List Evidence) (seen : List String),
    countLoop (some c) p l seen ≤ countLoop none p l seen := by
  intro l
  induction l with
  | nil => intro _; simp [countLoop]
  | cons e l ih =>
    intro seen
    simp only [countLoop]
    by_cases hw : within (some c) e = true
    · have hn : within none e = true := rfl
      simp only [hw, hn, Bool.not_true, Bool.false_eq_true, if_false]
      split
      · exact ih seen
      · exact Nat.add_le_add_left (ih _) _
    · simp [hw]

/-- `from_protein_group` on a single-protein group, in closed form -/
theorem fromProteinGroup_single (p : String) (info : List Evidence) (q s : Rat) (cutoff : Option Rat) (k : Bool) :
    fromProteinGroup [p] info q s cutoff k =
      if (countLoop cutoff p (sortEv info) [] == 0 && !k) = true then .ok none
      else match bestPeptide info with
        | none => .error "no_evidence"
        | some best => .ok (some ⟨[p], [p], [countLoop cutoff p (sortEv info) []], best, 1, q, s, isDecoy [p], isContaminant [p]⟩) := by
  unfold fromProteinGroup peptideCounts
  simp only [List.map_cons, List.map_nil, List.sum_cons, List.sum_nil, Nat.add_zero, List.zip_cons_cons, List.zip_nil_right]
  by_cases h0 : (countLoop cutoff p (sortEv info) [] == 0 && !k) = true
  · simp [h0]
  · simp only [h0, Bool.false_eq_true, if_false]
    have hk : (decide (0 < countLoop cutoff p (sortEv info) []) || k) = true := by
      cases k <;> simp_all [Nat.pos_iff_ne_zero]
    simp only [List.filter_cons, hk, if_true, List.filter_nil, List.isEmpty_cons, Bool.false_eq_true, if_false]
    cases bestPeptide info with
    | none => rfl
    | some best =>
      have hle : countLoop cutoff p (sortEv info) [] ≤ 2 * countLoop cutoff p (sortEv info) [] := by omega
      simp [maxCount, hle]


theorem rows_sublist (c : Rat) (k : Bool) : ∀ (sl : List Slot) (rows2 rowsS : List RowData),
    (∀ x ∈ sl, ∃ p, x.1 = [p]) →
    rowsOfSlots (some c) k sl = .ok rows2 → rowsOfSlots none k sl = .ok rowsS →
    (rows2.map rowCore).Sublist (rowsS.map rowCore) ∧ (k = true → rows2.map rowCore = rowsS.map rowCore) := by
  intro sl
  induction sl with
  | nil =>
    intro rows2 rowsS _ h2 hS
    simp only [rowsOfSlots, Except.ok.injEq] at h2 hS
    subst h2; subst hS
    exact ⟨List.Sublist.refl _, fun _ => rfl⟩
  | cons x rest ih =>
    intro rows2 rowsS hsing h2 hS
    obtain ⟨g, info, s, q⟩ := x
    obtain ⟨p, hp⟩ := hsing (g, info, s, q) (by simp)
    simp only at hp
    subst hp
    have ihr := fun r2 rS => ih r2 rS (fun y hy => hsing y (by simp [hy]))
    simp only [rowsOfSlots] at h2 hS
    by_cases hobs : isObsolete [p] = true
    · simp only [hobs, if_true] at h2 hS
      exact ihr _ _ h2 hS
    · simp only [hobs, Bool.false_eq_true, if_false] at h2 hS
      rw [fromProteinGroup_single] at h2 hS
      have hmono := countLoop_mono c p (sortEv info) []
      cases hb : bestPeptide info with
      | none =>
        rw [hb] at h2 hS
        by_cases h0 : (countLoop (some c) p (sortEv info) [] == 0 && !k) = true
        · by_cases h0' : (countLoop none p (sortEv info) [] == 0 && !k) = true
          · simp only [h0, h0', if_true] at h2 hS
            exact ihr _ _ h2 hS
          · simp only [h0', Bool.false_eq_true, if_false] at hS
            cases hS
        · simp only [h0, Bool.false_eq_true, if_false] at h2
          cases h2
      | some best =>
        rw [hb] at h2 hS
        by_cases h0 : (countLoop (some c) p (sortEv info) [] == 0 && !k) = true
        · have hk : k = false := by
            cases k with
            | false => rfl
            | true => simp at h0
          simp only [h0, if_true] at h2
          by_cases h0' : (countLoop none p (sortEv info) [] == 0 && !k) = true
          · simp only [h0', if_true] at hS
            exact ihr _ _ h2 hS
          · simp only [h0', Bool.false_eq_true, if_false] at hS
            cases hr : rowsOfSlots none k rest with
            | error e => rw [hr] at hS; cases hS
            | ok rS =>
              rw [hr] at hS
              simp only [Except.ok.injEq] at hS
              subst hS
              refine ⟨?_, fun hk' => by rw [hk] at hk'; cases hk'⟩
              rw [List.map_cons]
              exact ((ihr _ _ h2 hr).1).cons _
        · have h0' : ¬ (countLoop none p (sortEv info) [] == 0 && !k) = true := by
            intro hc
            apply h0
            simp only [Bool.and_eq_true, beq_iff_eq, Bool.not_eq_true'] at hc ⊢
            exact ⟨by omega, hc.2⟩
          simp only [h0, h0', Bool.false_eq_true, if_false] at h2 hS
          cases hr2 : rowsOfSlots (some c) k rest with
          | error e => rw [hr2] at h2; cases h2
          | ok r2 =>
            cases hrS : rowsOfSlots none k rest with
            | error e => rw [hrS] at hS; cases hS
            | ok rS =>
              rw [hr2] at h2; rw [hrS] at hS
              simp only [Except.ok.injEq] at h2 hS
              subst h2; subst hS
              obtain ⟨ih1, ih2⟩ := ihr _ _ hr2 hrS
              simp only [List.map_cons]
              refine ⟨?_, fun hk => ?_⟩
              · exact List.Sublist.cons_cons _ ih1
              · rw [ih2 hk]; rfl


open Pipeline in
/-- the reported rows: the rescue run reports a sub-list of the plain run's rows (all fields but the
    peptide counts), and the same list when `keep_all_proteins` is set -/
theorem unshared_rows (cfg : Config) (inp inpS : Input) (p2 q1 : PassOut) (sc : List Evidence → Rat)
    (G1 G2 : Groups) (X : List (List String × List Evidence))
    (h : UnsharedRuns cfg inp inpS p2 q1 sc G1 G2 X)
    (hnoobs : isPickedGroup cfg.mode = true →
      ∀ x ∈ inp.pil, ∀ p ∈ x.proteins, strContains p "OBSOLETE__" = false)
    (hdist : (((zipItems q1.compGroups q1.compInfos inpS.scores1).filter (·.hasEvidence)).map (·.score)).Nodup)
    (hka : inpS.keepAll = inp.keepAll) :
    (p2.rows.map rowCore).Sublist (q1.rows.map rowCore) ∧
      (inp.keepAll = true → p2.rows.map rowCore = q1.rows.map rowCore) := by
  obtain ⟨hrank, -, hq⟩ := unshared_ranking_eq cfg inp inpS p2 q1 sc G1 G2 X h hnoobs hdist
  have h2 := h.facts2.rows
  have hS := h.factsS.rows
  rw [hrank, hq] at h2
  simp only [if_true] at h2
  simp only [Bool.false_eq_true, if_false] at hS
  change C06.fromProteinGroups _ _ _ _ none inpS.keepAll = _ at hS
  rw [hka] at hS
  unfold C06.fromProteinGroups at h2 hS
  refine rows_sublist _ _ _ _ _ ?_ h2 hS
  intro x hx
  unfold C06.slots at hx
  obtain ⟨g, rest⟩ := x
  have hg := (List.of_mem_zip hx).1
  obtain ⟨a, ha, rfl⟩ := List.mem_map.mp hg
  have hrk := h.factsS.ranking
  rw [hrk] at ha
  have hmem := (C02.survivors_unchanged _ _ _ _ h.factsS.shuffles a ha).1
  rw [h.itemsS] at hmem
  obtain ⟨g', hg', rfl⟩ := List.mem_map.mp hmem
  exact h.singles1 g' hg'


end Rows

section Ties
open C02

open Pipeline in
/-- classic strategy, ties allowed: the two rankings hold the same (group, evidence, score) triples -/
theorem unshared_classic_perm (cfg : Config) (inp inpS : Input) (p2 q1 : PassOut) (sc : List Evidence → Rat)
    (G1 G2 : Groups) (X : List (List String × List Evidence))
    (h : UnsharedRuns cfg inp inpS p2 q1 sc G1 G2 X) (hmode : cfg.mode = .classic) :
    p2.ranking.Perm q1.ranking := by
  have hX : X = [] := h.extraNil (by rw [hmode]; rfl)
  have hok2 := h.facts2.shuffles
  have hokS := h.factsS.shuffles
  have hr2 := h.facts2.ranking
  have hrS := h.factsS.ranking
  change q1.ranking = doCompetition cfg.mode _ _ _ at hrS
  change ShufflesOK cfg.mode _ _ _ at hokS
  rw [hmode] at hok2 hokS hr2 hrS
  rw [hr2, hrS]
  refine (C02.classic_removes_only _ _ _ hok2).trans (List.Perm.trans ?_ (C02.classic_removes_only _ _ _ hokS).symm)
  rw [h.items2, h.itemsS, hX, List.map_nil, List.append_nil]
  exact (h.perm.map _).filter _

/-- every rearrangement of a list is produced by some recorded shuffle -/
theorem exists_shuffle {α : Type} {l₁ l₂ : List α} (h : l₁.Perm l₂) :
    ∃ π : List Nat, π.Perm (List.range l₁.length) ∧ shuffle l₁ π = l₂ := by
  induction h with
  | nil => exact ⟨[], by simp, rfl⟩
  | @cons a t₁ t₂ _ ih =>
    obtain ⟨π, hπ, hs⟩ := ih
    refine ⟨0 :: π.map (· + 1), ?_, ?_⟩
    · rw [List.length_cons, List.range_succ_eq_map]
      exact List.Perm.cons _ (hπ.map _)
    · unfold shuffle at hs ⊢
      simp only [List.filterMap_cons, List.getElem?_cons_zero, List.filterMap_map]
      congr 1
  | @swap a b t =>
    refine ⟨1 :: 0 :: (List.range t.length).map (· + 2), ?_, ?_⟩
    · simp only [List.length_cons]
      rw [List.range_succ_eq_map, List.range_succ_eq_map, List.map_cons, List.map_map]
      refine (List.Perm.swap _ _ _).trans ?_
      exact List.Perm.of_eq rfl
    · unfold shuffle
      simp only [List.filterMap_cons, List.getElem?_cons_succ, List.getElem?_cons_zero, List.filterMap_map]
      congr 2
      exact filterMap_range_getElem? t
  | @trans l₁ l₂ l₃ h₁₂ _ ih₁ ih₂ =>
    obtain ⟨τ, hτ, hs₁⟩ := ih₁
    obtain ⟨π, hπ, hs₂⟩ := ih₂
    refine ⟨π.filterMap (fun i => τ[i]?), ?_, ?_⟩
    · have hlen : l₂.length = τ.length := by
        rw [← h₁₂.length_eq]; have := hτ.length_eq; simpa using this.symm
      rw [hlen] at hπ
      have := hπ.filterMap (fun i => τ[i]?)
      rw [filterMap_range_getElem?] at this
      exact this.trans hτ
    · rw [← shuffle_shuffle l₁ τ π (fun t ht => by have := hτ.subset ht; simpa using this), hs₁, hs₂]


/-- twins without the distinctness hypothesis: some first shuffle of the regular items alone gives the same
    accepted groups -/
theorem kept_of_twins_exists (mode : Mode) (R P L2 RS : List Item) (keep : Item → Bool)
    (h2 : L2.Perm (R ++ P)) (hRS : RS.Perm R)
    (hR : ∀ r ∈ R, keep r = true)
    (hP : ∀ b ∈ P, keep b = false ∧ ∃ a ∈ R, le1 b a = false ∧
      (strategy mode).key b = (strategy mode).key a ∧ contam b = contam a ∧
      ∃ k ∈ (strategy mode).key b, k ∈ (strategy mode).marks a) :
    ∃ π₁', π₁'.Perm (List.range RS.length) ∧
      pass (strategy mode) contam [] ((shuffle RS π₁').mergeSort le1) =
        pass (strategy mode) contam [] (L2.mergeSort le1) := by
  have hs2 : (L2.mergeSort le1).Pairwise (fun a b => le1 a b = true) :=
    List.pairwise_mergeSort (le := le1) le1_trans le1_total _
  have hp2 : (L2.mergeSort le1).Perm (R ++ P) := (List.mergeSort_perm _ _).trans h2
  have hfp : ((L2.mergeSort le1).filter keep).Perm R := by
    refine (hp2.filter keep).trans ?_
    rw [List.filter_append]
    have h1 : R.filter keep = R := List.filter_eq_self.mpr hR
    have h2' : P.filter keep = [] := by
      rw [List.filter_eq_nil_iff]
      intro b hb; rw [(hP b hb).1]; simp
    rw [h1, h2', List.append_nil]
  obtain ⟨π₁', hπ, hsh⟩ := exists_shuffle (hRS.trans hfp.symm)
  refine ⟨π₁', hπ, ?_⟩
  rw [hsh, List.mergeSort_of_pairwise (hs2.sublist List.filter_sublist)]
  symm
  apply pass_filter (strategy mode) contam keep (L2.mergeSort le1) []
  intro pre b post hsplit hk
  have hbm : b ∈ R ++ P := hp2.subset (by rw [hsplit]; simp)
  have hbP : b ∈ P := by
    rcases List.mem_append.mp hbm with h | h
    · rw [hR b h] at hk; cases hk
    · exact h
  obtain ⟨_, a, haR, hle, hkey, hcon, hmark⟩ := hP b hbP
  have ham : a ∈ L2.mergeSort le1 := hp2.symm.subset (List.mem_append_left _ haR)
  have hapre : a ∈ pre := by
    rw [hsplit] at ham hs2
    rcases List.mem_append.mp ham with h | h
    · exact h
    · rcases List.mem_cons.mp h with rfl | h
      · rw [hR a haR] at hk; cases hk
      · have := (List.pairwise_append.mp hs2).2.1
        have := List.rel_of_pairwise_cons this h
        rw [hle] at this; cases this
  exact twin_rejected (strategy mode) contam [] pre a b hapre hkey hcon hmark

open Pipeline in
/-- ties allowed, any strategy: the ranking of the rescue pass is one the plain run's competition produces
    for suitable shuffles -/
theorem unshared_ties (cfg : Config) (inp inpS : Input) (p2 q1 : PassOut) (sc : List Evidence → Rat)
    (G1 G2 : Groups) (X : List (List String × List Evidence))
    (h : UnsharedRuns cfg inp inpS p2 q1 sc G1 G2 X)
    (hnoobs : isPickedGroup cfg.mode = true →
      ∀ x ∈ inp.pil, ∀ p ∈ x.proteins, strContains p "OBSOLETE__" = false) :
    ∃ π₁' π₂', ShufflesOK cfg.mode (zipItems q1.compGroups q1.compInfos inpS.scores1) π₁' π₂' ∧
      doCompetition cfg.mode (zipItems q1.compGroups q1.compInfos inpS.scores1) π₁' π₂' = p2.ranking := by
  have hok2 := h.facts2.shuffles
  have hr2 := h.facts2.ranking
  rw [h.itemsS]
  rw [h.items2] at hok2 hr2
  set mk := mkItem sc (razorOf cfg inp) inp.pil with hmk
  set R := (G1.map mk).filter (·.hasEvidence) with hRdef
  set P := (X.map (mkExtra sc)).filter (·.hasEvidence) with hPdef
  have hL2 : (shuffle ((G2.map mk ++ X.map (mkExtra sc)).filter (·.hasEvidence)) (shuffleAt inp 2)).Perm (R ++ P) := by
    refine (shuffle_perm _ _ hok2.p1).trans ?_
    rw [List.filter_append]
    exact List.Perm.append_right _ ((h.perm.map mk).filter _)
  have key : ∃ π₁', π₁'.Perm (List.range R.length) ∧
      keptFrom cfg.mode [] (G1.map mk) π₁' =
        keptFrom cfg.mode [] (G2.map mk ++ X.map (mkExtra sc)) (shuffleAt inp 2) := by
    unfold keptFrom passOrder
    cases hpk : isPickedGroup cfg.mode with
    | false =>
      have hX : X = [] := h.extraNil hpk
      have hP0 : P = [] := by rw [hPdef, hX]; rfl
      rw [hP0] at hL2
      exact kept_of_twins_exists cfg.mode R [] _ R (fun _ => true) hL2 (List.Perm.refl _) (fun _ _ => rfl)
        (fun b hb => by cases hb)
    | true =>
      obtain ⟨pk, hmode⟩ : ∃ pk, cfg.mode = .pickedGroup pk := by
        cases hm : cfg.mode with
        | pickedGroup pk => exact ⟨pk, rfl⟩
        | picked => rw [hm] at hpk; cases hpk
        | classic => rw [hm] at hpk; cases hpk
      have hnob : ∀ p, [p] ∈ G1 → isObsolete [p] = false := by
        intro p hp
        obtain ⟨x, hx, hpx⟩ := (h.listed1 p).mp (List.mem_flatten.mpr ⟨[p], hp, by simp⟩)
        rw [isObsolete_single]; exact hnoobs hpk x hx p hpx
      refine kept_of_twins_exists cfg.mode R P _ R (fun x => !x.obsolete) hL2 (List.Perm.refl _) ?_ ?_
      · intro r hr
        obtain ⟨hr1, _⟩ := List.mem_filter.mp hr
        obtain ⟨g, hg, rfl⟩ := List.mem_map.mp hr1
        obtain ⟨p, rfl⟩ := h.singles1 g hg
        simp only [Item.obsolete, hmk, mkItem, hnob p hg, Bool.not_false]
      · intro b hb
        obtain ⟨hb1, hbev⟩ := List.mem_filter.mp hb
        obtain ⟨ge, hge, rfl⟩ := List.mem_map.mp hb1
        obtain ⟨p, hpG, rfl⟩ := h.extra ge hge
        have hbo : isObsolete [obsoleteName p] = true := isObsolete_placeholder [p]
        refine ⟨by simp [Item.obsolete, mkExtra, hbo], mk [p], ?_, ?_, ?_, ?_, ?_⟩
        · exact List.mem_filter.mpr ⟨List.mem_map.mpr ⟨[p], hpG, rfl⟩, hbev⟩
        · simp [le1, Item.obsolete, mkExtra, hmk, mkItem, hbo, hnob p hpG]
        · rw [hmode]
          simp [strategy, mkExtra, hmk, mkItem, clean_obsoleteName]
        · simp [contam, mkExtra, hmk, mkItem, isContaminant_single, contam_obsoleteName]
        · rw [hmode]
          refine ⟨cleanProteinId p, by simp [strategy, mkExtra, clean_obsoleteName], ?_⟩
          simp only [strategy, List.mem_map]
          refine ⟨p, ?_, rfl⟩
          apply mem_select_singleton
          intro e he
          obtain ⟨h1, h2⟩ := evOf_spec _ _ _ e he
          exact ⟨h1, fun q hq => by simpa using h2 q hq⟩
  obtain ⟨π₁', hπ, hK⟩ := key
  refine ⟨π₁', shuffleAt inp 3, ⟨hπ, ?_⟩, ?_⟩
  · rw [hK]; exact hok2.p2
  · rw [hr2, doCompetition_eq, doCompetition_eq, hK]

end Ties

section Eval
open Pipeline

/-! ### 6. evaluating the composed model on concrete inputs (for non-vacuity examples)

`List.mergeSort` is defined by well-founded recursion and does not reduce in the kernel; on inputs whose
recorded shuffles already put the lists in order the sorts are the identity. -/

theorem keptFrom_sorted (mode : C02.Mode) (seen : List String) (items : List C02.Item) (π₁ : List Nat)
    (h1 : (C02.shuffle (items.filter (·.hasEvidence)) π₁).Pairwise (fun a b => C02.le1 a b = true)) :
    C02.keptFrom mode seen items π₁ =
      C02.pass (C02.strategy mode) C02.contam seen (C02.shuffle (items.filter (·.hasEvidence)) π₁) := by
  unfold C02.keptFrom C02.passOrder
  rw [List.mergeSort_of_pairwise h1]

theorem competeFrom_sorted (mode : C02.Mode) (seen : List String) (items : List C02.Item) (π₁ π₂ : List Nat)
    (h1 : (C02.shuffle (items.filter (·.hasEvidence)) π₁).Pairwise (fun a b => C02.le1 a b = true))
    (h2 : (C02.shuffle (C02.pass (C02.strategy mode) C02.contam seen
      (C02.shuffle (items.filter (·.hasEvidence)) π₁)) π₂).Pairwise (fun a b => C02.le2 a b = true)) :
    C02.competeFrom mode seen items π₁ π₂ =
      (C02.shuffle (C02.pass (C02.strategy mode) C02.contam seen (C02.shuffle (items.filter (·.hasEvidence)) π₁)) π₂,
       C02.reset mode (C02.seenAfter (C02.strategy mode) C02.contam seen
         (C02.shuffle (items.filter (·.hasEvidence)) π₁))) := by
  unfold C02.competeFrom
  simp only [keptFrom_sorted mode seen items π₁ h1]
  unfold C02.passOrder
  rw [List.mergeSort_of_pairwise h1, List.mergeSort_of_pairwise h2]

theorem cutoff_sorted (l : List Rat) (level : Rat) (h : l.Pairwise (· ≤ ·)) :
    C17.cutoff (l.map C17.PepVal.fin) level = (C17.scan level 0 0 l).getD 1 := by
  unfold C17.cutoff
  have hf : ∀ l : List Rat, C17.finites (l.map C17.PepVal.fin) = l := by
    intro l; induction l with
    | nil => rfl
    | cons a l ih => simp [C17.finites, ih]
  rw [hf]
  unfold C17.sortAsc
  rw [List.mergeSort_of_pairwise (h.imp (by intro a b hab; simpa using hab))]

/-- one pass, from the values of its stages -/
theorem runPassFrom_eval (cfg : Config) (inp : Input) (seen : List String) (groups : Groups)
    (extra : List (List String × List Evidence)) (rs : Bool) (scores : List Rat) (π₁ π₂ : List Nat)
    (infos : List (List Evidence)) (peps : List Rat) (c : Rat) (ranking : List C02.Item) (seen' : List String)
    (fdrs qvals : List Rat) (rows : List C06.RowData)
    (hc : C05.collectEvidence groups inp.pil (razorOf cfg inp) rs = .ok (infos, peps))
    (hcut : C17.cutoff (peps.map C17.PepVal.fin) inp.psm = c)
    (hall : (infos ++ extra.map (·.2)).all (·.isEmpty) = false)
    (hlen : scores.length = (groups ++ extra.map (·.1)).length)
    (hfit : C02.shufflesFit cfg.mode seen
      ⟨zipItems (groups ++ extra.map (·.1)) (infos ++ extra.map (·.2)) scores, π₁, π₂⟩ = true)
    (hcomp : C02.competeFrom cfg.mode seen
      (zipItems (groups ++ extra.map (·.1)) (infos ++ extra.map (·.2)) scores) π₁ π₂ = (ranking, seen'))
    (hne : ranking.isEmpty = false)
    (hf : C01.calcProteinFdrs (ranking.map (·.group)) (ranking.map (·.score)) = .ok (fdrs, qvals))
    (hr : C06.fromProteinGroups (ranking.map (·.group)) (ranking.map (·.evidence)) (ranking.map (·.score)) qvals
      (if rs then some c else none) inp.keepAll = .ok rows) :
    runPassFrom cfg inp seen groups extra rs scores π₁ π₂ =
      .ok ({ groups := groups, infos := infos, pepList := peps, pepCutoff := c,
             compGroups := groups ++ extra.map (·.1), compInfos := infos ++ extra.map (·.2),
             minPeps := (infos ++ extra.map (·.2)).map C05.minPep,
             ranking := ranking, fdrs := fdrs, qvals := qvals, rows := rows }, seen') := by
  unfold runPassFrom
  rw [hc]
  simp only [hcut, hall, hlen, hfit, hcomp, hne, hf, hr, Bool.false_eq_true, if_false, ne_eq, not_true_eq_false,
    Bool.not_true]


/-! ### a worked example: both runs of a picked-group method on three proteins without shared peptides

`A` (PEP 1/1000), `B` (1/10) and the decoy `REV__A` (1/100); used by the non-vacuity examples of
`Props/C04.lean` and `Props/C10.lean`. -/

def demoPil : List PepInfo := [⟨"PEPA", 1/1000, ["A"]⟩, ⟨"PEPB", 1/10, ["B"]⟩, ⟨"PEPR", 1/100, ["REV__A"]⟩]
def demoCfg : Config := ⟨.rescuedSubset, false, .pickedGroup .leading⟩
def demoInp : Input where
  pil := demoPil
  thr := 1/2
  psm := 1/100
  keepAll := false
  shuffles := [[0,2,1],[0,1],[0,3,1,4,2],[0,1]]
  cuts := []
  razorKeys := []
  scores1 := [-1/1000, -1/10, -1/100]
  scores2 := [-1/1000, -1/100, -1/10, -1/1000, -1/100]
  rescueCutoff := some (1/20)
def demoInpS : Input where
  pil := demoPil
  thr := 1/100
  psm := 1/100
  keepAll := false
  shuffles := [[0,2,1],[0,1]]
  cuts := []
  razorKeys := []
  scores1 := [-1/1000, -1/10, -1/100]
  scores2 := []
  rescueCutoff := none

def demoEvA : List Evidence := [⟨1/1000, "PEPA", ["A"]⟩]
def demoEvB : List Evidence := [⟨1/10, "PEPB", ["B"]⟩]
def demoEvR : List Evidence := [⟨1/100, "PEPR", ["REV__A"]⟩]
def demoItemA : C02.Item := ⟨["A"], demoEvA, -1/1000⟩
def demoItemB : C02.Item := ⟨["B"], demoEvB, -1/10⟩
def demoRows : List C06.RowData :=
  [⟨["A"], ["A"], [1], "PEPA", 1, 1/3, -1/1000, false, false⟩, ⟨["B"], ["B"], [1], "PEPB", 1, 1/3, -1/10, false, false⟩]
def demoPass1 : PassOut where
  groups := [["A"], ["B"], ["REV__A"]]
  infos := [demoEvA, demoEvB, demoEvR]
  pepList := [1/1000, 1/10]
  pepCutoff := 1/10
  compGroups := [["A"], ["B"], ["REV__A"]] ++ ([] : List (List String × List Evidence)).map (·.1)
  compInfos := [demoEvA, demoEvB, demoEvR] ++ ([] : List (List String × List Evidence)).map (·.2)
  minPeps := ([demoEvA, demoEvB, demoEvR] ++ ([] : List (List String × List Evidence)).map (·.2)).map C05.minPep
  ranking := [demoItemA, demoItemB]
  fdrs := [1/2, 1/3]
  qvals := [1/3, 1/3]
  rows := demoRows

theorem demo_pass1 (cfg : Config) (inp : Input) (hm : cfg.mode = .pickedGroup .leading) (hr : cfg.razor = false)
    (hp : inp.pil = demoPil) (hpsm : inp.psm = 1/100) (hka : inp.keepAll = false) :
    runPassFrom cfg inp [] [["A"], ["B"], ["REV__A"]] [] false [-1/1000, -1/10, -1/100] [0,2,1] [0,1] = .ok (demoPass1, []) := by
  have hsh : C02.shuffle ((zipItems ([["A"], ["B"], ["REV__A"]] ++ ([] : List (List String × List Evidence)).map (·.1))
      ([demoEvA, demoEvB, demoEvR] ++ ([] : List (List String × List Evidence)).map (·.2)) [-1/1000, -1/10, -1/100]).filter (·.hasEvidence)) [0,2,1] =
      [demoItemA, ⟨["REV__A"], demoEvR, -1/100⟩, demoItemB] := by decide +kernel
  have h1 : (C02.shuffle ((zipItems ([["A"], ["B"], ["REV__A"]] ++ ([] : List (List String × List Evidence)).map (·.1))
      ([demoEvA, demoEvB, demoEvR] ++ ([] : List (List String × List Evidence)).map (·.2)) [-1/1000, -1/10, -1/100]).filter (·.hasEvidence)) [0,2,1]).Pairwise
      (fun a b => C02.le1 a b = true) := by rw [hsh]; decide +kernel
  have hpass : C02.pass (C02.strategy (.pickedGroup .leading)) C02.contam [] [demoItemA, ⟨["REV__A"], demoEvR, -1/100⟩, demoItemB] = [demoItemA, demoItemB] := by
    decide +kernel
  refine runPassFrom_eval cfg inp [] _ [] false _ _ _ [demoEvA, demoEvB, demoEvR] [1/1000, 1/10] (1/10) [demoItemA, demoItemB] [] [1/2, 1/3] [1/3, 1/3]
    (demoRows) ?_ ?_ ?_ ?_ ?_ ?_ ?_ ?_ ?_
  · rw [hp]; simp only [razorOf, hr, Bool.false_eq_true, if_false]; decide +kernel
  · rw [hpsm, cutoff_sorted _ _ (by decide +kernel)]; decide +kernel
  · decide +kernel
  · decide +kernel
  · unfold C02.shufflesFit
    simp only [hm]
    rw [keptFrom_sorted _ _ _ _ h1, hsh, hpass]
    decide +kernel
  · rw [hm, competeFrom_sorted _ _ _ _ _ h1 (by rw [hsh, hpass]; decide +kernel), hsh, hpass]
    decide +kernel
  · rfl
  · decide +kernel
  · rw [hka]; decide +kernel


def demoOut : RescueOut (List Evidence) where
  filtered := [⟨"PEPA", 1/1000, ["A"]⟩, ⟨"PEPR", 1/100, ["REV__A"]⟩]
  rescued := [["A"], ["REV__A"]]
  groups := [["A"], ["REV__A"], ["B"]]
  obsolete := [["OBSOLETE__A"], ["OBSOLETE__REV__A"]]
  obsoleteInfos := [demoEvA, demoEvR]

theorem demo_rescue : rescueGroups (demoPass1.groups.zip demoPass1.infos) demoPil (1/20) [] = .ok demoOut := by
  have ha : (rescueGroups (demoPass1.groups.zip demoPass1.infos) demoPil (1/20) []).toOption.map
      (fun o => (o.filtered, o.rescued, o.groups)) = some (demoOut.filtered, demoOut.rescued, demoOut.groups) := by
    decide +kernel
  have hb : (rescueGroups (demoPass1.groups.zip demoPass1.infos) demoPil (1/20) []).toOption.map
      (fun o => (o.obsolete, o.obsoleteInfos)) = some (demoOut.obsolete, demoOut.obsoleteInfos) := by
    decide +kernel
  cases hr : rescueGroups (demoPass1.groups.zip demoPass1.infos) demoPil (1/20) [] with
  | error e => rw [hr] at ha; cases ha
  | ok out =>
    rw [hr] at ha hb
    simp only [Except.toOption, Option.map_some, Option.some.injEq, Prod.mk.injEq] at ha hb
    obtain ⟨h1, h2, h3⟩ := ha
    obtain ⟨h4, h5⟩ := hb
    cases out
    simp only at h1 h2 h3 h4 h5
    subst h1 h2 h3 h4 h5
    rfl

def demoExtra : List (List String × List Evidence) := [(["OBSOLETE__A"], demoEvA), (["OBSOLETE__REV__A"], demoEvR)]

def demoPass2 : PassOut where
  groups := [["A"], ["REV__A"], ["B"]]
  infos := [demoEvA, demoEvR, demoEvB]
  pepList := [1/1000, 1/10]
  pepCutoff := 1/10
  compGroups := [["A"], ["REV__A"], ["B"]] ++ demoExtra.map (·.1)
  compInfos := [demoEvA, demoEvR, demoEvB] ++ demoExtra.map (·.2)
  minPeps := ([demoEvA, demoEvR, demoEvB] ++ demoExtra.map (·.2)).map C05.minPep
  ranking := [demoItemA, demoItemB]
  fdrs := [1/2, 1/3]
  qvals := [1/3, 1/3]
  rows := demoRows

theorem demo_pass2 :
    runPassFrom demoCfg demoInp [] [["A"], ["REV__A"], ["B"]] demoExtra true [-1/1000, -1/100, -1/10, -1/1000, -1/100]
      [0,3,1,4,2] [0,1] = .ok (demoPass2, []) := by
  have hsh : C02.shuffle ((zipItems ([["A"], ["REV__A"], ["B"]] ++ demoExtra.map (·.1))
      ([demoEvA, demoEvR, demoEvB] ++ demoExtra.map (·.2)) [-1/1000, -1/100, -1/10, -1/1000, -1/100]).filter (·.hasEvidence)) [0,3,1,4,2] =
      [demoItemA, ⟨["OBSOLETE__A"], demoEvA, -1/1000⟩, ⟨["REV__A"], demoEvR, -1/100⟩, ⟨["OBSOLETE__REV__A"], demoEvR, -1/100⟩, demoItemB] := by
    decide +kernel
  have h1 : (C02.shuffle ((zipItems ([["A"], ["REV__A"], ["B"]] ++ demoExtra.map (·.1))
      ([demoEvA, demoEvR, demoEvB] ++ demoExtra.map (·.2)) [-1/1000, -1/100, -1/10, -1/1000, -1/100]).filter (·.hasEvidence)) [0,3,1,4,2]).Pairwise
      (fun a b => C02.le1 a b = true) := by rw [hsh]; decide +kernel
  have hpass : C02.pass (C02.strategy (.pickedGroup .leading)) C02.contam []
      [demoItemA, ⟨["OBSOLETE__A"], demoEvA, -1/1000⟩, ⟨["REV__A"], demoEvR, -1/100⟩, ⟨["OBSOLETE__REV__A"], demoEvR, -1/100⟩, demoItemB] = [demoItemA, demoItemB] := by
    decide +kernel
  refine runPassFrom_eval demoCfg demoInp [] _ demoExtra true _ _ _ [demoEvA, demoEvR, demoEvB] [1/1000, 1/10] (1/10) [demoItemA, demoItemB] [] [1/2, 1/3] [1/3, 1/3]
    demoRows ?_ ?_ ?_ ?_ ?_ ?_ ?_ ?_ ?_
  · decide +kernel
  · rw [cutoff_sorted _ _ (by decide +kernel)]; decide +kernel
  · decide +kernel
  · decide +kernel
  · unfold C02.shufflesFit
    show (C02.isPermOfRange _ _ && C02.isPermOfRange _ (C02.keptFrom (.pickedGroup .leading) [] _ _).length) = true
    rw [keptFrom_sorted _ _ _ _ h1, hsh, hpass]
    decide +kernel
  · show C02.competeFrom (.pickedGroup .leading) [] _ _ _ = _
    rw [competeFrom_sorted _ _ _ _ _ h1 (by rw [hsh, hpass]; decide +kernel), hsh, hpass]
    decide +kernel
  · rfl
  · decide +kernel
  · decide +kernel

def demoRes : Result where
  pass1 := demoPass1
  rescueScore := some (-1/10)
  rescue := some demoOut
  pass2 := some demoPass2
  rows := demoRows

theorem demo_run : run demoCfg demoInp = .ok demoRes := by
  have hG : firstGrouping demoCfg demoInp.pil = [["A"], ["B"], ["REV__A"]] := by decide +kernel
  have h1 : runPassFrom demoCfg demoInp [] (firstGrouping demoCfg demoInp.pil) [] false demoInp.scores1 (shuffleAt demoInp 0)
      (shuffleAt demoInp 1) = .ok (demoPass1, []) := by
    rw [hG]; exact demo_pass1 demoCfg demoInp rfl rfl rfl rfl rfl
  have hs : rescueScore (demoPass1.rows.map (fun r => (r.score, r.qValue))) demoInp.thr = some (-1/10) := by decide +kernel
  have hc : demoInp.rescueCutoff = some (1/20) := rfl
  have hgr : demoCfg.grouping = .rescuedSubset := rfl
  have hr : rescueGroups (demoPass1.groups.zip demoPass1.infos) demoInp.pil (1/20) demoInp.cuts = .ok demoOut := demo_rescue
  have hpk : isPickedGroup demoCfg.mode = true := rfl
  have h2 : runPassFrom demoCfg demoInp [] demoOut.groups (demoOut.obsolete.zip demoOut.obsoleteInfos) true demoInp.scores2
      (shuffleAt demoInp 2) (shuffleAt demoInp 3) = .ok (demoPass2, []) := demo_pass2
  unfold run runFrom
  simp only [h1, hgr, hs, hc, hr, hpk, h2, ne_eq, not_true_eq_false, if_false, if_true]
  rfl


def demoResS : Result where
  pass1 := demoPass1
  rescueScore := none
  rescue := none
  pass2 := none
  rows := demoRows

theorem demo_runS : run { demoCfg with grouping := .subset } demoInpS = .ok demoResS := by
  have hG : firstGrouping { demoCfg with grouping := .subset } demoInpS.pil = [["A"], ["B"], ["REV__A"]] := by decide +kernel
  have h1 : runPassFrom { demoCfg with grouping := .subset } demoInpS [] (firstGrouping { demoCfg with grouping := .subset } demoInpS.pil)
      [] false demoInpS.scores1 (shuffleAt demoInpS 0) (shuffleAt demoInpS 1) = .ok (demoPass1, []) := by
    rw [hG]; exact demo_pass1 _ demoInpS rfl rfl rfl rfl rfl
  unfold run runFrom
  simp only [h1, ne_eq, reduceCtorEq, not_false_eq_true, if_true]
  rfl


end Eval

end PgFdr.C04
