import PgFdr.Model.CliQuant
import PgFdr.Proofs.Cli
import PgFdr.Proofs.C12
import Mathlib.Data.Finset.Card
import Mathlib.Data.List.Dedup
import Mathlib.Data.Finset.Dedup

/-!
Helper lemmas about the quantification path of the command-line model (`Model/CliQuant.lean`): what a successful
run established for each written table (`quantRun_table`, `runMethodQ_spec`, `quantPart_spec`), the explicit form of
the written records (`renderQuant_eq`), the written lines as a function of the kept group positions
(`quantLines_eq`), and the statement "every quantification column equals its recomputation" as one predicate
(`ColumnsRecomputed`).  The property theorems are in `Props/C12.lean`.
-/
namespace PgFdr.CliQuant
open PgFdr.Cli

/-! ### the method loop -/

theorem loopQ_ok (q : QuantInput) (env : Env) (several : Bool) :
    ∀ (its : List (String × C18.Cfg × MethodRec)) (os : List (Option QTable)),
      loopQ q env several its = (os, none) →
      os.length = its.length ∧
      ∀ (i : Nat) (it : String × C18.Cfg × MethodRec), its[i]? = some it →
        ∃ o, runMethodQ q env several it.1 it.2.1 it.2.2 = .ok o ∧ os[i]? = some o := by
  intro its
  induction its with
  | nil =>
    intro os h
    simp only [loopQ, Prod.mk.injEq] at h
    obtain ⟨rfl, -⟩ := h
    exact ⟨rfl, by intro i it hi; simp at hi⟩
  | cons it rest ih =>
    intro os h
    simp only [loopQ] at h
    cases hr : runMethodQ q env several it.1 it.2.1 it.2.2 with
    | error e => rw [hr] at h; simp at h
    | ok o =>
      rw [hr] at h
      simp only [Prod.mk.injEq] at h
      obtain ⟨hos, hnone⟩ := h
      have hrest : loopQ q env several rest = ((loopQ q env several rest).1, none) := by
        rw [← hnone]
      obtain ⟨hl, hall⟩ := ih _ hrest
      subst hos
      refine ⟨by simp [hl], ?_⟩
      intro i it' hi
      cases i with
      | zero =>
        simp only [List.getElem?_cons_zero, Option.some.injEq] at hi
        subst hi
        exact ⟨o, hr, by simp⟩
      | succ k =>
        simp only [List.getElem?_cons_succ] at hi
        obtain ⟨o', h1, h2⟩ := hall k it' hi
        exact ⟨o', h1, by simpa using h2⟩

/-- every table of a completed run was written by `runMethodQ` for one position of `--methods`, with that position's
    parsed configuration and recorded parameters, in the environment `setup` computed -/
theorem quantRun_table (q : QuantInput) (ts : List QTable) (h : quantRun q = .ok ts) (t : QTable) (ht : t ∈ ts) :
    ∃ (env : Env) (cfgs : List C18.Cfg) (i : Nat) (name : String) (cfg : C18.Cfg),
      setup q.cli = .ok (env, cfgs) ∧ q.cli.methods[i]? = some name ∧ cfgs[i]? = some cfg ∧
      runMethodQ q env (decide (cfgs.length > 1)) name cfg (q.cli.recs.getD i default) = .ok (some t) := by
  unfold quantRun at h
  cases ho : quantOutcome q with
  | mk os e =>
    rw [ho] at h
    cases e with
    | some e => simp at h
    | none =>
      simp only [Except.ok.injEq] at h
      subst h
      unfold quantOutcome at ho
      cases hs : setup q.cli with
      | error e => rw [hs] at ho; simp at ho
      | ok ec =>
        obtain ⟨env, cfgs⟩ := ec
        rw [hs] at ho
        simp only at ho
        obtain ⟨hl, hall⟩ := loopQ_ok q env _ _ _ ho
        have hmem : some t ∈ os := by
          simpa using ht
        obtain ⟨i, hi, hget⟩ := List.getElem_of_mem hmem
        have hi' : i < (items q.cli cfgs).length := hl ▸ hi
        obtain ⟨o, hrun, hoi⟩ := hall i _ (List.getElem?_eq_getElem hi')
        rw [List.getElem?_eq_getElem hi, hget] at hoi
        have : o = some t := (Option.some.inj hoi).symm
        subst this
        obtain ⟨h1, h2, h3⟩ := items_getElem?_inv q.cli cfgs i _ (List.getElem?_eq_getElem hi')
        refine ⟨env, cfgs, i, _, _, rfl, h1, h2, ?_⟩
        rw [← h3]
        exact hrun

/-! ### one method -/

/-- a written table stems from the method's run in the `Cli` model (so everything `Props/C18.lean` says about a
    `CliTable` holds for `t.base`); either it carries a quantification, computed by `quantPart` from the rows that
    run reported, or it is the minimal table -/
theorem runMethodQ_spec (q : QuantInput) (env : Env) (several : Bool) (name : String) (cfg : C18.Cfg) (rec : MethodRec)
    (t : QTable) (h : runMethodQ q env several name cfg rec = .ok (some t)) :
    Cli.runMethod q.cli env several name cfg rec = .ok (some t.base) ∧
    ((∃ p, t.quant = some p ∧ q.doQuant = true ∧ cfg.origin.canQuantify = true ∧
        quantPart q env cfg t.base.rows = .ok (p, t.records)) ∨
     (t.quant = none ∧ t.records = t.base.records)) := by
  unfold runMethodQ at h
  cases hb : Cli.runMethod q.cli env several name cfg rec with
  | error e => rw [hb] at h; simp at h
  | ok ob =>
    rw [hb] at h
    cases ob with
    | none => simp at h
    | some b =>
      simp only at h
      by_cases hq : (q.doQuant && cfg.origin.canQuantify) = true
      · rw [if_pos hq] at h
        cases hp : quantPart q env cfg b.rows with
        | error e => rw [hp] at h; simp at h
        | ok pr =>
          rw [hp] at h
          simp only [Except.ok.injEq, Option.some.injEq] at h
          subst h
          simp only [Bool.and_eq_true] at hq
          exact ⟨rfl, Or.inl ⟨pr.1, rfl, hq.1, hq.2, hp⟩⟩
      · rw [if_neg hq] at h
        simp only [Except.ok.injEq, Option.some.injEq] at h
        subst h
        exact ⟨rfl, Or.inr ⟨rfl, rfl⟩⟩

/-- everything `quantPart` went through when it succeeded -/
theorem quantPart_spec (q : QuantInput) (env : Env) (cfg : C18.Cfg) (baseRows : List C06.RowData)
    (p : QuantPart) (recs : List (List String)) (h : quantPart q env cfg baseRows = .ok (p, recs)) :
    q.skipLfq = true ∧ (cfg.origin = .mq ∨ cfg.origin = .mqNoRemap) ∧
    p.rows = evidenceRows q env.maps cfg ∧ p.groups = baseRows.map groupOf ∧
    proteinSeqs (parseIdOf q.cli.geneLevel q.cli.useUniprot env.usePseudo) q.cli.containsDecoys q.cli.fasta = .ok p.seqs ∧
    ibaqNumbers (ibaqParse q env.usePseudo) q.cli = .ok p.ibaq ∧
    C12.quantify p.rows p.groups q.cli.psm p.ibaq = .ok p.out ∧
    p.lines = quantLines baseRows (C12.keptIdx p.rows p.groups) p.out.groups ∧
    renderQuant (ctxOf p.out) (p.lines.map (lineRow env.ann p.seqs p.out.experiments p.out.cutoff)) = .ok recs := by
  unfold quantPart at h
  by_cases h1 : (!q.skipLfq) = true
  · rw [if_pos h1] at h; simp at h
  · rw [if_neg h1] at h
    by_cases h2 : (!(cfg.origin == .mq || cfg.origin == .mqNoRemap)) = true
    · rw [if_pos h2] at h; simp at h
    · rw [if_neg h2] at h
      cases h3 : proteinSeqs (parseIdOf q.cli.geneLevel q.cli.useUniprot env.usePseudo) q.cli.containsDecoys q.cli.fasta with
      | error e => rw [h3] at h; simp at h
      | ok seqs =>
        rw [h3] at h
        simp only at h
        cases h4 : ibaqNumbers (ibaqParse q env.usePseudo) q.cli with
        | error e => rw [h4] at h; simp at h
        | ok ibaq =>
          rw [h4] at h
          simp only at h
          cases h5 : C12.quantify (evidenceRows q env.maps cfg) (baseRows.map groupOf) q.cli.psm ibaq with
          | error e => rw [h5] at h; simp at h
          | ok o =>
            rw [h5] at h
            simp only at h
            cases h6 : renderQuant (ctxOf o)
                ((quantLines baseRows (C12.keptIdx (evidenceRows q env.maps cfg) (baseRows.map groupOf)) o.groups).map
                  (lineRow env.ann seqs o.experiments o.cutoff)) with
            | error e => rw [h6] at h; simp at h
            | ok rs =>
              rw [h6] at h
              simp only [Except.ok.injEq, Prod.mk.injEq] at h
              obtain ⟨rfl, rfl⟩ := h
              refine ⟨by simpa using h1, ?_, rfl, rfl, rfl, rfl, h5, rfl, h6⟩
              have : (cfg.origin == .mq || cfg.origin == .mqNoRemap) = true := by
                cases hb : (cfg.origin == .mq || cfg.origin == .mqNoRemap) with
                | true => rfl
                | false => rw [hb] at h2; exact absurd rfl h2
              simpa using this

/-! ### the quantification run and the plain run of the same command line -/

theorem runMethodQ_base (q : QuantInput) (env : Env) (several : Bool) (name : String) (cfg : C18.Cfg) (rec : MethodRec)
    (o : Option QTable) (h : runMethodQ q env several name cfg rec = .ok o) :
    Cli.runMethod q.cli env several name cfg rec = .ok (o.map (·.base)) := by
  cases o with
  | some t => exact (runMethodQ_spec q env several name cfg rec t h).1
  | none =>
    unfold runMethodQ at h
    cases hb : Cli.runMethod q.cli env several name cfg rec with
    | error e => rw [hb] at h; simp at h
    | ok ob =>
      rw [hb] at h
      cases ob with
      | none => rfl
      | some b =>
        simp only at h
        split at h
        · split at h <;> simp at h
        · simp at h

theorem loopQ_base (q : QuantInput) (env : Env) (several : Bool) :
    ∀ (its : List (String × C18.Cfg × MethodRec)) (os : List (Option QTable)),
      loopQ q env several its = (os, none) →
      Cli.loop q.cli env several its = (os.map (Option.map (·.base)), none) := by
  intro its
  induction its with
  | nil =>
    intro os h
    simp only [loopQ, Prod.mk.injEq] at h
    obtain ⟨rfl, -⟩ := h
    rfl
  | cons it rest ih =>
    intro os h
    simp only [loopQ] at h
    cases hr : runMethodQ q env several it.1 it.2.1 it.2.2 with
    | error e => rw [hr] at h; simp at h
    | ok o =>
      rw [hr] at h
      simp only [Prod.mk.injEq] at h
      obtain ⟨hos, hnone⟩ := h
      have hrest : loopQ q env several rest = ((loopQ q env several rest).1, none) := by
        rw [← hnone]
      have := ih _ hrest
      subst hos
      simp only [Cli.loop, runMethodQ_base q env several _ _ _ o hr, this, List.map_cons]

theorem filterMap_base : ∀ (os : List (Option QTable)),
    (os.map (Option.map (·.base))).filterMap id = (os.filterMap id).map (·.base)
  | [] => rfl
  | none :: os => by simpa using filterMap_base os
  | some t :: os => by simpa using filterMap_base os

/-- a quantification run that completes writes, method for method, tables whose `base` is what the same command line
    writes without the quantification flags: every theorem about `cliRun` applies to the rows a quantification table
    is built on -/
theorem quantRun_base (q : QuantInput) (ts : List QTable) (h : quantRun q = .ok ts) :
    cliRun q.cli = .ok (ts.map (·.base)) := by
  unfold quantRun at h
  cases ho : quantOutcome q with
  | mk os e =>
    rw [ho] at h
    cases e with
    | some e => simp at h
    | none =>
      simp only [Except.ok.injEq] at h
      subst h
      unfold quantOutcome at ho
      unfold cliRun cliOutcomes cliOutcome
      cases hs : setup q.cli with
      | error e => rw [hs] at ho; simp at ho
      | ok ec =>
        obtain ⟨env, cfgs⟩ := ec
        rw [hs] at ho
        simp only at ho ⊢
        rw [loopQ_base q env _ _ _ ho]
        simp only [Except.ok.injEq]
        exact filterMap_base os

/-! ### the written records, explicitly -/

/-- the header list of a quantification table starts with the nine base headers and has no duplicate -/
theorem quantHeaders_spec (ctx : C13.Ctx) (hs : List String) (h : quantHeaders ctx = .ok hs) :
    (∃ ex, hs = C13.baseHeaders ++ ex) ∧ hs.Nodup := by
  unfold quantHeaders at h
  cases ha : C13.applyAll ctx (C13.Table.init []) (C13.Writer.maxquant true).columns with
  | error e => rw [ha] at h; simp at h
  | ok t =>
    rw [ha] at h
    simp only [Except.ok.injEq] at h
    subst h
    have hi := C13.applyAll_inv ctx _ _ _ ha (C13.init_inv [] (by intro r hr; cases hr))
    exact ⟨hi.1, hi.2.1⟩

/-- a table that was written consists of the header list the MaxQuant writer's generators build for the run's
    experiments / channels, followed by the cells of every row in order (the header dict is the identity) -/
theorem renderQuant_eq (ctx : C13.Ctx) (rows : List C13.Row) (recs : List (List String))
    (h : renderQuant ctx rows = .ok recs) :
    ∃ hs, quantHeaders ctx = .ok hs ∧ recs = hs :: rows.map C13.Row.toList ∧
      ∀ r ∈ rows, r.toList.length = hs.length := by
  unfold renderQuant at h
  cases hh : quantHeaders ctx with
  | error e => rw [hh] at h; simp at h
  | ok hs =>
    rw [hh] at h
    simp only at h
    by_cases hall : rows.all (fun r => 9 + r.extra.length == hs.length) = true
    · rw [if_pos hall] at h
      obtain ⟨hex, hnd⟩ := quantHeaders_spec ctx hs hh
      have hi : C13.Table.Inv { headers := hs, rows := rows } := by
        refine ⟨hex, hnd, ?_⟩
        intro r hr
        have := List.all_eq_true.mp hall r hr
        simpa using this
      have hd : (C13.Writer.maxquant true).headerDict ctx { headers := hs, rows := rows } =
          C13.dictOfPairs (hs.map (fun x => (x, x))) := rfl
      rw [hd, C13.writeRecords_identity _ hi] at h
      simp only [Except.ok.injEq] at h
      subst h
      refine ⟨hs, rfl, rfl, ?_⟩
      intro r hr
      have := hi.2.2 r hr
      simp only [C13.Row.toList, List.length_append, List.length_cons, List.length_nil]
      simp only at this
      omega
    · rw [if_neg hall] at h
      simp at h

/-! ### the written lines -/

theorem zip_map_self {α β} (f : α → β) : ∀ (l : List α), l.zip (l.map f) = l.map (fun a => (a, f a))
  | [] => rfl
  | a :: l => by simp [zip_map_self f l]

/-- the written lines are the kept group positions, in order, each with its reported row and the columns
    `C12.groupOut` computes from its identified precursors -/
theorem quantLines_eq (S : Nat) (baseRows : List C06.RowData) (rows : List C12.Row) (groups : List (List String))
    (level : Rat) (ibaq : List (String × Nat)) :
    quantLines baseRows (C12.keptIdx rows groups) (C12.quantifyWith S rows groups level ibaq).groups =
      (C12.keptIdx rows groups).map (fun g =>
        { g := g, base := baseRows.getD g default,
          out := C12.groupOut (C12.experiments rows) S (C12.nTmt rows) (C12.cutoffOf rows groups level) ibaq
            (groups.getD g []) (C12.retain (C12.cutoffOf rows groups level) (C12.attached rows groups g)) }) := by
  unfold quantLines
  have : (C12.quantifyWith S rows groups level ibaq).groups = (C12.keptIdx rows groups).map (fun g =>
      C12.groupOut (C12.experiments rows) S (C12.nTmt rows) (C12.cutoffOf rows groups level) ibaq
        (groups.getD g []) (C12.retain (C12.cutoffOf rows groups level) (C12.attached rows groups g))) := rfl
  rw [this, zip_map_self, List.map_map]
  rfl

theorem keptIdx_lt (rows : List C12.Row) (groups : List (List String)) (g : Nat) (h : g ∈ C12.keptIdx rows groups) :
    g < groups.length ∧ C12.attached rows groups g ≠ [] := by
  unfold C12.keptIdx at h
  rw [List.mem_filter, List.mem_range] at h
  refine ⟨h.1, ?_⟩
  intro hnil
  rw [hnil] at h
  simp at h

theorem keptIdx_sorted (rows : List C12.Row) (groups : List (List String)) :
    (C12.keptIdx rows groups).Pairwise (· < ·) := by
  unfold C12.keptIdx
  exact List.Pairwise.sublist List.filter_sublist List.pairwise_lt_range

/-! ### "every quantification column equals its recomputation", as one predicate -/

open PgFdr.C12 in
/-- the values `o` of one written row are the recomputation from the precursor list `quants` (the identified
    precursors of the row's group), the experiment list `exps`, `S` SILAC channels, the PEP cutoff `c`, the iBAQ
    peptide numbers `ibaq` and the row's protein list `ids` — literally the right-hand sides of `counts_recompute`,
    `idtype_recompute`, `intensity_recompute`, `total_is_sum_of_experiments`, `ibaq_def`, `evidence_ids_sorted_exact`,
    `tmt_recompute` (`T` = the run's `num_tmt_channels`).  The sequence-coverage cells are not part of `GroupOut`;
    their recomputation is `coverageCols_eq` below. -/
def ColumnsRecomputed (exps : List String) (S : Nat) (T : Int) (c : Rat) (ibaq : List (String × Nat))
    (ids : List String) (quants : List Row) (o : GroupOut) : Prop :=
  o.ids = ids ∧ o.quants = quants ∧
  -- unique peptide counts: combined, per experiment
  o.counts.getD 0 0 = ((quants.filter (used c)).map (·.peptide)).toFinset.card ∧
  (∀ e, e < exps.length →
    o.counts.getD (e + 1) 0 =
      ((quants.filter (fun q => used c q && (expIdx exps q.experiment == some e))).map (·.peptide)).toFinset.card) ∧
  -- identification type per experiment
  (∀ e, e < exps.length →
    o.idType.getD e "" =
      if quants.any (fun q => (expIdx exps q.experiment == some e) && leCut q.pep c) then "By MS/MS"
      else if quants.any (fun q => (expIdx exps q.experiment == some e) && isMbr q.pep) then "By matching"
      else "") ∧
  -- summed intensity per experiment (`chan 0 q` = the row's `Intensity`) and SILAC channel (`chan (j + 1) q` = its channel `j`)
  (∀ e k, e < exps.length → k ≤ S →
    o.intens.getD (e * (1 + S) + k) 0 =
      ((quants.filter (fun q => q.intensity.isSome && (isMbr q.pep || leCut q.pep c) &&
          (expIdx exps q.experiment == some e))).map
        (chan k)).sum) ∧
  -- the total is the sum over the experiments
  o.total = ((List.range exps.length).map (fun e => o.intens.getD (e * (1 + S)) 0)).sum ∧
  -- iBAQ: peptide numbers per member, division by max 1 n(leading protein)
  o.nPeps = ids.map (nPepsOf ibaq) ∧
  o.ibaqTotal = o.total / ((max 1 (o.nPeps.headD 0) : Nat) : Rat) ∧
  o.ibaq = o.intens.map (fun x => x / ((max 1 (o.nPeps.headD 0) : Nat) : Rat)) ∧
  -- evidence ids: ascending, exactly the ids of the used precursors
  o.evidenceIds.Pairwise (· ≤ ·) ∧
  o.evidenceIds.Perm ((quants.filter (fun q => isMbr q.pep || leCut q.pep c)).map (·.id)) ∧
  -- reporter (TMT) cells: none without reporter channels; otherwise `3*T` per experiment, cell `e*(3T)+k` = the sum of
  -- the `k`-th reporter column over the used precursors of experiment position `e` (right-hand side of `tmt_recompute`)
  (T ≤ 0 → o.tmt = []) ∧
  (∀ e k, e < exps.length → k < 3 * T.toNat →
    o.tmt.getD (e * (3 * T.toNat) + k) 0 =
      ((quants.filter (fun q => (isMbr q.pep || leCut q.pep c) && (expIdx exps q.experiment == some e))).map
        (fun q => q.tmt.getD k 0)).sum)

/-! ### sequence coverage in closed form -/

/-- position `i` of the sequence `seq` is marked by the (stripped) peptide `pep` -/
def covers (seq : List Char) (pep : String) (i : Nat) : Bool :=
  match findSub pep.toList seq with
  | some p => decide (p ≤ i) && decide (i < p + pep.toList.length)
  | none => decide (seq.length ≤ i + 1) && decide (i + 1 < pep.toList.length)

def coveredFraction (seq : List Char) (peps : List String) : Rat :=
  covRatio ((List.range seq.length).map (fun i => peps.any (fun p => covers seq p i)))

theorem mapIdx_id (cov : List Bool) : cov.mapIdx (fun _ b => b) = cov := by
  apply List.ext_getElem?
  intro i
  simp [List.getElem?_mapIdx]

theorem mark_eq (seq : List Char) (cov : List Bool) (pep : String) (h : cov.length = seq.length) :
    mark cov (findSub pep.toList seq) pep.toList.length = cov.mapIdx (fun i b => b || covers seq pep i) := by
  unfold mark covers
  cases findSub pep.toList seq with
  | some p => rfl
  | none => simp only [h]

theorem markAll_eq (seq : List Char) : ∀ (peps : List String) (cov : List Bool), cov.length = seq.length →
    markAll seq cov peps = cov.mapIdx (fun i b => b || peps.any (fun p => covers seq p i)) := by
  intro peps
  induction peps with
  | nil =>
    intro cov _
    simp only [markAll, List.foldl_nil, List.any_nil, Bool.or_false]
    exact (mapIdx_id cov).symm
  | cons p ps ih =>
    intro cov h
    have : markAll seq cov (p :: ps) = markAll seq (mark cov (findSub p.toList seq) p.toList.length) ps := rfl
    rw [this, mark_eq seq cov p h, ih _ (by simp [h])]
    apply List.ext_getElem?
    intro i
    simp only [List.getElem?_mapIdx, Option.map_map, List.any_cons]
    cases cov[i]? with
    | none => rfl
    | some b => simp [Bool.or_assoc]

theorem foldl_markAll_eq (seq : List Char) : ∀ (per : List (List String)) (cov : List Bool), cov.length = seq.length →
    per.foldl (markAll seq) cov = cov.mapIdx (fun i b => b || per.flatten.any (fun p => covers seq p i)) := by
  intro per
  induction per with
  | nil =>
    intro cov _
    simp only [List.foldl_nil, List.flatten_nil, List.any_nil, Bool.or_false]
    exact (mapIdx_id cov).symm
  | cons ps per ih =>
    intro cov h
    rw [List.foldl_cons, markAll_eq seq ps cov h, ih _ (by simp [h])]
    apply List.ext_getElem?
    intro i
    simp only [List.getElem?_mapIdx, Option.map_map, List.flatten_cons, List.any_append]
    cases cov[i]? with
    | none => rfl
    | some b => simp [Bool.or_assoc]

theorem mapIdx_replicate_false (n : Nat) (f : Nat → Bool) :
    (List.replicate n false).mapIdx (fun i b => b || f i) = (List.range n).map f := by
  apply List.ext_getElem?
  intro i
  simp only [List.getElem?_mapIdx, List.getElem?_replicate, List.getElem?_map]
  by_cases h : i < n
  · simp [h]
  · simp [h]

/-- "sequence coverage": the three total cells are the fraction of the positions of the leading protein's sequence
    marked by a stripped peptide of a used precursor of ANY experiment; the cell of experiment position `e` is the
    fraction marked by the peptides of the used precursors of that experiment (0 without such a precursor) -/
theorem coverageCols_eq (seqs : C09.SeqMap) (exps : List String) (c : Rat) (ids : List String) (quants : List C12.Row) :
    coverageCols seqs exps c ids quants =
      (let seq := (C09.lookupSeq seqs (ids.headD "").toList).getD []
       let tot := coveredFraction seq ((List.range exps.length).flatMap (coveragePeps exps c quants))
       [tot, tot, tot] ++ (List.range exps.length).map (fun e =>
         if (coveragePeps exps c quants e).isEmpty then 0
         else coveredFraction seq (coveragePeps exps c quants e))) := by
  unfold coverageCols coveredFraction
  simp only
  rw [foldl_markAll_eq _ _ _ (by simp), mapIdx_replicate_false, List.flatMap_def]
  congr 1
  rw [List.map_map]
  apply List.map_congr_left
  intro e _
  simp only [Function.comp]
  split
  · rfl
  · rw [markAll_eq _ _ _ (by simp), mapIdx_replicate_false]

end PgFdr.CliQuant
