import Mathlib.Tactic.Linarith
import Mathlib.Tactic.Ring
import Mathlib.Data.Rat.Defs
import Mathlib.Algebra.Order.Ring.Rat
import Mathlib.Data.String.Basic
import Mathlib.Data.Prod.Lex
import Mathlib.Data.List.Sort
import Mathlib.Order.Monotone.Basic
import PgFdr.Model.C05

/-! Helper lemmas for C05: positions, the singleton test, the evidence loop as a filter,
    the razor argmax, best-PEP and multiplied-PEP scores. -/
namespace PgFdr.C05

/-! ### positions -/

theorem idxOfFrom_bounds (p : String) : ∀ (gs : List (List String)) (k j : Nat),
    idxOfFrom p k gs = some j → k ≤ j ∧ j < k + gs.length := by
  intro gs
  induction gs with
  | nil => intro k j h; simp [idxOfFrom] at h
  | cons g gs ih =>
    intro k j h
    simp only [idxOfFrom] at h
    cases hr : idxOfFrom p (k + 1) gs with
    | some j' =>
      rw [hr] at h
      have : j' = j := by simpa using h
      subst this
      have := ih (k + 1) j' hr
      simp only [List.length_cons]; omega
    | none =>
      rw [hr] at h
      by_cases hc : g.contains p = true
      · simp only [hc, if_true, Option.some.injEq] at h
        subst h; simp
      · have hc' : g.contains p = false := by simpa using hc
        rw [hc'] at h; simp at h

theorem idxOfFrom_none (p : String) : ∀ (gs : List (List String)) (k : Nat),
    idxOfFrom p k gs = none ↔ ∀ g ∈ gs, p ∉ g := by
  intro gs
  induction gs with
  | nil => intro k; simp [idxOfFrom]
  | cons g gs ih =>
    intro k
    simp only [idxOfFrom]
    cases hr : idxOfFrom p (k + 1) gs with
    | some j =>
      simp only [reduceCtorEq, false_iff]
      intro hall
      have := (ih (k + 1)).mpr (fun g' hg' => hall g' (List.mem_cons_of_mem _ hg'))
      rw [hr] at this; simp at this
    | none =>
      have hn := (ih (k + 1)).mp hr
      by_cases hc : g.contains p = true
      · simp only [hc, if_true, reduceCtorEq, false_iff]
        intro hall
        exact hall g (by simp) (by simpa using hc)
      · have hc' : g.contains p = false := by simpa using hc
        rw [hc']
        simp only [Bool.false_eq_true, if_false, true_iff]
        intro g' hg'
        rcases List.mem_cons.mp hg' with rfl | hg'
        · simpa using hc
        · exact hn g' hg'

/-- the position recorded for `p` is the LAST group listing it -/
theorem idxOfFrom_some (p : String) : ∀ (gs : List (List String)) (k j : Nat),
    idxOfFrom p k gs = some j ↔
      k ≤ j ∧ (∃ g, gs[j - k]? = some g ∧ p ∈ g) ∧
        ∀ m, j - k < m → ∀ g, gs[m]? = some g → p ∉ g := by
  intro gs
  induction gs with
  | nil => intro k j; simp [idxOfFrom]
  | cons g gs ih =>
    intro k j
    simp only [idxOfFrom]
    cases hr : idxOfFrom p (k + 1) gs with
    | some j' =>
      have hb := idxOfFrom_bounds p gs (k + 1) j' hr
      obtain ⟨h1, ⟨g', hg', hp'⟩, h3⟩ := (ih (k + 1) j').mp hr
      constructor
      · intro h
        have : j' = j := by simpa using h
        subst this
        refine ⟨by omega, ⟨g', ?_, hp'⟩, ?_⟩
        · have : j' - k = (j' - (k + 1)) + 1 := by omega
          rw [this]; simpa using hg'
        · intro m hm g'' hg''
          cases m with
          | zero => omega
          | succ m =>
            simp only [List.getElem?_cons_succ] at hg''
            exact h3 m (by omega) g'' hg''
      · rintro ⟨hk, ⟨g'', hg'', hp''⟩, hlast⟩
        -- `p` is listed at position j' - k of `g :: gs`; nothing after j - k lists it
        by_contra hne
        have hne' : j' ≠ j := by simpa using hne
        rcases Nat.lt_or_gt_of_ne hne' with hlt | hgt
        · -- j' < j : but nothing after j' - (k+1) in gs lists p
          have hj : j - k = (j - (k + 1)) + 1 := by omega
          rw [hj] at hg''
          simp only [List.getElem?_cons_succ] at hg''
          exact h3 (j - (k + 1)) (by omega) g'' hg'' hp''
        · have hj : j' - k = (j' - (k + 1)) + 1 := by omega
          have : (g :: gs)[j' - k]? = some g' := by rw [hj]; simpa using hg'
          exact hlast (j' - k) (by omega) g' this hp'
    | none =>
      have hn := (idxOfFrom_none p gs (k + 1)).mp hr
      by_cases hc : g.contains p = true
      · simp only [hc, if_true, Option.some.injEq]
        have hp : p ∈ g := by simpa using hc
        constructor
        · intro h; subst h
          refine ⟨le_refl _, ⟨g, by simp, hp⟩, ?_⟩
          intro m hm g' hg'
          cases m with
          | zero => omega
          | succ m =>
            simp only [List.getElem?_cons_succ] at hg'
            exact hn g' (List.mem_of_getElem? hg')
        · rintro ⟨hk, ⟨g'', hg'', hp''⟩, _⟩
          by_contra hne
          have hj : j - k = (j - (k + 1)) + 1 := by omega
          rw [hj] at hg''
          simp only [List.getElem?_cons_succ] at hg''
          exact hn g'' (List.mem_of_getElem? hg'') hp''
      · have hp : p ∉ g := by simpa using hc
        have hc' : g.contains p = false := by simpa using hc
        rw [hc']
        simp only [Bool.false_eq_true, if_false, reduceCtorEq, false_iff]
        rintro ⟨hk, ⟨g'', hg'', hp''⟩, _⟩
        by_cases hjk : j = k
        · subst hjk
          simp at hg''
          subst hg''
          exact hp hp''
        · have hj : j - k = (j - (k + 1)) + 1 := by omega
          rw [hj] at hg''
          simp only [List.getElem?_cons_succ] at hg''
          exact hn g'' (List.mem_of_getElem? hg'') hp''

theorem idxOf_lt (groups : List (List String)) (p : String) (i : Nat)
    (h : idxOf groups p = some i) : i < groups.length := by
  have := idxOfFrom_bounds p groups 0 i h
  omega

theorem idxOf_none_iff (groups : List (List String)) (p : String) :
    idxOf groups p = none ↔ ∀ g ∈ groups, p ∉ g := idxOfFrom_none p groups 0

theorem idxOf_some_iff (groups : List (List String)) (p : String) (i : Nat) :
    idxOf groups p = some i ↔
      (∃ g, groups[i]? = some g ∧ p ∈ g) ∧ ∀ m, i < m → ∀ g, groups[m]? = some g → p ∉ g := by
  unfold idxOf
  rw [idxOfFrom_some]
  simp

/-! ### the singleton test -/

theorem single_eq_some (l : List (Option Nat)) (x : Option Nat) :
    single l = some x ↔ l ≠ [] ∧ ∀ y ∈ l, y = x := by
  cases l with
  | nil => simp [single]
  | cons a r =>
    simp only [single]
    constructor
    · intro h
      split at h
      · rename_i hall
        have : a = x := by simpa using h
        subst this
        refine ⟨by simp, ?_⟩
        intro y hy
        rcases List.mem_cons.mp hy with rfl | hy
        · rfl
        · have := List.all_eq_true.mp hall y hy
          simpa using this
      · simp at h
    · rintro ⟨_, h⟩
      have ha : a = x := h a (by simp)
      subst ha
      have : r.all (fun y => y == a) = true := by
        rw [List.all_eq_true]; intro y hy; simpa using h y (by simp [hy])
      simp [this]

theorem isMissing_iff (l : List (Option Nat)) : isMissing l = true ↔ ∀ y ∈ l, y = none := by
  simp [isMissing, List.all_eq_true]

theorem isShared_iff (l : List (Option Nat)) :
    isShared l = true ↔ ∃ x ∈ l, ∃ y ∈ l, x ≠ y := by
  cases l with
  | nil => simp [isShared]
  | cons a r =>
    simp only [isShared, Bool.not_eq_true', List.all_eq_false, beq_iff_eq]
    constructor
    · rintro ⟨y, hy, hne⟩
      exact ⟨y, by simp [hy], a, by simp, hne⟩
    · rintro ⟨x, hx, y, hy, hne⟩
      by_cases hxa : x = a
      · subst hxa
        rcases List.mem_cons.mp hy with rfl | hy
        · exact absurd rfl hne
        · exact ⟨y, hy, fun h => hne h.symm⟩
      · rcases List.mem_cons.mp hx with rfl | hx
        · exact absurd rfl hxa
        · exact ⟨x, hx, hxa⟩

/-- `len(set) == 1` ⟺ neither empty nor shared -/
theorem single_isSome_iff (l : List (Option Nat)) :
    (∃ x, single l = some x) ↔ l ≠ [] ∧ isShared l = false := by
  cases l with
  | nil => simp [single]
  | cons a r =>
    simp only [single, isShared]
    by_cases h : r.all (fun y => y == a) = true <;> simp [h]

theorem supportOf_eq_some (groups : List (List String)) (prots : List String) (i : Nat) :
    supportOf groups prots = some i ↔ prots ≠ [] ∧ ∀ p ∈ prots, idxOf groups p = some i := by
  unfold supportOf
  constructor
  · intro h
    split at h
    · rename_i j hj
      have : j = i := by simpa using h
      subst this
      obtain ⟨h1, h2⟩ := (single_eq_some _ _).mp hj
      refine ⟨by simpa [groupIdxs] using h1, ?_⟩
      intro p hp
      exact h2 _ (List.mem_map_of_mem hp)
    · simp at h
  · rintro ⟨h1, h2⟩
    have : single (groupIdxs groups prots) = some (some i) := by
      rw [single_eq_some]
      refine ⟨by simpa [groupIdxs] using h1, ?_⟩
      intro y hy
      obtain ⟨p, hp, rfl⟩ := List.mem_map.mp hy
      exact h2 p hp
    rw [this]

/-! ### the loop -/

/-- what one peptide contributes: the position it supports and its evidence tuple -/
def assign (groups : List (List String)) (rz : Option Razor) (x : PepInfo) : Option (Nat × Evidence) :=
  match filterProteins rz x.proteins with
  | .error _ => none
  | .ok prots =>
    match supportOf groups prots with
    | some i => some (i, ⟨x.pep, x.peptide, prots⟩)
    | none => none

/-- the evidence tuple a peptide contributes to position `i`, if any -/
def evFor (groups : List (List String)) (rz : Option Razor) (i : Nat) (x : PepInfo) : Option Evidence :=
  match assign groups rz x with
  | some (j, e) => if j = i then some e else none
  | none => none

/-- the PEP a peptide contributes to the cutoff list, if any -/
def pepFor (groups : List (List String)) (rz : Option Razor) (x : PepInfo) : Option Rat :=
  match assign groups rz x with
  | some (_, e) => if isDecoy e.proteins then none else some e.pep
  | none => none

/-- a peptide makes the call fail -/
def rejects (groups : List (List String)) (rz : Option Razor) (suppress : Bool) (x : PepInfo) : Prop :=
  match filterProteins rz x.proteins with
  | .error _ => True
  | .ok prots => isMissing (groupIdxs groups prots) = true ∧ suppress = false

theorem step_ok (groups : List (List String)) (rz : Option Razor) (suppress : Bool) (st st' : State)
    (x : PepInfo) (h : step groups rz suppress st x = .ok st') :
    ¬ rejects groups rz suppress x ∧
    st'.1 = (match assign groups rz x with
      | some (i, e) => st.1.modify i (· ++ [e])
      | none => st.1) ∧
    st'.2 = (match pepFor groups rz x with
      | some q => st.2 ++ [q]
      | none => st.2) := by
  unfold step at h
  unfold rejects assign pepFor assign supportOf
  cases hf : filterProteins rz x.proteins with
  | error e => rw [hf] at h; simp at h
  | ok prots =>
    rw [hf] at h
    simp only at h ⊢
    by_cases hm : (isMissing (groupIdxs groups prots) && !suppress) = true
    · simp [hm] at h
    · simp only [hm, Bool.false_eq_true, if_false] at h
      have hrej : ¬ (isMissing (groupIdxs groups prots) = true ∧ suppress = false) := by
        intro ⟨h1, h2⟩; simp [h1, h2] at hm
      refine ⟨hrej, ?_⟩
      by_cases hs : isShared (groupIdxs groups prots) = true
      · simp only [hs, if_true] at h
        have hst : st' = st := by
          injection h with h; exact h.symm
        have hnone : ∀ v, single (groupIdxs groups prots) ≠ some v := by
          intro v hv
          have := (single_isSome_iff _).mp ⟨v, hv⟩
          rw [hs] at this; simp at this
        subst hst
        cases hsg : single (groupIdxs groups prots) with
        | none => simp
        | some v => exact absurd hsg (hnone v)
      · simp only [hs, Bool.false_eq_true, if_false] at h
        cases hsg : single (groupIdxs groups prots) with
        | none =>
          rw [hsg] at h
          have hst : st' = st := by injection h with h; exact h.symm
          subst hst; simp
        | some v =>
          cases v with
          | none =>
            rw [hsg] at h
            have hst : st' = st := by injection h with h; exact h.symm
            subst hst; simp
          | some i =>
            rw [hsg] at h
            have hst : st' = (st.1.modify i (· ++ [⟨x.pep, x.peptide, prots⟩]),
                if isDecoy prots then st.2 else st.2 ++ [x.pep]) := by
              injection h with h; exact h.symm
            subst hst
            by_cases hd : isDecoy prots = true <;> simp [hd]

theorem step_error (groups : List (List String)) (rz : Option Razor) (suppress : Bool) (st : State)
    (x : PepInfo) (e : Err) (h : step groups rz suppress st x = .error e) :
    rejects groups rz suppress x := by
  unfold step at h
  unfold rejects
  cases hf : filterProteins rz x.proteins with
  | error e' => trivial
  | ok prots =>
    rw [hf] at h
    simp only at h ⊢
    by_cases hm : (isMissing (groupIdxs groups prots) && !suppress) = true
    · simpa using hm
    · simp only [hm, Bool.false_eq_true, if_false] at h
      by_cases hs : isShared (groupIdxs groups prots) = true
      · simp [hs] at h
      · simp only [hs, Bool.false_eq_true, if_false] at h
        split at h <;> simp at h

theorem modify_append_getElem? {α : Type} (l : List (List α)) (j i : Nat) (e : α) (hi : i < l.length) :
    (l.modify j (· ++ [e]))[i]? = some (if j = i then l[i] ++ [e] else l[i]) := by
  by_cases hji : j = i
  · subst hji; simp [List.getElem?_modify, hi]
  · simp [List.getElem?_modify, hji, hi]

/-- the loop, when it succeeds, appends to every position the peptides assigned to it, in order -/
theorem collectLoop_ok (groups : List (List String)) (rz : Option Razor) (suppress : Bool) :
    ∀ (pil : List PepInfo) (st st' : State), collectLoop groups rz suppress pil st = .ok st' →
      (∀ x ∈ pil, ¬ rejects groups rz suppress x) ∧
      st'.1.length = st.1.length ∧
      (∀ i (hi : i < st.1.length), st'.1[i]? = some (st.1[i] ++ pil.filterMap (evFor groups rz i))) ∧
      st'.2 = st.2 ++ pil.filterMap (pepFor groups rz) := by
  intro pil
  induction pil with
  | nil =>
    intro st st' h
    simp only [collectLoop] at h
    have : st' = st := by injection h with h; exact h.symm
    subst this
    refine ⟨by simp, rfl, ?_, by simp⟩
    intro i hi; simp [List.getElem?_eq_getElem hi]
  | cons x r ih =>
    intro st st' h
    simp only [collectLoop] at h
    cases hs : step groups rz suppress st x with
    | error e => rw [hs] at h; simp at h
    | ok st1 =>
      rw [hs] at h
      simp only at h
      obtain ⟨hrej, h1, h2⟩ := step_ok groups rz suppress st st1 x hs
      obtain ⟨ihrej, ihlen, ihget, ihpep⟩ := ih st1 st' h
      have hlen1 : st1.1.length = st.1.length := by
        rw [h1]; split <;> simp
      refine ⟨?_, by omega, ?_, ?_⟩
      · intro y hy
        rcases List.mem_cons.mp hy with rfl | hy
        · exact hrej
        · exact ihrej y hy
      · intro i hi
        rw [ihget i (by omega)]
        congr 1
        have hget : st1.1[i]? = some (match evFor groups rz i x with
            | some e => st.1[i] ++ [e]
            | none => st.1[i]) := by
          rw [h1]
          unfold evFor
          cases ha : assign groups rz x with
          | none => simp [List.getElem?_eq_getElem hi]
          | some je =>
            obtain ⟨j, e⟩ := je
            simp only
            rw [modify_append_getElem? _ _ _ _ hi]
            by_cases hji : j = i <;> simp [hji]
        rw [List.getElem?_eq_getElem (by omega)] at hget
        rw [Option.some.inj hget]
        cases hev : evFor groups rz i x with
        | none => simp [List.filterMap_cons, hev]
        | some e => simp [List.filterMap_cons, hev]
      · rw [ihpep, h2]
        cases hp : pepFor groups rz x with
        | none => simp [List.filterMap_cons, hp]
        | some q => simp [List.filterMap_cons, hp]

theorem collectLoop_error (groups : List (List String)) (rz : Option Razor) (suppress : Bool) :
    ∀ (pil : List PepInfo) (st : State) (e : Err), collectLoop groups rz suppress pil st = .error e →
      ∃ x ∈ pil, rejects groups rz suppress x := by
  intro pil
  induction pil with
  | nil => intro st e h; simp [collectLoop] at h
  | cons x r ih =>
    intro st e h
    simp only [collectLoop] at h
    cases hs : step groups rz suppress st x with
    | error e' => exact ⟨x, by simp, step_error groups rz suppress st x e' hs⟩
    | ok st1 =>
      rw [hs] at h
      obtain ⟨y, hy, hr⟩ := ih st1 e h
      exact ⟨y, List.mem_cons_of_mem _ hy, hr⟩

/-- `collectEvidence` is a position-wise filter of the peptide list -/
theorem collect_get (groups : List (List String)) (pil : List PepInfo) (rz : Option Razor)
    (suppress : Bool) (evs : List (List Evidence)) (peps : List Rat)
    (h : collectEvidence groups pil rz suppress = .ok (evs, peps)) :
    evs.length = groups.length ∧
    (∀ i, i < groups.length → evs[i]? = some (pil.filterMap (evFor groups rz i))) ∧
    peps = pil.filterMap (pepFor groups rz) := by
  unfold collectEvidence at h
  obtain ⟨_, hlen, hget, hpep⟩ := collectLoop_ok groups rz suppress pil _ _ h
  refine ⟨by simpa using hlen, ?_, by simpa using hpep⟩
  intro i hi
  have := hget i (by simpa using hi)
  simpa using this

theorem collect_getD (groups : List (List String)) (pil : List PepInfo) (rz : Option Razor)
    (suppress : Bool) (evs : List (List Evidence)) (peps : List Rat)
    (h : collectEvidence groups pil rz suppress = .ok (evs, peps)) (i : Nat) (hi : i < groups.length) :
    evs.getD i [] = pil.filterMap (evFor groups rz i) := by
  have := (collect_get groups pil rz suppress evs peps h).2.1 i hi
  simp [List.getD, this]

theorem collect_ok_iff (groups : List (List String)) (pil : List PepInfo) (rz : Option Razor)
    (suppress : Bool) :
    (∃ r, collectEvidence groups pil rz suppress = .ok r) ↔ ∀ x ∈ pil, ¬ rejects groups rz suppress x := by
  constructor
  · rintro ⟨r, h⟩
    exact (collectLoop_ok groups rz suppress pil _ _ h).1
  · intro hall
    cases h : collectEvidence groups pil rz suppress with
    | ok r => exact ⟨r, rfl⟩
    | error e =>
      obtain ⟨x, hx, hr⟩ := collectLoop_error groups rz suppress pil _ e h
      exact absurd hr (hall x hx)

end PgFdr.C05
