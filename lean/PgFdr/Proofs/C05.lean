import Mathlib.Tactic.Linarith
import Mathlib.Tactic.Ring
import Mathlib.Data.Rat.Defs
import Mathlib.Algebra.Order.Ring.Rat
import Mathlib.Data.String.Basic
import Mathlib.Data.Prod.Lex
import Mathlib.Data.List.Sort
import Mathlib.Order.Monotone.Basic
import Mathlib.Data.List.Dedup
import Mathlib.Data.List.Perm.Basic
import Mathlib.Algebra.BigOperators.Group.List.Basic
import PgFdr.Model.C05

/-! Helper lemmas for C05: positions, the singleton test, the evidence loop as a filter,
    the razor argmax, best-PEP and multiplied-PEP scores. -/
namespace PgFdr.C05

/-! ### positions -/

theorem idxOfFrom_bounds (p : String) : ∀ (gs : List (List String)) (k j : Nat),
    idxOfFrom p k gs = some j → k ≤ j ∧ j < k + gs.length := by
  intro gs
  induction gs with
  | nil => intro k j h; simp [idxOfFrom] at h
  | cons g gs ih =>
    intro k j h
    simp only [idxOfFrom] at h
    cases hr : idxOfFrom p (k + 1) gs with
    | some j' =>
      rw [hr] at h
      have : j' = j := by simpa using h
      subst this
      have := ih (k + 1) j' hr
      simp only [List.length_cons]; omega
    | none =>
      rw [hr] at h
      by_cases hc : g.contains p = true
      · simp only [hc, if_true, Option.some.injEq] at h
        subst h; simp
      · have hc' : g.contains p = false := by simpa using hc
        rw [hc'] at h; simp at h

theorem idxOfFrom_none (p : String) : ∀ (gs : List (List String)) (k : Nat),
    idxOfFrom p k gs = none ↔ ∀ g ∈ gs, p ∉ g := by
  intro gs
  induction gs with
  | nil => intro k; simp [idxOfFrom]
  | cons g gs ih =>
    intro k
    simp only [idxOfFrom]
    cases hr : idxOfFrom p (k + 1) gs with
    | some j =>
      simp only [reduceCtorEq, false_iff]
      intro hall
      have := (ih (k + 1)).mpr (fun g' hg' => hall g' (List.mem_cons_of_mem _ hg'))
      rw [hr] at this; simp at this
    | none =>
      have hn := (ih (k + 1)).mp hr
      by_cases hc : g.contains p = true
      · simp only [hc, if_true, reduceCtorEq, false_iff]
        intro hall
        exact hall g (by simp) (by simpa using hc)
      · have hc' : g.contains p = false := by simpa using hc
        rw [hc']
        simp only [Bool.false_eq_true, if_false, true_iff]
        intro g' hg'
        rcases List.mem_cons.mp hg' with rfl | hg'
        · simpa using hc
        · exact hn g' hg'

/-- the position recorded for `p` is the LAST group listing it -/
theorem idxOfFrom_some (p : String) : ∀ (gs : List (List String)) (k j : Nat),
    idxOfFrom p k gs = some j ↔
      k ≤ j ∧ (∃ g, gs[j - k]? = some g ∧ p ∈ g) ∧
        ∀ m, j - k < m → ∀ g, gs[m]? = some g → p ∉ g := by
  intro gs
  induction gs with
  | nil => intro k j; simp [idxOfFrom]
  | cons g gs ih =>
    intro k j
    simp only [idxOfFrom]
    cases hr : idxOfFrom p (k + 1) gs with
    | some j' =>
      have hb := idxOfFrom_bounds p gs (k + 1) j' hr
      obtain ⟨h1, ⟨g', hg', hp'⟩, h3⟩ := (ih (k + 1) j').mp hr
      constructor
      · intro h
        have : j' = j := by simpa using h
        subst this
        refine ⟨by omega, ⟨g', ?_, hp'⟩, ?_⟩
        · have : j' - k = (j' - (k + 1)) + 1 := by omega
          rw [this]; simpa using hg'
        · intro m hm g'' hg''
          cases m with
          | zero => omega
          | succ m =>
            simp only [List.getElem?_cons_succ] at hg''
            exact h3 m (by omega) g'' hg''
      · rintro ⟨hk, ⟨g'', hg'', hp''⟩, hlast⟩
        -- `p` is listed at position j' - k of `g :: gs`; nothing after j - k lists it
        by_contra hne
        have hne' : j' ≠ j := by simpa using hne
        rcases Nat.lt_or_gt_of_ne hne' with hlt | hgt
        · -- j' < j : but nothing after j' - (k+1) in gs lists p
          have hj : j - k = (j - (k + 1)) + 1 := by omega
          rw [hj] at hg''
          simp only [List.getElem?_cons_succ] at hg''
          exact h3 (j - (k + 1)) (by omega) g'' hg'' hp''
        · have hj : j' - k = (j' - (k + 1)) + 1 := by omega
          have : (g :: gs)[j' - k]? = some g' := by rw [hj]; simpa using hg'
          exact hlast (j' - k) (by omega) g' this hp'
    | none =>
      have hn := (idxOfFrom_none p gs (k + 1)).mp hr
      by_cases hc : g.contains p = true
      · simp only [hc, if_true, Option.some.injEq]
        have hp : p ∈ g := by simpa using hc
        constructor
        · intro h; subst h
          refine ⟨le_refl _, ⟨g, by simp, hp⟩, ?_⟩
          intro m hm g' hg'
          cases m with
          | zero => omega
          | succ m =>
            simp only [List.getElem?_cons_succ] at hg'
            exact hn g' (List.mem_of_getElem? hg')
        · rintro ⟨hk, ⟨g'', hg'', hp''⟩, _⟩
          by_contra hne
          have hj : j - k = (j - (k + 1)) + 1 := by omega
          rw [hj] at hg''
          simp only [List.getElem?_cons_succ] at hg''
          exact hn g'' (List.mem_of_getElem? hg'') hp''
      · have hp : p ∉ g := by simpa using hc
        have hc' : g.contains p = false := by simpa using hc
        rw [hc']
        simp only [Bool.false_eq_true, if_false, reduceCtorEq, false_iff]
        rintro ⟨hk, ⟨g'', hg'', hp''⟩, _⟩
        by_cases hjk : j = k
        · subst hjk
          simp at hg''
          subst hg''
          exact hp hp''
        · have hj : j - k = (j - (k + 1)) + 1 := by omega
          rw [hj] at hg''
          simp only [List.getElem?_cons_succ] at hg''
          exact hn g'' (List.mem_of_getElem? hg'') hp''

theorem idxOf_lt (groups : List (List String)) (p : String) (i : Nat)
    (h : idxOf groups p = some i) : i < groups.length := by
  have := idxOfFrom_bounds p groups 0 i h
  omega

theorem idxOf_none_iff (groups : List (List String)) (p : String) :
    idxOf groups p = none ↔ ∀ g ∈ groups, p ∉ g := idxOfFrom_none p groups 0

theorem idxOf_some_iff (groups : List (List String)) (p : String) (i : Nat) :
    idxOf groups p = some i ↔
      (∃ g, groups[i]? = some g ∧ p ∈ g) ∧ ∀ m, i < m → ∀ g, groups[m]? = some g → p ∉ g := by
  unfold idxOf
  rw [idxOfFrom_some]
  simp

/-! ### the singleton test -/

theorem single_eq_some (l : List (Option Nat)) (x : Option Nat) :
    single l = some x ↔ l ≠ [] ∧ ∀ y ∈ l, y = x := by
  cases l with
  | nil => simp [single]
  | cons a r =>
    simp only [single]
    constructor
    · intro h
      split at h
      · rename_i hall
        have : a = x := by simpa using h
        subst this
        refine ⟨by simp, ?_⟩
        intro y hy
        rcases List.mem_cons.mp hy with rfl | hy
        · rfl
        · have := List.all_eq_true.mp hall y hy
          simpa using this
      · simp at h
    · rintro ⟨_, h⟩
      have ha : a = x := h a (by simp)
      subst ha
      have : r.all (fun y => y == a) = true := by
        rw [List.all_eq_true]; intro y hy; simpa using h y (by simp [hy])
      simp [this]

theorem isMissing_iff (l : List (Option Nat)) : isMissing l = true ↔ ∀ y ∈ l, y = none := by
  simp [isMissing, List.all_eq_true]

theorem isShared_iff (l : List (Option Nat)) :
    isShared l = true ↔ ∃ x ∈ l, ∃ y ∈ l, x ≠ y := by
  cases l with
  | nil => simp [isShared]
  | cons a r =>
    simp only [isShared, Bool.not_eq_true', List.all_eq_false, beq_iff_eq]
    constructor
    · rintro ⟨y, hy, hne⟩
      exact ⟨y, by simp [hy], a, by simp, hne⟩
    · rintro ⟨x, hx, y, hy, hne⟩
      by_cases hxa : x = a
      · subst hxa
        rcases List.mem_cons.mp hy with rfl | hy
        · exact absurd rfl hne
        · exact ⟨y, hy, fun h => hne h.symm⟩
      · rcases List.mem_cons.mp hx with rfl | hx
        · exact absurd rfl hxa
        · exact ⟨x, hx, hxa⟩

/-- `len(set) == 1` ⟺ neither empty nor shared -/
theorem single_isSome_iff (l : List (Option Nat)) :
    (∃ x, single l = some x) ↔ l ≠ [] ∧ isShared l = false := by
  cases l with
  | nil => simp [single]
  | cons a r =>
    simp only [single, isShared]
    by_cases h : r.all (fun y => y == a) = true <;> simp [h]

theorem supportOf_eq_some (groups : List (List String)) (prots : List String) (i : Nat) :
    supportOf groups prots = some i ↔ prots ≠ [] ∧ ∀ p ∈ prots, idxOf groups p = some i := by
  unfold supportOf
  constructor
  · intro h
    split at h
    · rename_i j hj
      have : j = i := by simpa using h
      subst this
      obtain ⟨h1, h2⟩ := (single_eq_some _ _).mp hj
      refine ⟨by simpa [groupIdxs] using h1, ?_⟩
      intro p hp
      exact h2 _ (List.mem_map_of_mem hp)
    · simp at h
  · rintro ⟨h1, h2⟩
    have : single (groupIdxs groups prots) = some (some i) := by
      rw [single_eq_some]
      refine ⟨by simpa [groupIdxs] using h1, ?_⟩
      intro y hy
      obtain ⟨p, hp, rfl⟩ := List.mem_map.mp hy
      exact h2 p hp
    rw [this]

/-! ### the loop -/

/-- what one peptide contributes: the position it supports and its evidence tuple -/
def assign (groups : List (List String)) (rz : Option Razor) (x : PepInfo) : Option (Nat × Evidence) :=
  match filterProteins rz x.proteins with
  | .error _ => none
  | .ok prots =>
    match supportOf groups prots with
    | some i => some (i, ⟨x.pep, x.peptide, prots⟩)
    | none => none

/-- the evidence tuple a peptide contributes to position `i`, if any -/
def evFor (groups : List (List String)) (rz : Option Razor) (i : Nat) (x : PepInfo) : Option Evidence :=
  match assign groups rz x with
  | some (j, e) => if j = i then some e else none
  | none => none

/-- the PEP a peptide contributes to the cutoff list, if any -/
def pepFor (groups : List (List String)) (rz : Option Razor) (x : PepInfo) : Option Rat :=
  match assign groups rz x with
  | some (_, e) => if isDecoy e.proteins then none else some e.pep
  | none => none

/-- a peptide makes the call fail -/
def rejects (groups : List (List String)) (rz : Option Razor) (suppress : Bool) (x : PepInfo) : Prop :=
  match filterProteins rz x.proteins with
  | .error _ => True
  | .ok prots => isMissing (groupIdxs groups prots) = true ∧ suppress = false

theorem step_ok (groups : List (List String)) (rz : Option Razor) (suppress : Bool) (st st' : State)
    (x : PepInfo) (h : step groups rz suppress st x = .ok st') :
    ¬ rejects groups rz suppress x ∧
    st'.1 = (match assign groups rz x with
      | some (i, e) => st.1.modify i (· ++ [e])
      | none => st.1) ∧
    st'.2 = (match pepFor groups rz x with
      | some q => st.2 ++ [q]
      | none => st.2) := by
  unfold step at h
  unfold rejects assign pepFor assign supportOf
  cases hf : filterProteins rz x.proteins with
  | error e => rw [hf] at h; simp at h
  | ok prots =>
    rw [hf] at h
    simp only at h ⊢
    by_cases hm : (isMissing (groupIdxs groups prots) && !suppress) = true
    · simp [hm] at h
    · simp only [hm, Bool.false_eq_true, if_false] at h
      have hrej : ¬ (isMissing (groupIdxs groups prots) = true ∧ suppress = false) := by
        intro ⟨h1, h2⟩; simp [h1, h2] at hm
      refine ⟨hrej, ?_⟩
      by_cases hs : isShared (groupIdxs groups prots) = true
      · simp only [hs, if_true] at h
        have hst : st' = st := by
          injection h with h; exact h.symm
        have hnone : ∀ v, single (groupIdxs groups prots) ≠ some v := by
          intro v hv
          have := (single_isSome_iff _).mp ⟨v, hv⟩
          rw [hs] at this; simp at this
        subst hst
        cases hsg : single (groupIdxs groups prots) with
        | none => simp
        | some v => exact absurd hsg (hnone v)
      · simp only [hs, Bool.false_eq_true, if_false] at h
        cases hsg : single (groupIdxs groups prots) with
        | none =>
          rw [hsg] at h
          have hst : st' = st := by injection h with h; exact h.symm
          subst hst; simp
        | some v =>
          cases v with
          | none =>
            rw [hsg] at h
            have hst : st' = st := by injection h with h; exact h.symm
            subst hst; simp
          | some i =>
            rw [hsg] at h
            have hst : st' = (st.1.modify i (· ++ [⟨x.pep, x.peptide, prots⟩]),
                if isDecoy prots then st.2 else st.2 ++ [x.pep]) := by
              injection h with h; exact h.symm
            subst hst
            by_cases hd : isDecoy prots = true <;> simp [hd]

theorem step_error (groups : List (List String)) (rz : Option Razor) (suppress : Bool) (st : State)
    (x : PepInfo) (e : Err) (h : step groups rz suppress st x = .error e) :
    rejects groups rz suppress x := by
  unfold step at h
  unfold rejects
  cases hf : filterProteins rz x.proteins with
  | error e' => trivial
  | ok prots =>
    rw [hf] at h
    simp only at h ⊢
    by_cases hm : (isMissing (groupIdxs groups prots) && !suppress) = true
    · simpa using hm
    · simp only [hm, Bool.false_eq_true, if_false] at h
      by_cases hs : isShared (groupIdxs groups prots) = true
      · simp [hs] at h
      · simp only [hs, Bool.false_eq_true, if_false] at h
        split at h <;> simp at h

theorem modify_append_getElem? {α : Type} (l : List (List α)) (j i : Nat) (e : α) (hi : i < l.length) :
    (l.modify j (· ++ [e]))[i]? = some (if j = i then l[i] ++ [e] else l[i]) := by
  by_cases hji : j = i
  · subst hji; simp [List.getElem?_modify, hi]
  · simp [List.getElem?_modify, hji, hi]

/-- the loop, when it succeeds, appends to every position the peptides assigned to it, in order -/
theorem collectLoop_ok (groups : List (List String)) (rz : Option Razor) (suppress : Bool) :
    ∀ (pil : List PepInfo) (st st' : State), collectLoop groups rz suppress pil st = .ok st' →
      (∀ x ∈ pil, ¬ rejects groups rz suppress x) ∧
      st'.1.length = st.1.length ∧
      (∀ i (hi : i < st.1.length), st'.1[i]? = some (st.1[i] ++ pil.filterMap (evFor groups rz i))) ∧
      st'.2 = st.2 ++ pil.filterMap (pepFor groups rz) := by
  intro pil
  induction pil with
  | nil =>
    intro st st' h
    simp only [collectLoop] at h
    have : st' = st := by injection h with h; exact h.symm
    subst this
    refine ⟨by simp, rfl, ?_, by simp⟩
    intro i hi; simp [List.getElem?_eq_getElem hi]
  | cons x r ih =>
    intro st st' h
    simp only [collectLoop] at h
    cases hs : step groups rz suppress st x with
    | error e => rw [hs] at h; simp at h
    | ok st1 =>
      rw [hs] at h
      simp only at h
      obtain ⟨hrej, h1, h2⟩ := step_ok groups rz suppress st st1 x hs
      obtain ⟨ihrej, ihlen, ihget, ihpep⟩ := ih st1 st' h
      have hlen1 : st1.1.length = st.1.length := by
        rw [h1]; split <;> simp
      refine ⟨?_, by omega, ?_, ?_⟩
      · intro y hy
        rcases List.mem_cons.mp hy with rfl | hy
        · exact hrej
        · exact ihrej y hy
      · intro i hi
        rw [ihget i (by omega)]
        congr 1
        have hget : st1.1[i]? = some (match evFor groups rz i x with
            | some e => st.1[i] ++ [e]
            | none => st.1[i]) := by
          rw [h1]
          unfold evFor
          cases ha : assign groups rz x with
          | none => simp [List.getElem?_eq_getElem hi]
          | some je =>
            obtain ⟨j, e⟩ := je
            simp only
            rw [modify_append_getElem? _ _ _ _ hi]
            by_cases hji : j = i <;> simp [hji]
        rw [List.getElem?_eq_getElem (by omega)] at hget
        rw [Option.some.inj hget]
        cases hev : evFor groups rz i x with
        | none => simp [List.filterMap_cons, hev]
        | some e => simp [List.filterMap_cons, hev]
      · rw [ihpep, h2]
        cases hp : pepFor groups rz x with
        | none => simp [List.filterMap_cons, hp]
        | some q => simp [List.filterMap_cons, hp]

theorem collectLoop_error (groups : List (List String)) (rz : Option Razor) (suppress : Bool) :
    ∀ (pil : List PepInfo) (st : State) (e : Err), collectLoop groups rz suppress pil st = .error e →
      ∃ x ∈ pil, rejects groups rz suppress x := by
  intro pil
  induction pil with
  | nil => intro st e h; simp [collectLoop] at h
  | cons x r ih =>
    intro st e h
    simp only [collectLoop] at h
    cases hs : step groups rz suppress st x with
    | error e' => exact ⟨x, by simp, step_error groups rz suppress st x e' hs⟩
    | ok st1 =>
      rw [hs] at h
      obtain ⟨y, hy, hr⟩ := ih st1 e h
      exact ⟨y, List.mem_cons_of_mem _ hy, hr⟩

/-- `collectEvidence` is a position-wise filter of the peptide list -/
theorem collect_get (groups : List (List String)) (pil : List PepInfo) (rz : Option Razor)
    (suppress : Bool) (evs : List (List Evidence)) (peps : List Rat)
    (h : collectEvidence groups pil rz suppress = .ok (evs, peps)) :
    evs.length = groups.length ∧
    (∀ i, i < groups.length → evs[i]? = some (pil.filterMap (evFor groups rz i))) ∧
    peps = pil.filterMap (pepFor groups rz) := by
  unfold collectEvidence at h
  obtain ⟨_, hlen, hget, hpep⟩ := collectLoop_ok groups rz suppress pil _ _ h
  refine ⟨by simpa using hlen, ?_, by simpa using hpep⟩
  intro i hi
  have := hget i (by simpa using hi)
  simpa using this

theorem collect_getD (groups : List (List String)) (pil : List PepInfo) (rz : Option Razor)
    (suppress : Bool) (evs : List (List Evidence)) (peps : List Rat)
    (h : collectEvidence groups pil rz suppress = .ok (evs, peps)) (i : Nat) (hi : i < groups.length) :
    evs.getD i [] = pil.filterMap (evFor groups rz i) := by
  have := (collect_get groups pil rz suppress evs peps h).2.1 i hi
  simp [List.getD, this]

theorem collect_ok_iff (groups : List (List String)) (pil : List PepInfo) (rz : Option Razor)
    (suppress : Bool) :
    (∃ r, collectEvidence groups pil rz suppress = .ok r) ↔ ∀ x ∈ pil, ¬ rejects groups rz suppress x := by
  constructor
  · rintro ⟨r, h⟩
    exact (collectLoop_ok groups rz suppress pil _ _ h).1
  · intro hall
    cases h : collectEvidence groups pil rz suppress with
    | ok r => exact ⟨r, rfl⟩
    | error e =>
      obtain ⟨x, hx, hr⟩ := collectLoop_error groups rz suppress pil _ e h
      exact absurd hr (hall x hx)

theorem filterMap_ite {α β : Type} (c : α → Bool) (f : α → β) (l : List α) :
    l.filterMap (fun x => if c x = true then some (f x) else none) = (l.filter c).map f := by
  induction l with
  | nil => rfl
  | cons x r ih =>
    by_cases hc : c x = true
    · simp [List.filterMap_cons, List.filter_cons, hc, ih]
    · simp [List.filterMap_cons, List.filter_cons, hc, ih]

theorem evFor_discard (groups : List (List String)) (i : Nat) (x : PepInfo) :
    evFor groups none i x =
      if (supportOf groups x.proteins == some i) = true then some ⟨x.pep, x.peptide, x.proteins⟩ else none := by
  unfold evFor assign
  simp only [filterProteins]
  cases hs : supportOf groups x.proteins with
  | none => simp
  | some j => by_cases hji : j = i <;> simp [hji]

theorem pepFor_discard (groups : List (List String)) (x : PepInfo) :
    pepFor groups none x =
      if ((supportOf groups x.proteins).isSome && !isDecoy x.proteins) = true then some x.pep else none := by
  unfold pepFor assign
  simp only [filterProteins]
  cases hs : supportOf groups x.proteins with
  | none => simp
  | some j => by_cases hd : isDecoy x.proteins = true <;> simp [hd]

/-! ### razor -/

/-- the candidate tuple in Mathlib's lexicographic linear order -/
def lexKey (c : Cand) : ℕ ×ₗ ℚ ×ₗ String ×ₗ String :=
  toLex (c.1, toLex (c.2.1, toLex (c.2.2.1, c.2.2.2)))

theorem candLt_iff (a b : Cand) : candLt a b = true ↔ lexKey a < lexKey b := by
  obtain ⟨a1, a2, a3, a4⟩ := a
  obtain ⟨b1, b2, b3, b4⟩ := b
  simp only [candLt, lexKey, Prod.Lex.toLex_lt_toLex, Bool.or_eq_true, Bool.and_eq_true,
    decide_eq_true_eq, beq_iff_eq]

theorem lexKey_injective (a b : Cand) (h : lexKey a = lexKey b) : a = b := by
  obtain ⟨a1, a2, a3, a4⟩ := a
  obtain ⟨b1, b2, b3, b4⟩ := b
  simpa [lexKey, Prod.ext_iff] using h

theorem cand_injective (rz : Razor) (p q : String) (h : cand rz p = cand rz q) : p = q := by
  have := congrArg (fun c : Cand => c.2.2.2) h
  simpa [cand] using this

/-- a left fold keeping the larger key returns a maximal element -/
theorem foldl_argmax {α κ : Type} [LinearOrder κ] (k : α → κ) (lt : α → α → Bool)
    (hlt : ∀ a b, lt a b = true ↔ k a < k b) :
    ∀ (l : List α) (a : α),
      l.foldl (fun b q => if lt b q = true then q else b) a ∈ a :: l ∧
      ∀ q ∈ a :: l, k q ≤ k (l.foldl (fun b q => if lt b q = true then q else b) a) := by
  intro l
  induction l with
  | nil => intro a; simp
  | cons x r ih =>
    intro a
    simp only [List.foldl_cons]
    by_cases h : lt a x = true
    · simp only [h, if_true]
      obtain ⟨hm, hmax⟩ := ih x
      refine ⟨List.mem_cons_of_mem _ hm, ?_⟩
      intro q hq
      rcases List.mem_cons.mp hq with rfl | hq
      · exact le_trans (le_of_lt ((hlt _ _).mp h)) (hmax x (by simp))
      · exact hmax q hq
    · have h' : lt a x = false := by simpa using h
      simp only [h', Bool.false_eq_true, if_false]
      obtain ⟨hm, hmax⟩ := ih a
      refine ⟨?_, ?_⟩
      · rcases List.mem_cons.mp hm with h1 | h1
        · rw [h1]; simp
        · exact List.mem_cons_of_mem _ (List.mem_cons_of_mem _ h1)
      · intro q hq
        rcases List.mem_cons.mp hq with rfl | hq
        · exact hmax _ (by simp)
        · rcases List.mem_cons.mp hq with rfl | hq
          · have : ¬ k a < k q := fun hh => h ((hlt _ _).mpr hh)
            exact le_trans (not_lt.mp this) (hmax a (by simp))
          · exact hmax q (List.mem_cons_of_mem _ hq)

theorem razorPick_spec (rz : Razor) (ps : List String) (r : String) (h : razorPick rz ps = some r) :
    r ∈ ps ∧ ∀ q ∈ ps, lexKey (cand rz q) ≤ lexKey (cand rz r) := by
  cases ps with
  | nil => simp [razorPick] at h
  | cons p ps =>
    simp only [razorPick, Option.some.injEq] at h
    have := foldl_argmax (fun q => lexKey (cand rz q)) (fun b q => candLt (cand rz b) (cand rz q))
      (fun a b => candLt_iff _ _) ps p
    rw [h] at this
    exact this

theorem razorPick_isSome (rz : Razor) (ps : List String) (h : ps ≠ []) : ∃ r, razorPick rz ps = some r := by
  cases ps with
  | nil => exact absurd rfl h
  | cons p ps => exact ⟨_, rfl⟩

theorem minRat_mem : ∀ (l : List Rat) (a : Rat), minRat a l ∈ a :: l := by
  intro l
  induction l with
  | nil => intro a; simp [minRat]
  | cons b r ih =>
    intro a
    simp only [minRat]
    have := ih (if b < a then b else a)
    rcases List.mem_cons.mp this with h | h
    · rw [h]; split <;> simp
    · exact List.mem_cons_of_mem _ (List.mem_cons_of_mem _ h)

theorem minRat_le : ∀ (l : List Rat) (a : Rat), ∀ q ∈ a :: l, minRat a l ≤ q := by
  intro l
  induction l with
  | nil => intro a q hq; simp [minRat] at hq ⊢; rw [hq]
  | cons b r ih =>
    intro a q hq
    simp only [minRat]
    have hle : ∀ q' ∈ (if b < a then b else a) :: r, minRat (if b < a then b else a) r ≤ q' := ih _
    have hhead := hle (if b < a then b else a) (List.mem_cons_self ..)
    rcases List.mem_cons.mp hq with rfl | hq
    · refine le_trans hhead ?_
      split
      · rename_i h; exact le_of_lt h
      · exact le_refl _
    · rcases List.mem_cons.mp hq with rfl | hq
      · refine le_trans hhead ?_
        split
        · exact le_refl _
        · rename_i h; exact not_lt.mp h
      · exact hle q (List.mem_cons_of_mem _ hq)

/-- `get_best_peptide_score_per_protein`: the smallest PEP among the peptides listing `p` -/
theorem bestPepOf_spec (pil : List PepInfo) (p : String) (x0 : PepInfo) (hx0 : x0 ∈ pil) (hp0 : p ∈ x0.proteins) :
    (∃ x ∈ pil, p ∈ x.proteins ∧ x.pep = bestPepOf pil p) ∧
    ∀ x ∈ pil, p ∈ x.proteins → bestPepOf pil p ≤ x.pep := by
  unfold bestPepOf
  have hmem : ∀ x, x ∈ pil.filter (fun x => x.proteins.contains p) ↔ x ∈ pil ∧ p ∈ x.proteins := by
    intro x; simp [List.mem_filter]
  cases hl : (pil.filter (fun x => x.proteins.contains p)).map (·.pep) with
  | nil =>
    have : x0 ∈ pil.filter (fun x => x.proteins.contains p) := (hmem x0).mpr ⟨hx0, hp0⟩
    have : x0.pep ∈ (pil.filter (fun x => x.proteins.contains p)).map (·.pep) := List.mem_map_of_mem this
    rw [hl] at this; simp at this
  | cons a r =>
    simp only
    constructor
    · have := minRat_mem r a
      rw [← hl] at this
      obtain ⟨x, hx, hxe⟩ := List.mem_map.mp this
      exact ⟨x, ((hmem x).mp hx).1, ((hmem x).mp hx).2, hxe⟩
    · intro x hx hp
      apply minRat_le r a
      rw [← hl]
      exact List.mem_map_of_mem ((hmem x).mpr ⟨hx, hp⟩)

theorem bestPepOf_default (pil : List PepInfo) (p : String) (h : ∀ x ∈ pil, p ∉ x.proteins) :
    bestPepOf pil p = 1 ∧ peptideCount pil p = 0 := by
  have : pil.filter (fun x => x.proteins.contains p) = [] := by
    rw [List.filter_eq_nil_iff]
    intro x hx
    simpa using h x hx
  unfold bestPepOf peptideCount
  rw [this]; simp

theorem evFor_razor (groups : List (List String)) (rz : Razor) (i : Nat) (x : PepInfo) (e : Evidence) :
    evFor groups (some rz) i x = some e ↔
      ∃ r, razorPick rz x.proteins = some r ∧ e = ⟨x.pep, x.peptide, [r]⟩ ∧ idxOf groups r = some i := by
  unfold evFor assign
  simp only [filterProteins]
  cases hr : razorPick rz x.proteins with
  | none => simp
  | some r =>
    simp only
    cases hs : supportOf groups [r] with
    | none =>
      simp only [reduceCtorEq, false_iff]
      rintro ⟨r', hr', _, hidx⟩
      have : r' = r := by simpa using hr'.symm
      subst this
      have := (supportOf_eq_some groups [r'] i).mpr ⟨by simp, by simpa using hidx⟩
      rw [hs] at this; simp at this
    | some j =>
      have hj := (supportOf_eq_some groups [r] j).mp hs
      have hjr : idxOf groups r = some j := hj.2 r (by simp)
      simp only
      by_cases hji : j = i
      · subst hji
        simp only [if_true, Option.some.injEq]
        constructor
        · intro h; exact ⟨r, rfl, h.symm, hjr⟩
        · rintro ⟨r', hr', he, _⟩
          have : r' = r := by simpa using hr'.symm
          subst this; exact he.symm
      · simp only [hji, if_false, reduceCtorEq, false_iff]
        rintro ⟨r', hr', _, hidx⟩
        have : r' = r := by simpa using hr'.symm
        subst this
        rw [hjr] at hidx
        exact hji (by simpa using hidx)

/-- whatever the mode, the evidence a peptide contributes determines the position it went to -/
theorem evFor_position (groups : List (List String)) (rz : Option Razor) (i : Nat) (x : PepInfo) (e : Evidence)
    (h : evFor groups rz i x = some e) : e.proteins ≠ [] ∧ ∀ p ∈ e.proteins, idxOf groups p = some i := by
  unfold evFor assign at h
  cases hf : filterProteins rz x.proteins with
  | error err => rw [hf] at h; simp at h
  | ok prots =>
    rw [hf] at h
    simp only at h
    cases hs : supportOf groups prots with
    | none => rw [hs] at h; simp at h
    | some j =>
      rw [hs] at h
      simp only at h
      by_cases hji : j = i
      · subst hji
        simp only [if_true, Option.some.injEq] at h
        subst h
        exact (supportOf_eq_some groups prots j).mp hs
      · simp [hji] at h

/-! ### best-PEP score -/

theorem foldl_max_antitone {S : Type} [LinearOrder S] (f : Rat → S) (hf : Antitone f) :
    ∀ (l : List Rat) (a : Rat), (l.map f).foldl max (f a) = f (minRat a l) := by
  intro l
  induction l with
  | nil => intro a; rfl
  | cons b r ih =>
    intro a
    simp only [List.map_cons, List.foldl_cons, minRat]
    have : max (f a) (f b) = f (if b < a then b else a) := by
      split
      · rename_i h
        exact max_eq_right (hf (le_of_lt h))
      · rename_i h
        exact max_eq_left (hf (not_lt.mp h))
    rw [this]
    exact ih _

theorem minPep_spec (ev : List Evidence) (m : Rat) (h : minPep ev = some m) :
    (∃ e ∈ ev, e.pep = m) ∧ ∀ e ∈ ev, m ≤ e.pep := by
  unfold minPep at h
  cases hl : ev.map (·.pep) with
  | nil => rw [hl] at h; simp at h
  | cons a r =>
    rw [hl] at h
    simp only [Option.some.injEq] at h
    subst h
    constructor
    · have := minRat_mem r a
      rw [← hl] at this
      obtain ⟨e, he, hee⟩ := List.mem_map.mp this
      exact ⟨e, he, hee⟩
    · intro e he
      apply minRat_le r a
      rw [← hl]
      exact List.mem_map_of_mem he

theorem minPep_isSome (ev : List Evidence) (h : ev ≠ []) : ∃ m, minPep ev = some m := by
  cases ev with
  | nil => exact absurd rfl h
  | cons e r => exact ⟨_, rfl⟩

theorem bestPepScoreWith_eq {S : Type} [LinearOrder S] (negLog : Rat → S) (hf : Antitone negLog) (d : S)
    (ev : List Evidence) (m : Rat) (h : minPep ev = some m) :
    bestPepScoreWith negLog d ev = negLog m := by
  unfold minPep at h
  unfold bestPepScoreWith
  cases ev with
  | nil => simp at h
  | cons e r =>
    simp only [List.map_cons, Option.some.injEq] at h ⊢
    subst h
    have := foldl_max_antitone negLog hf (r.map (·.pep)) e.pep
    rw [List.map_map] at this
    exact this

/-! ### multiplied-PEP score -/

theorem foldl_add_eq_sum (f : Rat → Rat) : ∀ (l : List Rat) (s : Rat),
    l.foldl (fun s q => s + f q) s = s + (l.map f).sum := by
  intro l
  induction l with
  | nil => intro s; simp
  | cons a r ih => intro s; simp only [List.foldl_cons, List.map_cons, List.sum_cons]; rw [ih]; ring

theorem evLe_pep (a b : Evidence) (h : evLe a b = true) : a.pep ≤ b.pep := by
  simp only [evLe, Bool.or_eq_true, decide_eq_true_eq, Bool.and_eq_true, beq_iff_eq] at h
  rcases h with h | ⟨h, _⟩
  · exact le_of_lt h
  · exact le_of_eq h

theorem not_evLe_pep (a b : Evidence) (h : evLe a b = false) : b.pep ≤ a.pep := by
  simp only [evLe, Bool.or_eq_false_iff, decide_eq_false_iff_not, Bool.and_eq_false_iff] at h
  exact not_lt.mp h.1

theorem insertEv_perm (a : Evidence) : ∀ l : List Evidence, (insertEv a l).Perm (a :: l) := by
  intro l
  induction l with
  | nil => simp [insertEv]
  | cons b r ih =>
    simp only [insertEv]
    split
    · exact List.Perm.refl _
    · exact (List.Perm.cons b ih).trans (List.Perm.swap a b r)

theorem sortEv_perm : ∀ l : List Evidence, (sortEv l).Perm l := by
  intro l
  induction l with
  | nil => simp [sortEv]
  | cons a r ih =>
    simp only [sortEv]
    exact (insertEv_perm a (sortEv r)).trans (List.Perm.cons a ih)

theorem insertEv_sorted (a : Evidence) : ∀ l : List Evidence, l.Pairwise (fun x y => x.pep ≤ y.pep) →
    (insertEv a l).Pairwise (fun x y => x.pep ≤ y.pep) := by
  intro l
  induction l with
  | nil => intro _; simp [insertEv]
  | cons b r ih =>
    intro h
    simp only [insertEv]
    obtain ⟨hb, hr⟩ := List.pairwise_cons.mp h
    by_cases hle : evLe a b = true
    · simp only [hle, if_true]
      refine List.pairwise_cons.mpr ⟨?_, h⟩
      intro y hy
      rcases List.mem_cons.mp hy with rfl | hy
      · exact evLe_pep _ _ hle
      · exact le_trans (evLe_pep _ _ hle) (hb y hy)
    · have hle' : evLe a b = false := by simpa using hle
      simp only [hle', Bool.false_eq_true, if_false]
      refine List.pairwise_cons.mpr ⟨?_, ih hr⟩
      intro y hy
      have := (insertEv_perm a r).subset hy
      rcases List.mem_cons.mp this with rfl | hy
      · exact not_evLe_pep _ _ hle'
      · exact hb y hy

theorem sortEv_sorted : ∀ l : List Evidence, (sortEv l).Pairwise (fun x y => x.pep ≤ y.pep) := by
  intro l
  induction l with
  | nil => simp [sortEv]
  | cons a r ih => exact insertEv_sorted a _ ih

theorem firstOcc_subset : ∀ (l : List Evidence) (seen : List String), ∀ e ∈ firstOcc seen l, e ∈ l := by
  intro l
  induction l with
  | nil => intro seen e h; simp [firstOcc] at h
  | cons a r ih =>
    intro seen e h
    simp only [firstOcc] at h
    split at h
    · exact List.mem_cons_of_mem _ (ih seen e h)
    · rcases List.mem_cons.mp h with rfl | h
      · simp
      · exact List.mem_cons_of_mem _ (ih _ e h)

theorem firstOcc_sublist : ∀ (l : List Evidence) (seen : List String), (firstOcc seen l).Sublist l := by
  intro l
  induction l with
  | nil => intro seen; simp [firstOcc]
  | cons a r ih =>
    intro seen
    simp only [firstOcc]
    split
    · exact (ih seen).cons a
    · exact (ih _).cons₂ a

theorem firstOcc_not_seen : ∀ (l : List Evidence) (seen : List String), ∀ e ∈ firstOcc seen l, e.peptide ∉ seen := by
  intro l
  induction l with
  | nil => intro seen e h; simp [firstOcc] at h
  | cons a r ih =>
    intro seen e h
    simp only [firstOcc] at h
    by_cases hc : seen.contains a.peptide = true
    · simp only [hc, if_true] at h
      exact ih seen e h
    · have hc' : seen.contains a.peptide = false := by simpa using hc
      rw [hc'] at h
      simp only [Bool.false_eq_true, if_false] at h
      rcases List.mem_cons.mp h with rfl | h
      · simpa using hc
      · have := ih _ e h
        intro hs
        exact this (List.mem_cons_of_mem _ hs)

theorem firstOcc_nodup : ∀ (l : List Evidence) (seen : List String), ((firstOcc seen l).map (·.peptide)).Nodup := by
  intro l
  induction l with
  | nil => intro seen; simp [firstOcc]
  | cons a r ih =>
    intro seen
    simp only [firstOcc]
    by_cases hc : seen.contains a.peptide = true
    · simp only [hc, if_true]; exact ih seen
    · have hc' : seen.contains a.peptide = false := by simpa using hc
      rw [hc']
      simp only [Bool.false_eq_true, if_false, List.map_cons]
      refine List.nodup_cons.mpr ⟨?_, ih _⟩
      intro hmem
      obtain ⟨e, he, hee⟩ := List.mem_map.mp hmem
      have := firstOcc_not_seen r (a.peptide :: seen) e he
      apply this
      rw [hee]; simp

theorem firstOcc_cover : ∀ (l : List Evidence) (seen : List String), ∀ e ∈ l,
    e.peptide ∈ seen ∨ e.peptide ∈ (firstOcc seen l).map (·.peptide) := by
  intro l
  induction l with
  | nil => intro seen e h; simp at h
  | cons a r ih =>
    intro seen e h
    simp only [firstOcc]
    by_cases hc : seen.contains a.peptide = true
    · simp only [hc, if_true]
      rcases List.mem_cons.mp h with rfl | h
      · left; simpa using hc
      · exact ih seen e h
    · have hc' : seen.contains a.peptide = false := by simpa using hc
      rw [hc']
      simp only [Bool.false_eq_true, if_false, List.map_cons, List.mem_cons]
      rcases List.mem_cons.mp h with rfl | h
      · right; left; rfl
      · rcases ih (a.peptide :: seen) e h with h1 | h1
        · rcases List.mem_cons.mp h1 with h2 | h2
          · right; left; exact h2
          · left; exact h2
        · right; right; exact h1

theorem firstOcc_least : ∀ (l : List Evidence) (seen : List String),
    l.Pairwise (fun x y => x.pep ≤ y.pep) →
    ∀ e ∈ firstOcc seen l, ∀ e' ∈ l, e'.peptide = e.peptide → e.pep ≤ e'.pep := by
  intro l
  induction l with
  | nil => intro seen _ e h; simp [firstOcc] at h
  | cons a r ih =>
    intro seen hs e h e' he' hpep
    obtain ⟨ha, hr⟩ := List.pairwise_cons.mp hs
    simp only [firstOcc] at h
    by_cases hc : seen.contains a.peptide = true
    · simp only [hc, if_true] at h
      rcases List.mem_cons.mp he' with rfl | he'
      · exfalso
        have := firstOcc_not_seen r seen e h
        apply this
        rw [← hpep]; simpa using hc
      · exact ih seen hr e h e' he' hpep
    · have hc' : seen.contains a.peptide = false := by simpa using hc
      rw [hc'] at h
      simp only [Bool.false_eq_true, if_false] at h
      rcases List.mem_cons.mp h with rfl | h
      · rcases List.mem_cons.mp he' with rfl | he'
        · exact le_refl _
        · exact ha e' he'
      · rcases List.mem_cons.mp he' with rfl | he'
        · exfalso
          have := firstOcc_not_seen r (e'.peptide :: seen) e h
          apply this
          rw [← hpep]; simp
        · exact ih _ hr e h e' he' hpep

/-- the evidence tuples that enter the multPEP sum: first occurrence of every peptide in sorted order -/
def kept (ev : List Evidence) : List Evidence := firstOcc [] (sortEv ev)

/-- smallest PEP with which peptide `p` occurs in the evidence list (`0` if it does not occur) -/
def minPepOf (ev : List Evidence) (p : String) : Rat :=
  match (ev.filter (fun e => e.peptide == p)).map (·.pep) with
  | [] => 0
  | a :: r => minRat a r

theorem kept_spec (ev : List Evidence) :
    multPepTerms ev = (kept ev).map (·.pep) ∧
    (∀ e ∈ kept ev, e ∈ ev) ∧
    ((kept ev).map (·.peptide)).Nodup ∧
    (∀ e ∈ ev, e.peptide ∈ (kept ev).map (·.peptide)) ∧
    (∀ e ∈ kept ev, ∀ e' ∈ ev, e'.peptide = e.peptide → e.pep ≤ e'.pep) := by
  refine ⟨rfl, ?_, firstOcc_nodup _ _, ?_, ?_⟩
  · intro e he
    exact (sortEv_perm ev).subset (firstOcc_subset _ _ e he)
  · intro e he
    have := firstOcc_cover (sortEv ev) [] e ((sortEv_perm ev).symm.subset he)
    simpa [kept] using this
  · intro e he e' he' hp
    exact firstOcc_least (sortEv ev) [] (sortEv_sorted ev) e he e' ((sortEv_perm ev).symm.subset he') hp

theorem kept_pep_eq_minPepOf (ev : List Evidence) (e : Evidence) (he : e ∈ kept ev) :
    e.pep = minPepOf ev e.peptide := by
  obtain ⟨_, hsub, _, _, hleast⟩ := kept_spec ev
  unfold minPepOf
  have hmem : ∀ x, x ∈ ev.filter (fun e' => e'.peptide == e.peptide) ↔ x ∈ ev ∧ x.peptide = e.peptide := by
    intro x; simp [List.mem_filter]
  cases hl : (ev.filter (fun e' => e'.peptide == e.peptide)).map (·.pep) with
  | nil =>
    have : e.pep ∈ (ev.filter (fun e' => e'.peptide == e.peptide)).map (·.pep) :=
      List.mem_map_of_mem ((hmem e).mpr ⟨hsub e he, rfl⟩)
    rw [hl] at this; simp at this
  | cons a r =>
    simp only
    apply le_antisymm
    · have := minRat_mem r a
      rw [← hl] at this
      obtain ⟨x, hx, hxe⟩ := List.mem_map.mp this
      rw [← hxe]
      exact hleast e he x ((hmem x).mp hx).1 ((hmem x).mp hx).2
    · apply minRat_le r a
      rw [← hl]
      exact List.mem_map_of_mem ((hmem e).mpr ⟨hsub e he, rfl⟩)

theorem kept_peptides_perm (ev : List Evidence) :
    ((kept ev).map (·.peptide)).Perm (ev.map (·.peptide)).dedup := by
  obtain ⟨_, hsub, hnd, hcov, _⟩ := kept_spec ev
  rw [List.perm_ext_iff_of_nodup hnd (List.nodup_dedup _)]
  intro p
  rw [List.mem_dedup]
  constructor
  · intro hp
    obtain ⟨e, he, rfl⟩ := List.mem_map.mp hp
    exact List.mem_map_of_mem (hsub e he)
  · intro hp
    obtain ⟨e, he, rfl⟩ := List.mem_map.mp hp
    exact hcov e he

/-- the multPEP sum in closed form: one term per distinct peptide, at its smallest PEP -/
theorem multPep_sum_closed (negLog : Rat → Rat) (ev : List Evidence) :
    (multPepSumAndCount negLog ev).1 =
      (((ev.map (·.peptide)).dedup).map (fun p => negLog (minPepOf ev p))).sum ∧
    (multPepSumAndCount negLog ev).2 = ((ev.map (·.peptide)).dedup).length := by
  unfold multPepSumAndCount
  simp only
  rw [foldl_add_eq_sum, zero_add]
  have hterms : multPepTerms ev = (kept ev).map (·.pep) := rfl
  rw [hterms]
  constructor
  · have h1 : ((kept ev).map (·.pep)).map negLog =
        ((kept ev).map (·.peptide)).map (fun p => negLog (minPepOf ev p)) := by
      rw [List.map_map, List.map_map]
      apply List.map_congr_left
      intro e he
      simp only [Function.comp]
      rw [kept_pep_eq_minPepOf ev e he]
    rw [h1]
    exact ((kept_peptides_perm ev).map _).sum_eq
  · rw [List.length_map, ← (kept_peptides_perm ev).length_eq, List.length_map]

end PgFdr.C05
