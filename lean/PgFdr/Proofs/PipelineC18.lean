import PgFdr.Props.C01
import PgFdr.Props.C06
import PgFdr.Model.C18Pipeline

/-!
The three groups of end-to-end guarantees (ranking, q-values, row consistency) collected for ONE pipeline
configuration, so that `Props/C18.lean` can state them for every shipped method.  Every field is, word for
word, the statement of the theorem named in its comment (the proof of `pipelineGuarantees` is just those
theorems), quantified over every input and every recorded parameter of `Pipeline.run`.
-/
namespace PgFdr.C18
open PgFdr.Pipeline

structure PipelineGuarantees (pc : Pipeline.Config) : Prop where
  /-- `C01.pipeline_ranked_nonincreasing` — ranking guarantee -/
  ranking : ∀ (inp : Pipeline.Input) (r : Pipeline.Result), Pipeline.run pc inp = .ok r →
    r.final.ranking = C02.doCompetition pc.mode (Pipeline.finalItems inp r)
      (Pipeline.finalShuffle1 inp r) (Pipeline.finalShuffle2 inp r) ∧
    r.final.ranking ≠ [] ∧
    (r.final.ranking.map (·.score)).Pairwise (· ≥ ·)
  /-- `C01.pipeline_qvals_spec` — q-value guarantee -/
  qvalues : ∀ (inp : Pipeline.Input) (r : Pipeline.Result), Pipeline.run pc inp = .ok r →
    let G := C01.ranked (r.final.ranking.map (·.group)) (r.final.ranking.map (·.score))
    G ≠ [] ∧ r.final.fdrs.length = G.length ∧ r.final.qvals.length = G.length ∧
    (∀ k, k < G.length → r.final.fdrs[k]? = some (C01.estimate C01.isDecoyGroup G k) ∧
      C01.countP C01.isDecoyGroup G k + C01.countP (fun g => !C01.isDecoyGroup g) G k = k + 1) ∧
    (∀ (i : Nat) (v : Rat), r.final.qvals[i]? = some v →
      (∀ j, i ≤ j → j < G.length → v ≤ C01.estimate C01.isDecoyGroup G j) ∧
      (∃ j, i ≤ j ∧ j < G.length ∧ v = C01.estimate C01.isDecoyGroup G j)) ∧
    (∀ (i j : Nat) (vi vj : Rat), i ≤ j → r.final.qvals[i]? = some vi → r.final.qvals[j]? = some vj → vi ≤ vj)
  /-- `C01.pipeline_threshold_sound` -/
  threshold : ∀ (inp : Pipeline.Input) (r : Pipeline.Result), Pipeline.run pc inp = .ok r → ∀ t : Rat,
    let G := C01.ranked (r.final.ranking.map (·.group)) (r.final.ranking.map (·.score))
    let S := ((G.zip r.final.qvals).filter (fun gq => decide (gq.2 ≤ t))).map (·.1)
    S = G.take S.length ∧
    (S ≠ [] →
      (((S.filter C01.isDecoyGroup).length + 1 : Nat) : Rat) /
        (((S.filter (fun g => !C01.isDecoyGroup g)).length + 1 : Nat) : Rat) ≤ t)
  /-- `C01.pipeline_report_alignment` — reported rows carry the score and q-value of their rank -/
  alignment : ∀ (inp : Pipeline.Input) (r : Pipeline.Result), Pipeline.run pc inp = .ok r →
    ∃ idx : List Nat, idx.Pairwise (· < ·) ∧ idx.length = r.rows.length ∧
      ∀ (k i : Nat), idx[k]? = some i →
        ∃ (row : C06.RowData) (x : C02.Item), r.rows[k]? = some row ∧ r.final.ranking[i]? = some x ∧
          i < (C01.ranked (r.final.ranking.map (·.group)) (r.final.ranking.map (·.score))).length ∧
          row.score = x.score ∧ r.final.qvals[i]? = some row.qValue ∧
          isObsolete x.group = false ∧ (∀ p ∈ row.proteins, p ∈ x.group) ∧ row.proteins ≠ []
  /-- `C06.pipeline_rows_consistent` — row-consistency guarantee (dict input) -/
  rows : ∀ (inp : Pipeline.Input) (r : Pipeline.Result), Pipeline.run pc inp = .ok r →
    Pipeline.distinctPeptides inp.pil →
    ∀ row ∈ r.rows, ∃ (i j : Nat) (x : C02.Item),
      r.final.ranking[i]? = some x ∧ isObsolete x.group = false ∧
      r.final.groups[j]? = some x.group ∧
      x.evidence = inp.pil.filterMap (C05.evFor r.final.groups (Pipeline.razorOf pc inp) j) ∧
      (x.evidence.map (·.peptide)).Nodup ∧
      row.score = x.score ∧ r.final.qvals[i]? = some row.qValue ∧
      row.proteins = x.group.filter (fun p => inp.keepAll || decide (0 < C06.distinctCount r.cutoff x.evidence p)) ∧
      row.proteins ≠ [] ∧
      row.counts = row.proteins.map (C06.distinctCount r.cutoff x.evidence) ∧
      (∃ M, M ∈ row.counts ∧ (∀ c ∈ row.counts, c ≤ M) ∧
        row.majority = row.proteins.filter (fun p => decide (M ≤ 2 * C06.distinctCount r.cutoff x.evidence p))) ∧
      (∃ e ∈ x.evidence, e.peptide = row.bestPeptide ∧
        ∀ e' ∈ x.evidence, e.pep ≤ e'.pep ∧ (e'.pep = e.pep → e.peptide ≤ e'.peptide)) ∧
      row.numberOfProteins = row.proteins.length ∧
      row.reverse = isDecoy row.proteins ∧ row.contaminant = isContaminant row.proteins
  /-- `C06.pipeline_rows_disjoint` — no protein in two rows, none twice in a row (dict input) -/
  disjoint : ∀ (inp : Pipeline.Input) (r : Pipeline.Result), Pipeline.run pc inp = .ok r →
    Pipeline.distinctPeptides inp.pil →
    r.rows.Pairwise (fun a b => ∀ p, p ∈ a.proteins → p ∉ b.proteins) ∧
    ∀ row ∈ r.rows, row.proteins.Nodup

/-- the guarantees hold for every configuration of the composed model -/
theorem pipelineGuarantees (pc : Pipeline.Config) : PipelineGuarantees pc where
  ranking := C01.pipeline_ranked_nonincreasing pc
  qvalues := C01.pipeline_qvals_spec pc
  threshold := C01.pipeline_threshold_sound pc
  alignment := C01.pipeline_report_alignment pc
  rows := C06.pipeline_rows_consistent pc
  disjoint := C06.pipeline_rows_disjoint pc

end PgFdr.C18
