import PgFdr.Proofs.Pipeline
import PgFdr.Proofs.C01
import PgFdr.Proofs.C06
import PgFdr.Proofs.C07

/-!
# When does the composed pipeline model complete?

`Props/C18.lean: cli_every_shipped_method_runs` reduces a run of the command line to the inference call
`Pipeline.run pc (pipelineInput …)` and leaves "the inference call fails on the data" open.  This file closes
it for the model `Pipeline.run` (`Model/Pipeline.lean`):

1. `run_error_tags`: the error set of `Pipeline.run` is an explicit list of nine tags, four DATA errors (the real
   tool ends with an exception at the mirrored line) and five PROTOCOL errors (the recorded parameters do not
   fit the run); the three remaining tags of the stage models (`empty_group`, `no_evidence`, `fuel`) are
   unreachable inside the pipeline.
2. `runPassFrom_eval`: with fitting records one pass of the `for rescue_step in …` loop fails exactly on the
   data: a peptide `collect_peptide_scores_per_protein` rejects, or no group that can be ranked.
3. `run_single_pass_ok_iff` / `run_single_pass_error_iff`: the exact completion condition of every single-pass
   configuration on a dict input; `run_rescue_ok_iff` / `run_rescue_error_iff`: the same for the two-pass
   (rescue) configurations.
-/
namespace PgFdr.Pipeline

/-! ## 1. the error set -/

/-- errors of the DATA: the real tool ends with an exception at the mirrored line (notes/pipeline-complete.md) -/
def dataErrors : List String := ["unknown_protein", "razor_no_proteins", "no_ranked_groups", "no_rows"]

/-- errors of the PROTOCOL: the recorded parameters (float scores, shuffles, rescue cutoff, cut map) do not fit
    the run they are replayed on; the real tool has no such failure -/
def protocolErrors : List String :=
  ["scores_misaligned", "shuffles_do_not_fit", "missing_rescue_cutoff", "cut_lookup_miss", "empty_cut"]

theorem shuffle_subset {α : Type} (x : List α) (π : List Nat) : ∀ a ∈ C02.shuffle x π, a ∈ x := by
  intro a ha
  unfold C02.shuffle at ha
  obtain ⟨i, _, hi⟩ := List.mem_filterMap.mp ha
  exact List.mem_of_getElem? hi

/-- whatever the seen-set and the recorded shuffles: a ranked group is one of the groups handed to the
    competition, has evidence and is not a contaminant group -/
theorem competeFrom_mem (mode : C02.Mode) (seen : List String) (items : List C02.Item) (π₁ π₂ : List Nat)
    (x : C02.Item) (h : x ∈ (C02.competeFrom mode seen items π₁ π₂).1) :
    x ∈ items ∧ x.hasEvidence = true ∧ C02.contam x = false := by
  have h1 : x ∈ C02.shuffle (C02.keptFrom mode seen items π₁) π₂ :=
    (List.mergeSort_perm _ _).subset h
  have h2 : x ∈ C02.keptFrom mode seen items π₁ := shuffle_subset _ _ x h1
  have hc : C02.contam x = false := C02.pass_not_contam _ _ _ _ x h2
  have h3 : x ∈ C02.passOrder items π₁ := (C02.pass_sublist _ _ _ _).subset h2
  have h4 : x ∈ C02.shuffle (items.filter (·.hasEvidence)) π₁ := (List.mergeSort_perm _ _).subset h3
  have h5 := List.mem_filter.mp (shuffle_subset _ _ x h4)
  exact ⟨h5.1, h5.2, hc⟩

theorem hasEvidence_iff (x : C02.Item) : x.hasEvidence = true ↔ x.evidence ≠ [] := by
  unfold C02.Item.hasEvidence
  cases x.evidence <;> simp

/-- `from_protein_groups` cannot fail on a ranking: `empty_group` needs an empty group (skipped as a placeholder,
    `is_obsolete([])` is true) and `no_evidence` a group without evidence (never ranked) -/
theorem fromProteinGroups_ranking_ok (ranking : List C02.Item) (hev : ∀ x ∈ ranking, x.evidence ≠ [])
    (qvals : List Rat) (cutoff : Option Rat) (keepAll : Bool) :
    ∃ rows, C06.fromProteinGroups (ranking.map (·.group)) (ranking.map (·.evidence)) (ranking.map (·.score))
      qvals cutoff keepAll = .ok rows := by
  cases h : C06.fromProteinGroups (ranking.map (·.group)) (ranking.map (·.evidence)) (ranking.map (·.score))
      qvals cutoff keepAll with
  | ok rows => exact ⟨rows, rfl⟩
  | error e =>
    exfalso
    unfold C06.fromProteinGroups at h
    obtain ⟨g, info, s, q, hm, hobs, hf⟩ := C06.rowsOfSlots_error cutoff keepAll _ e h
    obtain ⟨-, hcase⟩ := C06.fromProteinGroup_error g info q s cutoff keepAll e hf
    rcases hcase with ⟨-, hg⟩ | ⟨-, hi⟩
    · subst hg
      exact absurd hobs (by decide)
    · obtain ⟨i, hi'⟩ := List.getElem?_of_mem hm
      obtain ⟨-, h2, -, -⟩ := (C06.slots_getElem? _ _ _ _ i g info s q).mp hi'
      rw [List.getElem?_map] at h2
      cases hx : ranking[i]? with
      | none => rw [hx] at h2; simp at h2
      | some x =>
        rw [hx] at h2
        simp only [Option.map_some, Option.some.injEq] at h2
        exact hev x (List.mem_of_getElem? hx) (h2.trans hi)

theorem calcProteinFdrs_error (groups : List (List String)) (scores : List Rat) (e : String)
    (h : C01.calcProteinFdrs groups scores = .error e) :
    C01.ranked groups scores = [] ∧ e = "no_ranked_groups" :=
  (C01.calc_error_iff C01.isDecoyGroup groups scores e).mp h

/-- the errors of one pass, whatever the seen-set and the recorded parameters -/
theorem runPassFrom_error_tags (cfg : Config) (inp : Input) (seen : List String) (groups : List (List String))
    (extra : List (List String × List Evidence)) (rs : Bool) (scores : List Rat) (π₁ π₂ : List Nat) (e : String)
    (h : runPassFrom cfg inp seen groups extra rs scores π₁ π₂ = .error e) :
    e = "unknown_protein" ∨ e = "razor_no_proteins" ∨ e = "no_ranked_groups" ∨ e = "scores_misaligned" ∨
      e = "shuffles_do_not_fit" := by
  unfold runPassFrom at h
  split at h
  · rename_i err _
    simp only [Except.error.injEq] at h
    subst h
    cases err
    · exact Or.inl rfl
    · exact Or.inr (Or.inl rfl)
  · dsimp only at h
    split at h
    · simp only [Except.error.injEq] at h; exact Or.inr (Or.inr (Or.inl h.symm))
    split at h
    · simp only [Except.error.injEq] at h; exact Or.inr (Or.inr (Or.inr (Or.inl h.symm)))
    split at h
    · simp only [Except.error.injEq] at h; exact Or.inr (Or.inr (Or.inr (Or.inr h.symm)))
    split at h
    · simp only [Except.error.injEq] at h; exact Or.inr (Or.inr (Or.inl h.symm))
    split at h
    · rename_i e' he'
      simp only [Except.error.injEq] at h
      subst h
      exact Or.inr (Or.inr (Or.inl (calcProteinFdrs_error _ _ _ he').2))
    · split at h
      · rename_i e' he'
        exfalso
        obtain ⟨rows, hrows⟩ := fromProteinGroups_ranking_ok
          (C02.competeFrom cfg.mode seen (zipItems (groups ++ extra.map (·.1)) (_ ++ extra.map (·.2)) scores) π₁ π₂).1
          (fun x hx => (hasEvidence_iff x).mp (competeFrom_mem _ _ _ _ _ x hx).2.1) _
          (if rs then some _ else none) inp.keepAll
        rw [hrows] at he'
        cases he'
      · cases h

theorem rescueGroups_error {ι : Type} (old : List (List String × ι)) (pil : List PepInfo) (cutoff : Rat)
    (cuts : C04.CutMap) (e : String) (h : C04.rescueGroups old pil cutoff cuts = .error e) :
    e = "cut_lookup_miss" ∨ e = "empty_cut" :=
  C04.rescue_only_oracle_errors _ old pil cutoff cuts e h

/-- the error set of `Pipeline.runFrom` (any seen-set) -/
theorem runFrom_error_tags (cfg : Config) (inp : Input) (seen : List String) (e : String)
    (h : runFrom cfg inp seen = .error e) : e ∈ dataErrors ∨ e ∈ protocolErrors := by
  have pass : ∀ (seen : List String) groups extra rs scores π₁ π₂,
      runPassFrom cfg inp seen groups extra rs scores π₁ π₂ = .error e →
      e ∈ dataErrors ∨ e ∈ protocolErrors := by
    intro seen groups extra rs scores π₁ π₂ hp
    rcases runPassFrom_error_tags _ _ _ _ _ _ _ _ _ _ hp with h | h | h | h | h <;> subst h <;>
      simp [dataErrors, protocolErrors]
  unfold runFrom at h
  dsimp only at h
  split at h
  · rename_i e' he'
    simp only [Except.error.injEq] at h; subst h
    exact pass _ _ _ _ _ _ _ he'
  · split at h
    · cases h
    · split at h
      · simp only [Except.error.injEq] at h; subst h; simp [dataErrors]
      · split at h
        · simp only [Except.error.injEq] at h; subst h; simp [protocolErrors]
        · split at h
          · rename_i e' he'
            simp only [Except.error.injEq] at h; subst h
            rcases rescueGroups_error _ _ _ _ _ he' with h | h <;> subst h <;> simp [protocolErrors]
          · split at h
            · rename_i e' he'
              simp only [Except.error.injEq] at h; subst h
              exact pass _ _ _ _ _ _ _ he'
            · cases h

/-- **The error set of the inference call.**  `Pipeline.run` fails only with one of nine tags: the four data
    errors `unknown_protein`, `razor_no_proteins`, `no_ranked_groups`, `no_rows`, or the five protocol errors
    `scores_misaligned`, `shuffles_do_not_fit`, `missing_rescue_cutoff`, `cut_lookup_miss`, `empty_cut`.
    The stage models' `empty_group`, `no_evidence` (C06) and `fuel` (C04) are unreachable. -/
theorem run_error_tags (cfg : Config) (inp : Input) (e : String) (h : run cfg inp = .error e) :
    e ∈ dataErrors ∨ e ∈ protocolErrors := by
  unfold run at h
  split at h
  · rename_i e' he'
    simp only [Except.error.injEq] at h; subst h
    exact runFrom_error_tags cfg inp [] _ he'
  · cases h

/-! ## 2. one pass, with fitting records -/

/-- the evidence lists `collect_peptide_scores_per_protein` builds, as a total function of the data: position
    `i` holds the tuples of the peptides assigned to group `i`, in peptide-list order -/
def evidenceOf (groups : List (List String)) (rz : Option C05.Razor) (pil : List PepInfo) : List (List Evidence) :=
  (List.range groups.length).map (fun i => pil.filterMap (C05.evFor groups rz i))

theorem evidenceOf_length (groups : List (List String)) (rz : Option C05.Razor) (pil : List PepInfo) :
    (evidenceOf groups rz pil).length = groups.length := by simp [evidenceOf]

theorem evidenceOf_getElem? (groups : List (List String)) (rz : Option C05.Razor) (pil : List PepInfo) (i : Nat)
    (hi : i < groups.length) : (evidenceOf groups rz pil)[i]? = some (pil.filterMap (C05.evFor groups rz i)) := by
  simp [evidenceOf, List.getElem?_map, List.getElem?_range hi]

theorem collect_eq_evidenceOf (groups : List (List String)) (pil : List PepInfo) (rz : Option C05.Razor)
    (s : Bool) (infos : List (List Evidence)) (peps : List Rat)
    (h : C05.collectEvidence groups pil rz s = .ok (infos, peps)) :
    infos = evidenceOf groups rz pil ∧ peps = pil.filterMap (C05.pepFor groups rz) := by
  obtain ⟨hlen, hget, hpep⟩ := C05.collect_get groups pil rz s infos peps h
  refine ⟨?_, hpep⟩
  apply List.ext_getElem?
  intro i
  by_cases hi : i < groups.length
  · rw [hget i hi, evidenceOf_getElem? _ _ _ _ hi]
  · rw [List.getElem?_eq_none (by omega), List.getElem?_eq_none (by rw [evidenceOf_length]; omega)]

/-- no peptide makes `collect_peptide_scores_per_protein` fail -/
def Accepts (groups : List (List String)) (rz : Option C05.Razor) (suppress : Bool) (pil : List PepInfo) : Prop :=
  ∀ x ∈ pil, ¬ C05.rejects groups rz suppress x

/-- some group handed to the competition can be ranked: it has evidence and is not a contaminant group
    (`do_competition` drops groups without peptides, then contaminant groups) -/
def Rankable (gs : List (List String)) (es : List (List Evidence)) : Prop :=
  ∃ (i : Nat) (g : List String) (info : List Evidence),
    gs[i]? = some g ∧ es[i]? = some info ∧ info ≠ [] ∧ isContaminant g = false

/-- the recorded parameters of one competition FIT: one float score per group handed over, and the two recorded
    shuffles are permutations of the positions of the lists `np.random.shuffle` was applied to (the groups with
    evidence; the groups the greedy pass kept) -/
structure PassFits (mode : C02.Mode) (gs : List (List String)) (es : List (List Evidence)) (scores : List Rat)
    (π₁ π₂ : List Nat) : Prop where
  scoresLen : scores.length = gs.length
  shuffle1 : π₁.Perm (List.range ((zipItems gs es scores).filter (·.hasEvidence)).length)
  shuffle2 : π₂.Perm (List.range (C02.keptFrom mode [] (zipItems gs es scores) π₁).length)

/-- no recorded score of a group with evidence is the sentinel `-100.0` with which `do_competition` marks groups
    WITHOUT evidence and at which `calculate_protein_fdrs` stops (a best-PEP score is `-100` only for a PEP of
    `1e100`) -/
def NoSentinel (gs : List (List String)) (es : List (List Evidence)) (scores : List Rat) : Prop :=
  ∀ x ∈ zipItems gs es scores, x.evidence ≠ [] → x.score ≠ C01.sentinel

theorem isPermOfRange_iff (π : List Nat) (n : Nat) : C02.isPermOfRange π n = true ↔ π.Perm (List.range n) := by
  constructor
  · exact C02.perm_of_isPermOfRange π n
  · intro h
    simp only [C02.isPermOfRange, Bool.and_eq_true, beq_iff_eq, List.all_eq_true, decide_eq_true_eq,
      List.contains_iff_mem]
    refine ⟨⟨by simpa using h.length_eq, ?_⟩, ?_⟩
    · intro i hi; exact List.mem_range.mp (h.subset hi)
    · intro i hi; exact h.symm.subset hi

/-- `PassFits` is what the executable tests of `runPassFrom` check (`scores.length ≠ …`, `C02.shufflesFit`) -/
theorem passFits_iff (mode : C02.Mode) (gs : List (List String)) (es : List (List Evidence)) (scores : List Rat)
    (π₁ π₂ : List Nat) :
    PassFits mode gs es scores π₁ π₂ ↔
      scores.length = gs.length ∧ C02.shufflesFit mode [] ⟨zipItems gs es scores, π₁, π₂⟩ = true := by
  simp only [C02.shufflesFit, Bool.and_eq_true, isPermOfRange_iff]
  constructor
  · rintro ⟨h1, h2, h3⟩; exact ⟨h1, h2, h3⟩
  · rintro ⟨h1, h2, h3⟩; exact ⟨h1, h2, h3⟩

instance (mode : C02.Mode) (gs : List (List String)) (es : List (List Evidence)) (scores : List Rat)
    (π₁ π₂ : List Nat) : Decidable (PassFits mode gs es scores π₁ π₂) :=
  decidable_of_iff _ (passFits_iff mode gs es scores π₁ π₂).symm

theorem PassFits.ok {mode : C02.Mode} {gs : List (List String)} {es : List (List Evidence)} {scores : List Rat}
    {π₁ π₂ : List Nat} (h : PassFits mode gs es scores π₁ π₂) :
    C02.ShufflesOK mode (zipItems gs es scores) π₁ π₂ := ⟨h.shuffle1, h.shuffle2⟩

theorem zipItems_mem_of_getElem? : ∀ (gs : List (List String)) (es : List (List Evidence)) (ss : List Rat) (i : Nat)
    (g : List String) (e : List Evidence) (s : Rat), gs[i]? = some g → es[i]? = some e → ss[i]? = some s →
    (⟨g, e, s⟩ : C02.Item) ∈ zipItems gs es ss := by
  intro gs
  induction gs with
  | nil => intro es ss i g e s h; simp at h
  | cons g0 gs ih =>
    intro es ss i g e s h1 h2 h3
    cases es with
    | nil => simp at h2
    | cons e0 es =>
      cases ss with
      | nil => simp at h3
      | cons s0 ss =>
        cases i with
        | zero =>
          simp only [List.getElem?_cons_zero, Option.some.injEq] at h1 h2 h3
          subst h1 h2 h3
          simp [zipItems]
        | succ i =>
          simp only [List.getElem?_cons_succ] at h1 h2 h3
          simp only [zipItems, List.mem_cons]
          exact Or.inr (ih es ss i g e s h1 h2 h3)

/-- with one score per group, `Rankable` says that some zipped item has evidence and is not a contaminant -/
theorem rankable_iff_item (gs : List (List String)) (es : List (List Evidence)) (ss : List Rat)
    (hl : ss.length = gs.length) :
    Rankable gs es ↔ ∃ x ∈ zipItems gs es ss, x.hasEvidence = true ∧ C02.contam x = false := by
  constructor
  · rintro ⟨i, g, info, h1, h2, h3, h4⟩
    have hi : i < ss.length := by rw [hl]; exact (List.getElem?_eq_some_iff.mp h1).1
    refine ⟨⟨g, info, ss[i]⟩, zipItems_mem_of_getElem? gs es ss i g info _ h1 h2 (List.getElem?_eq_getElem hi), ?_, h4⟩
    exact (hasEvidence_iff _).mpr h3
  · rintro ⟨x, hx, h1, h2⟩
    obtain ⟨i, hi1, hi2, -⟩ := mem_zipItems gs es ss x hx
    exact ⟨i, x.group, x.evidence, hi1, hi2, (hasEvidence_iff x).mp h1, h2⟩

theorem all_isEmpty_false_of_rankable (gs : List (List String)) (es : List (List Evidence)) (h : Rankable gs es) :
    es.all (·.isEmpty) = false := by
  obtain ⟨i, g, info, -, h2, h3, -⟩ := h
  rw [List.all_eq_false]
  refine ⟨info, List.mem_of_getElem? h2, ?_⟩
  simpa using h3

theorem pass_nil_iff {G K : Type} [DecidableEq K] (st : C02.Strategy G K) (contam : G → Bool) (gs : List G) :
    C02.pass st contam [] gs = [] ↔ ∀ g ∈ gs, contam g = true := by
  induction gs with
  | nil => simp [C02.pass]
  | cons g gs ih =>
    have hseen : C02.isSeen ([] : List K) (st.key g) = false := by simp [C02.isSeen]
    simp only [C02.pass, hseen, Bool.false_or, List.mem_cons, forall_eq_or_imp]
    cases hc : contam g
    · simp
    · simp [ih]

/-- the competition on a fresh strategy object ranks something exactly when some group has evidence and is not
    a contaminant group (the first such group in pass order is never seen before) -/
theorem doCompetition_ne_nil_iff (mode : C02.Mode) (items : List C02.Item) (π₁ π₂ : List Nat)
    (ok : C02.ShufflesOK mode items π₁ π₂) :
    C02.doCompetition mode items π₁ π₂ ≠ [] ↔ ∃ x ∈ items, x.hasEvidence = true ∧ C02.contam x = false := by
  have hperm := C02.final_perm_kept mode items π₁ π₂ ok
  have h1 : C02.doCompetition mode items π₁ π₂ = [] ↔ C02.keptFrom mode [] items π₁ = [] := by
    constructor
    · intro h; rw [h] at hperm; exact List.Perm.eq_nil hperm.symm
    · intro h; rw [h] at hperm; exact List.Perm.eq_nil hperm
  have hpo := C02.passOrder_perm items π₁ ok.p1
  rw [Ne, h1]
  unfold C02.keptFrom
  rw [pass_nil_iff]
  constructor
  · intro h
    by_contra hno
    apply h
    intro g hg
    have := List.mem_filter.mp (hpo.subset hg)
    cases hc : C02.contam g
    · exact absurd ⟨g, this.1, this.2, hc⟩ hno
    · rfl
  · rintro ⟨x, hx, h1, h2⟩ hall
    have := hall x (hpo.symm.subset (List.mem_filter.mpr ⟨hx, h1⟩))
    rw [h2] at this; cases this

theorem calcProteinFdrs_ok_of_head (ranking : List C02.Item) (hne : ranking ≠ [])
    (hs : ∀ x ∈ ranking, x.score ≠ C01.sentinel) :
    ∃ f q, C01.calcProteinFdrs (ranking.map (·.group)) (ranking.map (·.score)) = .ok (f, q) := by
  cases ranking with
  | nil => exact absurd rfl hne
  | cons x r =>
    refine ⟨_, _, (C01.calc_ok_iff C01.isDecoyGroup _ _ _ _).mpr ⟨?_, rfl, rfl⟩⟩
    simp only [List.map_cons, C01.ranked_cons, hs x (by simp), if_false]
    simp

/-- **One pass with fitting records fails exactly on the data.**  For a pass started on fresh strategy objects
    whose recorded parameters fit (`PassFits`, `NoSentinel` for the groups and the evidence the pass hands to the
    competition): either `collect_peptide_scores_per_protein` rejects a peptide and the pass ends with that
    error; or it builds the evidence `evidenceOf …`, and then the pass ends with `no_ranked_groups` if no group
    can be ranked, and completes otherwise. -/
theorem runPassFrom_eval (cfg : Config) (inp : Input) (groups : List (List String))
    (extra : List (List String × List Evidence)) (rs : Bool) (scores : List Rat) (π₁ π₂ : List Nat)
    (hfit : PassFits cfg.mode (groups ++ extra.map (·.1))
      (evidenceOf groups (razorOf cfg inp) inp.pil ++ extra.map (·.2)) scores π₁ π₂)
    (hsent : NoSentinel (groups ++ extra.map (·.1))
      (evidenceOf groups (razorOf cfg inp) inp.pil ++ extra.map (·.2)) scores) :
    (∃ err, C05.collectEvidence groups inp.pil (razorOf cfg inp) rs = .error err ∧
      runPassFrom cfg inp [] groups extra rs scores π₁ π₂ = .error err.toString) ∨
    (∃ peps, C05.collectEvidence groups inp.pil (razorOf cfg inp) rs =
        .ok (evidenceOf groups (razorOf cfg inp) inp.pil, peps) ∧
      ((¬ Rankable (groups ++ extra.map (·.1)) (evidenceOf groups (razorOf cfg inp) inp.pil ++ extra.map (·.2)) ∧
          runPassFrom cfg inp [] groups extra rs scores π₁ π₂ = .error "no_ranked_groups") ∨
       (Rankable (groups ++ extra.map (·.1)) (evidenceOf groups (razorOf cfg inp) inp.pil ++ extra.map (·.2)) ∧
          ∃ p, runPassFrom cfg inp [] groups extra rs scores π₁ π₂ = .ok (p, [])))) := by
  cases hc : C05.collectEvidence groups inp.pil (razorOf cfg inp) rs with
  | error err =>
    left
    refine ⟨err, rfl, ?_⟩
    unfold runPassFrom
    rw [hc]
  | ok r =>
    obtain ⟨infos, peps⟩ := r
    obtain ⟨hinf, -⟩ := collect_eq_evidenceOf _ _ _ _ _ _ hc
    subst hinf
    right
    refine ⟨peps, rfl, ?_⟩
    have hfit' := (passFits_iff _ _ _ _ _ _).mp hfit
    have hitem := rankable_iff_item (groups ++ extra.map (·.1))
      (evidenceOf groups (razorOf cfg inp) inp.pil ++ extra.map (·.2)) scores hfit.scoresLen
    by_cases hr : Rankable (groups ++ extra.map (·.1)) (evidenceOf groups (razorOf cfg inp) inp.pil ++ extra.map (·.2))
    · right
      refine ⟨hr, ?_⟩
      have hne : C02.doCompetition cfg.mode (zipItems (groups ++ extra.map (·.1))
          (evidenceOf groups (razorOf cfg inp) inp.pil ++ extra.map (·.2)) scores) π₁ π₂ ≠ [] :=
        (doCompetition_ne_nil_iff _ _ _ _ hfit.ok).mpr (hitem.mp hr)
      have hmem : ∀ x ∈ C02.doCompetition cfg.mode (zipItems (groups ++ extra.map (·.1))
          (evidenceOf groups (razorOf cfg inp) inp.pil ++ extra.map (·.2)) scores) π₁ π₂, _ :=
        fun x hx => competeFrom_mem cfg.mode [] _ π₁ π₂ x hx
      obtain ⟨f, q, hf⟩ := calcProteinFdrs_ok_of_head _ hne
        (fun x hx => hsent x (hmem x hx).1 ((hasEvidence_iff x).mp (hmem x hx).2.1))
      obtain ⟨rows, hrows⟩ := fromProteinGroups_ranking_ok _
        (fun x hx => (hasEvidence_iff x).mp (hmem x hx).2.1) q
        (if rs then some (C17.cutoff (peps.map C17.PepVal.fin) inp.psm) else none) inp.keepAll
      obtain ⟨p, s, hp, -⟩ := runPassFrom_ok cfg inp [] groups extra rs scores π₁ π₂ _ peps _ f q rows hc
        (all_isEmpty_false_of_rankable _ _ hr) hfit'.1 hfit'.2 rfl hne hf hrows
      have hs := runPassFrom_seen _ _ _ _ _ _ _ _ _ _ hp
      subst hs
      exact ⟨p, hp⟩
    · left
      refine ⟨hr, ?_⟩
      unfold runPassFrom
      rw [hc]
      dsimp only
      split
      · rfl
      · rw [if_neg (by simpa using hfit'.1)]
        rw [if_neg (by simp [hfit'.2])]
        have hnil : (C02.competeFrom cfg.mode [] (zipItems (groups ++ extra.map (·.1))
            (evidenceOf groups (razorOf cfg inp) inp.pil ++ extra.map (·.2)) scores) π₁ π₂).1 = [] := by
          by_contra hne
          exact hr (hitem.mpr ((doCompetition_ne_nil_iff _ _ _ _ hfit.ok).mp hne))
        rw [hnil]
        rfl

/-! ## 3. what `collect_peptide_scores_per_protein` rejects, and which groups can be ranked, in terms of the data -/

/-- every peptide maps to at least one protein -/
def HasProteins (pil : List PepInfo) : Prop := ∀ x ∈ pil, x.proteins ≠ []

instance (pil : List PepInfo) : Decidable (HasProteins pil) := by unfold HasProteins; infer_instance

/-- every protein some peptide maps to is in some group -/
def Covers (groups : List (List String)) (pil : List PepInfo) : Prop :=
  ∀ x ∈ pil, ∀ q ∈ x.proteins, ∃ g ∈ groups, q ∈ g

theorem collectLoop_error_step (groups : List (List String)) (rz : Option C05.Razor) (suppress : Bool) :
    ∀ (pil : List PepInfo) (st : C05.State) (e : C05.Err), C05.collectLoop groups rz suppress pil st = .error e →
      ∃ x ∈ pil, ∃ st', C05.step groups rz suppress st' x = .error e := by
  intro pil
  induction pil with
  | nil => intro st e h; simp [C05.collectLoop] at h
  | cons x r ih =>
    intro st e h
    simp only [C05.collectLoop] at h
    cases hs : C05.step groups rz suppress st x with
    | error e' =>
      rw [hs] at h
      simp only [Except.error.injEq] at h
      subst h
      exact ⟨x, by simp, st, hs⟩
    | ok st1 =>
      rw [hs] at h
      obtain ⟨y, hy, st', hst'⟩ := ih st1 e h
      exact ⟨y, List.mem_cons_of_mem _ hy, st', hst'⟩

/-- which error: without the razor option only `unknown_protein`, and only with the warning on (first pass); with
    the razor option, on groups that cover the observed proteins, only `razor_no_proteins` -/
theorem collect_error_tag (groups : List (List String)) (pil : List PepInfo) (rz : Option C05.Razor) (s : Bool)
    (err : C05.Err) (h : C05.collectEvidence groups pil rz s = .error err) :
    (rz = none → err = .unknownProtein ∧ s = false) ∧
    (rz.isSome = true → Covers groups pil → err = .razorNoProteins) := by
  unfold C05.collectEvidence at h
  obtain ⟨x, hx, st, hst⟩ := collectLoop_error_step groups rz s pil _ err h
  unfold C05.step at hst
  constructor
  · intro hrz
    subst hrz
    simp only [C05.filterProteins] at hst
    split at hst
    · rename_i hm
      simp only [Except.error.injEq] at hst
      simp only [Bool.and_eq_true, Bool.not_eq_eq_eq_not, Bool.not_true] at hm
      exact ⟨hst.symm, hm.2⟩
    · split at hst
      · cases hst
      · split at hst <;> cases hst
  · intro hrz hcov
    obtain ⟨r, rfl⟩ := Option.isSome_iff_exists.mp hrz
    simp only [C05.filterProteins] at hst
    cases hp : C05.razorPick r x.proteins with
    | none =>
      rw [hp] at hst
      simp only [Except.error.injEq] at hst
      exact hst.symm
    | some p =>
      rw [hp] at hst
      simp only at hst
      exfalso
      obtain ⟨hmem, -⟩ := C05.razorPick_spec r x.proteins p hp
      obtain ⟨g, hg, hpg⟩ := hcov x hx p hmem
      have hidx : C05.idxOf groups p ≠ none := by
        intro hn
        exact (C05.idxOf_none_iff groups p).mp hn g hg hpg
      have hmiss : C05.isMissing (C05.groupIdxs groups [p]) = false := by
        simp only [C05.groupIdxs, List.map_cons, List.map_nil, C05.isMissing, List.all_cons, List.all_nil,
          Bool.and_true, beq_eq_false_iff_ne, ne_eq]
        exact hidx
      rw [hmiss] at hst
      simp only [Bool.false_and, Bool.false_eq_true, if_false] at hst
      split at hst
      · cases hst
      · split at hst <;> cases hst

/-- first pass (warning on), groups covering the observed proteins: a peptide is rejected exactly when it maps to
    no protein — `is_missing_in_protein_groups(set())` raises; with the razor option `sorted([])[0]` dies first -/
theorem accepts_first_iff (groups : List (List String)) (rz : Option C05.Razor) (pil : List PepInfo)
    (hcov : Covers groups pil) : Accepts groups rz false pil ↔ HasProteins pil := by
  unfold Accepts HasProteins
  constructor
  · intro h x hx hnil
    apply h x hx
    unfold C05.rejects
    rw [hnil]
    cases rz with
    | none => simp [C05.filterProteins, C05.groupIdxs, C05.isMissing]
    | some r => simp [C05.filterProteins, C05.razorPick]
  · intro h x hx hrej
    have hne := h x hx
    unfold C05.rejects at hrej
    cases rz with
    | none =>
      simp only [C05.filterProteins] at hrej
      obtain ⟨hm, -⟩ := hrej
      rw [C05.isMissing_iff] at hm
      cases hps : x.proteins with
      | nil => exact hne hps
      | cons p ps =>
        obtain ⟨g, hg, hpg⟩ := hcov x hx p (by rw [hps]; simp)
        have := hm (C05.idxOf groups p) (by rw [hps]; simp [C05.groupIdxs])
        exact (C05.idxOf_none_iff groups p).mp this g hg hpg
    | some r =>
      obtain ⟨p, hp⟩ := C05.razorPick_isSome r x.proteins hne
      simp only [C05.filterProteins, hp] at hrej
      obtain ⟨hm, -⟩ := hrej
      rw [C05.isMissing_iff] at hm
      obtain ⟨hmem, -⟩ := C05.razorPick_spec r x.proteins p hp
      obtain ⟨g, hg, hpg⟩ := hcov x hx p hmem
      have := hm (C05.idxOf groups p) (by simp [C05.groupIdxs])
      exact (C05.idxOf_none_iff groups p).mp this g hg hpg

/-- rescue pass (warning suppressed): only the razor option can reject, and only a peptide without proteins -/
theorem accepts_rescue_iff (groups : List (List String)) (rz : Option C05.Razor) (pil : List PepInfo) :
    Accepts groups rz true pil ↔ (rz.isSome = true → HasProteins pil) := by
  unfold Accepts HasProteins C05.rejects
  cases rz with
  | none => simp [C05.filterProteins]
  | some r =>
    simp only [C05.filterProteins, Option.isSome_some, forall_const]
    constructor
    · intro h x hx hnil
      apply h x hx
      rw [hnil]
      simp [C05.razorPick]
    · intro h x hx
      obtain ⟨p, hp⟩ := C05.razorPick_isSome r x.proteins (h x hx)
      rw [hp]
      simp

theorem disjoint_of_nodup_flatten (groups : List (List String)) (hnd : groups.flatten.Nodup) :
    ∀ (i j : Nat) (g g' : List String), groups[i]? = some g → groups[j]? = some g' → i ≠ j → ∀ p ∈ g, p ∉ g' := by
  have hpw := (List.nodup_flatten.mp hnd).2
  intro i j g g' hi hj hij p hp hp'
  obtain ⟨hil, rfl⟩ := List.getElem?_eq_some_iff.mp hi
  obtain ⟨hjl, rfl⟩ := List.getElem?_eq_some_iff.mp hj
  rcases Nat.lt_or_gt_of_ne hij with h | h
  · exact (List.pairwise_iff_getElem.mp hpw i j hil hjl h) hp hp'
  · exact (List.pairwise_iff_getElem.mp hpw j i hjl hil h) hp' hp

/-- **Which groups get evidence, in terms of the data.**  For groups that do not overlap, some non-contaminant
    group has evidence exactly when some peptide's proteins — after the razor reduction, if the method uses it —
    are not empty and all lie in one non-contaminant group ("a peptide unique to a group") -/
theorem rankable_iff_unique_peptide (groups : List (List String)) (rz : Option C05.Razor) (pil : List PepInfo)
    (hnd : groups.flatten.Nodup) :
    Rankable groups (evidenceOf groups rz pil) ↔
      ∃ g ∈ groups, isContaminant g = false ∧ ∃ x ∈ pil, ∃ prots,
        C05.filterProteins rz x.proteins = .ok prots ∧ prots ≠ [] ∧ ∀ p ∈ prots, p ∈ g := by
  have hdisj := disjoint_of_nodup_flatten groups hnd
  constructor
  · rintro ⟨i, g, info, h1, h2, h3, h4⟩
    have hi : i < groups.length := (List.getElem?_eq_some_iff.mp h1).1
    rw [evidenceOf_getElem? _ _ _ _ hi] at h2
    obtain rfl := Option.some.inj h2
    refine ⟨g, List.mem_of_getElem? h1, h4, ?_⟩
    obtain ⟨e, he⟩ := List.exists_mem_of_ne_nil _ h3
    obtain ⟨x, hx, hev⟩ := List.mem_filterMap.mp he
    refine ⟨x, hx, ?_⟩
    unfold C05.evFor C05.assign at hev
    cases hf : C05.filterProteins rz x.proteins with
    | error err => rw [hf] at hev; simp at hev
    | ok prots =>
      rw [hf] at hev
      simp only at hev
      cases hs : C05.supportOf groups prots with
      | none => rw [hs] at hev; simp at hev
      | some j =>
        rw [hs] at hev
        simp only at hev
        by_cases hji : j = i
        · subst hji
          obtain ⟨hne, hall⟩ := (C05.supportOf_eq_some groups prots j).mp hs
          refine ⟨prots, rfl, hne, ?_⟩
          intro p hp
          obtain ⟨g', hg', hpg'⟩ := ((C05.position_iff_member groups hdisj p j).1.mp (hall p hp))
          rw [h1] at hg'
          obtain rfl := Option.some.inj hg'
          exact hpg'
        · simp [hji] at hev
  · rintro ⟨g, hg, hc, x, hx, prots, hf, hne, hall⟩
    obtain ⟨i, hi⟩ := List.getElem?_of_mem hg
    have hil : i < groups.length := (List.getElem?_eq_some_iff.mp hi).1
    refine ⟨i, g, _, hi, evidenceOf_getElem? _ _ _ _ hil, ?_, hc⟩
    have hs : C05.supportOf groups prots = some i :=
      (C05.supportOf_eq_some groups prots i).mpr
        ⟨hne, fun p hp => (C05.position_iff_member groups hdisj p i).1.mpr ⟨g, hi, hall p hp⟩⟩
    have hev : C05.evFor groups rz i x = some ⟨x.pep, x.peptide, prots⟩ := by
      unfold C05.evFor C05.assign
      simp [hf, hs]
    intro hnil
    have : (⟨x.pep, x.peptide, prots⟩ : Evidence) ∈ pil.filterMap (C05.evFor groups rz i) :=
      List.mem_filterMap.mpr ⟨x, hx, hev⟩
    rw [hnil] at this
    cases this

/-- discard mode: a peptide whose proteins all lie in one non-contaminant group -/
theorem rankable_discard_iff (groups : List (List String)) (pil : List PepInfo) (hnd : groups.flatten.Nodup) :
    Rankable groups (evidenceOf groups none pil) ↔
      ∃ g ∈ groups, isContaminant g = false ∧ ∃ x ∈ pil, x.proteins ≠ [] ∧ ∀ p ∈ x.proteins, p ∈ g := by
  rw [rankable_iff_unique_peptide groups none pil hnd]
  simp [C05.filterProteins]

/-- razor mode: a peptide with proteins whose razor protein lies in a non-contaminant group -/
theorem rankable_razor_iff (groups : List (List String)) (rz : C05.Razor) (pil : List PepInfo)
    (hnd : groups.flatten.Nodup) :
    Rankable groups (evidenceOf groups (some rz) pil) ↔
      ∃ g ∈ groups, isContaminant g = false ∧ ∃ x ∈ pil, ∃ p, C05.razorPick rz x.proteins = some p ∧ p ∈ g := by
  rw [rankable_iff_unique_peptide groups (some rz) pil hnd]
  constructor
  · rintro ⟨g, hg, hc, x, hx, prots, hf, hne, hall⟩
    refine ⟨g, hg, hc, x, hx, ?_⟩
    simp only [C05.filterProteins] at hf
    cases hp : C05.razorPick rz x.proteins with
    | none => rw [hp] at hf; cases hf
    | some p =>
      rw [hp] at hf
      simp only [Except.ok.injEq] at hf
      subst hf
      exact ⟨p, rfl, hall p (by simp)⟩
  · rintro ⟨g, hg, hc, x, hx, p, hp, hpg⟩
    exact ⟨g, hg, hc, x, hx, [p], by simp [C05.filterProteins, hp], by simp, by simpa using hpg⟩

/-! ## 4. the first pass and the single-pass configurations -/

/-- the evidence of the first pass, as a function of the call's arguments -/
def infos1 (cfg : Config) (inp : Input) : List (List Evidence) :=
  evidenceOf (firstGrouping cfg inp.pil) (razorOf cfg inp) inp.pil

/-- the recorded parameters of the FIRST competition fit: `scores1` has one score per first-pass group, the first
    two recorded shuffles are permutations of the right lengths -/
def Fits1 (cfg : Config) (inp : Input) : Prop :=
  PassFits cfg.mode (firstGrouping cfg inp.pil) (infos1 cfg inp) inp.scores1 (shuffleAt inp 0) (shuffleAt inp 1)

instance (cfg : Config) (inp : Input) : Decidable (Fits1 cfg inp) := by unfold Fits1; infer_instance

/-- `Fits1` is what the executable guards of the first pass check -/
theorem fits1_iff (cfg : Config) (inp : Input) :
    Fits1 cfg inp ↔ inp.scores1.length = (firstGrouping cfg inp.pil).length ∧
      C02.shufflesFit cfg.mode [] ⟨zipItems (firstGrouping cfg inp.pil) (infos1 cfg inp) inp.scores1,
        shuffleAt inp 0, shuffleAt inp 1⟩ = true :=
  passFits_iff _ _ _ _ _ _

def NoSentinel1 (cfg : Config) (inp : Input) : Prop :=
  NoSentinel (firstGrouping cfg inp.pil) (infos1 cfg inp) inp.scores1

/-- the DATA condition of the first pass: some first-pass group has evidence and is not a contaminant group -/
def Rankable1 (cfg : Config) (inp : Input) : Prop := Rankable (firstGrouping cfg inp.pil) (infos1 cfg inp)

/-- the tag with which a peptide without proteins ends the first pass -/
def noProteinsTag (cfg : Config) : String := if cfg.razor then "razor_no_proteins" else "unknown_protein"

theorem firstGrouping_covers (cfg : Config) (pil : List PepInfo) (hk : distinctPeptides pil) :
    Covers (firstGrouping cfg pil) pil := by
  intro x hx q hq
  have := ((firstGrouping_partition cfg pil hk).2 q).mpr ⟨x, hx, hq⟩
  obtain ⟨g, hg, hqg⟩ := List.mem_flatten.mp this
  exact ⟨g, hg, hqg⟩

/-- the first pass of any configuration on a dict input with fitting records: the three possible outcomes -/
theorem pass1_eval (cfg : Config) (inp : Input) (hk : distinctPeptides inp.pil)
    (hfit : Fits1 cfg inp) (hsent : NoSentinel1 cfg inp) :
    (¬ HasProteins inp.pil ∧
      runPassFrom cfg inp [] (firstGrouping cfg inp.pil) [] false inp.scores1 (shuffleAt inp 0) (shuffleAt inp 1) =
        .error (noProteinsTag cfg)) ∨
    (HasProteins inp.pil ∧ ¬ Rankable1 cfg inp ∧
      runPassFrom cfg inp [] (firstGrouping cfg inp.pil) [] false inp.scores1 (shuffleAt inp 0) (shuffleAt inp 1) =
        .error "no_ranked_groups") ∨
    (HasProteins inp.pil ∧ Rankable1 cfg inp ∧
      ∃ p, runPassFrom cfg inp [] (firstGrouping cfg inp.pil) [] false inp.scores1 (shuffleAt inp 0) (shuffleAt inp 1) =
        .ok (p, []) ∧ p.groups = firstGrouping cfg inp.pil ∧ p.infos = infos1 cfg inp) := by
  have hcov := firstGrouping_covers cfg inp.pil hk
  have hacc := accepts_first_iff (firstGrouping cfg inp.pil) (razorOf cfg inp) inp.pil hcov
  have hfit' : PassFits cfg.mode (firstGrouping cfg inp.pil ++ ([] : List (List String × List Evidence)).map (·.1))
      (evidenceOf (firstGrouping cfg inp.pil) (razorOf cfg inp) inp.pil ++
        ([] : List (List String × List Evidence)).map (·.2)) inp.scores1 (shuffleAt inp 0) (shuffleAt inp 1) := by
    simpa [Fits1, infos1] using hfit
  have hsent' : NoSentinel (firstGrouping cfg inp.pil ++ ([] : List (List String × List Evidence)).map (·.1))
      (evidenceOf (firstGrouping cfg inp.pil) (razorOf cfg inp) inp.pil ++
        ([] : List (List String × List Evidence)).map (·.2)) inp.scores1 := by
    simpa [NoSentinel1, infos1] using hsent
  have hrk : Rankable (firstGrouping cfg inp.pil ++ ([] : List (List String × List Evidence)).map (·.1))
      (evidenceOf (firstGrouping cfg inp.pil) (razorOf cfg inp) inp.pil ++
        ([] : List (List String × List Evidence)).map (·.2)) ↔ Rankable1 cfg inp := by
    simp [Rankable1, infos1]
  rcases runPassFrom_eval cfg inp (firstGrouping cfg inp.pil) [] false inp.scores1 (shuffleAt inp 0) (shuffleAt inp 1)
    hfit' hsent' with ⟨err, hc, hrun⟩ | ⟨peps, hc, hrest⟩
  · left
    have hna : ¬ HasProteins inp.pil := by
      intro hp
      obtain ⟨r, hr⟩ := (C05.collect_ok_iff _ _ _ _).mpr (hacc.mpr hp)
      rw [hr] at hc; cases hc
    refine ⟨hna, ?_⟩
    rw [hrun]
    obtain ⟨h1, h2⟩ := collect_error_tag _ _ _ _ _ hc
    unfold noProteinsTag razorOf at *
    cases hrz : cfg.razor
    · rw [hrz] at h1
      simp only [Bool.false_eq_true, if_false, forall_const] at h1
      rw [h1.1]; rfl
    · rw [hrz] at h2
      simp only [if_true, Option.isSome_some, forall_const] at h2
      rw [h2 hcov]; rfl
  · have hp : HasProteins inp.pil := hacc.mp ((C05.collect_ok_iff _ _ _ _).mp ⟨_, hc⟩)
    rcases hrest with ⟨hnr, hrun⟩ | ⟨hr, p, hrun⟩
    · exact Or.inr (Or.inl ⟨hp, fun h => hnr (hrk.mpr h), hrun⟩)
    · obtain ⟨hg, hspec⟩ := runPassFrom_spec _ _ _ _ _ _ _ _ _ _ hrun
      refine Or.inr (Or.inr ⟨hp, hrk.mp hr, p, hrun, hg, ?_⟩)
      have := hspec.collect
      rw [hg, hc] at this
      simp only [Except.ok.injEq, Prod.mk.injEq] at this
      exact this.1.symm

/-- **Single-pass configurations: the three possible outcomes.**  For a configuration without a rescue step
    (`no`, `subset`, `pseudo_gene` grouping; any competition, razor or discard) on a dict input whose recorded
    parameters fit: the call ends with the no-proteins error if some peptide maps to no protein; else with
    `no_ranked_groups` if no non-contaminant first-pass group has evidence; else it completes, and the result is
    what `run_spec` says (`RunSpec`: groups, evidence, competition, q-values and rows of the one pass). -/
theorem run_single_pass_eval (cfg : Config) (inp : Input) (hg : cfg.grouping ≠ .rescuedSubset)
    (hk : distinctPeptides inp.pil) (hfit : Fits1 cfg inp) (hsent : NoSentinel1 cfg inp) :
    (¬ HasProteins inp.pil ∧ run cfg inp = .error (noProteinsTag cfg)) ∨
    (HasProteins inp.pil ∧ ¬ Rankable1 cfg inp ∧ run cfg inp = .error "no_ranked_groups") ∨
    (HasProteins inp.pil ∧ Rankable1 cfg inp ∧ ∃ r, run cfg inp = .ok r ∧ RunSpec cfg inp r ∧
      r.pass2 = none ∧ r.rows = r.pass1.rows ∧ r.pass1.infos = infos1 cfg inp) := by
  rcases pass1_eval cfg inp hk hfit hsent with ⟨h1, h2⟩ | ⟨h1, h2, h3⟩ | ⟨h1, h2, p, h3, -, h5⟩
  · left
    refine ⟨h1, ?_⟩
    unfold run runFrom
    simp only [h2]
  · right; left
    refine ⟨h1, h2, ?_⟩
    unfold run runFrom
    simp only [h3]
  · right; right
    have hrun := run_ok_single_pass cfg inp p [] hg h3
    exact ⟨h1, h2, _, hrun, run_spec cfg inp _ hrun, rfl, rfl, h5⟩

theorem noProteinsTag_ne (cfg : Config) : noProteinsTag cfg ≠ "no_ranked_groups" := by
  unfold noProteinsTag; cases cfg.razor <;> decide

/-- **Completion of the single-pass configurations (exact).**  With fitting records, a single-pass call on a dict
    input completes IF AND ONLY IF every peptide maps to a protein and some non-contaminant first-pass group has
    evidence. -/
theorem run_single_pass_ok_iff (cfg : Config) (inp : Input) (hg : cfg.grouping ≠ .rescuedSubset)
    (hk : distinctPeptides inp.pil) (hfit : Fits1 cfg inp) (hsent : NoSentinel1 cfg inp) :
    (∃ r, run cfg inp = .ok r) ↔ HasProteins inp.pil ∧ Rankable1 cfg inp := by
  rcases run_single_pass_eval cfg inp hg hk hfit hsent with ⟨h1, h2⟩ | ⟨h1, h2, h3⟩ | ⟨h1, h2, r, h3, -⟩
  · constructor
    · rintro ⟨r, hr⟩; rw [hr] at h2; cases h2
    · rintro ⟨h, -⟩; exact absurd h h1
  · constructor
    · rintro ⟨r, hr⟩; rw [hr] at h3; cases h3
    · rintro ⟨-, h⟩; exact absurd h h2
  · exact ⟨fun _ => ⟨h1, h2⟩, fun _ => ⟨r, h3⟩⟩

/-- **Failures of the single-pass configurations (exact).**  With fitting records the ONLY failures are the two
    data errors, each characterised: the no-proteins error (`unknown_protein`, or `razor_no_proteins` for a razor
    method) iff some peptide maps to no protein; `no_ranked_groups` iff every peptide maps to a protein and no
    non-contaminant first-pass group has evidence. -/
theorem run_single_pass_error_iff (cfg : Config) (inp : Input) (hg : cfg.grouping ≠ .rescuedSubset)
    (hk : distinctPeptides inp.pil) (hfit : Fits1 cfg inp) (hsent : NoSentinel1 cfg inp) (e : String) :
    run cfg inp = .error e ↔
      (e = noProteinsTag cfg ∧ ¬ HasProteins inp.pil) ∨
      (e = "no_ranked_groups" ∧ HasProteins inp.pil ∧ ¬ Rankable1 cfg inp) := by
  rcases run_single_pass_eval cfg inp hg hk hfit hsent with ⟨h1, h2⟩ | ⟨h1, h2, h3⟩ | ⟨h1, h2, r, h3, -⟩
  · rw [h2]
    constructor
    · intro h; injection h with h; exact Or.inl ⟨h.symm, h1⟩
    · rintro (⟨rfl, -⟩ | ⟨-, h, -⟩)
      · rfl
      · exact absurd h h1
  · rw [h3]
    constructor
    · intro h; injection h with h; exact Or.inr ⟨h.symm, h1, h2⟩
    · rintro (⟨-, h⟩ | ⟨rfl, -⟩)
      · exact absurd h1 h
      · rfl
  · rw [h3]
    constructor
    · intro h; cases h
    · rintro (⟨-, h⟩ | ⟨-, -, h⟩)
      · exact absurd h1 h
      · exact absurd h2 h

/-- the data condition `Rankable1` in terms of the peptide list: some peptide's proteins (after the razor
    reduction, if any) are not empty and all lie in ONE non-contaminant group of the first grouping -/
theorem rankable1_iff (cfg : Config) (inp : Input) (hk : distinctPeptides inp.pil) :
    Rankable1 cfg inp ↔
      ∃ g ∈ firstGrouping cfg inp.pil, isContaminant g = false ∧ ∃ x ∈ inp.pil, ∃ prots,
        C05.filterProteins (razorOf cfg inp) x.proteins = .ok prots ∧ prots ≠ [] ∧ ∀ p ∈ prots, p ∈ g :=
  rankable_iff_unique_peptide _ _ _ (firstGrouping_partition cfg inp.pil hk).1

/-- … for a discard method: some peptide with proteins, all in one non-contaminant group -/
theorem rankable1_discard_iff (cfg : Config) (inp : Input) (hk : distinctPeptides inp.pil) (hr : cfg.razor = false) :
    Rankable1 cfg inp ↔
      ∃ g ∈ firstGrouping cfg inp.pil, isContaminant g = false ∧
        ∃ x ∈ inp.pil, x.proteins ≠ [] ∧ ∀ p ∈ x.proteins, p ∈ g := by
  have := rankable_discard_iff _ inp.pil (firstGrouping_partition cfg inp.pil hk).1
  unfold Rankable1 infos1 razorOf
  rw [hr]
  exact this

/-! ## 5. the table of a first pass is empty only if every ranked group is a placeholder-named group -/

theorem minRat_none_iff (l : List Rat) : C04.minRat l = none ↔ l = [] := by
  cases l with
  | nil => simp [C04.minRat]
  | cons a r =>
    simp only [C04.minRat, reduceCtorEq, iff_false]
    cases C04.minRat r <;> simp

/-- `_calculate_rescue_score_cutoff` dies (`min([])`) exactly on an empty first-pass table -/
theorem rescueScore_none_iff (rows : List (Rat × Rat)) (thr : Rat) : C04.rescueScore rows thr = none ↔ rows = [] := by
  unfold C04.rescueScore
  dsimp only
  split
  · rw [minRat_none_iff]; simp
  · rename_i hne
    rw [minRat_none_iff]
    constructor
    · intro h; rw [h] at hne; simp at hne
    · intro h; rw [h] at hne; simp at hne

theorem ranked_eq_self {G : Type} (groups : List G) (scores : List Rat) (hl : scores.length = groups.length)
    (hs : ∀ s ∈ scores, s ≠ C01.sentinel) : C01.ranked groups scores = groups := by
  obtain ⟨n, h1, -, -, -, h5⟩ := C01.ranked_eq_take groups scores
  rcases h5 with h5 | h5
  · rw [h1, h5, hl, Nat.min_self, List.take_length]
  · exact absurd rfl (hs _ (List.mem_of_getElem? h5))

theorem rows_nil_iff (ranking : List C02.Item) (qvals : List Rat) (keepAll : Bool) (rows : List C06.RowData)
    (hrows : C06.fromProteinGroups (ranking.map (·.group)) (ranking.map (·.evidence)) (ranking.map (·.score))
      qvals none keepAll = .ok rows)
    (hq : qvals.length = ranking.length)
    (hpos : ∀ x ∈ ranking, ∃ p ∈ x.group, 0 < C06.cnt none x.evidence p) :
    rows = [] ↔ ∀ x ∈ ranking, isObsolete x.group = true := by
  constructor
  · intro hnil x hx
    subst hnil
    obtain ⟨idx, -, hlen, -, hwith⟩ := C06.rowsOfSlots_aligned none keepAll _ [] hrows
    have hidx : idx = [] := List.eq_nil_of_length_eq_zero (by simpa using hlen)
    obtain ⟨i, hi⟩ := List.getElem?_of_mem hx
    have hil : i < ranking.length := (List.getElem?_eq_some_iff.mp hi).1
    have hsl : i < (C06.slots (ranking.map (·.group)) (ranking.map (·.evidence)) (ranking.map (·.score)) qvals).length := by
      rw [C06.slots_length]; simp only [List.length_map]; omega
    obtain ⟨g, info, s, q, hslot, hw⟩ := hwith i hsl (by rw [hidx]; simp)
    obtain ⟨e1, e2, -, -⟩ := (C06.slots_getElem? _ _ _ _ i g info s q).mp hslot
    rw [List.getElem?_map, hi] at e1 e2
    simp only [Option.map_some, Option.some.injEq] at e1 e2
    subst e1 e2
    rcases hw with hw | hw
    · exact hw
    · exfalso
      obtain ⟨-, hz⟩ := (C06.fromProteinGroup_none_iff _ _ q s none keepAll).mp hw
      obtain ⟨p, hp, hpos'⟩ := hpos x hx
      have := hz p hp
      omega
  · intro hall
    obtain ⟨idx, -, hlen, hk⟩ := C06.report_alignment_aux _ _ _ _ none keepAll rows hrows
    cases rows with
    | nil => rfl
    | cons row rest =>
      exfalso
      have : 0 < idx.length := by rw [hlen]; simp
      obtain ⟨row', g, info, s, q, -, hg, -, -, -, -, -, hobs, -⟩ := hk 0 idx[0] (List.getElem?_eq_getElem this)
      rw [List.getElem?_map] at hg
      cases hx : ranking[idx[0]]? with
      | none => rw [hx] at hg; simp at hg
      | some x =>
        rw [hx] at hg
        simp only [Option.map_some, Option.some.injEq] at hg
        have := hall x (List.mem_of_getElem? hx)
        rw [hg, hobs] at this
        cases this

/-- a group that got its evidence from `collect_peptide_scores_per_protein` on a dict lists, for each evidence
    peptide, a protein with a positive peptide count (no PEP cutoff): the report never omits it -/
theorem evidence_gives_count (groups : List (List String)) (rz : Option C05.Razor) (pil : List PepInfo)
    (hk : distinctPeptides pil) (j : Nat) (g : List String) (hg : groups[j]? = some g)
    (hne : pil.filterMap (C05.evFor groups rz j) ≠ []) :
    ∃ p ∈ g, 0 < C06.cnt none (pil.filterMap (C05.evFor groups rz j)) p := by
  obtain ⟨e, he⟩ := List.exists_mem_of_ne_nil _ hne
  obtain ⟨x, hx, hev⟩ := List.mem_filterMap.mp he
  obtain ⟨hpne, hall⟩ := C05.evFor_position groups rz j x e hev
  obtain ⟨p, hp⟩ := List.exists_mem_of_ne_nil _ hpne
  obtain ⟨⟨g', hg', hpg'⟩, -⟩ := (C05.idxOf_some_iff groups p j).mp (hall p hp)
  rw [hg] at hg'
  obtain rfl := Option.some.inj hg'
  refine ⟨p, hpg', ?_⟩
  have hnd : ((pil.filterMap (C05.evFor groups rz j)).map (·.peptide)).Nodup :=
    (filterMap_map_sublist (C05.evFor groups rz j) (fun e : Evidence => e.peptide) (fun x : PepInfo => x.peptide)
      (fun a b hab => (evFor_fields groups rz j a b hab).1) pil).nodup hk
  rw [C06.cnt_eq_distinctCount none _ p hnd, C06.distinctCount_of_nodup none _ p hnd]
  apply List.length_pos_of_mem (a := e)
  unfold C06.supporting
  rw [List.mem_filter]
  exact ⟨he, by simp [C06.within, hp]⟩

/-! ## 6. the two-pass (rescue) configurations -/

/-- the ranking of the first competition, as a function of the call's arguments -/
def ranking1 (cfg : Config) (inp : Input) : List C02.Item :=
  C02.doCompetition cfg.mode (zipItems (firstGrouping cfg inp.pil) (infos1 cfg inp) inp.scores1)
    (shuffleAt inp 0) (shuffleAt inp 1)

/-- the DATA condition behind `no_rows`: every group the first competition ranks consists of `OBSOLETE__`-named
    proteins only (`from_protein_groups` skips such groups), so the first-pass table is empty -/
def NoRows1 (cfg : Config) (inp : Input) : Prop := ∀ x ∈ ranking1 cfg inp, isObsolete x.group = true

/-- the rescue stage on the first pass's groups and evidence with the recorded cutoff `c` -/
def rescueOut (cfg : Config) (inp : Input) (c : Rat) : Except String (C04.RescueOut (List Evidence)) :=
  C04.rescueGroups ((firstGrouping cfg inp.pil).zip (infos1 cfg inp)) inp.pil c inp.cuts

/-- the placeholder groups (with the evidence of the absorbed first-pass groups) appended for the second
    competition: only for a picked-group method -/
def extraOf (cfg : Config) (out : C04.RescueOut (List Evidence)) : List (List String × List Evidence) :=
  if isPickedGroup cfg.mode then out.obsolete.zip out.obsoleteInfos else []

def compGroups2 (cfg : Config) (out : C04.RescueOut (List Evidence)) : List (List String) :=
  out.groups ++ (extraOf cfg out).map (·.1)

def compInfos2 (cfg : Config) (inp : Input) (out : C04.RescueOut (List Evidence)) : List (List Evidence) :=
  evidenceOf out.groups (razorOf cfg inp) inp.pil ++ (extraOf cfg out).map (·.2)

/-- the recorded parameters of the SECOND competition fit -/
def Fits2 (cfg : Config) (inp : Input) (out : C04.RescueOut (List Evidence)) : Prop :=
  PassFits cfg.mode (compGroups2 cfg out) (compInfos2 cfg inp out) inp.scores2 (shuffleAt inp 2) (shuffleAt inp 3)

instance (cfg : Config) (inp : Input) (out : C04.RescueOut (List Evidence)) : Decidable (Fits2 cfg inp out) := by
  unfold Fits2; infer_instance

def NoSentinel2 (cfg : Config) (inp : Input) (out : C04.RescueOut (List Evidence)) : Prop :=
  NoSentinel (compGroups2 cfg out) (compInfos2 cfg inp out) inp.scores2

/-- the DATA condition of the second pass: some group handed to the second competition (a group of the rescue
    grouping with its new evidence, or — picked-group methods — a placeholder with the evidence of the first-pass
    group it stands for) has evidence and is not a contaminant group -/
def Rankable2 (cfg : Config) (inp : Input) (out : C04.RescueOut (List Evidence)) : Prop :=
  Rankable (compGroups2 cfg out) (compInfos2 cfg inp out)

theorem pass1_ranking (cfg : Config) (inp : Input) (p : PassOut)
    (hrun : runPassFrom cfg inp [] (firstGrouping cfg inp.pil) [] false inp.scores1 (shuffleAt inp 0) (shuffleAt inp 1)
      = .ok (p, [])) :
    p.groups = firstGrouping cfg inp.pil ∧ p.infos = infos1 cfg inp ∧ p.ranking = ranking1 cfg inp := by
  obtain ⟨hg, hspec⟩ := runPassFrom_spec _ _ _ _ _ _ _ _ _ _ hrun
  have hc := hspec.collect
  rw [hg] at hc
  obtain ⟨hi, -⟩ := collect_eq_evidenceOf _ _ _ _ _ _ hc
  refine ⟨hg, hi, ?_⟩
  rw [hspec.ranking, hspec.compGroups, hspec.compInfos, hg, hi]
  simp [ranking1, infos1]

/-- the first-pass table is empty exactly when every ranked first-pass group is a placeholder-named group -/
theorem pass1_rows_nil_iff (cfg : Config) (inp : Input) (hk : distinctPeptides inp.pil)
    (hsent : NoSentinel1 cfg inp) (p : PassOut)
    (hrun : runPassFrom cfg inp [] (firstGrouping cfg inp.pil) [] false inp.scores1 (shuffleAt inp 0) (shuffleAt inp 1)
      = .ok (p, [])) :
    p.rows = [] ↔ NoRows1 cfg inp := by
  obtain ⟨hg, hi, hrk⟩ := pass1_ranking cfg inp p hrun
  obtain ⟨-, hspec⟩ := runPassFrom_spec _ _ _ _ _ _ _ _ _ _ hrun
  have hmem : ∀ x ∈ p.ranking, x ∈ zipItems (firstGrouping cfg inp.pil) (infos1 cfg inp) inp.scores1 ∧
      x.hasEvidence = true := by
    intro x hx
    rw [hrk] at hx
    have := competeFrom_mem cfg.mode [] _ _ _ x hx
    exact ⟨this.1, this.2.1⟩
  have hq : p.qvals.length = p.ranking.length := by
    obtain ⟨-, hf, hqv⟩ := (C01.calc_ok_iff C01.isDecoyGroup _ _ _ _).mp hspec.fdrs
    rw [ranked_eq_self _ _ (by simp)] at hf
    · rw [hqv, C01.fdrsToQvals_length, hf, C01.fdrs_length, List.length_map]
    · intro s hs
      obtain ⟨x, hx, rfl⟩ := List.mem_map.mp hs
      exact hsent x (hmem x hx).1 ((hasEvidence_iff x).mp (hmem x hx).2)
  have hrows := hspec.rows
  simp only [Bool.false_eq_true, if_false] at hrows
  have hpos : ∀ x ∈ p.ranking, ∃ q ∈ x.group, 0 < C06.cnt none x.evidence q := by
    intro x hx
    obtain ⟨j, hj1, hj2, -⟩ := mem_zipItems _ _ _ x (hmem x hx).1
    have hjl : j < (firstGrouping cfg inp.pil).length := (List.getElem?_eq_some_iff.mp hj1).1
    unfold infos1 at hj2
    rw [evidenceOf_getElem? _ _ _ _ hjl] at hj2
    have hev := Option.some.inj hj2
    rw [← hev]
    apply evidence_gives_count _ _ _ hk j x.group hj1
    rw [hev]
    exact (hasEvidence_iff x).mp (hmem x hx).2
  rw [rows_nil_iff p.ranking p.qvals inp.keepAll p.rows hrows hq hpos, hrk]
  rfl

/-- **Two-pass (rescue) configurations: the seven possible outcomes.**  For a configuration with a rescue step on
    a dict input whose FIRST-pass records fit, and whose second-pass records fit whatever rescue grouping the
    recorded cutoff and cut map lead to.  In the order the call meets them:

    1. a peptide without proteins: the no-proteins error;
    2. no non-contaminant first-pass group has evidence: `no_ranked_groups`;
    3. every ranked first-pass group is placeholder-named, so the first table is empty: `no_rows` (`min([])`);
    4. (protocol) no rescue cutoff recorded: `missing_rescue_cutoff`;
    5. (protocol) the recorded cut map does not answer the rescue stage: its error (`cut_lookup_miss`/`empty_cut`);
    6. no non-contaminant group handed to the second competition has evidence: `no_ranked_groups`;
    7. otherwise the call completes with the result `run_spec` describes (`RunSpec`), on this rescue output. -/
theorem run_rescue_eval (cfg : Config) (inp : Input) (hg : cfg.grouping = .rescuedSubset)
    (hk : distinctPeptides inp.pil) (hfit : Fits1 cfg inp) (hsent : NoSentinel1 cfg inp)
    (hfit2 : ∀ c out, inp.rescueCutoff = some c → rescueOut cfg inp c = .ok out →
      Fits2 cfg inp out ∧ NoSentinel2 cfg inp out) :
    (¬ HasProteins inp.pil ∧ run cfg inp = .error (noProteinsTag cfg)) ∨
    (HasProteins inp.pil ∧ ¬ Rankable1 cfg inp ∧ run cfg inp = .error "no_ranked_groups") ∨
    (HasProteins inp.pil ∧ Rankable1 cfg inp ∧ NoRows1 cfg inp ∧ run cfg inp = .error "no_rows") ∨
    (HasProteins inp.pil ∧ Rankable1 cfg inp ∧ ¬ NoRows1 cfg inp ∧ inp.rescueCutoff = none ∧
      run cfg inp = .error "missing_rescue_cutoff") ∨
    (HasProteins inp.pil ∧ Rankable1 cfg inp ∧ ¬ NoRows1 cfg inp ∧ ∃ c, inp.rescueCutoff = some c ∧
      ((∃ e, rescueOut cfg inp c = .error e ∧ (e = "cut_lookup_miss" ∨ e = "empty_cut") ∧ run cfg inp = .error e) ∨
       (∃ out, rescueOut cfg inp c = .ok out ∧
         ((¬ Rankable2 cfg inp out ∧ run cfg inp = .error "no_ranked_groups") ∨
          (Rankable2 cfg inp out ∧ ∃ r, run cfg inp = .ok r ∧ RunSpec cfg inp r ∧ r.rescue = some out ∧
            ∃ p2, r.pass2 = some p2 ∧ r.rows = p2.rows))))) := by
  rcases pass1_eval cfg inp hk hfit hsent with ⟨h1, h2⟩ | ⟨h1, h2, h3⟩ | ⟨h1, h2, p1, h3, h4, h5⟩
  · left
    refine ⟨h1, ?_⟩
    unfold run runFrom
    simp only [h2]
  · right; left
    refine ⟨h1, h2, ?_⟩
    unfold run runFrom
    simp only [h3]
  · right; right
    have hnil := pass1_rows_nil_iff cfg inp hk hsent p1 h3
    by_cases hnr : NoRows1 cfg inp
    · left
      refine ⟨h1, h2, hnr, ?_⟩
      have hs : C04.rescueScore (p1.rows.map (fun r => (r.score, r.qValue))) inp.thr = none := by
        rw [rescueScore_none_iff, hnil.mpr hnr]; rfl
      unfold run runFrom
      simp only [h3, hg, ne_eq, not_true_eq_false, if_false, hs]
    · right
      have hs : ∃ sc, C04.rescueScore (p1.rows.map (fun r => (r.score, r.qValue))) inp.thr = some sc := by
        cases hsc : C04.rescueScore (p1.rows.map (fun r => (r.score, r.qValue))) inp.thr with
        | some sc => exact ⟨sc, rfl⟩
        | none =>
          exfalso
          rw [rescueScore_none_iff, List.map_eq_nil_iff] at hsc
          exact hnr (hnil.mp hsc)
      obtain ⟨sc, hs⟩ := hs
      cases hc : inp.rescueCutoff with
      | none =>
        left
        refine ⟨h1, h2, hnr, rfl, ?_⟩
        unfold run runFrom
        simp only [h3, hg, ne_eq, not_true_eq_false, if_false, hs, hc]
      | some c =>
        right
        refine ⟨h1, h2, hnr, c, rfl, ?_⟩
        have hout_eq : C04.rescueGroups (p1.groups.zip p1.infos) inp.pil c inp.cuts = rescueOut cfg inp c := by
          rw [h4, h5]; rfl
        cases ho : rescueOut cfg inp c with
        | error e =>
          left
          refine ⟨e, rfl, rescueGroups_error _ _ _ _ _ ho, ?_⟩
          rw [← hout_eq] at ho
          unfold run runFrom
          simp only [h3, hg, ne_eq, not_true_eq_false, if_false, hs, hc, ho]
        | ok out =>
          right
          refine ⟨out, rfl, ?_⟩
          obtain ⟨hf2, hs2⟩ := hfit2 c out hc ho
          rw [← hout_eq] at ho
          have hacc2 : Accepts out.groups (razorOf cfg inp) true inp.pil :=
            (accepts_rescue_iff _ _ _).mpr (fun _ => h1)
          rcases runPassFrom_eval cfg inp out.groups (extraOf cfg out) true inp.scores2 (shuffleAt inp 2)
            (shuffleAt inp 3) hf2 hs2 with ⟨err, hce, -⟩ | ⟨peps, -, hrest⟩
          · exfalso
            obtain ⟨r, hr⟩ := (C05.collect_ok_iff _ _ _ _).mpr hacc2
            rw [hr] at hce; cases hce
          · rcases hrest with ⟨hnr2, hrun2⟩ | ⟨hr2, p2, hrun2⟩
            · left
              refine ⟨hnr2, ?_⟩
              unfold extraOf at hrun2
              unfold run runFrom
              simp only [h3, hg, ne_eq, not_true_eq_false, if_false, hs, hc, ho, hrun2]
            · right
              unfold extraOf at hrun2
              have hrun := run_ok_rescue cfg inp p1 p2 [] [] sc c out hg h3 hs hc ho hrun2
              exact ⟨hr2, _, hrun, run_spec cfg inp _ hrun, rfl, p2, rfl, rfl⟩

/-- **Completion of the two-pass configurations (exact).**  With fitting records — first pass, a recorded rescue
    cutoff `c`, a cut map that answers the rescue stage (`rescueOut … = .ok out`), second pass — a rescue call on
    a dict input completes IF AND ONLY IF every peptide maps to a protein, some non-contaminant first-pass group
    has evidence, some ranked first-pass group is not placeholder-named, and some non-contaminant group handed to
    the second competition has evidence. -/
theorem run_rescue_ok_iff (cfg : Config) (inp : Input) (hg : cfg.grouping = .rescuedSubset)
    (hk : distinctPeptides inp.pil) (hfit : Fits1 cfg inp) (hsent : NoSentinel1 cfg inp)
    (c : Rat) (hc : inp.rescueCutoff = some c) (out : C04.RescueOut (List Evidence))
    (hout : rescueOut cfg inp c = .ok out) (hfit2 : Fits2 cfg inp out) (hsent2 : NoSentinel2 cfg inp out) :
    (∃ r, run cfg inp = .ok r) ↔
      HasProteins inp.pil ∧ Rankable1 cfg inp ∧ ¬ NoRows1 cfg inp ∧ Rankable2 cfg inp out := by
  have hfit2' : ∀ c' out', inp.rescueCutoff = some c' → rescueOut cfg inp c' = .ok out' →
      Fits2 cfg inp out' ∧ NoSentinel2 cfg inp out' := by
    intro c' out' hc' ho'
    rw [hc] at hc'
    obtain rfl := Option.some.inj hc'
    rw [hout] at ho'
    obtain rfl := Except.ok.inj ho'
    exact ⟨hfit2, hsent2⟩
  rcases run_rescue_eval cfg inp hg hk hfit hsent hfit2' with
    ⟨h1, h2⟩ | ⟨h1, h2, h3⟩ | ⟨h1, h2, h3, h4⟩ | ⟨h1, h2, h3, h4, h5⟩ | ⟨h1, h2, h3, c', hc', h4⟩
  · constructor
    · rintro ⟨r, hr⟩; rw [hr] at h2; cases h2
    · rintro ⟨h, -⟩; exact absurd h h1
  · constructor
    · rintro ⟨r, hr⟩; rw [hr] at h3; cases h3
    · rintro ⟨-, h, -⟩; exact absurd h h2
  · constructor
    · rintro ⟨r, hr⟩; rw [hr] at h4; cases h4
    · rintro ⟨-, -, h, -⟩; exact absurd h3 h
  · rw [hc] at h4; cases h4
  · rw [hc] at hc'
    obtain rfl := Option.some.inj hc'
    rcases h4 with ⟨e, he, -, -⟩ | ⟨out', ho', h5⟩
    · rw [hout] at he; cases he
    · rw [hout] at ho'
      obtain rfl := Except.ok.inj ho'
      rcases h5 with ⟨h5, h6⟩ | ⟨h5, r, h6, -⟩
      · constructor
        · rintro ⟨r, hr⟩; rw [hr] at h6; cases h6
        · rintro ⟨-, -, -, h⟩; exact absurd h h5
      · exact ⟨fun _ => ⟨h1, h2, h3, h5⟩, fun _ => ⟨r, h6⟩⟩

/-- **Failures of the two-pass configurations (exact).**  With fitting records (as in `run_rescue_ok_iff`) the ONLY
    failures are data errors, each characterised: the no-proteins error iff some peptide maps to no protein;
    `no_ranked_groups` iff no non-contaminant group has evidence in the first pass, or — the first pass having
    produced a non-empty table — in the second; `no_rows` iff the first pass ranks only placeholder-named groups. -/
theorem run_rescue_error_iff (cfg : Config) (inp : Input) (hg : cfg.grouping = .rescuedSubset)
    (hk : distinctPeptides inp.pil) (hfit : Fits1 cfg inp) (hsent : NoSentinel1 cfg inp)
    (c : Rat) (hc : inp.rescueCutoff = some c) (out : C04.RescueOut (List Evidence))
    (hout : rescueOut cfg inp c = .ok out) (hfit2 : Fits2 cfg inp out) (hsent2 : NoSentinel2 cfg inp out)
    (e : String) :
    run cfg inp = .error e ↔
      (e = noProteinsTag cfg ∧ ¬ HasProteins inp.pil) ∨
      (e = "no_ranked_groups" ∧ HasProteins inp.pil ∧
        (¬ Rankable1 cfg inp ∨ (Rankable1 cfg inp ∧ ¬ NoRows1 cfg inp ∧ ¬ Rankable2 cfg inp out))) ∨
      (e = "no_rows" ∧ HasProteins inp.pil ∧ Rankable1 cfg inp ∧ NoRows1 cfg inp) := by
  have hfit2' : ∀ c' out', inp.rescueCutoff = some c' → rescueOut cfg inp c' = .ok out' →
      Fits2 cfg inp out' ∧ NoSentinel2 cfg inp out' := by
    intro c' out' hc' ho'
    rw [hc] at hc'
    obtain rfl := Option.some.inj hc'
    rw [hout] at ho'
    obtain rfl := Except.ok.inj ho'
    exact ⟨hfit2, hsent2⟩
  rcases run_rescue_eval cfg inp hg hk hfit hsent hfit2' with
    ⟨h1, h2⟩ | ⟨h1, h2, h3⟩ | ⟨h1, h2, h3, h4⟩ | ⟨h1, h2, h3, h4, h5⟩ | ⟨h1, h2, h3, c', hc', h4⟩
  · rw [h2]
    constructor
    · intro h; injection h with h; exact Or.inl ⟨h.symm, h1⟩
    · rintro (⟨rfl, -⟩ | ⟨-, h, -⟩ | ⟨-, h, -⟩)
      · rfl
      · exact absurd h h1
      · exact absurd h h1
  · rw [h3]
    constructor
    · intro h; injection h with h; exact Or.inr (Or.inl ⟨h.symm, h1, Or.inl h2⟩)
    · rintro (⟨-, h⟩ | ⟨rfl, -⟩ | ⟨-, -, h, -⟩)
      · exact absurd h1 h
      · rfl
      · exact absurd h h2
  · rw [h4]
    constructor
    · intro h; injection h with h; exact Or.inr (Or.inr ⟨h.symm, h1, h2, h3⟩)
    · rintro (⟨-, h⟩ | ⟨-, -, h | ⟨-, h, -⟩⟩ | ⟨rfl, -⟩)
      · exact absurd h1 h
      · exact absurd h2 h
      · exact absurd h3 h
      · rfl
  · rw [hc] at h4; cases h4
  · rw [hc] at hc'
    obtain rfl := Option.some.inj hc'
    rcases h4 with ⟨e', he, -, -⟩ | ⟨out', ho', h5⟩
    · rw [hout] at he; cases he
    · rw [hout] at ho'
      obtain rfl := Except.ok.inj ho'
      rcases h5 with ⟨h5, h6⟩ | ⟨h5, r, h6, -⟩
      · rw [h6]
        constructor
        · intro h; injection h with h; exact Or.inr (Or.inl ⟨h.symm, h1, Or.inr ⟨h2, h3, h5⟩⟩)
        · rintro (⟨-, h⟩ | ⟨rfl, -⟩ | ⟨-, -, -, h⟩)
          · exact absurd h1 h
          · rfl
          · exact absurd h h3
      · rw [h6]
        constructor
        · intro h; cases h
        · rintro (⟨-, h⟩ | ⟨-, -, h | ⟨-, -, h⟩⟩ | ⟨-, -, -, h⟩)
          · exact absurd h1 h
          · exact absurd h2 h
          · exact absurd h5 h
          · exact absurd h h3

/-! ## 7. a protocol error means that the records do not fit (no hypothesis on the data) -/

/-- a pass on fresh strategy objects whose records fit does not end with a protocol error -/
theorem runPassFrom_no_protocol_error (cfg : Config) (inp : Input) (groups : List (List String))
    (extra : List (List String × List Evidence)) (rs : Bool) (scores : List Rat) (π₁ π₂ : List Nat) (e : String)
    (hfit : PassFits cfg.mode (groups ++ extra.map (·.1))
      (evidenceOf groups (razorOf cfg inp) inp.pil ++ extra.map (·.2)) scores π₁ π₂)
    (h : runPassFrom cfg inp [] groups extra rs scores π₁ π₂ = .error e) :
    e = "unknown_protein" ∨ e = "razor_no_proteins" ∨ e = "no_ranked_groups" := by
  have hfit' := (passFits_iff _ _ _ _ _ _).mp hfit
  have htags := runPassFrom_error_tags _ _ _ _ _ _ _ _ _ _ h
  unfold runPassFrom at h
  split at h
  · rcases htags with h' | h' | h' | h' | h'
    · exact Or.inl h'
    · exact Or.inr (Or.inl h')
    · exact Or.inr (Or.inr h')
    · rename_i err _
      exfalso; simp only [Except.error.injEq] at h; subst h; cases err <;> simp [C05.Err.toString] at h'
    · rename_i err _
      exfalso; simp only [Except.error.injEq] at h; subst h; cases err <;> simp [C05.Err.toString] at h'
  · rename_i infos peps hc
    obtain ⟨hinf, -⟩ := collect_eq_evidenceOf _ _ _ _ _ _ hc
    subst hinf
    dsimp only at h
    split at h
    · simp only [Except.error.injEq] at h; exact Or.inr (Or.inr h.symm)
    rw [if_neg (by simpa using hfit'.1), if_neg (by simp [hfit'.2])] at h
    rcases htags with h' | h' | h' | h' | h'
    · exact Or.inl h'
    · exact Or.inr (Or.inl h')
    · exact Or.inr (Or.inr h')
    all_goals
      exfalso
      subst h'
      split at h
      · simp at h
      split at h
      · rename_i e' he'
        have := (calcProteinFdrs_error _ _ _ he').2
        subst this
        simp at h
      · split at h
        · rename_i e' he'
          obtain ⟨rows, hrows⟩ := fromProteinGroups_ranking_ok
            (C02.competeFrom cfg.mode [] (zipItems (groups ++ extra.map (·.1))
              (evidenceOf groups (razorOf cfg inp) inp.pil ++ extra.map (·.2)) scores) π₁ π₂).1
            (fun x hx => (hasEvidence_iff x).mp (competeFrom_mem _ _ _ _ _ x hx).2.1) _
            (if rs then some _ else none) inp.keepAll
          rw [hrows] at he'
          cases he'
        · cases h

/-- **A protocol error means the records do not fit.**  If the inference call ends with one of the five protocol
    errors then the first-pass records do not fit (`¬ Fits1`), or — rescue configurations — no rescue cutoff was
    recorded, or the recorded cut map does not answer the rescue stage, or the second-pass records do not fit the
    rescue output.  No hypothesis on the data. -/
theorem run_protocol_error_misfit (cfg : Config) (inp : Input) (e : String) (h : run cfg inp = .error e)
    (he : e ∈ protocolErrors) :
    ¬ Fits1 cfg inp ∨
    (cfg.grouping = .rescuedSubset ∧
      (inp.rescueCutoff = none ∨ ∃ c, inp.rescueCutoff = some c ∧
        ((∃ e', rescueOut cfg inp c = .error e') ∨ ∃ out, rescueOut cfg inp c = .ok out ∧ ¬ Fits2 cfg inp out))) := by
  have hnot : ¬ (e = "unknown_protein" ∨ e = "razor_no_proteins" ∨ e = "no_ranked_groups") := by
    simp only [protocolErrors, List.mem_cons, List.not_mem_nil, or_false] at he
    rcases he with h | h | h | h | h <;> subst h <;> decide
  have hnr : e ≠ "no_rows" := by
    simp only [protocolErrors, List.mem_cons, List.not_mem_nil, or_false] at he
    rcases he with h | h | h | h | h <;> subst h <;> decide
  unfold run at h
  split at h
  · rename_i e' he'
    simp only [Except.error.injEq] at h; subst h
    unfold runFrom at he'
    dsimp only at he'
    split at he'
    · rename_i e'' h1
      simp only [Except.error.injEq] at he'; subst he'
      left
      intro hfit
      have hfit' : PassFits cfg.mode (firstGrouping cfg inp.pil ++ ([] : List (List String × List Evidence)).map (·.1))
          (evidenceOf (firstGrouping cfg inp.pil) (razorOf cfg inp) inp.pil ++
            ([] : List (List String × List Evidence)).map (·.2)) inp.scores1 (shuffleAt inp 0) (shuffleAt inp 1) := by
        simpa [Fits1, infos1] using hfit
      exact hnot (runPassFrom_no_protocol_error _ _ _ _ _ _ _ _ _ hfit' h1)
    · rename_i p1 seen1 h1
      have hs1 : seen1 = [] := runPassFrom_seen _ _ _ _ _ _ _ _ _ _ h1
      subst hs1
      obtain ⟨hg1, hi1, -⟩ := pass1_ranking cfg inp p1 h1
      split at he'
      · cases he'
      · rename_i hgr
        have hgr' : cfg.grouping = .rescuedSubset := by
          by_contra hne; exact hgr hne
        right
        refine ⟨hgr', ?_⟩
        split at he'
        · simp only [Except.error.injEq] at he'; exact absurd he'.symm hnr
        · split at he'
          · rename_i hc; exact Or.inl hc
          · rename_i c hc
            right
            refine ⟨c, hc, ?_⟩
            have hout_eq : C04.rescueGroups (p1.groups.zip p1.infos) inp.pil c inp.cuts = rescueOut cfg inp c := by
              rw [hg1, hi1]; rfl
            rw [hout_eq] at he'
            split at he'
            · rename_i e'' ho; exact Or.inl ⟨e'', ho⟩
            · rename_i out ho
              right
              refine ⟨out, ho, ?_⟩
              intro hfit2
              split at he'
              · rename_i e'' h2
                simp only [Except.error.injEq] at he'; subst he'
                exact hnot (runPassFrom_no_protocol_error cfg inp out.groups (extraOf cfg out) true _ _ _ _ hfit2 h2)
              · cases he'
  · cases h

/-- **Every failure of the inference call is a data error or a misfit of the records** (`run_error_tags` and
    `run_protocol_error_misfit` together; both configurations, no hypothesis on the data) -/
theorem run_error_data_or_misfit (cfg : Config) (inp : Input) (e : String) (h : run cfg inp = .error e) :
    e ∈ dataErrors ∨
    ¬ Fits1 cfg inp ∨
    (cfg.grouping = .rescuedSubset ∧
      (inp.rescueCutoff = none ∨ ∃ c, inp.rescueCutoff = some c ∧
        ((∃ e', rescueOut cfg inp c = .error e') ∨ ∃ out, rescueOut cfg inp c = .ok out ∧ ¬ Fits2 cfg inp out))) := by
  rcases run_error_tags cfg inp e h with hd | hp
  · exact Or.inl hd
  · exact Or.inr (run_protocol_error_misfit cfg inp e h hp)

/-! ## 8. the hypotheses are necessary: a completed call has fitting records; non-vacuity -/

/-- a call that completes has fitting first-pass records -/
theorem fits1_of_run_ok (cfg : Config) (inp : Input) (r : Result) (h : run cfg inp = .ok r) : Fits1 cfg inp := by
  obtain ⟨hg, hp, -⟩ := run_spec cfg inp r h
  have hc := hp.collect
  rw [hg] at hc
  obtain ⟨hi, -⟩ := collect_eq_evidenceOf _ _ _ _ _ _ hc
  have hcg : r.pass1.compGroups = firstGrouping cfg inp.pil := by rw [hp.compGroups, hg]; simp
  have hci : r.pass1.compInfos = infos1 cfg inp := by rw [hp.compInfos, hi]; simp [infos1]
  have hs := hp.shuffles
  rw [hcg, hci] at hs
  exact ⟨by rw [hp.scoresLen, hcg], hs.p1, hs.p2⟩

/-- a rescue call that completes has a recorded cutoff, a cut map that answers the rescue stage and fitting
    second-pass records -/
theorem fits2_of_run_ok (cfg : Config) (inp : Input) (r : Result) (h : run cfg inp = .ok r)
    (hgr : cfg.grouping = .rescuedSubset) :
    ∃ c out, inp.rescueCutoff = some c ∧ rescueOut cfg inp c = .ok out ∧ Fits2 cfg inp out ∧ r.rescue = some out := by
  obtain ⟨hg, hp, hcases⟩ := run_spec cfg inp r h
  rcases hcases with ⟨hne, -⟩ | ⟨-, p2, out, c, s, -, hr, -, hc, -, hout, hg2, hp2, -⟩
  · exact absurd hgr hne
  · have hc1 := hp.collect
    rw [hg] at hc1
    obtain ⟨hi, -⟩ := collect_eq_evidenceOf _ _ _ _ _ _ hc1
    refine ⟨c, out, hc, ?_, ?_, hr⟩
    · rw [hg, hi] at hout; exact hout
    · have hc2 := hp2.collect
      rw [hg2] at hc2
      obtain ⟨hi2, -⟩ := collect_eq_evidenceOf _ _ _ _ _ _ hc2
      have hcg : p2.compGroups = compGroups2 cfg out := by rw [hp2.compGroups, hg2]; rfl
      have hci : p2.compInfos = compInfos2 cfg inp out := by rw [hp2.compInfos, hi2]; rfl
      have hs := hp2.shuffles
      rw [hcg, hci] at hs
      exact ⟨by rw [hp2.scoresLen, hcg], hs.p1, hs.p2⟩

/-- no recorded score at all is the sentinel: sufficient for `NoSentinel` -/
theorem noSentinel_of_scores (gs : List (List String)) (es : List (List Evidence)) (scores : List Rat)
    (h : ∀ s ∈ scores, s ≠ C01.sentinel) : NoSentinel gs es scores := by
  intro x hx _
  obtain ⟨i, -, -, hi⟩ := mem_zipItems gs es scores x hx
  exact h _ (List.mem_of_getElem? hi)

/-- the one-pass demonstration call of `Proofs/Pipeline.lean` satisfies every hypothesis of
    `run_single_pass_ok_iff` and the data condition -/
theorem demo1_hypotheses : demoCfg1.grouping ≠ .rescuedSubset ∧ distinctPeptides demoInp1.pil ∧
    Fits1 demoCfg1 demoInp1 ∧ NoSentinel1 demoCfg1 demoInp1 ∧ HasProteins demoInp1.pil ∧
    Rankable1 demoCfg1 demoInp1 := by
  obtain ⟨r, hr, -⟩ := demo_run1
  have hg : demoCfg1.grouping ≠ .rescuedSubset := by decide
  have hf := fits1_of_run_ok _ _ r hr
  have hs : NoSentinel1 demoCfg1 demoInp1 := noSentinel_of_scores _ _ _ (by decide +kernel)
  obtain ⟨h1, h2⟩ := (run_single_pass_ok_iff _ _ hg demo_distinct.1 hf hs).mp ⟨r, hr⟩
  exact ⟨hg, demo_distinct.1, hf, hs, h1, h2⟩

/-- the two-pass demonstration call satisfies every hypothesis of `run_rescue_ok_iff` and the data condition -/
theorem demo2_hypotheses : demoCfg2.grouping = .rescuedSubset ∧ distinctPeptides demoInp2.pil ∧
    Fits1 demoCfg2 demoInp2 ∧ NoSentinel1 demoCfg2 demoInp2 ∧
    ∃ c out, demoInp2.rescueCutoff = some c ∧ rescueOut demoCfg2 demoInp2 c = .ok out ∧
      Fits2 demoCfg2 demoInp2 out ∧ NoSentinel2 demoCfg2 demoInp2 out ∧
      HasProteins demoInp2.pil ∧ Rankable1 demoCfg2 demoInp2 ∧ ¬ NoRows1 demoCfg2 demoInp2 ∧
      Rankable2 demoCfg2 demoInp2 out := by
  obtain ⟨r, hr, -⟩ := demo_run2
  have hg : demoCfg2.grouping = .rescuedSubset := rfl
  have hf := fits1_of_run_ok _ _ r hr
  have hs : NoSentinel1 demoCfg2 demoInp2 := noSentinel_of_scores _ _ _ (by decide +kernel)
  obtain ⟨c, out, hc, hout, hf2, -⟩ := fits2_of_run_ok _ _ r hr hg
  have hs2 : NoSentinel2 demoCfg2 demoInp2 out := noSentinel_of_scores _ _ _ (by decide +kernel)
  obtain ⟨h1, h2, h3, h4⟩ :=
    (run_rescue_ok_iff _ _ hg demo_distinct.2 hf hs c hc out hout hf2 hs2).mp ⟨r, hr⟩
  exact ⟨hg, demo_distinct.2, hf, hs, c, out, hc, hout, hf2, hs2, h1, h2, h3, h4⟩

/-- empty recorded shuffles fit a competition in which no group has evidence -/
theorem passFits_nil (mode : C02.Mode) (gs : List (List String)) (es : List (List Evidence)) (scores : List Rat)
    (hl : scores.length = gs.length) (h0 : (zipItems gs es scores).filter (·.hasEvidence) = []) :
    PassFits mode gs es scores [] [] := by
  refine ⟨hl, by rw [h0]; exact List.Perm.refl _, ?_⟩
  have : C02.keptFrom mode [] (zipItems gs es scores) [] = [] := by
    simp [C02.keptFrom, C02.passOrder, C02.shuffle, C02.pass]
  rw [this]
  exact List.Perm.refl _

def demoInpShared : Input :=
  { demoInp1 with pil := [⟨"PEPA", 1/1000, ["A", "B"]⟩], shuffles := [[], []], scores1 := [-100, -100] }

def demoInpNoProteins : Input :=
  { demoInp1 with pil := [⟨"PEPA", 1/1000, []⟩], shuffles := [[], []], scores1 := [] }

/-- the data conditions can fail (1): a peptide list whose only peptide is shared between two proteins that are
    not grouped gives no group any evidence; the records fit (one score per group, empty shuffles) and the call
    ends with `no_ranked_groups` -/
theorem demo_no_ranked : distinctPeptides demoInpShared.pil ∧ Fits1 demoCfg1 demoInpShared ∧
    NoSentinel1 demoCfg1 demoInpShared ∧ HasProteins demoInpShared.pil ∧ ¬ Rankable1 demoCfg1 demoInpShared ∧
    run demoCfg1 demoInpShared = .error "no_ranked_groups" := by
  have hg : demoCfg1.grouping ≠ .rescuedSubset := by decide
  have hk : distinctPeptides demoInpShared.pil := by decide +kernel
  have hf : Fits1 demoCfg1 demoInpShared :=
    passFits_nil _ _ _ _ (by decide +kernel) (by decide +kernel)
  have hs : NoSentinel1 demoCfg1 demoInpShared := by
    intro x hx hev
    have h0 : (zipItems (firstGrouping demoCfg1 demoInpShared.pil) (infos1 demoCfg1 demoInpShared)
        demoInpShared.scores1).filter (·.hasEvidence) = [] := by decide +kernel
    have : x ∈ (zipItems (firstGrouping demoCfg1 demoInpShared.pil) (infos1 demoCfg1 demoInpShared)
        demoInpShared.scores1).filter (·.hasEvidence) := List.mem_filter.mpr ⟨hx, (hasEvidence_iff x).mpr hev⟩
    rw [h0] at this
    cases this
  have hp : HasProteins demoInpShared.pil := by decide +kernel
  have hnr : ¬ Rankable1 demoCfg1 demoInpShared := by
    rw [rankable1_discard_iff _ _ hk rfl]
    decide +kernel
  exact ⟨hk, hf, hs, hp, hnr, (run_single_pass_error_iff _ _ hg hk hf hs _).mpr (Or.inr ⟨rfl, hp, hnr⟩)⟩

/-- the data conditions can fail (2): a peptide without proteins ends the call with the no-proteins error -/
theorem demo_no_proteins : distinctPeptides demoInpNoProteins.pil ∧ Fits1 demoCfg1 demoInpNoProteins ∧
    NoSentinel1 demoCfg1 demoInpNoProteins ∧ ¬ HasProteins demoInpNoProteins.pil ∧
    run demoCfg1 demoInpNoProteins = .error "unknown_protein" := by
  have hg : demoCfg1.grouping ≠ .rescuedSubset := by decide
  have hk : distinctPeptides demoInpNoProteins.pil := by decide +kernel
  have hf : Fits1 demoCfg1 demoInpNoProteins :=
    passFits_nil _ _ _ _ (by decide +kernel) (by decide +kernel)
  have hs : NoSentinel1 demoCfg1 demoInpNoProteins := noSentinel_of_scores _ _ _ (by decide +kernel)
  have hp : ¬ HasProteins demoInpNoProteins.pil := by decide +kernel
  exact ⟨hk, hf, hs, hp, (run_single_pass_error_iff _ _ hg hk hf hs _).mpr (Or.inl ⟨rfl, hp⟩)⟩

end PgFdr.Pipeline
