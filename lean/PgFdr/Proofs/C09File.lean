import PgFdr.Proofs.C09

/-! Helper lemmas for C09: the map file (`writeMap` / `readMap`) — splitting and joining. -/
namespace PgFdr.C09

/-! ## `splitAux` -/

theorem splitAux_skip (pat : Str) : ∀ (u rest cur : Str),
    splitAux pat u.length (u ++ rest) cur = splitAux pat 0 rest cur := by
  intro u
  induction u with
  | nil => intro rest cur; rfl
  | cons x u ih =>
    intro rest cur
    simp only [List.length_cons, List.cons_append, splitAux]
    exact ih rest cur

theorem isPrefixOf_cons_ne (d c : Char) (pt t : Str) (h : c ≠ d) : (d :: pt).isPrefixOf (c :: t) = false := by
  simp only [List.isPrefixOf]
  have : (d == c) = false := by simp; exact fun e => h e.symm
  simp [this]

/-- no occurrence of the pattern's first character: one piece -/
theorem splitAux_none (d : Char) (pt : Str) : ∀ (s cur : Str), d ∉ s →
    splitAux (d :: pt) 0 s cur = [cur.reverse ++ s] := by
  intro s
  induction s with
  | nil => intro cur _; simp [splitAux]
  | cons c t ih =>
    intro cur h
    simp only [List.mem_cons, not_or] at h
    have hc : c ≠ d := fun e => h.1 e.symm
    simp only [splitAux, isPrefixOf_cons_ne d c pt t hc, Bool.false_eq_true, and_false, if_false]
    rw [ih (c :: cur) h.2]
    simp

theorem isPrefixOf_self_append (p rest : Str) : p.isPrefixOf (p ++ rest) = true := by
  rw [List.isPrefixOf_iff_prefix]
  exact List.prefix_append p rest

/-- the first occurrence of the pattern ends the first piece -/
theorem splitAux_first (d : Char) (pt : Str) : ∀ (s₁ rest cur : Str), d ∉ s₁ →
    splitAux (d :: pt) 0 (s₁ ++ (d :: pt) ++ rest) cur =
      (cur.reverse ++ s₁) :: splitAux (d :: pt) 0 rest [] := by
  intro s₁
  induction s₁ with
  | nil =>
    intro rest cur _
    have hp : (d :: pt).isPrefixOf (d :: (pt ++ rest)) = true := isPrefixOf_self_append (d :: pt) rest
    simp only [List.nil_append, List.cons_append, splitAux, hp, ne_eq, reduceCtorEq, not_false_eq_true,
      and_self, if_true, List.length_cons, Nat.add_sub_cancel, List.append_nil]
    rw [splitAux_skip]
  | cons c t ih =>
    intro rest cur h
    simp only [List.mem_cons, not_or] at h
    have hc : c ≠ d := fun e => h.1 e.symm
    simp only [List.cons_append, splitAux, isPrefixOf_cons_ne d c pt _ hc, Bool.false_eq_true, and_false, if_false]
    have := ih rest (c :: cur) h.2
    simp only [List.cons_append, List.append_assoc] at this ⊢
    rw [this]
    simp

theorem splitOn_none (d : Char) (pt s : Str) (h : d ∉ s) : splitOn (d :: pt) s = [s] := by
  unfold splitOn; rw [splitAux_none d pt s [] h]; simp

theorem splitOn_first (d : Char) (pt s₁ rest : Str) (h : d ∉ s₁) :
    splitOn (d :: pt) (s₁ ++ (d :: pt) ++ rest) = s₁ :: splitOn (d :: pt) rest := by
  unfold splitOn; rw [splitAux_first d pt s₁ rest [] h]; simp

/-- `sep.join(l).split(sep)` for a one-character separator that occurs in no item -/
theorem splitOn_joinSep (d : Char) : ∀ (l : List Str), l ≠ [] → (∀ x ∈ l, d ∉ x) →
    splitOn [d] (joinSep [d] l) = l := by
  intro l
  induction l with
  | nil => intro h; exact absurd rfl h
  | cons x xs ih =>
    intro _ hx
    cases xs with
    | nil => simp only [joinSep]; exact splitOn_none d [] x (hx x (by simp))
    | cons y ys =>
      simp only [joinSep]
      have := splitOn_first d [] x (joinSep [d] (y :: ys)) (hx x (by simp))
      simp only [List.append_assoc, List.cons_append, List.nil_append] at this ⊢
      rw [this, ih (by simp) (fun z hz => hx z (by simp [hz]))]

/-- rows terminated by `\r\n`, none containing `\r` -/
theorem splitOn_rows : ∀ (rows : List Str), (∀ r ∈ rows, '\r' ∉ r) →
    splitOn ['\r', '\n'] (rows.flatMap (fun r => r ++ ['\r', '\n'])) = rows ++ [[]] := by
  intro rows
  induction rows with
  | nil => intro _; rfl
  | cons r rows ih =>
    intro h
    simp only [List.flatMap_cons]
    have := splitOn_first '\r' ['\n'] r (rows.flatMap (fun r => r ++ ['\r', '\n'])) (h r (by simp))
    simp only [List.append_assoc] at this ⊢
    rw [this, ih (fun x hx => h x (by simp [hx]))]
    simp

/-! ## writing -/

def rowOf (kv : Str × List Str) : Str := kv.1 ++ ['\t'] ++ joinSep [';'] kv.2

theorem mem_joinSep (sep : Str) : ∀ (l : List Str) (c : Char), c ∈ joinSep sep l → c ∈ sep ∨ ∃ x ∈ l, c ∈ x := by
  intro l
  induction l with
  | nil => intro c h; simp [joinSep] at h
  | cons x xs ih =>
    intro c h
    cases xs with
    | nil => simp only [joinSep] at h; exact Or.inr ⟨x, by simp, h⟩
    | cons y ys =>
      simp only [joinSep, List.mem_append] at h
      rcases h with (h | h) | h
      · exact Or.inr ⟨x, by simp, h⟩
      · exact Or.inl h
      · rcases ih c h with h' | ⟨z, hz, hc⟩
        · exact Or.inl h'
        · exact Or.inr ⟨z, by simp [hz], hc⟩

theorem plainField_of_clean (s : Str) (h : ∀ c ∈ s, c ∉ forbidden) : plainField s = true := by
  unfold plainField
  simp only [Bool.not_eq_true', List.any_eq_false, Bool.or_eq_true, beq_iff_eq, not_or]
  intro c hc
  have := h c hc
  simp only [forbidden, List.mem_cons, List.not_mem_nil, or_false, not_or] at this
  exact ⟨⟨⟨this.1, this.2.1⟩, this.2.2.2.1⟩, this.2.2.1⟩

theorem joined_clean (prots : List Str) (h : ∀ p ∈ prots, CleanProt p) : ∀ c ∈ joinSep [';'] prots, c ∉ forbidden := by
  intro c hc
  rcases mem_joinSep [';'] prots c hc with h' | ⟨x, hx, hcx⟩
  · simp only [List.mem_singleton] at h'
    subst h'
    decide
  · have := h x hx c hcx
    simp only [List.mem_cons, not_or] at this
    intro hf
    exact this.2 hf

theorem writeMap_ok : ∀ (m : PMap), (∀ kv ∈ m, CleanPep kv.1) → (∀ kv ∈ m, ∀ p ∈ kv.2, CleanProt p) →
    writeMap m = .ok (m.flatMap (fun kv => rowOf kv ++ ['\r', '\n'])) := by
  intro m
  induction m with
  | nil => intro _ _; rfl
  | cons kv m ih =>
    intro h1 h2
    obtain ⟨pep, prots⟩ := kv
    have hp : plainField pep = true := plainField_of_clean pep (h1 (pep, prots) (by simp))
    have hf : plainField (joinSep [';'] prots) = true :=
      plainField_of_clean _ (joined_clean prots (h2 (pep, prots) (by simp)))
    simp only [writeMap, hp, hf, Bool.and_self, if_true,
      ih (fun kv hkv => h1 kv (by simp [hkv])) (fun kv hkv => h2 kv (by simp [hkv])), List.flatMap_cons, rowOf]

/-! ## reading -/

theorem foldl_push_new {Q P : Type} [DecidableEq Q] (k : Q) : ∀ (ps : List P) (d : List (Q × List P)) (l : List P),
    k ∉ keys d → ps.foldl (fun d p => push d k p) (d ++ [(k, l)]) = d ++ [(k, l ++ ps)] := by
  intro ps
  induction ps with
  | nil => intro d l _; simp
  | cons p ps ih =>
    intro d l hk
    simp only [List.foldl_cons]
    have : push (d ++ [(k, l)]) k p = d ++ [(k, l ++ [p])] := by
      clear ih
      induction d with
      | nil => simp [push]
      | cons hd r ihd =>
        obtain ⟨a, ws⟩ := hd
        simp only [keys, List.map_cons, List.mem_cons, not_or] at hk
        have hne : ¬ a = k := fun e => hk.1 e.symm
        simp only [List.cons_append, push, hne, if_false]
        rw [ihd hk.2]
    rw [this, ih d (l ++ [p]) hk]
    simp

theorem push_new {Q P : Type} [DecidableEq Q] (d : List (Q × List P)) (k : Q) (v : P) (h : k ∉ keys d) :
    push d k v = d ++ [(k, [v])] := by
  induction d with
  | nil => rfl
  | cons hd r ih =>
    obtain ⟨a, ws⟩ := hd
    simp only [keys, List.map_cons, List.mem_cons, not_or] at h
    have hne : ¬ a = k := fun e => h.1 e.symm
    simp only [push, hne, if_false, List.cons_append]
    rw [ih h.2]

theorem foldl_push_entry {Q P : Type} [DecidableEq Q] (k : Q) (ps : List P) (hne : ps ≠ []) (d : List (Q × List P))
    (hk : k ∉ keys d) : ps.foldl (fun d p => push d k p) d = d ++ [(k, ps)] := by
  cases ps with
  | nil => exact absurd rfl hne
  | cons p ps =>
    simp only [List.foldl_cons]
    rw [push_new d k p hk, foldl_push_new k ps d [p] hk]
    simp

theorem tab_not_mem_pep (s : Str) (h : CleanPep s) : '\t' ∉ s := by
  intro hm
  exact h _ hm (by decide)

theorem tab_not_mem_joined (prots : List Str) (h : ∀ p ∈ prots, CleanProt p) : '\t' ∉ joinSep [';'] prots := by
  intro hm
  exact joined_clean prots h _ hm (by decide)

theorem readRows_spec : ∀ (rest d : PMap), (keys (d ++ rest)).Nodup → (∀ kv ∈ rest, kv.2 ≠ []) →
    (∀ kv ∈ rest, CleanPep kv.1) → (∀ kv ∈ rest, ∀ p ∈ kv.2, CleanProt p) →
    readRows (rest.map rowOf) d = .ok (d ++ rest) := by
  intro rest
  induction rest with
  | nil => intro d _ _ _ _; simp [readRows]
  | cons kv rest ih =>
    intro d hnd hne h1 h2
    obtain ⟨pep, prots⟩ := kv
    have hsplit : splitOn ['\t'] (rowOf (pep, prots)) = [pep, joinSep [';'] prots] := by
      have := splitOn_first '\t' [] pep (joinSep [';'] prots) (tab_not_mem_pep pep (h1 (pep, prots) (by simp)))
      simp only [rowOf]
      rw [this, splitOn_none '\t' [] _ (tab_not_mem_joined prots (h2 (pep, prots) (by simp)))]
    have hsemi : splitOn [';'] (joinSep [';'] prots) = prots := by
      apply splitOn_joinSep ';' prots (hne (pep, prots) (by simp))
      intro x hx hm
      exact h2 (pep, prots) (by simp) x hx _ hm (by simp)
    have hk : pep ∉ keys d := by
      intro hm
      simp only [keys, List.map_append, List.map_cons] at hnd
      have := (List.nodup_append.mp hnd).2.2 pep (by simpa [keys] using hm) pep (by simp)
      exact this rfl
    simp only [List.map_cons, readRows, hsplit, hsemi]
    rw [foldl_push_entry pep prots (hne (pep, prots) (by simp)) d hk]
    have := ih (d ++ [(pep, prots)]) (by simpa using hnd) (fun kv hkv => hne kv (by simp [hkv]))
      (fun kv hkv => h1 kv (by simp [hkv])) (fun kv hkv => h2 kv (by simp [hkv]))
    rw [this]
    simp

theorem rowOf_clean (kv : Str × List Str) (h1 : CleanPep kv.1) (h2 : ∀ p ∈ kv.2, CleanProt p) :
    ∀ c ∈ rowOf kv, c = '\t' ∨ c ∉ forbidden := by
  intro c hc
  simp only [rowOf, List.mem_append, List.mem_singleton] at hc
  rcases hc with (hc | hc) | hc
  · exact Or.inr (h1 c hc)
  · exact Or.inl hc
  · exact Or.inr (joined_clean kv.2 h2 c hc)

theorem flatMap_rows (m : PMap) :
    m.flatMap (fun kv => rowOf kv ++ ['\r', '\n']) = (m.map rowOf).flatMap (fun r => r ++ ['\r', '\n']) := by
  rw [List.flatMap_map]

theorem readMap_text (m : PMap) (hk : (keys m).Nodup) (hne : ∀ kv ∈ m, kv.2 ≠ [])
    (h1 : ∀ kv ∈ m, CleanPep kv.1) (h2 : ∀ kv ∈ m, ∀ p ∈ kv.2, CleanProt p) :
    readMap (m.flatMap (fun kv => rowOf kv ++ ['\r', '\n'])) = .ok m := by
  have hrow : ∀ r ∈ m.map rowOf, ∀ c ∈ r, c = '\t' ∨ c ∉ forbidden := by
    intro r hr c hc
    obtain ⟨kv, hkv, rfl⟩ := List.mem_map.mp hr
    exact rowOf_clean kv (h1 kv hkv) (h2 kv hkv) c hc
  have hchars : ∀ c ∈ m.flatMap (fun kv => rowOf kv ++ ['\r', '\n']),
      c = '\t' ∨ c = '\r' ∨ c = '\n' ∨ c ∉ forbidden := by
    intro c hc
    rw [flatMap_rows] at hc
    obtain ⟨r, hr, hcr⟩ := List.mem_flatMap.mp hc
    simp only [List.mem_append, List.mem_cons, List.not_mem_nil, or_false] at hcr
    rcases hcr with hcr | hcr | hcr
    · rcases hrow r hr c hcr with h | h
      · exact Or.inl h
      · exact Or.inr (Or.inr (Or.inr h))
    · exact Or.inr (Or.inl hcr)
    · exact Or.inr (Or.inr (Or.inl hcr))
  have hbom : ¬ ((m.flatMap (fun kv => rowOf kv ++ ['\r', '\n'])).head? == some (Char.ofNat 0xFEFF)) = true := by
    intro h
    simp only [beq_iff_eq] at h
    have hmem := List.mem_of_head? h
    rcases hchars _ hmem with h' | h' | h' | h'
    · exact absurd h' (by decide)
    · exact absurd h' (by decide)
    · exact absurd h' (by decide)
    · exact h' (by simp [forbidden])
  have hquote : (m.flatMap (fun kv => rowOf kv ++ ['\r', '\n'])).any (fun c => c == '"') = false := by
    rw [List.any_eq_false]
    intro c hc
    simp only [beq_iff_eq]
    rcases hchars c hc with h' | h' | h' | h'
    · rw [h']; decide
    · rw [h']; decide
    · rw [h']; decide
    · intro e; exact h' (by rw [e]; simp [forbidden])
  have hnocr : ∀ r ∈ m.map rowOf, '\r' ∉ r := by
    intro r hr hm
    rcases hrow r hr _ hm with h | h
    · exact absurd h (by decide)
    · exact h (by simp [forbidden])
  have hsplit := splitOn_rows (m.map rowOf) hnocr
  rw [← flatMap_rows] at hsplit
  have hany : (m.map rowOf).any (fun r => r.any (fun c => c == '\r' || c == '\n')) = false := by
    rw [List.any_eq_false]
    intro r hr
    simp only [Bool.not_eq_true, List.any_eq_false, Bool.or_eq_true, beq_iff_eq, not_or]
    intro c hc
    rcases hrow r hr c hc with h | h
    · rw [h]; exact ⟨by decide, by decide⟩
    · exact ⟨fun e => h (by rw [e]; simp [forbidden]), fun e => h (by rw [e]; simp [forbidden])⟩
  unfold readMap
  simp only [hbom, if_false, hquote, Bool.false_eq_true, hsplit]
  have hlast : ((m.map rowOf ++ [[]]).getLast? == some ([] : Str)) = true := by simp
  simp only [hlast, if_true, List.dropLast_concat, hany, Bool.false_eq_true, if_false]
  have := readRows_spec m [] (by simpa using hk) hne h1 h2
  simpa using this

end PgFdr.C09
