import PgFdr.Model.C10Glue
import PgFdr.Props.C09

/-!
Helper lemmas for the glue theorems of `Props/C10.lean` (`params_round_trip` …): the argument lists
`digestion_params_list_to_arg_list` renders are parsed back by `get_digestion_params_list` into the list they came
from.  Uses `C09.args_broadcast` (the success theorem of `get_digestion_params_list`, `Props/C09.lean`).
-/

namespace PgFdr.C10
open PgFdr.C09 (Params ArgLists MapsErr digestionParamsList mkParams argLengths pick)

theorem pick_of_length {α : Type} (l : List α) (i : Nat) (hi : i < l.length) : pick l i = l[i]? := by
  match l, hi with
  | [x], hi =>
    have : i = 0 := by simpa using hi
    subst this
    simp [pick]
  | _ :: _ :: _, _ => simp [pick]

theorem ofList_eq_none_iff (l : List Char) : (String.ofList l == "none") = true ↔ l = "none".toList := by
  constructor
  · intro h
    have h' : String.ofList l = "none" := by simpa using h
    have := congrArg String.toList h'
    simpa using this
  · intro h
    subst h
    decide

/-- re-constructing a constructed object from its rendered attributes gives the object back, up to `db` -/
theorem mkParams_of_constructed (cd : Bool) (p : Params) (hp : Constructed p) :
    mkParams p.enzyme p.digestion p.minL p.maxL p.mc (specialArg p) cd = withDb cd p := by
  obtain ⟨e, d, mn, mx, c, s, b, rfl⟩ := hp
  by_cases he : (e == "no_enzyme") = true
  · by_cases hs : (s == "none") = true
    · have hs' : s = "none" := by simpa using hs
      subst hs'
      simp [mkParams, withDb, specialArg, he]
    · have h2 : ¬ ((String.ofList s.toList == "none") = true) := by
        simpa using hs
      simp [mkParams, withDb, specialArg, he, hs]
  · by_cases hs : (s == "none") = true
    · have hs' : s = "none" := by simpa using hs
      subst hs'
      simp [mkParams, withDb, specialArg, he]
    · simp [mkParams, withDb, specialArg, he, hs]

theorem throughGlue_ok (cd : Bool) (ps : List Params) (hc : ∀ p ∈ ps, Constructed p) :
    throughGlue cd ps = .ok (ps.map (withDb cd)) := by
  have hn : ps.length ∈ argLengths (toArgLists cd ps) := by simp [argLengths, toArgLists]
  have hall : ∀ l ∈ argLengths (toArgLists cd ps), l = 1 ∨ l = ps.length := by
    intro l hl
    simp [argLengths, toArgLists] at hl
    rcases hl with h | h
    · exact Or.inr h
    · exact Or.inl h
  obtain ⟨qs, hqs, hlen, hget⟩ := C09.args_broadcast (toArgLists cd ps) ps.length hn hall
  unfold throughGlue
  rw [hqs]
  congr 1
  apply List.ext_getElem?
  intro i
  by_cases hi : i < ps.length
  · rw [hget i hi]
    have e1 : pick (toArgLists cd ps).enzyme i = some ps[i].enzyme := by
      rw [pick_of_length _ _ (by simpa [toArgLists] using hi)]; simp [toArgLists, hi]
    have e2 : pick (toArgLists cd ps).digestion i = some ps[i].digestion := by
      rw [pick_of_length _ _ (by simpa [toArgLists] using hi)]; simp [toArgLists, hi]
    have e3 : pick (toArgLists cd ps).minL i = some ps[i].minL := by
      rw [pick_of_length _ _ (by simpa [toArgLists] using hi)]; simp [toArgLists, hi]
    have e4 : pick (toArgLists cd ps).maxL i = some ps[i].maxL := by
      rw [pick_of_length _ _ (by simpa [toArgLists] using hi)]; simp [toArgLists, hi]
    have e5 : pick (toArgLists cd ps).mc i = some ps[i].mc := by
      rw [pick_of_length _ _ (by simpa [toArgLists] using hi)]; simp [toArgLists, hi]
    have e6 : pick (toArgLists cd ps).special i = some (specialArg ps[i]) := by
      rw [pick_of_length _ _ (by simpa [toArgLists] using hi)]; simp [toArgLists, hi]
    rw [e1, e2, e3, e4, e5, e6]
    have hcd : (toArgLists cd ps).containsDecoys = cd := rfl
    rw [hcd]
    simp only [bind, Option.bind, pure]
    rw [mkParams_of_constructed cd ps[i] (hc _ (List.getElem_mem hi))]
    simp [hi]
  · have h1 : qs[i]? = none := by
      apply List.getElem?_eq_none
      omega
    have h2 : ps[i]? = none := by
      apply List.getElem?_eq_none
      omega
    rw [h1, List.getElem?_map, h2]
    rfl

theorem pairUpD_eq_zip (maps : List Digest) (files : List (List RawRow)) (h : maps.length = files.length) :
    pairUpD true maps files = maps.zip files := by
  unfold pairUpD
  simp only [if_true]
  by_cases h1 : maps.length = 1
  · match maps, h1 with
    | [m], _ =>
      have : files.length = 1 := by simpa using h.symm
      simp [this]
  · simp [h1]

theorem pepMaps_length (parse : C09.ParseId) (fasta : List (List C09.Str)) (groups : Option (List (List C09.Str))) :
    ∀ (ps : List Params) (ms : List (C09.PMap × C09.SeqMap)),
      C09.pepMaps parse fasta groups ps = .ok ms → ms.length = ps.length
  | [], ms, h => by
    simp only [C09.pepMaps] at h
    cases h
    rfl
  | p :: ps, ms, h => by
    simp only [C09.pepMaps] at h
    cases hm : C09.mapOf parse fasta groups p with
    | error e => rw [hm] at h; cases h
    | ok m =>
      rw [hm] at h
      cases hr : C09.pepMaps parse fasta groups ps with
      | error e => rw [hr] at h; cases h
      | ok rest =>
        rw [hr] at h
        cases h
        simp [pepMaps_length parse fasta groups ps rest hr]

/-- the i-th digest of the list is the digest of the i-th parameter set -/
theorem pepMaps_get (parse : C09.ParseId) (fasta : List (List C09.Str)) (groups : Option (List (List C09.Str))) :
    ∀ (ps : List Params) (ms : List (C09.PMap × C09.SeqMap)),
      C09.pepMaps parse fasta groups ps = .ok ms →
      ∀ i : Nat, (ms[i]?).map Except.ok = (ps[i]?).map (C09.mapOf parse fasta groups)
  | [], ms, h, i => by
    simp only [C09.pepMaps] at h
    cases h
    simp
  | p :: ps, ms, h, i => by
    simp only [C09.pepMaps] at h
    cases hm : C09.mapOf parse fasta groups p with
    | error e => rw [hm] at h; cases h
    | ok m =>
      rw [hm] at h
      cases hr : C09.pepMaps parse fasta groups ps with
      | error e => rw [hr] at h; cases h
      | ok rest =>
        rw [hr] at h
        cases h
        cases i with
        | zero => simp [hm]
        | succ j => simpa using pepMaps_get parse fasta groups ps rest hr j

end PgFdr.C10
