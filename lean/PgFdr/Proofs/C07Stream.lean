import PgFdr.Model.C07Stream
import PgFdr.Proofs.Cli

/-!
Helper lemmas for the stream form of the command-line run (`Model/C07Stream.lean`): what a completed method loop
holds per position of `--methods`, arithmetic of the stream positions, and the fact that the run on a stream reads
the stream only through the per-method slices.
-/
namespace PgFdr.C07
open PgFdr.Cli

/-! ### a completed run, per position of `--methods` -/

/-- a run that completed: the set-up succeeded with one parsed configuration per mention in `--methods`, the loop holds
    one entry per mention, and the entry at position `i` is the outcome of `run_method` for the `i`-th name, the
    `i`-th configuration and the `i`-th record -/
theorem outcomes_spec (inp : CliInput) (os : List (Option CliTable)) (h : cliOutcomes inp = .ok os) :
    ∃ (env : Env) (cfgs : List C18.Cfg), setup inp = .ok (env, cfgs) ∧ cfgs.length = inp.methods.length ∧
      os.length = inp.methods.length ∧
      ∀ (i : Nat) (name : String) (c : C18.Cfg), inp.methods[i]? = some name → cfgs[i]? = some c →
        ∃ o, os[i]? = some o ∧
          Cli.runMethod inp env (decide (cfgs.length > 1)) name c (inp.recs.getD i default) = .ok o := by
  unfold cliOutcomes at h
  have hco : cliOutcome inp = (os, none) := by
    rcases hc : cliOutcome inp with ⟨os', e⟩
    rw [hc] at h
    cases e with
    | none => simp only [Except.ok.injEq] at h; rw [h]
    | some e => simp at h
  unfold cliOutcome at hco
  cases hs : setup inp with
  | error e => rw [hs] at hco; simp at hco
  | ok ec =>
    obtain ⟨env, cfgs⟩ := ec
    rw [hs] at hco
    simp only at hco
    obtain ⟨-, hp, -, -⟩ := setup_spec inp env cfgs hs
    obtain ⟨hlenp, -⟩ := parseAll_spec _ _ _ _ hp
    have hlen : cfgs.length = inp.methods.length := by simpa using hlenp
    obtain ⟨hl, hall⟩ := loop_ok inp env _ _ _ hco
    refine ⟨env, cfgs, rfl, hlen, ?_, ?_⟩
    · rw [hl]
      simp [items, recsFor, hlen]
    · intro i name c hn hc
      obtain ⟨o, hrun, hoi⟩ := hall i _ (items_getElem? inp cfgs i name c hn hc)
      exact ⟨o, hoi, hrun⟩

/-! ### stream positions -/

theorem foldl_add_init (l : List Nat) (a : Nat) : l.foldl (· + ·) a = a + l.foldl (· + ·) 0 := by
  induction l generalizing a with
  | nil => simp
  | cons x xs ih =>
    simp only [List.foldl_cons]
    rw [ih (a + x), ih (0 + x)]
    omega

/-- the next method starts where this one stopped -/
theorem offset_succ (ns : List Nat) (k : Nat) : offset ns (k + 1) = offset ns k + ns.getD k 0 := by
  unfold offset
  rw [List.take_add_one, List.foldl_append]
  cases h : ns[k]? with
  | none => simp [List.getD, h]
  | some x => simp [List.getD, h]

theorem offset_mono (ns : List Nat) (k : Nat) : offset ns k ≤ offset ns (k + 1) := by
  rw [offset_succ]; omega

/-- a method's permutations lie in the part of the stream that ends where the method stops -/
theorem slice_take (s : Stream) (ns : List Nat) (k n : Nat) (h : offset ns (k + 1) ≤ n) :
    slice (s.take n) ns k = slice s ns k := by
  unfold slice
  rw [offset_succ] at h
  rw [List.drop_take, List.take_take]
  congr 1
  omega

theorem streamRecs_getD (inp : CliInput) (ns : List Nat) (s : Stream) (i : Nat) (hi : i < ns.length) :
    (streamRecs inp ns s).getD i default = { inp.recs.getD i default with shuffles := slice s ns i } := by
  simp [streamRecs, List.getD, hi]

/-! ### the run on a stream reads the command line as the plain run does -/

theorem setup_withStream (inp : CliInput) (s : Stream) : setup (withStream inp s) = setup inp := rfl

theorem runMethod_withStream (inp : CliInput) (s : Stream) (env : Env) (several : Bool) (name : String)
    (cfg : C18.Cfg) (rec : MethodRec) :
    Cli.runMethod (withStream inp s) env several name cfg rec = Cli.runMethod inp env several name cfg rec := rfl

theorem needs_of_setup (inp : CliInput) (env : Env) (cfgs : List C18.Cfg) (h : setup inp = .ok (env, cfgs)) :
    needs inp = cfgs.map (need inp) := by
  unfold needs; rw [h]

/-- the tables of a completed run carry the names of `--methods`, in order -/
theorem filterMap_methods_sublist : ∀ (os : List (Option CliTable)) (ms : List String),
    os.length = ms.length → (∀ (i : Nat) (t : CliTable), os[i]? = some (some t) → ms[i]? = some t.method) →
    ((os.filterMap id).map (·.method)).Sublist ms
  | [], ms, _, _ => by simp
  | o :: os, [], h, _ => by simp at h
  | o :: os, m :: ms, h, hall => by
    have ih := filterMap_methods_sublist os ms (by simpa using h)
      (fun i t hi => by simpa using hall (i + 1) t (by simpa using hi))
    cases o with
    | none => simpa using ih.cons m
    | some t =>
      have h0 : m = t.method := by simpa using hall 0 t (by simp)
      subst h0
      simpa using ih.cons_cons t.method

end PgFdr.C07
