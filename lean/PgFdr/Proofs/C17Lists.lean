import PgFdr.Proofs.C17
import PgFdr.Proofs.C05
import PgFdr.Model.C17Lists
import Mathlib.Data.List.Flatten
import Mathlib.Data.List.Count

/-! Helper lemmas for the second part of C17: the PEP lists the callers build
    (`collectPeps`, `filePeps`, `quantPeps`, `writerPeps`). -/
namespace PgFdr.C17

/-! ### the collection loop is a `filterMap` -/

theorem pepOfFiltered_eq_ite (groups : List (List String)) (u d : Bool) (s : PepVal) (prots : List String) :
    pepOfFiltered groups u d s prots =
      if (pepOfFiltered groups u d s prots).isSome then some s else none := by
  unfold pepOfFiltered
  split <;> simp

theorem pepOf_eq_ite (groups : List (List String)) (rz : Option C05.Razor) (u : Bool) (x : Row) :
    pepOf groups rz u x = if contributes groups rz u x then some x.score else none := by
  unfold contributes pepOf
  cases C05.filterProteins rz x.proteins with
  | error e => simp
  | ok prots =>
    simp only
    exact pepOfFiltered_eq_ite groups u true x.score prots

theorem stepPeps_ok (groups : List (List String)) (rz : Option C05.Razor) (s u : Bool) (acc acc' : List PepVal)
    (x : Row) (h : stepPeps groups rz s u acc x = .ok acc') :
    acc' = acc ++ (pepOf groups rz u x).toList := by
  unfold stepPeps at h
  unfold pepOf
  cases hf : C05.filterProteins rz x.proteins with
  | error e => rw [hf] at h; simp at h
  | ok prots =>
    rw [hf] at h
    simp only at h ⊢
    split at h
    · simp at h
    · cases hp : pepOfFiltered groups u true x.score prots with
      | none => rw [hp] at h; simp at h; simp [h]
      | some v => rw [hp] at h; simp at h; simp [h]

theorem loopPeps_ok (groups : List (List String)) (rz : Option C05.Razor) (s u : Bool) :
    ∀ (l : List Row) (acc r : List PepVal), loopPeps groups rz s u l acc = .ok r →
      r = acc ++ l.filterMap (pepOf groups rz u) := by
  intro l
  induction l with
  | nil => intro acc r h; simp [loopPeps] at h; simp [h]
  | cons x xs ih =>
    intro acc r h
    simp only [loopPeps] at h
    cases hs : stepPeps groups rz s u acc x with
    | error e => rw [hs] at h; simp at h
    | ok acc' =>
      rw [hs] at h
      simp only at h
      have h1 := stepPeps_ok groups rz s u acc acc' x hs
      have h2 := ih acc' r h
      rw [h2, h1, List.filterMap_cons]
      cases pepOf groups rz u x <;> simp

/-- a row at which the loop does not raise -/
def rowOk (groups : List (List String)) (rz : Option C05.Razor) (s : Bool) (x : Row) : Prop :=
  ∃ prots, C05.filterProteins rz x.proteins = .ok prots ∧
    (C05.isMissing (C05.groupIdxs groups prots) = true → s = true)

theorem stepPeps_of_rowOk (groups : List (List String)) (rz : Option C05.Razor) (s u : Bool) (acc : List PepVal)
    (x : Row) (h : rowOk groups rz s x) : ∃ acc', stepPeps groups rz s u acc x = .ok acc' := by
  obtain ⟨prots, hf, hm⟩ := h
  unfold stepPeps
  rw [hf]
  simp only
  split
  · rename_i hc
    simp only [Bool.and_eq_true, Bool.not_eq_true'] at hc
    have := hm hc.1
    rw [this] at hc
    simp at hc
  · cases pepOfFiltered groups u true x.score prots <;> simp

theorem loopPeps_of_rowOk (groups : List (List String)) (rz : Option C05.Razor) (s u : Bool) :
    ∀ (l : List Row) (acc : List PepVal), (∀ x ∈ l, rowOk groups rz s x) →
      loopPeps groups rz s u l acc = .ok (acc ++ l.filterMap (pepOf groups rz u)) := by
  intro l
  induction l with
  | nil => intro acc _; simp [loopPeps]
  | cons x xs ih =>
    intro acc h
    obtain ⟨acc', hs⟩ := stepPeps_of_rowOk groups rz s u acc x (h x (by simp))
    simp only [loopPeps, hs]
    rw [ih acc' (fun y hy => h y (by simp [hy]))]
    have h1 := stepPeps_ok groups rz s u acc acc' x hs
    rw [h1, List.filterMap_cons]
    cases pepOf groups rz u x <;> simp

theorem rowOk_none_true (groups : List (List String)) (x : Row) : rowOk groups none true x :=
  ⟨x.proteins, rfl, fun _ => rfl⟩

/-! ### with shared peptides only membership in SOME group matters -/

theorem isMissing_groupIdxs (groups : List (List String)) (prots : List String) :
    C05.isMissing (C05.groupIdxs groups prots) = true ↔ ∀ p ∈ prots, ∀ g ∈ groups, p ∉ g := by
  rw [C05.isMissing_iff]
  unfold C05.groupIdxs
  constructor
  · intro h p hp
    exact (C05.idxOf_none_iff groups p).mp (h _ (List.mem_map_of_mem hp))
  · intro h y hy
    obtain ⟨p, hp, rfl⟩ := List.mem_map.mp hy
    exact (C05.idxOf_none_iff groups p).mpr (h p hp)

/-- "some listed protein is a member of some group" -/
def known (groups : List (List String)) (prots : List String) : Bool :=
  prots.any (fun p => groups.any (fun g => g.contains p))

theorem known_iff (groups : List (List String)) (prots : List String) :
    known groups prots = true ↔ ∃ p ∈ prots, ∃ g ∈ groups, p ∈ g := by
  simp [known, List.any_eq_true]

theorem reaches_true_eq (groups : List (List String)) (prots : List String) :
    reaches groups true prots = known groups prots := by
  have h1 := isMissing_groupIdxs groups prots
  have h2 := known_iff groups prots
  unfold reaches
  simp only [Bool.true_or, Bool.and_true]
  cases hm : C05.isMissing (C05.groupIdxs groups prots) <;> cases hk : known groups prots <;> simp
  · -- not missing, not known
    have : ¬ ∃ p ∈ prots, ∃ g ∈ groups, p ∈ g := by rw [← h2, hk]; simp
    have hall : ∀ p ∈ prots, ∀ g ∈ groups, p ∉ g := by
      intro p hp g hg hpg; exact this ⟨p, hp, g, hg, hpg⟩
    have := h1.mpr hall
    rw [hm] at this; simp at this
  · -- missing, known
    obtain ⟨p, hp, g, hg, hpg⟩ := h2.mp hk
    exact (h1.mp hm) p hp g hg hpg

theorem reaches_false_imp_true (groups : List (List String)) (prots : List String)
    (h : reaches groups false prots = true) : reaches groups true prots = true := by
  unfold reaches at *
  simp only [Bool.and_eq_true, Bool.not_eq_true', Bool.false_or, Bool.true_or, and_true] at *
  exact h.1

/-! ### files -/

theorem finites_flatten (ls : List (List PepVal)) : finites ls.flatten = (ls.map finites).flatten := by
  induction ls with
  | nil => rfl
  | cons a r ih => simp [finites_append, ih]

theorem finites_writerPeps (l : List PepVal) : finites (writerPeps l) = finites l := by
  induction l with
  | nil => rfl
  | cons x xs ih =>
    cases x <;> simp [writerPeps, PepVal.isNan, finites] at * <;> exact ih

theorem writerPeps_append (l l' : List PepVal) : writerPeps (l ++ l') = writerPeps l ++ writerPeps l' := by
  simp [writerPeps]

theorem writerPeps_flatten (ls : List (List PepVal)) : writerPeps ls.flatten = (ls.map writerPeps).flatten := by
  induction ls with
  | nil => rfl
  | cons a r ih => simp [writerPeps_append, ih]

theorem writerPeps_perm {l l' : List PepVal} (h : l.Perm l') : (writerPeps l).Perm (writerPeps l') :=
  h.filter _

theorem filePeps_append (groups : List (List String)) (u : Bool) (a b : List Row) :
    filePeps groups u (a ++ b) = filePeps groups u a ++ filePeps groups u b := by
  simp [filePeps]

theorem quantPeps_eq_filePeps_flatten (groups : List (List String)) (u : Bool) (files : List (List Row)) :
    quantPeps groups u files = filePeps groups u files.flatten := by
  induction files with
  | nil => rfl
  | cons a r ih =>
    unfold quantPeps at *
    simp [filePeps_append, ih]

theorem pepOfFiltered_dropNan (groups : List (List String)) (u : Bool) (s : PepVal) (prots : List String) :
    (pepOfFiltered groups u false s prots).filter (fun v => !v.isNan) = pepOfFiltered groups u true s prots := by
  unfold pepOfFiltered
  cases hc : (reaches groups u prots && !isDecoy prots) <;> cases s <;> simp [PepVal.isNan, Option.filter]

/-- dropping the NaN entries of a file's list leaves what the peptide-level collection (no razor) would collect -/
theorem writerPeps_filePeps (groups : List (List String)) (u : Bool) (rows : List Row) :
    writerPeps (filePeps groups u rows) = rows.filterMap (pepOf groups none u) := by
  unfold writerPeps filePeps
  rw [List.filter_filterMap]
  apply List.filterMap_congr
  intro x _
  exact pepOfFiltered_dropNan groups u x.score x.proteins

end PgFdr.C17
