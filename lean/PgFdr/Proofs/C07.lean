import PgFdr.Model.Pipeline
import PgFdr.Props.C02

/-! Helper lemmas for C07 on the concrete pipeline model: a pass started with an empty seen-set ends
with an empty seen-set (`C02.seen_reset`). -/
namespace PgFdr.Pipeline

theorem runPassFrom_seen (cfg : Config) (inp : Input) (groups : List (List String))
    (extra : List (List String × List Evidence)) (rs : Bool) (scores : List Rat) (π₁ π₂ : List Nat)
    (p : PassOut) (s : List String)
    (h : runPassFrom cfg inp [] groups extra rs scores π₁ π₂ = .ok (p, s)) : s = [] := by
  unfold runPassFrom at h
  repeat' (first | split at h | dsimp only at h)
  all_goals try contradiction
  all_goals
    simp only [Except.ok.injEq, Prod.mk.injEq] at h
    rw [← h.2]
    exact (C02.seen_reset cfg.mode []).1 _ _ _

/-- a whole call started on fresh strategy objects leaves the seen-set empty -/
theorem runFrom_seen (cfg : Config) (inp : Input) (r : Result) (s : List String)
    (h : runFrom cfg inp [] = .ok (r, s)) : s = [] := by
  unfold runFrom at h
  dsimp only at h
  split at h
  · contradiction
  · rename_i p1 seen1 h1
    have hs1 : seen1 = [] := runPassFrom_seen _ _ _ _ _ _ _ _ _ _ h1
    subst hs1
    split at h
    · simp only [Except.ok.injEq, Prod.mk.injEq] at h; exact h.2.symm
    · repeat' (first | split at h | dsimp only at h)
      all_goals try contradiction
      rename_i p2 seen2 h2
      have hs2 : seen2 = [] := runPassFrom_seen _ _ _ _ _ _ _ _ _ _ h2
      simp only [Except.ok.injEq, Prod.mk.injEq] at h
      rw [← h.2]; exact hs2

end PgFdr.Pipeline
