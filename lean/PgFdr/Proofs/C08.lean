import PgFdr.Model.C08

/-! Helper lemmas for C08.

Part 1 (lifted from the design scratch §14.7): the sliding window of `full_digest` over an abstract,
strictly increasing site list `Z` — layer 1 (`next_win`, `go_all`, `mem_win`, `lo_closed`, `mem_go`) and
layer 2 (ranks; `zfull_digest_set_eq : Emitted c Z a b ↔ ZValid c Z a b`).
Part 2: the bridge from residues to the site list (`sitesZ_sorted`, `siteCut_iff_site`, `inner_eq_innerSites`)
and from index pairs to strings.
Part 3: non-specific digestion.  Part 4: semi-specific digestion. -/
namespace PgFdr.C08
open PgFdr.Generated

def allStarts (E : List Nat) : List Nat := 0 :: E.map (· + 1)

def lo (c : Cfg) : Nat → Nat
  | 0 => 0
  | k + 1 =>
    let m := b2n (decide (lo c k = 0) && c.met)
    if k + 2 - lo c k > c.mc + 1 + m then lo c k + 1 + m else lo c k

def win (c : Cfg) (E : List Nat) (k : Nat) : List Nat := ((allStarts E).take (k + 1)).drop (lo c k)

theorem b2n_le (b : Bool) : b2n b ≤ 1 := by cases b <;> simp [b2n]

theorem lo_le (c : Cfg) : ∀ k, lo c k ≤ k := by
  intro k
  induction k with
  | zero => simp [lo]
  | succ k ih =>
    simp only [lo]
    have := b2n_le (decide (lo c k = 0) && c.met)
    split <;> omega

theorem allStarts_length (E : List Nat) : (allStarts E).length = E.length + 1 := by simp [allStarts]

theorem allStarts_pos (E : List Nat) (j : Nat) (hj : 0 < j) (v : Nat) (h : (allStarts E)[j]? = some v) :
    0 < v := by
  cases j with
  | zero => omega
  | succ j =>
    simp only [allStarts, List.getElem?_cons_succ, List.getElem?_map] at h
    cases hE : E[j]? with
    | none => simp [hE] at h
    | some e => simp [hE] at h; omega

theorem next_win (c : Cfg) (E : List Nat) (k : Nat) (hk : k < E.length) (i : Nat) (hi : E[k]? = some i) :
    next c (win c E k) i = win c E (k + 1) := by
  have hlo := lo_le c k
  have hlen := allStarts_length E
  have hA : (allStarts E)[k + 1]? = some (i + 1) := by simp [allStarts, hi]
  have hs1 : win c E k ++ [i + 1] = ((allStarts E).take (k + 2)).drop (lo c k) := by
    unfold win
    have : (allStarts E).take (k + 2) = (allStarts E).take (k + 1) ++ [i + 1] := by
      rw [List.take_add_one, hA]; rfl
    rw [this, List.drop_append_of_le_length (by simp [List.length_take]; omega)]
  have hhead : (((allStarts E).take (k + 2)).drop (lo c k)).head? = (allStarts E)[lo c k]? := by
    rw [List.head?_drop, List.getElem?_take]
    simp; omega
  have hhead0 : ((((allStarts E).take (k + 2)).drop (lo c k)).head? == some 0) = decide (lo c k = 0) := by
    rw [hhead]
    by_cases h0 : lo c k = 0
    · simp [h0, allStarts]
    · have hpos : 0 < lo c k := by omega
      have hlt : lo c k < (allStarts E).length := by omega
      have hv := allStarts_pos E (lo c k) hpos _ (List.getElem?_eq_getElem hlt)
      rw [List.getElem?_eq_getElem hlt]
      simp only [h0, decide_false]
      have : (allStarts E)[lo c k] ≠ 0 := by omega
      simp [this]
  have hlen1 : (((allStarts E).take (k + 2)).drop (lo c k)).length = k + 2 - lo c k := by
    simp [List.length_take]; omega
  unfold next
  simp only [hs1, hhead0, hlen1]
  unfold win
  simp only [lo]
  split
  · rw [List.drop_drop]
    congr 1
    omega
  · rfl


theorem flatMap_congr' {α β : Type} (l : List α) (f g : α → List β) (h : ∀ x ∈ l, f x = g x) :
    l.flatMap f = l.flatMap g := by
  induction l with
  | nil => rfl
  | cons a l ih =>
    simp only [List.flatMap_cons]
    rw [h a (by simp), ih (fun x hx => h x (by simp [hx]))]

/-- the loop started with the right window emits, for every remaining site, from that site's window -/
theorem go_win (c : Cfg) (E : List Nat) : ∀ (m k : Nat), k + m = E.length →
    go c (E.drop k) (win c E k) =
      ((List.range m).flatMap fun d => emit c (win c E (k + d)) ((E.drop (k + d)).headD 0)) := by
  intro m
  induction m with
  | zero =>
    intro k hk
    have : E.drop k = [] := List.drop_eq_nil_of_le (by omega)
    simp [this, go]
  | succ m ih =>
    intro k hk
    have hkl : k < E.length := by omega
    have hdrop : E.drop k = E[k] :: E.drop (k + 1) := (List.drop_eq_getElem_cons hkl)
    rw [hdrop, go, next_win c E k hkl E[k] (List.getElem?_eq_getElem hkl), ih (k + 1) (by omega)]
    rw [List.range_succ_eq_map, List.flatMap_cons, List.flatMap_map]
    simp only [Nat.add_zero, hdrop, List.headD_cons]
    congr 1
    apply flatMap_congr'
    intro d _
    have : k + 1 + d = k + (d + 1) := by omega
    simp [this, Function.comp]

/-- `full_digest`'s loop from the beginning -/
theorem go_all (c : Cfg) (E : List Nat) :
    go c E [0] = ((List.range E.length).flatMap fun k => emit c (win c E k) (E.getD k 0)) := by
  have h0 : win c E 0 = [0] := by simp [win, lo, allStarts]
  have := go_win c E E.length 0 (by omega)
  rw [List.drop_zero, h0] at this
  rw [this]
  apply flatMap_congr'
  intro k hk
  simp only [Nat.zero_add]
  congr 1
  have hk' : k < E.length := by simpa using hk
  rw [List.drop_eq_getElem_cons hk']
  simp [List.getD, List.getElem?_eq_getElem hk']

/-- membership in a window: exactly the starts with index between `lo k` and `k` -/
theorem mem_win (c : Cfg) (E : List Nat) (k : Nat) (hk : k < E.length) (s : Nat) :
    s ∈ win c E k ↔ ∃ j, lo c k ≤ j ∧ j ≤ k ∧ (allStarts E)[j]? = some s := by
  unfold win
  constructor
  · intro h
    obtain ⟨i, hi, rfl⟩ := List.getElem_of_mem h
    have hi' : i < k + 1 - lo c k := by
      simpa [List.length_drop, List.length_take, allStarts_length, Nat.min_eq_left (show k + 1 ≤ E.length + 1 by omega)] using hi
    refine ⟨lo c k + i, by omega, by omega, ?_⟩
    rw [List.getElem_drop, List.getElem_take]
    exact List.getElem?_eq_getElem _
  · rintro ⟨j, h1, h2, h3⟩
    have hjlen : j < (allStarts E).length := (List.getElem?_eq_some_iff.mp h3).1
    have : s = (allStarts E)[j] := by
      rw [List.getElem?_eq_getElem hjlen] at h3; exact (Option.some.inj h3).symm
    subst this
    rw [List.mem_iff_getElem]
    refine ⟨j - lo c k, ?_, ?_⟩
    · simp [List.length_drop, List.length_take, allStarts_length]; omega
    · rw [List.getElem_drop, List.getElem_take]
      congr 1; omega

/-- closed form of the lower end of the window -/
theorem lo_closed (c : Cfg) : ∀ k, lo c k =
    if c.met then (if k ≤ c.mc + 1 then 0 else k - c.mc) else k - c.mc := by
  intro k
  induction k with
  | zero => cases c.met <;> simp [lo]
  | succ k ih =>
    simp only [lo]
    rw [ih]
    cases hm : c.met
    · simp only [Bool.false_eq_true, if_false, Bool.and_false, b2n]
      split <;> omega
    · simp only [if_true, Bool.and_true]
      by_cases h1 : k ≤ c.mc + 1
      · simp only [h1, if_true, decide_true, b2n]
        by_cases h2 : k + 1 ≤ c.mc + 1
        · simp only [h2, if_true]; split <;> omega
        · simp only [h2, if_false]; split <;> omega
      · simp only [h1, if_false]
        have hk : k - c.mc ≠ 0 := by omega
        simp only [hk, decide_false, b2n, Bool.false_eq_true, if_false]
        have h2 : ¬ (k + 1 ≤ c.mc + 1) := by omega
        simp only [h2, if_false]
        split <;> omega


/-- layer 1, final form: a pair `(start, site)` is emitted by the loop iff the site is the
    `k`-th site, the start is the `j`-th start with `lo k ≤ j ≤ k`, and the length is within
    the window -/
theorem mem_go (c : Cfg) (E : List Nat) (s i : Nat) :
    (s, i) ∈ go c E [0] ↔
      ∃ k j, E[k]? = some i ∧ lo c k ≤ j ∧ j ≤ k ∧ (allStarts E)[j]? = some s ∧
        (c.minL : Int) ≤ ((min i (c.n - 1) : Nat) : Int) - (s : Int) + 1 ∧
        ((min i (c.n - 1) : Nat) : Int) - (s : Int) + 1 ≤ (c.maxL : Int) := by
  rw [go_all]
  simp only [List.mem_flatMap, List.mem_range, emit, List.mem_filterMap]
  constructor
  · rintro ⟨k, hk, s', hs', hpair⟩
    split at hpair
    · rename_i hlen
      simp only [Option.some.injEq, Prod.mk.injEq] at hpair
      obtain ⟨rfl, rfl⟩ := hpair
      obtain ⟨j, h1, h2, h3⟩ := (mem_win c E k hk s').mp hs'
      simp only [Bool.and_eq_true, decide_eq_true_eq] at hlen
      refine ⟨k, j, ?_, h1, h2, h3, hlen.1, hlen.2⟩
      simp [List.getD, List.getElem?_eq_getElem hk]
    · simp at hpair
  · rintro ⟨k, j, hk, h1, h2, h3, hl1, hl2⟩
    have hkl : k < E.length := (List.getElem?_eq_some_iff.mp hk).1
    refine ⟨k, hkl, s, (mem_win c E k hkl s).mpr ⟨j, h1, h2, h3⟩, ?_⟩
    have hi : E.getD k 0 = i := by simp [List.getD, hk]
    rw [hi]
    simp [hl1, hl2]


/-! ## layer 2, part A: ranks -/

/-- number of sites strictly below `x` -/
def below (Z : List Nat) (x : Nat) : Nat := (Z.filter (fun z => decide (z < x))).length

theorem below_append (Z W : List Nat) (x : Nat) : below (Z ++ W) x = below Z x + below W x := by
  simp [below, List.filter_append]

/-- in a strictly increasing list, exactly `t` entries lie below the `t`-th entry -/
theorem below_getElem (Z : List Nat) (hs : Z.Pairwise (· < ·)) (t : Nat) (ht : t < Z.length) :
    below Z Z[t] = t := by
  have hsplit : Z = Z.take t ++ Z[t] :: Z.drop (t + 1) := by
    rw [← List.drop_eq_getElem_cons ht, List.take_append_drop]
  have h1 : below (Z.take t) Z[t] = t := by
    unfold below
    rw [List.filter_eq_self.mpr]
    · simp [List.length_take]; omega
    · intro z hz
      obtain ⟨i, hi, rfl⟩ := List.getElem_of_mem hz
      have hi' : i < t := by simp [List.length_take] at hi; omega
      simp only [List.getElem_take, decide_eq_true_eq]
      exact List.pairwise_iff_getElem.mp hs i t (by omega) ht hi'
  have h2 : below (Z[t] :: Z.drop (t + 1)) Z[t] = 0 := by
    unfold below
    rw [List.length_eq_zero_iff, List.filter_eq_nil_iff]
    intro z hz
    simp only [decide_eq_true_eq, Nat.not_lt]
    rcases List.mem_cons.mp hz with rfl | hz
    · exact Nat.le_refl _
    · obtain ⟨i, hi, rfl⟩ := List.getElem_of_mem hz
      rw [List.getElem_drop]
      have hi2 : t + 1 + i < Z.length := by simp [List.length_drop] at hi; omega
      exact Nat.le_of_lt (List.pairwise_iff_getElem.mp hs t (t + 1 + i) ht hi2 (by omega))
  calc below Z Z[t] = below (Z.take t ++ Z[t] :: Z.drop (t + 1)) Z[t] := by rw [← hsplit]
    _ = t := by rw [below_append, h1, h2]; omega

/-- … and `t + 1` entries lie below its successor -/
theorem below_getElem_succ (Z : List Nat) (hs : Z.Pairwise (· < ·)) (t : Nat) (ht : t < Z.length) :
    below Z (Z[t] + 1) = t + 1 := by
  have hsplit : Z = Z.take (t + 1) ++ Z.drop (t + 1) := (List.take_append_drop _ _).symm
  have h1 : below (Z.take (t + 1)) (Z[t] + 1) = t + 1 := by
    unfold below
    rw [List.filter_eq_self.mpr]
    · simp [List.length_take]; omega
    · intro z hz
      obtain ⟨i, hi, rfl⟩ := List.getElem_of_mem hz
      have hi' : i < t + 1 := by simp [List.length_take] at hi; omega
      simp only [List.getElem_take, decide_eq_true_eq]
      rcases Nat.lt_or_ge i t with h | h
      · exact Nat.lt_succ_of_lt (List.pairwise_iff_getElem.mp hs i t (by omega) ht h)
      · have : i = t := by omega
        subst this; exact Nat.lt_succ_self _
  have h2 : below (Z.drop (t + 1)) (Z[t] + 1) = 0 := by
    unfold below
    rw [List.length_eq_zero_iff, List.filter_eq_nil_iff]
    intro z hz
    simp only [decide_eq_true_eq, Nat.not_lt]
    obtain ⟨i, hi, rfl⟩ := List.getElem_of_mem hz
    rw [List.getElem_drop]
    have hi2 : t + 1 + i < Z.length := by simp [List.length_drop] at hi; omega
    exact List.pairwise_iff_getElem.mp hs t (t + 1 + i) ht hi2 (by omega)
  calc below Z (Z[t] + 1) = below (Z.take (t + 1) ++ Z.drop (t + 1)) (Z[t] + 1) := by rw [← hsplit]
    _ = t + 1 := by rw [below_append, h1, h2]

theorem below_mono (Z : List Nat) (x y : Nat) (h : x ≤ y) : below Z x ≤ below Z y := by
  unfold below
  induction Z with
  | nil => simp
  | cons z Z ih =>
    simp only [List.filter_cons]
    by_cases h1 : z < x
    · have h2 : z < y := by omega
      simp [h1, h2]; exact ih
    · by_cases h2 : z < y
      · simp [h1, h2]; omega
      · simp [h1, h2]; exact ih

theorem below_le_length (Z : List Nat) (x : Nat) : below Z x ≤ Z.length := List.length_filter_le _ _

/-- number of sites in the half-open interval `[a, b)` as a difference of ranks -/
theorem between_eq (Z : List Nat) (a b : Nat) (hab : a ≤ b) :
    (Z.filter (fun z => decide (a ≤ z) && decide (z < b))).length = below Z b - below Z a := by
  unfold below
  induction Z with
  | nil => simp
  | cons z Z ih =>
    have hm := below_mono Z a b hab
    unfold below at hm
    simp only [List.filter_cons]
    by_cases h1 : z < a
    · have h2 : z < b := by omega
      have h3 : ¬ a ≤ z := by omega
      simp [h1, h2, h3, ih]
    · have h3 : a ≤ z := by omega
      by_cases h2 : z < b
      · simp [h1, h2, h3, ih]; omega
      · simp [h1, h2, h3, ih]



/-! ## layer 2, part B: the declarative rule, and the case without an initiator-Met site -/

/-- cuts strictly inside `(a, b)`: sites `z` whose cut position `z + 1` lies there -/
def inner (Z : List Nat) (a b : Nat) : Nat :=
  (Z.filter (fun z => decide (a ≤ z) && decide (z < b - 1))).length

/-- `x` is the cut position of an enzymatic site and not the protein end -/
def SiteCut (Z : List Nat) (n x : Nat) : Prop := ∃ z ∈ Z, z + 1 = x ∧ x ≤ n - 1

def ZTerm (Z : List Nat) (n : Nat) (met : Bool) (x : Nat) : Prop :=
  x = 0 ∨ x = n ∨ SiteCut Z n x ∨ (met = true ∧ x = 1)

structure ZValid (c : Cfg) (Z : List Nat) (a b : Nat) : Prop where
  lt : a < b
  le : b ≤ c.n
  minL : c.minL ≤ b - a
  maxL : b - a ≤ c.maxL
  termA : ZTerm Z c.n c.met a
  termB : ZTerm Z c.n c.met b
  budget : inner Z a b ≤ c.mc

def Emitted (c : Cfg) (Z : List Nat) (a b : Nat) : Prop :=
  ∃ s i, (s, i) ∈ go c (sitesOf c Z) [0] ∧ a = s ∧ b = min (i + 1) c.n

theorem inner_eq (Z : List Nat) (a b : Nat) (hab : a < b) :
    inner Z a b = below Z (b - 1) - below Z a := by
  unfold inner
  exact between_eq Z a (b - 1) (by omega)

theorem below_zero (Z : List Nat) : below Z 0 = 0 := by
  simp [below]

/-- everything is below `n` -/
theorem below_all (Z : List Nat) (n : Nat) (h : ∀ z ∈ Z, z < n) : below Z n = Z.length := by
  unfold below
  rw [List.filter_eq_self.mpr]
  intro z hz; simpa using h z hz

/-- if `n - 1` is not a site, everything is even below `n - 1` -/
theorem below_pred (Z : List Nat) (n : Nat) (h : ∀ z ∈ Z, z < n) (hlast : n - 1 ∉ Z) :
    below Z (n - 1) = Z.length := by
  unfold below
  rw [List.filter_eq_self.mpr]
  intro z hz
  have h1 := h z hz
  have h2 : z ≠ n - 1 := fun e => hlast (e ▸ hz)
  simp only [decide_eq_true_eq]; omega


theorem allStarts_succ (E : List Nat) (j : Nat) : (allStarts E)[j + 1]? = (E[j]?).map (· + 1) := by
  simp [allStarts]

/-- rank of a start position: the `j`-th start has exactly `j` sites below it (no Met site) -/
theorem below_start_nomet (Z : List Nat) (hs : Z.Pairwise (· < ·)) (n : Nat) (hn : ∀ z ∈ Z, z < n)
    (j s : Nat) (hj : j ≤ Z.length) (h : (allStarts (Z ++ [n]))[j]? = some s) : below Z s = j := by
  cases j with
  | zero => simp [allStarts] at h; subst h; exact below_zero Z
  | succ j =>
    rw [allStarts_succ] at h
    have hj' : j < Z.length := by omega
    rw [List.getElem?_append_left hj', List.getElem?_eq_getElem hj'] at h
    simp at h; subst h
    exact below_getElem_succ Z hs j hj'

/-- soundness without a Met site: every emitted pair satisfies the declarative rule -/
theorem emitted_valid_nomet (c : Cfg) (Z : List Nat) (hmet : c.met = false) (hn1 : 1 ≤ c.n)
    (hmin : 1 ≤ c.minL) (hs : Z.Pairwise (· < ·)) (hn : ∀ z ∈ Z, z < c.n) (a b : Nat)
    (h : Emitted c Z a b) : ZValid c Z a b := by
  obtain ⟨s, i, hmem, rfl, rfl⟩ := h
  rw [mem_go] at hmem
  obtain ⟨k, j, hk, hlo, hjk, hj, hl1, hl2⟩ := hmem
  have hE : sitesOf c Z = Z ++ [c.n] := by simp [sitesOf, hmet]
  rw [hE] at hk hj
  have hkr : k ≤ Z.length := by
    have := (List.getElem?_eq_some_iff.mp hk).1
    simp at this; omega
  have hloc : lo c k = k - c.mc := by rw [lo_closed]; simp [hmet]
  -- i < n or i = n
  have hi : (k < Z.length ∧ Z[k]? = some i ∧ i < c.n) ∨ (k = Z.length ∧ i = c.n) := by
    rcases Nat.lt_or_ge k Z.length with hlt | hge
    · left
      rw [List.getElem?_append_left hlt] at hk
      have hmemi : i ∈ Z := List.mem_of_getElem? hk
      exact ⟨hlt, hk, hn i hmemi⟩
    · right
      have hkeq : k = Z.length := by omega
      subst hkeq
      simp at hk
      exact ⟨rfl, hk.symm⟩
  have hb : min (i + 1) c.n = min i (c.n - 1) + 1 := by
    simp only [Nat.min_def]; split <;> split <;> omega
  have hbs : below Z a = j := below_start_nomet Z hs c.n hn j a (by omega) hj
  -- lengths
  have hlt : a < min (i + 1) c.n := by omega
  -- rank of the end
  have hbe : below Z (min (i + 1) c.n - 1) ≤ k := by
    rcases hi with ⟨hlt', hiz, hin⟩ | ⟨hkeq, hin⟩
    · have hzk : Z[k] = i := by rw [List.getElem?_eq_getElem hlt'] at hiz; exact Option.some.inj hiz
      have : min (i + 1) c.n - 1 = Z[k] := by omega
      rw [this, below_getElem Z hs k hlt']
      exact Nat.le_refl _
    · rw [hkeq]; exact below_le_length Z _
  refine ⟨hlt, Nat.min_le_right _ _, by omega, by omega, ?_, ?_, ?_⟩
  · -- start is a terminus
    cases j with
    | zero => left; simp [allStarts] at hj; exact hj.symm
    | succ j =>
      right; right; left
      rw [allStarts_succ] at hj
      have hj' : j < Z.length := by omega
      rw [List.getElem?_append_left hj', List.getElem?_eq_getElem hj'] at hj
      simp at hj
      exact ⟨Z[j], List.getElem_mem hj', hj, by omega⟩
  · -- end is a terminus
    rcases hi with ⟨hlt', hiz, hin⟩ | ⟨hkeq, hin⟩
    · by_cases hend : i + 1 = c.n
      · right; left; omega
      · right; right; left
        exact ⟨i, List.mem_of_getElem? hiz, by omega, by omega⟩
    · right; left; omega
  · rw [inner_eq Z a _ hlt, hbs]; omega


/-- completeness without a Met site: every pair allowed by the declarative rule is emitted -/
theorem valid_emitted_nomet (c : Cfg) (Z : List Nat) (hmet : c.met = false) (hn1 : 1 ≤ c.n)
    (hs : Z.Pairwise (· < ·)) (hn : ∀ z ∈ Z, z < c.n) (a b : Nat)
    (h : ZValid c Z a b) : Emitted c Z a b := by
  obtain ⟨hlt, hle, hmin, hmax, hta, htb, hbud⟩ := h
  have hE : sitesOf c Z = Z ++ [c.n] := by simp [sitesOf, hmet]
  have hloc : ∀ k, lo c k = k - c.mc := by intro k; rw [lo_closed]; simp [hmet]
  -- the end: a site index `k`, its site `i`, with `min (i+1) n = b` and rank `k`
  have hend : ∃ k i, (Z ++ [c.n])[k]? = some i ∧ min (i + 1) c.n = b ∧ below Z (b - 1) = k ∧
      k ≤ Z.length := by
    rcases htb with h0 | hbn | ⟨z, hz, hzb, hbn1⟩ | ⟨hm, _⟩
    · omega
    · by_cases hlast : c.n - 1 ∈ Z
      · obtain ⟨t, ht, hzt⟩ := List.getElem_of_mem hlast
        refine ⟨t, c.n - 1, ?_, ?_, ?_, by omega⟩
        · rw [List.getElem?_append_left ht, List.getElem?_eq_getElem ht, hzt]
        · omega
        · rw [hbn, ← hzt, below_getElem Z hs t ht]
      · refine ⟨Z.length, c.n, by simp, by omega, ?_, Nat.le_refl _⟩
        rw [hbn]; exact below_pred Z c.n hn hlast
    · obtain ⟨t, ht, hzt⟩ := List.getElem_of_mem hz
      refine ⟨t, z, ?_, ?_, ?_, by omega⟩
      · rw [List.getElem?_append_left ht, List.getElem?_eq_getElem ht, hzt]
      · have := hn z hz; omega
      · have : b - 1 = Z[t] := by omega
        rw [this, below_getElem Z hs t ht]
    · rw [hmet] at hm; simp at hm
  -- the start: index `j = below Z a` with `A[j] = a`
  have hstart : (allStarts (Z ++ [c.n]))[below Z a]? = some a := by
    rcases hta with h0 | han | ⟨z, hz, hza, han1⟩ | ⟨hm, _⟩
    · subst h0; simp [below_zero, allStarts]
    · omega
    · obtain ⟨t, ht, hzt⟩ := List.getElem_of_mem hz
      have : below Z a = t + 1 := by rw [← hza, ← hzt]; exact below_getElem_succ Z hs t ht
      rw [this, allStarts_succ, List.getElem?_append_left ht, List.getElem?_eq_getElem ht]
      simp [hzt, hza]
    · rw [hmet] at hm; simp at hm
  obtain ⟨k, i, hk, hib, hrank, hkr⟩ := hend
  have hjk : below Z a ≤ k := by rw [← hrank]; exact below_mono Z a (b - 1) (by omega)
  have hin : inner Z a b = k - below Z a := by rw [inner_eq Z a b hlt, hrank]
  refine ⟨a, i, ?_, rfl, hib.symm⟩
  rw [mem_go, hE]
  refine ⟨k, below Z a, hk, by rw [hloc]; omega, hjk, hstart, ?_, ?_⟩
  · have : min i (c.n - 1) + 1 = b := by
      rw [← hib]; simp only [Nat.min_def]; split <;> split <;> omega
    omega
  · have : min i (c.n - 1) + 1 = b := by
      rw [← hib]; simp only [Nat.min_def]; split <;> split <;> omega
    omega

/-- C08 without an initiator-Met site: the loop emits exactly the pairs of the declarative rule -/
theorem full_digest_nomet (c : Cfg) (Z : List Nat) (hmet : c.met = false) (hn1 : 1 ≤ c.n)
    (hmin : 1 ≤ c.minL) (hs : Z.Pairwise (· < ·)) (hn : ∀ z ∈ Z, z < c.n) (a b : Nat) :
    Emitted c Z a b ↔ ZValid c Z a b :=
  ⟨emitted_valid_nomet c Z hmet hn1 hmin hs hn a b, valid_emitted_nomet c Z hmet hn1 hs hn a b⟩


/-! ## layer 2, part C: with an initiator-Met site -/

theorem sitesOf_met (c : Cfg) (Z : List Nat) (hmet : c.met = true) : sitesOf c Z = 0 :: (Z ++ [c.n]) := by
  simp [sitesOf, hmet]

theorem lo_met (c : Cfg) (hmet : c.met = true) (k : Nat) :
    lo c k = if k ≤ c.mc + 1 then 0 else k - c.mc := by
  rw [lo_closed]; simp [hmet]

theorem below_one_of_not_mem (Z : List Nat) (h : 0 ∉ Z) : below Z 1 = 0 := by
  unfold below
  rw [List.length_eq_zero_iff, List.filter_eq_nil_iff]
  intro z hz
  have : z ≠ 0 := fun e => h (e ▸ hz)
  simp only [decide_eq_true_eq]; omega

/-- soundness with a Met site -/
theorem emitted_valid_met (c : Cfg) (Z : List Nat) (hmet : c.met = true) (hn1 : 1 ≤ c.n)
    (hmin : 1 ≤ c.minL) (hs : Z.Pairwise (· < ·)) (hn : ∀ z ∈ Z, z < c.n) (a b : Nat)
    (h : Emitted c Z a b) : ZValid c Z a b := by
  obtain ⟨s, i, hmem, rfl, rfl⟩ := h
  rw [mem_go, sitesOf_met c Z hmet] at hmem
  obtain ⟨k, j, hk, hlo, hjk, hj, hl1, hl2⟩ := hmem
  rw [lo_met c hmet] at hlo
  have hb : min (i + 1) c.n = min i (c.n - 1) + 1 := by
    simp only [Nat.min_def]; split <;> split <;> omega
  have hlt : a < min (i + 1) c.n := by omega
  -- the end: k = 0 (Met site) or a site of Z or the protein end
  have hend : (k = 0 ∧ i = 0) ∨
      (∃ t, k = t + 1 ∧ t < Z.length ∧ Z[t]? = some i ∧ i < c.n) ∨ (k = Z.length + 1 ∧ i = c.n) := by
    cases k with
    | zero => left; simp at hk; exact ⟨rfl, hk.symm⟩
    | succ t =>
      right
      simp only [List.getElem?_cons_succ] at hk
      rcases Nat.lt_or_ge t Z.length with hlt' | hge
      · left
        rw [List.getElem?_append_left hlt'] at hk
        exact ⟨t, rfl, hlt', hk, hn i (List.mem_of_getElem? hk)⟩
      · right
        have hlen := (List.getElem?_eq_some_iff.mp hk).1
        simp at hlen
        have hteq : t = Z.length := by omega
        subst hteq
        simp at hk
        exact ⟨rfl, hk.symm⟩
  -- rank of the end
  have hbe : below Z (min (i + 1) c.n - 1) + 1 ≤ k ∨ (k = 0 ∧ min (i + 1) c.n = 1) := by
    rcases hend with ⟨h0, hi0⟩ | ⟨t, hkt, ht, hzt, hin⟩ | ⟨hkr, hin⟩
    · right; subst hi0; exact ⟨h0, by omega⟩
    · left
      have hzk : Z[t] = i := by rw [List.getElem?_eq_getElem ht] at hzt; exact Option.some.inj hzt
      have : min (i + 1) c.n - 1 = Z[t] := by omega
      rw [this, below_getElem Z hs t ht]; omega
    · left; rw [hkr]; have := below_le_length Z (min (i + 1) c.n - 1); omega
  -- the start: j = 0, j = 1, or after a site of Z
  have hstart : (j = 0 ∧ a = 0) ∨ (j = 1 ∧ a = 1) ∨
      (∃ t, j = t + 2 ∧ t < Z.length ∧ Z[t]? = some (a - 1) ∧ 1 ≤ a) := by
    cases j with
    | zero => left; simp [allStarts] at hj; exact ⟨rfl, hj.symm⟩
    | succ j =>
      right
      rw [allStarts_succ] at hj
      cases j with
      | zero => left; simp at hj; exact ⟨rfl, hj.symm⟩
      | succ t =>
        right
        simp only [List.getElem?_cons_succ] at hj
        have htk : t + 2 ≤ k := hjk
        have ht : t < Z.length := by
          rcases hend with ⟨h0, _⟩ | ⟨t', hkt, ht', _, _⟩ | ⟨hkr, _⟩ <;> omega
        rw [List.getElem?_append_left ht, List.getElem?_eq_getElem ht] at hj
        simp at hj
        exact ⟨t, rfl, ht, by rw [List.getElem?_eq_getElem ht]; congr 1; omega, by omega⟩
  have hbs : (j ≤ 1 ∧ True) ∨ (2 ≤ j ∧ below Z a = j - 1) := by
    rcases hstart with ⟨h0, _⟩ | ⟨h1, _⟩ | ⟨t, hjt, ht, hzt, ha1⟩
    · left; exact ⟨by omega, trivial⟩
    · left; exact ⟨by omega, trivial⟩
    · right
      have hzk : Z[t] = a - 1 := by rw [List.getElem?_eq_getElem ht] at hzt; exact Option.some.inj hzt
      have : a = Z[t] + 1 := by omega
      refine ⟨by omega, ?_⟩
      rw [this, below_getElem_succ Z hs t ht]; omega
  have hlenA : c.minL ≤ min (i + 1) c.n - a := by clear hstart hend hbs hbe hlo; omega
  have hlenB : min (i + 1) c.n - a ≤ c.maxL := by clear hstart hend hbs hbe hlo; omega
  refine ⟨hlt, Nat.min_le_right _ _, hlenA, hlenB, ?_, ?_, ?_⟩
  · clear hbs hbe hlo hl1 hl2 hb hend
    rcases hstart with ⟨_, h0⟩ | ⟨_, h1⟩ | ⟨t, _, ht, hzt, ha1⟩
    · left; exact h0
    · right; right; right; exact ⟨hmet, h1⟩
    · right; right; left
      exact ⟨a - 1, List.mem_of_getElem? hzt, by omega, by omega⟩
  · clear hstart hbs hbe hlo hl1 hl2 hb hlt
    rcases hend with ⟨_, hi0⟩ | ⟨t, _, ht, hzt, hin⟩ | ⟨_, hin⟩
    · right; right; right; subst hi0; exact ⟨hmet, by omega⟩
    · by_cases hendn : i + 1 = c.n
      · right; left; omega
      · right; right; left
        exact ⟨i, List.mem_of_getElem? hzt, by omega, by omega⟩
    · right; left; omega
  · rw [inner_eq Z a _ hlt]
    clear hstart hend hl1 hl2
    rcases hbe with hbe | ⟨hk0, hb1⟩
    · rcases hbs with ⟨hj1, _⟩ | ⟨hj2, hba⟩
      · by_cases hkm : k ≤ c.mc + 1
        · omega
        · simp only [hkm, if_false] at hlo; omega
      · by_cases hkm : k ≤ c.mc + 1
        · omega
        · simp only [hkm, if_false] at hlo; omega
    · rw [hb1]; simp [below_zero]


/-- completeness with a Met site -/
theorem valid_emitted_met (c : Cfg) (Z : List Nat) (hmet : c.met = true) (hn1 : 1 ≤ c.n)
    (hs : Z.Pairwise (· < ·)) (hn : ∀ z ∈ Z, z < c.n) (a b : Nat)
    (h : ZValid c Z a b) : Emitted c Z a b := by
  obtain ⟨hlt, hle, hmin, hmax, hta, htb, hbud⟩ := h
  by_cases hb1 : b = 1
  · -- the peptide "M": start 0, Met site 0
    have ha0 : a = 0 := by omega
    subst ha0; subst hb1
    refine ⟨0, 0, ?_, rfl, by omega⟩
    rw [mem_go, sitesOf_met c Z hmet]
    refine ⟨0, 0, by simp, by simp [lo], Nat.le_refl _, by simp [allStarts], ?_, ?_⟩
    · simp; omega
    · simp; omega
  · have hb2 : 2 ≤ b := by omega
    -- the end: site index `k ≥ 1` with rank `k - 1`
    have hend : ∃ k i, (0 :: (Z ++ [c.n]))[k]? = some i ∧ min (i + 1) c.n = b ∧
        below Z (b - 1) + 1 = k := by
      rcases htb with h0 | hbn | ⟨z, hz, hzb, hbn1⟩ | ⟨_, hbm⟩
      · omega
      · by_cases hlast : c.n - 1 ∈ Z
        · obtain ⟨t, ht, hzt⟩ := List.getElem_of_mem hlast
          refine ⟨t + 1, c.n - 1, ?_, by omega, ?_⟩
          · rw [List.getElem?_cons_succ, List.getElem?_append_left ht, List.getElem?_eq_getElem ht, hzt]
          · rw [hbn, ← hzt, below_getElem Z hs t ht]
        · refine ⟨Z.length + 1, c.n, by simp, by omega, ?_⟩
          rw [hbn, below_pred Z c.n hn hlast]
      · obtain ⟨t, ht, hzt⟩ := List.getElem_of_mem hz
        refine ⟨t + 1, z, ?_, ?_, ?_⟩
        · rw [List.getElem?_cons_succ, List.getElem?_append_left ht, List.getElem?_eq_getElem ht, hzt]
        · have := hn z hz; omega
        · have : b - 1 = Z[t] := by omega
          rw [this, below_getElem Z hs t ht]
      · omega
    obtain ⟨k, i, hk, hib, hrank⟩ := hend
    have hlen1 : min i (c.n - 1) + 1 = b := by
      rw [← hib]; simp only [Nat.min_def]; split <;> split <;> omega
    -- the start: index `j` with `A[j] = a` and `j = 0` or `j = below Z a + 1`
    have hstart : ∃ j, (allStarts (0 :: (Z ++ [c.n])))[j]? = some a ∧
        ((a = 0 ∧ j = 0) ∨ (1 ≤ a ∧ j = below Z a + 1)) := by
      have hsite : ∀ z ∈ Z, z + 1 = a → ∃ j, (allStarts (0 :: (Z ++ [c.n])))[j]? = some a ∧
          ((a = 0 ∧ j = 0) ∨ (1 ≤ a ∧ j = below Z a + 1)) := by
        intro z hz hza
        obtain ⟨t, ht, hzt⟩ := List.getElem_of_mem hz
        refine ⟨t + 2, ?_, Or.inr ⟨by omega, ?_⟩⟩
        · rw [allStarts_succ, List.getElem?_cons_succ, List.getElem?_append_left ht,
            List.getElem?_eq_getElem ht]
          simp [hzt, hza]
        · rw [← hza, ← hzt, below_getElem_succ Z hs t ht]
      rcases hta with h0 | han | ⟨z, hz, hza, _⟩ | ⟨_, ha1⟩
      · exact ⟨0, by simp [allStarts, h0], Or.inl ⟨h0, rfl⟩⟩
      · omega
      · exact hsite z hz hza
      · by_cases h0Z : 0 ∈ Z
        · exact hsite 0 h0Z (by omega)
        · refine ⟨1, by simp [allStarts, ha1], Or.inr ⟨by omega, ?_⟩⟩
          rw [ha1, below_one_of_not_mem Z h0Z]
    obtain ⟨j, hj, hjcase⟩ := hstart
    have hmono : below Z a ≤ below Z (b - 1) := below_mono Z a (b - 1) (by omega)
    have hin : inner Z a b = below Z (b - 1) - below Z a := inner_eq Z a b hlt
    refine ⟨a, i, ?_, rfl, hib.symm⟩
    rw [mem_go, sitesOf_met c Z hmet]
    refine ⟨k, j, hk, ?_, ?_, hj, by omega, by omega⟩
    · rw [lo_met c hmet]
      rcases hjcase with ⟨ha0, hj0⟩ | ⟨ha1, hj1⟩
      · subst hj0
        have hb0 : below Z a = 0 := by rw [ha0]; exact below_zero Z
        have : k ≤ c.mc + 1 := by omega
        simp [this]
      · by_cases hkm : k ≤ c.mc + 1
        · simp [hkm]
        · simp only [hkm, if_false]; omega
    · rcases hjcase with ⟨_, hj0⟩ | ⟨_, hj1⟩ <;> omega

/-- C08 with an initiator-Met site -/
theorem full_digest_met (c : Cfg) (Z : List Nat) (hmet : c.met = true) (hn1 : 1 ≤ c.n)
    (hmin : 1 ≤ c.minL) (hs : Z.Pairwise (· < ·)) (hn : ∀ z ∈ Z, z < c.n) (a b : Nat) :
    Emitted c Z a b ↔ ZValid c Z a b :=
  ⟨emitted_valid_met c Z hmet hn1 hmin hs hn a b, valid_emitted_met c Z hmet hn1 hs hn a b⟩

/-- C08, `full_digest` (repaired length formula): for every strictly increasing list of
    enzymatic sites below `n`, every length window with `minL ≥ 1`, every missed-cleavage budget
    and either Met setting, the loop emits exactly the index pairs of the declarative rule -/
theorem zfull_digest_set_eq (c : Cfg) (Z : List Nat) (hn1 : 1 ≤ c.n) (hmin : 1 ≤ c.minL)
    (hs : Z.Pairwise (· < ·)) (hn : ∀ z ∈ Z, z < c.n) (a b : Nat) :
    Emitted c Z a b ↔ ZValid c Z a b := by
  cases hm : c.met
  · exact full_digest_nomet c Z hm hn1 hmin hs hn a b
  · exact full_digest_met c Z hm hn1 hmin hs hn a b


/-! ## Part 2: from residues to the site list, from index pairs to strings -/

theorem range_pairwise_lt (n : Nat) : (List.range n).Pairwise (· < ·) := by
  induction n with
  | zero => simp
  | succ n ih =>
    rw [List.range_succ, List.pairwise_append]
    refine ⟨ih, by simp, ?_⟩
    intro a ha b hb
    simp at ha hb; omega

theorem sitesZ_sorted (r : EnzymeRule) (seq : List Char) : (sitesZ r seq).Pairwise (· < ·) :=
  (range_pairwise_lt _).filter _

theorem sitesZ_lt (r : EnzymeRule) (seq : List Char) : ∀ z ∈ sitesZ r seq, z < seq.length := by
  intro z hz
  simp only [sitesZ, List.mem_filter, List.mem_range] at hz
  exact hz.1

/-- the code's inlined site test at residue `x - 1` is the declarative rule at the cut position `x` -/
theorem enz_iff_rule (r : EnzymeRule) (seq : List Char) (x : Nat) (h1 : 1 ≤ x) (h2 : x ≤ seq.length - 1) :
    enz r seq (x - 1) = true ↔ RuleAt r seq x := by
  have hlook : min (seq.length - 1) (x - 1 + 1) = x := by omega
  simp only [enz, hlook, RuleAt, Bool.or_eq_true, Bool.and_eq_true, Bool.not_eq_true',
    List.isEmpty_eq_false_iff, List.contains_eq_mem, decide_eq_true_eq, decide_eq_false_iff_not]
  constructor
  · rintro (⟨⟨_, h⟩, h'⟩ | ⟨_, h⟩)
    · exact Or.inl ⟨h, h'⟩
    · exact Or.inr h
  · rintro (⟨h, h'⟩ | h)
    · exact Or.inl ⟨⟨List.ne_nil_of_mem h, h⟩, h'⟩
    · exact Or.inr ⟨List.ne_nil_of_mem h, h⟩

theorem siteCut_iff_site (r : EnzymeRule) (seq : List Char) (x : Nat) :
    SiteCut (sitesZ r seq) seq.length x ↔ Site r seq x := by
  constructor
  · rintro ⟨z, hz, hzx, hxn⟩
    simp only [sitesZ, List.mem_filter, List.mem_range] at hz
    have hz' : z = x - 1 := by omega
    subst hz'
    exact ⟨by omega, by omega, (enz_iff_rule r seq x (by omega) hxn).mp hz.2⟩
  · rintro ⟨h1, h2, hr⟩
    refine ⟨x - 1, ?_, by omega, by omega⟩
    simp only [sitesZ, List.mem_filter, List.mem_range]
    exact ⟨by omega, (enz_iff_rule r seq x h1 (by omega)).mpr hr⟩

theorem filter_range_lt (p : Nat → Bool) (m : Nat) : ∀ n, m ≤ n →
    (List.range n).filter (fun z => p z && decide (z < m)) = (List.range m).filter p := by
  intro n
  induction n with
  | zero => intro h; have : m = 0 := by omega
            subst this; simp
  | succ n ih =>
    intro h
    rw [List.range_succ, List.filter_append]
    rcases Nat.lt_or_ge n m with hlt | hge
    · have hm : m = n + 1 := by omega
      subst hm
      rw [List.range_succ, List.filter_append]
      congr 1
      · apply List.filter_congr
        intro z hz
        have : z < n + 1 := by simp at hz; omega
        simp [this]
      · simp [List.filter_cons]
    · rw [ih hge]
      have : ¬ n < m := by omega
      simp [this]

theorem filter_range_shift (p : Nat → Bool) (h0 : p 0 = false) (b : Nat) :
    ((List.range b).filter p).length = ((List.range (b - 1)).filter (fun z => p (z + 1))).length := by
  cases b with
  | zero => simp
  | succ b =>
    rw [List.range_succ_eq_map, List.filter_cons]
    simp only [h0, Bool.false_eq_true, if_false, List.filter_map, List.length_map, Nat.add_sub_cancel]
    rfl

/-- the rank difference counted on the site list is the number of enzymatic sites strictly inside -/
theorem inner_eq_innerSites (r : EnzymeRule) (seq : List Char) (a b : Nat) (hb : b ≤ seq.length) :
    inner (sitesZ r seq) a b = innerSites r seq a b := by
  unfold inner innerSites sitesZ
  rw [List.filter_filter]
  have h1 : (List.range seq.length).filter (fun z => (decide (a ≤ z) && decide (z < b - 1)) && enz r seq z) =
      (List.range seq.length).filter (fun z => (enz r seq z && decide (a ≤ z)) && decide (z < b - 1)) := by
    apply List.filter_congr
    intro z _
    cases enz r seq z <;> cases decide (a ≤ z) <;> cases decide (z < b - 1) <;> rfl
  rw [h1, filter_range_lt (fun z => enz r seq z && decide (a ≤ z)) (b - 1) seq.length (by omega)]
  rw [filter_range_shift (fun x => decide (a < x) && decide (Site r seq x)) (by simp [Site]) b]
  congr 1
  apply List.filter_congr
  intro z hz
  have hz' : z < b - 1 := by simpa using hz
  have hs : Site r seq (z + 1) ↔ enz r seq z = true := by
    have he := enz_iff_rule r seq (z + 1) (by omega) (by omega)
    rw [Nat.add_sub_cancel] at he
    rw [he]
    constructor
    · rintro ⟨_, _, h⟩; exact h
    · intro h; exact ⟨by omega, by omega, h⟩
  by_cases he : enz r seq z = true
  · have : Site r seq (z + 1) := hs.mpr he
    simp only [he, this, decide_true, Bool.true_and, Bool.and_true]
    by_cases ha : a ≤ z
    · have : a < z + 1 := by omega
      simp [ha, this]
    · have : ¬ a < z + 1 := by omega
      simp [ha, this]
  · have hn : ¬ Site r seq (z + 1) := fun h => he (hs.mp h)
    have he' : enz r seq z = false := by simpa using he
    simp [he', hn]

theorem slice_clamp {α : Type} (seq : List α) (s e : Nat) :
    slice seq s e = slice seq s (min e seq.length) := by
  unfold slice
  rw [List.take_eq_take_iff]
  simp only [List.length_drop]
  omega

theorem metFlag_iff (met : Bool) (seq : List Char) :
    (met && seq.head? == some 'M') = true ↔ met = true ∧ seq.head? = some 'M' := by
  simp

theorem zterm_iff_terminus (r : EnzymeRule) (seq : List Char) (met : Bool) (x : Nat) :
    ZTerm (sitesZ r seq) seq.length (met && seq.head? == some 'M') x ↔ Terminus r met seq x := by
  unfold ZTerm Terminus MetSite
  rw [siteCut_iff_site, metFlag_iff]
  simp only [and_assoc]

theorem zvalid_iff_valid (r : EnzymeRule) (seq : List Char) (minL maxL mc : Nat) (met : Bool) (a b : Nat) :
    ZValid (cfgOf seq minL maxL mc met) (sitesZ r seq) a b ↔ Valid .full r minL maxL mc met seq a b := by
  constructor
  · rintro ⟨h1, h2, h3, h4, h5, h6, h7⟩
    simp only [cfgOf] at h2 h3 h4 h5 h6 h7
    refine ⟨h1, h2, h3, h4, ⟨(zterm_iff_terminus r seq met a).mp h5, (zterm_iff_terminus r seq met b).mp h6⟩, ?_⟩
    intro _
    rw [← inner_eq_innerSites r seq a b h2]; exact h7
  · rintro ⟨h1, h2, h3, h4, ⟨h5, h6⟩, h7⟩
    refine ⟨h1, h2, h3, h4, (zterm_iff_terminus r seq met a).mpr h5, (zterm_iff_terminus r seq met b).mpr h6, ?_⟩
    simp only [cfgOf]
    rw [inner_eq_innerSites r seq a b h2]; exact h7 (by decide)

/-- the strings `full_digest` yields are the slices of the emitted index pairs -/
theorem mem_fullPeptides (r : EnzymeRule) (seq : List Char) (minL maxL mc : Nat) (met : Bool) (x : List Char) :
    x ∈ (fullPairs r seq minL maxL mc met).map (fun p => slice seq p.1 (p.2 + 1)) ↔
      ∃ a b, Emitted (cfgOf seq minL maxL mc met) (sitesZ r seq) a b ∧ x = slice seq a b := by
  simp only [List.mem_map, fullPairs, Emitted, Prod.exists]
  constructor
  · rintro ⟨s, i, hmem, rfl⟩
    refine ⟨s, min (i + 1) seq.length, ⟨s, i, hmem, rfl, rfl⟩, ?_⟩
    exact slice_clamp seq s (i + 1)
  · rintro ⟨a, b, ⟨s, i, hmem, rfl, rfl⟩, rfl⟩
    exact ⟨a, i, hmem, slice_clamp seq a (i + 1)⟩

/-! ## Part 3: non-specific digestion -/

theorem mem_nonSpecific {α : Type} (seq : List α) (minL maxL : Nat) (x : List α) :
    x ∈ nonSpecific seq minL maxL ↔
      ∃ i j, i + minL ≤ j ∧ j ≤ i + maxL ∧ j ≤ seq.length ∧ x = slice seq i j := by
  unfold nonSpecific
  simp only [List.mem_flatMap, List.mem_range, List.mem_filterMap, List.mem_filter, decide_eq_true_eq]
  constructor
  · rintro ⟨i, _, j, ⟨hj, hij⟩, hx⟩
    split at hx
    · rename_i hjn
      refine ⟨i, j, hij, by omega, hjn, ?_⟩
      simpa using hx.symm
    · simp at hx
  · rintro ⟨i, j, h1, h2, h3, rfl⟩
    refine ⟨i, by omega, j, ⟨by omega, h1⟩, by simp [h3]⟩

end PgFdr.C08
