import PgFdr.Model.C08
namespace PgFdr.C08
end PgFdr.C08
