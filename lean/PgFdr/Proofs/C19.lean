import PgFdr.Model.C19

/-!
Helper lemmas for the C19 theorems: `before` / `fromFirst` through an append, the key words are
pairwise not prefixes of each other, splitting and joining at a separator, the one-digit
existence level, the first-record-wins fold, the distinct-values loop.
-/
namespace PgFdr.C19

/-! ### `before` / `fromFirst` -/

theorem before_append (p : Tok → Bool) (a : List Tok) (b : Tok) (c : List Tok)
    (ha : ∀ t ∈ a, p t = false) (hb : p b = true) : before p (a ++ b :: c) = a := by
  induction a with
  | nil => simp [before, hb]
  | cons t a ih =>
    have ht : p t = false := ha t (by simp)
    simp only [List.cons_append, before, ht, Bool.false_eq_true, if_false]
    rw [ih (fun t' ht' => ha t' (by simp [ht']))]

theorem before_all_false (p : Tok → Bool) (a : List Tok) (ha : ∀ t ∈ a, p t = false) :
    before p a = a := by
  induction a with
  | nil => rfl
  | cons t a ih =>
    have ht : p t = false := ha t (by simp)
    simp only [before, ht, Bool.false_eq_true, if_false]
    rw [ih (fun t' ht' => ha t' (by simp [ht']))]

theorem fromFirst_append (p : Tok → Bool) (a : List Tok) (b : Tok) (c : List Tok)
    (ha : ∀ t ∈ a, p t = false) (hb : p b = true) : fromFirst p (a ++ b :: c) = some (b, c) := by
  induction a with
  | nil => simp [fromFirst, hb]
  | cons t a ih =>
    have ht : p t = false := ha t (by simp)
    simp only [List.cons_append, fromFirst, ht, Bool.false_eq_true, if_false]
    exact ih (fun t' ht' => ha t' (by simp [ht']))

theorem fromFirst_none (p : Tok → Bool) (a : List Tok) (ha : ∀ t ∈ a, p t = false) :
    fromFirst p a = none := by
  induction a with
  | nil => rfl
  | cons t a ih =>
    have ht : p t = false := ha t (by simp)
    simp only [fromFirst, ht, Bool.false_eq_true, if_false]
    exact ih (fun t' ht' => ha t' (by simp [ht']))

/-! ### the keys -/

theorem startsWith_append (pre t : List Char) : startsWith pre (pre ++ t) = true := by
  simp [startsWith]

theorem drop_key (k t : List Char) : (k ++ t).drop k.length = t := by simp

theorem os_ox (t : Tok) : startsWith OS (OX ++ t) = false := by simp [startsWith, OS, OX, List.isPrefixOf]
theorem os_gn (t : Tok) : startsWith OS (GN ++ t) = false := by simp [startsWith, OS, GN, List.isPrefixOf]
theorem os_pe (t : Tok) : startsWith OS (PE ++ t) = false := by simp [startsWith, OS, PE, List.isPrefixOf]
theorem os_sv (t : Tok) : startsWith OS (SV ++ t) = false := by simp [startsWith, OS, SV, List.isPrefixOf]
theorem gn_os (t : Tok) : startsWith GN (OS ++ t) = false := by simp [startsWith, GN, OS, List.isPrefixOf]
theorem gn_ox (t : Tok) : startsWith GN (OX ++ t) = false := by simp [startsWith, GN, OX, List.isPrefixOf]
theorem gn_pe (t : Tok) : startsWith GN (PE ++ t) = false := by simp [startsWith, GN, PE, List.isPrefixOf]
theorem gn_sv (t : Tok) : startsWith GN (SV ++ t) = false := by simp [startsWith, GN, SV, List.isPrefixOf]
theorem pe_os (t : Tok) : startsWith PE (OS ++ t) = false := by simp [startsWith, PE, OS, List.isPrefixOf]
theorem pe_ox (t : Tok) : startsWith PE (OX ++ t) = false := by simp [startsWith, PE, OX, List.isPrefixOf]
theorem pe_gn (t : Tok) : startsWith PE (GN ++ t) = false := by simp [startsWith, PE, GN, List.isPrefixOf]

/-! ### one-digit existence level -/

theorem parseInt_digit (k : Nat) (hk : k < 10) : parseInt [Nat.digitChar k] = some (k : Int) := by
  have : k = 0 ∨ k = 1 ∨ k = 2 ∨ k = 3 ∨ k = 4 ∨ k = 5 ∨ k = 6 ∨ k = 7 ∨ k = 8 ∨ k = 9 := by omega
  rcases this with h | h | h | h | h | h | h | h | h | h <;> subst h <;> decide

theorem digitChar_ne_space (k : Nat) (hk : k < 10) : Nat.digitChar k ≠ ' ' := by
  have : k = 0 ∨ k = 1 ∨ k = 2 ∨ k = 3 ∨ k = 4 ∨ k = 5 ∨ k = 6 ∨ k = 7 ∨ k = 8 ∨ k = 9 := by omega
  rcases this with h | h | h | h | h | h | h | h | h | h <;> subst h <;> decide

/-! ### splitting and joining at a separator -/

theorem splitOn_ne_nil (c : Char) (s : List Char) : splitOn c s ≠ [] := by
  induction s with
  | nil => simp [splitOn]
  | cons x r ih =>
    unfold splitOn
    split
    · simp
    · split
      · simp
      · simp

theorem splitOn_not_mem (c : Char) (s : List Char) (h : c ∉ s) : splitOn c s = [s] := by
  induction s with
  | nil => rfl
  | cons x r ih =>
    have hx : x ≠ c := fun e => h (by simp [e])
    have hr : c ∉ r := fun e => h (by simp [e])
    unfold splitOn
    simp only [hx, if_false, ih hr]

theorem splitOn_append_sep (c : Char) (a b : List Char) (h : c ∉ a) :
    splitOn c (a ++ c :: b) = a :: splitOn c b := by
  induction a with
  | nil => simp [splitOn]
  | cons x r ih =>
    have hx : x ≠ c := fun e => h (by simp [e])
    have hr : c ∉ r := fun e => h (by simp [e])
    rw [List.cons_append, splitOn]
    simp only [hx, if_false, ih hr]

theorem words_unwords (ts : List Tok) (hne : ts ≠ []) (h : ∀ t ∈ ts, ' ' ∉ t) :
    words (unwords ts) = ts := by
  induction ts with
  | nil => exact absurd rfl hne
  | cons t r ih =>
    cases r with
    | nil => exact splitOn_not_mem ' ' t (h t (by simp))
    | cons t' r' =>
      have : unwords (t :: t' :: r') = t ++ ' ' :: unwords (t' :: r') := rfl
      unfold words at ih ⊢
      rw [this, splitOn_append_sep ' ' t _ (h t (by simp)),
        ih (by simp) (fun x hx => h x (List.mem_cons_of_mem _ hx))]

/-! ### well-formed fields and the word-level round trip -/

/-- no free word of the header can be mistaken for a key word, and the identifier parts have no bar -/
structure Fields.WF (f : Fields) : Prop where
  orgNonempty : f.org ≠ []
  dbBar : '|' ∉ f.db
  accBar : '|' ∉ f.acc
  entryBar : '|' ∉ f.entry
  descOS : ∀ t ∈ f.desc, startsWith OS t = false
  descGN : ∀ t ∈ f.desc, startsWith GN t = false
  descPE : ∀ t ∈ f.desc, startsWith PE t = false
  orgOS : ∀ t ∈ f.org.tail, startsWith OS t = false
  orgGN : ∀ t ∈ f.org.tail, startsWith GN t = false
  orgPE : ∀ t ∈ f.org.tail, startsWith PE t = false
  peDigit : f.pe < 10

/-- no field contains a blank, so that the header's words are the composed words -/
structure Fields.NoBlank (f : Fields) : Prop where
  db : ' ' ∉ f.db
  acc : ' ' ∉ f.acc
  entry : ' ' ∉ f.entry
  desc : ∀ t ∈ f.desc, ' ' ∉ t
  org : ∀ t ∈ f.org, ' ' ∉ t
  ox : ' ' ∉ f.ox
  gene : ∀ g, f.gene = some g → ' ' ∉ g
  sv : ' ' ∉ f.sv

def geneToks (f : Fields) : List Tok := match f.gene with | some g => [GN ++ g] | none => []

def peTok (f : Fields) : Tok := PE ++ [Nat.digitChar f.pe]

theorem compose_eq (f : Fields) (o : Tok) (os : List Tok) (ho : f.org = o :: os) :
    compose f = f.ident :: (f.desc ++ (OS ++ o) :: (os ++ (OX ++ f.ox) :: (geneToks f ++ [peTok f, SV ++ f.sv]))) := by
  unfold compose geneToks peTok
  rw [ho]
  cases f.gene <;> simp

theorem compose_ne_nil (f : Fields) : compose f ≠ [] := by
  unfold compose; simp

theorem parseId_compose (f : Fields) : parseId (compose f) = f.ident := by
  unfold compose parseId; simp

theorem ident_split (f : Fields) (h : f.WF) : splitOn '|' f.ident = [f.db, f.acc, f.entry] := by
  unfold Fields.ident
  rw [splitOn_append_sep '|' _ _ h.dbBar, splitOn_append_sep '|' _ _ h.accBar,
    splitOn_not_mem '|' _ h.entryBar]

theorem ident_count (f : Fields) (h : f.WF) : f.ident.count '|' = 2 := by
  unfold Fields.ident
  simp [List.count_append, List.count_eq_zero_of_not_mem h.dbBar,
    List.count_eq_zero_of_not_mem h.accBar, List.count_eq_zero_of_not_mem h.entryBar]

theorem parseUniprotId_compose (f : Fields) (h : f.WF) : parseUniprotId (compose f) = f.acc := by
  unfold parseUniprotId
  simp only [parseId_compose, ident_split f h]
  have : '|' ∈ f.ident := by unfold Fields.ident; simp
  simp [this]

theorem parseEntryName_compose (f : Fields) (h : f.WF) : parseEntryName (compose f) = f.entry := by
  unfold parseEntryName
  simp only [parseId_compose, ident_split f h, ident_count f h]
  simp

theorem parseDescription_compose (f : Fields) (h : f.WF) : parseDescription (compose f) = f.desc := by
  obtain ⟨o, os, ho⟩ := List.exists_cons_of_ne_nil h.orgNonempty
  unfold parseDescription
  rw [compose_eq f o os ho, List.tail_cons]
  exact before_append _ _ _ _ h.descOS (startsWith_append OS o)

theorem geneToks_OS (f : Fields) : ∀ t ∈ geneToks f, startsWith OS t = false := by
  unfold geneToks; cases f.gene <;> simp [os_gn]

theorem geneToks_PE (f : Fields) : ∀ t ∈ geneToks f, startsWith PE t = false := by
  unfold geneToks; cases f.gene <;> simp [pe_gn]

theorem parseOrganism_compose (f : Fields) (h : f.WF) :
    parseOrganism (compose f) =
      some (f.org ++ [OX ++ f.ox] ++ (if f.gene.isSome then [] else [peTok f, SV ++ f.sv])) := by
  obtain ⟨o, os, ho⟩ := List.exists_cons_of_ne_nil h.orgNonempty
  have hos : ∀ t ∈ os, startsWith OS t = false := fun t ht => h.orgOS t (by rw [ho]; exact ht)
  have hgn : ∀ t ∈ os, startsWith GN t = false := fun t ht => h.orgGN t (by rw [ho]; exact ht)
  unfold parseOrganism
  rw [compose_eq f o os ho, List.tail_cons,
    fromFirst_append _ _ _ _ h.descOS (startsWith_append OS o)]
  simp only [drop_key]
  have hrest : before (startsWith OS) (os ++ (OX ++ f.ox) :: (geneToks f ++ [peTok f, SV ++ f.sv])) =
      os ++ (OX ++ f.ox) :: (geneToks f ++ [peTok f, SV ++ f.sv]) := by
    apply before_all_false
    intro t ht
    simp only [List.mem_append, List.mem_cons, List.not_mem_nil, or_false] at ht
    rcases ht with ht | ht | ht | ht | ht
    · exact hos t ht
    · subst ht; exact os_ox _
    · exact geneToks_OS f t ht
    · subst ht; exact os_pe _
    · subst ht; exact os_sv _
  rw [hrest, ho]
  cases hg : f.gene with
  | some g =>
    have : os ++ (OX ++ f.ox) :: (geneToks f ++ [peTok f, SV ++ f.sv]) =
        (os ++ [OX ++ f.ox]) ++ (GN ++ g) :: [peTok f, SV ++ f.sv] := by
      simp [geneToks, hg]
    rw [this, before_append _ _ _ _ _ (startsWith_append GN g)]
    · simp
    · intro t ht
      simp only [List.mem_append, List.mem_cons, List.not_mem_nil, or_false] at ht
      rcases ht with ht | ht
      · exact hgn t ht
      · subst ht; exact gn_ox _
  | none =>
    have : before (startsWith GN) (os ++ (OX ++ f.ox) :: (geneToks f ++ [peTok f, SV ++ f.sv])) =
        os ++ (OX ++ f.ox) :: (geneToks f ++ [peTok f, SV ++ f.sv]) := by
      apply before_all_false
      intro t ht
      simp only [geneToks, hg, List.nil_append, List.mem_append, List.mem_cons, List.not_mem_nil, or_false] at ht
      rcases ht with ht | ht | ht | ht
      · exact hgn t ht
      · subst ht; exact gn_ox _
      · subst ht; exact gn_pe _
      · subst ht; exact gn_sv _
    rw [this]
    simp [geneToks, hg]

theorem parseGene_compose (f : Fields) (h : f.WF) : parseGene (compose f) = f.gene := by
  obtain ⟨o, os, ho⟩ := List.exists_cons_of_ne_nil h.orgNonempty
  have hgn : ∀ t ∈ os, startsWith GN t = false := fun t ht => h.orgGN t (by rw [ho]; exact ht)
  unfold parseGene
  rw [compose_eq f o os ho, List.tail_cons]
  cases hg : f.gene with
  | some g =>
    have : f.desc ++ (OS ++ o) :: (os ++ (OX ++ f.ox) :: (geneToks f ++ [peTok f, SV ++ f.sv])) =
        (f.desc ++ [OS ++ o] ++ os ++ [OX ++ f.ox]) ++ (GN ++ g) :: [peTok f, SV ++ f.sv] := by
      simp [geneToks, hg]
    rw [this, fromFirst_append _ _ _ _ _ (startsWith_append GN g)]
    · simp
    · intro t ht
      simp only [List.mem_append, List.mem_cons, List.not_mem_nil, or_false] at ht
      rcases ht with ((ht | ht) | ht) | ht
      · exact h.descGN t ht
      · subst ht; exact gn_os _
      · exact hgn t ht
      · subst ht; exact gn_ox _
  | none =>
    rw [fromFirst_none]
    · rfl
    · intro t ht
      simp only [geneToks, hg, List.nil_append, List.mem_append, List.mem_cons, List.not_mem_nil, or_false] at ht
      rcases ht with ht | ht | ht | ht | ht | ht
      · exact h.descGN t ht
      · subst ht; exact gn_os _
      · exact hgn t ht
      · subst ht; exact gn_ox _
      · subst ht; exact gn_pe _
      · subst ht; exact gn_sv _

theorem parseExistence_compose (f : Fields) (h : f.WF) : parseExistence (compose f) = some (some (f.pe : Int)) := by
  obtain ⟨o, os, ho⟩ := List.exists_cons_of_ne_nil h.orgNonempty
  have hpe : ∀ t ∈ os, startsWith PE t = false := fun t ht => h.orgPE t (by rw [ho]; exact ht)
  unfold parseExistence
  rw [compose_eq f o os ho, List.tail_cons]
  have : f.desc ++ (OS ++ o) :: (os ++ (OX ++ f.ox) :: (geneToks f ++ [peTok f, SV ++ f.sv])) =
      (f.desc ++ [OS ++ o] ++ os ++ [OX ++ f.ox] ++ geneToks f) ++ peTok f :: [SV ++ f.sv] := by
    simp
  rw [this, fromFirst_append _ _ _ _ _ (by unfold peTok; exact startsWith_append PE _)]
  · simp only [Option.map_some, peTok, drop_key, parseInt_digit f.pe h.peDigit]
  · intro t ht
    simp only [List.mem_append, List.mem_cons, List.not_mem_nil, or_false] at ht
    rcases ht with (((ht | ht) | ht) | ht) | ht
    · exact h.descPE t ht
    · subst ht; exact pe_os _
    · exact hpe t ht
    · subst ht; exact pe_ox _
    · exact geneToks_PE f t ht

/-- the header's words are the composed words when no field contains a blank -/
theorem words_render (f : Fields) (hb : f.NoBlank) (hpe : f.pe < 10) : words (render f) = compose f := by
  unfold render
  apply words_unwords _ (compose_ne_nil f)
  intro t ht
  unfold compose at ht
  simp only [List.mem_append, List.mem_cons, List.not_mem_nil, or_false, Option.mem_toList] at ht
  rcases ht with (((((ht | ht) | ht) | ht) | ht) | ht) | ht
  · subst ht
    unfold Fields.ident
    simp only [List.mem_append, List.mem_cons, not_or]
    refine ⟨hb.db, by decide, hb.acc, by decide, hb.entry⟩
  · exact hb.desc t ht
  · rcases ht with ht | ht
    · cases ho : f.org with
      | nil => rw [ho] at ht; simp at ht
      | cons o os =>
        rw [ho] at ht
        simp only [List.head?_cons, Option.map_some, Option.some.injEq] at ht
        subst ht
        have := hb.org o (by rw [ho]; simp)
        simp [OS, this]
    · exact hb.org t (List.mem_of_mem_tail ht)
  · subst ht; simp [OX, hb.ox]
  · cases hg : f.gene with
    | none => rw [hg] at ht; simp at ht
    | some g =>
      rw [hg] at ht
      simp only [List.mem_cons, List.not_mem_nil, or_false] at ht
      subst ht; simp [GN, hb.gene g hg]
  · subst ht
    simp [PE, (digitChar_ne_space f.pe hpe).symm]
  · subst ht; simp [SV, hb.sv]

/-! ### the annotation of a composed header (what `read_fasta_proteins` builds) -/

/-- the annotation the property expects for a composed header read with identifier rule `rule` -/
def expected (rule : IdRule) (f : Fields) (n : Nat) : Annotation :=
  { id := match rule with | .full => some f.ident | .accession => some f.acc | .gene => f.gene,
    header := render f, uniprotId := f.acc, entryName := f.entry, geneName := f.gene, length := n,
    organism := some (unwords (f.org ++ [OX ++ f.ox] ++ (if f.gene.isSome then [] else [peTok f, SV ++ f.sv]))),
    description := unwords f.desc, existence := some (f.pe : Int) }

theorem annotate_render (rule : IdRule) (f : Fields) (h : f.WF) (hb : f.NoBlank) (n : Nat) :
    annotate rule (render f) n = .ok (expected rule f n) := by
  unfold annotate expected
  simp only [words_render f hb h.peDigit, parseExistence_compose f h, parseUniprotId_compose f h,
    parseEntryName_compose f h, parseGene_compose f h, parseOrganism_compose f h,
    parseDescription_compose f h, applyRule, parseId_compose]
  cases rule <;> simp

/-! ### first record wins -/

theorem get?_append (d e : Dict) (k : Option (List Char)) :
    Dict.get? (d ++ e) k = (Dict.get? d k).or (Dict.get? e k) := by
  unfold Dict.get?
  rw [List.find?_append]
  cases List.find? (fun e => decide (e.1 = k)) d <;> simp

theorem contains_eq (d : Dict) (k : Option (List Char)) : Dict.contains d k = (Dict.get? d k).isSome := by
  unfold Dict.contains Dict.get?
  induction d with
  | nil => rfl
  | cons x r ih =>
    by_cases hx : x.1 = k
    · simp [List.find?, hx]
    · simp [List.find?, hx, ih]

theorem get?_single (a : Annotation) (k : Option (List Char)) :
    Dict.get? [(a.id, a)] k = if a.id = k then some a else none := by
  unfold Dict.get?
  by_cases h : a.id = k <;> simp [List.find?, h]

theorem foldl_insertNew_get (recs : List Annotation) (d : Dict) (k : Option (List Char)) :
    Dict.get? (recs.foldl insertNew d) k =
      (Dict.get? d k).or (recs.find? (fun a => decide (a.id = k))) := by
  induction recs generalizing d with
  | nil => simp
  | cons a r ih =>
    rw [List.foldl_cons, ih]
    unfold insertNew
    by_cases hc : Dict.contains d a.id = true
    · simp only [hc, if_true]
      by_cases hk : a.id = k
      · have : (Dict.get? d k).isSome = true := by rw [← contains_eq, ← hk]; exact hc
        obtain ⟨x, hx⟩ := Option.isSome_iff_exists.mp this
        simp [hx]
      · simp [List.find?, hk]
    · simp only [hc, Bool.false_eq_true, if_false]
      rw [get?_append, get?_single]
      by_cases hk : a.id = k
      · subst hk
        have : Dict.get? d a.id = none := by
          have := contains_eq d a.id
          cases hg : Dict.get? d a.id with
          | none => rfl
          | some x => rw [hg] at this; simp at this; exact absurd this hc
        simp [this, List.find?]
      · cases hg : Dict.get? d k <;> simp [hk, List.find?]

/-! ### each distinct value once, in order of first occurrence -/

theorem mem_distinctInto {α} [DecidableEq α] (acc l : List α) (x : α) :
    x ∈ distinctInto acc l ↔ x ∈ acc ∨ x ∈ l := by
  induction l generalizing acc with
  | nil => simp [distinctInto]
  | cons y r ih =>
    unfold distinctInto
    by_cases hy : y ∈ acc
    · simp only [hy, if_true, ih, List.mem_cons]
      constructor
      · rintro (h | h)
        · exact Or.inl h
        · exact Or.inr (Or.inr h)
      · rintro (h | h | h)
        · exact Or.inl h
        · subst h; exact Or.inl hy
        · exact Or.inr h
    · simp only [hy, if_false, ih, List.mem_append, List.mem_cons, List.not_mem_nil, or_false]
      constructor
      · rintro ((h | h) | h)
        · exact Or.inl h
        · exact Or.inr (Or.inl h)
        · exact Or.inr (Or.inr h)
      · rintro (h | h | h)
        · exact Or.inl (Or.inl h)
        · exact Or.inl (Or.inr h)
        · exact Or.inr h

theorem nodup_distinctInto {α} [DecidableEq α] (acc l : List α) (h : acc.Nodup) :
    (distinctInto acc l).Nodup := by
  induction l generalizing acc with
  | nil => simpa [distinctInto]
  | cons y r ih =>
    unfold distinctInto
    by_cases hy : y ∈ acc
    · simp only [hy, if_true]; exact ih acc h
    · simp only [hy, if_false]
      apply ih
      rw [List.nodup_append]
      refine ⟨h, by simp, ?_⟩
      intro a ha b hb
      simp only [List.mem_singleton] at hb
      subst hb
      intro e; subst e; exact hy ha

theorem distinctInto_eq {α} [DecidableEq α] (acc l : List α) :
    distinctInto acc l = acc ++ distinct (l.filter (fun x => decide (x ∉ acc))) := by
  match l with
  | [] => simp [distinctInto, distinct]
  | y :: r =>
    unfold distinctInto
    by_cases hy : y ∈ acc
    · simp only [hy, if_true]
      rw [distinctInto_eq acc r]
      simp [List.filter, hy]
    · simp only [hy, if_false]
      have hlen : (r.filter (fun x => decide (x ∉ acc))).length < (y :: r).length := by
        have := List.length_filter_le (fun x => decide (x ∉ acc)) r
        simp only [List.length_cons]; omega
      rw [distinctInto_eq (acc ++ [y]) r]
      have h2 : distinct ((y :: r).filter (fun x => decide (x ∉ acc))) =
          [y] ++ distinct ((r.filter (fun x => decide (x ∉ acc))).filter (fun x => decide (x ∉ [y]))) := by
        simp only [List.filter, hy, not_false_eq_true, decide_true]
        unfold distinct
        simp only [distinctInto, List.not_mem_nil, if_false, List.nil_append]
        exact distinctInto_eq [y] (r.filter (fun x => decide (x ∉ acc)))
      rw [h2, List.filter_filter]
      simp only [List.append_assoc]
      congr 3
      apply List.filter_congr
      intro x _
      simp [not_or, and_comm]
termination_by l.length
decreasing_by
  all_goals simp_wf
  all_goals first
    | omega
    | (have := List.length_filter_le (fun x => !decide (x ∈ acc)) r; omega)

/-- the defining equation of "each distinct value once, at its first occurrence" -/
theorem distinct_cons {α} [DecidableEq α] (x : α) (r : List α) :
    distinct (x :: r) = x :: distinct (r.filter (fun y => decide (y ≠ x))) := by
  unfold distinct
  simp only [distinctInto, List.not_mem_nil, if_false, List.nil_append]
  rw [distinctInto_eq [x] r]
  simp [distinct]

/-! ### the record loop: sequence length -/

/-- a FASTA record as written to a file: the header line content and the sequence lines -/
structure FastaRecord where
  header : List Char
  seqLines : List (List Char)

def FastaRecord.lines (r : FastaRecord) : List (List Char) := ('>' :: r.header) :: r.seqLines

/-- non-empty header, no line ends in white space, no sequence line starts with `>` -/
def FastaRecord.Clean (r : FastaRecord) : Prop :=
  r.header ≠ [] ∧ rstrip ('>' :: r.header) = '>' :: r.header ∧
    ∀ l ∈ r.seqLines, rstrip l = l ∧ l.head? ≠ some '>'

/-! ### Python's white space: what `Clean` says -/

/-- the 29 code points of Python's `str.isspace` -/
def pySpaceCodePoints : List Nat :=
  [0x09, 0x0A, 0x0B, 0x0C, 0x0D, 0x1C, 0x1D, 0x1E, 0x1F, 0x20, 0x85, 0xA0, 0x1680,
   0x2000, 0x2001, 0x2002, 0x2003, 0x2004, 0x2005, 0x2006, 0x2007, 0x2008, 0x2009, 0x200A,
   0x2028, 0x2029, 0x202F, 0x205F, 0x3000]

theorem isSpace_iff_mem (c : Char) : isSpace c = true ↔ c.toNat ∈ pySpaceCodePoints := by
  unfold isSpace pySpaceCodePoints
  simp only [Bool.or_eq_true, Bool.and_eq_true, decide_eq_true_eq, beq_iff_eq, List.mem_cons, List.not_mem_nil,
    or_false]
  omega

theorem rstrip_eq_self_iff (l : List Char) :
    rstrip l = l ↔ ∀ c, l.getLast? = some c → isSpace c = false := by
  unfold rstrip
  rcases List.eq_nil_or_concat l with rfl | ⟨l', c, rfl⟩
  · simp
  · simp only [List.concat_eq_append, List.reverse_append, List.reverse_cons, List.reverse_nil, List.nil_append, List.singleton_append,
      List.getLast?_append, List.getLast?_singleton, Option.some_or, Option.some.injEq, forall_eq']
    cases h : isSpace c
    · simp [List.dropWhile, h]
    · simp only [List.dropWhile, h, reduceCtorEq, iff_false]
      intro heq
      have := congrArg List.length heq
      have h2 := (List.dropWhile_suffix (l := l'.reverse) isSpace).length_le
      simp at this h2
      omega

/-- `Clean`, spelled out: the header is not empty, and neither the header nor a sequence line ENDS in a character of
    Python's white space (`isSpace`: the 29 code points of `str.isspace`, `isSpace_iff_mem`) -/
theorem FastaRecord.clean_iff (r : FastaRecord) :
    r.Clean ↔ r.header ≠ [] ∧ (∀ c, r.header.getLast? = some c → isSpace c = false) ∧
      ∀ l ∈ r.seqLines, (∀ c, l.getLast? = some c → isSpace c = false) ∧ l.head? ≠ some '>' := by
  unfold FastaRecord.Clean
  constructor
  · rintro ⟨h1, h2, h3⟩
    refine ⟨h1, ?_, fun l hl => ⟨(rstrip_eq_self_iff l).mp (h3 l hl).1, (h3 l hl).2⟩⟩
    intro c hc
    apply (rstrip_eq_self_iff _).mp h2 c
    rw [List.getLast?_cons, hc]; rfl
  · rintro ⟨h1, h2, h3⟩
    refine ⟨h1, ?_, fun l hl => ⟨(rstrip_eq_self_iff l).mpr (h3 l hl).1, (h3 l hl).2⟩⟩
    apply (rstrip_eq_self_iff _).mpr
    intro c hc
    rw [List.getLast?_cons] at hc
    cases hl : r.header.getLast? with
    | none => exact absurd (List.getLast?_eq_none_iff.mp hl) h1
    | some d => rw [hl] at hc; simp at hc; subst hc; exact h2 d hl

def FastaRecord.seqLength (r : FastaRecord) : Nat := (r.seqLines.map List.length).sum

/-- what the reader yields for one record: the target and, in concat mode, the `REV__` decoy -/
def FastaRecord.yielded (concat : Bool) (r : FastaRecord) : List (List Char × Nat) :=
  if concat then [(r.header, r.seqLength), (decoyPrefix ++ r.header, r.seqLength)] else [(r.header, r.seqLength)]

theorem stepLine_seq (concat : Bool) (st : RState) (l : List Char) (h1 : rstrip l = l)
    (h2 : l.head? ≠ some '>') (hj : st.joined = false) :
    stepLine concat st l = .ok ({ st with seq := st.seq ++ [l] }, []) := by
  unfold stepLine
  simp only [h1]
  split
  · rename_i rest; simp at h2
  · simp [hj]

theorem stepLine_header (concat : Bool) (st : RState) (h : List Char) (h1 : rstrip ('>' :: h) = '>' :: h)
    (hne : h ≠ []) :
    stepLine concat st ('>' :: h) = .ok ({ name := some h, seq := [], joined := false }, emit concat st) := by
  unfold stepLine
  simp only [h1]
  have : h.isEmpty = false := by cases h <;> simp_all
  simp [this]

theorem readLoop_seq (concat : Bool) (name : Option (List Char)) (seq ls : List (List Char))
    (rest : List (List Char)) (h : ∀ l ∈ ls, rstrip l = l ∧ l.head? ≠ some '>') :
    readLoop concat { name := name, seq := seq, joined := false } (ls ++ rest) =
      readLoop concat { name := name, seq := seq ++ ls, joined := false } rest := by
  induction ls generalizing seq with
  | nil => simp
  | cons l ls ih =>
    have hl := h l (by simp)
    rw [List.cons_append, readLoop, stepLine_seq concat _ l hl.1 hl.2 rfl]
    simp only
    rw [ih (seq ++ [l]) (fun x hx => h x (by simp [hx]))]
    simp only [List.append_assoc, List.singleton_append, List.nil_append]
    cases readLoop concat { name := name, seq := seq ++ l :: ls, joined := false } rest <;> rfl

theorem emit_record (concat : Bool) (r : FastaRecord) :
    emit concat { name := some r.header, seq := r.seqLines, joined := false } = r.yielded concat := by
  unfold emit FastaRecord.yielded FastaRecord.seqLength
  simp

theorem readLoop_records (concat : Bool) (st : RState) (recs : List FastaRecord)
    (h : ∀ r ∈ recs, r.Clean) :
    readLoop concat st (recs.flatMap FastaRecord.lines) =
      .ok (emit concat st ++ recs.flatMap (FastaRecord.yielded concat)) := by
  induction recs generalizing st with
  | nil => simp [readLoop]
  | cons r rs ih =>
    obtain ⟨hne, hh, hs⟩ := h r (by simp)
    rw [List.flatMap_cons, FastaRecord.lines, List.cons_append, readLoop,
      stepLine_header concat st r.header hh hne]
    simp only
    rw [readLoop_seq concat _ _ _ _ hs, List.nil_append, ih _ (fun x hx => h x (by simp [hx])),
      emit_record]
    simp

end PgFdr.C19
