import PgFdr.Model.C08Config

/-! Helper lemmas for the configured digestion (`PgFdr/Model/C08Config.lean`): the option lists
(`bcast`, `zipParams`), the per-protein view of the emissions (`dedup`, `keysFor`, `emitRecords`, `emitJobs`) and
the block sequence of `digest.main` (`runBlocks`). Core Lean only. -/
namespace PgFdr.C08
open PgFdr.Generated

/-! ### option lists -/

/-- "a single value holds for every parameter set, several values are one per set" -/
def pickAt {α : Type} (l : List α) (i : Nat) : Option α := if l.length = 1 then l.head? else l[i]?

theorem bcast_getElem? {α : Type} (n : Nat) (l : List α) (i : Nat) (hi : i < n) :
    (bcast n l)[i]? = pickAt l i := by
  unfold pickAt
  match l with
  | [] => simp [bcast]
  | [x] => simp [bcast, hi]
  | x :: y :: r => simp [bcast]

theorem bcast_length {α : Type} (n : Nat) (l : List α) (h : l.length = 1 ∨ l.length = n) :
    (bcast n l).length = n := by
  match l, h with
  | [], h => simpa [bcast] using h
  | [x], _ => simp [bcast]
  | x :: y :: r, h => simpa [bcast] using h

theorem zipParams_getElem? (cd : Bool) :
    ∀ (l1 l2 : List String) (l3 l4 l5 : List Nat) (l6 : List String) (i : Nat) e d mn mx c s,
      l1[i]? = some e → l2[i]? = some d → l3[i]? = some mn → l4[i]? = some mx → l5[i]? = some c → l6[i]? = some s →
      (zipParams cd l1 l2 l3 l4 l5 l6)[i]? =
        some (mkParams { enzyme := some e, digestion := some d, minLength := some mn, maxLength := some mx,
                         cleavages := some c, specialAas := some s, containsDecoys := some cd }) := by
  intro l1
  induction l1 with
  | nil => intro l2 l3 l4 l5 l6 i e d mn mx c s h; simp at h
  | cons a1 t1 ih =>
    intro l2 l3 l4 l5 l6 i e d mn mx c s h1 h2 h3 h4 h5 h6
    match l2, l3, l4, l5, l6, h2, h3, h4, h5, h6 with
    | a2 :: t2, a3 :: t3, a4 :: t4, a5 :: t5, a6 :: t6, h2, h3, h4, h5, h6 =>
      cases i with
      | zero =>
        simp at h1 h2 h3 h4 h5 h6
        subst h1 h2 h3 h4 h5 h6
        simp [zipParams]
      | succ i =>
        simp at h1 h2 h3 h4 h5 h6
        simp only [zipParams, List.getElem?_cons_succ]
        exact ih t2 t3 t4 t5 t6 i e d mn mx c s h1 h2 h3 h4 h5 h6

theorem zipParams_length (cd : Bool) :
    ∀ (l1 l2 : List String) (l3 l4 l5 : List Nat) (l6 : List String) (n : Nat),
      l1.length = n → l2.length = n → l3.length = n → l4.length = n → l5.length = n → l6.length = n →
      (zipParams cd l1 l2 l3 l4 l5 l6).length = n := by
  intro l1
  induction l1 with
  | nil => intro l2 l3 l4 l5 l6 n h; simp at h; subst h; simp [zipParams]
  | cons a1 t1 ih =>
    intro l2 l3 l4 l5 l6 n h1 h2 h3 h4 h5 h6
    match l2, l3, l4, l5, l6, n, h1, h2, h3, h4, h5, h6 with
    | a2 :: t2, a3 :: t3, a4 :: t4, a5 :: t5, a6 :: t6, n + 1, h1, h2, h3, h4, h5, h6 =>
      simp at h1 h2 h3 h4 h5 h6
      simp only [zipParams, List.length_cons]
      rw [ih t2 t3 t4 t5 t6 n h1 h2 h3 h4 h5 h6]

theorem allEq_iff (l : List Nat) : allEq l = true ↔ ∀ x ∈ l, x = l.headD 1 := by
  cases l with
  | nil => simp [allEq]
  | cons a t =>
    simp only [allEq, List.all_eq_true, beq_iff_eq, List.headD_cons, List.mem_cons]
    constructor
    · intro h x hx
      rcases hx with rfl | hx
      · rfl
      · exact h x hx
    · intro h x hx
      exact h x (Or.inr hx)

theorem mem_nonOneLengths (a : ArgLists) (n : Nat) :
    n ∈ nonOneLengths a ↔ n ≠ 1 ∧ (n = a.enzyme.length ∨ n = a.digestion.length ∨ n = a.minLength.length ∨
      n = a.maxLength.length ∨ n = a.cleavages.length ∨ n = a.specialAas.length) := by
  simp only [nonOneLengths, List.mem_filter, List.mem_cons, List.not_mem_nil, or_false, bne_iff_ne, ne_eq]
  constructor
  · rintro ⟨h, h1⟩; exact ⟨h1, h⟩
  · rintro ⟨h1, h⟩; exact ⟨h, h1⟩

theorem length_one_or (a : ArgLists) (h : ∀ n ∈ nonOneLengths a, n = numParams a) :
    (a.enzyme.length = 1 ∨ a.enzyme.length = numParams a) ∧
    (a.digestion.length = 1 ∨ a.digestion.length = numParams a) ∧
    (a.minLength.length = 1 ∨ a.minLength.length = numParams a) ∧
    (a.maxLength.length = 1 ∨ a.maxLength.length = numParams a) ∧
    (a.cleavages.length = 1 ∨ a.cleavages.length = numParams a) ∧
    (a.specialAas.length = 1 ∨ a.specialAas.length = numParams a) := by
  have key : ∀ n, (n = a.enzyme.length ∨ n = a.digestion.length ∨ n = a.minLength.length ∨
      n = a.maxLength.length ∨ n = a.cleavages.length ∨ n = a.specialAas.length) → n = 1 ∨ n = numParams a := by
    intro n hn
    by_cases h1 : n = 1
    · exact Or.inl h1
    · exact Or.inr (h n ((mem_nonOneLengths a n).mpr ⟨h1, hn⟩))
  exact ⟨key _ (Or.inl rfl), key _ (Or.inr (Or.inl rfl)), key _ (Or.inr (Or.inr (Or.inl rfl))),
    key _ (Or.inr (Or.inr (Or.inr (Or.inl rfl)))), key _ (Or.inr (Or.inr (Or.inr (Or.inr (Or.inl rfl))))),
    key _ (Or.inr (Or.inr (Or.inr (Or.inr (Or.inr rfl)))))⟩

theorem pickAt_some {α : Type} (n : Nat) (l : List α) (h : l.length = 1 ∨ l.length = n) (i : Nat) (hi : i < n) :
    ∃ x, pickAt l i = some x := by
  rw [← bcast_getElem? n l i hi]
  have hl := bcast_length n l h
  exact ⟨(bcast n l)[i]'(by omega), List.getElem?_eq_getElem (by omega)⟩

theorem paramsList_ok (a : ArgLists) (ps : List Params) (h : paramsList a = .ok ps) :
    (∀ n ∈ nonOneLengths a, n = numParams a) ∧ ps.length = numParams a ∧
    ∀ i, i < numParams a → ∃ e d mn mx c s,
      pickAt a.enzyme i = some e ∧ pickAt a.digestion i = some d ∧ pickAt a.minLength i = some mn ∧
      pickAt a.maxLength i = some mx ∧ pickAt a.cleavages i = some c ∧ pickAt a.specialAas i = some s ∧
      ps[i]? = some (mkParams { enzyme := some e, digestion := some d, minLength := some mn, maxLength := some mx,
                                cleavages := some c, specialAas := some s, containsDecoys := some a.containsDecoys }) := by
  unfold paramsList at h
  split at h
  · rename_i hall
    have hall' : ∀ n ∈ nonOneLengths a, n = numParams a := (allEq_iff _).mp hall
    obtain ⟨h1, h2, h3, h4, h5, h6⟩ := length_one_or a hall'
    injection h with h
    subst h
    refine ⟨hall', ?_, ?_⟩
    · exact zipParams_length _ _ _ _ _ _ _ _ (bcast_length _ _ h1) (bcast_length _ _ h2) (bcast_length _ _ h3)
        (bcast_length _ _ h4) (bcast_length _ _ h5) (bcast_length _ _ h6)
    · intro i hi
      obtain ⟨e, he⟩ := pickAt_some _ _ h1 i hi
      obtain ⟨d, hd⟩ := pickAt_some _ _ h2 i hi
      obtain ⟨mn, hmn⟩ := pickAt_some _ _ h3 i hi
      obtain ⟨mx, hmx⟩ := pickAt_some _ _ h4 i hi
      obtain ⟨c, hc⟩ := pickAt_some _ _ h5 i hi
      obtain ⟨s, hs⟩ := pickAt_some _ _ h6 i hi
      refine ⟨e, d, mn, mx, c, s, he, hd, hmn, hmx, hc, hs, ?_⟩
      apply zipParams_getElem?
      · rw [bcast_getElem? _ _ _ hi]; exact he
      · rw [bcast_getElem? _ _ _ hi]; exact hd
      · rw [bcast_getElem? _ _ _ hi]; exact hmn
      · rw [bcast_getElem? _ _ _ hi]; exact hmx
      · rw [bcast_getElem? _ _ _ hi]; exact hc
      · rw [bcast_getElem? _ _ _ hi]; exact hs
  · cases h

theorem paramsList_error_iff (a : ArgLists) :
    paramsList a = .error .unequalLength ↔ ∃ m ∈ nonOneLengths a, ∃ n ∈ nonOneLengths a, m ≠ n := by
  unfold paramsList
  split
  · rename_i hall
    have hall' := (allEq_iff _).mp hall
    constructor
    · intro h; cases h
    · rintro ⟨m, hm, n, hn, hne⟩
      exact absurd ((hall' m hm).trans (hall' n hn).symm) hne
  · rename_i hall
    constructor
    · intro _
      cases hl : nonOneLengths a with
      | nil => rw [hl] at hall; simp [allEq] at hall
      | cons x t =>
        rw [hl] at hall
        simp only [allEq, List.all_eq_true, beq_iff_eq] at hall
        have : ∃ y ∈ t, y ≠ x := by
          apply Classical.byContradiction
          intro hc
          apply hall
          intro y hy
          apply Classical.byContradiction
          intro hne
          exact hc ⟨y, hy, hne⟩
        obtain ⟨y, hy, hne⟩ := this
        exact ⟨y, List.mem_cons_of_mem _ hy, x, List.mem_cons_self, hne⟩
    · intro _; rfl

/-! ### peptides per protein -/

theorem mem_dedup {α : Type} [DecidableEq α] (x : α) : ∀ l : List α, x ∈ dedup l ↔ x ∈ l := by
  intro l
  induction l with
  | nil => simp [dedup]
  | cons a t ih =>
    simp only [dedup, List.mem_cons, List.mem_filter, decide_eq_true_eq, ih]
    constructor
    · rintro (h | ⟨h, _⟩)
      · exact Or.inl h
      · exact Or.inr h
    · intro h
      by_cases hx : x = a
      · exact Or.inl hx
      · rcases h with h | h
        · exact absurd h hx
        · exact Or.inr ⟨h, hx⟩

theorem dedup_nodup {α : Type} [DecidableEq α] : ∀ l : List α, (dedup l).Nodup := by
  intro l
  induction l with
  | nil => simp [dedup]
  | cons a t ih =>
    simp only [dedup, List.nodup_cons, List.mem_filter, decide_eq_true_eq, ne_eq, not_true_eq_false, and_false,
      not_false_eq_true, true_and]
    exact ih.sublist List.filter_sublist

theorem mem_keysFor (id : String) (em : List Emission) (x : Seq) :
    x ∈ keysFor id em ↔ ∃ e ∈ em, e.1 = id ∧ x ∈ e.2 := by
  simp only [keysFor, mem_dedup, List.mem_flatMap, List.mem_filter, beq_iff_eq]
  constructor
  · rintro ⟨e, ⟨he, hid⟩, hx⟩; exact ⟨e, he, hid, hx⟩
  · rintro ⟨e, he, hid, hx⟩; exact ⟨e, ⟨he, hid⟩, hx⟩

theorem mem_proteinIds (id : String) (em : List Emission) : id ∈ proteinIds em ↔ ∃ e ∈ em, e.1 = id := by
  simp [proteinIds, mem_dedup]

theorem mem_perProtein (em : List Emission) (kv : String × List Seq) :
    kv ∈ perProtein em ↔ kv.1 ∈ proteinIds em ∧ kv.2 = keysFor kv.1 em := by
  simp only [perProtein, List.mem_map]
  constructor
  · rintro ⟨id, hid, rfl⟩; exact ⟨hid, rfl⟩
  · rintro ⟨hid, hk⟩; exact ⟨kv.1, hid, by rw [← hk]⟩

theorem mem_emitRecords (r : EnzymeRule) (p : Params) (e : Emission) :
    ∀ (recs : Fasta) (out : List Emission), emitRecords r p recs = .ok out →
      (e ∈ out ↔ ∃ rec ∈ recs, ∃ l, digestPeptides r rec.2 p.minL p.maxL (modeOf p.digestion) p.mc p.met = .ok l ∧
        e = (rec.1, l.map (hashKey p))) := by
  intro recs
  induction recs with
  | nil => intro out h; simp [emitRecords] at h; subst h; simp
  | cons rec rest ih =>
    intro out h
    simp only [emitRecords] at h
    split at h
    · cases h
    · rename_i l hl
      split at h
      · cases h
      · rename_i out' hout
        injection h with h
        subst h
        simp only [List.mem_cons, ih out' hout]
        constructor
        · rintro (rfl | ⟨rec', hr', l', hl', rfl⟩)
          · exact ⟨rec, Or.inl rfl, l, hl, rfl⟩
          · exact ⟨rec', Or.inr hr', l', hl', rfl⟩
        · rintro ⟨rec', hr' | hr', l', hl', rfl⟩
          · subst hr'
            rw [hl] at hl'
            injection hl' with hl'
            subst hl'
            exact Or.inl rfl
          · exact Or.inr ⟨rec', hr', l', hl', rfl⟩

theorem mem_emitJobs (e : Emission) :
    ∀ (js : List (Fasta × Params)) (out : List Emission), emitJobs js = .ok out →
      (e ∈ out ↔ ∃ j ∈ js, ∃ a, emitJob j.2 j.1 = .ok a ∧ e ∈ a) := by
  intro js
  induction js with
  | nil => intro out h; simp [emitJobs] at h; subst h; simp
  | cons j rest ih =>
    intro out h
    simp only [emitJobs] at h
    split at h
    · cases h
    · rename_i a ha
      split at h
      · cases h
      · rename_i b hb
        injection h with h
        subst h
        simp only [List.mem_append, List.mem_cons, ih b hb]
        constructor
        · rintro (h | ⟨j', hj', a', ha', he⟩)
          · exact ⟨j, Or.inl rfl, a, ha, h⟩
          · exact ⟨j', Or.inr hj', a', ha', he⟩
        · rintro ⟨j', hj' | hj', a', ha', he⟩
          · subst hj'
            rw [ha] at ha'
            injection ha' with ha'
            subst ha'
            exact Or.inl he
          · exact Or.inr ⟨j', hj', a', ha', he⟩

theorem mem_jobs (files : List Fasta) (ps : List Params) (j : Fasta × Params) :
    j ∈ jobs files ps ↔ j.1 ∈ files ∧ j.2 ∈ ps := by
  simp only [jobs, List.mem_flatMap, List.mem_map]
  constructor
  · rintro ⟨f, hf, p, hp, rfl⟩; exact ⟨hf, hp⟩
  · rintro ⟨hf, hp⟩; exact ⟨j.1, hf, j.2, hp, rfl⟩

/-- the digestion call of a parameter object, by rule record -/
theorem configuredDigest_eq (p : Params) (r : EnzymeRule) (hr : lookupEnzyme p.enzyme = some r) (s : Seq) :
    configuredDigest p s = digestPeptides r s p.minL p.maxL (modeOf p.digestion) p.mc p.met := by
  simp [configuredDigest, digestByName, hr]

theorem configuredDigest_ok_enzyme (p : Params) (s : Seq) (l : List Seq) (h : configuredDigest p s = .ok l) :
    ∃ r, lookupEnzyme p.enzyme = some r := by
  unfold configuredDigest digestByName at h
  cases hr : lookupEnzyme p.enzyme with
  | none => rw [hr] at h; cases h
  | some r => exact ⟨r, rfl⟩

/-- the contributions of one (file, parameter set) job -/
theorem mem_emitJob (p : Params) (f : Fasta) (a : List Emission) (h : emitJob p f = .ok a) (e : Emission) :
    e ∈ a ↔ ∃ rec ∈ records p f, ∃ l, configuredDigest p rec.2 = .ok l ∧ e = (rec.1, l.map (hashKey p)) := by
  unfold emitJob at h
  cases hr : lookupEnzyme p.enzyme with
  | none => rw [hr] at h; cases h
  | some r =>
    rw [hr] at h
    simp only at h
    rw [mem_emitRecords r p e _ a h]
    constructor
    · rintro ⟨rec, hrec, l, hl, rfl⟩
      exact ⟨rec, hrec, l, by rw [configuredDigest_eq p r hr]; exact hl, rfl⟩
    · rintro ⟨rec, hrec, l, hl, rfl⟩
      exact ⟨rec, hrec, l, by rw [configuredDigest_eq p r hr] at hl; exact hl, rfl⟩

/-- every job of a successful run succeeded -/
theorem emitJobs_each_ok : ∀ (js : List (Fasta × Params)) (out : List Emission), emitJobs js = .ok out →
    ∀ j ∈ js, ∃ a, emitJob j.2 j.1 = .ok a := by
  intro js
  induction js with
  | nil => intro out _ j hj; cases hj
  | cons j0 rest ih =>
    intro out h j hj
    simp only [emitJobs] at h
    split at h
    · cases h
    · rename_i a ha
      split at h
      · cases h
      · rename_i b hb
        rcases List.mem_cons.mp hj with rfl | hj
        · exact ⟨a, ha⟩
        · exact ih b hb j hj

/-- every record of a successful job was digested -/
theorem emitRecords_each_ok (r : EnzymeRule) (p : Params) : ∀ (recs : Fasta) (out : List Emission),
    emitRecords r p recs = .ok out →
    ∀ rec ∈ recs, ∃ l, digestPeptides r rec.2 p.minL p.maxL (modeOf p.digestion) p.mc p.met = .ok l := by
  intro recs
  induction recs with
  | nil => intro out _ rec hrec; cases hrec
  | cons r0 rest ih =>
    intro out h rec hrec
    simp only [emitRecords] at h
    split at h
    · cases h
    · rename_i l hl
      split at h
      · cases h
      · rename_i out' hout
        rcases List.mem_cons.mp hrec with rfl | hrec
        · exact ⟨l, hl⟩
        · exact ih out' hout rec hrec

/-- everything the merged map holds, as contributions -/
theorem mem_emissions (files : List Fasta) (ps : List Params) (em : List Emission) (h : emissions files ps = .ok em)
    (e : Emission) :
    e ∈ em ↔ ∃ f ∈ files, ∃ p ∈ ps, ∃ rec ∈ records p f, ∃ l, configuredDigest p rec.2 = .ok l ∧
      e = (rec.1, l.map (hashKey p)) := by
  unfold emissions at h
  rw [mem_emitJobs e _ em h]
  constructor
  · rintro ⟨j, hj, a, ha, he⟩
    obtain ⟨hf, hp⟩ := (mem_jobs files ps j).mp hj
    exact ⟨j.1, hf, j.2, hp, (mem_emitJob j.2 j.1 a ha e).mp he⟩
  · rintro ⟨f, hf, p, hp, hrest⟩
    have hj : (f, p) ∈ jobs files ps := (mem_jobs files ps (f, p)).mpr ⟨hf, hp⟩
    obtain ⟨a, ha⟩ := emitJobs_each_ok _ em h (f, p) hj
    exact ⟨(f, p), hj, a, ha, (mem_emitJob p f a ha e).mpr hrest⟩

theorem emitJob_ok_of_emissions (files : List Fasta) (ps : List Params) (em : List Emission)
    (h : emissions files ps = .ok em) (f : Fasta) (hf : f ∈ files) (p : Params) (hp : p ∈ ps) :
    ∃ a, emitJob p f = .ok a :=
  emitJobs_each_ok _ em h (f, p) ((mem_jobs files ps (f, p)).mpr ⟨hf, hp⟩)

theorem emitJob_record_ok (p : Params) (f : Fasta) (a : List Emission) (h : emitJob p f = .ok a)
    (rec : String × Seq) (hrec : rec ∈ records p f) : ∃ l, configuredDigest p rec.2 = .ok l := by
  unfold emitJob at h
  cases hr : lookupEnzyme p.enzyme with
  | none => rw [hr] at h; cases h
  | some r =>
    rw [hr] at h
    simp only at h
    obtain ⟨l, hl⟩ := emitRecords_each_ok r p _ a h rec hrec
    exact ⟨l, by rw [configuredDigest_eq p r hr]; exact hl⟩

/-! ### the blocks of `digest.main` -/

theorem ibaqParams_idem (p : Params) : ibaqParams (ibaqParams p) = ibaqParams p := by
  simp only [ibaqParams]
  congr 1 <;> omega

theorem map_ibaqParams_idem (ps : List Params) : (ps.map ibaqParams).map ibaqParams = ps.map ibaqParams := by
  simp [List.map_map, Function.comp_def, ibaqParams_idem]

/-- the state of the parameter objects behind a sequence of blocks: rewritten as soon as one iBAQ block ran -/
def paramsAfter (ps : List Params) (bs : List Block) : List Params :=
  if Block.ibaq ∈ bs then ps.map ibaqParams else ps

/-- what one block writes, and what it leaves of the parameter objects -/
theorem runBlock_ok (files : List Fasta) (st st' : List Params × Written) (b : Block)
    (h : runBlock files st b = .ok st') :
    match b with
    | .prosit => st'.1 = st.1 ∧ ∃ em, mapItems files st.1 = .ok em ∧
        st'.2 = { st.2 with prosit := some (prositRows em) }
    | .map => st'.1 = st.1 ∧ ∃ em, mapItems files st.1 = .ok em ∧ st'.2 = { st.2 with map := some (perProtein em) }
    | .ibaq => st'.1 = st.1.map ibaqParams ∧ ∃ em, mapItems files (st.1.map ibaqParams) = .ok em ∧
        st'.2 = { st.2 with ibaq := some (ibaqCounts em) } := by
  cases b <;> simp only [runBlock] at h ⊢ <;> split at h <;> cases h
  all_goals
    rename_i em hem
    exact ⟨rfl, em, hem, rfl⟩

theorem runBlocks_append (files : List Fasta) : ∀ (a b : List Block) (st : List Params × Written),
    runBlocks files (a ++ b) st =
      match runBlocks files a st with
      | .error e => .error e
      | .ok st' => runBlocks files b st' := by
  intro a
  induction a with
  | nil => intro b st; simp [runBlocks]
  | cons x t ih =>
    intro b st
    simp only [List.cons_append, runBlocks]
    cases hx : runBlock files st x with
    | error e => simp
    | ok st1 => simp only; exact ih b st1

theorem runBlocks_params (files : List Fasta) : ∀ (bs : List Block) (st st' : List Params × Written),
    runBlocks files bs st = .ok st' → st'.1 = paramsAfter st.1 bs := by
  intro bs
  induction bs with
  | nil => intro st st' h; simp only [runBlocks] at h; injection h with h; subst h; simp [paramsAfter]
  | cons b t ih =>
    intro st st' h
    simp only [runBlocks] at h
    cases hb : runBlock files st b with
    | error e => rw [hb] at h; cases h
    | ok st1 =>
      rw [hb] at h
      simp only at h
      have h1 := runBlock_ok files st st1 b hb
      rw [ih st1 st' h]
      cases b
      · simp only at h1; rw [h1.1]; simp [paramsAfter]
      · simp only at h1; rw [h1.1]; simp [paramsAfter]
      · simp only at h1
        rw [h1.1]
        simp only [paramsAfter, List.mem_cons, true_or, if_true]
        split
        · exact map_ibaqParams_idem _
        · rfl

theorem runBlocks_untouched (files : List Fasta) : ∀ (bs : List Block) (st st' : List Params × Written),
    runBlocks files bs st = .ok st' →
    (Block.prosit ∉ bs → st'.2.prosit = st.2.prosit) ∧ (Block.map ∉ bs → st'.2.map = st.2.map) ∧
    (Block.ibaq ∉ bs → st'.2.ibaq = st.2.ibaq) := by
  intro bs
  induction bs with
  | nil => intro st st' h; simp only [runBlocks] at h; injection h with h; subst h; exact ⟨fun _ => rfl, fun _ => rfl, fun _ => rfl⟩
  | cons b t ih =>
    intro st st' h
    simp only [runBlocks] at h
    cases hb : runBlock files st b with
    | error e => rw [hb] at h; cases h
    | ok st1 =>
      rw [hb] at h
      simp only at h
      have h1 := runBlock_ok files st st1 b hb
      obtain ⟨i1, i2, i3⟩ := ih st1 st' h
      cases b
      · obtain ⟨_, em, _, h2⟩ := h1
        refine ⟨fun hn => absurd List.mem_cons_self hn, fun hn => ?_, fun hn => ?_⟩
        · rw [i2 (fun hm => hn (List.mem_cons_of_mem _ hm)), h2]
        · rw [i3 (fun hm => hn (List.mem_cons_of_mem _ hm)), h2]
      · obtain ⟨_, em, _, h2⟩ := h1
        refine ⟨fun hn => ?_, fun hn => absurd List.mem_cons_self hn, fun hn => ?_⟩
        · rw [i1 (fun hm => hn (List.mem_cons_of_mem _ hm)), h2]
        · rw [i3 (fun hm => hn (List.mem_cons_of_mem _ hm)), h2]
      · obtain ⟨_, em, _, h2⟩ := h1
        refine ⟨fun hn => ?_, fun hn => ?_, fun hn => absurd List.mem_cons_self hn⟩
        · rw [i1 (fun hm => hn (List.mem_cons_of_mem _ hm)), h2]
        · rw [i2 (fun hm => hn (List.mem_cons_of_mem _ hm)), h2]

theorem paramsAfter_ibaq (ps : List Params) (bs : List Block) :
    (paramsAfter ps bs).map ibaqParams = ps.map ibaqParams := by
  unfold paramsAfter
  split
  · exact map_ibaqParams_idem ps
  · rfl

/-- blocks in ANY order: what the last block of a kind leaves in its file -/
theorem runBlocks_block (files : List Fasta) (pre post : List Block) (b : Block) (hb : b ∉ post) (ps : List Params)
    (w0 : Written) (st : List Params × Written) (h : runBlocks files (pre ++ b :: post) (ps, w0) = .ok st) :
    match b with
    | .prosit => ∃ em, mapItems files (paramsAfter ps pre) = .ok em ∧ st.2.prosit = some (prositRows em)
    | .map => ∃ em, mapItems files (paramsAfter ps pre) = .ok em ∧ st.2.map = some (perProtein em)
    | .ibaq => ∃ em, mapItems files (ps.map ibaqParams) = .ok em ∧ st.2.ibaq = some (ibaqCounts em) := by
  rw [runBlocks_append] at h
  cases h1 : runBlocks files pre (ps, w0) with
  | error e => rw [h1] at h; cases h
  | ok st1 =>
    rw [h1] at h
    simp only [runBlocks] at h
    have hp : st1.1 = paramsAfter ps pre := runBlocks_params files pre (ps, w0) st1 h1
    cases h2 : runBlock files st1 b with
    | error e => rw [h2] at h; cases h
    | ok st2 =>
      rw [h2] at h
      simp only at h
      have k := runBlock_ok files st1 st2 b h2
      obtain ⟨u1, u2, u3⟩ := runBlocks_untouched files post st2 st h
      cases b
      · obtain ⟨_, em, hem, hw⟩ := k
        exact ⟨em, by rw [← hp]; exact hem, by rw [u1 hb, hw]⟩
      · obtain ⟨_, em, hem, hw⟩ := k
        exact ⟨em, by rw [← hp]; exact hem, by rw [u2 hb, hw]⟩
      · obtain ⟨_, em, hem, hw⟩ := k
        refine ⟨em, ?_, by rw [u3 hb, hw]⟩
        rw [hp, paramsAfter_ibaq] at hem
        exact hem

theorem mapItems_ok (files : List Fasta) (ps : List Params) (em : List Emission) (h : mapItems files ps = .ok em) :
    emissions files ps = .ok em ∧ pairResult files ps = false := by
  unfold mapItems at h
  split at h
  · cases h
  · rename_i em' hem
    split at h
    · cases h
    · rename_i hp
      injection h with h
      subst h
      exact ⟨hem, by simpa using hp⟩

theorem mainBlocks_prosit (wm wi : Bool) :
    mainBlocks true wm wi = [] ++ Block.prosit :: ((if wm then [.map] else []) ++ (if wi then [.ibaq] else [])) := by
  cases wm <;> cases wi <;> rfl

theorem mainBlocks_map (wp wi : Bool) :
    mainBlocks wp true wi = (if wp then [.prosit] else []) ++ Block.map :: (if wi then [.ibaq] else []) := by
  cases wp <;> cases wi <;> rfl

theorem mainBlocks_ibaq (wp wm : Bool) :
    mainBlocks wp wm true = ((if wp then [.prosit] else []) ++ (if wm then [.map] else [])) ++ Block.ibaq :: [] := by
  cases wp <;> cases wm <;> rfl

end PgFdr.C08
