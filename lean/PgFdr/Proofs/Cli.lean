import PgFdr.Model.Cli
import PgFdr.Proofs.C10
import PgFdr.Proofs.C13
import PgFdr.Proofs.PipelineC18

/-!
Helper lemmas about the command-line glue model `PgFdr.Cli` (Model/Cli.lean): what a successful method loop
establishes, what `parseAll` establishes per position, which parts of the shared environment a method reads,
and the explicit form of the written records.  The property theorems are in `Props/C18.lean`.
-/
namespace PgFdr.Cli
open PgFdr.Generated (MethodToml)

/-! ### the method loop -/

/-- a loop that ran to its end ran every method, and holds each method's outcome at the method's position -/
theorem loop_ok (inp : CliInput) (env : Env) (several : Bool) :
    ∀ (its : List (String × C18.Cfg × MethodRec)) (os : List (Option CliTable)),
      loop inp env several its = (os, none) →
      os.length = its.length ∧
      ∀ (i : Nat) (it : String × C18.Cfg × MethodRec), its[i]? = some it →
        ∃ o, runMethod inp env several it.1 it.2.1 it.2.2 = .ok o ∧ os[i]? = some o := by
  intro its
  induction its with
  | nil =>
    intro os h
    simp only [loop, Prod.mk.injEq] at h
    obtain ⟨rfl, -⟩ := h
    exact ⟨rfl, by intro i it hi; simp at hi⟩
  | cons it rest ih =>
    intro os h
    simp only [loop] at h
    cases hr : runMethod inp env several it.1 it.2.1 it.2.2 with
    | error e => rw [hr] at h; simp at h
    | ok o =>
      rw [hr] at h
      simp only [Prod.mk.injEq] at h
      obtain ⟨hos, hnone⟩ := h
      have hrest : loop inp env several rest = ((loop inp env several rest).1, none) := by
        rw [← hnone]
      obtain ⟨hl, hall⟩ := ih _ hrest
      subst hos
      refine ⟨by simp [hl], ?_⟩
      intro i it' hi
      cases i with
      | zero =>
        simp only [List.getElem?_cons_zero, Option.some.injEq] at hi
        subst hi
        exact ⟨o, hr, by simp⟩
      | succ k =>
        simp only [List.getElem?_cons_succ] at hi
        obtain ⟨o', h1, h2⟩ := hall k it' hi
        exact ⟨o', h1, by simpa using h2⟩

/-- the loop over one method -/
theorem loop_single (inp : CliInput) (env : Env) (several : Bool) (it : String × C18.Cfg × MethodRec)
    (o : Option CliTable) (h : runMethod inp env several it.1 it.2.1 it.2.2 = .ok o) :
    loop inp env several [it] = ([o], none) := by
  simp [loop, h]

/-! ### `parseAll` per position -/

theorem parseAll_spec (table : List MethodToml) (u : Bool) :
    ∀ (ms : List C18.MethodRef) (cfgs : List C18.Cfg), C18.parseAll table u ms = .ok cfgs →
      cfgs.length = ms.length ∧
      ∀ (i : Nat) (m : C18.MethodRef), ms[i]? = some m →
        ∃ t c, C18.resolve table m = .ok t ∧ C18.parseMethod u t = .ok c ∧ cfgs[i]? = some c := by
  intro ms
  induction ms with
  | nil =>
    intro cfgs h
    simp only [C18.parseAll, Except.ok.injEq] at h
    subst h
    exact ⟨rfl, by intro i m hi; simp at hi⟩
  | cons m rest ih =>
    intro cfgs h
    simp only [C18.parseAll] at h
    cases hr : C18.resolve table m with
    | error e => rw [hr] at h; simp at h
    | ok t =>
      rw [hr] at h
      simp only at h
      cases hp : C18.parseMethod u t with
      | error e => rw [hp] at h; simp at h
      | ok c =>
        rw [hp] at h
        simp only at h
        cases hrest : C18.parseAll table u rest with
        | error e => rw [hrest] at h; simp at h
        | ok cs =>
          rw [hrest] at h
          simp only [Except.ok.injEq] at h
          subst h
          obtain ⟨hl, hall⟩ := ih cs hrest
          refine ⟨by simp [hl], ?_⟩
          intro i m' hi
          cases i with
          | zero =>
            simp only [List.getElem?_cons_zero, Option.some.injEq] at hi
            subst hi
            exact ⟨t, c, hr, hp, by simp⟩
          | succ k =>
            simp only [List.getElem?_cons_succ] at hi
            obtain ⟨t', c', h1, h2, h3⟩ := hall k m' hi
            exact ⟨t', c', h1, h2, by simpa using h3⟩

theorem parseAll_single (table : List MethodToml) (u : Bool) (m : C18.MethodRef) (t : MethodToml) (c : C18.Cfg)
    (hr : C18.resolve table m = .ok t) (hp : C18.parseMethod u t = .ok c) :
    C18.parseAll table u [m] = .ok [c] := by
  simp [C18.parseAll, hr, hp]

/-! ### the items of the loop -/

theorem recsFor_getElem? (inp : CliInput) (n i : Nat) (hi : i < n) :
    (recsFor inp n)[i]? = some (inp.recs.getD i default) := by
  simp [recsFor, hi]

theorem items_getElem? (inp : CliInput) (cfgs : List C18.Cfg) (i : Nat) (name : String) (c : C18.Cfg)
    (hn : inp.methods[i]? = some name) (hc : cfgs[i]? = some c) :
    (items inp cfgs)[i]? = some (name, c, inp.recs.getD i default) := by
  have hi : i < cfgs.length := by
    rcases Nat.lt_or_ge i cfgs.length with h | h
    · exact h
    · rw [List.getElem?_eq_none_iff.mpr h] at hc; cases hc
  unfold items
  rw [List.getElem?_zip_eq_some]
  refine ⟨hn, ?_⟩
  rw [List.getElem?_zip_eq_some]
  exact ⟨hc, recsFor_getElem? inp _ i hi⟩

theorem items_getElem?_inv (inp : CliInput) (cfgs : List C18.Cfg) (i : Nat) (it : String × C18.Cfg × MethodRec)
    (h : (items inp cfgs)[i]? = some it) :
    inp.methods[i]? = some it.1 ∧ cfgs[i]? = some it.2.1 ∧ it.2.2 = inp.recs.getD i default := by
  unfold items at h
  rw [List.getElem?_zip_eq_some] at h
  obtain ⟨h1, h2⟩ := h
  rw [List.getElem?_zip_eq_some] at h2
  obtain ⟨h2, h3⟩ := h2
  refine ⟨h1, h2, ?_⟩
  have hi : i < cfgs.length := by
    rcases Nat.lt_or_ge i cfgs.length with h | h
    · exact h
    · rw [List.getElem?_eq_none_iff.mpr h] at h2; cases h2
  rw [recsFor_getElem? inp _ i hi] at h3
  exact (Option.some.inj h3).symm

/-! ### what a method reads of the shared environment -/

theorem modeOf_remap (o : C18.Origin) (mk : Bool) : (modeOf o mk).remap = o.remaps := by
  cases o <;> rfl

/-- a method that does not remap never looks at the peptide → protein maps -/
theorem ingest_noremap (inp : CliInput) (maps maps' : List C10.DMap) (cfg : C18.Cfg)
    (h : cfg.origin.remaps = false) : ingest inp maps cfg = ingest inp maps' cfg := by
  unfold ingest psmsOf C10.pairUp
  simp [modeOf_remap, h]

theorem needsMap_false_remaps (cfg : C18.Cfg) (h : cfg.needsMap = false) : cfg.origin.remaps = false := by
  unfold C18.Cfg.needsMap at h
  simp only [Bool.or_eq_false_iff] at h
  exact h.2

/-- the outcome of a method depends on the environment only through the annotations and — for a method that
    needs one — the maps -/
theorem runMethod_env (inp : CliInput) (env env' : Env) (several : Bool) (name : String) (cfg : C18.Cfg)
    (rec : MethodRec) (hann : env'.ann = env.ann) (hmaps : cfg.needsMap = true → env'.maps = env.maps) :
    runMethod inp env' several name cfg rec = runMethod inp env several name cfg rec := by
  have hing : ingest inp env'.maps cfg = ingest inp env.maps cfg := by
    cases hn : cfg.needsMap with
    | true => rw [hmaps hn]
    | false => exact ingest_noremap inp _ _ cfg (needsMap_false_remaps cfg hn)
  unfold runMethod
  rw [hing, hann]

/-- giving only one method does not change what a method reads of the command line -/
theorem runMethod_alone (inp : CliInput) (i : Nat) (env : Env) (several : Bool) (name : String) (cfg : C18.Cfg)
    (rec : MethodRec) :
    runMethod (inp.alone i) env several name cfg rec = runMethod inp env several name cfg rec := rfl

/-- the number of methods given decides only where the table is written -/
theorem runMethod_several (inp : CliInput) (env : Env) (s₁ s₂ : Bool) (name : String) (cfg : C18.Cfg)
    (rec : MethodRec) (o : Option CliTable) (h : runMethod inp env s₁ name cfg rec = .ok o) :
    ∃ o', runMethod inp env s₂ name cfg rec = .ok o' ∧ o'.map CliTable.content = o.map CliTable.content := by
  unfold runMethod at h ⊢
  cases h1 : C18.runMethod (supplied inp) cfg with
  | error e =>
    rw [h1] at h
    cases e <;> simp_all
  | ok u =>
    rw [h1] at h
    simp only at h ⊢
    cases h2 : C18.toPipelineConfig cfg with
    | none => rw [h2] at h; simp at h
    | some pc =>
      rw [h2] at h
      simp only at h ⊢
      cases h3 : Pipeline.run pc (pipelineInput inp (ingest inp env.maps cfg) rec) with
      | error e => rw [h3] at h; simp at h
      | ok r =>
        rw [h3] at h
        simp only at h ⊢
        cases h4 : renderTable env.ann r.rows with
        | error e => rw [h4] at h; simp at h
        | ok recs =>
          rw [h4] at h
          simp only at h ⊢
          cases h5 : inp.out with
          | none =>
            rw [h5] at h
            simp only [Except.ok.injEq] at h
            subst h
            exact ⟨none, rfl, rfl⟩
          | some op =>
            rw [h5] at h
            simp only [Except.ok.injEq] at h
            subst h
            exact ⟨_, rfl, rfl⟩

/-! ### what a successful method established -/

/-- everything `runMethod` went through when it wrote a table -/
theorem runMethod_table (inp : CliInput) (env : Env) (several : Bool) (name : String) (cfg : C18.Cfg)
    (rec : MethodRec) (t : CliTable) (h : runMethod inp env several name cfg rec = .ok (some t)) :
    ∃ (pc : Pipeline.Config) (r : Pipeline.Result) (op : OutPath),
      C18.runMethod (supplied inp) cfg = .ok () ∧
      C18.toPipelineConfig cfg = some pc ∧
      t.pil = ingest inp env.maps cfg ∧
      Pipeline.run pc (pipelineInput inp t.pil rec) = .ok r ∧
      t.run = r ∧ t.rows = r.rows ∧
      renderTable env.ann r.rows = .ok t.records ∧
      t.method = name ∧ inp.out = some op ∧
      t.file = C18.outputName several op.stem op.suffix cfg ∧
      t.dir = (if several then "" else op.dir) := by
  unfold runMethod at h
  cases h1 : C18.runMethod (supplied inp) cfg with
  | error e =>
    rw [h1] at h
    cases e <;> simp at h
  | ok u =>
    rw [h1] at h
    simp only at h
    cases h2 : C18.toPipelineConfig cfg with
    | none => rw [h2] at h; simp at h
    | some pc =>
      rw [h2] at h
      simp only at h
      cases h3 : Pipeline.run pc (pipelineInput inp (ingest inp env.maps cfg) rec) with
      | error e => rw [h3] at h; simp at h
      | ok r =>
        rw [h3] at h
        simp only at h
        cases h4 : renderTable env.ann r.rows with
        | error e => rw [h4] at h; simp at h
        | ok recs =>
          rw [h4] at h
          simp only at h
          cases h5 : inp.out with
          | none => rw [h5] at h; simp at h
          | some op =>
            rw [h5] at h
            simp only [Except.ok.injEq, Option.some.injEq] at h
            subst h
            exact ⟨pc, r, op, rfl, rfl, rfl, h3, rfl, rfl, h4, rfl, rfl, rfl, rfl⟩

/-- the ingested list is a dict: every peptide once (C10 `keys_nodup_parse`) -/
theorem ingest_distinct (inp : CliInput) (maps : List C10.DMap) (cfg : C18.Cfg) :
    Pipeline.distinctPeptides (ingest inp maps cfg) := by
  unfold Pipeline.distinctPeptides ingest
  exact C10.keys_nodup_parse _

theorem flatMap_zipIdx_fst {α β} (f : α → List β) : ∀ (l : List α) (n : Nat),
    (l.zipIdx n).flatMap (fun pk => f pk.1) = l.flatMap f := by
  intro l
  induction l with
  | nil => intro n; rfl
  | cons a r ih => intro n; simp [List.zipIdx_cons, ih]

/-- with one header style for all Percolator files (no per-file list) ingestion is `C10.ingestFiles` of the
    method's mode on the method's files -/
theorem ingest_uniform (inp : CliInput) (maps : List C10.DMap) (cfg : C18.Cfg) (h : inp.mokapotFiles = []) :
    ingest inp maps cfg =
      C10.ingestFiles doubleT (modeOf cfg.origin inp.mokapot) maps (filesFor inp cfg) := by
  have hm : ∀ k, mokapotAt inp k = inp.mokapot := by intro k; simp [mokapotAt, h]
  unfold ingest psmsOf C10.ingestFiles C10.ingestPairs C10.allPsms
  simp only [hm]
  have key := flatMap_zipIdx_fst
    (fun p : C10.DMap × List C10.RawRow => C10.filePsms doubleT (modeOf cfg.origin inp.mokapot) p.1 p.2)
    (C10.pairUp (modeOf cfg.origin inp.mokapot).remap maps (filesFor inp cfg)) 0
  rw [key]

/-- only Percolator methods look at the header style of a file -/
theorem modeOf_mokapot (o : C18.Origin) (a b : Bool) (h : o.input ≠ .perc) : modeOf o a = modeOf o b := by
  cases o <;> first | rfl | exact absurd rfl h

/-! ### the written records, explicitly -/

/-- the header line of a table written by the minimal writer -/
def tableHeader : List String := C13.baseHeaders ++ C13.mqAnnotationHeaders

theorem tableHeader_nodup : tableHeader.Nodup := by decide +kernel

/-- appending headers none of which is there yet (and which are distinct) succeeds -/
theorem appendHeaders_of_nodup : ∀ (new hs : List String), (hs ++ new).Nodup →
    C13.appendHeaders hs new = .ok (hs ++ new) := by
  intro new
  induction new with
  | nil => intro hs _; simp [C13.appendHeaders]
  | cons h r ih =>
    intro hs hn
    have hnot : h ∉ hs := by
      intro hm
      have := List.nodup_append.mp hn
      exact this.2.2 h hm h (by simp) rfl
    have := ih (hs ++ [h]) (by simpa using hn)
    simp [C13.appendHeaders, hnot, this]

theorem applyGen_annotations :
    C13.applyGen minimalCtx (C13.Table.init []) .annotations = .ok { headers := tableHeader, rows := [] } := by
  have h := appendHeaders_of_nodup C13.mqAnnotationHeaders C13.baseHeaders tableHeader_nodup
  simp [C13.applyGen, C13.Gen.valid, C13.Gen.hdrs, C13.Table.init, h, bind, Except.bind, pure, Except.pure, tableHeader]

theorem tableHeader_length : tableHeader.length = 12 := by decide +kernel

/-- `renderTable` always succeeds on the shipped header lists, and writes the header line followed by the
    twelve cells of every row in order (the writer's header dict is the identity) -/
theorem renderTable_eq (ann : C19.Dict) (rows : List C06.RowData) :
    renderTable ann rows = .ok (tableHeader :: rows.map (fun d => (cliRow ann d).toList)) := by
  unfold renderTable
  rw [applyGen_annotations]
  simp only
  have hi : C13.Table.Inv { headers := tableHeader, rows := rows.map (cliRow ann) } := by
    refine ⟨⟨C13.mqAnnotationHeaders, rfl⟩, tableHeader_nodup, ?_⟩
    intro r hr
    obtain ⟨d, -, rfl⟩ := List.mem_map.mp hr
    simp [cliRow, tableHeader_length]
  have hw := C13.writeRecords_identity _ hi
  have hd : C13.Writer.minimal.headerDict minimalCtx { headers := tableHeader, rows := rows.map (cliRow ann) } =
      C13.dictOfPairs (tableHeader.map (fun x => (x, x))) := rfl
  rw [hd]
  simp only at hw
  rw [hw]
  simp

/-! ### set-up of the run with one method given -/

/-- what `setup` established -/
theorem setup_spec (inp : CliInput) (env : Env) (cfgs : List C18.Cfg) (h : setup inp = .ok (env, cfgs)) :
    C19.getAnnotations inp.fasta inp.containsDecoys inp.geneLevel inp.useUniprot = .ok (env.ann, env.usePseudo) ∧
    C18.parseAll Generated.methods env.usePseudo (inp.methods.map C18.MethodRef.builtin) = .ok cfgs ∧
    (cfgs.any C18.Cfg.needsMap = true →
      pepMaps inp.fasta inp.pepMapFiles inp.containsDecoys inp.geneLevel inp.useUniprot inp.dig env.usePseudo = .ok env.maps) ∧
    (cfgs.any C18.Cfg.needsMap = false → env.maps = []) := by
  unfold setup at h
  cases ha : C19.getAnnotations inp.fasta inp.containsDecoys inp.geneLevel inp.useUniprot with
  | error e => rw [ha] at h; simp at h
  | ok au =>
    obtain ⟨ann, u⟩ := au
    rw [ha] at h
    simp only at h
    cases hp : C18.parseAll Generated.methods u (inp.methods.map C18.MethodRef.builtin) with
    | error e => rw [hp] at h; simp at h
    | ok cs =>
      rw [hp] at h
      simp only at h
      cases hn : cs.any C18.Cfg.needsMap with
      | true =>
        rw [hn] at h
        simp only [if_true] at h
        cases hm : pepMaps inp.fasta inp.pepMapFiles inp.containsDecoys inp.geneLevel inp.useUniprot inp.dig u with
        | error e => rw [hm] at h; simp at h
        | ok maps =>
          rw [hm] at h
          simp only [Except.ok.injEq, Prod.mk.injEq] at h
          obtain ⟨rfl, rfl⟩ := h
          exact ⟨rfl, hp, fun _ => hm, by simp [hn]⟩
      | false =>
        rw [hn] at h
        simp only [Bool.false_eq_true, if_false, Except.ok.injEq, Prod.mk.injEq] at h
        obtain ⟨rfl, rfl⟩ := h
        exact ⟨rfl, hp, by simp [hn], fun _ => rfl⟩

/-- the set-up of the run with only method `i` given: same annotations, that method's configuration, and — if
    the method needs a map — the same maps -/
theorem setup_alone (inp : CliInput) (env : Env) (cfgs : List C18.Cfg) (h : setup inp = .ok (env, cfgs))
    (i : Nat) (name : String) (c : C18.Cfg) (hn : inp.methods[i]? = some name) (hc : cfgs[i]? = some c) :
    ∃ env', setup (inp.alone i) = .ok (env', [c]) ∧ env'.ann = env.ann ∧ env'.usePseudo = env.usePseudo ∧
      (c.needsMap = true → env'.maps = env.maps) := by
  obtain ⟨ha, hp, hm1, -⟩ := setup_spec inp env cfgs h
  obtain ⟨-, hall⟩ := parseAll_spec _ _ _ _ hp
  have hmi : (inp.methods.map C18.MethodRef.builtin)[i]? = some (.builtin name) := by
    simp [hn]
  obtain ⟨t, c', hr, hpm, hci⟩ := hall i _ hmi
  have hcc : c' = c := by rw [hc] at hci; exact (Option.some.inj hci).symm
  subst hcc
  have hps := parseAll_single Generated.methods env.usePseudo _ t c' hr hpm
  have hmeth : (inp.alone i).methods.map C18.MethodRef.builtin = [.builtin name] := by
    simp [CliInput.alone, hn]
  have hmem : c' ∈ cfgs := List.mem_of_getElem? hc
  unfold setup
  have ha' : C19.getAnnotations (inp.alone i).fasta (inp.alone i).containsDecoys (inp.alone i).geneLevel
      (inp.alone i).useUniprot = .ok (env.ann, env.usePseudo) := ha
  rw [ha']
  simp only
  rw [hmeth, hps]
  simp only [List.any_cons, List.any_nil, Bool.or_false]
  cases hnm : c'.needsMap with
  | true =>
    have hany : cfgs.any C18.Cfg.needsMap = true := List.any_eq_true.mpr ⟨c', hmem, hnm⟩
    have hm := hm1 hany
    have hm' : pepMaps (inp.alone i).fasta (inp.alone i).pepMapFiles (inp.alone i).containsDecoys (inp.alone i).geneLevel
        (inp.alone i).useUniprot (inp.alone i).dig env.usePseudo = .ok env.maps := hm
    simp only [if_true]
    rw [hm']
    exact ⟨_, rfl, rfl, rfl, fun _ => rfl⟩
  | false =>
    simp only [Bool.false_eq_true, if_false]
    exact ⟨_, rfl, rfl, rfl, by intro h; cases h⟩

/-! ### what the guarantees say about the table itself -/

/-- reported rows are in ranking order: further down the table the score does not increase and the q-value does
    not decrease (from the alignment, ranking and q-value guarantees) -/
theorem rows_sorted_of_guarantees (pc : Pipeline.Config) (G : C18.PipelineGuarantees pc) (inp : Pipeline.Input)
    (r : Pipeline.Result) (h : Pipeline.run pc inp = .ok r) :
    ∀ (k l : Nat) (a b : C06.RowData), k < l → r.rows[k]? = some a → r.rows[l]? = some b →
      b.score ≤ a.score ∧ a.qValue ≤ b.qValue := by
  intro k l a b hkl ha hb
  obtain ⟨idx, hpw, hlen, hal⟩ := G.alignment inp r h
  obtain ⟨-, -, hrank⟩ := G.ranking inp r h
  obtain ⟨-, -, -, -, -, hmono⟩ := G.qvalues inp r h
  have hl : l < r.rows.length := by
    rcases Nat.lt_or_ge l r.rows.length with h | h
    · exact h
    · rw [List.getElem?_eq_none_iff.mpr h] at hb; cases hb
  have hk : k < r.rows.length := Nat.lt_trans hkl hl
  have hki : k < idx.length := hlen ▸ hk
  have hli : l < idx.length := hlen ▸ hl
  have hij : idx[k] < idx[l] := (List.pairwise_iff_getElem.mp hpw) k l hki hli hkl
  obtain ⟨ra, xa, h1, h2, -, h3, h4, -⟩ := hal k idx[k] (List.getElem?_eq_getElem hki)
  obtain ⟨rb, xb, g1, g2, -, g3, g4, -⟩ := hal l idx[l] (List.getElem?_eq_getElem hli)
  rw [ha] at h1; rw [hb] at g1
  cases h1; cases g1
  constructor
  · have hi : idx[k] < (r.final.ranking.map (·.score)).length := by
      rw [List.length_map]
      rcases Nat.lt_or_ge idx[k] r.final.ranking.length with h | h
      · exact h
      · rw [List.getElem?_eq_none_iff.mpr h] at h2; cases h2
    have hj : idx[l] < (r.final.ranking.map (·.score)).length := by
      rw [List.length_map]
      rcases Nat.lt_or_ge idx[l] r.final.ranking.length with h | h
      · exact h
      · rw [List.getElem?_eq_none_iff.mpr h] at g2; cases g2
    have := (List.pairwise_iff_getElem.mp hrank) idx[k] idx[l] hi hj hij
    have e1 : (r.final.ranking.map (·.score))[idx[k]] = xa.score := by
      have := List.getElem?_eq_getElem hi
      rw [List.getElem?_map, h2] at this
      exact (Option.some.inj this).symm
    have e2 : (r.final.ranking.map (·.score))[idx[l]] = xb.score := by
      have := List.getElem?_eq_getElem hj
      rw [List.getElem?_map, g2] at this
      exact (Option.some.inj this).symm
    rw [e1, e2] at this
    rw [h3, g3]
    exact this
  · exact hmono idx[k] idx[l] _ _ (Nat.le_of_lt hij) h4 g4

/-- converse of `runMethod_table`: the facts under which a method writes its table -/
theorem runMethod_ok (inp : CliInput) (env : Env) (several : Bool) (name : String) (cfg : C18.Cfg) (rec : MethodRec)
    (pc : Pipeline.Config) (r : Pipeline.Result) (op : OutPath)
    (h1 : C18.runMethod (supplied inp) cfg = .ok ()) (h2 : C18.toPipelineConfig cfg = some pc)
    (h3 : Pipeline.run pc (pipelineInput inp (ingest inp env.maps cfg) rec) = .ok r) (h5 : inp.out = some op) :
    runMethod inp env several name cfg rec =
      .ok (some { method := name, file := C18.outputName several op.stem op.suffix cfg,
                  dir := if several then "" else op.dir, pil := ingest inp env.maps cfg, run := r, rows := r.rows,
                  records := tableHeader :: r.rows.map (fun d => (cliRow env.ann d).toList) }) := by
  unfold runMethod
  rw [h1]
  simp only
  rw [h2]
  simp only
  rw [h3]
  simp only
  rw [renderTable_eq, h5]

/-- a method whose pipeline call fails ends the run with that error -/
theorem runMethod_pipeline_error (inp : CliInput) (env : Env) (several : Bool) (name : String) (cfg : C18.Cfg)
    (rec : MethodRec) (pc : Pipeline.Config) (e : String)
    (h1 : C18.runMethod (supplied inp) cfg = .ok ()) (h2 : C18.toPipelineConfig cfg = some pc)
    (h3 : Pipeline.run pc (pipelineInput inp (ingest inp env.maps cfg) rec) = .error e) :
    runMethod inp env several name cfg rec = .error e := by
  unfold runMethod
  rw [h1]
  simp only
  rw [h2]
  simp only
  rw [h3]

/-! ### the missing-map refusal is raised only when neither `--fasta` nor `--peptide_protein_map` is given -/

theorem c09ErrTag_ne_missing (e : C09.Err) : c09ErrTag e ≠ C18.Err.missingFasta.tag := by
  cases e <;> decide

theorem mapsFor_error_ne_missing (parse : C09.ParseId) (files : List (List Str)) :
    ∀ (ps : List C09.Params) (e : String), mapsFor parse files ps = .error e → e ≠ C18.Err.missingFasta.tag := by
  intro ps
  induction ps with
  | nil => intro e h; simp [mapsFor] at h
  | cons p r ih =>
    intro e h
    unfold mapsFor at h
    cases h1 : C09.fromParams parse files [p] with
    | error e1 =>
      rw [h1] at h
      simp only [Except.error.injEq] at h
      subst h
      exact c09ErrTag_ne_missing e1
    | ok res =>
      rw [h1] at h
      simp only at h
      by_cases hne : res.2.isEmpty = true
      · simp only [hne, Bool.not_true, Bool.false_eq_true, if_false] at h
        cases h2 : mapsFor parse files r with
        | error e2 =>
          rw [h2] at h
          simp only [Except.error.injEq] at h
          subst h
          exact ih _ h2
        | ok ms => rw [h2] at h; simp at h
      · simp only [hne, Bool.not_false, if_true, Except.error.injEq] at h
        subst h
        decide

theorem readMaps_error_ne_missing :
    ∀ (ts : List Str) (e : String), readMaps ts = .error e → e ≠ C18.Err.missingFasta.tag := by
  intro ts
  induction ts with
  | nil => intro e h; simp [readMaps] at h
  | cons t r ih =>
    intro e h
    unfold readMaps at h
    cases h1 : C09.readMap t with
    | error e1 =>
      rw [h1] at h
      simp only [Except.error.injEq] at h
      subst h
      exact c09ErrTag_ne_missing e1
    | ok m =>
      rw [h1] at h
      simp only at h
      cases h2 : readMaps r with
      | error e2 =>
        rw [h2] at h
        simp only [Except.error.injEq] at h
        subst h
        exact ih _ h2
      | ok ms => rw [h2] at h; simp at h

/-- with `--fasta` or `--peptide_protein_map` given, whatever goes wrong while the maps are built is not the
    missing-map refusal (it is an unequal-length digestion flag list or a reader error of the files' content) -/
theorem pepMaps_error_ne_missing (fasta : Option (List (List Str))) (mapFiles : Option (List Str))
    (cd gl uu : Bool) (dig : Digestion) (u : Bool) (e : String)
    (hg : (hasFiles fasta || hasFiles mapFiles) = true)
    (h : pepMaps fasta mapFiles cd gl uu dig u = .error e) : e ≠ C18.Err.missingFasta.tag := by
  unfold pepMaps at h
  cases hd : digestionParamsList dig cd with
  | error e1 =>
    rw [hd] at h
    simp only [Except.error.injEq] at h
    subst h
    unfold digestionParamsList at hd
    simp only at hd
    split at hd
    · simp only [Except.error.injEq] at hd
      subst hd
      decide
    · cases hd
  | ok ps =>
    rw [hd] at h
    simp only at h
    match fasta, mapFiles, hg, h with
    | some (f :: fs), _, _, h => exact mapsFor_error_ne_missing _ _ ps e h
    | none, some (t :: ts), _, h => exact readMaps_error_ne_missing _ e h
    | some [], some (t :: ts), _, h => exact readMaps_error_ne_missing _ e h
    | none, none, hg, _ => simp [hasFiles] at hg
    | none, some [], hg, _ => simp [hasFiles] at hg
    | some [], none, hg, _ => simp [hasFiles] at hg
    | some [], some [], hg, _ => simp [hasFiles] at hg

/-- conversely, without either flag the maps are refused with the tool's `ValueError` (once the digestion flag
    lists are of equal length) -/
theorem pepMaps_missing (fasta : Option (List (List Str))) (mapFiles : Option (List Str))
    (cd gl uu : Bool) (dig : Digestion) (u : Bool) (ps : List C09.Params)
    (hd : digestionParamsList dig cd = .ok ps)
    (hg : (hasFiles fasta || hasFiles mapFiles) = false) :
    pepMaps fasta mapFiles cd gl uu dig u = .error C18.Err.missingFasta.tag := by
  unfold pepMaps
  rw [hd]
  simp only
  match fasta, mapFiles, hg with
  | some (f :: fs), _, hg => simp [hasFiles] at hg
  | none, some (t :: ts), hg => simp [hasFiles] at hg
  | some [], some (t :: ts), hg => simp [hasFiles] at hg
  | none, none, _ => rfl
  | none, some [], _ => rfl
  | some [], none, _ => rfl
  | some [], some [], _ => rfl

/-! ### the run with ONE method given, spelled out -/

/-- set-up of a run whose `--methods` names one shipped method: the annotations, the method's configuration under
    the run's pseudo-gene decision and — only if the method needs one — the peptide → protein maps -/
theorem setup_single (inp : CliInput) (name : String) (ann : C19.Dict) (u : Bool) (m : MethodToml) (cfg : C18.Cfg)
    (hm : inp.methods = [name])
    (ha : C19.getAnnotations inp.fasta inp.containsDecoys inp.geneLevel inp.useUniprot = .ok (ann, u))
    (hf : C18.findMethod Generated.methods name = .ok m) (hp : C18.parseMethod u m = .ok cfg) :
    setup inp =
      if cfg.needsMap then
        match pepMaps inp.fasta inp.pepMapFiles inp.containsDecoys inp.geneLevel inp.useUniprot inp.dig u with
        | .error e => .error e
        | .ok maps => .ok ({ ann := ann, usePseudo := u, maps := maps }, [cfg])
      else .ok ({ ann := ann, usePseudo := u, maps := [] }, [cfg]) := by
  have hps : C18.parseAll Generated.methods u (inp.methods.map C18.MethodRef.builtin) = .ok [cfg] := by
    rw [hm]
    exact parseAll_single Generated.methods u (.builtin name) m cfg hf hp
  unfold setup
  rw [ha]
  simp only
  rw [hps]
  simp only [List.any_cons, List.any_nil, Bool.or_false]
  rfl

/-- the outcome of a run with one method given, in an environment `setup` produced: that method's outcome -/
theorem cliOutcomes_single (inp : CliInput) (name : String) (env : Env) (cfg : C18.Cfg)
    (hm : inp.methods = [name]) (hs : setup inp = .ok (env, [cfg])) :
    cliOutcomes inp =
      match runMethod inp env false name cfg (inp.recs.getD 0 default) with
      | .error e => .error e
      | .ok o => .ok [o] := by
  have hitems : items inp [cfg] = [(name, cfg, inp.recs.getD 0 default)] := by
    simp [items, hm, recsFor]
  unfold cliOutcomes cliOutcome
  rw [hs]
  simp only
  rw [hitems]
  have hd : decide ([cfg].length > 1) = false := by simp
  rw [hd]
  cases hr : runMethod inp env false name cfg (inp.recs.getD 0 default) with
  | error e => simp only [loop, hr]
  | ok o => simp only [loop, hr]

/-- a run whose set-up fails ends with that error -/
theorem cliRun_setup_error (inp : CliInput) (e : String) (hs : setup inp = .error e) : cliRun inp = .error e := by
  unfold cliRun cliOutcomes cliOutcome
  rw [hs]

/-! ### a run of the command line that completes (non-vacuity of the theorems of `Props/C18.lean`)

`--methods savitski_no_remap,picked_protein_group_no_remap --perc_evidence pout.txt --protein_groups_out d/out.txt`
on a Percolator file with target peptide PEPA of protein `A` and decoy peptide PEPB of `REV__B`: the two methods
parse to the configurations of `Pipeline.demo_run1` / `Pipeline.demo_run2`, read the proteins from the file (no
FASTA), ingest the list `Pipeline.demoPil`, and write `out_savitski.txt` and `out_picked_protein_group_fdr.txt`. -/

def demoRec1 : MethodRec := { shuffles := [[0, 1], [0, 1]], scores1 := [3, 2] }
def demoRec2 : MethodRec :=
  { shuffles := [[0, 1], [0, 1], [0, 2, 1], [0, 1]], scores1 := [3, 2], scores2 := [3, 2, 3], rescueCutoff := some (1/100) }

def demoRun : CliInput :=
  { fasta := none, containsDecoys := false, geneLevel := false, useUniprot := false, dig := {},
    methods := ["savitski_no_remap", "picked_protein_group_no_remap"],
    mq := none,
    perc := some [[{ raw := { pep := "PEPA", mod := "", score := some (1/1000), prot := ["A"], decoy := false } },
                   { raw := { pep := "PEPB", mod := "", score := some (1/100), prot := ["REV__B"], decoy := false } }]],
    fragpipe := none, sage := none, diann := none, mokapot := false,
    thr := 1/100, psm := 1/100, keepAll := false, out := some { dir := "d", stem := "out", suffix := ".txt" },
    recs := [demoRec1, demoRec2] }

def demoCfgA : C18.Cfg :=
  { score := .bestPEP, origin := .perc, razor := false, withShared := false, grouping := .no, picked := .picked,
    label := "Savitski" }
def demoCfgB : C18.Cfg :=
  { score := .bestPEP, origin := .perc, razor := false, withShared := false, grouping := .rescuedSubset,
    picked := .pickedGroup, label := "Picked Protein Group FDR" }

def demoEnv : Env := { ann := [], usePseudo := false, maps := [] }

theorem demo_setup : setup demoRun = .ok (demoEnv, [demoCfgA, demoCfgB]) := by
  have hp : C18.parseAll Generated.methods false (demoRun.methods.map C18.MethodRef.builtin) =
      .ok [demoCfgA, demoCfgB] := by decide +kernel
  have hany : [demoCfgA, demoCfgB].any C18.Cfg.needsMap = false := by decide +kernel
  unfold setup
  have ha : C19.getAnnotations demoRun.fasta demoRun.containsDecoys demoRun.geneLevel demoRun.useUniprot =
      .ok ([], false) := rfl
  rw [ha]
  simp only
  rw [hp]
  simp only [hany]
  rfl

theorem demo_cli_run : ∃ t1 t2, cliRun demoRun = .ok [t1, t2] ∧
    t1.method = "savitski_no_remap" ∧ t1.file = "out_savitski.txt" ∧ t1.dir = "" ∧
    t2.method = "picked_protein_group_no_remap" ∧ t2.file = "out_picked_protein_group_fdr.txt" ∧
    t1.pil = Pipeline.demoPil ∧ t2.pil = Pipeline.demoPil ∧
    t1.rows = Pipeline.demoRows (1/2) 1 ∧ t2.rows = Pipeline.demoRows (1/2) 1 ∧ t2.run.pass2.isSome = true := by
  obtain ⟨r1, hr1, -, -, hrows1, -⟩ := Pipeline.demo_run1
  obtain ⟨r2, hr2, -, -, hrows2, -, hresc⟩ := Pipeline.demo_run2
  have hpil1 : ingest demoRun demoEnv.maps demoCfgA = Pipeline.demoPil := by decide +kernel
  have hpil2 : ingest demoRun demoEnv.maps demoCfgB = Pipeline.demoPil := by decide +kernel
  have hA := runMethod_ok demoRun demoEnv true "savitski_no_remap" demoCfgA demoRec1 Pipeline.demoCfg1 r1
    { dir := "d", stem := "out", suffix := ".txt" } (by decide +kernel) rfl (by rw [hpil1]; exact hr1) rfl
  have hB := runMethod_ok demoRun demoEnv true "picked_protein_group_no_remap" demoCfgB demoRec2 Pipeline.demoCfg2 r2
    { dir := "d", stem := "out", suffix := ".txt" } (by decide +kernel) rfl (by rw [hpil2]; exact hr2) rfl
  have hfA : C18.outputName true "out" ".txt" demoCfgA = "out_savitski.txt" := by decide +kernel
  have hfB : C18.outputName true "out" ".txt" demoCfgB = "out_picked_protein_group_fdr.txt" := by decide +kernel
  have hitems : items demoRun [demoCfgA, demoCfgB] =
      [("savitski_no_remap", demoCfgA, demoRec1), ("picked_protein_group_no_remap", demoCfgB, demoRec2)] := by
    rfl
  refine ⟨?t1, ?t2, ?run, ?rest⟩
  case run =>
    unfold cliRun cliOutcomes cliOutcome
    rw [demo_setup]
    simp only
    rw [hitems]
    have hs : decide ([demoCfgA, demoCfgB].length > 1) = true := by decide
    rw [hs]
    simp only [loop, hA, hB]
    rfl
  case rest =>
    refine ⟨rfl, hfA, rfl, rfl, hfB, hpil1, hpil2, hrows1, hrows2, ?_⟩
    simpa [Pipeline.Result.rescued] using hresc

end PgFdr.Cli
