import PgFdr.Proofs.CliQuant
import PgFdr.Proofs.C17

/-!
A quantification run of the command line that completes (non-vacuity of `cli_quant_columns_recompute`,
`cli_quant_no_row_twice`, `cli_quant_rows_are_cli_rows` in `Props/C12.lean`):

`--methods picked_protein_group_mq_input_no_remap --mq_evidence evidence.txt --fasta db.fasta --fasta_contains_decoys
 --min-length 4 --do_quant --skip_lfq --protein_groups_out d/out.txt`

on a database with target `A` (PEPAAAK) and decoy `REV__B` (PEPBAAK) and an evidence file with five rows: peptide PEPA
of `A` identified in experiment E1 (charge 2, PEP 0.001, intensity 100), matched between runs in E2 (no PEP, intensity
50), decoy peptide PEPB of `REV__B` (PEP 0.01, intensity 7), PEPA again with PEP 0.5 (intensity 11: the PSM at which
the running PEP mean crosses the level 0.01, so the cutoff is its PEP and it is itself inside) and PEPA with charge 3
and PEP 0.75 (above the cutoff, no identified sibling: dropped by the identified-precursor filter).  The inference is `Pipeline.demo_run2`; every other stage is
evaluated by the kernel (the `mergeSort` inside `C17.cutoff` is by-passed with `C17.sortAsc_of_sorted`).
-/
namespace PgFdr.CliQuant
open PgFdr.Cli

deriving instance DecidableEq for C17.PepVal
deriving instance DecidableEq for C12.Row
deriving instance DecidableEq for C12.GroupOut
deriving instance DecidableEq for C12.Output

def demoFasta : List (List C09.Str) :=
  [[">A".toList, "PEPAAAK".toList, ">REV__B".toList, "PEPBAAK".toList]]

def demoEv (pep : String) (score : Option Rat) (prot : String) : EvRow :=
  { raw := { pep := pep, mod := "", score := score, prot := [prot], decoy := false }, razorProt := prot }

def demoCells (id : Int) (z : Int) (e : String) (x : Rat) : QCells :=
  { id := id, charge := z, experiment := e, fraction := "-1", intensity := some x, silac := [], tmt := [] }

def demoCli : CliInput :=
  { fasta := some demoFasta, containsDecoys := true, geneLevel := false, useUniprot := false,
    dig := { minLength := [4] },
    methods := ["picked_protein_group_mq_input_no_remap"],
    mq := some [[demoEv "_PEPA_" (some (1/1000)) "A", demoEv "_PEPA_" none "A",
                 demoEv "_PEPB_" (some (1/100)) "REV__B", demoEv "_PEPA_" (some (1/2)) "A",
                 demoEv "_PEPA_" (some (3/4)) "A"]],
    perc := none, fragpipe := none, sage := none, diann := none, mokapot := false,
    thr := 1/100, psm := 1/100, keepAll := false, out := some { dir := "d", stem := "out", suffix := ".txt" },
    recs := [demoRec2] }

def demoQ : QuantInput :=
  { cli := demoCli, doQuant := true, skipLfq := true,
    cells := [[demoCells 0 2 "E1" 100, demoCells 1 2 "E2" 50, demoCells 2 2 "E1" 7, demoCells 3 2 "E1" 11,
               demoCells 4 3 "E1" 9]] }

def demoCfgQ : C18.Cfg :=
  { score := .bestPEP, origin := .mqNoRemap, razor := false, withShared := false, grouping := .rescuedSubset,
    picked := .pickedGroup, label := "Picked Protein Group FDR" }

/-- the annotations of the demonstration database -/
def demoAnn : C19.Dict :=
  match C19.getAnnotations demoCli.fasta demoCli.containsDecoys demoCli.geneLevel demoCli.useUniprot with
  | .ok (d, _) => d
  | .error _ => []

def demoEnvQ : Env := { ann := demoAnn, usePseudo := false, maps := [] }

theorem demo_setupQ : setup demoCli = .ok (demoEnvQ, [demoCfgQ]) := by
  have hp : C18.parseAll Generated.methods false (demoCli.methods.map C18.MethodRef.builtin) = .ok [demoCfgQ] := by
    decide +kernel
  have hany : [demoCfgQ].any C18.Cfg.needsMap = false := by decide +kernel
  have hu : (C19.getAnnotations demoCli.fasta demoCli.containsDecoys demoCli.geneLevel demoCli.useUniprot).toOption.map
      (·.2) = some false := by decide +kernel
  unfold setup
  cases ha : C19.getAnnotations demoCli.fasta demoCli.containsDecoys demoCli.geneLevel demoCli.useUniprot with
  | error e => rw [ha] at hu; simp [Except.toOption] at hu
  | ok au =>
    obtain ⟨ann, u⟩ := au
    rw [ha] at hu
    simp only [Except.toOption, Option.map_some, Option.some.injEq] at hu
    subst hu
    have hann : demoAnn = ann := by unfold demoAnn; rw [ha]
    simp only
    rw [hp]
    simp only [hany]
    rw [← hann]
    rfl

def demoOutPath : OutPath := { dir := "d", stem := "out", suffix := ".txt" }
def demoName : String := "picked_protein_group_mq_input_no_remap"

/-- the method's run up to the reported rows (`Pipeline.demo_run2`) -/
theorem demo_baseQ : ∃ b : CliTable,
    Cli.runMethod demoCli demoEnvQ false demoName demoCfgQ demoRec2 = .ok (some b) ∧
    b.rows = Pipeline.demoRows (1/2) 1 ∧ b.file = "out.txt" ∧ b.dir = "d" := by
  obtain ⟨r2, hr2, -, -, hrows2, -, -⟩ := Pipeline.demo_run2
  have hpil : ingest demoCli demoEnvQ.maps demoCfgQ = Pipeline.demoPil := by decide +kernel
  have h := runMethod_ok demoCli demoEnvQ false demoName demoCfgQ demoRec2 Pipeline.demoCfg2 r2 demoOutPath
    (by decide +kernel) rfl (by rw [hpil]; exact hr2) rfl
  have hf : C18.outputName false demoOutPath.stem demoOutPath.suffix demoCfgQ = "out.txt" := by decide +kernel
  exact ⟨_, h, hrows2, hf, rfl⟩

/-! ### the quantification of the demonstration run -/

def demoRow (id : Int) (pep : String) (z : Int) (e : String) (prot : String) (x : Rat) (pp : C17.PepVal) : C12.Row :=
  { id := id, peptide := pep, charge := z, experiment := e, fraction := "-1", leading := [prot], intensity := some x,
    pep := pp, silac := [], tmt := [] }

/-- the evidence rows as the quantification parser yields them -/
def demoQRows : List C12.Row :=
  [demoRow 0 "PEPA" 2 "E1" "A" 100 (.fin (1/1000)), demoRow 1 "PEPA" 2 "E2" "A" 50 .nan,
   demoRow 2 "PEPB" 2 "E1" "REV__B" 7 (.fin (1/100)), demoRow 3 "PEPA" 2 "E1" "A" 11 (.fin (1/2)),
   demoRow 4 "PEPA" 3 "E1" "A" 9 (.fin (3/4))]

def demoGroups : List (List String) := [["A"], ["REV__B"]]
def demoIbaq : List (String × Nat) := [("A", 1), ("REV__B", 1)]
def demoSeqs : C09.SeqMap := [("A".toList, "PEPAAAK".toList), ("REV__B".toList, "PEPBAAK".toList)]

theorem demo_rowsQ : evidenceRows demoQ demoEnvQ.maps demoCfgQ = demoQRows := by decide +kernel
theorem demo_groupsQ : (Pipeline.demoRows (1/2) 1).map groupOf = demoGroups := by decide +kernel
theorem demo_seqsQ : proteinSeqs (parseIdOf demoCli.geneLevel demoCli.useUniprot demoEnvQ.usePseudo)
    demoCli.containsDecoys demoCli.fasta = .ok demoSeqs := by decide +kernel
theorem demo_ibaqQ : ibaqNumbers (ibaqParse demoQ demoEnvQ.usePseudo) demoCli = .ok demoIbaq := by decide +kernel

/-- the PEP cutoff: the PEPs of the attached target rows are 1/1000, 1/2, 3/4; the running mean exceeds 1/100 at 1/2 -/
theorem demo_cutoffQ : C12.cutoffOf demoQRows demoGroups (1/100) = 1/2 := by
  have h : C17.finites ((C12.pepList demoQRows demoGroups).filter (fun p => !C12.isMbr p)) = [1/1000, 1/2, 3/4] := by
    decide +kernel
  unfold C12.cutoffOf C17.cutoff
  rw [h, C17.sortAsc_of_sorted _ (by decide +kernel)]
  decide +kernel

/-- the quantification for a given PEP cutoff -/
def demoOutAt (c : Rat) : C12.Output :=
  { experiments := C12.experiments demoQRows, nSilac := C12.nSilac demoQRows, nTmt := C12.nTmt demoQRows,
    peps := C12.pepList demoQRows demoGroups, cutoff := c,
    attached := (List.range demoGroups.length).map (C12.attached demoQRows demoGroups),
    groups := (C12.keptIdx demoQRows demoGroups).map (fun g =>
      C12.groupOut (C12.experiments demoQRows) 0 (C12.nTmt demoQRows) c demoIbaq (demoGroups.getD g [])
        (C12.retain c (C12.attached demoQRows demoGroups g))) }

theorem demo_quantifyQ : C12.quantify demoQRows demoGroups (1/100) demoIbaq = .ok (demoOutAt (1/2)) := by
  have hS : C12.silacChannels (C12.nSilac demoQRows) = .ok 0 := by decide +kernel
  have hq : C12.quantifyWith 0 demoQRows demoGroups (1/100) demoIbaq = demoOutAt (1/2) := by
    show demoOutAt (C12.cutoffOf demoQRows demoGroups (1/100)) = _
    rw [demo_cutoffQ]
  have hl : C12.layoutError 0 (demoOutAt (1/2)) = none := by decide +kernel
  unfold C12.quantify
  rw [hS]
  simp only [hq, C12.checked, hl]

def demoLines : List QLine :=
  quantLines (Pipeline.demoRows (1/2) 1) (C12.keptIdx demoQRows demoGroups) (demoOutAt (1/2)).groups

theorem demo_renderQ : (renderQuant (ctxOf (demoOutAt (1/2)))
    (demoLines.map (lineRow demoAnn demoSeqs (demoOutAt (1/2)).experiments (demoOutAt (1/2)).cutoff))).toOption.isSome = true := by
  decide +kernel

/-- the quantification branch of the demonstration run succeeds, with these parts -/
def demoPart : QuantPart :=
  { rows := demoQRows, groups := demoGroups, ibaq := demoIbaq, seqs := demoSeqs, out := demoOutAt (1/2), lines := demoLines }

theorem demo_quantPartQ : ∃ recs, quantPart demoQ demoEnvQ demoCfgQ (Pipeline.demoRows (1/2) 1) = .ok (demoPart, recs) := by
  cases hr : renderQuant (ctxOf (demoOutAt (1/2)))
      (demoLines.map (lineRow demoAnn demoSeqs (demoOutAt (1/2)).experiments (demoOutAt (1/2)).cutoff)) with
  | error e =>
    have := demo_renderQ
    rw [hr] at this
    simp [Except.toOption] at this
  | ok recs =>
    refine ⟨recs, ?_⟩
    have h3 : proteinSeqs (parseIdOf demoQ.cli.geneLevel demoQ.cli.useUniprot demoEnvQ.usePseudo)
        demoQ.cli.containsDecoys demoQ.cli.fasta = .ok demoSeqs := demo_seqsQ
    have h4 : ibaqNumbers (ibaqParse demoQ demoEnvQ.usePseudo) demoQ.cli = .ok demoIbaq := demo_ibaqQ
    have h5 : C12.quantify demoQRows demoGroups demoQ.cli.psm demoIbaq = .ok (demoOutAt (1/2)) := demo_quantifyQ
    have h6 : renderQuant (ctxOf (demoOutAt (1/2)))
        ((quantLines (Pipeline.demoRows (1/2) 1) (C12.keptIdx demoQRows demoGroups) (demoOutAt (1/2)).groups).map
          (lineRow demoEnvQ.ann demoSeqs (demoOutAt (1/2)).experiments (demoOutAt (1/2)).cutoff)) = .ok recs := hr
    unfold quantPart
    rw [if_neg (by decide), if_neg (by decide), h3]
    simp only
    rw [h4]
    simp only
    rw [demo_rowsQ, demo_groupsQ, h5]
    simp only
    rw [h6]
    rfl

/-- the demonstration command line completes and writes one quantification table -/
theorem demo_quant_run : ∃ t, quantRun demoQ = .ok [t] ∧ t.quant = some demoPart ∧
    t.base.rows = Pipeline.demoRows (1/2) 1 ∧ t.base.file = "out.txt" := by
  obtain ⟨b, hb, hrows, hfile, -⟩ := demo_baseQ
  obtain ⟨recs, hq⟩ := demo_quantPartQ
  have hm : runMethodQ demoQ demoEnvQ false demoName demoCfgQ demoRec2 =
      .ok (some { base := b, quant := some demoPart, records := recs }) := by
    unfold runMethodQ
    have hb' : Cli.runMethod demoQ.cli demoEnvQ false demoName demoCfgQ demoRec2 = .ok (some b) := hb
    rw [hb']
    simp only
    rw [if_pos (by decide), hrows, hq]
  refine ⟨{ base := b, quant := some demoPart, records := recs }, ?_, rfl, hrows, hfile⟩
  unfold quantRun quantOutcome
  have hs : setup demoQ.cli = .ok (demoEnvQ, [demoCfgQ]) := demo_setupQ
  rw [hs]
  have hitems : items demoQ.cli [demoCfgQ] = [(demoName, demoCfgQ, demoRec2)] := rfl
  simp only [hitems]
  have hsev : decide ([demoCfgQ].length > 1) = false := by decide
  rw [hsev]
  simp only [loopQ, hm]
  rfl

/-- the hypotheses of the theorems hold for it: uniform SILAC columns (no row has more than the first one) … -/
theorem demo_uniform : ∀ r ∈ C12.parsed demoPart.rows, (r.silac.length : Int) ≤ C12.nSilac demoPart.rows := by
  decide +kernel

/-- … and uniform reporter columns (none) -/
theorem demo_uniform_tmt : ∀ r ∈ C12.parsed demoPart.rows, (r.tmt.length : Int) = 3 * C12.nTmt demoPart.rows := by
  decide +kernel

/-- what the table says: both reported rows are written; the row of `A` sums PEPA over E1 (100 + 11; the charge-3
    precursor is dropped) and E2 (the match-between-runs row, 50), iBAQ = intensity / 1 -/
theorem demo_values : demoLines.map (·.g) = [0, 1] ∧
    demoLines.map (·.out.intens) = [[111, 50], [7, 0]] ∧ demoLines.map (·.out.total) = [161, 7] ∧
    demoLines.map (·.out.counts) = [[1, 1, 1], [1, 1, 0]] ∧
    demoLines.map (·.out.idType) = [["By MS/MS", "By matching"], ["By MS/MS", ""]] ∧
    demoLines.map (·.out.evidenceIds) = [[0, 1, 3], [2]] ∧
    demoLines.map (fun l => l.out.quants.map (·.id)) = [[0, 1, 3], [2]] := by
  decide +kernel

end PgFdr.CliQuant
