import Mathlib.Tactic.Linarith
import Mathlib.Tactic.Ring
import Mathlib.Data.Rat.Defs
import Mathlib.Data.List.Basic
import Mathlib.Data.List.Nodup
import Mathlib.Data.String.Basic
import Mathlib.Order.Basic
import PgFdr.Model.C12

/-! Helper lemmas for C12. -/
namespace PgFdr.C12
open PgFdr.C17 (PepVal)

/-! ### `lastIdx` (dict lookup) -/

theorem lastIdx_some {α : Type} (p : α → Bool) : ∀ (l : List α) (i : Nat),
    lastIdx p l = some i → ∃ a, l[i]? = some a ∧ p a = true := by
  intro l
  induction l with
  | nil => intro i h; simp [lastIdx] at h
  | cons a t ih =>
    intro i h
    simp only [lastIdx] at h
    cases ht : lastIdx p t with
    | some j =>
      rw [ht] at h
      obtain ⟨b, hb, hp⟩ := ih j ht
      have : i = j + 1 := by simpa using h.symm
      subst this
      exact ⟨b, by simpa using hb, hp⟩
    | none =>
      rw [ht] at h
      by_cases hpa : p a = true
      · simp [hpa] at h; subst h; exact ⟨a, by simp, hpa⟩
      · simp [hpa] at h

theorem lastIdx_none {α : Type} (p : α → Bool) : ∀ (l : List α),
    lastIdx p l = none ↔ ∀ a ∈ l, p a = false := by
  intro l
  induction l with
  | nil => simp [lastIdx]
  | cons a t ih =>
    simp only [lastIdx]
    cases ht : lastIdx p t with
    | some j =>
      simp only [reduceCtorEq, false_iff]
      intro hall
      have : lastIdx p t = none := ih.mpr (fun b hb => hall b (List.mem_cons_of_mem _ hb))
      rw [ht] at this; cases this
    | none =>
      have hall := ih.mp ht
      by_cases hpa : p a = true
      · simp [hpa]
      · have hpa' : p a = false := by simpa using hpa
        simp only [hpa', Bool.false_eq_true, if_false, true_iff]
        intro b hb
        rcases List.mem_cons.mp hb with rfl | hb
        · exact hpa'
        · exact hall b hb

/-- the last satisfying position is THE satisfying position when there is only one -/
theorem lastIdx_of_unique {α : Type} (p : α → Bool) : ∀ (l : List α) (i : Nat) (a : α),
    l[i]? = some a → p a = true → (∀ j b, l[j]? = some b → p b = true → j = i) →
    lastIdx p l = some i := by
  intro l i a hi hpa huniq
  cases h : lastIdx p l with
  | none =>
    have := (lastIdx_none p l).mp h a (List.mem_of_getElem? hi)
    rw [this] at hpa; cases hpa
  | some j =>
    obtain ⟨b, hb, hpb⟩ := lastIdx_some p l j h
    rw [huniq j b hb hpb]

theorem lastIdx_lt {α : Type} (p : α → Bool) (l : List α) (i : Nat) (h : lastIdx p l = some i) :
    i < l.length := by
  obtain ⟨a, ha, _⟩ := lastIdx_some p l i h
  by_contra hn
  rw [List.getElem?_eq_none (by omega)] at ha
  cases ha

/-! ### sets as duplicate-free lists -/

theorem setAdd_of_mem {α : Type} [BEq α] [LawfulBEq α] (s : List α) (x : α) (h : x ∈ s) :
    setAdd s x = s := by
  simp [setAdd, h]

theorem setAdd_of_not_mem {α : Type} [BEq α] [LawfulBEq α] (s : List α) (x : α) (h : x ∉ s) :
    setAdd s x = s ++ [x] := by
  simp [setAdd, h]

theorem mem_setAdd {α : Type} [BEq α] [LawfulBEq α] (s : List α) (x y : α) :
    y ∈ setAdd s x ↔ y ∈ s ∨ y = x := by
  by_cases h : x ∈ s
  · rw [setAdd_of_mem s x h]
    constructor
    · exact Or.inl
    · rintro (h1 | rfl)
      · exact h1
      · exact h
  · rw [setAdd_of_not_mem s x h]; simp

theorem nodup_setAdd {α : Type} [BEq α] [LawfulBEq α] (s : List α) (x : α) (hs : s.Nodup) :
    (setAdd s x).Nodup := by
  by_cases h : x ∈ s
  · rw [setAdd_of_mem s x h]; exact hs
  · rw [setAdd_of_not_mem s x h]
    rw [List.nodup_append]
    refine ⟨hs, by simp, ?_⟩
    intro a ha b hb
    simp at hb
    subst hb
    intro hab; subst hab; exact h ha

theorem foldl_setAdd {α β : Type} [BEq β] [LawfulBEq β] (f : α → β) : ∀ (l : List α) (s : List β),
    s.Nodup →
    (l.foldl (fun s a => setAdd s (f a)) s).Nodup ∧
    ∀ y, y ∈ l.foldl (fun s a => setAdd s (f a)) s ↔ y ∈ s ∨ ∃ a ∈ l, f a = y := by
  intro l
  induction l with
  | nil => intro s hs; simp [hs]
  | cons a t ih =>
    intro s hs
    simp only [List.foldl_cons]
    obtain ⟨h1, h2⟩ := ih (setAdd s (f a)) (nodup_setAdd s (f a) hs)
    refine ⟨h1, ?_⟩
    intro y
    rw [h2 y, mem_setAdd]
    constructor
    · rintro ((h | h) | ⟨b, hb, hy⟩)
      · exact Or.inl h
      · exact Or.inr ⟨a, by simp, h.symm⟩
      · exact Or.inr ⟨b, List.mem_cons_of_mem _ hb, hy⟩
    · rintro (h | ⟨b, hb, hy⟩)
      · exact Or.inl (Or.inl h)
      · rcases List.mem_cons.mp hb with rfl | hb
        · exact Or.inl (Or.inr hy.symm)
        · exact Or.inr ⟨b, hb, hy⟩

theorem eq_singleton_of_nodup {α : Type} (l : List α) (x : α) (hn : l.Nodup) (hne : l ≠ [])
    (hall : ∀ y ∈ l, y = x) : l = [x] := by
  match l, hn, hne, hall with
  | [a], _, _, hall => rw [hall a (by simp)]
  | a :: b :: t, hn, _, hall =>
    exfalso
    have ha := hall a (by simp)
    have hb := hall b (by simp)
    rw [List.nodup_cons] at hn
    exact hn.1 (by rw [ha, ← hb]; simp)

/-- the index set of a protein list is `{x}` iff the list is non-empty and every protein maps to `x` -/
theorem idxSet_eq_singleton (groups : List (List String)) (ps : List String) (x : Option Nat) :
    idxSet groups ps = [x] ↔ ps ≠ [] ∧ ∀ p ∈ ps, idxOf groups p = x := by
  unfold idxSet
  obtain ⟨hnd, hmem⟩ := foldl_setAdd (idxOf groups) ps [] List.nodup_nil
  constructor
  · intro h
    rw [h] at hmem
    constructor
    · intro hps; subst hps; simp at h
    · intro p hp
      have := (hmem (idxOf groups p)).mpr (Or.inr ⟨p, hp, rfl⟩)
      simpa using this
  · rintro ⟨hne, hall⟩
    apply eq_singleton_of_nodup _ _ hnd
    · obtain ⟨p, hp⟩ := List.exists_mem_of_ne_nil ps hne
      intro h0
      have := (hmem (idxOf groups p)).mpr (Or.inr ⟨p, hp, rfl⟩)
      rw [h0] at this; cases this
    · intro y hy
      rcases (hmem y).mp hy with h | ⟨p, hp, rfl⟩
      · cases h
      · exact hall p hp

theorem mem_attachTo (groups : List (List String)) (r : Row) (g : Nat) :
    g ∈ attachTo groups r ↔ idxSet groups (prots r) = [some g] := by
  unfold attachTo
  generalize idxSet groups (prots r) = s
  simp only
  match s with
  | [] => simp [isMissing]
  | [none] => simp [isMissing]
  | [some g'] =>
    simp [isMissing, isShared]
    exact eq_comm
  | a :: b :: t =>
    have h1 : isMissing (a :: b :: t) = false := by simp [isMissing]
    have h2 : isShared (a :: b :: t) = true := by simp [isShared]
    simp [h1, h2]


/-! ### attachment -/

theorem mem_parsed (rows : List Row) (r : Row) : r ∈ parsed rows ↔ r ∈ rows ∧ prots r ≠ [] := by
  unfold parsed
  rw [List.mem_filter]
  simp

theorem mem_attached (rows : List Row) (groups : List (List String)) (g : Nat) (r : Row) :
    r ∈ attached rows groups g ↔ r ∈ parsed rows ∧ idxSet groups (prots r) = [some g] := by
  unfold attached
  rw [List.mem_filter, List.contains_iff_mem, mem_attachTo]

/-! ### accumulating loops over flat lists -/

theorem length_addAt (l : List Rat) (i : Nat) (x : Rat) : (addAt l i x).length = l.length := by
  simp [addAt]

theorem getD_addAt (l : List Rat) (i : Nat) (x : Rat) (j : Nat) :
    (addAt l i x).getD j 0 = l.getD j 0 + (if i = j ∧ j < l.length then x else 0) := by
  unfold addAt
  rw [List.getD_eq_getElem?_getD, List.getD_eq_getElem?_getD, List.getElem?_modify]
  by_cases hj : j < l.length
  · rw [List.getElem?_eq_getElem hj]
    by_cases hij : i = j
    · simp [hij, hj]
    · simp [hij]
  · rw [List.getElem?_eq_none (by omega)]
    simp [hj]

theorem length_addFrom : ∀ (vs : List Rat) (l : List Rat) (i : Nat), (addFrom l i vs).length = l.length := by
  intro vs
  induction vs with
  | nil => intro l i; rfl
  | cons v vs ih => intro l i; simp [addFrom, ih, length_addAt]

theorem getD_addFrom : ∀ (vs : List Rat) (l : List Rat) (i j : Nat),
    (addFrom l i vs).getD j 0 =
      l.getD j 0 + (if i ≤ j ∧ j < l.length then vs.getD (j - i) 0 else 0) := by
  intro vs
  induction vs with
  | nil => intro l i j; simp [addFrom]
  | cons v vs ih =>
    intro l i j
    simp only [addFrom]
    rw [ih, getD_addAt, length_addAt]
    by_cases hj : j < l.length
    · by_cases hij : i = j
      · subst hij; simp [hj]
      · by_cases hlt : i < j
        · have h1 : i + 1 ≤ j := hlt
          have h2 : i ≤ j := by omega
          have h3 : j - i = (j - (i + 1)) + 1 := by omega
          simp [hij, hj, h1, h2, h3]
        · have h1 : ¬ (i + 1 ≤ j) := by omega
          have h2 : ¬ (i ≤ j) := by omega
          simp [hij, h1, h2]
    · simp [hj]

/-- what one precursor adds to slot `j` of a flat intensity list of length `n` -/
def contrib (exps : List String) (S : Nat) (c : Rat) (n : Nat) (q : Row) (j : Nat) : Rat :=
  match q.intensity with
  | none => 0
  | some x =>
    if used c q then
      match expIdx exps q.experiment with
      | some e => (if e * (1 + S) = j ∧ j < n then x else 0) +
          (if e * (1 + S) + 1 ≤ j ∧ j < n then q.silac.getD (j - (e * (1 + S) + 1)) 0 else 0)
      | none => 0
    else 0

theorem length_intensStep (exps : List String) (S : Nat) (c : Rat) (acc : List Rat) (q : Row) :
    (intensStep exps S c acc q).length = acc.length := by
  unfold intensStep
  cases q.intensity with
  | none => rfl
  | some x =>
    simp only
    split
    · split
      · simp [length_addFrom, length_addAt]
      · rfl
    · rfl

theorem getD_intensStep (exps : List String) (S : Nat) (c : Rat) (acc : List Rat) (q : Row) (j : Nat) :
    (intensStep exps S c acc q).getD j 0 = acc.getD j 0 + contrib exps S c acc.length q j := by
  unfold intensStep contrib
  cases q.intensity with
  | none => simp
  | some x =>
    simp only
    by_cases hu : used c q = true
    · simp only [hu, if_true]
      cases expIdx exps q.experiment with
      | none => simp
      | some e =>
        simp only
        rw [getD_addFrom, getD_addAt, length_addAt]
        ring
    · simp [hu]

theorem foldl_intensStep (exps : List String) (S : Nat) (c : Rat) (j : Nat) :
    ∀ (qs : List Row) (acc : List Rat),
      (qs.foldl (intensStep exps S c) acc).length = acc.length ∧
      (qs.foldl (intensStep exps S c) acc).getD j 0 =
        acc.getD j 0 + (qs.map (fun q => contrib exps S c acc.length q j)).sum := by
  intro qs
  induction qs with
  | nil => intro acc; simp
  | cons q qs ih =>
    intro acc
    simp only [List.foldl_cons, List.map_cons, List.sum_cons]
    obtain ⟨h1, h2⟩ := ih (intensStep exps S c acc q)
    rw [h1, h2, length_intensStep, getD_intensStep]
    exact ⟨rfl, by ring⟩

theorem sum_map_ite {α : Type} (l : List α) (P : α → Bool) (f : α → Rat) :
    (l.map (fun a => if P a then f a else 0)).sum = ((l.filter P).map f).sum := by
  induction l with
  | nil => rfl
  | cons a l ih =>
    by_cases h : P a = true
    · simp [h, ih]
    · simp [h, ih]

/-- channel `k` of a precursor: 0 = `Intensity`, `k+1` = SILAC channel `k` -/
def chan : Nat → Row → Rat
  | 0, q => q.intensity.getD 0
  | k + 1, q => q.silac.getD k 0

/-- the precursors `_get_intensities` adds into the slots of experiment position `e` -/
def counted (exps : List String) (c : Rat) (e : Nat) (q : Row) : Bool :=
  q.intensity.isSome && used c q && (expIdx exps q.experiment == some e)

theorem flat_index (m e e' k k' : Nat) (hk : k < m) (hk' : k' < m) (h : e' * m + k' = e * m + k) :
    e' = e ∧ k' = k := by
  have h1 : (e' * m + k') / m = e' := by
    rw [Nat.add_comm, Nat.add_mul_div_right _ _ (by omega), Nat.div_eq_of_lt hk']; simp
  have h2 : (e * m + k) / m = e := by
    rw [Nat.add_comm, Nat.add_mul_div_right _ _ (by omega), Nat.div_eq_of_lt hk]; simp
  have he : e' = e := by rw [← h1, ← h2, h]
  subst he
  exact ⟨rfl, by omega⟩

theorem contrib_slot (exps : List String) (S : Nat) (c : Rat) (q : Row) (e k : Nat)
    (he : e < exps.length) (hk : k ≤ S) (hs : q.silac.length ≤ S) :
    contrib exps S c (exps.length * (1 + S)) q (e * (1 + S) + k) =
      if counted exps c e q then chan k q else 0 := by
  have hj : e * (1 + S) + k < exps.length * (1 + S) := by
    have : (e + 1) * (1 + S) ≤ exps.length * (1 + S) := Nat.mul_le_mul_right _ he
    rw [Nat.add_mul] at this
    omega
  unfold contrib counted
  cases hq : q.intensity with
  | none => simp
  | some x =>
    simp only [Option.isSome_some, Bool.true_and]
    by_cases hu : used c q = true
    · simp only [hu, if_true, Bool.true_and]
      cases hx : expIdx exps q.experiment with
      | none => simp
      | some e' =>
        simp only [hj, and_true]
        by_cases hee : e' = e
        · subst hee
          cases k with
          | zero => simp [chan, hq]
          | succ k =>
            have h1 : ¬ (e' * (1 + S) = e' * (1 + S) + (k + 1)) := by omega
            have h2 : e' * (1 + S) + 1 ≤ e' * (1 + S) + (k + 1) := by omega
            have h3 : e' * (1 + S) + (k + 1) - (e' * (1 + S) + 1) = k := by omega
            simp [h2, h3, chan]
        · have hne : (some e' == some e) = false := by simpa using hee
          simp only [hne, Bool.false_eq_true, if_false]
          have h1 : ¬ (e' * (1 + S) = e * (1 + S) + k) := by
            intro h
            have := flat_index (1 + S) e e' k 0 (by omega) (by omega) (by omega)
            exact hee this.1
          simp only [h1, if_false, zero_add]
          by_cases hlt : e' < e
          · have h2 : (e' + 1) * (1 + S) ≤ e * (1 + S) := Nat.mul_le_mul_right _ hlt
            rw [Nat.add_mul] at h2
            have h3 : q.silac.length ≤ e * (1 + S) + k - (e' * (1 + S) + 1) := by omega
            rw [List.getD_eq_getElem?_getD, List.getElem?_eq_none h3]
            simp
          · have h2 : (e + 1) * (1 + S) ≤ e' * (1 + S) := Nat.mul_le_mul_right _ (by omega)
            rw [Nat.add_mul] at h2
            have h3 : ¬ (e' * (1 + S) + 1 ≤ e * (1 + S) + k) := by omega
            simp [h3]
    · simp [hu]


/-! ### `l[::n+1]` -/

theorem strideAux_drop {α : Type} (n : Nat) : ∀ (l : List α) (k : Nat),
    strideAux n k l = strideAux n 0 (l.drop k) := by
  intro l
  induction l with
  | nil => intro k; simp [strideAux]
  | cons a t ih =>
    intro k
    cases k with
    | zero => simp
    | succ k => simp only [strideAux, List.drop_succ_cons]; exact ih k

theorem stride_cons {α : Type} (n : Nat) (a : α) (t : List α) :
    stride n (a :: t) = a :: stride n (t.drop n) := by
  unfold stride
  simp only [strideAux]
  rw [strideAux_drop]

theorem stride_eq (n : Nat) : ∀ (E : Nat) (l : List Rat), l.length = E * (n + 1) →
    stride n l = (List.range E).map (fun e => l.getD (e * (n + 1)) 0) := by
  intro E
  induction E with
  | zero =>
    intro l hl
    have : l = [] := List.eq_nil_of_length_eq_zero (by simpa using hl)
    subst this; rfl
  | succ E ih =>
    intro l hl
    match l, hl with
    | [], hl => simp [Nat.add_mul] at hl
    | a :: t, hl =>
      rw [stride_cons, List.range_succ_eq_map, List.map_cons, List.map_map]
      have hlen : (t.drop n).length = E * (n + 1) := by
        rw [List.length_drop]
        simp only [List.length_cons, Nat.add_mul] at hl
        omega
      rw [ih _ hlen]
      congr 1
      · simp
      · apply List.map_congr_left
        intro e _
        simp only [Function.comp, List.getD_eq_getElem?_getD, List.getElem?_drop]
        have : (e + 1) * (n + 1) = (n + e * (n + 1)) + 1 := by rw [Nat.add_mul]; omega
        rw [this, List.getElem?_cons_succ]


/-! ### identified-precursor filter -/

theorem mem_retain (c : Rat) (quants : List Row) (q : Row) :
    q ∈ retain c quants ↔ q ∈ quants ∧
      ∃ q' ∈ quants, q'.peptide = q.peptide ∧ q'.charge = q.charge ∧ leCut q'.pep c = true := by
  unfold retain
  simp only [List.mem_filter, List.contains_iff_mem, List.mem_filterMap]
  constructor
  · rintro ⟨h1, q', hq', h2⟩
    refine ⟨h1, q', hq', ?_⟩
    by_cases hl : leCut q'.pep c = true
    · simp only [hl, if_true, Option.some.injEq, Prod.mk.injEq] at h2
      exact ⟨h2.1, h2.2, hl⟩
    · simp [hl] at h2
  · rintro ⟨h1, q', hq', hp, hz, hl⟩
    exact ⟨h1, q', hq', by simp [hl, hp, hz]⟩

/-! ### unique peptide sets -/

/-- the precursors whose peptide is added to set `j` (0 = combined, `e+1` = experiment position `e`) -/
def hit (exps : List String) (c : Rat) : Nat → Row → Bool
  | 0, q => used c q
  | e + 1, q => used c q && (expIdx exps q.experiment == some e)

theorem length_countsStep (exps : List String) (c : Rat) (acc : List (List String)) (q : Row) :
    (countsStep exps c acc q).length = acc.length := by
  unfold countsStep
  split
  · simp only
    split <;> simp
  · rfl

theorem getElem?_countsStep (exps : List String) (c : Rat) (acc : List (List String)) (q : Row) (j : Nat) :
    (countsStep exps c acc q)[j]? =
      (acc[j]?).map (fun s => if hit exps c j q then setAdd s q.peptide else s) := by
  unfold countsStep
  by_cases hu : used c q = true
  · simp only [hu, if_true]
    cases hx : expIdx exps q.experiment with
    | none =>
      simp only
      rw [List.getElem?_modify]
      cases j with
      | zero => cases acc[0]? <;> simp [hit, hu]
      | succ j => cases acc[j+1]? <;> simp [hit, hu, hx]
    | some e =>
      simp only
      rw [List.getElem?_modify, List.getElem?_modify]
      cases j with
      | zero => cases acc[0]? <;> simp [hit, hu]
      | succ j =>
        by_cases hej : e = j
        · subst hej; cases acc[e+1]? <;> simp [hit, hu, hx]
        · have : (some e == some j) = false := by simpa using hej
          cases acc[j+1]? <;> simp [hit, hu, hx, hej]
  · have hu' : used c q = false := by simpa using hu
    have : hit exps c j q = false := by cases j <;> simp [hit, hu']
    simp [hu', this]

theorem foldl_countsStep (exps : List String) (c : Rat) (j : Nat) : ∀ (qs : List Row) (acc : List (List String)),
    (qs.foldl (countsStep exps c) acc)[j]? =
      (acc[j]?).map (fun s => (qs.filter (hit exps c j)).foldl (fun s q => setAdd s q.peptide) s) := by
  intro qs
  induction qs with
  | nil => intro acc; simp
  | cons q qs ih =>
    intro acc
    simp only [List.foldl_cons]
    rw [ih, getElem?_countsStep]
    cases acc[j]? with
    | none => rfl
    | some s =>
      by_cases h : hit exps c j q = true
      · simp [h]
      · simp [h]

theorem peptideSets_slot (exps : List String) (c : Rat) (quants : List Row) (j : Nat) (hj : j < exps.length + 1) :
    ∃ s : List String, (peptideSets exps c quants)[j]? = some s ∧ s.Nodup ∧
      ∀ y, y ∈ s ↔ ∃ q ∈ quants.filter (hit exps c j), q.peptide = y := by
  unfold peptideSets
  rw [foldl_countsStep, List.getElem?_replicate]
  simp only [hj, if_true, Option.map_some]
  obtain ⟨h1, h2⟩ := foldl_setAdd (fun q : Row => q.peptide) (quants.filter (hit exps c j)) [] List.nodup_nil
  refine ⟨_, rfl, h1, ?_⟩
  intro y
  rw [h2 y]
  simp

/-! ### identification type -/

/-- closed form of the slot of `_identification_type_per_experiment` -/
def idSem (init : String) (ms mb : Bool) : String :=
  if ms then byMsms else if init == byMsms then byMsms else if mb then byMatching else init

theorem length_idStep (exps : List String) (c : Rat) (acc : List String) (q : Row) :
    (idStep exps c acc q).length = acc.length := by
  unfold idStep
  split
  · split
    · simp
    · split <;> simp
  · rfl

theorem leCut_of_mbr (p : PepVal) (c : Rat) (h : isMbr p = true) : leCut p c = false := by
  cases p <;> simp_all [isMbr, leCut]

theorem foldl_idStep (exps : List String) (c : Rat) (e : Nat) : ∀ (qs : List Row) (acc : List String),
    e < acc.length →
    (qs.foldl (idStep exps c) acc).getD e "" =
      idSem (acc.getD e "")
        (qs.any (fun q => (expIdx exps q.experiment == some e) && leCut q.pep c))
        (qs.any (fun q => (expIdx exps q.experiment == some e) && isMbr q.pep)) := by
  intro qs
  induction qs with
  | nil => intro acc _; simp [idSem]
  | cons q qs ih =>
    intro acc he
    simp only [List.foldl_cons, List.any_cons]
    rw [ih _ (by rw [length_idStep]; exact he)]
    generalize (qs.any fun q => (expIdx exps q.experiment == some e) && leCut q.pep c) = ms
    generalize (qs.any fun q => (expIdx exps q.experiment == some e) && isMbr q.pep) = mb
    have hne : (byMatching == byMsms) = false := by decide
    unfold idStep
    cases hx : expIdx exps q.experiment with
    | none => simp
    | some e' =>
      simp only
      by_cases hee : e' = e
      · subst hee
        simp only [beq_self_eq_true, Bool.true_and]
        by_cases hm : isMbr q.pep = true
        · have hl := leCut_of_mbr q.pep c hm
          have hset1 : (acc.set e' byMatching).getD e' "" = byMatching := by
            simp [List.getD_eq_getElem?_getD, he]
          by_cases ha : (acc.getD e' "" != byMsms) = true
          · simp only [hm, ha, Bool.and_self, if_true, hl, Bool.false_or, Bool.true_or]
            rw [hset1]
            have ha' : acc.getD e' "" ≠ byMsms := by simpa using ha
            generalize acc.getD e' "" = a0 at ha'
            have hne2 : byMatching ≠ byMsms := by decide
            cases ms <;> cases mb <;> simp [idSem, hne2, ha']
          · simp only [hm, ha, Bool.and_false, hl, Bool.false_eq_true, if_false, Bool.false_or,
              Bool.true_or]
            have ha' : acc.getD e' "" = byMsms := by simpa using ha
            rw [ha']
            cases ms <;> cases mb <;> simp [idSem]
        · have hm' : isMbr q.pep = false := by simpa using hm
          simp only [hm', Bool.false_and, Bool.false_eq_true, if_false, Bool.false_or]
          by_cases hl : leCut q.pep c = true
          · simp only [hl, if_true, Bool.true_or]
            have : (acc.set e' byMsms).getD e' "" = byMsms := by
              simp [List.getD_eq_getElem?_getD, he]
            rw [this]
            cases ms <;> cases mb <;> simp [idSem]
          · simp [hl]
      · have hne' : (some e' == some e) = false := by simpa using hee
        simp only [hne', Bool.false_and, Bool.false_or]
        have hset : ∀ v, (acc.set e' v).getD e "" = acc.getD e "" := by
          intro v
          simp [List.getD_eq_getElem?_getD, hee]
        split
        · rw [hset]
        · split
          · rw [hset]
          · rfl

/-! ### evidence ids -/

theorem insertInt_perm (x : Int) : ∀ l : List Int, (insertInt x l).Perm (x :: l) := by
  intro l
  induction l with
  | nil => exact List.Perm.refl _
  | cons y t ih =>
    simp only [insertInt]
    split
    · exact List.Perm.refl _
    · exact ((List.Perm.cons y ih).trans (List.Perm.swap x y t))

theorem insertInt_sorted (x : Int) : ∀ l : List Int, l.Pairwise (· ≤ ·) → (insertInt x l).Pairwise (· ≤ ·) := by
  intro l
  induction l with
  | nil => intro _; simp [insertInt]
  | cons y t ih =>
    intro h
    simp only [insertInt]
    have ⟨hy, ht⟩ := List.pairwise_cons.mp h
    split
    · rename_i hxy
      refine List.pairwise_cons.mpr ⟨?_, h⟩
      intro z hz
      rcases List.mem_cons.mp hz with rfl | hz
      · exact hxy
      · exact le_trans hxy (hy z hz)
    · rename_i hxy
      refine List.pairwise_cons.mpr ⟨?_, ih ht⟩
      intro z hz
      rcases List.mem_cons.mp ((insertInt_perm x t).subset hz) with rfl | hz
      · omega
      · exact hy z hz

theorem sortInts_perm : ∀ l : List Int, (sortInts l).Perm l := by
  intro l
  induction l with
  | nil => exact List.Perm.refl _
  | cons x t ih =>
    simp only [sortInts, List.foldr_cons]
    exact (insertInt_perm x _).trans (List.Perm.cons x ih)

theorem sortInts_sorted : ∀ l : List Int, (sortInts l).Pairwise (· ≤ ·) := by
  intro l
  induction l with
  | nil => simp [sortInts]
  | cons x t ih =>
    simp only [sortInts, List.foldr_cons]
    exact insertInt_sorted x _ ih


/-! ### sums over a partition (nothing lost, nothing counted twice) -/

theorem sum_indicator (n : Nat) (q : Nat → Bool) (v : Rat)
    (huniq : ∀ i j, q i = true → q j = true → i = j) :
    ((List.range n).map (fun i => if q i then v else 0)).sum =
      if (List.range n).any q then v else 0 := by
  induction n with
  | zero => simp
  | succ n ih =>
    rw [List.range_succ, List.map_append, List.sum_append, ih, List.any_append]
    simp only [List.map_cons, List.map_nil, List.sum_cons, List.sum_nil, add_zero,
      List.any_cons, List.any_nil, Bool.or_false]
    by_cases hq : q n = true
    · have hnone : (List.range n).any q = false := by
        rw [List.any_eq_false]
        intro i hi hqi
        have := huniq i n hqi hq
        simp at hi; omega
      simp [hq, hnone]
    · have hq' : q n = false := by simpa using hq
      simp [hq']

theorem sum_map_add_rat {α : Type} (l : List α) (f g : α → Rat) :
    (l.map (fun a => f a + g a)).sum = (l.map f).sum + (l.map g).sum := by
  induction l with
  | nil => simp
  | cons a l ih => simp only [List.map_cons, List.sum_cons, ih]; ring

/-- summing a per-element quantity over the parts `l.filter (sel i)`, `i < n`, of a list gives the
    sum over the elements that lie in some part, when no element lies in two parts -/
theorem sum_partition {α : Type} (sel : Nat → α → Bool)
    (huniq : ∀ a i j, sel i a = true → sel j a = true → i = j) (f : α → Rat) (n : Nat) :
    ∀ l : List α,
      ((List.range n).map (fun i => ((l.filter (sel i)).map f).sum)).sum =
        ((l.filter (fun a => (List.range n).any (fun i => sel i a))).map f).sum := by
  intro l
  induction l with
  | nil =>
    have : ∀ m : Nat, (List.replicate m (0 : Rat)).sum = 0 := by
      intro m; induction m with
      | zero => rfl
      | succ m ih => simp [List.replicate_succ, ih]
    simp [this]
  | cons a l ih =>
    have hstep : ∀ i, (((a :: l).filter (sel i)).map f).sum =
        (if sel i a then f a else 0) + ((l.filter (sel i)).map f).sum := by
      intro i
      by_cases hs : sel i a = true
      · simp [hs]
      · have hs' : sel i a = false := by simpa using hs
        simp [hs']
    have hsum : ((List.range n).map (fun i => (((a :: l).filter (sel i)).map f).sum)).sum =
        ((List.range n).map (fun i => if sel i a then f a else 0)).sum +
        ((List.range n).map (fun i => ((l.filter (sel i)).map f).sum)).sum := by
      rw [← sum_map_add_rat]
      congr 1
      apply List.map_congr_left
      intro i _; exact hstep i
    rw [hsum, ih, sum_indicator n (fun i => sel i a) (f a) (fun i j hi hj => huniq a i j hi hj)]
    by_cases hu : (List.range n).any (fun i => sel i a) = true
    · simp [hu]
    · have hu' : (List.range n).any (fun i => sel i a) = false := by simpa using hu
      simp [hu']

/-- dropping parts that contribute nothing does not change the sum -/
theorem sum_filter_of_zero (l : List Nat) (P : Nat → Bool) (f : Nat → Rat)
    (h : ∀ i, P i = false → f i = 0) : ((l.filter P).map f).sum = (l.map f).sum := by
  induction l with
  | nil => rfl
  | cons a l ih =>
    by_cases hp : P a = true
    · simp [hp, ih]
    · have hp' : P a = false := by simpa using hp
      simp [hp', ih, h a hp']

/-! ### the experiment list -/

theorem mem_insertSorted (x y : String) : ∀ l : List String, y ∈ insertSorted x l ↔ y = x ∨ y ∈ l := by
  intro l
  induction l with
  | nil => simp [insertSorted]
  | cons z t ih =>
    simp only [insertSorted]
    split
    · simp
    · split
      · rename_i hxz
        subst hxz
        simp
      · simp only [List.mem_cons, ih]
        tauto

theorem mem_sortedSet (y : String) : ∀ l : List String, y ∈ sortedSet l ↔ y ∈ l := by
  intro l
  induction l with
  | nil => simp [sortedSet]
  | cons x t ih =>
    simp only [sortedSet, List.foldr_cons] at ih ⊢
    rw [mem_insertSorted, ih]
    simp

theorem expIdx_of_mem (exps : List String) (e : String) (h : e ∈ exps) :
    ∃ i, expIdx exps e = some i ∧ i < exps.length := by
  unfold expIdx
  cases hx : lastIdx (fun x => x == e) exps with
  | none =>
    have := (lastIdx_none _ exps).mp hx e h
    simp at this
  | some i => exact ⟨i, rfl, lastIdx_lt _ _ _ hx⟩

theorem expIdx_parsed (rows : List Row) (r : Row) (h : r ∈ parsed rows) :
    ∃ i, expIdx (experiments rows) r.experiment = some i ∧ i < (experiments rows).length := by
  apply expIdx_of_mem
  unfold experiments
  rw [mem_sortedSet]
  exact List.mem_map.mpr ⟨r, h, rfl⟩

/-! ### summed intensity of a group -/

theorem length_intensities (exps : List String) (S : Nat) (c : Rat) (quants : List Row) :
    (intensities exps S c quants).length = exps.length * (1 + S) := by
  unfold intensities
  rw [(foldl_intensStep exps S c 0 quants _).1]
  simp

theorem intensities_slot (exps : List String) (S : Nat) (c : Rat) (quants : List Row) (e k : Nat)
    (he : e < exps.length) (hk : k ≤ S) (hs : ∀ q ∈ quants, q.silac.length ≤ S) :
    (intensities exps S c quants).getD (e * (1 + S) + k) 0 =
      ((quants.filter (counted exps c e)).map (chan k)).sum := by
  unfold intensities
  rw [(foldl_intensStep exps S c (e * (1 + S) + k) quants _).2, ← sum_map_ite]
  have h0 : (List.replicate (exps.length * (1 + S)) (0 : Rat)).getD (e * (1 + S) + k) 0 = 0 := by
    rw [List.getD_eq_getElem?_getD, List.getElem?_replicate]
    split <;> rfl
  rw [h0, zero_add]
  congr 1
  apply List.map_congr_left
  intro q hq
  rw [List.length_replicate]
  exact contrib_slot exps S c q e k he hk (hs q hq)

theorem counted_unique (exps : List String) (c : Rat) (q : Row) (i j : Nat)
    (hi : counted exps c i q = true) (hj : counted exps c j q = true) : i = j := by
  unfold counted at hi hj
  simp only [Bool.and_eq_true, beq_iff_eq] at hi hj
  have := hi.2.symm.trans hj.2
  simpa using this

/-- the total intensity of a group is the sum over its used precursors with an intensity -/
theorem totalOf_intensities (exps : List String) (S : Nat) (c : Rat) (quants : List Row)
    (hs : ∀ q ∈ quants, q.silac.length ≤ S)
    (hexp : ∀ q ∈ quants, ∃ i, expIdx exps q.experiment = some i ∧ i < exps.length) :
    totalOf S (intensities exps S c quants) =
      ((quants.filter (fun q => q.intensity.isSome && used c q)).map (chan 0)).sum := by
  unfold totalOf
  have hlen : (intensities exps S c quants).length = exps.length * (S + 1) := by
    rw [length_intensities, Nat.add_comm]
  rw [stride_eq S exps.length _ hlen]
  have h1 : (List.range exps.length).map (fun e => (intensities exps S c quants).getD (e * (S + 1)) 0) =
      (List.range exps.length).map (fun e => ((quants.filter (counted exps c e)).map (chan 0)).sum) := by
    apply List.map_congr_left
    intro e he
    have he' : e < exps.length := by simpa using he
    have := intensities_slot exps S c quants e 0 he' (Nat.zero_le _) hs
    rw [Nat.add_zero, Nat.add_comm 1 S] at this
    exact this
  rw [h1, sum_partition (fun e q => counted exps c e q) (fun q i j => counted_unique exps c q i j)]
  congr 1
  apply congrArg
  apply List.filter_congr
  intro q hq
  obtain ⟨i, hi, hlt⟩ := hexp q hq
  by_cases hb : (q.intensity.isSome && used c q) = true
  · rw [hb]
    rw [List.any_eq_true]
    exact ⟨i, by simpa using hlt, by simp only [counted, hb, hi]; simp⟩
  · have hb' : (q.intensity.isSome && used c q) = false := by simpa using hb
    rw [hb', List.any_eq_false]
    intro e _
    simp [counted, hb']


/-! ### conservation over all groups -/

/-- some PSM of the same peptide and charge in `quants` passes the cutoff -/
def identifiedIn (c : Rat) (quants : List Row) (r : Row) : Bool :=
  quants.any (fun q => q.peptide == r.peptide && q.charge == r.charge && leCut q.pep c)

theorem retain_eq_filter (c : Rat) (quants : List Row) :
    retain c quants = quants.filter (identifiedIn c quants) := by
  unfold retain
  apply List.filter_congr
  intro q _
  rw [Bool.eq_iff_iff]
  simp only [List.contains_iff_mem, List.mem_filterMap, identifiedIn, List.any_eq_true,
    Bool.and_eq_true, beq_iff_eq]
  constructor
  · rintro ⟨q', hq', h⟩
    by_cases hl : leCut q'.pep c = true
    · simp only [hl, if_true, Option.some.injEq, Prod.mk.injEq] at h
      exact ⟨q', hq', ⟨h.1, h.2⟩, hl⟩
    · simp [hl] at h
  · rintro ⟨q', hq', ⟨hp, hz⟩, hl⟩
    exact ⟨q', hq', by simp [hl, hp, hz]⟩

/-- evidence row `r` enters the summed intensity of reported group `g`: it is attached to `g`,
    a PSM of its peptide and charge in `g` passes the cutoff, it carries an intensity and is itself
    a match-between-runs row or within the cutoff -/
def entersGroup (rows : List Row) (groups : List (List String)) (c : Rat) (g : Nat) (r : Row) : Bool :=
  ((attachTo groups r).contains g && identifiedIn c (attached rows groups g) r) &&
    (r.intensity.isSome && used c r)

/-- evidence row `r` enters the summed intensity of some reported group -/
def rowCounted (rows : List Row) (groups : List (List String)) (c : Rat) (r : Row) : Bool :=
  (List.range groups.length).any (fun g => entersGroup rows groups c g r)

theorem entersGroup_unique (rows : List Row) (groups : List (List String)) (c : Rat) (r : Row) (i j : Nat)
    (hi : entersGroup rows groups c i r = true) (hj : entersGroup rows groups c j r = true) : i = j := by
  unfold entersGroup at hi hj
  simp only [Bool.and_eq_true, List.contains_iff_mem] at hi hj
  have h1 := (mem_attachTo groups r i).mp hi.1.1
  have h2 := (mem_attachTo groups r j).mp hj.1.1
  rw [h1] at h2
  simpa using h2

theorem group_total (S : Nat) (rows : List Row) (groups : List (List String)) (c : Rat) (g : Nat)
    (hS : ∀ r ∈ parsed rows, r.silac.length ≤ S) :
    totalOf S (intensities (experiments rows) S c (retain c (attached rows groups g))) =
      (((parsed rows).filter (entersGroup rows groups c g)).map (chan 0)).sum := by
  have hsub : ∀ q ∈ retain c (attached rows groups g), q ∈ parsed rows := by
    intro q hq
    exact ((mem_attached rows groups g q).mp ((mem_retain c _ q).mp hq).1).1
  rw [totalOf_intensities _ S c _ (fun q hq => hS q (hsub q hq))
    (fun q hq => expIdx_parsed rows q (hsub q hq))]
  rw [retain_eq_filter]
  conv_lhs => rw [attached]
  rw [List.filter_filter, List.filter_filter]
  congr 2
  apply List.filter_congr
  intro r _
  simp only [entersGroup, attached, Bool.and_assoc, Bool.and_comm, Bool.and_left_comm]

theorem quantifyWith_totals (S : Nat) (rows : List Row) (groups : List (List String)) (level : Rat)
    (ibaq : List (String × Nat)) :
    (quantifyWith S rows groups level ibaq).groups.map (·.total) =
      (keptIdx rows groups).map (fun g => totalOf S (intensities (experiments rows) S
        (cutoffOf rows groups level) (retain (cutoffOf rows groups level) (attached rows groups g)))) := by
  simp [quantifyWith, groupOut, Function.comp_def]


/-! ### TMT reporter sums -/

/-- for equal shapes the numpy add is the element-wise one (the broadcast branch coincides with it) -/
theorem vecAdd_eq_zipWith (a b : List Rat) (h : a.length = b.length) :
    vecAdd a b = List.zipWith (· + ·) a b := by
  unfold vecAdd
  split
  · rename_i x
    match a, h with
    | [y], _ => rfl
  · rfl

theorem length_vecAdd (a b : List Rat) (h : a.length = b.length) : (vecAdd a b).length = a.length := by
  simp [vecAdd_eq_zipWith a b h, h]

/-- the broadcast branch: a right operand of length 1 is added to every position -/
theorem vecAdd_singleton (a : List Rat) (x : Rat) : vecAdd a [x] = a.map (· + x) := rfl

theorem getD_vecAdd (a b : List Rat) (k : Nat) (h : a.length = b.length) :
    (vecAdd a b).getD k 0 = a.getD k 0 + b.getD k 0 := by
  rw [vecAdd_eq_zipWith a b h]
  simp only [List.getD_eq_getElem?_getD, List.getElem?_zipWith]
  by_cases hk : k < a.length
  · rw [List.getElem?_eq_getElem hk, List.getElem?_eq_getElem (h ▸ hk)]
    simp
  · rw [List.getElem?_eq_none (by omega), List.getElem?_eq_none (by omega)]
    simp

theorem foldl_tmtStep (exps : List String) (c : Rat) (n e k : Nat) : ∀ (qs : List Row) (acc : List (List Rat)),
    (∀ v ∈ acc, v.length = n) → (∀ q ∈ qs, q.tmt.length = n) → e < acc.length →
    (qs.foldl (tmtStep exps c) acc).length = acc.length ∧
    (∀ v ∈ qs.foldl (tmtStep exps c) acc, v.length = n) ∧
    ((qs.foldl (tmtStep exps c) acc).getD e []).getD k 0 =
      (acc.getD e []).getD k 0 +
        (qs.map (fun q => if used c q && (expIdx exps q.experiment == some e) then q.tmt.getD k 0 else 0)).sum := by
  intro qs
  induction qs with
  | nil => intro acc hacc _ _; exact ⟨rfl, hacc, by simp⟩
  | cons q qs ih =>
    intro acc hacc hq he
    simp only [List.foldl_cons, List.map_cons, List.sum_cons]
    have hqn : q.tmt.length = n := hq q (by simp)
    have hstep_len : (tmtStep exps c acc q).length = acc.length := by
      unfold tmtStep
      split
      · split <;> simp
      · rfl
    have hstep_rows : ∀ v ∈ tmtStep exps c acc q, v.length = n := by
      intro v hv
      unfold tmtStep at hv
      split at hv
      · split at hv
        · rename_i e' _
          obtain ⟨i, hi⟩ := List.getElem?_of_mem hv
          rw [List.getElem?_modify] at hi
          cases hai : acc[i]? with
          | none => rw [hai] at hi; simp at hi
          | some a =>
            rw [hai] at hi
            have ha : a.length = n := hacc a (List.mem_of_getElem? hai)
            by_cases hei : e' = i
            · simp only [hei, if_true, Option.map_eq_map, Option.map_some, Option.some.injEq] at hi
              rw [← hi, length_vecAdd _ _ (by rw [ha, hqn]), ha]
            · simp only [hei, if_false, Option.map_eq_map, Option.map_some, Option.some.injEq] at hi
              rw [← hi, ha]
        · exact hacc v hv
      · exact hacc v hv
    have hstep_val : ((tmtStep exps c acc q).getD e []).getD k 0 =
        (acc.getD e []).getD k 0 +
          (if used c q && (expIdx exps q.experiment == some e) then q.tmt.getD k 0 else 0) := by
      unfold tmtStep
      by_cases hu : used c q = true
      · simp only [hu, if_true, Bool.true_and]
        cases hx : expIdx exps q.experiment with
        | none => simp
        | some e' =>
          simp only [List.getD_eq_getElem?_getD, List.getElem?_modify]
          rw [List.getElem?_eq_getElem he]
          have hae : (acc[e]).length = n := hacc _ (List.getElem_mem he)
          by_cases hee : e' = e
          · subst hee
            simp only [if_true, Option.getD_some, beq_self_eq_true]
            have := getD_vecAdd acc[e'] q.tmt k (by rw [hae, hqn])
            simpa [List.getD_eq_getElem?_getD] using this
          · have hne : (some e' == some e) = false := by simpa using hee
            simp [hee, hne]
      · have hu' : used c q = false := by simpa using hu
        simp [hu']
    obtain ⟨h1, h2, h3⟩ := ih (tmtStep exps c acc q) hstep_rows
      (fun q' hq' => hq q' (List.mem_cons_of_mem _ hq')) (by rw [hstep_len]; exact he)
    refine ⟨by rw [h1, hstep_len], h2, ?_⟩
    rw [h3, hstep_val]
    ring

theorem getD_flatten (n : Nat) : ∀ (vs : List (List Rat)) (e k : Nat),
    (∀ v ∈ vs, v.length = n) → e < vs.length → k < n →
    vs.flatten.getD (e * n + k) 0 = (vs.getD e []).getD k 0 := by
  intro vs
  induction vs with
  | nil => intro e k _ he _; simp at he
  | cons v t ih =>
    intro e k hall he hk
    have hv : v.length = n := hall v (by simp)
    cases e with
    | zero =>
      simp only [List.flatten_cons, Nat.zero_mul, Nat.zero_add, List.getD_eq_getElem?_getD,
        List.getElem?_cons_zero, Option.getD_some]
      rw [List.getElem?_append_left (by omega)]
    | succ e =>
      simp only [List.flatten_cons, List.getD_eq_getElem?_getD, List.getElem?_cons_succ]
      have hidx : (e + 1) * n + k = v.length + (e * n + k) := by rw [hv, Nat.add_mul]; omega
      rw [hidx, List.getElem?_append_right (by omega), Nat.add_sub_cancel_left]
      have := ih e k (fun w hw => hall w (List.mem_cons_of_mem _ hw)) (by simpa using he) hk
      simpa [List.getD_eq_getElem?_getD] using this

/-! ### the experiment list is strictly increasing -/

theorem insertSorted_sorted (x : String) : ∀ l : List String,
    l.Pairwise (· < ·) → (insertSorted x l).Pairwise (· < ·) := by
  intro l
  induction l with
  | nil => intro _; simp [insertSorted]
  | cons y t ih =>
    intro h
    have ⟨hy, ht⟩ := List.pairwise_cons.mp h
    simp only [insertSorted]
    split
    · rename_i hxy
      refine List.pairwise_cons.mpr ⟨?_, h⟩
      intro z hz
      rcases List.mem_cons.mp hz with rfl | hz
      · exact hxy
      · exact lt_trans hxy (hy z hz)
    · split
      · exact h
      · rename_i hxy hne
        have hyx : y < x := lt_of_le_of_ne (not_lt.mp hxy) (Ne.symm hne)
        refine List.pairwise_cons.mpr ⟨?_, ih ht⟩
        intro z hz
        rcases (mem_insertSorted x z t).mp hz with rfl | hz
        · exact hyx
        · exact hy z hz

theorem sortedSet_sorted : ∀ l : List String, (sortedSet l).Pairwise (· < ·) := by
  intro l
  induction l with
  | nil => simp [sortedSet]
  | cons x t ih =>
    simp only [sortedSet, List.foldr_cons] at ih ⊢
    exact insertSorted_sorted x _ ih

/-! ### the cutoff is the C17 cutoff of the PEP list -/

theorem finites_filter_not_mbr : ∀ l : List PepVal,
    C17.finites (l.filter (fun p => !isMbr p)) = C17.finites l := by
  intro l
  induction l with
  | nil => rfl
  | cons p t ih =>
    rw [List.filter_cons]
    cases p with
    | nan =>
      have : (!isMbr PepVal.nan) = false := rfl
      simp only [this, Bool.false_eq_true, if_false, C17.finites]
      exact ih
    | inf =>
      have : (!isMbr PepVal.inf) = true := rfl
      simp only [this, if_true, C17.finites]
      exact ih
    | fin q =>
      have : (!isMbr (PepVal.fin q)) = true := rfl
      simp only [this, if_true, C17.finites]
      rw [ih]

/-! ### evidence files with different SILAC / reporter columns -/

/-- every slot of the flat intensity list, WITHOUT any hypothesis on the SILAC lists: what each precursor adds
    (`contrib`: its `Intensity` to slot `e*(1+S)`, its `k`-th SILAC value to slot `e*(1+S)+1+k` — which is a slot
    of a later experiment when the precursor has more SILAC values than `S`) -/
theorem intensities_slot_general (exps : List String) (S : Nat) (c : Rat) (quants : List Row) (j : Nat) :
    (intensities exps S c quants).getD j 0 =
      (quants.map (fun q => contrib exps S c (exps.length * (1 + S)) q j)).sum := by
  unfold intensities
  rw [(foldl_intensStep exps S c j quants _).2, List.length_replicate]
  have h0 : (List.replicate (exps.length * (1 + S)) (0 : Rat)).getD j 0 = 0 := by
    rw [List.getD_eq_getElem?_getD, List.getElem?_replicate]
    split <;> rfl
  rw [h0, zero_add]

/-- a precursor with at most `S` SILAC values never makes `_get_intensities` raise -/
theorem silacRaises_false_of_le (exps : List String) (S : Nat) (c : Rat) (q : Row) (h : q.silac.length ≤ S) :
    silacRaises exps S c q = false := by
  unfold silacRaises
  cases hx : expIdx exps q.experiment with
  | none => simp
  | some e =>
    have he : e < exps.length := lastIdx_lt _ exps e hx
    have h1 : (e + 1) * (1 + S) ≤ exps.length * (1 + S) := Nat.mul_le_mul_right _ he
    rw [Nat.add_mul] at h1
    have h2 : ¬ (exps.length * (1 + S) ≤ e * (1 + S) + q.silac.length) := by omega
    simp [h2]

/-- a precursor with exactly `3*T` reporter values never makes `_get_tmt_intensities` raise -/
theorem tmtRaises_false_of_eq (exps : List String) (T : Nat) (c : Rat) (q : Row) (h : q.tmt.length = 3 * T) :
    tmtRaises exps T c q = false := by
  simp [tmtRaises, h]

/-- no layout refusal when no identified precursor of a written group has more SILAC values than `S` and (with
    reporter channels) all of them carry `3*T` reporter values -/
theorem layoutError_eq_none (S : Nat) (o : Output)
    (hs : ∀ g ∈ o.groups, ∀ q ∈ g.quants, q.silac.length ≤ S)
    (ht : o.nTmt > 0 → ∀ g ∈ o.groups, ∀ q ∈ g.quants, q.tmt.length = 3 * o.nTmt.toNat) :
    layoutError S o = none := by
  unfold layoutError
  have h1 : o.groups.any (fun g => g.quants.any (silacRaises o.experiments S o.cutoff)) = false := by
    rw [List.any_eq_false]
    intro g hg
    rw [Bool.not_eq_true, List.any_eq_false]
    intro q hq
    rw [silacRaises_false_of_le _ _ _ _ (hs g hg q hq)]
    simp
  rw [h1]
  simp only [Bool.false_eq_true, if_false]
  by_cases hT : o.nTmt > 0
  · have h2 : o.groups.any (fun g => g.quants.any (tmtRaises o.experiments o.nTmt.toNat o.cutoff)) = false := by
      rw [List.any_eq_false]
      intro g hg
      rw [Bool.not_eq_true, List.any_eq_false]
      intro q hq
      rw [tmtRaises_false_of_eq _ _ _ _ (ht hT g hg q hq)]
      simp
    rw [h2]
    simp
  · simp [hT]

theorem checked_ok (S : Nat) (o o' : Output) : checked S o = .ok o' ↔ layoutError S o = none ∧ o' = o := by
  unfold checked
  cases layoutError S o with
  | some e => simp
  | none => simp only [Except.ok.injEq, true_and]; exact eq_comm

end PgFdr.C12
