import PgFdr.Model.C12

/-! Helper lemmas for C12. -/
namespace PgFdr.C12

end PgFdr.C12
