import PgFdr.Model.C09Maps
import PgFdr.Proofs.C09

/-! Helper lemmas for the list of per-parameter-set maps (`Model/C09Maps.lean`): the list builder as a pointwise
image, the database as the image of the target records under `yieldRecords`, broadcasting of argument lists. -/
namespace PgFdr.C09
open PgFdr.Generated PgFdr.C08

deriving instance DecidableEq for Params

/-! ## the list builder is the pointwise image of the parameter list -/

/-- two lists of the same length whose elements are related position by position -/
inductive Pointwise {α β : Type} (R : α → β → Prop) : List α → List β → Prop where
  | nil : Pointwise R [] []
  | cons {a : α} {b : β} {l : List α} {m : List β} : R a b → Pointwise R l m → Pointwise R (a :: l) (b :: m)

theorem pepMaps_ok_iff (parse : ParseId) (files : List (List Str)) (groups : Option (List (List Str))) :
    ∀ (ps : List Params) (ms : List (PMap × SeqMap)),
      pepMaps parse files groups ps = .ok ms ↔
        Pointwise (fun p m => mapOf parse files groups p = .ok m) ps ms := by
  intro ps
  induction ps with
  | nil =>
    intro ms
    simp only [pepMaps, Except.ok.injEq]
    constructor
    · intro h; subst h; exact .nil
    · intro h; cases h; rfl
  | cons p ps ih =>
    intro ms
    simp only [pepMaps]
    constructor
    · intro h
      split at h
      · cases h
      · rename_i m hm
        split at h
        · cases h
        · rename_i ms' hms
          simp only [Except.ok.injEq] at h
          subst h
          exact .cons hm ((ih ms').mp hms)
    · intro h
      cases h with
      | cons hm hrest =>
        rw [hm]
        simp only
        rw [(ih _).mpr hrest]

theorem readMaps_ok_iff : ∀ (ts : List Str) (ms : List (PMap × SeqMap)),
    readMaps ts = .ok ms ↔ Pointwise (fun t m => ∃ pm, readMap t = .ok pm ∧ m = (pm, [])) ts ms := by
  intro ts
  induction ts with
  | nil =>
    intro ms
    simp only [readMaps, Except.ok.injEq]
    constructor
    · intro h; subst h; exact .nil
    · intro h; cases h; rfl
  | cons t ts ih =>
    intro ms
    simp only [readMaps]
    constructor
    · intro h
      split at h
      · cases h
      · rename_i m hm
        split at h
        · cases h
        · rename_i ms' hms
          simp only [Except.ok.injEq] at h
          subst h
          exact .cons ⟨m, hm, rfl⟩ ((ih ms').mp hms)
    · intro h
      cases h with
      | cons hm hrest =>
        obtain ⟨pm, hpm, rfl⟩ := hm
        rw [hpm]
        simp only
        rw [(ih _).mpr hrest]

theorem pointwise_length {α β : Type} {R : α → β → Prop} : ∀ {l : List α} {m : List β}, Pointwise R l m →
    l.length = m.length
  | _, _, .nil => rfl
  | _, _, .cons _ h => by simp [pointwise_length h]

theorem pointwise_get {α β : Type} {R : α → β → Prop} : ∀ {l : List α} {m : List β}, Pointwise R l m →
    ∀ (i : Nat) (a : α), l[i]? = some a → ∃ b, m[i]? = some b ∧ R a b
  | _, _, .nil, i, a, h => by simp at h
  | _, _, .cons hab h, 0, a, ha => by
    simp only [List.getElem?_cons_zero, Option.some.injEq] at ha
    subst ha
    exact ⟨_, by simp, hab⟩
  | _, _, .cons _ h, i + 1, a, ha => by
    simp only [List.getElem?_cons_succ] at ha ⊢
    exact pointwise_get h i a ha

/-- the error of the list is the error of the first failing parameter set -/
theorem pepMaps_error_iff (parse : ParseId) (files : List (List Str)) (groups : Option (List (List Str))) (e : Err) :
    ∀ (ps : List Params), pepMaps parse files groups ps = .error e ↔
      ∃ pre p post, ps = pre ++ p :: post ∧ (∀ q ∈ pre, ∃ m, mapOf parse files groups q = .ok m) ∧
        mapOf parse files groups p = .error e := by
  intro ps
  induction ps with
  | nil =>
    simp [pepMaps]
  | cons p ps ih =>
    simp only [pepMaps]
    constructor
    · intro h
      split at h
      · rename_i e' he
        simp only [Except.error.injEq] at h
        subst h
        exact ⟨[], p, ps, rfl, by simp, he⟩
      · rename_i m hm
        split at h
        · rename_i e' he
          simp only [Except.error.injEq] at h
          subst h
          obtain ⟨pre, q, post, hps, hpre, hq⟩ := ih.mp he
          refine ⟨p :: pre, q, post, by simp [hps], ?_, hq⟩
          intro x hx
          rcases List.mem_cons.mp hx with rfl | hx
          · exact ⟨m, hm⟩
          · exact hpre x hx
        · cases h
    · rintro ⟨pre, q, post, hps, hpre, hq⟩
      cases pre with
      | nil =>
        simp only [List.nil_append, List.cons.injEq] at hps
        obtain ⟨rfl, rfl⟩ := hps
        rw [hq]
      | cons x pre =>
        simp only [List.cons_append, List.cons.injEq] at hps
        obtain ⟨rfl, rfl⟩ := hps
        obtain ⟨m, hm⟩ := hpre p (by simp)
        rw [hm]
        simp only
        have : pepMaps parse files groups (pre ++ q :: post) = .error e :=
          ih.mpr ⟨pre, q, post, rfl, fun y hy => hpre y (List.mem_cons_of_mem _ hy), hq⟩
        rw [this]

/-- a permutation of the parameter sets permutes the (parameter set, map) pairs in the same way -/
theorem pepMaps_perm (parse : ParseId) (files : List (List Str)) (groups : Option (List (List Str)))
    {ps ps' : List Params} (hp : ps.Perm ps') :
    ∀ ms, pepMaps parse files groups ps = .ok ms →
      ∃ ms', pepMaps parse files groups ps' = .ok ms' ∧ (ps.zip ms).Perm (ps'.zip ms') := by
  induction hp with
  | nil =>
    intro ms h
    exact ⟨ms, h, List.Perm.refl _⟩
  | cons p _ ih =>
    intro ms h
    rw [pepMaps_ok_iff] at h
    cases h with
    | cons hm hrest =>
      obtain ⟨ms', hms', hperm⟩ := ih _ ((pepMaps_ok_iff _ _ _ _ _).mpr hrest)
      refine ⟨_ :: ms', (pepMaps_ok_iff _ _ _ _ _).mpr (.cons hm ((pepMaps_ok_iff _ _ _ _ _).mp hms')), ?_⟩
      simpa using hperm
  | swap p q l =>
    intro ms h
    rw [pepMaps_ok_iff] at h
    cases h with
    | cons hq hrest =>
      cases hrest with
      | cons hp' hrest =>
        rename_i mq mp ml
        refine ⟨mp :: mq :: ml, (pepMaps_ok_iff _ _ _ _ _).mpr (.cons hp' (.cons hq hrest)), ?_⟩
        simp only [List.zip_cons_cons]
        exact List.Perm.swap _ _ _
  | trans _ _ ih1 ih2 =>
    intro ms h
    obtain ⟨ms1, h1, p1⟩ := ih1 ms h
    obtain ⟨ms2, h2, p2⟩ := ih2 ms1 h1
    exact ⟨ms2, h2, p1.trans p2⟩

/-! ## the database is the image of the TARGET records under `yieldRecords` -/

theorem yieldRecords_target (sp : List Char) (nm s : Str) : yieldRecords .target sp nm s = [(nm, s)] := by
  simp [yieldRecords]

/-- one line: the state evolves independently of the database mode and the special residues; the records
    yielded are the image of the target-mode records -/
theorem readStep_split (db : Db) (sp : List Char) (parse : ParseId) (st : RState) (line : Str) :
    readStep db sp parse st line =
      match readStep .target [] parse st line with
      | .error e => .error e
      | .ok (out, st') => .ok (out.flatMap (fun x => yieldRecords db sp x.1 x.2), st') := by
  unfold readStep
  by_cases hl : line.head? == some '>'
  · simp only [hl, if_true]
    cases hn : truthy st.name with
    | none =>
      simp only
      by_cases h1 : line.length > 1 <;> simp [h1]
    | some nm =>
      simp only
      by_cases h1 : line.length > 1 <;> simp [h1, yieldRecords_target]
  · simp only [hl]
    cases st.buf with
    | lines l => simp
    | str s => simp

theorem readGo_split (db : Db) (sp : List Char) (parse : ParseId) : ∀ (lines : List Str) (st : RState),
    readGo db sp parse st lines =
      (((readGo .target [] parse st lines).1.flatMap (fun x => yieldRecords db sp x.1 x.2)),
        (readGo .target [] parse st lines).2) := by
  intro lines
  induction lines with
  | nil => intro st; simp [readGo]
  | cons raw rest ih =>
    intro st
    simp only [readGo]
    rw [readStep_split db sp parse st (rstrip raw)]
    cases h : readStep .target [] parse st (rstrip raw) with
    | error e => simp
    | ok r =>
      obtain ⟨out, st'⟩ := r
      simp only
      rw [ih st']
      simp [List.flatMap_append]

/-- the records of a file under any database mode and special-residue setting: what `yieldRecords` makes of
    each target record, in order; the error that stops the reader does not depend on either -/
theorem readFasta_split (db : Db) (sp : List Char) (parse : ParseId) (lines : List Str) :
    readFasta db sp parse lines =
      (((readFasta .target [] parse lines).1.flatMap (fun x => yieldRecords db sp x.1 x.2)),
        (readFasta .target [] parse lines).2) := by
  unfold readFasta
  exact readGo_split db sp parse _ _

/-- the target records of several files: file order, record order -/
def targetRecords (parse : ParseId) (files : List (List Str)) : List (Str × Str) :=
  files.flatMap (fun f => (readFasta .target [] parse f).1)

theorem dbRecords_split (parse : ParseId) (p : Params) (files : List (List Str)) :
    dbRecords parse p files =
      (targetRecords parse files).flatMap (fun x => yieldRecords p.db p.special x.1 x.2) := by
  unfold dbRecords targetRecords
  induction files with
  | nil => rfl
  | cons f files ih =>
    simp only [List.flatMap_cons, List.flatMap_append]
    rw [ih, readFasta_split p.db p.special parse f]

/-- the digest of a sequence does not look at the special residues, the database mode or the identifier rule -/
theorem keysOf_argsOf_special (r : EnzymeRule) (p : Params) (parse : ParseId) (s : List Char) (seq : Str) :
    keysOf (argsOf r { p with special := s } parse) seq = keysOf (argsOf r p parse) seq := rfl

theorem mapRecords_special (a : MapArgs) (s : List Char) : ∀ (recs : List (Str × Str)) (acc : PMap × SeqMap),
    mapRecords { a with special := s } recs acc = mapRecords a recs acc := by
  intro recs
  induction recs with
  | nil => intro acc; rfl
  | cons x recs ih =>
    intro acc
    obtain ⟨pid, seq⟩ := x
    obtain ⟨m, sm⟩ := acc
    simp only [mapRecords]
    cases digestPeptides a.rule seq a.minL a.maxL a.mode a.mc a.met with
    | error e => rfl
    | ok peps => exact ih _

/-- a target-only database does not depend on the special residues at all -/
theorem pepMapSingle_target_special (parse : ParseId) (p : Params) (hdb : p.db = .target) (s : List Char)
    (lines : List Str) : pepMapSingle parse { p with special := s } lines = pepMapSingle parse p lines := by
  unfold pepMapSingle
  simp only
  cases lookupEnzyme p.enzyme with
  | none => rfl
  | some r =>
    simp only [pepMapFile, hdb]
    rw [readFasta_split .target s parse lines, readFasta_split .target p.special parse lines]
    simp only [yieldRecords_target]
    have h := mapRecords_special ⟨r, .target, p.minL, p.maxL, modeOf p.digestion, p.mc, p.met, p.useHash, p.special,
      parse⟩ s
    simp only at h
    rw [h]

theorem fromParamsGo_target_special (parse : ParseId) (p : Params) (hdb : p.db = .target) (s : List Char) :
    ∀ (files : List (List Str)) (acc : PMap × SeqMap),
      fromParamsGo parse (files.map (fun f => (f, { p with special := s }))) acc =
        fromParamsGo parse (files.map (fun f => (f, p))) acc := by
  intro files
  induction files with
  | nil => intro acc; rfl
  | cons f files ih =>
    intro acc
    obtain ⟨m, sm⟩ := acc
    simp only [List.map_cons, fromParamsGo, pepMapSingle_target_special parse p hdb s f]
    cases pepMapSingle parse p f with
    | error e => rfl
    | ok r =>
      obtain ⟨tm, tsm⟩ := r
      exact ih _

theorem fromParams_target_special (parse : ParseId) (files : List (List Str)) (p : Params) (hdb : p.db = .target)
    (s : List Char) : fromParams parse files [{ p with special := s }] = fromParams parse files [p] := by
  unfold fromParams
  rw [jobs_one, jobs_one]
  exact fromParamsGo_target_special parse p hdb s files _

/-! ## broadcasting of the argument lists -/

/-- the value the `i`-th parameter set takes from an option list: the single value if only one was given -/
def pick {α : Type} (l : List α) (i : Nat) : Option α :=
  match l with
  | [x] => some x
  | l => l[i]?

theorem bcast_length_one {α : Type} (n : Nat) (l : List α) (h : l.length = 1) : (bcast n l).length = n := by
  match l, h with
  | [x], _ => simp [bcast]

theorem bcast_of_length_ne_one {α : Type} (n : Nat) (l : List α) (h : l.length ≠ 1) : bcast n l = l := by
  match l, h with
  | [], _ => rfl
  | [x], h => simp at h
  | _ :: _ :: _, _ => rfl

theorem bcast_get {α : Type} (n : Nat) (l : List α) (i : Nat) (hi : i < n) (hl : l.length = 1 ∨ l.length = n) :
    (bcast n l)[i]? = pick l i := by
  match l, hl with
  | [x], _ => simp [bcast, pick, hi]
  | [], _ => simp [bcast, pick]
  | _ :: _ :: _, _ => simp [bcast, pick]

theorem zipParams_get (e d : List String) (mn mx c : List Nat) (s : List String) (b : List Bool) (i : Nat) :
    (zipParams e d mn mx c s b)[i]? =
      (do let x1 ← e[i]?; let x2 ← d[i]?; let x3 ← mn[i]?; let x4 ← mx[i]?; let x5 ← c[i]?; let x6 ← s[i]?
          let x7 ← b[i]?; pure (mkParams x1 x2 x3 x4 x5 x6 x7)) := by
  simp only [zipParams, List.getElem?_zipWith, List.zip, List.getElem?_zipWith]
  cases e[i]? <;> cases d[i]? <;> cases mn[i]? <;> cases mx[i]? <;> cases c[i]? <;> cases s[i]? <;>
    cases b[i]? <;> rfl

theorem zipParams_length (e d : List String) (mn mx c : List Nat) (s : List String) (b : List Bool) (n : Nat)
    (h1 : e.length = n) (h2 : d.length = n) (h3 : mn.length = n) (h4 : mx.length = n) (h5 : c.length = n)
    (h6 : s.length = n) (h7 : b.length = n) : (zipParams e d mn mx c s b).length = n := by
  simp [zipParams, List.length_zipWith, List.length_zip, h1, h2, h3, h4, h5, h6, h7]

theorem allSame_of_all_eq (n : Nat) : ∀ (l : List Nat), (∀ x ∈ l, x = n) → allSame l = true
  | [], _ => rfl
  | x :: xs, h => by
    simp only [allSame, List.all_eq_true, beq_iff_eq]
    intro y hy
    rw [h y (List.mem_cons_of_mem _ hy), h x (by simp)]

theorem allSame_false_iff : ∀ (l : List Nat), allSame l = false ↔ ∃ x ∈ l, ∃ y ∈ l, x ≠ y
  | [] => by simp [allSame]
  | x :: xs => by
    constructor
    · intro h
      have : ¬ (∀ y ∈ xs, y = x) := by
        intro hall
        have := allSame_of_all_eq x (x :: xs) (by
          intro z hz
          rcases List.mem_cons.mp hz with rfl | hz
          · rfl
          · exact hall z hz)
        rw [this] at h; cases h
      have : ∃ y ∈ xs, y ≠ x := by
        apply Classical.byContradiction
        intro hne
        apply this
        intro y hy
        apply Classical.byContradiction
        intro hyx
        exact hne ⟨y, hy, hyx⟩
      obtain ⟨y, hy, hyx⟩ := this
      exact ⟨x, by simp, y, List.mem_cons_of_mem _ hy, fun h => hyx h.symm⟩
    · rintro ⟨a, ha, b, hb, hab⟩
      cases hs : allSame (x :: xs) with
      | false => rfl
      | true =>
        simp only [allSame, List.all_eq_true, beq_iff_eq] at hs
        have ha' : a = x := by
          rcases List.mem_cons.mp ha with rfl | ha
          · rfl
          · exact hs a ha
        have hb' : b = x := by
          rcases List.mem_cons.mp hb with rfl | hb
          · rfl
          · exact hs b hb
        exact absurd (ha'.trans hb'.symm) hab

theorem foldl_max_of_all_eq (n : Nat) : ∀ (l : List Nat) (acc : Nat), acc ≤ n → l ≠ [] → (∀ x ∈ l, x = n) →
    l.foldl max acc = n
  | [], _, _, h, _ => absurd rfl h
  | [x], acc, hacc, _, h => by
    have := h x (by simp)
    subst this
    simp only [List.foldl_cons, List.foldl_nil]
    exact Nat.max_eq_right hacc
  | x :: y :: ys, acc, hacc, _, h => by
    have hx := h x (by simp)
    subst hx
    simp only [List.foldl_cons]
    have := foldl_max_of_all_eq x (y :: ys) (max acc x) (by rw [Nat.max_eq_right hacc]; exact Nat.le_refl _)
      (by simp) (fun z hz => h z (List.mem_cons_of_mem _ hz))
    simpa using this

end PgFdr.C09
