import PgFdr.Proofs.C19
import PgFdr.Proofs.C19Char

/-!
Helper lemmas for C19 (audit findings B9, B10): the recursion of the annotation path
(`readProteinsLoop`) is the reader (`readLoop`) followed by `annotateAll`; a file of records whose
header lines are rendered from fields is annotated to the composed fields, decoy records included.
-/
namespace PgFdr.C19

/-! ### the annotation path: `readProteinsLoop` is `readLoop` followed by `annotateAll` -/

theorem annotateAll_append (rule : IdRule) (a b : List (List Char × Nat)) :
    annotateAll rule (a ++ b) =
      match annotateAll rule a with
      | .error e => .error e
      | .ok as =>
        match annotateAll rule b with
        | .error e => .error e
        | .ok bs => .ok (as ++ bs) := by
  induction a with
  | nil =>
    simp only [List.nil_append, annotateAll]
    cases annotateAll rule b <;> rfl
  | cons r a ih =>
    simp only [List.cons_append, annotateAll]
    cases annotate rule r.1 r.2 with
    | error e => rfl
    | ok x =>
      simp only
      rw [ih]
      cases annotateAll rule a with
      | error e => rfl
      | ok as =>
        simp only
        cases annotateAll rule b <;> rfl

/-- every annotation carries the header and the length of the record it was made from -/
theorem annotateAll_header_length (rule : IdRule) (l : List (List Char × Nat)) (as : List Annotation)
    (h : annotateAll rule l = .ok as) : as.map (fun a => (a.header, a.length)) = l := by
  induction l generalizing as with
  | nil => simp only [annotateAll, Except.ok.injEq] at h; subst h; rfl
  | cons r l ih =>
    simp only [annotateAll] at h
    cases ha : annotate rule r.1 r.2 with
    | error e => rw [ha] at h; cases h
    | ok a =>
      rw [ha] at h
      simp only at h
      cases hl : annotateAll rule l with
      | error e => rw [hl] at h; cases h
      | ok as' =>
        rw [hl] at h
        injection h with h
        subst h
        have hhd : (a.header, a.length) = r := by
          unfold annotate at ha
          simp only at ha
          split at ha
          · cases ha
          · injection ha with ha; subst ha; rfl
        simp only [List.map_cons, hhd, ih as' hl]

theorem readProteinsLoop_of_readLoop (concat : Bool) (rule : IdRule) (ls : List (List Char)) :
    ∀ (st : RState) (recs : List (List Char × Nat)), readLoop concat st ls = .ok recs →
      readProteinsLoop concat rule st ls = annotateAll rule recs := by
  induction ls with
  | nil =>
    intro st recs h
    simp only [readLoop, Except.ok.injEq] at h
    subst h
    rfl
  | cons l r ih =>
    intro st recs h
    simp only [readLoop] at h
    simp only [readProteinsLoop]
    cases hs : stepLine concat st l with
    | error e => rw [hs] at h; cases h
    | ok p =>
      obtain ⟨st', out⟩ := p
      rw [hs] at h
      simp only at h ⊢
      cases hr : readLoop concat st' r with
      | error e => rw [hr] at h; cases h
      | ok rest =>
        rw [hr] at h
        injection h with h
        subst h
        rw [ih st' rest hr, annotateAll_append]
        cases annotateAll rule out with
        | error e => rfl
        | ok as => cases annotateAll rule rest <;> rfl

/-- a reader failure is a failure of the annotation path too (possibly preceded by an earlier `int()` failure) -/
theorem readProteinsLoop_error_of_readLoop (concat : Bool) (rule : IdRule) (ls : List (List Char)) :
    ∀ (st : RState) (e : Err), readLoop concat st ls = .error e →
      ∃ e', readProteinsLoop concat rule st ls = .error e' := by
  induction ls with
  | nil => intro st e h; simp only [readLoop] at h; cases h
  | cons l r ih =>
    intro st e h
    simp only [readLoop] at h
    simp only [readProteinsLoop]
    cases hs : stepLine concat st l with
    | error e' => exact ⟨e', rfl⟩
    | ok p =>
      obtain ⟨st', out⟩ := p
      rw [hs] at h
      simp only at h ⊢
      cases hr : readLoop concat st' r with
      | ok rest => rw [hr] at h; cases h
      | error e' =>
        obtain ⟨e'', he''⟩ := ih st' e' hr
        cases annotateAll rule out with
        | error e3 => exact ⟨e3, rfl⟩
        | ok as => exact ⟨e'', by simp only [he'']⟩

/-! ### a file of composed records -/

/-- a record whose header line is rendered from fields -/
structure ComposedRecord where
  fields : Fields
  seqLines : List (List Char)

def ComposedRecord.toRecord (c : ComposedRecord) : FastaRecord := { header := render c.fields, seqLines := c.seqLines }

/-- well-formed, blank-free fields; no line ends in white space, no sequence line starts with `>` -/
def ComposedRecord.Good (c : ComposedRecord) : Prop := c.fields.WF ∧ c.fields.NoBlank ∧ c.toRecord.Clean

/-- the lines of the file: per record the header line `>` + rendered header, then its sequence lines -/
def composedFile (crs : List ComposedRecord) : List (List Char) := crs.flatMap (fun c => c.toRecord.lines)

/-- the fields of the decoy record the reader generates: `REV__` in front of the header, i.e. of the `db` part -/
def decoyFields (f : Fields) : Fields := { f with db := decoyPrefix ++ f.db }

/-- the annotations the composed fields stand for, in file order: per record the target's and, when decoys are
    generated (`concat`), the decoy's; `expected rule f n` holds the fields `f` was composed of -/
def composedAnnotations (concat : Bool) (rule : IdRule) (crs : List ComposedRecord) : List Annotation :=
  crs.flatMap (fun c =>
    if concat then [expected rule c.fields c.toRecord.seqLength, expected rule (decoyFields c.fields) c.toRecord.seqLength]
    else [expected rule c.fields c.toRecord.seqLength])

theorem render_decoyFields (f : Fields) : render (decoyFields f) = decoyPrefix ++ render f := by
  have h1 : compose f = f.ident :: (compose f).tail := by
    unfold compose; simp
  have h2 : compose (decoyFields f) = (decoyPrefix ++ f.ident) :: (compose f).tail := by
    unfold compose decoyFields Fields.ident; simp
  unfold render
  rw [h2, unwords_append_head, ← h1]

theorem decoyFields_WF (f : Fields) (h : f.WF) : (decoyFields f).WF := by
  refine { h with dbBar := ?_ }
  show '|' ∉ decoyPrefix ++ f.db
  intro hm
  rcases List.mem_append.mp hm with hm | hm
  · revert hm; decide
  · exact h.dbBar hm

theorem decoyFields_NoBlank (f : Fields) (h : f.NoBlank) : (decoyFields f).NoBlank := by
  refine { h with db := ?_ }
  show ' ' ∉ decoyPrefix ++ f.db
  intro hm
  rcases List.mem_append.mp hm with hm | hm
  · revert hm; decide
  · exact h.db hm

theorem annotateAll_yielded (concat : Bool) (rule : IdRule) (c : ComposedRecord) (h : c.Good) :
    annotateAll rule (c.toRecord.yielded concat) = .ok (composedAnnotations concat rule [c]) := by
  obtain ⟨hw, hb, -⟩ := h
  have e1 := annotate_render rule c.fields hw hb c.toRecord.seqLength
  have e2 := annotate_render rule (decoyFields c.fields) (decoyFields_WF _ hw) (decoyFields_NoBlank _ hb)
    c.toRecord.seqLength
  rw [render_decoyFields] at e2
  cases concat
  · simp only [FastaRecord.yielded, composedAnnotations, Bool.false_eq_true, if_false, List.flatMap_cons,
      List.flatMap_nil, List.append_nil, annotateAll]
    have : c.toRecord.header = render c.fields := rfl
    rw [this, e1]
  · simp only [FastaRecord.yielded, composedAnnotations, if_true, List.flatMap_cons,
      List.flatMap_nil, List.append_nil, annotateAll]
    have : c.toRecord.header = render c.fields := rfl
    rw [this, e1, e2]

theorem annotateAll_composed (concat : Bool) (rule : IdRule) (crs : List ComposedRecord) (h : ∀ c ∈ crs, c.Good) :
    annotateAll rule ((crs.map ComposedRecord.toRecord).flatMap (FastaRecord.yielded concat)) =
      .ok (composedAnnotations concat rule crs) := by
  induction crs with
  | nil => rfl
  | cons c crs ih =>
    rw [List.map_cons, List.flatMap_cons, annotateAll_append, annotateAll_yielded concat rule c (h c (by simp)),
      ih (fun x hx => h x (by simp [hx]))]
    simp [composedAnnotations]

theorem merge_nil (e : Dict) : merge [] e = e := by
  unfold merge
  simp [Dict.contains]

theorem multiple_one (concat : Bool) (rule : IdRule) (file : List (List Char)) :
    multiple concat rule [file] =
      match readProteins concat rule file with
      | .error e => .error e
      | .ok recs => .ok (single recs) := by
  unfold multiple
  simp only [multipleFrom]
  cases readProteins concat rule file with
  | error e => rfl
  | ok recs => simp only [merge_nil]

theorem foldl_insertNew_ne_nil (l : List Annotation) (d : Dict) (h : d ≠ []) : l.foldl insertNew d ≠ [] := by
  induction l generalizing d with
  | nil => exact h
  | cons a l ih =>
    rw [List.foldl_cons]
    apply ih
    unfold insertNew
    split
    · exact h
    · simp

theorem single_ne_nil (l : List Annotation) (h : l ≠ []) : single l ≠ [] := by
  cases l with
  | nil => exact absurd rfl h
  | cons a l =>
    unfold single
    rw [List.foldl_cons]
    apply foldl_insertNew_ne_nil
    simp [insertNew, Dict.contains]

theorem composedAnnotations_ne_nil (concat : Bool) (rule : IdRule) (crs : List ComposedRecord) (h : crs ≠ []) :
    composedAnnotations concat rule crs ≠ [] := by
  cases crs with
  | nil => exact absurd rfl h
  | cons c crs =>
    unfold composedAnnotations
    cases concat <;> simp

end PgFdr.C19
