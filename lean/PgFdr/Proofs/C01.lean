import Mathlib.Tactic.Linarith
import Mathlib.Algebra.Order.Ring.Rat
import Mathlib.Data.List.Basic
import PgFdr.Model.C01
import PgFdr.Generated.Markers

/-! Helper lemmas for C01: running minimum, suffix minima, running counts, the sentinel cut,
    the marker predicates. -/
namespace PgFdr.C01

/-! ### running minimum -/

theorem go_length (m : Rat) (ys : List Rat) : (prefMin.go m ys).length = ys.length + 1 := by
  induction ys generalizing m with
  | nil => simp [prefMin.go]
  | cons y ys ih => simp [prefMin.go, ih]

theorem prefMin_length (l : List Rat) : (prefMin l).length = l.length := by
  cases l with
  | nil => rfl
  | cons x xs => simp [prefMin, go_length]

theorem fdrsToQvals_length (f : List Rat) : (fdrsToQvals f).length = f.length := by
  simp [fdrsToQvals, prefMin_length]

/-- element `k` of the running minimum started at `m`: a lower bound of `m` and of the first
    `k` inputs, and equal to one of them -/
theorem go_spec : ∀ (ys : List Rat) (m : Rat) (k : Nat) (v : Rat),
    (prefMin.go m ys)[k]? = some v →
      v ≤ m ∧ (∀ j y, j < k → ys[j]? = some y → v ≤ y) ∧
      (v = m ∨ ∃ j, j < k ∧ ys[j]? = some v) := by
  intro ys
  induction ys with
  | nil =>
    intro m k v h
    cases k with
    | zero =>
      simp [prefMin.go] at h; subst h
      exact ⟨Rat.le_refl, by intro j y hj; omega, Or.inl rfl⟩
    | succ k => simp [prefMin.go] at h
  | cons y ys ih =>
    intro m k v h
    cases k with
    | zero =>
      simp [prefMin.go] at h; subst h
      exact ⟨Rat.le_refl, by intro j y hj; omega, Or.inl rfl⟩
    | succ k =>
      simp only [prefMin.go, List.getElem?_cons_succ] at h
      obtain ⟨h1, h2, h3⟩ := ih _ k v h
      by_cases hym : y ≤ m
      · simp only [hym, if_true] at h1 h3
        refine ⟨Rat.le_trans h1 hym, ?_, ?_⟩
        · intro j z hj hz
          cases j with
          | zero => simp at hz; subst hz; exact h1
          | succ j => exact h2 j z (by omega) (by simpa using hz)
        · rcases h3 with h3 | ⟨j, hj, hz⟩
          · exact Or.inr ⟨0, by omega, by simp [h3]⟩
          · exact Or.inr ⟨j + 1, by omega, by simpa using hz⟩
      · simp only [hym, if_false] at h1 h3
        have hmy : m ≤ y := Rat.le_of_lt (Rat.not_le.mp hym)
        refine ⟨h1, ?_, ?_⟩
        · intro j z hj hz
          cases j with
          | zero => simp at hz; subst hz; exact Rat.le_trans h1 hmy
          | succ j => exact h2 j z (by omega) (by simpa using hz)
        · rcases h3 with h3 | ⟨j, hj, hz⟩
          · exact Or.inl h3
          · exact Or.inr ⟨j + 1, by omega, by simpa using hz⟩

/-- element `k` of `np.minimum.accumulate l` is the minimum of `l[0..k]` -/
theorem prefMin_spec (l : List Rat) (k : Nat) (v : Rat) (h : (prefMin l)[k]? = some v) :
    (∀ j y, j ≤ k → l[j]? = some y → v ≤ y) ∧ (∃ j, j ≤ k ∧ l[j]? = some v) := by
  cases l with
  | nil => simp [prefMin] at h
  | cons x xs =>
    simp only [prefMin] at h
    obtain ⟨h1, h2, h3⟩ := go_spec xs x k v h
    constructor
    · intro j y hj hy
      cases j with
      | zero => simp at hy; subst hy; exact h1
      | succ j => exact h2 j y (by omega) (by simpa using hy)
    · rcases h3 with h3 | ⟨j, hj, hz⟩
      · exact ⟨0, by omega, by simp [h3]⟩
      · exact ⟨j + 1, by omega, by simpa using hz⟩

/-- the q-value at rank `i` is a lower bound of every FDR estimate at or below rank `i`
    and is attained at one of those ranks -/
theorem qvals_spec_list (f : List Rat) (i : Nat) (v : Rat) (h : (fdrsToQvals f)[i]? = some v) :
    (∀ j y, i ≤ j → f[j]? = some y → v ≤ y) ∧ (∃ j, i ≤ j ∧ f[j]? = some v) := by
  have hi : i < f.length := by
    have := (List.getElem?_eq_some_iff.mp h).1
    simpa [fdrsToQvals_length] using this
  unfold fdrsToQvals at h
  rw [List.getElem?_reverse (by simpa [prefMin_length] using hi)] at h
  simp only [prefMin_length, List.length_reverse] at h
  obtain ⟨h1, j0, hj0, hv⟩ := prefMin_spec f.reverse (f.length - 1 - i) v h
  constructor
  · intro j y hij hy
    have hj : j < f.length := (List.getElem?_eq_some_iff.mp hy).1
    apply h1 (f.length - 1 - j) y (by omega)
    rw [List.getElem?_reverse (by omega)]
    have : f.length - 1 - (f.length - 1 - j) = j := by omega
    rw [this]; exact hy
  · have hj0' : j0 < f.length := by
      have := (List.getElem?_eq_some_iff.mp hv).1
      simpa using this
    refine ⟨f.length - 1 - j0, by omega, ?_⟩
    rw [List.getElem?_reverse hj0'] at hv
    exact hv

theorem qvals_monotone_list (f : List Rat) (i j : Nat) (vi vj : Rat) (hij : i ≤ j)
    (hi : (fdrsToQvals f)[i]? = some vi) (hj : (fdrsToQvals f)[j]? = some vj) : vi ≤ vj := by
  obtain ⟨hlow, -⟩ := qvals_spec_list f i vi hi
  obtain ⟨-, k, hk, hv⟩ := qvals_spec_list f j vj hj
  exact hlow k vj (by omega) hv

theorem qvals_pairwise (f : List Rat) : (fdrsToQvals f).Pairwise (· ≤ ·) := by
  rw [List.pairwise_iff_getElem]
  intro i j hi hj hij
  exact qvals_monotone_list f i j _ _ (by omega) (List.getElem?_eq_getElem hi) (List.getElem?_eq_getElem hj)

/-- at the last rank whose q-value is within `t`, the FDR estimate itself is within `t` -/
theorem threshold_sound_list (f : List Rat) (t : Rat) (k : Nat) (vk fk : Rat)
    (hq : (fdrsToQvals f)[k]? = some vk) (hf : f[k]? = some fk) (hle : vk ≤ t)
    (hlast : ∀ j v, k < j → (fdrsToQvals f)[j]? = some v → t < v) : fk ≤ t := by
  obtain ⟨-, j, hkj, hv⟩ := qvals_spec_list f k vk hq
  rcases Nat.lt_or_ge k j with hlt | hge
  · exfalso
    have hjlen : j < f.length := (List.getElem?_eq_some_iff.mp hv).1
    have hjq : j < (fdrsToQvals f).length := by simpa [fdrsToQvals_length] using hjlen
    have hqj : (fdrsToQvals f)[j]? = some ((fdrsToQvals f)[j]) := List.getElem?_eq_getElem hjq
    obtain ⟨hlowj, -⟩ := qvals_spec_list f j _ hqj
    have h1 : (fdrsToQvals f)[j] ≤ vk := hlowj j vk (Nat.le_refl _) hv
    have h2 := hlast j _ hlt hqj
    exact absurd (Rat.le_trans h1 hle) (Rat.not_le.mpr h2)
  · have : j = k := by omega
    subst this
    rw [hf] at hv
    have : fk = vk := Option.some.inj hv
    rw [this]; exact hle

/-! ### running decoy and target counts -/
section counts
variable {G : Type}

theorem fdrs_length (dec : G → Bool) (r : List G) (d t : Nat) : (fdrs dec r d t).length = r.length := by
  induction r generalizing d t with
  | nil => rfl
  | cons g r ih => simp [fdrs, ih]

/-- the estimate at rank `k` is (decoys so far + 1) / (targets so far + 1) -/
theorem fdrs_getElem_acc (dec : G → Bool) : ∀ (r : List G) (d t k : Nat), k < r.length →
    (fdrs dec r d t)[k]? =
      some (((d + countP dec r k + 1 : Nat) : Rat) /
            ((t + countP (fun g => !dec g) r k + 1 : Nat) : Rat)) := by
  intro r
  induction r with
  | nil => intro d t k hk; simp at hk
  | cons g r ih =>
    intro d t k hk
    cases k with
    | zero =>
      by_cases hg : dec g = true
      · simp [fdrs, countP, hg]
      · have hg' : dec g = false := by simpa using hg
        simp [fdrs, countP, hg']
    | succ k =>
      have hk' : k < r.length := by simpa using hk
      simp only [fdrs, List.getElem?_cons_succ]
      rw [ih _ _ k hk']
      by_cases hg : dec g = true
      · simp only [hg, if_true, countP, List.take_succ_cons, List.filter_cons, Bool.not_true,
          Bool.false_eq_true, if_false, List.length_cons]
        rw [show ∀ a b : Nat, a + 1 + b + 1 = a + (b + 1) + 1 from by omega]
      · have hg' : dec g = false := by simpa using hg
        simp only [hg', Bool.false_eq_true, if_false, countP, List.take_succ_cons, List.filter_cons,
          Bool.not_false, if_true, List.length_cons]
        rw [show ∀ a b : Nat, a + 1 + b + 1 = a + (b + 1) + 1 from by omega]

theorem fdrs_getElem_estimate (dec : G → Bool) (r : List G) (k : Nat) (hk : k < r.length) :
    (fdrs dec r 0 0)[k]? = some (estimate dec r k) := by
  rw [fdrs_getElem_acc dec r 0 0 k hk]
  simp [estimate]

/-- every group is either counted as decoy or as target -/
theorem countP_add (dec : G → Bool) (r : List G) (k : Nat) (hk : k < r.length) :
    countP dec r k + countP (fun g => !dec g) r k = k + 1 := by
  unfold countP
  have h := List.length_eq_length_filter_add (l := r.take (k + 1)) dec
  simp only [List.length_take] at h
  have : min (k + 1) r.length = k + 1 := by omega
  rw [this] at h
  simpa using h.symm

end counts

/-! ### the sentinel cut -/
section ranked
variable {G : Type}

theorem ranked_nil_left (scores : List Rat) : ranked ([] : List G) scores = [] := by
  simp [ranked]

theorem ranked_nil_right (groups : List G) : ranked groups [] = [] := by
  simp [ranked]

theorem ranked_cons (g : G) (gs : List G) (s : Rat) (ss : List Rat) :
    ranked (g :: gs) (s :: ss) = if s = sentinel then [] else g :: ranked gs ss := by
  by_cases h : s = sentinel
  · simp [ranked, h]
  · simp [ranked, h]

/-- the ranked groups are the first `n` groups, where `n` is the position of the first sentinel
    score, or the length of the shorter list if there is none -/
theorem ranked_eq_take : ∀ (groups : List G) (scores : List Rat),
    ∃ n, ranked groups scores = groups.take n ∧ n ≤ groups.length ∧ n ≤ scores.length ∧
      (∀ i s, i < n → scores[i]? = some s → s ≠ sentinel) ∧
      (n = min groups.length scores.length ∨ scores[n]? = some sentinel) := by
  intro groups
  induction groups with
  | nil => intro scores; exact ⟨0, by simp [ranked_nil_left], by simp, by simp, by intro i s hi; omega, Or.inl (by simp)⟩
  | cons g gs ih =>
    intro scores
    cases scores with
    | nil => exact ⟨0, by simp [ranked_nil_right], by simp, by simp, by intro i s hi; omega, Or.inl (by simp)⟩
    | cons s ss =>
      rw [ranked_cons]
      by_cases hs : s = sentinel
      · exact ⟨0, by simp [hs], by simp, by simp, by intro i s hi; omega, Or.inr (by simp [hs])⟩
      · obtain ⟨n, h1, h2, h3, h4, h5⟩ := ih ss
        refine ⟨n + 1, by simp [hs, h1], by simpa using h2, by simpa using h3, ?_, ?_⟩
        · intro i s' hi hs'
          cases i with
          | zero => simp at hs'; subst hs'; exact hs
          | succ i => exact h4 i s' (by omega) (by simpa using hs')
        · rcases h5 with h5 | h5
          · left; simp [h5]
          · right; simpa using h5

theorem ranked_length_le_scores (groups : List G) (scores : List Rat) :
    (ranked groups scores).length ≤ scores.length := by
  obtain ⟨n, h1, h2, h3, -⟩ := ranked_eq_take groups scores
  rw [h1, List.length_take]; omega

theorem ranked_getElem? (groups : List G) (scores : List Rat) (i : Nat)
    (hi : i < (ranked groups scores).length) : (ranked groups scores)[i]? = groups[i]? := by
  obtain ⟨n, h1, h2, h3, -⟩ := ranked_eq_take groups scores
  rw [h1] at hi ⊢
  rw [List.length_take] at hi
  rw [List.getElem?_take]
  simp only [ite_eq_left_iff, not_lt]
  intro h; omega

end ranked

/-! ### what `calcFdrsWith` returns -/
section calc_
variable {G : Type}

theorem calc_ok_iff (dec : G → Bool) (groups : List G) (scores : List Rat) (f q : List Rat) :
    calcFdrsWith dec groups scores = .ok (f, q) ↔
      ranked groups scores ≠ [] ∧ f = fdrs dec (ranked groups scores) 0 0 ∧ q = fdrsToQvals f := by
  unfold calcFdrsWith
  by_cases h : ranked groups scores = []
  · simp [h]
  · have h' : (ranked groups scores).isEmpty = false := by simpa using h
    simp only [h', Bool.false_eq_true, if_false, Except.ok.injEq, Prod.mk.injEq, ne_eq, h,
      not_false_eq_true, true_and]
    constructor
    · rintro ⟨rfl, rfl⟩; exact ⟨rfl, rfl⟩
    · rintro ⟨rfl, rfl⟩; exact ⟨rfl, rfl⟩

theorem calc_error_iff (dec : G → Bool) (groups : List G) (scores : List Rat) (e : String) :
    calcFdrsWith dec groups scores = .error e ↔ ranked groups scores = [] ∧ e = "no_ranked_groups" := by
  unfold calcFdrsWith
  by_cases h : ranked groups scores = []
  · simp [h, eq_comm]
  · have h' : (ranked groups scores).isEmpty = false := by simpa using h
    simp [h', h]

end calc_

/-! ### a monotone key: the elements within a bound form a prefix -/
section prefix_
variable {α : Type}

theorem filter_le_eq_take (key : α → Rat) (t : Rat) :
    ∀ (l : List α), l.Pairwise (fun a b => key a ≤ key b) →
      l.filter (fun a => decide (key a ≤ t)) = l.take (l.filter (fun a => decide (key a ≤ t))).length := by
  intro l
  induction l with
  | nil => intro _; simp
  | cons x xs ih =>
    intro hs
    have hs' := (List.pairwise_cons.mp hs).2
    by_cases hx : key x ≤ t
    · simp only [List.filter_cons, hx, decide_true, if_true, List.length_cons, List.take_succ_cons]
      rw [← ih hs']
    · have hnone : xs.filter (fun a => decide (key a ≤ t)) = [] := by
        rw [List.filter_eq_nil_iff]
        intro y hy
        have : key x ≤ key y := (List.pairwise_cons.mp hs).1 y hy
        simp only [decide_eq_true_eq, not_le]
        linarith [not_le.mp hx]
      simp [hx, hnone]

end prefix_


/-! ### the threshold statement over a ranking -/
section threshold
variable {G : Type}

theorem threshold_sound_ranked (dec : G → Bool) (r : List G) (f q : List Rat) (t : Rat)
    (hf : f = fdrs dec r 0 0) (hq : q = fdrsToQvals f) (S : List G)
    (hSdef : S = ((r.zip q).filter (fun gq => decide (gq.2 ≤ t))).map (·.1)) :
    S = r.take S.length ∧
    (S ≠ [] →
      (((S.filter dec).length + 1 : Nat) : Rat) /
        (((S.filter (fun g => !dec g)).length + 1 : Nat) : Rat) ≤ t) := by
  have hflen : f.length = r.length := by rw [hf, fdrs_length]
  have hqlen : q.length = r.length := by rw [hq, fdrsToQvals_length, hflen]
  -- the accepted pairs are a prefix of the zipped ranking
  have hpw : (r.zip q).Pairwise (fun a b => a.2 ≤ b.2) := by
    have hq' : q.Pairwise (· ≤ ·) := hq ▸ qvals_pairwise f
    have : ((r.zip q).map (·.2)).Pairwise (· ≤ ·) := by
      rw [List.map_snd_zip (by omega)]; exact hq'
    exact (List.pairwise_map.mp this)
  have hpre := filter_le_eq_take (fun gq : G × Rat => gq.2) t (r.zip q) hpw
  have hSlen : S.length = ((r.zip q).filter (fun gq => decide (gq.2 ≤ t))).length := by
    simp [hSdef]
  have hS : S = r.take S.length := by
    have h1 : S = ((r.zip q).take S.length).map (·.1) := by
      rw [hSlen, ← hpre, hSdef]
    have h2 : ((r.zip q).take S.length).map (·.1) = r.take S.length := by
      rw [List.map_take, List.map_fst_zip (by omega)]
    rw [← h2]; exact h1
  refine ⟨hS, ?_⟩
  intro hne
  have hnpos : 0 < S.length := List.length_pos_iff.mpr hne
  have hnle : S.length ≤ r.length := by
    have := congrArg List.length hS
    rw [List.length_take] at this; omega
  generalize hn : S.length = n at *
  -- rank k = n - 1 is the last accepted one
  have hk : n - 1 < r.length := by omega
  have hzlen : (r.zip q).length = r.length := by simp [List.length_zip, hqlen]
  -- membership in the filter, by position
  have hin : ∀ i (hi : i < r.length), (q[i]'(by omega) ≤ t ↔ i < n) := by
    intro i hi
    have hzi : i < (r.zip q).length := by omega
    have hsplit := List.take_append_drop n (r.zip q)
    constructor
    · intro hle
      by_contra hni
      have hmem : (r.zip q)[i] ∈ (r.zip q).filter (fun gq => decide (gq.2 ≤ t)) := by
        rw [List.mem_filter]
        exact ⟨List.getElem_mem _, by simpa [List.getElem_zip] using hle⟩
      -- the filter has n elements, all among the first n positions; position i ≥ n would be one more
      have hcount : ((r.zip q).filter (fun gq => decide (gq.2 ≤ t))).length = n := hSlen ▸ rfl
      have hfd : ((r.zip q).drop n).filter (fun gq => decide (gq.2 ≤ t)) = [] := by
        have h1 : (r.zip q).filter (fun gq => decide (gq.2 ≤ t)) =
            ((r.zip q).take n).filter (fun gq => decide (gq.2 ≤ t)) ++
            ((r.zip q).drop n).filter (fun gq => decide (gq.2 ≤ t)) := by
          rw [← List.filter_append, hsplit]
        have h2 : (((r.zip q).take n).filter (fun gq => decide (gq.2 ≤ t))).length ≤ n := by
          refine le_trans (List.length_filter_le _ _) ?_
          rw [List.length_take]; omega
        have h3 := congrArg List.length h1
        rw [List.length_append, hcount] at h3
        have h4 : ((r.zip q).take n).filter (fun gq => decide (gq.2 ≤ t)) = (r.zip q).take n := by
          rw [List.filter_eq_self]
          intro a ha
          have : a ∈ (r.zip q).filter (fun gq => decide (gq.2 ≤ t)) := by rw [hpre, hcount]; exact ha
          exact (List.mem_filter.mp this).2
        rw [h4, List.length_take] at h3
        exact List.eq_nil_of_length_eq_zero (by omega)
      have hmem2 : (r.zip q)[i] ∈ (r.zip q).drop n := by
        rw [List.mem_drop_iff_getElem]
        exact ⟨i - n, by omega, by congr 1; omega⟩
      have : (r.zip q)[i] ∈ ((r.zip q).drop n).filter (fun gq => decide (gq.2 ≤ t)) :=
        List.mem_filter.mpr ⟨hmem2, (List.mem_filter.mp hmem).2⟩
      rw [hfd] at this; simp at this
    · intro hlt
      have hmem : (r.zip q)[i] ∈ (r.zip q).take n := by
        rw [List.mem_take_iff_getElem]
        exact ⟨i, by omega, rfl⟩
      have hcount : ((r.zip q).filter (fun gq => decide (gq.2 ≤ t))).length = n := hSlen ▸ rfl
      rw [← hcount, ← hpre] at hmem
      have := (List.mem_filter.mp hmem).2
      simpa [List.getElem_zip] using this
  have hqk : q[n - 1]? = some (q[n - 1]'(by omega)) := List.getElem?_eq_getElem (by omega)
  have hfk : f[n - 1]? = some (estimate dec r (n - 1)) := by
    rw [hf]; exact fdrs_getElem_estimate _ _ _ hk
  have hle : q[n - 1]'(by omega) ≤ t := (hin (n - 1) hk).mpr (by omega)
  have hlast : ∀ j v, n - 1 < j → (fdrsToQvals f)[j]? = some v → t < v := by
    intro j v hj hv
    rw [← hq] at hv
    have hjl : j < q.length := (List.getElem?_eq_some_iff.mp hv).1
    have hvj : q[j] = v := by
      rw [List.getElem?_eq_getElem hjl] at hv; exact Option.some.inj hv
    by_contra hnot
    have : q[j] ≤ t := by rw [hvj]; exact not_lt.mp hnot
    have := (hin j (by omega)).mp this
    omega
  have key := threshold_sound_list f t (n - 1) _ _ (hq ▸ hqk) hfk hle hlast
  -- the counts over S are the counts over the first n ranked groups
  have e1 : (S.filter dec).length = countP dec r (n - 1) := by
    unfold countP
    rw [show n - 1 + 1 = n by omega, ← hS]
  have e2 : (S.filter (fun g => !dec g)).length = countP (fun g => !dec g) r (n - 1) := by
    unfold countP
    rw [show n - 1 + 1 = n by omega, ← hS]
  rw [e1, e2]
  exact key


end threshold

/-! ### marker predicates -/

/-- `containsSub pat s` is Python's `pat in s`: `pat` occurs as a contiguous block -/
theorem containsSub_iff (pat : List Char) : ∀ s : List Char,
    containsSub pat s = true ↔ ∃ a b, s = a ++ pat ++ b := by
  intro s
  induction s with
  | nil =>
    simp only [containsSub, List.isEmpty_iff]
    constructor
    · rintro rfl; exact ⟨[], [], rfl⟩
    · rintro ⟨a, b, h⟩
      have := congrArg List.length h
      simp at this
      exact List.eq_nil_of_length_eq_zero (by omega)
  | cons c t ih =>
    simp only [containsSub, Bool.or_eq_true, ih]
    constructor
    · rintro (h | ⟨a, b, h⟩)
      · obtain ⟨b, hb⟩ := List.isPrefixOf_iff_prefix.mp h
        exact ⟨[], b, by simpa using hb.symm⟩
      · exact ⟨c :: a, b, by simp [h]⟩
    · rintro ⟨a, b, h⟩
      cases a with
      | nil =>
        left
        rw [List.isPrefixOf_iff_prefix]
        exact ⟨b, by simpa using h.symm⟩
      | cons a0 a =>
        right
        simp only [List.cons_append, List.cons.injEq] at h
        exact ⟨a, b, h.2⟩

theorem allContain_iff (g : List String) (m : String) :
    allContain g m = true ↔ ∀ p ∈ g, strContains p m = true := by
  simp [allContain, List.all_eq_true]

theorem decoy_only_if_all_aux (g : List String) :
    isDecoy g = true ↔
      (∀ p ∈ g, ∃ a b, p.toList = a ++ "REV__".toList ++ b) ∨
      (∀ p ∈ g, ∃ a b, p.toList = a ++ "rev_".toList ++ b) := by
  unfold isDecoy
  rw [Bool.or_eq_true, allContain_iff, allContain_iff]
  simp only [strContains, containsSub_iff]

end PgFdr.C01
