import PgFdr.Model.C03
import PgFdr.Proofs.C20
import Mathlib.Data.List.Nodup
import Mathlib.Data.List.Perm.Basic
import Mathlib.Data.List.Perm.Subperm
import Mathlib.Logic.Relation

/-!
Helper lemmas for property C03.

* Part A — the loop of `generate_protein_groups` on owner-indexed slots (`slots : P → List P`, the group at
  the position the stale index assigns to its original owner): candidate completeness / soundness
  including the early exit, and the three step invariants (containment `InvB`, partition `InvC`,
  maximality `InvE`) for ANY membership-preserving candidate order.
* Part B — the two dictionaries built by `create` from a peptide list with unique keys are well formed.
* Part C — the executable positional state of `Model/C03.lean` (`List (owner × members)`) is a rendering of
  the slot function: `slotOf (stepSlots o s p) = slotStep o (byPeptideCount o) (slotOf s) p`.
* Part D — what the invariants say about the rendered nested list `generate o`; the group count.
* Part E — connected components by closure iteration with fuel (`mem_component`), the bipartite graph of
  `PseudoGeneGrouping` (`Conn`), its equivalence with connectivity through shared peptides (`Share`), and the
  merge loop of `get_connected_proteins` on the slot function (`PInv`, `Done`), for ANY comparison `le`.
* Part F — the loop run on the `ProteinGroups` state machine of `Model/C20.lean` (`generatePG`) is the
  owner-tagged loop, position by position (`Rel`, `generatePG_eq`).
-/
set_option linter.unusedSectionVars false
set_option linter.unusedVariables false
namespace PgFdr.C03
variable {P Q : Type} [DecidableEq P] [DecidableEq Q]

/-! ## Part A -/

def Obs.sub (o : Obs P Q) (p q : P) : Prop := ∀ x ∈ o.pepsOf p, q ∈ o.protsOf x

structure Obs.WF (o : Obs P Q) : Prop where
  nodup : o.keys.Nodup
  consistent : ∀ p x, x ∈ o.pepsOf p ↔ p ∈ o.protsOf x
  inKeys : ∀ p x, p ∈ o.protsOf x → p ∈ o.keys
  nonempty : ∀ p ∈ o.keys, o.pepsOf p ≠ []

theorem Obs.sub_refl (o : Obs P Q) (h : o.WF) (p : P) : o.sub p p :=
  fun x hx => (h.consistent p x).mp hx

theorem Obs.sub_trans (o : Obs P Q) (h : o.WF) {p q r : P} (h1 : o.sub p q) (h2 : o.sub q r) : o.sub p r :=
  fun x hx => h2 x ((h.consistent q x).mpr (h1 x hx))

theorem mem_supGo (o : Obs P Q) (q : P) :
    ∀ (xs : List Q) (cands : List P), q ∈ cands → (∀ x ∈ xs, q ∈ o.protsOf x) → q ∈ supGo o cands xs := by
  intro xs
  induction xs with
  | nil => intro cands h _; simpa [supGo] using h
  | cons x xs ih =>
    intro cands h hx
    have hq : q ∈ cands.filter (fun p => decide (p ∈ o.protsOf x)) := by
      simp [List.mem_filter, h, hx x (by simp)]
    simp only [supGo]
    split
    · exact hq
    · exact ih _ hq (fun y hy => hx y (by simp [hy]))

/-- completeness of the candidate list: every superset is a candidate -/
theorem mem_supersets (o : Obs P Q) (p q : P) (hne : o.pepsOf p ≠ []) (h : o.sub p q) :
    q ∈ supersets o p := by
  unfold supersets
  cases hp : o.pepsOf p with
  | nil => exact absurd hp hne
  | cons x xs =>
    simp only
    apply mem_supGo
    · exact h x (by simp [hp])
    · intro y hy; exact h y (by simp [hp, hy])

/-- the loop body of `generate_protein_groups` on owner-indexed slots (`slots r` = the group at the
    position the stale index assigns to `r`) -/
def slotStep (o : Obs P Q) (order : List P → List P) (slots : P → List P) (p : P) (r : P) : List P :=
  match target o order slots p with
  | none => slots r
  | some q => if r = p then [] else if r = q then slots q ++ slots p else slots r

theorem target_some (o : Obs P Q) (order : List P → List P) (slots : P → List P) (p q : P)
    (h : target o order slots p = some q) : q ≠ p ∧ slots q ≠ [] ∧ q ∈ order (supersets o p) := by
  unfold target at h
  have h1 := List.find?_some h
  have h2 := List.mem_of_find?_eq_some h
  simp only [Bool.and_eq_true, decide_eq_true_eq, Bool.not_eq_true', List.isEmpty_eq_false_iff] at h1
  exact ⟨h1.1, h1.2, h2⟩

theorem target_none (o : Obs P Q) (order : List P → List P) (slots : P → List P) (p : P)
    (h : target o order slots p = none) : ∀ q ∈ order (supersets o p), q ≠ p → slots q = [] := by
  unfold target at h
  intro q hq hqp
  have := List.find?_eq_none.mp h q hq
  simpa [hqp] using this

/-- the part of the invariant that does not mention the processed prefix -/
structure InvB (o : Obs P Q) (slots : P → List P) : Prop where
  head : ∀ r, slots r = [] ∨ (slots r).head? = some r
  sub  : ∀ r, ∀ x ∈ slots r, o.sub x r

/-- (E): a processed owner with a non-empty slot has no other superset with a non-empty slot -/
def InvE (o : Obs P Q) (done : List P) (slots : P → List P) : Prop :=
  ∀ r ∈ done, slots r ≠ [] → ∀ q, q ≠ r → o.sub r q → slots q = []

theorem step_mono (o : Obs P Q) (order : List P → List P) (slots : P → List P) (p r : P) :
    slots r = [] → r ≠ p → slotStep o order slots p r = [] := by
  intro h hr
  unfold slotStep
  split
  · exact h
  · rename_i q hq
    have hq' := target_some o order slots p q hq
    simp only [hr, if_false]
    split
    · rename_i hrq
      exact absurd (hrq ▸ h) hq'.2.1
    · exact h

theorem step_InvE (o : Obs P Q) (hwf : o.WF) (order : List P → List P)
    (hperm : ∀ l, ∀ q, q ∈ order l ↔ q ∈ l)
    (slots : P → List P) (done : List P) (p : P) (hp : p ∈ o.keys) (hpd : p ∉ done)
    (hE : InvE o done slots) : InvE o (done ++ [p]) (slotStep o order slots p) := by
  intro r hr hne q hqr hsub
  rcases List.mem_append.mp hr with hr | hr
  · have hrp : r ≠ p := fun h => hpd (h ▸ hr)
    have hslot : slots r ≠ [] := by
      intro h0; exact hne (step_mono o order slots p r h0 hrp)
    have hq0 : slots q = [] := hE r hr hslot q hqr hsub
    by_cases hqp : q = p
    · subst hqp
      unfold slotStep; split
      · exact hq0
      · simp
    · exact step_mono o order slots p q hq0 hqp
  · have hrp : r = p := by simpa using hr
    subst hrp
    have hmem : q ∈ order (supersets o r) :=
      (hperm _ q).mpr (mem_supersets o r q (hwf.nonempty r hp) hsub)
    cases ht : target o order slots r with
    | none =>
      have := target_none o order slots r ht q hmem hqr
      simp [slotStep, ht, this]
    | some t =>
      exfalso; apply hne; simp [slotStep, ht]


/-! ### the remaining invariants: head / containment (A,B), unprocessed slots (D), partition (C) -/

theorem step_p (o : Obs P Q) (order : List P → List P) (slots : P → List P) (p : P) :
    slotStep o order slots p p = slots p ∨ slotStep o order slots p p = [] := by
  unfold slotStep; split
  · exact Or.inl rfl
  · simp

/-- value of the new slots, by cases -/
theorem step_cases (o : Obs P Q) (order : List P → List P) (slots : P → List P) (p r : P) :
    (target o order slots p = none ∧ slotStep o order slots p r = slots r) ∨
    (∃ q, target o order slots p = some q ∧ q ≠ p ∧ slots q ≠ [] ∧ q ∈ order (supersets o p) ∧
      ((r = p ∧ slotStep o order slots p r = []) ∨
       (r ≠ p ∧ r = q ∧ slotStep o order slots p r = slots q ++ slots p) ∨
       (r ≠ p ∧ r ≠ q ∧ slotStep o order slots p r = slots r))) := by
  cases ht : target o order slots p with
  | none => left; simp [slotStep, ht]
  | some q =>
    right
    obtain ⟨h1, h2, h3⟩ := target_some o order slots p q ht
    refine ⟨q, rfl, h1, h2, h3, ?_⟩
    by_cases hrp : r = p
    · left; simp [slotStep, ht, hrp]
    · by_cases hrq : r = q
      · right; left; subst hrq; simp [slotStep, ht, hrp]
      · right; right; simp [slotStep, ht, hrp, hrq]

theorem supGo_sub' (o : Obs P Q) (q : P) :
    ∀ (xs : List Q) (cands : List P), q ∈ supGo o cands xs → q ∈ cands := by
  intro xs
  induction xs with
  | nil => intro cands h; simpa [supGo] using h
  | cons x xs ih =>
    intro cands h
    simp only [supGo] at h
    split at h
    · exact (List.mem_filter.mp h).1
    · exact (List.mem_filter.mp (ih _ h)).1

/-- soundness of the candidate list is *not* needed for the partition/maximality theorems,
    only for containment: a candidate that is chosen must really be a superset.  With the early
    exit a candidate list may be cut short, but every element still passed all filters applied so
    far *and* (when the exit fires) is `p` itself; so we prove the weaker fact that suffices:
    every candidate is listed for the first peptide, and if the scan ran to the end it is listed
    for every peptide. -/
def allListed (o : Obs P Q) (q : P) (xs : List Q) : Prop := ∀ x ∈ xs, q ∈ o.protsOf x

theorem supGo_sound (o : Obs P Q) (p : P) :
    ∀ (xs : List Q) (cands : List P), p ∈ cands → allListed o p xs →
      ∀ q ∈ supGo o cands xs, q = p ∨ allListed o q xs := by
  intro xs
  induction xs with
  | nil => intro cands _ _ q _; right; intro x hx; simp at hx
  | cons x xs ih =>
    intro cands hp hall q hq
    simp only [supGo] at hq
    have hpf : p ∈ cands.filter (fun r => decide (r ∈ o.protsOf x)) := by
      simp [List.mem_filter, hp, hall x (by simp)]
    split at hq
    · rename_i hlen
      -- a list of length 1 containing p is [p]
      left
      match hc : cands.filter (fun r => decide (r ∈ o.protsOf x)), hlen with
      | [a], _ =>
        rw [hc] at hq hpf
        simp at hq hpf
        rw [hq, hpf]
    · have hqx : q ∈ o.protsOf x := by
        have := supGo_sub' o q xs _ hq
        simpa [List.mem_filter] using (List.mem_filter.mp this).2
      rcases ih _ hpf (fun y hy => hall y (by simp [hy])) q hq with h | h
      · exact Or.inl h
      · right; intro y hy
        rcases List.mem_cons.mp hy with rfl | hy
        · exact hqx
        · exact h y hy

theorem supersets_sound (o : Obs P Q) (hwf : o.WF) (p q : P) (hp : p ∈ o.keys)
    (hq : q ∈ supersets o p) : o.sub p q := by
  unfold supersets at hq
  cases hpe : o.pepsOf p with
  | nil => exact absurd hpe (hwf.nonempty p hp)
  | cons x xs =>
    rw [hpe] at hq
    simp only at hq
    have hp0 : p ∈ o.protsOf x := (hwf.consistent p x).mp (by simp [hpe])
    have hall : allListed o p xs := fun y hy => (hwf.consistent p y).mp (by simp [hpe, hy])
    have hq0 : q ∈ o.protsOf x := supGo_sub' o q xs _ hq
    rcases supGo_sound o p xs _ hp0 hall q hq with h | h
    · subst h; exact Obs.sub_refl o hwf q
    · intro y hy
      rw [hpe] at hy
      rcases List.mem_cons.mp hy with rfl | hy
      · exact hq0
      · exact h y hy

theorem step_InvB (o : Obs P Q) (hwf : o.WF) (order : List P → List P)
    (hperm : ∀ l, ∀ q, q ∈ order l ↔ q ∈ l)
    (slots : P → List P) (p : P) (hp : p ∈ o.keys) (hB : InvB o slots) :
    InvB o (slotStep o order slots p) := by
  constructor
  · intro r
    rcases step_cases o order slots p r with ⟨_, h⟩ | ⟨q, _, hqp, hq0, _, h⟩
    · rw [h]; exact hB.head r
    · rcases h with ⟨_, h⟩ | ⟨_, hrq, h⟩ | ⟨_, _, h⟩
      · left; exact h
      · right; rw [h]; subst hrq
        rcases hB.head r with h0 | h0
        · exact absurd h0 hq0
        · cases hs : slots r with
          | nil => exact absurd hs hq0
          | cons a t => rw [hs] at h0; simpa using h0
      · rw [h]; exact hB.head r
  · intro r x hx
    rcases step_cases o order slots p r with ⟨_, h⟩ | ⟨q, _, hqp, hq0, hmem, h⟩
    · rw [h] at hx; exact hB.sub r x hx
    · rcases h with ⟨_, h⟩ | ⟨_, hrq, h⟩ | ⟨_, _, h⟩
      · rw [h] at hx; simp at hx
      · rw [h] at hx; subst hrq
        rcases List.mem_append.mp hx with hx | hx
        · exact hB.sub r x hx
        · have h1 : o.sub x p := hB.sub p x hx
          have h2 : o.sub p r := supersets_sound o hwf p r hp ((hperm _ r).mp hmem)
          exact Obs.sub_trans o hwf h1 h2
      · rw [h] at hx; exact hB.sub r x hx


/-- partition invariant over the key set -/
structure InvC (o : Obs P Q) (slots : P → List P) : Prop where
  nodup : ∀ r, (slots r).Nodup
  disj  : ∀ r r', r ≠ r' → ∀ x, x ∈ slots r → x ∉ slots r'
  cover : ∀ x ∈ o.keys, ∃ r ∈ o.keys, x ∈ slots r
  inKeys : ∀ r ∈ o.keys, ∀ x ∈ slots r, x ∈ o.keys

theorem step_InvC (o : Obs P Q) (hwf : o.WF) (order : List P → List P)
    (hperm : ∀ l, ∀ q, q ∈ order l ↔ q ∈ l)
    (slots : P → List P) (p : P) (hp : p ∈ o.keys) (hC : InvC o slots) :
    InvC o (slotStep o order slots p) := by
  cases ht : target o order slots p with
  | none =>
    have heq : ∀ r, slotStep o order slots p r = slots r := by intro r; simp [slotStep, ht]
    exact ⟨fun r => by rw [heq]; exact hC.nodup r,
           fun r r' h x hx => by rw [heq] at hx ⊢; exact hC.disj r r' h x hx,
           fun x hx => by obtain ⟨r, hr, h⟩ := hC.cover x hx; exact ⟨r, hr, by rw [heq]; exact h⟩,
           fun r hr x hx => by rw [heq] at hx; exact hC.inKeys r hr x hx⟩
  | some q =>
    obtain ⟨hqp, hq0, hmem⟩ := target_some o order slots p q ht
    have hqk : q ∈ o.keys := by
      have hsub := supersets_sound o hwf p q hp ((hperm _ q).mp hmem)
      cases hpe : o.pepsOf p with
      | nil => exact absurd hpe (hwf.nonempty p hp)
      | cons x xs => exact hwf.inKeys q x (hsub x (by simp [hpe]))
    have hval : ∀ r, slotStep o order slots p r =
        if r = p then [] else if r = q then slots q ++ slots p else slots r := by
      intro r; simp [slotStep, ht]
    have hmemiff : ∀ r x, x ∈ slotStep o order slots p r ↔
        (r ≠ p ∧ ((r = q ∧ (x ∈ slots q ∨ x ∈ slots p)) ∨ (r ≠ q ∧ x ∈ slots r))) := by
      intro r x
      rw [hval]
      by_cases h1 : r = p
      · simp [h1]
      · by_cases h2 : r = q
        · subst h2; simp [h1]
        · simp [h1, h2]
    refine ⟨?_, ?_, ?_, ?_⟩
    · intro r
      rw [hval]
      by_cases h1 : r = p
      · simp [h1]
      · by_cases h2 : r = q
        · subst h2
          simp only [hqp, if_false, if_true]
          rw [List.nodup_append]
          refine ⟨hC.nodup _, hC.nodup p, ?_⟩
          intro a ha b hb hab
          subst hab
          exact hC.disj _ p hqp a ha hb
        · simp only [h1, h2, if_false]; exact hC.nodup r
    · intro r r' hne x hx hx'
      rw [hmemiff] at hx hx'
      obtain ⟨hrp, hx⟩ := hx
      obtain ⟨hrp', hx'⟩ := hx'
      rcases hx with ⟨hrq, hx⟩ | ⟨hrq, hx⟩ <;> rcases hx' with ⟨hrq', hx'⟩ | ⟨hrq', hx'⟩
      · exact hne (hrq.trans hrq'.symm)
      · rcases hx with hx | hx
        · exact hC.disj q r' (fun h => hrq' h.symm) x hx hx'
        · exact hC.disj p r' (fun h => hrp' h.symm) x hx hx'
      · rcases hx' with hx' | hx'
        · exact hC.disj r q hrq x hx hx'
        · exact hC.disj r p hrp x hx hx'
      · exact hC.disj r r' hne x hx hx'
    · intro x hx
      obtain ⟨r, hr, h⟩ := hC.cover x hx
      by_cases h1 : r = p
      · exact ⟨q, hqk, (hmemiff q x).mpr ⟨hqp, Or.inl ⟨rfl, Or.inr (h1 ▸ h)⟩⟩⟩
      · by_cases h2 : r = q
        · exact ⟨q, hqk, (hmemiff q x).mpr ⟨hqp, Or.inl ⟨rfl, Or.inl (h2 ▸ h)⟩⟩⟩
        · exact ⟨r, hr, (hmemiff r x).mpr ⟨h1, Or.inr ⟨h2, h⟩⟩⟩
    · intro r hr x hx
      rw [hmemiff] at hx
      obtain ⟨_, hx⟩ := hx
      rcases hx with ⟨_, hx | hx⟩ | ⟨_, hx⟩
      · exact hC.inKeys q hqk x hx
      · exact hC.inKeys p hp x hx
      · exact hC.inKeys r hr x hx

/-- the whole fold, with the processed prefix made explicit -/
theorem fold_inv (o : Obs P Q) (hwf : o.WF) (order : List P → List P)
    (hperm : ∀ l, ∀ q, q ∈ order l ↔ q ∈ l) :
    ∀ (rest done : List P) (slots : P → List P),
      (∀ p ∈ rest, p ∈ o.keys) → (done ++ rest).Nodup →
      InvB o slots → InvC o slots → InvE o done slots →
      InvB o (rest.foldl (slotStep o order) slots) ∧ InvC o (rest.foldl (slotStep o order) slots) ∧
      InvE o (done ++ rest) (rest.foldl (slotStep o order) slots) := by
  intro rest
  induction rest with
  | nil => intro done slots _ _ hB hC hE; simpa using ⟨hB, hC, hE⟩
  | cons p rest ih =>
    intro done slots hk hnd hB hC hE
    have hp : p ∈ o.keys := hk p (by simp)
    have hpd : p ∉ done := by
      intro h
      have := (List.nodup_append.mp hnd).2.2 p h p (by simp)
      exact this rfl
    have := ih (done ++ [p]) (slotStep o order slots p) (fun r hr => hk r (by simp [hr]))
      (by simpa [List.append_assoc] using hnd)
      (step_InvB o hwf order hperm slots p hp hB)
      (step_InvC o hwf order hperm slots p hp hC)
      (step_InvE o hwf order hperm slots done p hp hpd hE)
    simpa [List.append_assoc] using this


/-! ## Part B -/

theorem mem_firsts {α : Type} [DecidableEq α] (l : List α) (x : α) : x ∈ firsts l ↔ x ∈ l := by
  induction l with
  | nil => simp [firsts]
  | cons a l ih =>
    simp only [firsts, List.mem_cons, List.mem_filter, decide_eq_true_eq, ih]
    by_cases h : x = a <;> simp [h]

theorem nodup_firsts {α : Type} [DecidableEq α] (l : List α) : (firsts l).Nodup := by
  induction l with
  | nil => simp [firsts]
  | cons a l ih =>
    simp only [firsts, List.nodup_cons, List.mem_filter, decide_eq_true_eq, ne_eq, not_true_eq_false,
      and_false, not_false_eq_true, true_and]
    exact ih.filter _

theorem create_wf (pil : List (Q × List P)) (hkeys : (pil.map (·.1)).Nodup) : (create pil).WF := by
  constructor
  · exact nodup_firsts _
  · intro p x
    simp only [create, List.mem_flatMap, List.mem_map, List.mem_filter, decide_eq_true_eq]
    constructor
    · rintro ⟨e, he, _, ⟨hp, rfl⟩, rfl⟩
      -- the dict entry of e.1 is e itself because keys are unique
      have hfind : pil.find? (fun e' => e'.1 = e.1) = some e := by
        induction pil with
        | nil => simp at he
        | cons a l ih =>
          simp only [List.map_cons, List.nodup_cons, List.mem_map, not_exists, not_and] at hkeys
          rcases List.mem_cons.mp he with rfl | he'
          · simp
          · have hne : a.1 ≠ e.1 := fun h => hkeys.1 e he' h.symm
            simp only [List.find?_cons, hne, decide_false]
            exact ih hkeys.2 he'
      rw [hfind]; exact hp
    · intro h
      cases hf : pil.find? (fun e => e.1 = x) with
      | none => rw [hf] at h; simp at h
      | some e =>
        rw [hf] at h
        have he := List.mem_of_find?_eq_some hf
        have hx : e.1 = x := by simpa using List.find?_some hf
        exact ⟨e, he, p, ⟨h, rfl⟩, hx⟩
  · intro p x h
    simp only [create] at h ⊢
    rw [mem_firsts, List.mem_flatMap]
    cases hf : pil.find? (fun e => e.1 = x) with
    | none => rw [hf] at h; simp at h
    | some e => rw [hf] at h; exact ⟨e, List.mem_of_find?_eq_some hf, h⟩
  · intro p hp
    simp only [create] at hp ⊢
    rw [mem_firsts, List.mem_flatMap] at hp
    obtain ⟨e, he, hpe⟩ := hp
    intro hnil
    have : e.1 ∈ pil.flatMap (fun e => (e.2.filter (· = p)).map (fun _ => e.1)) := by
      rw [List.mem_flatMap]
      exact ⟨e, he, List.mem_map.mpr ⟨p, List.mem_filter.mpr ⟨hpe, by simp⟩, rfl⟩⟩
    rw [hnil] at this; simp at this


/-- the dict entry of a listed peptide is the entry itself when keys are unique -/
theorem find_entry (pil : List (Q × List P)) (hkeys : (pil.map (·.1)).Nodup) (e : Q × List P) (he : e ∈ pil) :
    pil.find? (fun e' => e'.1 = e.1) = some e := by
  induction pil with
  | nil => simp at he
  | cons a l ih =>
    simp only [List.map_cons, List.nodup_cons, List.mem_map, not_exists, not_and] at hkeys
    rcases List.mem_cons.mp he with rfl | he'
    · simp
    · have hne : a.1 ≠ e.1 := fun h => hkeys.1 e he' h.symm
      simp only [List.find?_cons, hne, decide_false]
      exact ih hkeys.2 he'

theorem mem_keys_create (pil : List (Q × List P)) (p : P) : p ∈ (create pil).keys ↔ ∃ e ∈ pil, p ∈ e.2 := by
  simp only [create, mem_firsts, List.mem_flatMap]

/-- `sub` of the created dictionaries, stated on the peptide list itself: every peptide listing `x`
    also lists `r` -/
theorem sub_create_iff (pil : List (Q × List P)) (hkeys : (pil.map (·.1)).Nodup) (x r : P) :
    (create pil).sub x r ↔ ∀ e ∈ pil, x ∈ e.2 → r ∈ e.2 := by
  constructor
  · intro h e he hx
    have h1 : e.1 ∈ (create pil).pepsOf x := by
      simp only [create, List.mem_flatMap, List.mem_map, List.mem_filter, decide_eq_true_eq]
      exact ⟨e, he, x, ⟨hx, rfl⟩, rfl⟩
    have h2 := h e.1 h1
    simp only [create, find_entry pil hkeys e he] at h2
    exact h2
  · intro h y hy
    simp only [create, List.mem_flatMap, List.mem_map, List.mem_filter, decide_eq_true_eq] at hy
    obtain ⟨e, he, _, ⟨hx, rfl⟩, rfl⟩ := hy
    simp only [create, find_entry pil hkeys e he]
    exact h e he hx

/-! ## Part C — the positional state is a rendering of the slot function -/

theorem lookup_map_keyed {β : Type} (s : List (P × β)) (f : P × β → P × β) (hf : ∀ e, (f e).1 = e.1) (r : P) :
    (s.map f).lookup r = (s.lookup r).map (fun g => (f (r, g)).2) := by
  induction s with
  | nil => rfl
  | cons e t ih =>
    obtain ⟨k, g⟩ := e
    have he : f (k, g) = (k, (f (k, g)).2) := Prod.ext (hf (k, g)) rfl
    rw [List.map_cons, he, List.lookup_cons, List.lookup_cons]
    by_cases hk : r = k
    · subst hk; simp
    · have : (r == k) = false := by simpa using hk
      simp only [this]; exact ih

theorem keys_mergeSlots (s : List (P × List P)) (q p : P) : (mergeSlots s q p).map (·.1) = s.map (·.1) := by
  unfold mergeSlots
  rw [List.map_map]
  apply List.map_congr_left
  intro e _
  simp only [Function.comp]
  split
  · rfl
  · split <;> rfl

theorem slotOf_mergeSlots (s : List (P × List P)) (q p r : P) :
    slotOf (mergeSlots s q p) r =
      match s.lookup r with
      | none => []
      | some g => if r = p then [] else if r = q then g ++ slotOf s p else g := by
  unfold slotOf mergeSlots
  rw [lookup_map_keyed]
  · cases s.lookup r with
    | none => rfl
    | some g =>
      simp only [Option.map_some, Option.getD_some]
      by_cases h1 : r = p
      · simp [h1]
      · by_cases h2 : r = q
        · subst h2; simp [h1, slotOf]
        · simp [h1, h2]
  · intro e
    split
    · rfl
    · split <;> rfl

theorem keys_stepSlots (o : Obs P Q) (s : List (P × List P)) (p : P) :
    (stepSlots o s p).map (·.1) = s.map (·.1) := by
  unfold stepSlots
  split
  · rfl
  · exact keys_mergeSlots s _ p

/-- one loop iteration of the executable model = one `slotStep` on the slot function it renders -/
theorem slotOf_stepSlots (o : Obs P Q) (s : List (P × List P)) (p : P) :
    slotOf (stepSlots o s p) = slotStep o (byPeptideCount o) (slotOf s) p := by
  funext r
  unfold stepSlots slotStep
  cases ht : target o (byPeptideCount o) (slotOf s) p with
  | none => rfl
  | some q =>
    simp only
    rw [slotOf_mergeSlots]
    obtain ⟨hqp, hq0, _⟩ := target_some o (byPeptideCount o) (slotOf s) p q ht
    cases hl : s.lookup r with
    | none =>
      have hr0 : slotOf s r = [] := by simp [slotOf, hl]
      by_cases h1 : r = p
      · simp [h1]
      · by_cases h2 : r = q
        · subst h2; exact absurd hr0 hq0
        · simp [h1, h2, hr0]
    | some g =>
      have hrg : slotOf s r = g := by simp [slotOf, hl]
      by_cases h1 : r = p
      · simp [h1]
      · by_cases h2 : r = q
        · subst h2; simp [h1, hrg]
        · simp [h1, h2, hrg]

theorem slotOf_foldl (o : Obs P Q) : ∀ (ks : List P) (s : List (P × List P)),
    slotOf (ks.foldl (stepSlots o) s) = ks.foldl (slotStep o (byPeptideCount o)) (slotOf s) := by
  intro ks
  induction ks with
  | nil => intro s; rfl
  | cons k ks ih => intro s; simp only [List.foldl_cons]; rw [ih, slotOf_stepSlots]

theorem keys_foldl (o : Obs P Q) : ∀ (ks : List P) (s : List (P × List P)),
    (ks.foldl (stepSlots o) s).map (·.1) = s.map (·.1) := by
  intro ks
  induction ks with
  | nil => intro s; rfl
  | cons k ks ih => intro s; simp only [List.foldl_cons]; rw [ih, keys_stepSlots]

/-- the slot function rendered by the initial state: a singleton for every key -/
def slots0 (o : Obs P Q) : P → List P := fun r => if r ∈ o.keys then [r] else []

theorem slotOf_singletons (ks : List P) (r : P) :
    slotOf (ks.map (fun p => (p, [p]))) r = if r ∈ ks then [r] else [] := by
  induction ks with
  | nil => rfl
  | cons k ks ih =>
    unfold slotOf at ih ⊢
    rw [List.map_cons, List.lookup_cons]
    by_cases hk : r = k
    · subst hk; simp
    · have : (r == k) = false := by simpa using hk
      simp only [this, ih, List.mem_cons, hk, false_or]

theorem slotOf_initSlots (o : Obs P Q) : slotOf (initSlots o) = slots0 o := by
  funext r; exact slotOf_singletons o.keys r

/-- the slot function after the whole loop -/
def slotsFn (o : Obs P Q) : P → List P := o.keys.foldl (slotStep o (byPeptideCount o)) (slots0 o)

theorem slotOf_finalSlots (o : Obs P Q) : slotOf (finalSlots o) = slotsFn o := by
  unfold finalSlots slotsFn
  rw [slotOf_foldl, slotOf_initSlots]

theorem keys_finalSlots (o : Obs P Q) : (finalSlots o).map (·.1) = o.keys := by
  unfold finalSlots
  rw [keys_foldl]
  unfold initSlots
  rw [List.map_map]
  conv => rhs; rw [← List.map_id o.keys]
  apply List.map_congr_left
  intro a _; rfl

theorem snd_eq_slotOf (s : List (P × List P)) (h : (s.map (·.1)).Nodup) : ∀ e ∈ s, e.2 = slotOf s e.1 := by
  induction s with
  | nil => intro e he; simp at he
  | cons a t ih =>
    obtain ⟨k, g⟩ := a
    simp only [List.map_cons, List.nodup_cons, List.mem_map, not_exists, not_and] at h
    intro e he
    rcases List.mem_cons.mp he with rfl | he'
    · simp [slotOf]
    · have hne : e.1 ≠ k := fun hh => h.1 e he' hh
      have : (e.1 == k) = false := by simpa using hne
      unfold slotOf
      rw [List.lookup_cons]
      simp only [this]
      exact ih h.2 e he'

theorem map_snd_eq (s : List (P × List P)) (h : (s.map (·.1)).Nodup) :
    s.map (·.2) = (s.map (·.1)).map (slotOf s) := by
  rw [List.map_map]
  apply List.map_congr_left
  intro e he
  exact snd_eq_slotOf s h e he

/-- the rendered nested list: the slots of the keys, in key order, empties removed -/
theorem generate_eq (o : Obs P Q) (hnd : o.keys.Nodup) :
    generate o = (o.keys.map (slotsFn o)).filter (fun g => !g.isEmpty) := by
  unfold generate render
  rw [map_snd_eq _ (by rw [keys_finalSlots]; exact hnd), keys_finalSlots, slotOf_finalSlots]

/-! ## Part D — the invariants at the end of the loop, and what they say about `generate o` -/

theorem mem_insertDesc (key : P → Nat) (x q : P) (l : List P) : q ∈ insertDesc key x l ↔ q = x ∨ q ∈ l := by
  induction l with
  | nil => simp [insertDesc]
  | cons y ys ih =>
    simp only [insertDesc]
    split
    · simp
    · simp only [List.mem_cons, ih]
      constructor
      · rintro (h | h | h)
        · exact Or.inr (Or.inl h)
        · exact Or.inl h
        · exact Or.inr (Or.inr h)
      · rintro (h | h | h)
        · exact Or.inr (Or.inl h)
        · exact Or.inl h
        · exact Or.inr (Or.inr h)

theorem mem_sortDesc (key : P → Nat) (l : List P) (q : P) : q ∈ sortDesc key l ↔ q ∈ l := by
  induction l with
  | nil => simp [sortDesc]
  | cons x xs ih => simp only [sortDesc, mem_insertDesc, ih, List.mem_cons]

theorem mem_byPeptideCount (o : Obs P Q) (l : List P) (q : P) : q ∈ byPeptideCount o l ↔ q ∈ l :=
  mem_sortDesc _ l q

theorem invB_slots0 (o : Obs P Q) (hwf : o.WF) : InvB o (slots0 o) := by
  constructor
  · intro r; unfold slots0; split
    · right; rfl
    · left; rfl
  · intro r x hx
    unfold slots0 at hx
    split at hx
    · have : x = r := by simpa using hx
      subst this; exact Obs.sub_refl o hwf x
    · simp at hx

theorem invC_slots0 (o : Obs P Q) : InvC o (slots0 o) := by
  refine ⟨?_, ?_, ?_, ?_⟩
  · intro r; unfold slots0; split <;> simp
  · intro r r' h x hx hx'
    unfold slots0 at hx hx'
    split at hx
    · split at hx'
      · have h1 : x = r := by simpa using hx
        have h2 : x = r' := by simpa using hx'
        exact h (h1.symm.trans h2)
      · simp at hx'
    · simp at hx
  · intro x hx; exact ⟨x, hx, by simp [slots0, hx]⟩
  · intro r hr x hx
    unfold slots0 at hx
    simp only [hr, if_true, List.mem_singleton] at hx
    subst hx; exact hr

/-- the three invariants hold when the loop is over -/
theorem final_inv (o : Obs P Q) (hwf : o.WF) :
    InvB o (slotsFn o) ∧ InvC o (slotsFn o) ∧ InvE o o.keys (slotsFn o) := by
  have := fold_inv o hwf (byPeptideCount o) (fun l q => mem_byPeptideCount o l q) o.keys [] (slots0 o)
    (fun p hp => hp) (by simpa using hwf.nodup) (invB_slots0 o hwf) (invC_slots0 o)
    (fun r hr => by simp at hr)
  simpa [slotsFn] using this

theorem mem_generate (o : Obs P Q) (hwf : o.WF) (g : List P) :
    g ∈ generate o ↔ ∃ r ∈ o.keys, slotsFn o r = g ∧ g ≠ [] := by
  rw [generate_eq o hwf.nodup]
  simp only [List.mem_filter, List.mem_map, Bool.not_eq_true', List.isEmpty_eq_false_iff]
  constructor
  · rintro ⟨⟨r, hr, rfl⟩, hne⟩; exact ⟨r, hr, rfl, hne⟩
  · rintro ⟨r, hr, rfl, hne⟩; exact ⟨⟨r, hr, rfl⟩, hne⟩

theorem flatten_generate (o : Obs P Q) (hwf : o.WF) : (generate o).flatten = o.keys.flatMap (slotsFn o) := by
  rw [generate_eq o hwf.nodup, List.flatten_filter_not_isEmpty, List.flatMap_def]

/-- a non-empty slot is headed by its owner -/
theorem head_slot (o : Obs P Q) (hwf : o.WF) (r : P) (hne : slotsFn o r ≠ []) : (slotsFn o r).head? = some r := by
  rcases (final_inv o hwf).1.head r with h | h
  · exact absurd h hne
  · exact h

theorem nodup_flatten_generate (o : Obs P Q) (hwf : o.WF) : (generate o).flatten.Nodup := by
  obtain ⟨_, hC, _⟩ := final_inv o hwf
  rw [flatten_generate o hwf, List.nodup_flatMap]
  refine ⟨fun r _ => hC.nodup r, ?_⟩
  apply List.Nodup.pairwise_of_forall_ne hwf.nodup
  intro a _ b _ hab
  simp only [Function.onFun]
  intro x hx hx'
  exact hC.disj a b hab x hx hx'

theorem mem_flatten_generate (o : Obs P Q) (hwf : o.WF) (x : P) : x ∈ (generate o).flatten ↔ x ∈ o.keys := by
  obtain ⟨_, hC, _⟩ := final_inv o hwf
  rw [flatten_generate o hwf, List.mem_flatMap]
  constructor
  · rintro ⟨r, hr, hx⟩; exact hC.inKeys r hr x hx
  · intro hx; obtain ⟨r, hr, h⟩ := hC.cover x hx; exact ⟨r, hr, h⟩

/-- a group of the output and its leading protein: the group is the slot of its head -/
theorem group_is_slot (o : Obs P Q) (hwf : o.WF) (g : List P) (hg : g ∈ generate o) (r : P)
    (hr : g.head? = some r) : r ∈ o.keys ∧ slotsFn o r = g ∧ g ≠ [] := by
  obtain ⟨r', hr', hslot, hne⟩ := (mem_generate o hwf g).mp hg
  have := head_slot o hwf r' (hslot ▸ hne)
  rw [hslot, hr] at this
  have : r = r' := by simpa using this
  subst this
  exact ⟨hr', hslot, hne⟩

theorem contains_generate (o : Obs P Q) (hwf : o.WF) (g : List P) (hg : g ∈ generate o) (r : P)
    (hr : g.head? = some r) (x : P) (hx : x ∈ g) : o.sub x r := by
  obtain ⟨_, hslot, _⟩ := group_is_slot o hwf g hg r hr
  exact (final_inv o hwf).1.sub r x (hslot ▸ hx)

theorem maximal_generate (o : Obs P Q) (hwf : o.WF) (g : List P) (hg : g ∈ generate o) (r : P)
    (hr : g.head? = some r) (q : P) (hq : q ∈ o.keys) (hqg : q ∉ g) : ¬ o.sub r q := by
  obtain ⟨hrk, hslot, hne⟩ := group_is_slot o hwf g hg r hr
  obtain ⟨hB, hC, hE⟩ := final_inv o hwf
  intro hsub
  have hrg : r ∈ g := by
    cases g with
    | nil => exact absurd rfl hne
    | cons a t => simp at hr; subst hr; simp
  have hqr : q ≠ r := fun h => hqg (h ▸ hrg)
  have hq0 : slotsFn o q = [] := hE r hrk (hslot ▸ hne) q hqr hsub
  obtain ⟨r', hr', hqr'⟩ := hC.cover q hq
  have hr'r : r' ≠ r := by
    intro h; subst h; exact hqg (hslot ▸ hqr')
  have hr'q : r' ≠ q := by
    intro h; subst h; rw [hq0] at hqr'; simp at hqr'
  have hsub' : o.sub r r' := Obs.sub_trans o hwf hsub (hB.sub r' q hqr')
  have : slotsFn o r' = [] := hE r hrk (hslot ▸ hne) r' hr'r hsub'
  rw [this] at hqr'; simp at hqr'

/-! ## no grouping -/

theorem noGroupsGo_eq (l : List P) : ∀ seen : List P,
    noGroupsGo seen l = ((firsts l).filter (fun x => decide (x ∉ seen))).map (fun p => [p]) := by
  induction l with
  | nil => intro seen; rfl
  | cons p ps ih =>
    intro seen
    simp only [noGroupsGo, firsts]
    by_cases hp : p ∈ seen
    · simp only [hp, if_true, List.filter_cons, not_true_eq_false, decide_false, Bool.false_eq_true, if_false]
      rw [ih seen, List.filter_filter]
      congr 1
      apply List.filter_congr
      intro x _
      by_cases hx : x = p
      · subst hx; simp [hp]
      · simp [hx]
    · simp only [hp, if_false, List.filter_cons, not_false_eq_true, decide_true, if_true, List.map_cons]
      rw [ih (p :: seen), List.filter_filter]
      congr 2
      apply List.filter_congr
      intro x _
      by_cases hx : x = p
      · subst hx; simp
      · simp [hx]

theorem noGroups_eq (pil : List (Q × List P)) :
    noGroups pil = (firsts (pil.flatMap (·.2))).map (fun p => [p]) := by
  unfold noGroups
  rw [noGroupsGo_eq]
  congr 1
  simp

theorem flatten_singletons (l : List P) : (l.map (fun p => [p])).flatten = l := by
  induction l with
  | nil => rfl
  | cons a t ih => simp [ih]

/-! ## the number of groups -/

theorem eq_of_fst_eq (pil : List (Q × List P)) (hkeys : (pil.map (·.1)).Nodup) (e e' : Q × List P)
    (he : e ∈ pil) (he' : e' ∈ pil) (h : e.1 = e'.1) : e = e' := by
  have h1 := find_entry pil hkeys e he
  have h2 := find_entry pil hkeys e' he'
  rw [h] at h1
  rw [h1] at h2
  exact Option.some.inj h2

theorem mem_pepSet (pil : List (Q × List P)) (p : P) (x : Q) :
    x ∈ pepSet pil p ↔ ∃ e ∈ pil, p ∈ e.2 ∧ e.1 = x := by
  simp only [pepSet, List.mem_map, List.mem_filter, decide_eq_true_eq]
  constructor
  · rintro ⟨e, ⟨he, hp⟩, rfl⟩; exact ⟨e, he, hp, rfl⟩
  · rintro ⟨e, he, hp, rfl⟩; exact ⟨e, ⟨he, hp⟩, rfl⟩

/-- inclusion of observed peptide sets = every peptide listing `r` lists `q` -/
theorem pepSet_subset_iff (pil : List (Q × List P)) (hkeys : (pil.map (·.1)).Nodup) (r q : P) :
    subsetB (pepSet pil r) (pepSet pil q) = true ↔ ∀ e ∈ pil, r ∈ e.2 → q ∈ e.2 := by
  simp only [subsetB, List.all_eq_true, decide_eq_true_eq]
  constructor
  · intro h e he hr
    obtain ⟨e', he', hq, hee⟩ := (mem_pepSet pil q e.1).mp (h e.1 ((mem_pepSet pil r e.1).mpr ⟨e, he, hr, rfl⟩))
    have := eq_of_fst_eq pil hkeys e' e he' he hee
    subst this; exact hq
  · intro h x hx
    obtain ⟨e, he, hr, rfl⟩ := (mem_pepSet pil r x).mp hx
    exact (mem_pepSet pil q e.1).mpr ⟨e, he, h e he hr, rfl⟩

theorem pepSet_eq_of_iff (pil : List (Q × List P)) (r q : P)
    (h1 : ∀ e ∈ pil, r ∈ e.2 → q ∈ e.2) (h2 : ∀ e ∈ pil, q ∈ e.2 → r ∈ e.2) : pepSet pil r = pepSet pil q := by
  unfold pepSet
  congr 1
  apply List.filter_congr
  intro e he
  by_cases hr : r ∈ e.2
  · simp [hr, h1 e he hr]
  · have : q ∉ e.2 := fun hq => hr (h2 e he hq)
    simp [hr, this]

/-- the leading proteins: the keys whose position is non-empty at the end -/
def leadersOfRun (o : Obs P Q) : List P := o.keys.filter (fun r => !(slotsFn o r).isEmpty)

theorem generate_eq_map_leaders (o : Obs P Q) (hnd : o.keys.Nodup) :
    generate o = (leadersOfRun o).map (slotsFn o) := by
  rw [generate_eq o hnd, leadersOfRun, List.filter_map]
  rfl

theorem heads_generate (o : Obs P Q) (hwf : o.WF) : (generate o).filterMap List.head? = leadersOfRun o := by
  rw [generate_eq_map_leaders o hwf.nodup, List.filterMap_map]
  have : ∀ r ∈ leadersOfRun o, (List.head? ∘ slotsFn o) r = some r := by
    intro r hr
    simp only [leadersOfRun, List.mem_filter, Bool.not_eq_true', List.isEmpty_eq_false_iff] at hr
    exact head_slot o hwf r hr.2
  rw [List.filterMap_congr this]
  simp

/-- every protein sits in the position of some leader that contains its peptide set -/
theorem exists_leader (o : Obs P Q) (hwf : o.WF) (q : P) (hq : q ∈ o.keys) :
    ∃ r ∈ leadersOfRun o, q ∈ slotsFn o r ∧ o.sub q r := by
  obtain ⟨hB, hC, _⟩ := final_inv o hwf
  obtain ⟨r, hr, hqr⟩ := hC.cover q hq
  refine ⟨r, ?_, hqr, hB.sub r q hqr⟩
  simp only [leadersOfRun, List.mem_filter, Bool.not_eq_true', List.isEmpty_eq_false_iff]
  exact ⟨hr, fun h => by rw [h] at hqr; simp at hqr⟩

/-- a leader's peptide set is maximal: any protein containing it has the same set -/
theorem leader_maximal_set (o : Obs P Q) (hwf : o.WF) (r : P) (hr : r ∈ leadersOfRun o) (q : P)
    (hq : q ∈ o.keys) (hsub : o.sub r q) : o.sub q r := by
  obtain ⟨hB, hC, hE⟩ := final_inv o hwf
  simp only [leadersOfRun, List.mem_filter, Bool.not_eq_true', List.isEmpty_eq_false_iff] at hr
  by_cases hqr : q = r
  · subst hqr; exact Obs.sub_refl o hwf q
  · obtain ⟨r', hr', hqr', hsub'⟩ := exists_leader o hwf q hq
    by_cases h : r' = r
    · subst h; exact hsub'
    · exfalso
      have := hE r hr.1 hr.2 r' h (Obs.sub_trans o hwf hsub hsub')
      rw [this] at hqr'; simp at hqr'

/-- two different leaders never have comparable peptide sets -/
theorem leaders_incomparable (o : Obs P Q) (hwf : o.WF) (r r' : P) (hr : r ∈ leadersOfRun o)
    (hr' : r' ∈ leadersOfRun o) (hsub : o.sub r r') : r = r' := by
  obtain ⟨_, _, hE⟩ := final_inv o hwf
  simp only [leadersOfRun, List.mem_filter, Bool.not_eq_true', List.isEmpty_eq_false_iff] at hr hr'
  by_contra hne
  exact hr'.2 (hE r hr.1 hr.2 r' (fun h => hne h.symm) hsub)

/-- the peptide sets of the leading proteins are, one for one, the distinct inclusion-maximal sets -/
theorem leader_sets_perm (pil : List (Q × List P)) (hkeys : (pil.map (·.1)).Nodup) :
    ((leadersOfRun (create pil)).map (pepSet pil)).Perm (maximalSets pil) := by
  have hwf := create_wf pil hkeys
  let o : Obs P Q := create pil
  show ((leadersOfRun o).map (pepSet pil)).Perm (maximalSets pil)
  have hmemk : ∀ q, q ∈ o.keys ↔ q ∈ pil.flatMap (·.2) := fun q => mem_firsts _ q
  have hsub : ∀ a b, o.sub a b ↔ ∀ e ∈ pil, a ∈ e.2 → b ∈ e.2 := sub_create_iff pil hkeys
  have hnd1 : ((leadersOfRun o).map (pepSet pil)).Nodup := by
    apply List.Nodup.map_on
    · intro r hr r' hr' heq
      apply leaders_incomparable o hwf r r' hr hr'
      rw [hsub, ← pepSet_subset_iff pil hkeys, heq]
      simp [subsetB]
    · exact hwf.nodup.filter _
  have hnd2 : (maximalSets pil).Nodup := (nodup_firsts _).filter _
  rw [List.perm_ext_iff_of_nodup hnd1 hnd2]
  intro A
  simp only [maximalSets, List.mem_filter, mem_firsts, List.mem_map, List.all_eq_true, Bool.or_eq_true,
    Bool.not_eq_true', decide_eq_true_eq]
  constructor
  · rintro ⟨r, hr, rfl⟩
    have hrk : r ∈ o.keys := (List.mem_filter.mp hr).1
    refine ⟨⟨r, (hmemk r).mp hrk, rfl⟩, ?_⟩
    rintro B ⟨q, hq, rfl⟩
    by_cases hs : subsetB (pepSet pil r) (pepSet pil q) = true
    · right
      have h1 : o.sub r q := (hsub r q).mpr ((pepSet_subset_iff pil hkeys r q).mp hs)
      have h2 : o.sub q r := leader_maximal_set o hwf r hr q ((hmemk q).mpr hq) h1
      exact pepSet_eq_of_iff pil q r ((hsub q r).mp h2) ((hsub r q).mp h1)
    · left; simpa using hs
  · rintro ⟨⟨q, hq, rfl⟩, hmax⟩
    obtain ⟨r, hr, _, hqr⟩ := exists_leader o hwf q ((hmemk q).mpr hq)
    have hrk : r ∈ o.keys := (List.mem_filter.mp hr).1
    refine ⟨r, hr, ?_⟩
    rcases hmax (pepSet pil r) ⟨r, (hmemk r).mp hrk, rfl⟩ with h | h
    · exfalso
      have := (pepSet_subset_iff pil hkeys q r).mpr ((hsub q r).mp hqr)
      rw [this] at h; simp at h
    · exact h

theorem length_generate_eq_maximalSets (pil : List (Q × List P)) (hkeys : (pil.map (·.1)).Nodup) :
    (subsetGroups pil).length = (maximalSets pil).length := by
  have hwf := create_wf pil hkeys
  unfold subsetGroups
  rw [generate_eq_map_leaders _ hwf.nodup, List.length_map, ← List.length_map (pepSet pil)]
  exact (leader_sets_perm pil hkeys).length_eq

/-! ## connected components by closure iteration -/
section Reach
variable {α : Type} [DecidableEq α]

def Adj (adj : α → List α) (a b : α) : Prop := b ∈ adj a

theorem fresh_sound (adj : α → List α) (S : List α) (x : α) (hx : x ∈ fresh adj S) :
    ∃ a ∈ S, Adj adj a x := by
  simp only [fresh, mem_firsts, List.mem_filter, List.mem_flatMap] at hx
  obtain ⟨⟨a, ha, hax⟩, _⟩ := hx
  exact ⟨a, ha, hax⟩

theorem iter_sound (adj : α → List α) : ∀ (k : Nat) (S : List α) (x : α), x ∈ iter adj k S →
    ∃ s ∈ S, Relation.ReflTransGen (Adj adj) s x := by
  intro k
  induction k with
  | zero => intro S x hx; exact ⟨x, hx, Relation.ReflTransGen.refl⟩
  | succ k ih =>
    intro S x hx
    simp only [iter] at hx
    split at hx
    · exact ⟨x, hx, Relation.ReflTransGen.refl⟩
    · obtain ⟨s, hs, hsx⟩ := ih _ x hx
      rcases List.mem_append.mp hs with hs | hs
      · exact ⟨s, hs, hsx⟩
      · obtain ⟨a, ha, has⟩ := fresh_sound adj S s hs
        exact ⟨a, ha, Relation.ReflTransGen.head has hsx⟩

theorem closed_of_fresh_nil (adj : α → List α) (S : List α) (h : fresh adj S = []) :
    ∀ a ∈ S, ∀ b ∈ adj a, b ∈ S := by
  intro a ha b hb
  by_contra hnot
  have : b ∈ fresh adj S := by
    simp only [fresh, mem_firsts, List.mem_filter, List.mem_flatMap, decide_eq_true_eq]
    exact ⟨⟨a, ha, hb⟩, hnot⟩
  rw [h] at this; simp at this

theorem closed_complete (adj : α → List α) (S : List α) (hcl : ∀ a ∈ S, ∀ b ∈ adj a, b ∈ S)
    (s x : α) (hs : s ∈ S) (h : Relation.ReflTransGen (Adj adj) s x) : x ∈ S := by
  induction h with
  | refl => exact hs
  | tail _ hstep ih => exact hcl _ ih _ hstep

theorem iter_mono (adj : α → List α) : ∀ (k : Nat) (S : List α), ∀ x ∈ S, x ∈ iter adj k S := by
  intro k
  induction k with
  | zero => intro S x hx; exact hx
  | succ k ih =>
    intro S x hx
    simp only [iter]
    split
    · exact hx
    · exact ih _ x (List.mem_append_left _ hx)

theorem nodup_append_fresh (adj : α → List α) (S : List α) (hS : S.Nodup) : (S ++ fresh adj S).Nodup := by
  rw [List.nodup_append]
  refine ⟨hS, nodup_firsts _, ?_⟩
  intro x hx y hy hxy
  subst hxy
  simp only [fresh, mem_firsts, List.mem_filter, decide_eq_true_eq] at hy
  exact hy.2 hx

theorem iter_nodup (adj : α → List α) : ∀ (k : Nat) (S : List α), S.Nodup → (iter adj k S).Nodup := by
  intro k
  induction k with
  | zero => intro S h; exact h
  | succ k ih =>
    intro S h
    simp only [iter]
    split
    · exact h
    · exact ih _ (nodup_append_fresh adj S h)

theorem iter_closed (adj : α → List α) (U : List α) (hU : U.Nodup)
    (hadj : ∀ a ∈ U, ∀ b ∈ adj a, b ∈ U) :
    ∀ (k : Nat) (S : List α), S.Nodup → (∀ x ∈ S, x ∈ U) → U.length ≤ S.length + k →
      ∀ a ∈ iter adj k S, ∀ b ∈ adj a, b ∈ iter adj k S := by
  intro k
  induction k with
  | zero =>
    intro S hS hSU hlen a ha b hb
    simp only [iter] at ha ⊢
    have hsub : S.Subperm U := List.subperm_of_subset hS hSU
    have hperm : S.Perm U := hsub.perm_of_length_le (by omega)
    exact hperm.symm.subset (hadj a (hSU a ha) b hb)
  | succ k ih =>
    intro S hS hSU hlen a ha b hb
    simp only [iter] at ha ⊢
    split
    · rename_i hnil
      simp only [hnil, if_true] at ha
      exact closed_of_fresh_nil adj S hnil a ha b hb
    · rename_i hne
      simp only [hne, if_false] at ha
      have hS' : (S ++ fresh adj S).Nodup := nodup_append_fresh adj S hS
      have hSU' : ∀ x ∈ S ++ fresh adj S, x ∈ U := by
        intro x hx
        rcases List.mem_append.mp hx with hx | hx
        · exact hSU x hx
        · obtain ⟨a', ha', hax⟩ := fresh_sound adj S x hx
          exact hadj a' (hSU a' ha') x hax
      have hpos : 0 < (fresh adj S).length := List.length_pos_iff.mpr hne
      exact ih _ hS' hSU' (by simp only [List.length_append]; omega) a ha b hb

/-- the component of `s`: exactly the nodes reachable from `s` -/
theorem mem_component (adj : α → List α) (U : List α) (hU : U.Nodup)
    (hadj : ∀ a ∈ U, ∀ b ∈ adj a, b ∈ U) (s : α) (hs : s ∈ U) (x : α) :
    x ∈ iter adj U.length [s] ↔ Relation.ReflTransGen (Adj adj) s x := by
  constructor
  · intro h
    obtain ⟨s', hs', hr⟩ := iter_sound adj _ _ x h
    simp at hs'; subst hs'; exact hr
  · intro h
    have hcl := iter_closed adj U hU hadj U.length [s] (by simp) (by simpa using hs) (by simp)
    exact closed_complete adj _ hcl s x (iter_mono adj _ _ s (by simp)) h

end Reach

/-! ## sorting preserves membership -/

theorem insertAsc_perm (le : P → P → Bool) (x : P) (l : List P) : (insertAsc le x l).Perm (x :: l) := by
  induction l with
  | nil => simp [insertAsc]
  | cons y ys ih =>
    simp only [insertAsc]
    split
    · exact List.Perm.refl _
    · exact (List.Perm.cons y ih).trans (List.Perm.swap x y ys)

theorem sortAsc_perm (le : P → P → Bool) (l : List P) : (sortAsc le l).Perm l := by
  induction l with
  | nil => simp [sortAsc]
  | cons x xs ih => exact (insertAsc_perm le x _).trans (List.Perm.cons x ih)

theorem mem_sortAsc (le : P → P → Bool) (l : List P) (q : P) : q ∈ sortAsc le l ↔ q ∈ l :=
  (sortAsc_perm le l).mem_iff

theorem mem_canon (le : P → P → Bool) (l : List P) (q : P) : q ∈ canon le l ↔ q ∈ l := by
  unfold canon; rw [mem_sortAsc, mem_firsts]

/-! ## leaders -/

theorem mem_leadersOfRun (o : Obs P Q) (r : P) : r ∈ leadersOfRun o ↔ r ∈ o.keys ∧ slotsFn o r ≠ [] := by
  simp [leadersOfRun, List.mem_filter]

theorem leader_mem_own_slot (o : Obs P Q) (hwf : o.WF) (r : P) (hr : r ∈ leadersOfRun o) : r ∈ slotsFn o r := by
  have h := head_slot o hwf r ((mem_leadersOfRun o r).mp hr).2
  cases hs : slotsFn o r with
  | nil => rw [hs] at h; simp at h
  | cons a t => rw [hs] at h; simp at h; subst h; simp

theorem slot_unique (o : Obs P Q) (hwf : o.WF) (x r r' : P) (h : x ∈ slotsFn o r) (h' : x ∈ slotsFn o r') : r = r' := by
  by_contra hne
  exact (final_inv o hwf).2.1.disj r r' hne x h h'

theorem leaderOf_eq (o : Obs P Q) (hwf : o.WF) (p r : P) (hr : r ∈ leadersOfRun o) (hp : p ∈ slotsFn o r) :
    leaderOf (generate o) p = some r := by
  unfold leaderOf
  have hmem : slotsFn o r ∈ generate o :=
    (mem_generate o hwf _).mpr ⟨r, ((mem_leadersOfRun o r).mp hr).1, rfl, ((mem_leadersOfRun o r).mp hr).2⟩
  cases hf : (generate o).find? (fun g => decide (p ∈ g)) with
  | none =>
    have := List.find?_eq_none.mp hf _ hmem
    simp [hp] at this
  | some g =>
    have hpg : p ∈ g := by simpa using List.find?_some hf
    obtain ⟨r', hr', hslot, hne⟩ := (mem_generate o hwf g).mp (List.mem_of_find?_eq_some hf)
    have : r = r' := slot_unique o hwf p r r' hp (hslot ▸ hpg)
    subst this
    simp only [Option.bind_some, ← hslot]
    exact head_slot o hwf r (hslot ▸ hne)

theorem leaderOf_some (o : Obs P Q) (hwf : o.WF) (p r : P) (h : leaderOf (generate o) p = some r) :
    r ∈ leadersOfRun o ∧ p ∈ slotsFn o r := by
  unfold leaderOf at h
  cases hf : (generate o).find? (fun g => decide (p ∈ g)) with
  | none => rw [hf] at h; simp at h
  | some g =>
    rw [hf] at h
    simp only [Option.bind_some] at h
    have hpg : p ∈ g := by simpa using List.find?_some hf
    obtain ⟨hrk, hslot, hne⟩ := group_is_slot o hwf g (List.mem_of_find?_eq_some hf) r h
    exact ⟨(mem_leadersOfRun o r).mpr ⟨hrk, hslot ▸ hne⟩, hslot ▸ hpg⟩

/-- every observed protein has a leader: its subset group's first member, whose peptide set contains its own -/
theorem exists_leaderOf (o : Obs P Q) (hwf : o.WF) (p : P) (hp : p ∈ o.keys) :
    ∃ r ∈ leadersOfRun o, leaderOf (generate o) p = some r ∧ p ∈ slotsFn o r ∧ o.sub p r := by
  obtain ⟨r, hr, hpr, hsub⟩ := exists_leader o hwf p hp
  exact ⟨r, hr, leaderOf_eq o hwf p r hr hpr, hpr, hsub⟩

/-! ## the bipartite graph -/

theorem mem_pseudoNodes (le : P → P → Bool) (o : Obs P Q) (G : List (List P)) (a : P) (n : Node P) :
    n ∈ pseudoNodes le o G a ↔ ∃ x ∈ o.pepsOf a, n = Node.pep (canon le ((o.protsOf x).filterMap (leaderOf G))) := by
  simp only [pseudoNodes, List.mem_map]
  constructor
  · rintro ⟨x, hx, rfl⟩; exact ⟨x, hx, rfl⟩
  · rintro ⟨x, hx, rfl⟩; exact ⟨x, hx, rfl⟩

theorem adj_prot (le : P → P → Bool) (o : Obs P Q) (G : List (List P)) (a : P) (m : Node P) :
    m ∈ adj le o G (.prot a) ↔ a ∈ G.filterMap List.head? ∧ m ∈ pseudoNodes le o G a := by
  simp only [adj]
  split
  · rename_i h; simp [h]
  · rename_i h; simp [h]

theorem adj_pep (le : P → P → Bool) (o : Obs P Q) (G : List (List P)) (N : List P) (m : Node P) :
    m ∈ adj le o G (.pep N) ↔ ∃ a ∈ G.filterMap List.head?, m = .prot a ∧ Node.pep N ∈ pseudoNodes le o G a := by
  simp only [adj, List.mem_map, List.mem_filter, decide_eq_true_eq]
  constructor
  · rintro ⟨a, ⟨ha, hN⟩, rfl⟩; exact ⟨a, ha, rfl, hN⟩
  · rintro ⟨a, ha, rfl, hN⟩; exact ⟨a, ⟨ha, hN⟩, rfl⟩

theorem adj_symm (le : P → P → Bool) (o : Obs P Q) (G : List (List P)) (n m : Node P) :
    m ∈ adj le o G n → n ∈ adj le o G m := by
  intro h
  cases n with
  | prot a =>
    obtain ⟨ha, hm⟩ := (adj_prot le o G a m).mp h
    obtain ⟨x, hx, rfl⟩ := (mem_pseudoNodes le o G a m).mp hm
    exact (adj_pep le o G _ _).mpr ⟨a, ha, rfl, hm⟩
  | pep N =>
    obtain ⟨a, ha, rfl, hN⟩ := (adj_pep le o G N m).mp h
    exact (adj_prot le o G a _).mpr ⟨ha, hN⟩

theorem mem_allNodes (le : P → P → Bool) (o : Obs P Q) (G : List (List P)) (n : Node P) :
    n ∈ allNodes le o G ↔ ∃ a ∈ G.filterMap List.head?, n = .prot a ∨ n ∈ pseudoNodes le o G a := by
  simp only [allNodes, mem_firsts, List.mem_flatMap, List.mem_cons]

theorem allNodes_closed (le : P → P → Bool) (o : Obs P Q) (G : List (List P)) :
    ∀ n ∈ allNodes le o G, ∀ m ∈ adj le o G n, m ∈ allNodes le o G := by
  intro n hn m hm
  cases n with
  | prot a =>
    obtain ⟨ha, hm⟩ := (adj_prot le o G a m).mp hm
    exact (mem_allNodes le o G m).mpr ⟨a, ha, Or.inr hm⟩
  | pep N =>
    obtain ⟨a, ha, rfl, hN⟩ := (adj_pep le o G N m).mp hm
    exact (mem_allNodes le o G _).mpr ⟨a, ha, Or.inl rfl⟩

/-- connectivity of two leading proteins in the bipartite graph -/
def Conn (le : P → P → Bool) (o : Obs P Q) (a b : P) : Prop :=
  Relation.ReflTransGen (Adj (adj le o (generate o))) (Node.prot a) (Node.prot b)

theorem Conn.refl (le : P → P → Bool) (o : Obs P Q) (a : P) : Conn le o a a := Relation.ReflTransGen.refl

theorem Conn.trans {le : P → P → Bool} {o : Obs P Q} {a b c : P} (h1 : Conn le o a b) (h2 : Conn le o b c) :
    Conn le o a c := Relation.ReflTransGen.trans h1 h2

theorem Conn.symm {le : P → P → Bool} {o : Obs P Q} {a b : P} (h : Conn le o a b) : Conn le o b a := by
  have gen : ∀ n m : Node P, Relation.ReflTransGen (Adj (adj le o (generate o))) n m →
      Relation.ReflTransGen (Adj (adj le o (generate o))) m n := by
    intro n m hnm
    induction hnm with
    | refl => exact Relation.ReflTransGen.refl
    | tail _ hbc ih => exact Relation.ReflTransGen.head (adj_symm le o _ _ _ hbc) ih
  exact gen _ _ h

/-- the sorted protein nodes of the component of a leading protein: exactly the connected leaders -/
theorem mem_componentOf (le : P → P → Bool) (o : Obs P Q) (hwf : o.WF) (a : P) (ha : a ∈ leadersOfRun o) (b : P) :
    b ∈ componentOf le o (generate o) a ↔ Conn le o a b := by
  unfold componentOf Conn
  rw [mem_sortAsc, List.mem_filterMap]
  have hU : (allNodes le o (generate o)).Nodup := nodup_firsts _
  have haU : Node.prot a ∈ allNodes le o (generate o) :=
    (mem_allNodes le o _ _).mpr ⟨a, by rw [heads_generate o hwf]; exact ha, Or.inl rfl⟩
  have key := mem_component (adj le o (generate o)) _ hU (allNodes_closed le o _) (Node.prot a) haU
  constructor
  · rintro ⟨n, hn, hnb⟩
    cases n with
    | prot p => simp at hnb; subst hnb; exact (key _).mp hn
    | pep N => simp at hnb
  · intro h
    exact ⟨Node.prot b, (key _).mpr h, rfl⟩

theorem nodup_componentOf (le : P → P → Bool) (o : Obs P Q) (a : P) : (componentOf le o (generate o) a).Nodup := by
  unfold componentOf
  rw [(sortAsc_perm le _).nodup_iff]
  have hnd : (iter (adj le o (generate o)) (allNodes le o (generate o)).length [Node.prot a]).Nodup :=
    iter_nodup _ _ _ (by simp)
  refine List.Nodup.filterMap ?_ hnd
  intro n m p hn hm
  cases n <;> cases m <;> simp_all

/-- a connected node is a leader -/
theorem conn_leader (le : P → P → Bool) (o : Obs P Q) (hwf : o.WF) (a b : P) (ha : a ∈ leadersOfRun o)
    (h : Conn le o a b) : b ∈ leadersOfRun o := by
  unfold Conn at h
  rcases Relation.ReflTransGen.cases_tail h with heq | ⟨n, _, hnb⟩
  · have : a = b := by simpa using heq.symm
    -- `cases_tail` gives b = a
    subst this; exact ha
  · have := adj_symm le o _ n _ hnb
    obtain ⟨hb, _⟩ := (adj_prot le o _ b n).mp this
    rw [heads_generate o hwf] at hb
    exact hb


/-! ## connectivity in the bipartite graph = connectivity through shared peptides -/

/-- two proteins are listed together by some peptide -/
def Share (o : Obs P Q) (p q : P) : Prop := ∃ x, p ∈ o.protsOf x ∧ q ∈ o.protsOf x

theorem Share.symm {o : Obs P Q} {p q : P} (h : Share o p q) : Share o q p := by
  obtain ⟨x, h1, h2⟩ := h; exact ⟨x, h2, h1⟩

theorem share_keys (o : Obs P Q) (hwf : o.WF) {p q : P} (h : Share o p q) : p ∈ o.keys ∧ q ∈ o.keys := by
  obtain ⟨x, h1, h2⟩ := h; exact ⟨hwf.inKeys p x h1, hwf.inKeys q x h2⟩

theorem share_of_sub (o : Obs P Q) (hwf : o.WF) (p r : P) (hp : p ∈ o.keys) (h : o.sub p r) : Share o p r := by
  cases hpe : o.pepsOf p with
  | nil => exact absurd hpe (hwf.nonempty p hp)
  | cons y ys =>
    have hy : y ∈ o.pepsOf p := by simp [hpe]
    exact ⟨y, (hwf.consistent p y).mp hy, h y hy⟩

theorem rtg_share_symm (o : Obs P Q) {p q : P} (h : Relation.ReflTransGen (Share o) p q) :
    Relation.ReflTransGen (Share o) q p := by
  induction h with
  | refl => exact Relation.ReflTransGen.refl
  | tail _ hbc ih => exact Relation.ReflTransGen.head hbc.symm ih

/-- a leader `a` with peptide `x`, a protein `c` listed by `x`, its leader `b`: `a` and `b` meet at the
    pseudo-peptide node of `x` -/
theorem link (le : P → P → Bool) (o : Obs P Q) (hwf : o.WF) (a : P) (ha : a ∈ leadersOfRun o) (x : Q)
    (hx : x ∈ o.pepsOf a) (c b : P) (hc : c ∈ o.protsOf x) (hb : leaderOf (generate o) c = some b) :
    Conn le o a b := by
  obtain ⟨hbH, hcb⟩ := leaderOf_some o hwf c b hb
  have hsub : o.sub c b := (final_inv o hwf).1.sub b c hcb
  have hxb : x ∈ o.pepsOf b := (hwf.consistent b x).mpr (hsub x ((hwf.consistent c x).mpr hc))
  have hheads := heads_generate o hwf
  let N := canon le ((o.protsOf x).filterMap (leaderOf (generate o)))
  have h1 : Node.pep N ∈ adj le o (generate o) (.prot a) :=
    (adj_prot le o _ a _).mpr ⟨by rw [hheads]; exact ha, (mem_pseudoNodes le o _ a _).mpr ⟨x, hx, rfl⟩⟩
  have h2 : Node.prot b ∈ adj le o (generate o) (.pep N) :=
    (adj_pep le o _ N _).mpr ⟨b, by rw [hheads]; exact hbH, rfl, (mem_pseudoNodes le o _ b _).mpr ⟨x, hxb, rfl⟩⟩
  exact Relation.ReflTransGen.tail (Relation.ReflTransGen.single h1) h2

/-- sharing a peptide connects the leaders -/
theorem conn_of_share (le : P → P → Bool) (o : Obs P Q) (hwf : o.WF) (p q a b : P) (h : Share o p q)
    (ha : a ∈ leadersOfRun o) (hpa : p ∈ slotsFn o a) (hb : b ∈ leadersOfRun o) (hqb : q ∈ slotsFn o b) :
    Conn le o a b := by
  obtain ⟨x, hpx, hqx⟩ := h
  have hsub : o.sub p a := (final_inv o hwf).1.sub a p hpa
  have hxa : x ∈ o.pepsOf a := (hwf.consistent a x).mpr (hsub x ((hwf.consistent p x).mpr hpx))
  exact link le o hwf a ha x hxa q b hqx (leaderOf_eq o hwf q b hb hqb)

theorem conn_of_rtg_share (le : P → P → Bool) (o : Obs P Q) (hwf : o.WF) (p q : P)
    (h : Relation.ReflTransGen (Share o) p q) :
    ∀ a b, a ∈ leadersOfRun o → p ∈ slotsFn o a → b ∈ leadersOfRun o → q ∈ slotsFn o b → Conn le o a b := by
  induction h with
  | refl =>
    intro a b ha hpa hb hpb
    have : a = b := slot_unique o hwf p a b hpa hpb
    subst this; exact Conn.refl le o a
  | @tail m q' hpm hmq ih =>
    intro a b ha hpa hb hqb
    obtain ⟨hm, _⟩ := share_keys o hwf hmq
    obtain ⟨c, hc, hmc, _⟩ := exists_leader o hwf m hm
    exact (ih a c ha hpa hc hmc).trans (conn_of_share le o hwf m q' c b hmq hc hmc hb hqb)

/-- connectivity of leaders in the bipartite graph only ever follows shared peptides -/
theorem rtg_share_of_conn (le : P → P → Bool) (o : Obs P Q) (hwf : o.WF) (a b : P) (ha : a ∈ leadersOfRun o)
    (h : Conn le o a b) : Relation.ReflTransGen (Share o) a b := by
  have hheads := heads_generate o hwf
  have gen : ∀ n : Node P, Relation.ReflTransGen (Adj (adj le o (generate o))) (Node.prot a) n →
      match n with
      | .prot b => Relation.ReflTransGen (Share o) a b
      | .pep N => ∀ b ∈ N, Relation.ReflTransGen (Share o) a b := by
    intro n hn
    induction hn with
    | refl => exact Relation.ReflTransGen.refl
    | @tail n m _ hstep ih =>
      cases n with
      | prot a' =>
        obtain ⟨ha', hm⟩ := (adj_prot le o _ a' m).mp hstep
        rw [hheads] at ha'
        obtain ⟨x, hx, rfl⟩ := (mem_pseudoNodes le o _ a' m).mp hm
        simp only at ih ⊢
        intro b hb
        rw [mem_canon, List.mem_filterMap] at hb
        obtain ⟨c, hc, hcb⟩ := hb
        obtain ⟨hbH, hcslot⟩ := leaderOf_some o hwf c b hcb
        have hck : c ∈ o.keys := hwf.inKeys c x hc
        have h1 : Share o a' c := ⟨x, (hwf.consistent a' x).mp hx, hc⟩
        have h2 : Share o c b := share_of_sub o hwf c b hck ((final_inv o hwf).1.sub b c hcslot)
        exact (ih.tail h1).tail h2
      | pep N =>
        obtain ⟨b, hb, rfl, hN⟩ := (adj_pep le o _ N m).mp hstep
        rw [hheads] at hb
        obtain ⟨y, hy, hNeq⟩ := (mem_pseudoNodes le o _ b _).mp hN
        simp only at ih ⊢
        apply ih
        have hNeq' : N = canon le ((o.protsOf y).filterMap (leaderOf (generate o))) := by simpa using hNeq
        rw [hNeq', mem_canon, List.mem_filterMap]
        exact ⟨b, (hwf.consistent b y).mp hy, leaderOf_eq o hwf b b hb (leader_mem_own_slot o hwf b hb)⟩
  exact gen _ h


/-! ## merging the positions of connected leaders -/

/-- `merge_groups(l, p)` on the slot function -/
def mergeFn (σ : P → List P) (l p : P) : P → List P :=
  fun r => if r = p then [] else if r = l then σ l ++ σ p else σ r

theorem lookup_isSome_of_key {β : Type} (s : List (P × β)) (l : P) (hl : l ∈ s.map (·.1)) :
    ∃ g, s.lookup l = some g := by
  induction s with
  | nil => simp at hl
  | cons e t ih =>
    obtain ⟨k, g⟩ := e
    rw [List.lookup_cons]
    by_cases hk : l = k
    · subst hk; exact ⟨g, by simp⟩
    · have : (l == k) = false := by simpa using hk
      simp only [this]
      apply ih
      simp only [List.map_cons, List.mem_cons] at hl
      rcases hl with h | h
      · exact absurd h hk
      · exact h

theorem slotOf_mergeSlots_fn (s : List (P × List P)) (l p : P) (hl : l ∈ s.map (·.1)) :
    slotOf (mergeSlots s l p) = mergeFn (slotOf s) l p := by
  funext r
  rw [slotOf_mergeSlots]
  unfold mergeFn
  cases hlk : s.lookup r with
  | none =>
    have hr0 : slotOf s r = [] := by simp [slotOf, hlk]
    have hrl : r ≠ l := by
      intro h; subst h
      obtain ⟨g, hg⟩ := lookup_isSome_of_key s r hl
      rw [hlk] at hg; simp at hg
    by_cases h1 : r = p
    · simp [h1]
    · simp [h1, hrl, hr0]
  | some g =>
    have hrg : slotOf s r = g := by simp [slotOf, hlk]
    by_cases h1 : r = p
    · simp [h1]
    · by_cases h2 : r = l
      · subst h2; simp [h1, hrg]
      · simp [h1, h2, hrg]

theorem mem_mergeFn (σ : P → List P) (l p r x : P) :
    x ∈ mergeFn σ l p r ↔ (r ≠ p ∧ ((r = l ∧ (x ∈ σ l ∨ x ∈ σ p)) ∨ (r ≠ l ∧ x ∈ σ r))) := by
  unfold mergeFn
  by_cases h1 : r = p
  · simp [h1]
  · by_cases h2 : r = l
    · subst h2; simp [h1]
    · simp [h1, h2]

/-- the state of the pseudo-gene merge loop: a partition of the observed proteins into positions owned by
    leading proteins, every member's own leader connected to the owner -/
structure PInv (le : P → P → Bool) (o : Obs P Q) (σ : P → List P) : Prop where
  nodup : ∀ r, (σ r).Nodup
  disj : ∀ r r', r ≠ r' → ∀ x, x ∈ σ r → x ∉ σ r'
  cover : ∀ x ∈ o.keys, ∃ r ∈ leadersOfRun o, x ∈ σ r
  owner : ∀ r x, x ∈ σ r → r ∈ leadersOfRun o ∧ x ∈ o.keys
  pure : ∀ r x, x ∈ σ r → ∀ a ∈ leadersOfRun o, x ∈ slotsFn o a → Conn le o a r

/-- all positions of the component of `a` are empty except (at most) one -/
def Done (le : P → P → Bool) (o : Obs P Q) (σ : P → List P) (a : P) : Prop :=
  ∃ r, ∀ b ∈ leadersOfRun o, Conn le o a b → b ≠ r → σ b = []

theorem pinv_merge (le : P → P → Bool) (o : Obs P Q) (σ : P → List P) (l p : P)
    (hl : l ∈ leadersOfRun o) (hne : l ≠ p) (hconn : Conn le o l p)
    (h : PInv le o σ) : PInv le o (mergeFn σ l p) := by
  refine ⟨?_, ?_, ?_, ?_, ?_⟩
  · intro r
    unfold mergeFn
    by_cases h1 : r = p
    · simp [h1]
    · by_cases h2 : r = l
      · subst h2
        simp only [h1, if_false, if_true]
        rw [List.nodup_append]
        refine ⟨h.nodup _, h.nodup p, ?_⟩
        intro a ha b hb hab
        subst hab
        exact h.disj _ p hne a ha hb
      · simp only [h1, h2, if_false]; exact h.nodup r
  · intro r r' hrr x hx hx'
    rw [mem_mergeFn] at hx hx'
    obtain ⟨hrp, hx⟩ := hx
    obtain ⟨hrp', hx'⟩ := hx'
    rcases hx with ⟨hrq, hx⟩ | ⟨hrq, hx⟩ <;> rcases hx' with ⟨hrq', hx'⟩ | ⟨hrq', hx'⟩
    · exact hrr (hrq.trans hrq'.symm)
    · rcases hx with hx | hx
      · exact h.disj l r' (fun hh => hrq' hh.symm) x hx hx'
      · exact h.disj p r' (fun hh => hrp' hh.symm) x hx hx'
    · rcases hx' with hx' | hx'
      · exact h.disj r l hrq x hx hx'
      · exact h.disj r p hrp x hx hx'
    · exact h.disj r r' hrr x hx hx'
  · intro x hx
    obtain ⟨r, hr, hxr⟩ := h.cover x hx
    by_cases h1 : r = p
    · exact ⟨l, hl, (mem_mergeFn σ l p l x).mpr ⟨hne, Or.inl ⟨rfl, Or.inr (h1 ▸ hxr)⟩⟩⟩
    · by_cases h2 : r = l
      · exact ⟨l, hl, (mem_mergeFn σ l p l x).mpr ⟨hne, Or.inl ⟨rfl, Or.inl (h2 ▸ hxr)⟩⟩⟩
      · exact ⟨r, hr, (mem_mergeFn σ l p r x).mpr ⟨h1, Or.inr ⟨h2, hxr⟩⟩⟩
  · intro r x hx
    rw [mem_mergeFn] at hx
    obtain ⟨_, hx⟩ := hx
    rcases hx with ⟨hrl, hx | hx⟩ | ⟨_, hx⟩
    · exact ⟨hrl ▸ hl, (h.owner l x hx).2⟩
    · exact ⟨hrl ▸ hl, (h.owner p x hx).2⟩
    · exact h.owner r x hx
  · intro r x hx a ha hxa
    rw [mem_mergeFn] at hx
    obtain ⟨_, hx⟩ := hx
    rcases hx with ⟨hrl, hx | hx⟩ | ⟨_, hx⟩
    · subst hrl; exact h.pure _ x hx a ha hxa
    · subst hrl; exact (h.pure p x hx a ha hxa).trans hconn.symm
    · exact h.pure r x hx a ha hxa

theorem done_merge (le : P → P → Bool) (o : Obs P Q) (σ : P → List P) (l p a : P)
    (hp : p ∈ leadersOfRun o) (hne : l ≠ p) (hconn : Conn le o l p) (h : Done le o σ a) :
    Done le o (mergeFn σ l p) a := by
  obtain ⟨r0, hr0⟩ := h
  by_cases hal : Conn le o a l
  · have hap : Conn le o a p := hal.trans hconn
    by_cases hrp : r0 = p
    · subst hrp
      refine ⟨l, ?_⟩
      intro b hb hab hbl
      unfold mergeFn
      by_cases h1 : b = r0
      · simp [h1]
      · simp only [h1, hbl, if_false]; exact hr0 b hb hab h1
    · refine ⟨r0, ?_⟩
      intro b hb hab hbr
      unfold mergeFn
      by_cases h1 : b = p
      · simp [h1]
      · by_cases h2 : b = l
        · subst h2
          simp only [h1, if_false, if_true]
          have e1 : σ b = [] := hr0 b hb hab hbr
          have e2 : σ p = [] := hr0 p hp hap (fun hh => hrp hh.symm)
          simp [e1, e2]
        · simp only [h1, h2, if_false]; exact hr0 b hb hab hbr
  · refine ⟨r0, ?_⟩
    intro b hb hab hbr
    have hbl : b ≠ l := fun hh => hal (hh ▸ hab)
    have hbp : b ≠ p := fun hh => hal ((hh ▸ hab).trans hconn.symm)
    unfold mergeFn
    simp only [hbp, hbl, if_false]
    exact hr0 b hb hab hbr

/-- `mergeComponent` on the slot function -/
def mergeCompFn (σ : P → List P) : List P → (P → List P)
  | [] => σ
  | l :: rest => rest.foldl (fun σ p => mergeFn σ l p) σ

theorem foldl_mergeSlots (l : P) : ∀ (rest : List P) (s : List (P × List P)), l ∈ s.map (·.1) →
    slotOf (rest.foldl (fun s p => mergeSlots s l p) s) = rest.foldl (fun σ p => mergeFn σ l p) (slotOf s) ∧
    (rest.foldl (fun s p => mergeSlots s l p) s).map (·.1) = s.map (·.1) := by
  intro rest
  induction rest with
  | nil => intro s _; exact ⟨rfl, rfl⟩
  | cons p ps ih =>
    intro s hl
    simp only [List.foldl_cons]
    have hk := keys_mergeSlots s l p
    obtain ⟨h1, h2⟩ := ih (mergeSlots s l p) (by rw [hk]; exact hl)
    exact ⟨by rw [h1, slotOf_mergeSlots_fn s l p hl], by rw [h2, hk]⟩

theorem slotOf_mergeComponent (s : List (P × List P)) (c : List P) (hc : ∀ b ∈ c, b ∈ s.map (·.1)) :
    slotOf (mergeComponent s c) = mergeCompFn (slotOf s) c ∧ (mergeComponent s c).map (·.1) = s.map (·.1) := by
  cases c with
  | nil => exact ⟨rfl, rfl⟩
  | cons l rest => exact foldl_mergeSlots l rest s (hc l (by simp))

theorem foldl_mergeComponent : ∀ (cs : List (List P)) (s : List (P × List P)),
    (∀ c ∈ cs, ∀ b ∈ c, b ∈ s.map (·.1)) →
    slotOf (cs.foldl mergeComponent s) = cs.foldl mergeCompFn (slotOf s) ∧
    (cs.foldl mergeComponent s).map (·.1) = s.map (·.1) := by
  intro cs
  induction cs with
  | nil => intro s _; exact ⟨rfl, rfl⟩
  | cons c cs ih =>
    intro s hcs
    simp only [List.foldl_cons]
    obtain ⟨h1, h2⟩ := slotOf_mergeComponent s c (hcs c (by simp))
    obtain ⟨h3, h4⟩ := ih (mergeComponent s c) (by
      intro c' hc' b hb; rw [h2]; exact hcs c' (by simp [hc']) b hb)
    exact ⟨by rw [h3, h1], by rw [h4, h2]⟩

theorem stays_empty (l q : P) (hq : q ≠ l) : ∀ (rest : List P) (σ : P → List P), σ q = [] →
    (rest.foldl (fun σ p => mergeFn σ l p) σ) q = [] := by
  intro rest
  induction rest with
  | nil => intro σ h; exact h
  | cons p ps ih =>
    intro σ h
    simp only [List.foldl_cons]
    apply ih
    unfold mergeFn
    by_cases h1 : q = p
    · simp [h1]
    · simp [h1, hq, h]

theorem inner_fold (le : P → P → Bool) (o : Obs P Q) (l : P) (hl : l ∈ leadersOfRun o) :
    ∀ (rest : List P) (σ : P → List P), rest.Nodup → l ∉ rest →
      (∀ p ∈ rest, p ∈ leadersOfRun o ∧ Conn le o l p) → PInv le o σ →
      PInv le o (rest.foldl (fun σ p => mergeFn σ l p) σ) ∧
      (∀ a, Done le o σ a → Done le o (rest.foldl (fun σ p => mergeFn σ l p) σ) a) ∧
      (∀ p ∈ rest, (rest.foldl (fun σ p => mergeFn σ l p) σ) p = []) := by
  intro rest
  induction rest with
  | nil => intro σ _ _ _ h; exact ⟨h, fun a ha => ha, fun p hp => by simp at hp⟩
  | cons p ps ih =>
    intro σ hnd hlr hps h
    simp only [List.foldl_cons]
    have hnd' := List.nodup_cons.mp hnd
    have hlp : l ≠ p := fun hh => hlr (by simp [hh])
    have hlps : l ∉ ps := fun hh => hlr (by simp [hh])
    obtain ⟨hpH, hpc⟩ := hps p (by simp)
    have h1 := pinv_merge le o σ l p hl hlp hpc h
    obtain ⟨i1, i2, i3⟩ := ih (mergeFn σ l p) hnd'.2 hlps (fun q hq => hps q (by simp [hq])) h1
    refine ⟨i1, fun a ha => i2 a (done_merge le o σ l p a hpH hlp hpc ha), ?_⟩
    intro q hq
    rcases List.mem_cons.mp hq with rfl | hq
    · apply stays_empty l q (fun hh => hlp hh.symm)
      simp [mergeFn]
    · exact i3 q hq

/-- processing the component list of the leader `a0` -/
theorem component_step (le : P → P → Bool) (o : Obs P Q) (hwf : o.WF) (a0 : P) (ha0 : a0 ∈ leadersOfRun o)
    (σ : P → List P) (h : PInv le o σ) :
    PInv le o (mergeCompFn σ (componentOf le o (generate o) a0)) ∧
    (∀ a, Done le o σ a → Done le o (mergeCompFn σ (componentOf le o (generate o) a0)) a) ∧
    Done le o (mergeCompFn σ (componentOf le o (generate o) a0)) a0 := by
  have hmem := mem_componentOf le o hwf a0 ha0
  have hnd := nodup_componentOf le o a0
  cases hc : componentOf le o (generate o) a0 with
  | nil =>
    have : a0 ∈ componentOf le o (generate o) a0 := (hmem a0).mpr (Conn.refl le o a0)
    rw [hc] at this; simp at this
  | cons l rest =>
    rw [hc] at hmem hnd
    have hnd' := List.nodup_cons.mp hnd
    have hl0 : Conn le o a0 l := (hmem l).mp (by simp)
    have hlH : l ∈ leadersOfRun o := conn_leader le o hwf a0 l ha0 hl0
    have hrest : ∀ p ∈ rest, p ∈ leadersOfRun o ∧ Conn le o l p := by
      intro p hp
      have hp0 : Conn le o a0 p := (hmem p).mp (by simp [hp])
      exact ⟨conn_leader le o hwf a0 p ha0 hp0, hl0.symm.trans hp0⟩
    obtain ⟨i1, i2, i3⟩ := inner_fold le o l hlH rest σ hnd'.2 hnd'.1 hrest h
    refine ⟨i1, i2, ⟨l, ?_⟩⟩
    intro b hb hab hbl
    have : b ∈ l :: rest := (hmem b).mpr hab
    rcases List.mem_cons.mp this with hh | hh
    · exact absurd hh hbl
    · exact i3 b hh

theorem outer_fold (le : P → P → Bool) (o : Obs P Q) (hwf : o.WF) :
    ∀ (cs : List (List P)) (σ : P → List P),
      (∀ c ∈ cs, ∃ a ∈ leadersOfRun o, c = componentOf le o (generate o) a) → PInv le o σ →
      PInv le o (cs.foldl mergeCompFn σ) ∧
      (∀ a, Done le o σ a → Done le o (cs.foldl mergeCompFn σ) a) ∧
      (∀ a ∈ leadersOfRun o, componentOf le o (generate o) a ∈ cs → Done le o (cs.foldl mergeCompFn σ) a) := by
  intro cs
  induction cs with
  | nil => intro σ _ h; exact ⟨h, fun a ha => ha, fun a _ hc => by simp at hc⟩
  | cons c cs ih =>
    intro σ hcs h
    simp only [List.foldl_cons]
    obtain ⟨a0, ha0, hceq⟩ := hcs c (by simp)
    subst hceq
    obtain ⟨s1, s2, s3⟩ := component_step le o hwf a0 ha0 σ h
    obtain ⟨i1, i2, i3⟩ := ih _ (fun c hc => hcs c (by simp [hc])) s1
    refine ⟨i1, fun a ha => i2 a (s2 a ha), ?_⟩
    intro a ha hca
    rcases List.mem_cons.mp hca with heq | hmem
    · -- same list as the one just processed: `a` is connected to `a0`
      have haa0 : Conn le o a0 a := (mem_componentOf le o hwf a0 ha0 a).mp
        (heq ▸ (mem_componentOf le o hwf a ha a).mpr (Conn.refl le o a))
      obtain ⟨r, hr⟩ := i2 a0 s3
      exact ⟨r, fun b hb hab hbr => hr b hb (haa0.trans hab) hbr⟩
    · exact i3 a ha hmem

/-! ## the pseudo-gene groups -/

/-- the slot function before the pseudo-gene merges: every leader owns its subset group -/
def sigma0 (o : Obs P Q) : P → List P := fun r => if r ∈ leadersOfRun o then slotsFn o r else []

/-- the slot function after all components have been merged -/
def sigmaF (le : P → P → Bool) (o : Obs P Q) : P → List P :=
  (firsts ((leadersOfRun o).map (componentOf le o (generate o)))).foldl mergeCompFn (sigma0 o)

theorem slotOf_keyed (ks : List P) (f : P → List P) (r : P) :
    slotOf (ks.map (fun a => (a, f a))) r = if r ∈ ks then f r else [] := by
  induction ks with
  | nil => rfl
  | cons k ks ih =>
    unfold slotOf at ih ⊢
    rw [List.map_cons, List.lookup_cons]
    by_cases hk : r = k
    · subst hk; simp
    · have : (r == k) = false := by simpa using hk
      simp only [this, ih, List.mem_cons, hk, false_or]

theorem s0_eq (o : Obs P Q) (hwf : o.WF) :
    (generate o).filterMap (fun g => g.head?.map (fun a => (a, g))) =
      (leadersOfRun o).map (fun a => (a, slotsFn o a)) := by
  rw [generate_eq_map_leaders o hwf.nodup, List.filterMap_map]
  have : ∀ r ∈ leadersOfRun o,
      ((fun g : List P => g.head?.map (fun a => (a, g))) ∘ slotsFn o) r = some (r, slotsFn o r) := by
    intro r hr
    simp only [Function.comp, head_slot o hwf r ((mem_leadersOfRun o r).mp hr).2, Option.map_some]
  rw [List.filterMap_congr this]
  simp

theorem pinv_sigma0 (le : P → P → Bool) (o : Obs P Q) (hwf : o.WF) : PInv le o (sigma0 o) := by
  obtain ⟨hB, hC, _⟩ := final_inv o hwf
  refine ⟨?_, ?_, ?_, ?_, ?_⟩
  · intro r; unfold sigma0; split
    · exact hC.nodup r
    · simp
  · intro r r' hne x hx hx'
    unfold sigma0 at hx hx'
    split at hx
    · split at hx'
      · exact hC.disj r r' hne x hx hx'
      · simp at hx'
    · simp at hx
  · intro x hx
    obtain ⟨r, hr, hxr, _⟩ := exists_leader o hwf x hx
    exact ⟨r, hr, by simp [sigma0, hr, hxr]⟩
  · intro r x hx
    unfold sigma0 at hx
    split at hx
    · rename_i hr
      exact ⟨hr, hC.inKeys r ((mem_leadersOfRun o r).mp hr).1 x hx⟩
    · simp at hx
  · intro r x hx a ha hxa
    unfold sigma0 at hx
    split at hx
    · have : a = r := slot_unique o hwf x a r hxa hx
      subst this; exact Conn.refl le o a
    · simp at hx

theorem comps_spec (le : P → P → Bool) (o : Obs P Q) (c : List P)
    (hc : c ∈ firsts ((leadersOfRun o).map (componentOf le o (generate o)))) :
    ∃ a ∈ leadersOfRun o, c = componentOf le o (generate o) a := by
  rw [mem_firsts, List.mem_map] at hc
  obtain ⟨a, ha, rfl⟩ := hc
  exact ⟨a, ha, rfl⟩

theorem final_pinv (le : P → P → Bool) (o : Obs P Q) (hwf : o.WF) :
    PInv le o (sigmaF le o) ∧ ∀ a ∈ leadersOfRun o, Done le o (sigmaF le o) a := by
  obtain ⟨h1, _, h3⟩ := outer_fold le o hwf _ (sigma0 o) (comps_spec le o) (pinv_sigma0 le o hwf)
  refine ⟨h1, fun a ha => h3 a ha ?_⟩
  rw [mem_firsts, List.mem_map]
  exact ⟨a, ha, rfl⟩

/-- the rendered output: the final positions of the leaders, in the order of the subset groups, empties
    removed -/
theorem pseudo_eq (le : P → P → Bool) (o : Obs P Q) (hwf : o.WF) :
    pseudoGeneGroupsOf le o = ((leadersOfRun o).map (sigmaF le o)).filter (fun g => !g.isEmpty) := by
  unfold pseudoGeneGroupsOf
  simp only
  rw [heads_generate o hwf, s0_eq o hwf]
  have hkeys0 : ((leadersOfRun o).map (fun a => (a, slotsFn o a))).map (·.1) = leadersOfRun o := by
    rw [List.map_map]
    conv => rhs; rw [← List.map_id (leadersOfRun o)]
    apply List.map_congr_left
    intro a _; rfl
  have hcs : ∀ c ∈ firsts ((leadersOfRun o).map (componentOf le o (generate o))), ∀ b ∈ c,
      b ∈ ((leadersOfRun o).map (fun a => (a, slotsFn o a))).map (·.1) := by
    intro c hc b hb
    rw [hkeys0]
    obtain ⟨a, ha, rfl⟩ := comps_spec le o c hc
    exact conn_leader le o hwf a b ha ((mem_componentOf le o hwf a ha b).mp hb)
  obtain ⟨h1, h2⟩ := foldl_mergeComponent _ _ hcs
  have hnd : ((leadersOfRun o).filter (fun _ => true)).Nodup := (hwf.nodup.filter _).filter _
  unfold render
  rw [map_snd_eq _ (by rw [h2, hkeys0]; exact hwf.nodup.filter _), h2, hkeys0, h1]
  have hs0 : slotOf ((leadersOfRun o).map (fun a => (a, slotsFn o a))) = sigma0 o := by
    funext r; exact slotOf_keyed (leadersOfRun o) (slotsFn o) r
  rw [hs0]
  rfl

theorem mem_pseudo (le : P → P → Bool) (o : Obs P Q) (hwf : o.WF) (g : List P) :
    g ∈ pseudoGeneGroupsOf le o ↔ ∃ r ∈ leadersOfRun o, sigmaF le o r = g ∧ g ≠ [] := by
  rw [pseudo_eq le o hwf]
  simp only [List.mem_filter, List.mem_map, Bool.not_eq_true', List.isEmpty_eq_false_iff]
  constructor
  · rintro ⟨⟨r, hr, rfl⟩, hne⟩; exact ⟨r, hr, rfl, hne⟩
  · rintro ⟨r, hr, rfl, hne⟩; exact ⟨⟨r, hr, rfl⟩, hne⟩

/-- pseudo-gene groups partition the observed proteins -/
theorem pseudo_partition_of (le : P → P → Bool) (o : Obs P Q) (hwf : o.WF) :
    (∀ g ∈ pseudoGeneGroupsOf le o, g ≠ []) ∧ (pseudoGeneGroupsOf le o).flatten.Nodup ∧
    (∀ x, x ∈ (pseudoGeneGroupsOf le o).flatten ↔ x ∈ o.keys) := by
  obtain ⟨hP, _⟩ := final_pinv le o hwf
  refine ⟨?_, ?_, ?_⟩
  · intro g hg
    obtain ⟨_, _, _, hne⟩ := (mem_pseudo le o hwf g).mp hg
    exact hne
  · rw [pseudo_eq le o hwf, List.flatten_filter_not_isEmpty, ← List.flatMap_def, List.nodup_flatMap]
    refine ⟨fun r _ => hP.nodup r, ?_⟩
    apply List.Nodup.pairwise_of_forall_ne (hwf.nodup.filter _)
    intro a _ b _ hab
    simp only [Function.onFun]
    intro x hx hx'
    exact hP.disj a b hab x hx hx'
  · intro x
    rw [pseudo_eq le o hwf, List.flatten_filter_not_isEmpty, ← List.flatMap_def, List.mem_flatMap]
    constructor
    · rintro ⟨r, _, hx⟩; exact (hP.owner r x hx).2
    · intro hx; obtain ⟨r, hr, h⟩ := hP.cover x hx; exact ⟨r, hr, h⟩

/-- two observed proteins are in the same pseudo-gene group iff they are connected through shared peptides -/
theorem pseudo_components_of (le : P → P → Bool) (o : Obs P Q) (hwf : o.WF) (p q : P)
    (hp : p ∈ o.keys) (hq : q ∈ o.keys) :
    (∃ g ∈ pseudoGeneGroupsOf le o, p ∈ g ∧ q ∈ g) ↔ Relation.ReflTransGen (Share o) p q := by
  obtain ⟨hP, hD⟩ := final_pinv le o hwf
  obtain ⟨a, ha, hpa, hsa⟩ := exists_leader o hwf p hp
  obtain ⟨b, hb, hqb, hsb⟩ := exists_leader o hwf q hq
  constructor
  · rintro ⟨g, hg, hpg, hqg⟩
    obtain ⟨r, hr, rfl, _⟩ := (mem_pseudo le o hwf g).mp hg
    have h1 : Conn le o a r := hP.pure r p hpg a ha hpa
    have h2 : Conn le o b r := hP.pure r q hqg b hb hqb
    have h3 := rtg_share_of_conn le o hwf a b ha (h1.trans h2.symm)
    have h4 : Relation.ReflTransGen (Share o) p a := Relation.ReflTransGen.single (share_of_sub o hwf p a hp hsa)
    have h5 : Relation.ReflTransGen (Share o) b q :=
      Relation.ReflTransGen.single (share_of_sub o hwf q b hq hsb).symm
    exact (h4.trans h3).trans h5
  · intro h
    have hab : Conn le o a b := conn_of_rtg_share le o hwf p q h a b ha hpa hb hqb
    obtain ⟨r1, hr1, hp1⟩ := hP.cover p hp
    obtain ⟨r2, hr2, hq2⟩ := hP.cover q hq
    have c1 : Conn le o a r1 := hP.pure r1 p hp1 a ha hpa
    have c2 : Conn le o a r2 := hab.trans (hP.pure r2 q hq2 b hb hqb)
    obtain ⟨r, hr⟩ := hD a ha
    have e1 : r1 = r := by
      by_contra hne
      have := hr r1 hr1 c1 hne
      rw [this] at hp1; simp at hp1
    have e2 : r2 = r := by
      by_contra hne
      have := hr r2 hr2 c2 hne
      rw [this] at hq2; simp at hq2
    subst e1; subst e2
    refine ⟨sigmaF le o r2, (mem_pseudo le o hwf _).mpr ⟨r2, hr2, rfl, ?_⟩, hp1, hq2⟩
    intro h0; rw [h0] at hp1; simp at hp1

/-- `Share` of the created dictionaries, stated on the peptide list -/
theorem share_create_iff (pil : List (Q × List P)) (hkeys : (pil.map (·.1)).Nodup) (p q : P) :
    Share (create pil) p q ↔ ∃ e ∈ pil, p ∈ e.2 ∧ q ∈ e.2 := by
  constructor
  · rintro ⟨x, hp, hq⟩
    simp only [create] at hp hq
    cases hf : pil.find? (fun e => e.1 = x) with
    | none => rw [hf] at hp; simp at hp
    | some e => rw [hf] at hp hq; exact ⟨e, List.mem_of_find?_eq_some hf, hp, hq⟩
  · rintro ⟨e, he, hp, hq⟩
    refine ⟨e.1, ?_, ?_⟩ <;> simp only [create, find_entry pil hkeys e he] <;> assumption


/-! ## the loop on the `ProteinGroups` state machine (`generatePG`) is the owner-tagged loop -/

/-- the `ProteinGroups` state `pg` and the owner-tagged positions `s` describe the same object: the index is
    the one built once from the singletons of `ks`, the groups are the members at each position -/
structure Rel (ks : List P) (pg : C20.PG P) (s : List (P × List P)) : Prop where
  index : pg.index = C20.buildIndex (ks.map (fun p => [p]))
  groups : pg.groups = s.map (·.2)
  keys : s.map (·.1) = ks

theorem lookup_singletons (ks : List P) (r : P) (i : Nat)
    (h : (C20.buildIndex (ks.map (fun p => [p]))).lookup r = some i) : ks[i]? = some r := by
  have hm := C20.mem_of_lookup _ _ _ h
  rw [C20.mem_buildIndex] at hm
  obtain ⟨g, hg, hr⟩ := hm
  rw [List.getElem?_map] at hg
  cases hk : ks[i]? with
  | none => rw [hk] at hg; simp at hg
  | some k =>
    rw [hk] at hg
    simp only [Option.map_some, Option.some.injEq] at hg
    subst hg
    simp at hr
    rw [hr]

theorem lookup_singletons_some (ks : List P) (r : P) (hr : r ∈ ks) :
    ∃ i, (C20.buildIndex (ks.map (fun p => [p]))).lookup r = some i := by
  obtain ⟨i, hi, hki⟩ := List.mem_iff_getElem.mp hr
  apply C20.lookup_isSome_of_mem _ r i
  rw [C20.mem_buildIndex]
  exact ⟨[r], by rw [List.getElem?_map, List.getElem?_eq_getElem hi, hki]; rfl, by simp⟩

theorem lookup_singletons_none (ks : List P) (r : P) (hr : r ∉ ks) :
    (C20.buildIndex (ks.map (fun p => [p]))).lookup r = none := by
  cases h : (C20.buildIndex (ks.map (fun p => [p]))).lookup r with
  | none => rfl
  | some i => exact absurd (List.mem_of_getElem? (lookup_singletons ks r i h)) hr

theorem lookup_none_of_not_key {β : Type} (s : List (P × β)) (r : P) (h : r ∉ s.map (·.1)) : s.lookup r = none := by
  induction s with
  | nil => rfl
  | cons e t ih =>
    obtain ⟨k, g⟩ := e
    simp only [List.map_cons, List.mem_cons, not_or] at h
    rw [List.lookup_cons]
    have : (r == k) = false := by simpa using h.1
    simp only [this]
    exact ih h.2

/-- the entry at the position of key `r` -/
theorem entry_at (ks : List P) (hnd : ks.Nodup) (s : List (P × List P)) (hk : s.map (·.1) = ks) (i : Nat) (r : P)
    (hi : ks[i]? = some r) : s[i]? = some (r, slotOf s r) := by
  have h1 : (s.map (·.1))[i]? = some r := by rw [hk]; exact hi
  rw [List.getElem?_map] at h1
  cases hs : s[i]? with
  | none => rw [hs] at h1; simp at h1
  | some e =>
    rw [hs] at h1
    simp only [Option.map_some, Option.some.injEq] at h1
    have he : e ∈ s := List.mem_of_getElem? hs
    have := snd_eq_slotOf s (by rw [hk]; exact hnd) e he
    subst h1
    rw [← this]

theorem slotsPG_eq (ks : List P) (hnd : ks.Nodup) (pg : C20.PG P) (s : List (P × List P)) (h : Rel ks pg s) :
    slotsPG pg = slotOf s := by
  funext r
  unfold slotsPG C20.getGroup C20.getIdx
  simp only [Bool.false_and, Bool.false_eq_true, if_false]
  rw [h.index]
  by_cases hr : r ∈ ks
  · obtain ⟨i, hi⟩ := lookup_singletons_some ks r hr
    have hki := lookup_singletons ks r i hi
    have he := entry_at ks hnd s h.keys i r hki
    simp only [hi, h.groups, List.getElem?_map, he, Option.map_some]
  · rw [lookup_singletons_none ks r hr]
    have : s.lookup r = none := lookup_none_of_not_key s r (by rw [h.keys]; exact hr)
    simp [slotOf, this]

theorem key_index_unique (ks : List P) (hnd : ks.Nodup) (i j : Nat) (r : P) (hi : ks[i]? = some r)
    (hj : ks[j]? = some r) : i = j := by
  obtain ⟨hi', hi''⟩ := List.getElem?_eq_some_iff.mp hi
  obtain ⟨hj', hj''⟩ := List.getElem?_eq_some_iff.mp hj
  exact (List.Nodup.getElem_inj_iff hnd).mp (hi''.trans hj''.symm)

theorem merge_rel (ks : List P) (hnd : ks.Nodup) (pg : C20.PG P) (s : List (P × List P)) (h : Rel ks pg s)
    (q p : P) (hq : q ∈ ks) (hp : p ∈ ks) (hqp : q ≠ p) :
    ∃ pg', C20.mergeGroups pg q p = .ok pg' ∧ Rel ks pg' (mergeSlots s q p) := by
  obtain ⟨si, hsi⟩ := lookup_singletons_some ks q hq
  obtain ⟨pi, hpi⟩ := lookup_singletons_some ks p hp
  have hksi := lookup_singletons ks q si hsi
  have hkpi := lookup_singletons ks p pi hpi
  have hesi := entry_at ks hnd s h.keys si q hksi
  have hepi := entry_at ks hnd s h.keys pi p hkpi
  have hgsi : pg.groups[si]? = some (slotOf s q) := by rw [h.groups, List.getElem?_map, hesi]; rfl
  have hgpi : pg.groups[pi]? = some (slotOf s p) := by rw [h.groups, List.getElem?_map, hepi]; rfl
  refine ⟨{ pg with groups := (pg.groups.set si (slotOf s q ++ slotOf s p)).set pi [], valid := false }, ?_, ?_⟩
  · unfold C20.mergeGroups C20.rawIdx
    rw [h.index, hsi, hpi]
    simp only [hgsi, hgpi]
  · refine ⟨h.index, ?_, by rw [keys_mergeSlots]; exact h.keys⟩
    simp only
    apply List.ext_getElem?
    intro j
    unfold mergeSlots
    rw [List.getElem?_map, List.getElem?_map, h.groups]
    rw [List.getElem?_set, List.getElem?_set]
    simp only [List.length_set, List.length_map, List.getElem?_map]
    cases hsj : s[j]? with
    | none =>
      have hjl : ¬ j < s.length := by
        intro hlt; rw [List.getElem?_eq_getElem hlt] at hsj; simp at hsj
      by_cases h1 : pi = j
      · simp [h1, hjl]
      · by_cases h2 : si = j
        · simp [h1, h2, hjl]
        · simp [h1, h2]
    | some e =>
      have hjl : j < s.length := by
        by_contra hnot
        rw [List.getElem?_eq_none (by omega)] at hsj; simp at hsj
      have hkj : ks[j]? = some e.1 := by
        rw [← h.keys, List.getElem?_map, hsj]; rfl
      have hp_iff : e.1 = p ↔ pi = j := by
        constructor
        · intro he; exact key_index_unique ks hnd pi j p hkpi (he ▸ hkj)
        · intro he; subst he; rw [hkpi] at hkj; simpa using hkj.symm
      have hq_iff : e.1 = q ↔ si = j := by
        constructor
        · intro he; exact key_index_unique ks hnd si j q hksi (he ▸ hkj)
        · intro he; subst he; rw [hksi] at hkj; simpa using hkj.symm
      have hej : e.2 = slotOf s e.1 := snd_eq_slotOf s (by rw [h.keys]; exact hnd) e (List.mem_of_getElem? hsj)
      by_cases h1 : pi = j
      · have : e.1 = p := hp_iff.mpr h1
        simp [h1, hjl, this]
      · have hne : e.1 ≠ p := fun hh => h1 (hp_iff.mp hh)
        by_cases h2 : si = j
        · have : e.1 = q := hq_iff.mpr h2
          simp only [h1, h2, if_false, if_true, hjl, Option.map_some, this, hqp]
          rw [hej, this]
        · have hne2 : e.1 ≠ q := fun hh => h2 (hq_iff.mp hh)
          simp [h1, h2, hne, hne2]

theorem step_rel (o : Obs P Q) (hnd : o.keys.Nodup) (pg : C20.PG P) (s : List (P × List P)) (h : Rel o.keys pg s)
    (p : P) (hp : p ∈ o.keys) : Rel o.keys (pgStep o pg p) (stepSlots o s p) := by
  unfold pgStep stepSlots
  rw [slotsPG_eq o.keys hnd pg s h]
  cases ht : target o (byPeptideCount o) (slotOf s) p with
  | none => exact h
  | some q =>
    simp only
    obtain ⟨hqp, hq0, _⟩ := target_some o (byPeptideCount o) (slotOf s) p q ht
    have hq : q ∈ o.keys := by
      by_contra hnot
      have : s.lookup q = none := lookup_none_of_not_key s q (by rw [h.keys]; exact hnot)
      exact hq0 (by simp [slotOf, this])
    obtain ⟨pg', hm, hrel⟩ := merge_rel o.keys hnd pg s h q p hq hp hqp
    rw [hm]
    exact hrel

theorem fold_rel (o : Obs P Q) (hnd : o.keys.Nodup) : ∀ (ps : List P), (∀ p ∈ ps, p ∈ o.keys) →
    ∀ (pg : C20.PG P) (s : List (P × List P)), Rel o.keys pg s →
      Rel o.keys (ps.foldl (pgStep o) pg) (ps.foldl (stepSlots o) s) := by
  intro ps
  induction ps with
  | nil => intro _ pg s h; exact h
  | cons p ps ih =>
    intro hps pg s h
    simp only [List.foldl_cons]
    exact ih (fun q hq => hps q (by simp [hq])) _ _ (step_rel o hnd pg s h p (hps p (by simp)))

/-- `generate_protein_groups` run on the `ProteinGroups` state machine returns the object
    `init_from_list(generate o)`: the groups of the owner-tagged loop, indexed, valid -/
theorem generatePG_eq (o : Obs P Q) (hnd : o.keys.Nodup) : generatePG o = C20.ofList (generate o) := by
  have h0 : Rel o.keys (C20.ofList (o.keys.map (fun p => [p]))) (initSlots o) := by
    refine ⟨rfl, ?_, ?_⟩
    · simp [C20.ofList, initSlots, List.map_map, Function.comp]
    · unfold initSlots; rw [List.map_map]
      conv => rhs; rw [← List.map_id o.keys]
      apply List.map_congr_left
      intro a _; rfl
  have h := fold_rel o hnd o.keys (fun p hp => hp) _ _ h0
  have hg := h.groups
  unfold generatePG C20.removeEmpty generate render finalSlots
  simp only [hg]
  rfl

end PgFdr.C03
