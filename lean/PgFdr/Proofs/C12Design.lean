import PgFdr.Proofs.C12

/-!
Helper lemmas for the experimental-design path of C12 (`quantifyDesign`, `designExperiments`,
`overrideRows`, `quantifyWithExps`): the experiment list in design order, the position of an experiment's
columns, the raw-file override, and the group totals for an arbitrary experiment list.
-/
namespace PgFdr.C12
open PgFdr.C17 (PepVal)

/-! ### `unique()`: first occurrences in order -/

theorem foldl_setAdd_append : ∀ (l acc : List String),
    l.foldl setAdd acc = acc ++ (l.foldl setAdd []).filter (fun y => !acc.contains y) := by
  intro l
  induction l with
  | nil => intro acc; simp
  | cons x t ih =>
    intro acc
    simp only [List.foldl_cons]
    rw [ih (setAdd acc x), ih (setAdd [] x)]
    have h0 : setAdd ([] : List String) x = [x] := by simp [setAdd]
    rw [h0]
    by_cases hx : x ∈ acc
    · rw [setAdd_of_mem acc x hx]
      have hx' : acc.contains x = true := by simpa using hx
      simp only [List.filter_append, List.filter_cons, List.filter_nil, hx', Bool.not_true,
        Bool.false_eq_true, if_false, List.nil_append, List.filter_filter]
      congr 1
      apply List.filter_congr
      intro y _
      by_cases hy : y ∈ acc
      · simp [hy]
      · have hne : y ≠ x := fun h => hy (h ▸ hx)
        simp [hy, hne]
    · rw [setAdd_of_not_mem acc x hx]
      have hx' : acc.contains x = false := by simpa using hx
      simp only [List.filter_append, List.filter_cons, List.filter_nil, hx', Bool.not_false, if_true,
        List.filter_filter, List.append_assoc, List.cons_append, List.nil_append]
      congr 2
      apply List.filter_congr
      intro y _
      simp only [List.contains_append, List.contains_cons, List.contains_nil, Bool.or_false, Bool.not_or]

theorem designExperiments_eq (d : List DesignLine) :
    designExperiments d = (d.map (·.experiment)).foldl setAdd [] := by
  unfold designExperiments
  rw [List.foldl_map]

theorem designExperiments_nil : designExperiments [] = [] := rfl

theorem designExperiments_cons (l : DesignLine) (d : List DesignLine) :
    designExperiments (l :: d) = l.experiment :: (designExperiments d).filter (fun y => y != l.experiment) := by
  rw [designExperiments_eq, designExperiments_eq, List.map_cons, List.foldl_cons]
  have h0 : setAdd ([] : List String) l.experiment = [l.experiment] := by simp [setAdd]
  rw [h0, foldl_setAdd_append]
  simp only [List.cons_append, List.nil_append]
  congr 1
  apply List.filter_congr
  intro y _
  simp [bne, beq_eq_decide]

theorem designExperiments_nodup (d : List DesignLine) : (designExperiments d).Nodup := by
  unfold designExperiments
  exact (foldl_setAdd (fun l : DesignLine => l.experiment) d [] List.nodup_nil).1

theorem mem_designExperiments (d : List DesignLine) (e : String) :
    e ∈ designExperiments d ↔ ∃ l ∈ d, l.experiment = e := by
  unfold designExperiments
  rw [(foldl_setAdd (fun l : DesignLine => l.experiment) d [] List.nodup_nil).2 e]
  simp

/-! ### the columns of an experiment sit at its position in the list the headers follow -/

theorem expIdx_of_nodup (exps : List String) (hn : exps.Nodup) (i : Nat) (name : String)
    (hi : exps[i]? = some name) : expIdx exps name = some i := by
  unfold expIdx
  apply lastIdx_of_unique _ exps i name hi (by simp)
  intro j b hj hb
  have hb' : b = name := by simpa using hb
  subst hb'
  have hjl : j < exps.length := by
    by_contra h
    rw [List.getElem?_eq_none (by omega)] at hj
    cases hj
  have hil : i < exps.length := by
    by_contra h
    rw [List.getElem?_eq_none (by omega)] at hi
    cases hi
  rw [List.getElem?_eq_getElem hjl] at hj
  rw [List.getElem?_eq_getElem hil] at hi
  have h1 : exps[j] = exps[i] := by
    rw [Option.some.inj hj, Option.some.inj hi]
  exact (List.Nodup.getElem_inj_iff hn).mp h1

/-- with a duplicate-free experiment list, "experiment position `i`" in the per-column theorems means
    "the experiment whose name is the `i`-th of the list" -/
theorem expIdx_beq_of_nodup (exps : List String) (hn : exps.Nodup) (i : Nat) (name : String)
    (hi : exps[i]? = some name) (e : String) :
    (expIdx exps e == some i) = (e == name) := by
  by_cases he : e = name
  · subst he
    rw [expIdx_of_nodup exps hn i e hi]
    simp
  · have hne : (e == name) = false := by simpa using he
    rw [hne]
    cases hx : expIdx exps e with
    | none => simp
    | some j =>
      have : j ≠ i := by
        intro hji
        subst hji
        obtain ⟨a, ha, hp⟩ := lastIdx_some _ exps j hx
        rw [hi] at ha
        have : a = e := by simpa using hp
        subst this
        exact he (Option.some.inj ha).symm
      simpa using this

/-! ### the raw-file override -/

theorem overrideRows_ok (d : List DesignLine) : ∀ (rows : List (String × Row)) (rows' : List Row),
    overrideRows d rows = .ok rows' → List.Forall₂ (fun x r' => overrideRow d x = .ok r') rows rows' := by
  intro rows
  induction rows with
  | nil =>
    intro rows' h
    simp only [overrideRows, Except.ok.injEq] at h
    subst h
    exact List.Forall₂.nil
  | cons x t ih =>
    intro rows' h
    simp only [overrideRows] at h
    cases hx : overrideRow d x with
    | error e => rw [hx] at h; cases h
    | ok r =>
      rw [hx] at h
      cases ht : overrideRows d t with
      | error e => rw [ht] at h; cases h
      | ok rs =>
        rw [ht] at h
        simp only [Except.ok.injEq] at h
        subst h
        exact List.Forall₂.cons hx (ih rs ht)

theorem overrideRow_ok (d : List DesignLine) (x : String × Row) (r' : Row) (h : overrideRow d x = .ok r') :
    (prots x.2 = [] ∧ r' = x.2) ∨
    (prots x.2 ≠ [] ∧ ∃ l ∈ d, l.name = x.1 ∧ fileMapping d x.1 = some l ∧
      r' = { x.2 with experiment := l.experiment, fraction := l.fraction }) := by
  unfold overrideRow at h
  by_cases hp : (prots x.2).isEmpty = true
  · rw [if_pos hp] at h
    left
    exact ⟨by simpa using hp, (Except.ok.inj h).symm⟩
  · rw [if_neg hp] at h
    right
    refine ⟨by simpa using hp, ?_⟩
    cases hm : fileMapping d x.1 with
    | none => rw [hm] at h; cases h
    | some l =>
      rw [hm] at h
      have hmem : l ∈ d := List.mem_of_find?_eq_some hm
      have hname : l.name = x.1 := by
        have := List.find?_some hm
        simpa using this
      exact ⟨l, hmem, hname, rfl, (Except.ok.inj h).symm⟩

/-- the override touches neither the protein list nor anything but experiment and fraction -/
theorem overrideRow_same (d : List DesignLine) (x : String × Row) (r' : Row) (h : overrideRow d x = .ok r') :
    r'.id = x.2.id ∧ r'.peptide = x.2.peptide ∧ r'.charge = x.2.charge ∧ r'.leading = x.2.leading ∧
    r'.intensity = x.2.intensity ∧ r'.pep = x.2.pep ∧ r'.silac = x.2.silac ∧ r'.tmt = x.2.tmt := by
  rcases overrideRow_ok d x r' h with ⟨-, rfl⟩ | ⟨-, l, -, -, -, rfl⟩ <;> simp

theorem forall₂_mem_right {α β : Type} (P : α → β → Prop) : ∀ (l₁ : List α) (l₂ : List β),
    List.Forall₂ P l₁ l₂ → ∀ b ∈ l₂, ∃ a ∈ l₁, P a b := by
  intro l₁ l₂ h
  induction h with
  | nil => intro b hb; cases hb
  | cons hxy _ ih =>
    intro b hb
    rcases List.mem_cons.mp hb with rfl | hmem
    · exact ⟨_, by simp, hxy⟩
    · obtain ⟨a, ha1, ha2⟩ := ih b hmem
      exact ⟨a, List.mem_cons_of_mem _ ha1, ha2⟩

/-- after a successful override every row the parser yields carries an experiment of the design -/
theorem overrideRows_experiment_mem (d : List DesignLine) (rows : List (String × Row)) (rows' : List Row)
    (h : overrideRows d rows = .ok rows') :
    ∀ r ∈ parsed rows', r.experiment ∈ designExperiments d := by
  have hf := overrideRows_ok d rows rows' h
  intro r hr
  obtain ⟨hr1, hr2⟩ := (mem_parsed rows' r).mp hr
  obtain ⟨x, -, hx⟩ := forall₂_mem_right _ rows rows' hf r hr1
  rcases overrideRow_ok d x r hx with ⟨hp, rfl⟩ | ⟨-, l, hl, -, -, rfl⟩
  · exact absurd hp hr2
  · exact (mem_designExperiments d _).mpr ⟨l, hl, rfl⟩

/-! ### totals for an arbitrary experiment list -/

theorem quantifyWith_eq (S : Nat) (rows : List Row) (groups : List (List String)) (level : Rat)
    (ibaq : List (String × Nat)) :
    quantifyWith S rows groups level ibaq = quantifyWithExps (experiments rows) S rows groups level ibaq := rfl

theorem group_total_exps (exps : List String) (S : Nat) (rows : List Row) (groups : List (List String))
    (c : Rat) (g : Nat)
    (hS : ∀ r ∈ parsed rows, r.silac.length ≤ S)
    (hexp : ∀ r ∈ parsed rows, ∃ i, expIdx exps r.experiment = some i ∧ i < exps.length) :
    totalOf S (intensities exps S c (retain c (attached rows groups g))) =
      (((parsed rows).filter (entersGroup rows groups c g)).map (chan 0)).sum := by
  have hsub : ∀ q ∈ retain c (attached rows groups g), q ∈ parsed rows := by
    intro q hq
    exact ((mem_attached rows groups g q).mp ((mem_retain c _ q).mp hq).1).1
  rw [totalOf_intensities _ S c _ (fun q hq => hS q (hsub q hq)) (fun q hq => hexp q (hsub q hq))]
  rw [retain_eq_filter]
  conv_lhs => rw [attached]
  rw [List.filter_filter, List.filter_filter]
  congr 2
  apply List.filter_congr
  intro r _
  simp only [entersGroup, attached, Bool.and_assoc, Bool.and_comm, Bool.and_left_comm]

theorem quantifyWithExps_totals (exps : List String) (S : Nat) (rows : List Row) (groups : List (List String))
    (level : Rat) (ibaq : List (String × Nat)) :
    (quantifyWithExps exps S rows groups level ibaq).groups.map (·.total) =
      (keptIdx rows groups).map (fun g => totalOf S (intensities exps S
        (cutoffOf rows groups level) (retain (cutoffOf rows groups level) (attached rows groups g)))) := by
  simp [quantifyWithExps, groupOut, Function.comp_def]

/-- conservation for an arbitrary experiment list that covers the experiments of the parsed rows -/
theorem conservation_exps (exps : List String) (S : Nat) (rows : List Row) (groups : List (List String))
    (level : Rat) (ibaq : List (String × Nat))
    (hlen : ∀ r ∈ parsed rows, r.silac.length ≤ S)
    (hexp : ∀ r ∈ parsed rows, r.experiment ∈ exps) :
    ((quantifyWithExps exps S rows groups level ibaq).groups.map (·.total)).sum =
      (((parsed rows).filter (rowCounted rows groups (cutoffOf rows groups level))).map
        (fun r => r.intensity.getD 0)).sum := by
  have hexp' : ∀ r ∈ parsed rows, ∃ i, expIdx exps r.experiment = some i ∧ i < exps.length :=
    fun r hr => expIdx_of_mem exps r.experiment (hexp r hr)
  rw [quantifyWithExps_totals]
  generalize cutoffOf rows groups level = c
  have hzero : ∀ g, (!(attached rows groups g).isEmpty) = false →
      totalOf S (intensities exps S c (retain c (attached rows groups g))) = 0 := by
    intro g hg
    have hnil : attached rows groups g = [] := by simpa using hg
    rw [group_total_exps exps S rows groups c g hlen hexp']
    have : (parsed rows).filter (entersGroup rows groups c g) = [] := by
      rw [List.filter_eq_nil_iff]
      intro r hr henters
      have hmem : r ∈ attached rows groups g := by
        unfold attached
        rw [List.mem_filter]
        simp only [entersGroup, Bool.and_eq_true] at henters
        exact ⟨hr, henters.1.1⟩
      rw [hnil] at hmem
      cases hmem
    rw [this]; rfl
  unfold keptIdx
  rw [sum_filter_of_zero _ _ _ hzero]
  have hgt : (List.range groups.length).map (fun g =>
        totalOf S (intensities exps S c (retain c (attached rows groups g)))) =
      (List.range groups.length).map (fun g =>
        (((parsed rows).filter (entersGroup rows groups c g)).map (chan 0)).sum) := by
    apply List.map_congr_left
    intro g _
    exact group_total_exps exps S rows groups c g hlen hexp'
  rw [hgt, sum_partition (fun g r => entersGroup rows groups c g r)
    (fun r i j => entersGroup_unique rows groups c r i j)]
  rfl

end PgFdr.C12
