import PgFdr.Model.C12Columns
import PgFdr.Proofs.C12
import PgFdr.Proofs.C10

/-! Helper lemmas for the remapping layer and the column pipeline of C12 (`Model/C12Columns.lean`). -/
namespace PgFdr.C12

/-! ### remapping -/

theorem remapRow_false (m : C10.DMap) (r : Row) : remapRow false m r = r := by
  cases r; rfl

theorem evidenceRows_replicate (a : C10.DMap) : ∀ files : List (List Row),
    ((List.replicate files.length a).zip files).flatMap (fun p => p.2.map (remapRow false p.1)) = files.flatten
  | [] => rfl
  | f :: rest => by
    have ih := evidenceRows_replicate a rest
    simp only [List.length_cons, List.replicate_succ, List.zip_cons_cons, List.flatMap_cons, List.flatten_cons, ih]
    congr 1
    induction f with
    | nil => rfl
    | cons r t iht => simp [remapRow_false, iht]

theorem prots_remap (m : C10.DMap) (r : Row) :
    prots (remapRow true m r) =
      removeDecoyProteinsFromTargetPeptides (C10.digestLookup m (C10.removeMods r.peptide)) := rfl

theorem attachTo_congr (groups : List (List String)) (r r' : Row) (h : prots r = prots r') :
    attachTo groups r = attachTo groups r' := by
  unfold attachTo
  rw [h]

theorem mem_evidenceRows (remap : Bool) (maps : List C10.DMap) (files : List (List Row)) (x : Row) :
    x ∈ evidenceRows remap maps files ↔
      ∃ p ∈ pairFiles remap maps files, ∃ r ∈ p.2, x = remapRow remap p.1 r := by
  unfold evidenceRows
  simp only [List.mem_flatMap, List.mem_map]
  constructor
  · rintro ⟨p, hp, r, hr, rfl⟩; exact ⟨p, hp, r, hr, rfl⟩
  · rintro ⟨p, hp, r, hr, rfl⟩; exact ⟨p, hp, r, hr, rfl⟩

/-! ### `remove_modifications`: a `[ … ]` token whose body holds a `( … )` token (`[Phospho (STY)]`, `[Oxidation (M)]`)

`C10.Spells` asks for bracket bodies free of `(`; the first regex pass removes the inner `( … )` token, the second the
bracket token that is left. -/

theorem removeModsL_bracket_nested (a b c rest : List Char)
    (ha : ∀ x ∈ a, x ≠ '(' ∧ x ≠ ']') (hb : ∀ x ∈ b, x ≠ ')')
    (hc : ∀ x ∈ c, x ≠ '(' ∧ x ≠ ']') :
    C10.removeModsL ('[' :: (a ++ '(' :: (b ++ ')' :: (c ++ ']' :: rest)))) = C10.removeModsL rest := by
  unfold C10.removeModsL C10.stripDelim
  have h1 : C10.stripDelimAux '(' ')' false ('[' :: (a ++ '(' :: (b ++ ')' :: (c ++ ']' :: rest)))) =
      '[' :: (a ++ (c ++ ']' :: C10.stripDelimAux '(' ')' false rest)) := by
    have e1 := C10.stripDelimAux_false_append '(' ')' ('[' :: a) ('(' :: (b ++ ')' :: (c ++ ']' :: rest))) (by
      intro x hx
      simp only [List.mem_cons] at hx
      rcases hx with rfl | hx
      · decide
      · exact (ha x hx).1)
    have e2 := C10.stripDelim_token '(' ')' b (c ++ ']' :: rest) hb
    have e3 := C10.stripDelimAux_false_append '(' ')' (c ++ [']']) rest (by
      intro x hx
      simp only [List.mem_append, List.mem_singleton] at hx
      rcases hx with hx | rfl
      · exact (hc x hx).1
      · decide)
    simp only [List.cons_append, List.append_assoc, List.nil_append] at e1 e3
    rw [e1, e2, e3]
  rw [h1]
  have h2 := C10.stripDelim_token '[' ']' (a ++ c) (C10.stripDelimAux '(' ')' false rest) (by
    intro x hx
    simp only [List.mem_append] at hx
    rcases hx with hx | hx
    · exact (ha x hx).2
    · exact (hc x hx).2)
  simp only [List.append_assoc] at h2
  rw [h2]

/-! ### the column pipeline -/

theorem lookup_map_self {β : Type} (f : C13.Gen → β) : ∀ (l : List C13.Gen) (g : C13.Gen), g ∈ l →
    (l.map (fun g => (g, f g))).lookup g = some (f g)
  | [], _, h => by cases h
  | a :: t, g, h => by
    by_cases hga : g = a
    · subst hga; simp
    · have hne : (g == a) = false := by simpa using hga
      have ht : g ∈ t := by
        rcases List.mem_cons.mp h with h | h
        · exact absurd h hga
        · exact h
      simp only [List.map_cons, List.lookup, hne]
      exact lookup_map_self f t g ht

theorem lookup_map_none {β : Type} (f : C13.Gen → β) : ∀ (l : List C13.Gen) (g : C13.Gen), g ∉ l →
    (l.map (fun g => (g, f g))).lookup g = none
  | [], _, _ => rfl
  | a :: t, g, h => by
    have hga : g ≠ a := fun e => h (e ▸ List.mem_cons_self)
    have hne : (g == a) = false := by simpa using hga
    have ht : g ∉ t := fun e => h (List.mem_cons_of_mem _ e)
    simp only [List.map_cons, List.lookup, hne]
    exact lookup_map_none f t g ht

theorem segmentOf_writerSegments (foreign : C13.Gen → List Row → List Cell) (x : ColCtx) (quants : List Row)
    (gens : List C13.Gen) (g : C13.Gen) (hg : g ∈ gens) :
    segmentOf (writerSegments foreign x quants gens) g =
      if g.valid x.hdr then some (genCells foreign x quants g) else none := by
  unfold segmentOf writerSegments
  by_cases hv : g.valid x.hdr = true
  · rw [if_pos hv]
    exact lookup_map_self _ _ g (List.mem_filter.mpr ⟨hg, hv⟩)
  · rw [if_neg hv]
    apply lookup_map_none
    intro h
    exact hv (List.mem_filter.mp h).2

theorem genCells_c12 (foreign : C13.Gen → List Row → List Cell) (x : ColCtx) (quants : List Row) (g : C13.Gen)
    (hg : isC12Gen g = true) : some (genCells foreign x quants g) = c12Cells x quants g := by
  cases g <;> simp [isC12Gen] at hg <;> simp [genCells, c12Cells]

theorem writerSegments_filter (foreign : C13.Gen → List Row → List Cell) (x : ColCtx) (quants : List Row)
    (gens : List C13.Gen) (p : C13.Gen → Bool) :
    (writerSegments foreign x quants gens).filter (fun s => p s.1) =
      writerSegments foreign x quants (gens.filter p) := by
  unfold writerSegments
  rw [List.filter_map, List.filter_filter, List.filter_filter]
  congr 1
  apply List.filter_congr
  intro g _
  simp [Function.comp, Bool.and_comm]

theorem runSt_of_readOnly : ∀ (sts : List StGen) (quants : List Row),
    (∀ s ∈ sts, ∀ q, (s.run q).2 = q) →
    runSt sts quants = (sts.map (fun s => (s.gen, (s.run quants).1)), quants)
  | [], _, _ => rfl
  | s :: rest, quants, h => by
    have hs := h s List.mem_cons_self quants
    have ih := runSt_of_readOnly rest quants (fun s' hs' => h s' (List.mem_cons_of_mem _ hs'))
    simp only [runSt, hs, ih, List.map_cons]

end PgFdr.C12
