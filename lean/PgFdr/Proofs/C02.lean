import PgFdr.Model.C02
import Mathlib.Order.Defs.LinearOrder
import Mathlib.Algebra.Order.Ring.Rat
import Mathlib.Tactic.Linarith
import Mathlib.Data.List.Perm.Subperm

/-!
Helper lemmas for C02 / C14 (lifted from the scratch proofs DESIGN-lean-scratch §14.1, §14.21 and
re-stated over the executable definitions of `PgFdr/Model/C02.lean`).
-/
namespace PgFdr.C02

section Generic
variable {G K : Type} [DecidableEq K]

theorem pass_sublist (st : Strategy G K) (contam : G → Bool) :
    ∀ (gs : List G) (seen : List K), (pass st contam seen gs).Sublist gs := by
  intro gs
  induction gs with
  | nil => intro _; simp [pass]
  | cons g gs ih =>
    intro seen
    simp only [pass]
    split
    · exact (ih seen).cons g
    · exact (ih _).cons_cons g

theorem pass_append (st : Strategy G K) (contam : G → Bool) :
    ∀ (pre post : List G) (seen : List K),
      pass st contam seen (pre ++ post) =
        pass st contam seen pre ++ pass st contam (seenAfter st contam seen pre) post := by
  intro pre
  induction pre with
  | nil => intro post seen; simp [pass, seenAfter]
  | cons g pre ih =>
    intro post seen
    simp only [List.cons_append, pass, seenAfter]
    split
    · simpa [seenAfter] using ih post seen
    · simp [ih, seenAfter, List.append_assoc]

theorem pass_split (st : Strategy G K) (contam : G → Bool) (pre post : List G) (g : G) (seen : List K) :
    pass st contam seen (pre ++ g :: post) =
      pass st contam seen pre ++
        (if isSeen (seenAfter st contam seen pre) (st.key g) || contam g
         then pass st contam (seenAfter st contam seen pre) post
         else g :: pass st contam (seenAfter st contam seen pre ++ st.marks g) post) := by
  rw [pass_append]; simp [pass]

/-- a group of the pass list that is not accepted and is not a contaminant had one of its looked-up
    identifiers in the seen-set: initially, or put there by a group accepted before it -/
theorem removed_justified (st : Strategy G K) (contam : G → Bool)
    (gs : List G) (g : G) (seen : List K) (hmem : g ∈ gs)
    (hout : g ∉ pass st contam seen gs) (hc : contam g = false) :
    ∃ pre post, gs = pre ++ g :: post ∧
      ∃ k ∈ st.key g, k ∈ seen ∨ ∃ s ∈ pass st contam seen pre, k ∈ st.marks s := by
  obtain ⟨pre, post, rfl⟩ := List.append_of_mem hmem
  refine ⟨pre, post, rfl, ?_⟩
  rw [pass_split] at hout
  by_cases hs : isSeen (seenAfter st contam seen pre) (st.key g) = true
  · simp only [isSeen, List.any_eq_true, decide_eq_true_eq, seenAfter, List.mem_append,
      List.mem_flatMap] at hs
    obtain ⟨k, hk, hk'⟩ := hs
    exact ⟨k, hk, hk'⟩
  · exfalso
    simp [hs, hc] at hout

/-- an accepted group sits at a position of the pass list where none of its looked-up identifiers
    was in the seen-set (no distinctness hypothesis: the position is the one that was accepted) -/
theorem mem_pass_split (st : Strategy G K) (contam : G → Bool) :
    ∀ (gs : List G) (seen : List K) (g : G), g ∈ pass st contam seen gs →
      ∃ pre post, gs = pre ++ g :: post ∧
        isSeen (seenAfter st contam seen pre) (st.key g) = false ∧ contam g = false := by
  intro gs
  induction gs with
  | nil => intro seen g h; simp [pass] at h
  | cons a gs ih =>
    intro seen g h
    simp only [pass] at h
    by_cases hd : (isSeen seen (st.key a) || contam a) = true
    · rw [if_pos hd] at h
      obtain ⟨pre, post, rfl, h1, h2⟩ := ih seen g h
      refine ⟨a :: pre, post, rfl, ?_, h2⟩
      have : seenAfter st contam seen (a :: pre) = seenAfter st contam seen pre := by
        simp [seenAfter, pass, hd]
      rw [this]; exact h1
    · rw [if_neg hd] at h
      simp only [Bool.or_eq_true, not_or, Bool.not_eq_true] at hd
      rcases List.mem_cons.mp h with rfl | h
      · exact ⟨[], gs, rfl, by simpa [seenAfter, pass] using hd.1, hd.2⟩
      · obtain ⟨pre, post, rfl, h1, h2⟩ := ih _ g h
        refine ⟨a :: pre, post, rfl, ?_, h2⟩
        have : seenAfter st contam seen (a :: pre) = seenAfter st contam (seen ++ st.marks a) pre := by
          simp [seenAfter, pass, hd.1, hd.2, List.append_assoc]
        rw [this]; exact h1

theorem pass_not_contam (st : Strategy G K) (contam : G → Bool) (gs : List G) (seen : List K) (x : G)
    (h : x ∈ pass st contam seen gs) : contam x = false := by
  obtain ⟨_, _, _, _, h2⟩ := mem_pass_split st contam gs seen x h
  exact h2

theorem not_isSeen_iff (seen ks : List K) : isSeen seen ks = false ↔ ∀ k ∈ ks, k ∉ seen := by
  simp [isSeen]

/-- strategy that looks nothing up accepts everything but contaminants -/
theorem pass_nokey (st : Strategy G K) (hkey : ∀ g, st.key g = []) (contam : G → Bool) (gs : List G)
    (seen : List K) : pass st contam seen gs = gs.filter (fun g => !contam g) := by
  induction gs generalizing seen with
  | nil => rfl
  | cons g gs ih =>
    simp only [pass, isSeen, hkey, List.any_nil, Bool.false_or, List.filter_cons]
    cases hc : contam g <;> simp [ih]

/-! ### shuffles as explicit permutations -/

theorem filterMap_range_getElem? {α : Type} (x : List α) :
    (List.range x.length).filterMap (fun i => x[i]?) = x := by
  induction x with
  | nil => rfl
  | cons a xs ih =>
    rw [List.length_cons, List.range_succ_eq_map, List.filterMap_cons]
    simp only [List.getElem?_cons_zero, List.filterMap_map]
    congr 1

theorem shuffle_perm {α : Type} (x : List α) (π : List Nat) (hπ : π.Perm (List.range x.length)) :
    (shuffle x π).Perm x := by
  have := hπ.filterMap (fun i => x[i]?)
  rw [filterMap_range_getElem?] at this
  exact this

theorem getElem?_filterMap_of_isSome {α β : Type} (f : α → Option β) :
    ∀ (τ : List α), (∀ t ∈ τ, (f t).isSome) → ∀ i : Nat, (τ.filterMap f)[i]? = (τ[i]?).bind f := by
  intro τ
  induction τ with
  | nil => intro _ i; simp
  | cons t τ ih =>
    intro h i
    have ht : (f t).isSome := h t (by simp)
    obtain ⟨b, hb⟩ := Option.isSome_iff_exists.mp ht
    rw [List.filterMap_cons, hb]
    cases i with
    | zero => simp [hb]
    | succ i =>
      simp only [List.getElem?_cons_succ]
      exact ih (fun t' ht' => h t' (by simp [ht'])) i

/-- shuffling an already shuffled list = shuffling once with the composed permutation -/
theorem shuffle_shuffle {α : Type} (x : List α) (τ π : List Nat) (hτ : ∀ t ∈ τ, t < x.length) :
    shuffle (shuffle x τ) π = shuffle x (π.filterMap (fun i => τ[i]?)) := by
  unfold shuffle
  rw [List.filterMap_filterMap]
  congr 1
  funext i
  rw [getElem?_filterMap_of_isSome (fun i => x[i]?) τ
    (fun t ht => by simp [List.getElem?_eq_getElem (hτ t ht)])]

/-- the executable test of the driver implies the hypothesis of the theorems -/
theorem perm_of_isPermOfRange (π : List Nat) (n : Nat) (h : isPermOfRange π n = true) :
    π.Perm (List.range n) := by
  simp only [isPermOfRange, Bool.and_eq_true, beq_iff_eq, List.all_eq_true, decide_eq_true_eq,
    List.contains_iff_mem] at h
  obtain ⟨⟨hlen, _⟩, hsub⟩ := h
  have hsp : (List.range n).Subperm π :=
    List.subperm_of_subset List.nodup_range (fun i hi => hsub i hi)
  exact (hsp.perm_of_length_le (by simp [hlen])).symm

end Generic

/-! ### the two sort keys -/

theorem le1_total (a b : Item) : (le1 a b || le1 b a) = true := by
  simp only [le1, Bool.or_eq_true, Bool.and_eq_true, decide_eq_true_eq, Bool.not_eq_true']
  rcases lt_trichotomy a.score b.score with h | h | h
  · right; left; exact h
  · cases ha : a.obsolete <;> cases hb : b.obsolete <;> simp [h]
  · left; left; exact h

theorem le1_trans (a b c : Item) (h1 : le1 a b = true) (h2 : le1 b c = true) : le1 a c = true := by
  simp only [le1, Bool.or_eq_true, Bool.and_eq_true, decide_eq_true_eq, Bool.not_eq_true'] at *
  rcases h1 with h1 | ⟨e1, o1⟩ <;> rcases h2 with h2 | ⟨e2, o2⟩
  · left; linarith
  · left; rw [← e2]; exact h1
  · left; rw [e1]; exact h2
  · right
    refine ⟨e1.trans e2, ?_⟩
    rcases o1 with o1 | o1
    · left; exact o1
    · rcases o2 with o2 | o2
      · rw [o1] at o2; simp at o2
      · right; exact o2

theorem le2_total (a b : Item) : (le2 a b || le2 b a) = true := by
  simp only [le2, Bool.or_eq_true, decide_eq_true_eq]; exact le_total _ _

theorem le2_trans (a b c : Item) (h1 : le2 a b = true) (h2 : le2 b c = true) : le2 a c = true := by
  simp only [le2, decide_eq_true_eq] at *; exact le_trans h2 h1

/-- what "may stand before" in the pass order means -/
theorem le1_iff (s x : Item) :
    le1 s x = true ↔ x.score < s.score ∨ (s.score = x.score ∧ (s.obsolete = true → x.obsolete = true)) := by
  simp only [le1, Bool.or_eq_true, Bool.and_eq_true, decide_eq_true_eq, Bool.not_eq_true']
  constructor
  · rintro (h | ⟨e, o⟩)
    · left; exact h
    · right; refine ⟨e, fun hso => ?_⟩
      rcases o with o | o
      · rw [hso] at o; simp at o
      · exact o
  · rintro (h | ⟨e, o⟩)
    · left; exact h
    · right; refine ⟨e, ?_⟩
      cases hs : s.obsolete
      · left; rfl
      · right; exact o hs

/-! ### the whole call -/

/-- well-formed shuffles: permutations of the positions of the lists they are applied to
    (what `np.random.shuffle` does; the driver tests it as `shufflesFit`) -/
structure ShufflesOK (mode : Mode) (items : List Item) (π₁ π₂ : List Nat) : Prop where
  p1 : π₁.Perm (List.range (items.filter (·.hasEvidence)).length)
  p2 : π₂.Perm (List.range (keptFrom mode [] items π₁).length)

theorem shufflesOK_of_fit (mode : Mode) (c : Call) (h : shufflesFit mode [] c = true) :
    ShufflesOK mode c.items c.π₁ c.π₂ := by
  simp only [shufflesFit, Bool.and_eq_true] at h
  exact ⟨perm_of_isPermOfRange _ _ h.1, perm_of_isPermOfRange _ _ h.2⟩

theorem doCompetition_eq (mode : Mode) (items : List Item) (π₁ π₂ : List Nat) :
    doCompetition mode items π₁ π₂ = (shuffle (keptFrom mode [] items π₁) π₂).mergeSort le2 := rfl

theorem passOrder_perm (items : List Item) (π₁ : List Nat)
    (h : π₁.Perm (List.range (items.filter (·.hasEvidence)).length)) :
    (passOrder items π₁).Perm (items.filter (·.hasEvidence)) :=
  (List.mergeSort_perm _ _).trans (shuffle_perm _ _ h)

theorem passOrder_sorted (items : List Item) (π₁ : List Nat) :
    (passOrder items π₁).Pairwise (fun a b => le1 a b = true) :=
  List.pairwise_mergeSort (le := le1) le1_trans le1_total _

theorem final_perm_kept (mode : Mode) (items : List Item) (π₁ π₂ : List Nat)
    (ok : ShufflesOK mode items π₁ π₂) :
    (doCompetition mode items π₁ π₂).Perm (keptFrom mode [] items π₁) :=
  (List.mergeSort_perm _ _).trans (shuffle_perm _ _ ok.p2)

/-- losslessness, for any of the strategies, in terms of `key` / `marks` -/
theorem removal_has_better_survivor (mode : Mode) (items : List Item) (π₁ π₂ : List Nat)
    (ok : ShufflesOK mode items π₁ π₂)
    (x : Item) (hx : x ∈ items) (hev : x.hasEvidence = true) (hc : contam x = false)
    (hout : x ∉ doCompetition mode items π₁ π₂) :
    ∃ s ∈ doCompetition mode items π₁ π₂,
      (x.score < s.score ∨ (s.score = x.score ∧ (s.obsolete = true → x.obsolete = true))) ∧
      ∃ k ∈ (strategy mode).key x, k ∈ (strategy mode).marks s := by
  have hperm := final_perm_kept mode items π₁ π₂ ok
  have hx1 : x ∈ passOrder items π₁ :=
    (passOrder_perm items π₁ ok.p1).symm.subset (List.mem_filter.mpr ⟨hx, hev⟩)
  have hout1 : x ∉ pass (strategy mode) contam [] (passOrder items π₁) :=
    fun h => hout (hperm.symm.subset h)
  obtain ⟨pre, post, hsp, k, hk, hks⟩ := removed_justified (strategy mode) contam _ x [] hx1 hout1 hc
  rcases hks with hks | ⟨s, hs, hks⟩
  · simp at hks
  · have hsorted := passOrder_sorted items π₁
    rw [hsp] at hsorted
    have hspre : s ∈ pre := (pass_sublist (strategy mode) contam pre []).subset hs
    have hle : le1 s x = true := (List.pairwise_append.mp hsorted).2.2 s hspre x (by simp)
    have hskept : s ∈ keptFrom mode [] items π₁ := by
      unfold keptFrom; rw [hsp, pass_append]; exact List.mem_append_left _ hs
    exact ⟨s, hperm.symm.subset hskept, (le1_iff s x).mp hle, k, hk, hks⟩

/-- soundness, for any of the strategies, in terms of `key` / `marks`; no distinctness hypothesis -/
theorem no_twin_survivors_key (mode : Mode) (items : List Item) (π₁ π₂ : List Nat)
    (ok : ShufflesOK mode items π₁ π₂)
    (a b : Item) (ha : a ∈ doCompetition mode items π₁ π₂)
    (hb : b ∈ doCompetition mode items π₁ π₂) (hlt : b.score < a.score) :
    ∀ k ∈ (strategy mode).key b, k ∉ (strategy mode).marks a := by
  have hperm := final_perm_kept mode items π₁ π₂ ok
  have ha1 := hperm.subset ha
  have hb1 := hperm.subset hb
  unfold keptFrom at ha1 hb1
  obtain ⟨pre, post, hsp, hns, _⟩ := mem_pass_split (strategy mode) contam _ [] b hb1
  have hsorted := passOrder_sorted items π₁
  rw [hsp] at hsorted ha1
  have hab : a ≠ b := by intro h; rw [h] at hlt; exact lt_irrefl _ hlt
  have hapost : a ∉ post := by
    intro h
    have hle : le1 b a = true := by
      have := (List.pairwise_append.mp hsorted).2.1
      exact (List.pairwise_cons.mp this).1 a h
    rcases (le1_iff b a).mp hle with h1 | ⟨h1, _⟩
    · exact lt_asymm hlt h1
    · rw [h1] at hlt; exact lt_irrefl _ hlt
  rw [pass_split] at ha1
  have hapre : a ∈ pass (strategy mode) contam [] pre := by
    rcases List.mem_append.mp ha1 with h | h
    · exact h
    · exfalso
      split at h
      · exact hapost ((pass_sublist _ contam post _).subset h)
      · rcases List.mem_cons.mp h with h | h
        · exact hab h
        · exact hapost ((pass_sublist _ contam post _).subset h)
  intro k hk hka
  have := (not_isSeen_iff _ _).mp hns k hk
  apply this
  simp only [seenAfter, List.nil_append, List.mem_flatMap]
  exact ⟨a, hapre, hka⟩

/-! ### the strategies -/

theorem select_subset (p : Picking) (x : Item) : ∀ q ∈ select p x, q ∈ x.group := by
  intro q hq
  cases p
  · exact hq
  · exact (List.mem_filter.mp hq).1
  · exact (List.mem_filter.mp hq).1

theorem pickedGroup_shared (p : Picking) (x s : Item) :
    (∃ k ∈ (strategy (.pickedGroup p)).key x, k ∈ (strategy (.pickedGroup p)).marks s) ↔
      ∃ a ∈ x.group, ∃ b ∈ select p s, cleanProteinId a = cleanProteinId b := by
  simp only [strategy, List.mem_map]
  constructor
  · rintro ⟨k, ⟨a, ha, rfl⟩, b, hb, hbk⟩
    exact ⟨a, ha, b, hb, hbk.symm⟩
  · rintro ⟨a, ha, b, hb, h⟩
    exact ⟨cleanProteinId a, ⟨a, ha, rfl⟩, b, hb, h.symm⟩

theorem picked_shared (x s : Item) :
    (∃ k ∈ (strategy .picked).key x, k ∈ (strategy .picked).marks s) ↔
      groupString x.group = groupString s.group := by
  simp [strategy]

theorem seenAfter_nil_classic (gs : List Item) : seenAfter (strategy .classic) contam [] gs = [] := by
  simp [seenAfter, strategy]

end PgFdr.C02
