import Mathlib.Tactic.Linarith
import Mathlib.Tactic.Ring
import Mathlib.Tactic.FieldSimp
import Mathlib.Tactic.Positivity
import Mathlib.Data.Rat.Defs
import Mathlib.Algebra.Order.Field.Basic
import Mathlib.Data.List.Sort
import PgFdr.Model.C17

/-! Helper lemmas for C17: complete characterisation of the scan, sortedness, permutation lemmas. -/
namespace PgFdr.C17

/-- running mean after `k+1` further elements, with accumulators `s`, `n` -/
def rmean (s : Rat) (n : Nat) (l : List Rat) (k : Nat) : Rat :=
  (s + (l.take (k + 1)).sum) / ((n + k + 1 : Nat) : Rat)

/-- complete characterisation of `scan` -/
theorem scan_some (level : Rat) : ∀ (l : List Rat) (s : Rat) (n : Nat) (a : Rat),
    scan level s n l = some a ↔
      ∃ k, l[k]? = some a ∧ level < rmean s n l k ∧ ∀ j, j < k → rmean s n l j ≤ level := by
  intro l
  induction l with
  | nil => intro s n a; simp [scan]
  | cons x xs ih =>
    intro s n a
    simp only [scan]
    by_cases hx : (s + x) / ((n + 1 : Nat) : Rat) > level
    · simp only [hx, if_true]
      constructor
      · intro h
        have : x = a := by simpa using h
        subst this
        refine ⟨0, by simp, ?_, by intro j hj; omega⟩
        simpa [rmean] using hx
      · rintro ⟨k, hk, hlt, hfirst⟩
        cases k with
        | zero => simpa using hk
        | succ k =>
          exfalso
          have := hfirst 0 (by omega)
          simp only [rmean, List.take_succ_cons, List.take_zero, List.sum_cons, List.sum_nil,
            add_zero] at this
          have hx' : level < (s + x) / ((n + 1 : Nat) : Rat) := hx
          have e : ((n + 0 + 1 : Nat) : Rat) = ((n + 1 : Nat) : Rat) := by norm_num
          rw [e] at this
          linarith
    · simp only [hx, if_false]
      rw [ih (s + x) (n + 1) a]
      have key : ∀ k, rmean (s + x) (n + 1) xs k = rmean s n (x :: xs) (k + 1) := by
        intro k
        simp only [rmean, List.take_succ_cons, List.sum_cons]
        have e : n + 1 + k + 1 = n + (k + 1) + 1 := by omega
        rw [e, add_assoc]
      constructor
      · rintro ⟨k, hk, hlt, hfirst⟩
        refine ⟨k + 1, by simpa using hk, by rw [← key]; exact hlt, ?_⟩
        intro j hj
        cases j with
        | zero =>
          simp only [rmean, List.take_succ_cons, List.take_zero, List.sum_cons, List.sum_nil, add_zero]
          have e : ((n + 0 + 1 : Nat) : Rat) = ((n + 1 : Nat) : Rat) := by norm_num
          rw [e]
          exact not_lt.mp hx
        | succ j => rw [← key]; exact hfirst j (by omega)
      · rintro ⟨k, hk, hlt, hfirst⟩
        cases k with
        | zero =>
          exfalso
          simp only [rmean, List.take_succ_cons, List.take_zero, List.sum_cons, List.sum_nil, add_zero] at hlt
          have e : ((n + 0 + 1 : Nat) : Rat) = ((n + 1 : Nat) : Rat) := by norm_num
          rw [e] at hlt
          exact hx hlt
        | succ k =>
          refine ⟨k, by simpa using hk, by rw [key]; exact hlt, ?_⟩
          intro j hj
          rw [key]; exact hfirst (j + 1) (by omega)

theorem scan_none (level : Rat) : ∀ (l : List Rat) (s : Rat) (n : Nat),
    scan level s n l = none ↔ ∀ j, j < l.length → rmean s n l j ≤ level := by
  intro l
  induction l with
  | nil => intro s n; simp [scan]
  | cons x xs ih =>
    intro s n
    simp only [scan]
    have key : ∀ k, rmean (s + x) (n + 1) xs k = rmean s n (x :: xs) (k + 1) := by
      intro k
      simp only [rmean, List.take_succ_cons, List.sum_cons]
      have e : n + 1 + k + 1 = n + (k + 1) + 1 := by omega
      rw [e, add_assoc]
    have e0 : rmean s n (x :: xs) 0 = (s + x) / ((n + 1 : Nat) : Rat) := by
      simp [rmean]
    by_cases hx : (s + x) / ((n + 1 : Nat) : Rat) > level
    · simp only [hx, if_true]
      constructor
      · intro h; simp at h
      · intro h
        have := h 0 (by simp)
        rw [e0] at this
        exact absurd hx (not_lt.mpr this)
    · simp only [hx, if_false]
      rw [ih]
      constructor
      · intro h j hj
        cases j with
        | zero => rw [e0]; exact not_lt.mp hx
        | succ j => rw [← key]; exact h j (by simpa using hj)
      · intro h j hj
        rw [key]; exact h (j + 1) (by simpa using hj)


theorem finites_perm {l l' : List PepVal} (h : l.Perm l') : (finites l).Perm (finites l') := by
  induction h with
  | nil => exact List.Perm.refl _
  | cons x _ ih => cases x <;> simp [finites, ih]
  | swap x y l => cases x <;> cases y <;> simp [finites, List.Perm.swap]
  | trans _ _ ih1 ih2 => exact ih1.trans ih2

theorem sortAsc_sorted (l : List Rat) : (sortAsc l).Pairwise (· ≤ ·) := by
  have := List.pairwise_mergeSort (le := fun a b : Rat => decide (a ≤ b))
    (by intro a b c h1 h2; simp only [decide_eq_true_eq] at *; exact le_trans h1 h2)
    (by intro a b; simp only [Bool.or_eq_true, decide_eq_true_eq]; exact le_total a b) l
  simpa [sortAsc] using this

theorem sortAsc_perm (l : List Rat) : (sortAsc l).Perm l := List.mergeSort_perm l _

theorem sortAsc_congr {l l' : List Rat} (h : l.Perm l') : sortAsc l = sortAsc l' := by
  apply List.Perm.eq_of_pairwise (le := (· ≤ ·)) (fun a b _ _ h1 h2 => le_antisymm h1 h2)
    (sortAsc_sorted l) (sortAsc_sorted l')
  exact ((sortAsc_perm l).trans h).trans (sortAsc_perm l').symm

theorem finites_append (l l' : List PepVal) : finites (l ++ l') = finites l ++ finites l' := by
  induction l with
  | nil => rfl
  | cons x xs ih => cases x <;> simp [finites, ih]

theorem rmean_zero (l : List Rat) (k : Nat) (hk : k < l.length) :
    rmean 0 0 l k = mean (l.take (k + 1)) := by
  simp only [rmean, mean, zero_add, List.length_take]
  have : min (k + 1) l.length = k + 1 := by omega
  rw [this]

/-- elements of the sorted list are found by index, in order -/
theorem sorted_getD_le (l : List Rat) (hs : l.Pairwise (· ≤ ·)) (i j : Nat) (hij : i ≤ j)
    (hj : j < l.length) : l.getD i 0 ≤ l.getD j 0 := by
  have hi : i < l.length := by omega
  simp only [List.getD, List.getElem?_eq_getElem hi, List.getElem?_eq_getElem hj, Option.getD_some]
  rcases Nat.lt_or_ge i j with h | h
  · exact List.pairwise_iff_getElem.mp hs i j hi hj h
  · have : i = j := by omega
    subst this; exact le_refl _

/-- in a sorted list the elements strictly below a bound form a prefix -/
theorem filter_lt_eq_take (l : List Rat) (hs : l.Pairwise (· ≤ ·)) (c : Rat) :
    l.filter (fun p => decide (p < c)) = l.take (l.filter (fun p => decide (p < c))).length := by
  induction l with
  | nil => simp
  | cons x xs ih =>
    have hs' : xs.Pairwise (· ≤ ·) := (List.pairwise_cons.mp hs).2
    by_cases hx : x < c
    · simp only [List.filter_cons, hx, decide_true, if_true, List.length_cons, List.take_succ_cons]
      rw [← ih hs']
    · have hnone : xs.filter (fun p => decide (p < c)) = [] := by
        rw [List.filter_eq_nil_iff]
        intro y hy
        have : x ≤ y := (List.pairwise_cons.mp hs).1 y hy
        simp only [decide_eq_true_eq, not_lt]
        linarith [not_lt.mp hx]
      simp [List.filter_cons, hx, hnone]

/-- a list that is already ascending is left alone by the sort (used by the non-vacuity examples:
    `mergeSort` is defined by well-founded recursion and does not reduce in the kernel) -/
theorem sortAsc_of_sorted (l : List Rat) (h : l.Pairwise (· ≤ ·)) : sortAsc l = l := by
  unfold sortAsc
  apply List.mergeSort_of_pairwise
  exact h.imp (by intro a b hab; simpa using hab)

end PgFdr.C17
