import PgFdr.Proofs.C10
import PgFdr.Props.C04
import PgFdr.Proofs.C06

/-!
Helper lemmas for `purity_rescued_grouping` (Props/C10.lean): the groups of the rescue stage
(`C04.rescueGroups`) keep proteins of one kind (`REV__…`, `rev_…`, target) together.

The rescue stage merges groups whose leaders are connected in a graph whose peptide nodes are NAMED
`"peptide:" ++ ";".join(sorted(leaders))`; two peptides with the same name are the same node.  The kind of
a node is read off its name (`nodeKind`): a protein node's kind is the kind of the identifier, a peptide
node's kind is the kind of the first leader of the joined list (the marker strings contain no `;`).  Every
edge joins nodes of one kind when the identifiers carry the markers only as prefixes and every peptide
lists proteins of one kind — so connected leaders have one kind (`conn_kind`).
-/
namespace PgFdr.C10

/-! ### kinds on character lists -/

def kindL (cs : List Char) : Nat :=
  if "REV__".toList.isPrefixOf cs then 0 else if "rev_".toList.isPrefixOf cs then 1 else 2

theorem kind_eq_kindL (p : String) : kind p = kindL p.toList := rfl

/-- the kind a node name stands for -/
def nodeKindL (cs : List Char) : Nat :=
  if "peptide:".toList.isPrefixOf cs then kindL (cs.drop 8) else kindL cs

def nodeKind (n : String) : Nat := nodeKindL n.toList

theorem isPrefixOf_append_sep (m : List Char) (hm : ';' ∉ m) : ∀ (a t : List Char),
    m.isPrefixOf (a ++ ';' :: t) = m.isPrefixOf a := by
  induction m with
  | nil => intro a t; simp
  | cons c m ih =>
    intro a t
    have hc : c ≠ ';' := fun h => hm (by simp [h])
    have hm' : ';' ∉ m := fun h => hm (by simp [h])
    cases a with
    | nil => simp [List.isPrefixOf, hc]
    | cons d a => simp only [List.cons_append, List.isPrefixOf, ih hm' a t]

theorem kindL_append_sep (a t : List Char) : kindL (a ++ ';' :: t) = kindL a := by
  unfold kindL
  rw [isPrefixOf_append_sep _ (by decide), isPrefixOf_append_sep _ (by decide)]

theorem toList_joinWith_cons (a : String) (rest : List String) :
    (joinWith ";" (a :: rest)).toList = a.toList ∨ ∃ t, (joinWith ";" (a :: rest)).toList = a.toList ++ ';' :: t := by
  cases rest with
  | nil => left; rfl
  | cons b r =>
    right
    refine ⟨(joinWith ";" (b :: r)).toList, ?_⟩
    simp only [joinWith, String.toList_append]
    rw [List.append_assoc]
    rfl

theorem kindL_joinWith (a : String) (rest : List String) : kindL (joinWith ";" (a :: rest)).toList = kind a := by
  rcases toList_joinWith_cons a rest with h | ⟨t, h⟩
  · rw [h]; rfl
  · rw [h, kindL_append_sep]; rfl

theorem nodeKind_pepNode (s : String) : nodeKind ("peptide:" ++ s) = kindL s.toList := by
  unfold nodeKind nodeKindL
  rw [String.toList_append]
  have h8 : "peptide:".toList.length = 8 := by decide
  have hp : "peptide:".toList.isPrefixOf ("peptide:".toList ++ s.toList) = true :=
    List.isPrefixOf_iff_prefix.mpr (List.prefix_append _ _)
  rw [if_pos hp, ← h8, List.drop_left]

theorem containsSub_append_of_prefix (pat : List Char) (t : List Char) (h : pat.isPrefixOf t = true) :
    ∀ pre : List Char, containsSub pat (pre ++ t) = true := by
  intro pre
  induction pre with
  | nil => exact C04.containsSub_of_prefix pat t h
  | cons c pre ih => simp [containsSub, ih]

/-- for an identifier that carries the markers only as prefixes the node kind is the identifier's kind -/
theorem nodeKind_protein (l : String) (hl : MarkerOnlyAsPrefix l) : nodeKind l = kind l := by
  unfold nodeKind nodeKindL
  by_cases hp : "peptide:".toList.isPrefixOf l.toList = true
  · rw [if_pos hp]
    obtain ⟨t, ht⟩ := List.isPrefixOf_iff_prefix.mp hp
    have h8 : "peptide:".toList.length = 8 := by decide
    have hdrop : l.toList.drop 8 = t := by rw [← ht, ← h8, List.drop_left]
    rw [hdrop, kind_eq_kindL]
    -- `l` starts with 'p', so it is a target; `t` cannot start with a marker
    have hpl : "peptide:".toList = ['p', 'e', 'p', 't', 'i', 'd', 'e', ':'] := rfl
    have hnR : "REV__".toList.isPrefixOf l.toList = false := by
      rw [← ht, hpl]; rfl
    have hnr : "rev_".toList.isPrefixOf l.toList = false := by
      rw [← ht, hpl]; rfl
    have h1 : "REV__".toList.isPrefixOf t = false := by
      cases hc : "REV__".toList.isPrefixOf t with
      | false => rfl
      | true =>
        have := hl.1 (by unfold strContains; rw [← ht]; exact containsSub_append_of_prefix _ t hc _)
        unfold strStartsWith at this
        rw [hnR] at this; cases this
    have h2 : "rev_".toList.isPrefixOf t = false := by
      cases hc : "rev_".toList.isPrefixOf t with
      | false => rfl
      | true =>
        have := hl.2 (by unfold strContains; rw [← ht]; exact containsSub_append_of_prefix _ t hc _)
        unfold strStartsWith at this
        rw [hnr] at this; cases this
    unfold kindL
    rw [h1, h2, hnR, hnr]
  · rw [if_neg hp]; rfl

/-! ### the graph of the rescue stage -/

/-- what the lemmas below need of the filtered peptide list `f` and its subset grouping `N` -/
structure KindCtx (N : C04.Groups) (f : List PepInfo) : Prop where
  nodup : N.flatten.Nodup
  ids : ∀ e ∈ f, ∀ p ∈ e.proteins, MarkerOnlyAsPrefix p
  pep : ∀ e ∈ f, ∀ a ∈ e.proteins, ∀ b ∈ e.proteins, kind a = kind b
  grp : ∀ g ∈ N, ∀ a ∈ g, ∀ b ∈ g, kind a = kind b

/-- a protein and the leader of its group have one kind -/
theorem leader_kind {N : C04.Groups} {f : List PepInfo} (ctx : KindCtx N f) (q lq : String)
    (h : C04.leaderOf N q = some lq) : kind q = kind lq := by
  unfold C04.leaderOf at h
  cases hi : C04.idxOf N q with
  | none => rw [hi] at h; cases h
  | some i =>
    rw [hi] at h
    simp only at h
    have hq := C04.idxOf_mem N q i hi
    have hlt := C04.idxOf_lt N q i hi
    have hg : N.getD i [] ∈ N := by
      have := C04.getElem?_of_lt_getD N i hlt
      exact List.mem_of_getElem? this
    have hlq : lq ∈ N.getD i [] := by
      cases hgi : N.getD i [] with
      | nil => rw [hgi] at h; cases h
      | cons a t => rw [hgi] at h; simp only [List.head?_cons, Option.some.injEq] at h; subst h; simp
    exact ctx.grp _ hg q hq lq hlq

/-- every edge of the graph joins nodes of one kind -/
theorem edge_kind {N : C04.Groups} {f : List PepInfo} (ctx : KindCtx N f) (l n : String)
    (h : (l, n) ∈ C04.edges N f) : nodeKind l = nodeKind n := by
  obtain ⟨hl, x, hx, hlx, rfl⟩ := (C04.edge_iff N f l n).mp h
  rw [nodeKind_protein l (ctx.ids x hx l hlx)]
  unfold C04.pepNodeName
  rw [nodeKind_pepNode]
  -- `l` leads its own group
  obtain ⟨i, hi, _, hhead, _⟩ := C04.protNode_spec N f ctx.nodup l hl
  have hll : C04.leaderOf N l = some l := by
    unfold C04.leaderOf; rw [hi]; exact hhead
  have hmem : l ∈ C04.sortDedup (x.proteins.filterMap (C04.leaderOf N)) := by
    rw [C04.mem_sortDedup, List.mem_filterMap]
    exact ⟨l, hlx, hll⟩
  cases hL : C04.sortDedup (x.proteins.filterMap (C04.leaderOf N)) with
  | nil => rw [hL] at hmem; cases hmem
  | cons a rest =>
    rw [kindL_joinWith]
    have ha : a ∈ C04.sortDedup (x.proteins.filterMap (C04.leaderOf N)) := by rw [hL]; simp
    rw [C04.mem_sortDedup, List.mem_filterMap] at ha
    obtain ⟨q, hq, hqa⟩ := ha
    rw [← leader_kind ctx q a hqa]
    exact ctx.pep x hx l hlx q hq

theorem conn_kind {N : C04.Groups} {f : List PepInfo} (ctx : KindCtx N f) (a b : String)
    (h : C04.Conn (C04.edges N f) a b) : nodeKind a = nodeKind b := by
  induction h with
  | refl => rfl
  | tail _ hstep ih =>
    rw [ih]
    unfold C04.Adj at hstep
    rcases (C04.mem_adj _ _ _).mp hstep with h | h
    · exact edge_kind ctx _ _ h
    · exact (edge_kind ctx _ _ h).symm

/-- all members of a rescued group have one kind -/
theorem rescued_kind {ι : Type} (pil : List PepInfo) (hk : (pil.map (·.peptide)).Nodup)
    (hids : ∀ e ∈ pil, ∀ p ∈ e.proteins, MarkerOnlyAsPrefix p)
    (hh : ∀ e ∈ pil, ∀ a ∈ e.proteins, ∀ b ∈ e.proteins, kind a = kind b)
    (old : List (List String × ι)) (cutoff : Rat) (cuts : C04.CutMap) (out : C04.RescueOut ι)
    (hrun : C04.rescueGroups old pil cutoff cuts = .ok out) :
    ∀ g ∈ out.rescued, ∀ a ∈ g, ∀ b ∈ g, kind a = kind b := by
  have hfs : (C04.filterByCutoff pil cutoff).Sublist pil := List.filter_sublist
  have hfk : ((C04.filterByCutoff pil cutoff).map (·.peptide)).Nodup := (hfs.map _).nodup hk
  have hkeys : ((C03.toPairs (C04.filterByCutoff pil cutoff)).map (·.1)).Nodup := by
    rw [keys_toPairs]; exact hfk
  obtain ⟨_, hnd, hmem⟩ := C03.subset_partition _ hkeys
  have ctx : KindCtx (C04.subsetOf (C04.filterByCutoff pil cutoff)) (C04.filterByCutoff pil cutoff) := {
    nodup := hnd
    ids := fun e he => hids e (hfs.subset he)
    pep := fun e he => hh e (hfs.subset he)
    grp := by
      intro g hg a ha b hb
      exact kind_of_chain (fun e he => hh e (hfs.subset he))
        (subsetGrouping_conn _ hfk g hg a ha b hb) }
  intro g hg a ha b hb
  obtain ⟨la, lb, hla, hlb, hconn⟩ := C04.merged_only_connected _ old pil cutoff cuts out hrun hnd g hg a b ha hb
  have hin : ∀ q lq, C04.leaderOf (C04.subsetOf (C04.filterByCutoff pil cutoff)) q = some lq →
      MarkerOnlyAsPrefix lq := by
    intro q lq hq
    -- the leader is a member of a group of `N`, hence listed by a filtered peptide
    unfold C04.leaderOf at hq
    cases hi : C04.idxOf (C04.subsetOf (C04.filterByCutoff pil cutoff)) q with
    | none => rw [hi] at hq; cases hq
    | some i =>
      rw [hi] at hq
      simp only at hq
      have hlt := C04.idxOf_lt _ q i hi
      have hgN := List.mem_of_getElem? (C04.getElem?_of_lt_getD _ i hlt)
      have hlq : lq ∈ (C04.subsetOf (C04.filterByCutoff pil cutoff)).getD i [] := by
        cases hgi : (C04.subsetOf (C04.filterByCutoff pil cutoff)).getD i [] with
        | nil => rw [hgi] at hq; cases hq
        | cons a t => rw [hgi] at hq; simp only [List.head?_cons, Option.some.injEq] at hq; subst hq; simp
      obtain ⟨e, he, hle⟩ := (hmem lq).mp (List.mem_flatten.mpr ⟨_, hgN, hlq⟩)
      obtain ⟨y, hy, rfl⟩ := List.mem_map.mp he
      exact hids y (hfs.subset hy) lq hle
  have h1 := conn_kind ctx la lb hconn
  rw [nodeKind_protein la (hin a la hla), nodeKind_protein lb (hin b lb hlb)] at h1
  rw [leader_kind ctx a la hla, leader_kind ctx b lb hlb, h1]

/-- … and so do all members of a group of the rescue stage's result (rescued groups + remnants of the
    first-pass groups) -/
theorem rescue_groups_kind {ι : Type} (pil : List PepInfo) (hk : (pil.map (·.peptide)).Nodup)
    (hids : ∀ e ∈ pil, ∀ p ∈ e.proteins, MarkerOnlyAsPrefix p)
    (hh : ∀ e ∈ pil, ∀ a ∈ e.proteins, ∀ b ∈ e.proteins, kind a = kind b)
    (old : List (List String × ι)) (cutoff : Rat) (cuts : C04.CutMap) (out : C04.RescueOut ι)
    (hold : ∀ g0 ∈ old.map (·.1), ∀ a ∈ g0, ∀ b ∈ g0, kind a = kind b)
    (hrun : C04.rescueGroups old pil cutoff cuts = .ok out) :
    ∀ g ∈ out.groups, ∀ a ∈ g, ∀ b ∈ g, kind a = kind b := by
  have hfs : (C04.filterByCutoff pil cutoff).Sublist pil := List.filter_sublist
  have hkeys : ((C03.toPairs (C04.filterByCutoff pil cutoff)).map (·.1)).Nodup := by
    rw [keys_toPairs]; exact (hfs.map _).nodup hk
  obtain ⟨_, hnd, _⟩ := C03.subset_partition _ hkeys
  intro g hg a ha b hb
  rcases (C04.remnants_exact _ old pil cutoff cuts out hrun hnd g).mp hg with h | ⟨_, g0, hg0, rfl⟩
  · exact rescued_kind pil hk hids hh old cutoff cuts out hrun g h a ha b hb
  · exact hold g0 hg0 a (List.mem_filter.mp ha).1 b (List.mem_filter.mp hb).1


/-! ### the reported rows of the composed model -/

theorem mem_zipItems_group : ∀ (gs : List (List String)) (es : List (List Evidence)) (ss : List Rat) (a : C02.Item),
    a ∈ Pipeline.zipItems gs es ss → a.group ∈ gs := by
  intro gs
  induction gs with
  | nil => intro es ss a h; simp [Pipeline.zipItems] at h
  | cons g gs ih =>
    intro es ss a h
    cases es with
    | nil => simp [Pipeline.zipItems] at h
    | cons e es =>
      cases ss with
      | nil => simp [Pipeline.zipItems] at h
      | cons s ss =>
        simp only [Pipeline.zipItems, List.mem_cons] at h
        rcases h with rfl | h
        · simp
        · exact List.mem_cons_of_mem _ (ih es ss a h)

/-- the rows of a pass list proteins of one kind when the regular groups handed to the competition do and
    the extra groups are placeholders -/
theorem pass_rows_kind (cfg : Pipeline.Config) (inp : Pipeline.Input) (p : Pipeline.PassOut) (rs : Bool)
    (gs : C04.Groups) (extra : List (List String × List Evidence)) (scores : List Rat) (π₁ π₂ : List Nat)
    (h : C04.PassFacts cfg inp p rs gs extra scores π₁ π₂)
    (hgs : ∀ g ∈ gs, ∀ a ∈ g, ∀ b ∈ g, kind a = kind b)
    (hex : ∀ x ∈ extra, isObsolete x.1 = true) :
    ∀ row ∈ p.rows, ∀ a ∈ row.proteins, ∀ b ∈ row.proteins, kind a = kind b := by
  intro row hrow
  obtain ⟨idx, _, hlen, hal⟩ := C06.report_alignment_aux _ _ _ _ _ _ _ h.rows
  obtain ⟨k, hk, rfl⟩ := List.mem_iff_getElem.mp hrow
  have hki : k < idx.length := by omega
  obtain ⟨row', g, info, s, q, hr', hg, _, _, _, _, _, hobs, hf⟩ := hal k idx[k] (List.getElem?_eq_getElem hki)
  rw [List.getElem?_eq_getElem hk] at hr'
  cases hr'
  have hprot := (C06.fromProteinGroup_some g info q s _ _ _ hf).1
  have hgm : g ∈ p.ranking.map (·.group) := List.mem_of_getElem? hg
  obtain ⟨a, ha, rfl⟩ := List.mem_map.mp hgm
  rw [h.ranking] at ha
  have hitem := (C02.survivors_unchanged _ _ _ _ h.shuffles a ha).1
  have hcg := mem_zipItems_group _ _ _ a hitem
  rw [h.compGroups] at hcg
  rcases List.mem_append.mp hcg with hin | hin
  · intro x hx y hy
    rw [hprot] at hx hy
    exact hgs _ hin x (List.mem_filter.mp hx).1 y (List.mem_filter.mp hy).1
  · obtain ⟨e, he, hee⟩ := List.mem_map.mp hin
    have := hex e he
    rw [hee, hobs] at this; cases this

/-- first-pass groups of every grouping strategy list proteins of one kind -/
theorem firstGrouping_kind (cfg : Pipeline.Config) (pil : List PepInfo) (hk : (pil.map (·.peptide)).Nodup)
    (hh : ∀ e ∈ pil, ∀ a ∈ e.proteins, ∀ b ∈ e.proteins, kind a = kind b) :
    ∀ g ∈ Pipeline.firstGrouping cfg pil, ∀ a ∈ g, ∀ b ∈ g, kind a = kind b := by
  intro g hg a ha b hb
  apply kind_of_chain hh
  unfold Pipeline.firstGrouping at hg
  cases hgr : cfg.grouping with
  | no => rw [hgr] at hg; exact noGrouping_conn pil g hg a ha b hb
  | subset => rw [hgr] at hg; exact subsetGrouping_conn pil hk g hg a ha b hb
  | rescuedSubset => rw [hgr] at hg; exact subsetGrouping_conn pil hk g hg a ha b hb
  | pseudoGene => rw [hgr] at hg; exact pseudoGeneGrouping_conn pil hk g hg a ha b hb

/-- the reported rows of a whole call list proteins of one kind, for every grouping strategy -/
theorem run_rows_kind (cfg : Pipeline.Config) (inp : Pipeline.Input) (r : Pipeline.Result)
    (hk : (inp.pil.map (·.peptide)).Nodup)
    (hids : ∀ e ∈ inp.pil, ∀ p ∈ e.proteins, MarkerOnlyAsPrefix p)
    (hh : ∀ e ∈ inp.pil, ∀ a ∈ e.proteins, ∀ b ∈ e.proteins, kind a = kind b)
    (hrun : Pipeline.run cfg inp = .ok r) :
    ∀ row ∈ r.rows, ∀ a ∈ row.proteins, ∀ b ∈ row.proteins, kind a = kind b := by
  have h1 := firstGrouping_kind cfg inp.pil hk hh
  by_cases hg : cfg.grouping = .rescuedSubset
  · obtain ⟨hp1, p2, out, cutoff, _, _, _, hresc, hP2, hrows⟩ := C04.runFacts_rescue cfg inp r hg hrun
    rw [hrows]
    refine pass_rows_kind cfg inp p2 true _ _ _ _ _ hP2 ?_ ?_
    · refine rescue_groups_kind inp.pil hk hids hh _ cutoff inp.cuts out ?_ hresc
      intro g0 hg0
      obtain ⟨x, hx, rfl⟩ := List.mem_map.mp hg0
      have : x.1 ∈ r.pass1.groups := (List.of_mem_zip (a := x.1) (b := x.2) hx).1
      rw [hp1.groups] at this
      exact h1 _ this
    · intro x hx
      split at hx
      · have hx1 : x.1 ∈ out.obsolete := (List.of_mem_zip (a := x.1) (b := x.2) hx).1
        obtain ⟨lvs, _, _, _, _, ho, _⟩ := C04.run_spec _ _ _ _ _ _ hresc
        rw [ho] at hx1
        obtain ⟨g0, _, hg0⟩ := List.mem_map.mp hx1
        rw [← hg0]
        exact C04.isObsolete_placeholder _
      · cases hx
  · obtain ⟨hp1, _, hrows⟩ := C04.runFacts_plain cfg inp r hg hrun
    rw [hrows]
    exact pass_rows_kind cfg inp r.pass1 false _ [] _ _ _ hp1 h1 (fun x hx => by cases hx)


/-- every peptide of an ingested list keeps proteins of one kind (the step inside `purity`) -/
theorem ingest_homogeneous (T : Transforms) (mode : Mode) (pairs : List (DMap × List RawRow))
    (hids : ∀ e ∈ ingestPairs T mode pairs, ∀ p ∈ e.proteins, MarkerOnlyAsPrefix p) :
    ∀ e ∈ ingestPairs T mode pairs, ∀ a ∈ e.proteins, ∀ b ∈ e.proteins, kind a = kind b := by
  intro e he
  obtain ⟨x, hx, _, _, hprots⟩ := mem_parse he
  obtain ⟨p, _, r, _, hrow⟩ := mem_allPsms hx
  have h3 := (rowPsm_some hrow).2.2.1
  rw [hprots] at h3
  have hid := hids e he
  rw [h3] at hid ⊢
  exact removeDecoy_homogeneous _ hid

end PgFdr.C10
