def hello := "world"
