/-
JSON helpers for the model driver's line protocol.  Import-free of Mathlib so that the
driver links as a native executable.  Rationals travel as `[num, den]` pairs of decimal
strings (exact images of the implementation's doubles, `float.as_integer_ratio`).
-/
import Lean.Data.Json
import PgFdr.Model.Basic

namespace PgFdr
open Lean

abbrev R := Except String

def jget (j : Json) (k : String) : R Json :=
  match j.getObjVal? k with
  | .ok v => .ok v
  | .error _ => .error s!"missing key {k}"

def jgetOpt (j : Json) (k : String) : Option Json :=
  match j.getObjVal? k with
  | .ok .null => none
  | .ok v => some v
  | .error _ => none

def jstr (j : Json) : R String :=
  match j with
  | .str s => .ok s
  | _ => .error s!"expected string, got {j.compress}"

def jbool (j : Json) : R Bool :=
  match j with
  | .bool b => .ok b
  | _ => .error s!"expected bool, got {j.compress}"

def jarr (j : Json) : R (List Json) :=
  match j with
  | .arr a => .ok a.toList
  | _ => .error s!"expected array, got {j.compress}"

def jint (j : Json) : R Int :=
  match j with
  | .num n => if n.exponent == 0 then .ok n.mantissa else .error s!"expected integer, got {j.compress}"
  | .str s => match s.toInt? with
    | some i => .ok i
    | none => .error s!"expected integer string, got {s}"
  | _ => .error s!"expected integer, got {j.compress}"

def jnat (j : Json) : R Nat := do
  let i ← jint j
  if i < 0 then .error s!"expected natural, got {i}" else .ok i.toNat

/-- `[num, den]` (decimal strings or integers) → `Rat` -/
def jrat (j : Json) : R Rat := do
  match j with
  | .arr #[a, b] =>
    let n ← jint a
    let d ← jint b
    if d == 0 then .error "zero denominator" else .ok (mkRat n d.toNat)
  | _ =>
    let n ← jint j
    .ok (n : Rat)

def jlist {α} (f : Json → R α) (j : Json) : R (List α) := do
  (← jarr j).mapM f

def jstrs (j : Json) : R (List String) := jlist jstr j

def ofRat (q : Rat) : Json := .arr #[.str (toString q.num), .str (toString q.den)]
def ofNat (n : Nat) : Json := .num (JsonNumber.fromNat n)
def ofInt (n : Int) : Json := .num (JsonNumber.fromInt n)
def ofStrs (l : List String) : Json := .arr (l.map Json.str).toArray
def ofList {α} (f : α → Json) (l : List α) : Json := .arr (l.map f).toArray
def ofErr (e : String) : Json := Json.mkObj [("err", .str e)]
def obj (kvs : List (String × Json)) : Json := Json.mkObj kvs

/-- `[peptide, [num,den], [proteins…]]` -/
def jpepinfo (j : Json) : R PepInfo := do
  match j with
  | .arr #[p, s, ps] => pure { peptide := ← jstr p, pep := ← jrat s, proteins := ← jstrs ps }
  | _ => .error s!"expected [peptide, pep, proteins], got {j.compress}"

/-- `[[num,den], peptide, [proteins…]]` (the implementation's tuple order) -/
def jevidence (j : Json) : R Evidence := do
  match j with
  | .arr #[s, p, ps] => pure { pep := ← jrat s, peptide := ← jstr p, proteins := ← jstrs ps }
  | _ => .error s!"expected [pep, peptide, proteins], got {j.compress}"

def ofPepInfo (x : PepInfo) : Json := .arr #[.str x.peptide, ofRat x.pep, ofStrs x.proteins]
def ofEvidence (x : Evidence) : Json := .arr #[ofRat x.pep, .str x.peptide, ofStrs x.proteins]
def ofGroups (gs : List (List String)) : Json := ofList ofStrs gs
def jgroups (j : Json) : R (List (List String)) := jlist jstrs j

end PgFdr
