import PgFdr.Json
/-!
Line loop of the model driver: one JSON object per input line (`{"op": …, …}`), one JSON line
back.  Errors of the *protocol* come back as `{"proto_err": …}`; errors of the *model* (the model
rejecting what the code rejects) are ordinary results `{"err": "<enum>"}`.
-/
namespace PgFdr
open Lean

def handleLine (hs : List (String × (Json → R Json))) (line : String) : String :=
  match Json.parse line with
  | .error e => (Json.mkObj [("proto_err", .str s!"parse: {e}")]).compress
  | .ok j =>
    match j.getObjVal? "op" with
    | .ok (.str op) =>
      if op == "ops" then (ofStrs (hs.map (·.1))).compress else
      match hs.lookup op with
      | some h => match h j with
        | .ok r => r.compress
        | .error e => (Json.mkObj [("proto_err", .str e)]).compress
      | none => (Json.mkObj [("proto_err", .str s!"unknown op {op}")]).compress
    | _ => (Json.mkObj [("proto_err", .str "no op")]).compress

partial def driverLoop (hs : List (String × (Json → R Json))) (hin hout : IO.FS.Stream) : IO Unit := do
  let line ← hin.getLine
  if line.isEmpty then return ()
  let t := line.trimAscii.toString
  if t.isEmpty then driverLoop hs hin hout else
  hout.putStrLn (handleLine hs t)
  hout.flush
  driverLoop hs hin hout

def runHandlers (hs : List (String × (Json → R Json))) : IO Unit := do
  driverLoop hs (← IO.getStdin) (← IO.getStdout)

end PgFdr
