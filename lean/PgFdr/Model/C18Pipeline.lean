/-
The bridge from a parsed method configuration (`PgFdr.C18.Cfg`, Model/C18.lean: what
`methods.parse_method_toml` builds from a TOML file) to the configuration of the composed pipeline model
(`PgFdr.Pipeline.Config`, Model/Pipeline.lean: what `get_protein_group_results` is run with):

  grouping        no | subset | rescued_subset | pseudo_gene      → the same constructor
                  mq_native | rescued_mq_native                   → none (the grouping is read from a MaxQuant
                                                                    proteinGroups file; not composed in the model;
                                                                    no shipped method uses it)
  sharedPeptides  razor (`" razor"` in the score description)     → `razor := true`
  pickedStrategy  picked | classic                                → `.picked` | `.classic`
                  picked_group                                    → `.pickedGroup .leading`
                                                                    (`PickedGroupStrategy.__init__` default
                                                                    `picking_strategy = "leading"`; the factory
                                                                    passes no argument)

The score type and the score origin do not change the shape of the pipeline: the protein scores are a
recorded parameter of `Pipeline.run` (`scores1`, `scores2`).  Executable, Mathlib-free.
-/
import PgFdr.Model.C18
import PgFdr.Model.Pipeline

namespace PgFdr.C18

/-- `ProteinCompetitionStrategyFactory` result as the pipeline model's competition mode -/
def Picked.toMode : Picked → C02.Mode
  | .picked => .picked
  | .pickedGroup => .pickedGroup .leading
  | .classic => .classic

/-- `ProteinGroupingStrategyFactory` result as the pipeline model's grouping, where it is modelled -/
def Grouping.toPipeline : Grouping → Option Pipeline.Grouping
  | .no => some .no
  | .subset => some .subset
  | .rescuedSubset => some .rescuedSubset
  | .pseudoGene => some .pseudoGene
  | .mqNative => none
  | .rescuedMqNative => none

/-- the pipeline configuration a parsed method runs `get_protein_group_results` with -/
def toPipelineConfig (c : Cfg) : Option Pipeline.Config :=
  match c.grouping.toPipeline with
  | some g => some { grouping := g, razor := c.razor, mode := c.picked.toMode }
  | none => none

/-- a TOML file parses (`useGenes`: gene-level run falling back to pseudo-genes) and its configuration is
    one the composed pipeline model covers -/
def pipelineConfigOf (useGenes : Bool) (t : Generated.MethodToml) : Option Pipeline.Config :=
  match parseMethod useGenes t with
  | .ok c => toPipelineConfig c
  | .error _ => none

end PgFdr.C18
