/-
Model of the quantification sequence of picked_group_fdr (property C12):

  quant/maxquant.py        add_precursor_quants      (group lookup on the REPORTED ids, missing /
                                                      shared skip, one PrecursorQuant per row,
                                                      experiment list, PEP list)
  results.py               remove_protein_groups_without_precursors
  writers/base.py          append_quant_columns      (PEP cutoff = C17.cutoff,
                                                      _retain_only_identified_precursors)
  columns/peptide_count.py _unique_peptide_counts_per_experiment
  columns/id_type.py       _identification_type_per_experiment
  columns/sum_and_ibaq.py  _get_intensities (+ SILAC offsets), total, iBAQ division
  columns/tmt.py           _get_tmt_intensities
  columns/evidence_ids.py  _collect_evidence_ids

Executable, total, Mathlib-free.  Intensities and PEPs are the exact rationals of the
implementation's doubles; NaN intensities are `none`; PEPs are `C17.PepVal` (NaN = a
match-between-runs row).  Python dicts are modelled by their denotation "the last index wins"
(`lastIdx`), Python sets by duplicate-free lists, the accumulating loops by `foldl`s whose step
functions perform the same `+=` / `.add` / assignment on the same slot as the code.

`do_quantification` hard-codes `discard_shared_peptides = True`; only that setting is modelled.
The experimental-design override (`--experimental_design_file` / `--file_list_file`) is the last
section: `quantifyDesign` (experiment list in design order, experiment and fraction of every parsed
row replaced through the raw-file mapping).
-/
import PgFdr.Model.Basic
import PgFdr.Model.C17

namespace PgFdr.C12
open PgFdr.C17 (PepVal)

/-- One row of evidence.txt as yielded by `parsers/maxquant.py:parse_mq_evidence_file`
    (`for_quantification=True`), before the protein list is post-processed. -/
structure Row where
  /-- `id` column -/
  id : Int
  /-- `Modified sequence` without the flanking underscores -/
  peptide : String
  charge : Int
  experiment : String
  /-- carried along unchanged (the string of the `Fraction` column, or "-1") -/
  fraction : String
  /-- `Leading proteins` split on `;` -/
  leading : List String
  /-- `Intensity`; `none` = NaN (an empty field is 0.0) -/
  intensity : Option Rat
  /-- `PEP`; NaN (empty field) marks a match-between-runs row -/
  pep : PepVal
  /-- `Intensity L [M] H` in that order (empty list: label free) -/
  silac : List Rat
  /-- all `Reporter intensity …` columns in file order (3 per channel) -/
  tmt : List Rat

/-! ### dict lookups -/

/-- denotation of `{key(x): i for i, x in enumerate(l)}` looked up at a key: the LAST position
    whose element satisfies `p` (later assignments overwrite earlier ones) -/
def lastIdx {α : Type} (p : α → Bool) : List α → Option Nat
  | [] => none
  | a :: t =>
    match lastIdx p t with
    | some i => some (i + 1)
    | none => if p a then some 0 else none

/-- `ProteinGroups.create_index` + lookup: position of the (last) reported group listing `prot`;
    `none` is the implementation's `-1` -/
def idxOf (groups : List (List String)) (prot : String) : Option Nat :=
  lastIdx (fun g => g.contains prot) groups

/-- `ProteinGroupResults.get_experiment_to_idx_map()[e]` -/
def expIdx (exps : List String) (e : String) : Option Nat :=
  lastIdx (fun x => x == e) exps

/-! ### `add_precursor_quants` -/

/-- the protein list the parser yields (`get_proteins` of parsers/psm.py without remapping and
    without razor filtering): decoy proteins are dropped from target peptides -/
def prots (r : Row) : List String := removeDecoyProteinsFromTargetPeptides r.leading

/-- `if not proteins: continue` in the evidence parser -/
def parsed (rows : List Row) : List Row := rows.filter (fun r => !(prots r).isEmpty)

/-- `set.add` on a duplicate-free list -/
def setAdd {α : Type} [BEq α] (s : List α) (x : α) : List α := if s.contains x then s else s ++ [x]

/-- `ProteinGroups.get_protein_group_idxs`: the set of group positions of the proteins, `none` = -1 -/
def idxSet (groups : List (List String)) (ps : List String) : List (Option Nat) :=
  ps.foldl (fun s p => setAdd s (idxOf groups p)) []

/-- `helpers.is_missing_in_protein_groups` -/
def isMissing (s : List (Option Nat)) : Bool := s.isEmpty || s == [none]
/-- `helpers.is_shared_peptide` -/
def isShared (s : List (Option Nat)) : Bool := decide (s.length > 1)

/-- the group positions a row's PrecursorQuant is appended to (`discard_shared_peptides = True`):
    nothing for a missing or shared row, otherwise every member of the (singleton) index set -/
def attachTo (groups : List (List String)) (r : Row) : List Nat :=
  let s := idxSet groups (prots r)
  if isMissing s then [] else if isShared s then [] else s.filterMap id

/-- `protein_group_results[g].precursorQuants` after `add_precursor_quants`, in row order -/
def attached (rows : List Row) (groups : List (List String)) (g : Nat) : List Row :=
  (parsed rows).filter (fun r => (attachTo groups r).contains g)

/-- insertion into a strictly increasing list (Python `sorted(set(…))` on strings: code point order) -/
def insertSorted (x : String) : List String → List String
  | [] => [x]
  | y :: t => if x < y then x :: y :: t else if x = y then y :: t else y :: insertSorted x t

def sortedSet (l : List String) : List String := l.foldr insertSorted []

/-- `protein_group_results.experiments`: every experiment of a parsed row (also of rows that are
    skipped afterwards as missing / shared), sorted, without duplicates -/
def experiments (rows : List Row) : List String := sortedSet ((parsed rows).map (·.experiment))

/-- `num_silac_channels`: number of SILAC columns, taken from the first parsed row (-1: none parsed) -/
def nSilac (rows : List Row) : Int :=
  match parsed rows with
  | [] => -1
  | r :: _ => r.silac.length

/-- `num_tmt_channels = int(len(tmt_cols) / 3)` of the first parsed row (-1: none parsed) -/
def nTmt (rows : List Row) : Int :=
  match parsed rows with
  | [] => -1
  | r :: _ => (r.tmt.length / 3 : Nat)

/-- the PEPs returned as `post_err_probs`: attached rows whose protein list is not a decoy list -/
def pepList (rows : List Row) (groups : List (List String)) : List PepVal :=
  ((parsed rows).filter (fun r => !(attachTo groups r).isEmpty && !isDecoy (prots r))).map (·.pep)

/-! ### `append_quant_columns` -/

/-- `helpers.is_mbr` -/
def isMbr : PepVal → Bool
  | .nan => true
  | _ => false

/-- `post_err_prob <= cutoff` on doubles (false for NaN and +inf) -/
def leCut (p : PepVal) (c : Rat) : Bool :=
  match p with
  | .fin q => decide (q ≤ c)
  | _ => false

/-- `fdr.calc_post_err_prob_cutoff([x[0] for x in post_err_probs if not is_mbr(x[0])], level)` -/
def cutoffOf (rows : List Row) (groups : List (List String)) (level : Rat) : Rat :=
  C17.cutoff ((pepList rows groups).filter (fun p => !isMbr p)) level

/-- `_retain_only_identified_precursors`: first the set of (peptide, charge) pairs with a PSM
    within the cutoff, then the rows whose pair is in that set -/
def retain (c : Rat) (quants : List Row) : List Row :=
  let identified := quants.filterMap (fun q => if leCut q.pep c then some (q.peptide, q.charge) else none)
  quants.filter (fun q => identified.contains (q.peptide, q.charge))

/-- the guard of every column loop: `is_mbr(pep) or pep <= cutoff` -/
def used (c : Rat) (q : Row) : Bool := isMbr q.pep || leCut q.pep c

/-! ### summed intensity and iBAQ -/

/-- `l[i] += x` on a Python list.  Out of range Python raises `IndexError`; this function then leaves the list
    alone, and `quantify` / `quantifyDesign` reject every run in which that happens (`silacRaises`, error
    `silac_index_out_of_range`).  The situation IS reachable from files: the slot width `1+S` is fixed by the FIRST
    parsed row (`num_silac_channels`, quant/maxquant.py:68), so a label-free evidence file followed by a file with
    `Intensity L/H` columns gives rows with more SILAC values than slots per experiment. -/
def addAt (l : List Rat) (i : Nat) (x : Rat) : List Rat := l.modify i (· + x)

/-- `for k, v in enumerate(vals): l[i + k] += v` -/
def addFrom (l : List Rat) (i : Nat) : List Rat → List Rat
  | [] => l
  | v :: vs => addFrom (addAt l i v) (i + 1) vs

/-- one iteration of the loop of `_get_intensities` (`S` = number of SILAC channels of the FIRST parsed row).
    The SILAC values of the precursor itself (`q.silac`, as many as ITS file has columns) are added from slot
    `e*(1+S)+1` on, whatever `S` is: a precursor with more SILAC values than `S` writes into the slots of the
    following experiments (first their `Intensity` slot), one with fewer leaves the last channels alone. -/
def intensStep (exps : List String) (S : Nat) (c : Rat) (acc : List Rat) (q : Row) : List Rat :=
  match q.intensity with
  | none => acc
  | some x =>
    if used c q then
      match expIdx exps q.experiment with
      | some e => addFrom (addAt acc (e * (1 + S)) x) (e * (1 + S) + 1) q.silac
      | none => acc
    else acc

/-- `_get_intensities`: flat list, slot `e*(1+S)` = experiment `e`, slots `e*(1+S)+1+k` = its SILAC channel `k` -/
def intensities (exps : List String) (S : Nat) (c : Rat) (quants : List Row) : List Rat :=
  quants.foldl (intensStep exps S c) (List.replicate (exps.length * (1 + S)) 0)

/-- `l[::n+1]` -/
def strideAux {α : Type} (n : Nat) : Nat → List α → List α
  | _, [] => []
  | 0, a :: t => a :: strideAux n n t
  | k + 1, _ :: t => strideAux n k t

def stride {α : Type} (n : Nat) (l : List α) : List α := strideAux n 0 l

/-- `totalIntensity = sum(intensities[::num_silac_channels + 1])` -/
def totalOf (S : Nat) (intens : List Rat) : Rat := (stride S intens).sum

/-- `num_ibaq_peptides_per_protein[p]` (a `defaultdict(int)`) -/
def nPepsOf (ibaq : List (String × Nat)) (p : String) : Nat := (ibaq.lookup p).getD 0

/-- `max([1, numTheoreticalPeptides[0]])` for the first (leading) protein of the group -/
def leadingN (ibaq : List (String × Nat)) (ids : List String) : Nat :=
  max 1 ((ids.map (nPepsOf ibaq)).headD 0)

/-! ### unique peptide counts -/

def countsStep (exps : List String) (c : Rat) (acc : List (List String)) (q : Row) : List (List String) :=
  if used c q then
    let acc0 := acc.modify 0 (fun s => setAdd s q.peptide)
    match expIdx exps q.experiment with
    | some e => acc0.modify (e + 1) (fun s => setAdd s q.peptide)
    | none => acc0
  else acc

/-- the sets of `_unique_peptide_counts_per_experiment(include_combined_count=True)` -/
def peptideSets (exps : List String) (c : Rat) (quants : List Row) : List (List String) :=
  quants.foldl (countsStep exps c) (List.replicate (exps.length + 1) [])

def peptideCounts (exps : List String) (c : Rat) (quants : List Row) : List Nat :=
  (peptideSets exps c quants).map List.length

/-! ### identification type -/

def byMsms : String := "By MS/MS"
def byMatching : String := "By matching"

def idStep (exps : List String) (c : Rat) (acc : List String) (q : Row) : List String :=
  match expIdx exps q.experiment with
  | some e =>
    if isMbr q.pep && acc.getD e "" != byMsms then acc.set e byMatching
    else if leCut q.pep c then acc.set e byMsms
    else acc
  | none => acc

/-- `_identification_type_per_experiment` -/
def idTypes (exps : List String) (c : Rat) (quants : List Row) : List String :=
  quants.foldl (idStep exps c) (List.replicate exps.length "")

/-! ### evidence ids -/

def insertInt (x : Int) : List Int → List Int
  | [] => [x]
  | y :: t => if x ≤ y then x :: y :: t else y :: insertInt x t

def sortInts (l : List Int) : List Int := l.foldr insertInt []

/-- `_collect_evidence_ids`: ids of the used precursors, sorted -/
def evidenceIds (c : Rat) (quants : List Row) : List Int :=
  sortInts ((quants.filter (used c)).map (·.id))

/-! ### TMT reporter sums -/

/-- `a += b` on a 1-D numpy vector `a`: equal shapes add element-wise; a right operand of length 1 is BROADCAST
    (added to every position).  Every other pair of shapes raises (`ValueError: operands could not be broadcast`;
    `TypeError` for the `None` a row without reporter columns carries); this function truncates there, and
    `quantify` / `quantifyDesign` reject every run in which that happens (`tmtRaises`, error `tmt_shape_mismatch`). -/
def vecAdd (a b : List Rat) : List Rat :=
  match b with
  | [x] => a.map (· + x)
  | _ => List.zipWith (· + ·) a b

def tmtStep (exps : List String) (c : Rat) (acc : List (List Rat)) (q : Row) : List (List Rat) :=
  if used c q then
    match expIdx exps q.experiment with
    | some e => acc.modify e (fun v => vecAdd v q.tmt)
    | none => acc
  else acc

/-- `_get_tmt_intensities`: per experiment a vector of `3*T` sums, concatenated -/
def tmtSums (exps : List String) (T : Nat) (c : Rat) (quants : List Row) : List Rat :=
  (quants.foldl (tmtStep exps c) (List.replicate exps.length (List.replicate (3 * T) 0))).flatten

/-! ### the whole sequence -/

/-- `columns/sum_and_ibaq.py:get_silac_channels` (length of the channel list); 1 or more than 3
    SILAC columns raise `ValueError` -/
def silacChannels (n : Int) : Except String Nat :=
  if n == 3 then .ok 3 else if n == 2 then .ok 2 else if n > 0 then .error "bad_silac_channels" else .ok 0

/-- one reported group after `append_quant_columns`: its precursors and the values appended to
    `extraColumns` by the column generators, before formatting -/
structure GroupOut where
  ids : List String
  quants : List Row
  counts : List Nat
  idType : List String
  total : Rat
  intens : List Rat
  nPeps : List Nat
  ibaqTotal : Rat
  ibaq : List Rat
  tmt : List Rat
  evidenceIds : List Int

/-- the columns of one group from its (already filtered) precursor list -/
def groupOut (exps : List String) (S : Nat) (T : Int) (c : Rat) (ibaq : List (String × Nat))
    (ids : List String) (quants : List Row) : GroupOut :=
  let intens := intensities exps S c quants
  let total := totalOf S intens
  let lead : Rat := (leadingN ibaq ids : Nat)
  { ids := ids
    quants := quants
    counts := peptideCounts exps c quants
    idType := idTypes exps c quants
    total := total
    intens := intens
    nPeps := ids.map (nPepsOf ibaq)
    ibaqTotal := total / lead
    ibaq := intens.map (· / lead)
    tmt := if T > 0 then tmtSums exps T.toNat c quants else []
    evidenceIds := evidenceIds c quants }

structure Output where
  experiments : List String
  nSilac : Int
  nTmt : Int
  /-- `post_err_probs` (first components) -/
  peps : List PepVal
  cutoff : Rat
  /-- `precursorQuants` of every reported group right after `add_precursor_quants` -/
  attached : List (List Row)
  /-- the groups left after `remove_protein_groups_without_precursors`, with their columns -/
  groups : List GroupOut

/-- positions of the groups kept by `remove_protein_groups_without_precursors` -/
def keptIdx (rows : List Row) (groups : List (List String)) : List Nat :=
  (List.range groups.length).filter (fun g => !(attached rows groups g).isEmpty)

/-- `add_precursor_quants` followed by `append_quant_columns` (MaxQuant writer, LFQ / annotation /
    coverage columns left out), for `S` SILAC channels -/
def quantifyWith (S : Nat) (rows : List Row) (groups : List (List String)) (level : Rat)
    (ibaq : List (String × Nat)) : Output :=
  let exps := experiments rows
  let T := nTmt rows
  let c := cutoffOf rows groups level
  { experiments := exps
    nSilac := nSilac rows
    nTmt := T
    peps := pepList rows groups
    cutoff := c
    attached := (List.range groups.length).map (attached rows groups)
    groups := (keptIdx rows groups).map (fun g =>
      groupOut exps S T c ibaq (groups.getD g []) (retain c (attached rows groups g))) }

/-! ### evidence files with different SILAC / reporter columns

`num_silac_channels` and `num_tmt_channels` are fixed by the first row the parser yields (quant/maxquant.py:62-69);
every later row carries as many SILAC / reporter values as ITS OWN file has columns.  Nothing in the code compares
the two.  The column loops then either raise or silently write into the slots at hand:

* `_get_intensities` (columns/sum_and_ibaq.py:132-142) indexes the Python list `intensities`, of length `E*(1+S)`,
  at `e*(1+S)+1+k` for `k < len(silac_intensities)`: `IndexError` exactly when the last of these positions is beyond
  the list, i.e. `E*(1+S) ≤ e*(1+S) + len` (`silacRaises`); otherwise the values land in the slots of the following
  experiments (`intensStep` does the same).  Rows with FEWER values than `S` never raise.
* `_get_tmt_intensities` (columns/tmt.py:71-73) adds the row's reporter vector to `np.zeros(3*T)`: equal length or
  length 1 (broadcast) succeed (`vecAdd`), `None` (no reporter column) and every other length raise (`tmtRaises`).
  With `T ≤ 0` the generator is not valid and nothing is looked at.

The `SummedIntensityAndIbaqColumns` generator runs before the `TMTIntensityColumns` generator
(writers/maxquant.py:get_columns), and its header step (`get_silac_channels`, `bad_silac_channels`) before its
column step, hence the order of the three refusals below.  An exception in any group aborts the whole run. -/

/-- `_get_intensities` raises `IndexError` for this precursor: it is added (non-NaN intensity, MBR or within the
    cutoff), carries SILAC values, and the last slot `e*(1+S) + len(silac)` they are written to lies beyond the
    `E*(1+S)` slots of the list -/
def silacRaises (exps : List String) (S : Nat) (c : Rat) (q : Row) : Bool :=
  q.intensity.isSome && used c q && !q.silac.isEmpty &&
    match expIdx exps q.experiment with
    | some e => decide (exps.length * (1 + S) ≤ e * (1 + S) + q.silac.length)
    | none => false

/-- `_get_tmt_intensities` raises for this precursor (`T > 0` reporter channels): it is added and its reporter
    vector has neither the `3*T` values of the accumulator nor exactly one (numpy broadcasts that) -/
def tmtRaises (exps : List String) (T : Nat) (c : Rat) (q : Row) : Bool :=
  used c q && (expIdx exps q.experiment).isSome && q.tmt.length != 3 * T && q.tmt.length != 1

/-- the exception (if any) `append_quant_columns` ends with after `get_silac_channels` accepted `S`: the summed
    intensity generator first, then the reporter generator (only valid with `nTmt > 0`); the precursor lists are
    the identified precursors of the written groups (`GroupOut.quants`) -/
def layoutError (S : Nat) (o : Output) : Option String :=
  if o.groups.any (fun g => g.quants.any (silacRaises o.experiments S o.cutoff)) then
    some "silac_index_out_of_range"
  else if decide (o.nTmt > 0) &&
      o.groups.any (fun g => g.quants.any (tmtRaises o.experiments o.nTmt.toNat o.cutoff)) then
    some "tmt_shape_mismatch"
  else none

/-- the run's result, or the layout refusal -/
def checked (S : Nat) (o : Output) : Except String Output :=
  match layoutError S o with
  | some e => .error e
  | none => .ok o

/-- the whole sequence; rejects what `get_silac_channels` rejects (`bad_silac_channels`), then what the column
    loops reject on evidence files with different SILAC / reporter columns (`silac_index_out_of_range`,
    `tmt_shape_mismatch`) -/
def quantify (rows : List Row) (groups : List (List String)) (level : Rat)
    (ibaq : List (String × Nat)) : Except String Output :=
  match silacChannels (nSilac rows) with
  | .error e => .error e
  | .ok S => checked S (quantifyWith S rows groups level ibaq)

/-! ### experimental design / file list (`--experimental_design_file`, `--file_list_file`)

`quantification.get_experimental_design` hands `add_precursor_quants` a data frame; the model starts from
its normalised lines (`parsers.normalize_experimental_design`: `Name` = file stem, empty `Experiment` =
the name, empty `Fraction` = -1; the pandas parsing itself is restated by the harness).  With a design

* `protein_group_results.experiments = experimental_design["Experiment"].unique().tolist()` — the
  experiments in the order of their first line, NOT sorted, also those without any evidence row;
* every row the parser yields gets `experiment, fraction = file_mapping[raw_file]` (`KeyError` for a raw
  file without a line; rows without proteins are never yielded, so their raw file is not looked up);
* a design without lines gives an empty (falsy) mapping: the run is the run without a design;
* `get_file_mapping` refuses two lines with the same name (`DataFrame.to_dict(orient="index")`). -/

/-- one line of the normalised design: raw file (stem), experiment, fraction (as `str()` prints the value
    pandas holds) -/
structure DesignLine where
  name : String
  experiment : String
  fraction : String

/-- `experimental_design["Experiment"].unique().tolist()`: first occurrences in design order -/
def designExperiments (d : List DesignLine) : List String :=
  d.foldl (fun s l => setAdd s l.experiment) []

/-- `file_mapping[raw_file]` (the names are pairwise different when this is consulted) -/
def fileMapping (d : List DesignLine) (raw : String) : Option DesignLine :=
  d.find? (fun l => l.name == raw)

def allDistinct : List String → Bool
  | [] => true
  | x :: t => !t.contains x && allDistinct t

/-- the override of one evidence row (`raw file`, row): rows the parser does not yield are left alone -/
def overrideRow (d : List DesignLine) (x : String × Row) : Except String Row :=
  if (prots x.2).isEmpty then .ok x.2
  else
    match fileMapping d x.1 with
    | none => .error "raw_file_not_in_design"
    | some l => .ok { x.2 with experiment := l.experiment, fraction := l.fraction }

/-- all rows in file order; the first row whose raw file has no line raises -/
def overrideRows (d : List DesignLine) : List (String × Row) → Except String (List Row)
  | [] => .ok []
  | x :: t =>
    match overrideRow d x with
    | .error e => .error e
    | .ok r =>
      match overrideRows d t with
      | .error e => .error e
      | .ok rs => .ok (r :: rs)

/-- `quantifyWith` with the experiment list as a parameter (`quantifyWith S rows … =
    quantifyWithExps (experiments rows) S rows …`, by `rfl`) -/
def quantifyWithExps (exps : List String) (S : Nat) (rows : List Row) (groups : List (List String))
    (level : Rat) (ibaq : List (String × Nat)) : Output :=
  let T := nTmt rows
  let c := cutoffOf rows groups level
  { experiments := exps
    nSilac := nSilac rows
    nTmt := T
    peps := pepList rows groups
    cutoff := c
    attached := (List.range groups.length).map (attached rows groups)
    groups := (keptIdx rows groups).map (fun g =>
      groupOut exps S T c ibaq (groups.getD g []) (retain c (attached rows groups g))) }

/-- the whole sequence with an experimental design / file list: `rows` = (raw file, evidence row) -/
def quantifyDesign (design : List DesignLine) (rows : List (String × Row)) (groups : List (List String))
    (level : Rat) (ibaq : List (String × Nat)) : Except String Output :=
  if design.isEmpty then quantify (rows.map (·.2)) groups level ibaq
  else if !allDistinct (design.map (·.name)) then .error "design_duplicate_name"
  else
    match overrideRows design rows with
    | .error e => .error e
    | .ok rows' =>
      match silacChannels (nSilac rows') with
      | .error e => .error e
      | .ok S => checked S (quantifyWithExps (designExperiments design) S rows' groups level ibaq)

end PgFdr.C12
