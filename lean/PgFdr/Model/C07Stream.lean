import PgFdr.Model.Cli

/-!
The random stream of one command-line run (`python -m picked_group_fdr`).

`run_picked_group_fdr` seeds numpy ONCE (`np.random.seed(1)`, picked_group_fdr.py:236-237) and then runs the methods
of `--methods` one after the other (`for method_config in method_configs: run_method(…)`); every
`np.random.shuffle` of every method draws from that one generator.  The glue model `PgFdr.Cli` (Model/Cli.lean) takes
the permutations as recorded parameters PER METHOD (`MethodRec.shuffles`).  Here the recorded parameter is the
PROCESS's stream — the permutations in the order in which the process drew them — and the per-method records are
cut out of it in COMMAND-LINE order:

  method k of `--methods` (position k of the comma-separated list, a name mentioned twice counts twice) draws
    0 permutations when it is skipped with the missing-input warning,
    2 permutations when it runs one competition (`do_competition` shuffles before each of its two sorts),
    4 permutations when its grouping has a rescue step (two competitions),
  starting where method k−1 stopped.

Nothing else enters: `withStream inp stream` is a function of the command line `inp` (lists in the order given) and
of the stream.  Executable, total, Mathlib-free.
-/
namespace PgFdr.C07
open PgFdr.Cli

/-- the permutations, in the order in which the process drew them -/
abbrev Stream := List (List Nat)

/-- how many permutations a parsed method draws in a run that goes on after it: none when it is skipped (or refused —
    the run then ends), two per competition -/
def need (inp : CliInput) (cfg : C18.Cfg) : Nat :=
  match C18.runMethod (supplied inp) cfg with
  | .error _ => 0
  | .ok () =>
    match C18.toPipelineConfig cfg with
    | none => 0
    | some pc => if pc.grouping = .rescuedSubset then 4 else 2

/-- the numbers of permutations the methods of the command line draw, in command-line order (`[]` when the run does
    not get as far as the method loop) -/
def needs (inp : CliInput) : List Nat :=
  match setup inp with
  | .ok (_, cfgs) => cfgs.map (need inp)
  | .error _ => []

/-- the stream position at which the `k`-th method starts: what the methods before it drew -/
def offset (ns : List Nat) (k : Nat) : Nat := (ns.take k).foldl (· + ·) 0

/-- the permutations the `k`-th method draws -/
def slice (s : Stream) (ns : List Nat) (k : Nat) : Stream := (s.drop (offset ns k)).take (ns.getD k 0)

/-- the per-method records of a run on the stream `s`: everything but the permutations as recorded for the method
    (min-cut answers, md5 keys, float scores, float rescue cutoff do not come from the generator) -/
def streamRecs (inp : CliInput) (ns : List Nat) (s : Stream) : List MethodRec :=
  (List.range ns.length).map (fun k => { inp.recs.getD k default with shuffles := slice s ns k })

/-- the command line with the permutations of every method taken from the process's stream -/
def withStream (inp : CliInput) (s : Stream) : CliInput := { inp with recs := streamRecs inp (needs inp) s }

/-- `run_picked_group_fdr(args)` on the process's stream: one entry per method that completed, and the error (if any)
    the run ended with -/
def streamOutcome (inp : CliInput) (s : Stream) : List (Option CliTable) × Option String := cliOutcome (withStream inp s)

/-- a run that completed, on the process's stream: one entry per method of `--methods`, in command-line order -/
def streamOutcomes (inp : CliInput) (s : Stream) : Except String (List (Option CliTable)) := cliOutcomes (withStream inp s)

/-- the tables written, in the order written -/
def streamRun (inp : CliInput) (s : Stream) : Except String (List CliTable) := cliRun (withStream inp s)

end PgFdr.C07
