/-
Model of the long-lived strategy objects of one method configuration (`methods.MethodConfig`) as a
state machine: `call : St → Inp → St × Out` is `picked_group_fdr.get_protein_group_results` threaded
through the mutable fields of the picked / scoring / grouping strategy objects.  The stages are
parameters, each a function of exactly what the code reads at that point; the concrete pipeline
model (`PgFdr/Model/Pipeline.lean`) instantiates them.  Mathlib-free.
-/
namespace PgFdr.C07
variable {Inp Ev Rank Out K Cnt : Type}

/-- the mutable fields of the strategy objects of one method configuration -/
structure St (K Cnt Ev : Type) where
  seen : List K                 -- PickedStrategy / PickedGroupStrategy.seen_proteins
  razor : Cnt                   -- ProteinScoringStrategy.peptide_counts_per_protein (+ best scores)
  pepCutoff : Rat               -- ProteinScoringStrategy.peptide_score_cutoff
  div : Rat                     -- MultPEPScore.div
  scoreCutoff : Rat             -- RescuedGrouping.score_cutoff
  obsolete : List Ev            -- RescuedGrouping.obsolete_protein_groups / …_peptide_infos

/-- the stages of `get_protein_group_results`, as functions of exactly what they read -/
structure Stages (Inp Ev Rank Out K Cnt : Type) where
  counts : Inp → Cnt                                   -- set_peptide_counts_per_protein
  collect : Inp → Cnt → Option (List Ev) → Ev × Rat    -- evidence (+ placeholders) and PEP cutoff
  optimise : Ev → Rat                                  -- optimize_hyperparameters
  compete : Ev → Rat → List K → Rank × List K          -- do_competition: reads div and seen, returns seen after reset
  report : Rank → Rat → Out                            -- FDR + from_protein_groups with the cutoff
  rescueCut : Out → Rat                                -- _calculate_rescue_score_cutoff
  regroup : Inp → Rat → Ev → List Ev                   -- merge_with_rescued… (new placeholders)
  rescues : Bool

/-- one pass; returns the new state and the pass's output -/
def pass (S : Stages Inp Ev Rank Out K Cnt) (s : St K Cnt Ev) (inp : Inp) (placeholders : Option (List Ev)) :
    St K Cnt Ev × Ev × Out :=
  let (ev, pc) := S.collect inp s.razor placeholders
  let s1 := { s with pepCutoff := pc }
  let s2 := { s1 with div := S.optimise ev }
  let (rk, seen') := S.compete ev s2.div s2.seen
  let s3 := { s2 with seen := seen' }
  (s3, ev, S.report rk s3.pepCutoff)

def call (S : Stages Inp Ev Rank Out K Cnt) (s : St K Cnt Ev) (inp : Inp) : St K Cnt Ev × Out :=
  let s0 := { s with razor := S.counts inp }
  let (s1, ev1, out1) := pass S s0 inp none
  if S.rescues then
    let s2 := { s1 with scoreCutoff := S.rescueCut out1 }
    let s3 := { s2 with obsolete := S.regroup inp s2.scoreCutoff ev1 }
    let (s4, _, out2) := pass S s3 inp (some s3.obsolete)
    (s4, out2)
  else (s1, out1)

end PgFdr.C07
