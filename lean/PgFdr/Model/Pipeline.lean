import PgFdr.Model.C01
import PgFdr.Model.C02
import PgFdr.Model.C03
import PgFdr.Model.C04
import PgFdr.Model.C05
import PgFdr.Model.C06
import PgFdr.Model.C17

/-!
Model of `picked_group_fdr.get_protein_group_results` (picked_group_fdr.py:333-470): the composition
of the stage models

  grouping (C03) → [razor counts] → for rescue_step in [False] / [False, True]:
      [rescue: cutoff → filtered peptides → regroup → merge with pass-1 groups (C04)]
      collect_peptide_scores_per_protein (C05) + PEP cutoff (C17)
      [pgT: placeholders appended] → do_competition (C02) → calculate_protein_fdrs (C01)
      → from_protein_groups (C06)

Everything the code takes from outside the modelled logic is an explicit *recorded* parameter
(DESIGN.md §4): the permutations `np.random.shuffle` applied, the `minimum_st_node_cut` answers, the
md5 keys of the razor tie-break, the float protein scores `calculate_score` returned (exact
rationals; for best-PEP the model also reports the minimum PEP per group and the harness checks the
float identity), and the float `10^(−score)` of the rescue cutoff (the model reports the score it is
the image of).  Mathlib-free and executable.
-/
namespace PgFdr.Pipeline

inductive Grouping where
  | no | subset | rescuedSubset | pseudoGene
deriving DecidableEq, Repr

/-- one shipped method configuration (`methods.MethodConfig`) -/
structure Config where
  grouping : Grouping
  razor : Bool
  mode : C02.Mode
deriving Repr

/-- the arguments of one call plus what was recorded from the implementation's run -/
structure Input where
  pil : List PepInfo
  thr : Rat                         -- protein_group_fdr_threshold
  psm : Rat                         -- psm_fdr_cutoff
  keepAll : Bool
  shuffles : List (List Nat)        -- in call order: two per competition
  cuts : C04.CutMap
  razorKeys : List (String × String)
  scores1 : List Rat                -- calculate_score per group handed to the first competition
  scores2 : List Rat                -- … to the second competition
  rescueCutoff : Option Rat         -- np.power(10, -min score), as the implementation computed it

/-- what one pass produces (all of it observable from outside) -/
structure PassOut where
  groups : List (List String)       -- the grouping the evidence was collected for
  infos : List (List Evidence)
  pepList : List Rat                -- PEPs handed to calc_post_err_prob_cutoff
  pepCutoff : Rat                   -- score_type.peptide_score_cutoff
  compGroups : List (List String)   -- groups handed to do_competition (placeholders appended for pgT)
  compInfos : List (List Evidence)
  minPeps : List (Option Rat)       -- best PEP per group handed to the competition (score = −log10 of it)
  ranking : List C02.Item
  fdrs : List Rat
  qvals : List Rat
  rows : List C06.RowData

structure Result where
  pass1 : PassOut
  rescueScore : Option Rat          -- the protein score whose 10^(−·) is the rescue cutoff
  rescue : Option (C04.RescueOut (List Evidence))
  pass2 : Option PassOut
  rows : List C06.RowData           -- the reported table

def razorOf (cfg : Config) (inp : Input) : Option C05.Razor :=
  if cfg.razor then some (C05.razorOf inp.pil (fun p => (inp.razorKeys.lookup p).getD "")) else none

/-- `zip(groups, infos, scores)` -/
def zipItems : List (List String) → List (List Evidence) → List Rat → List C02.Item
  | g :: gs, e :: es, s :: ss => ⟨g, e, s⟩ :: zipItems gs es ss
  | _, _, _ => []

def isPickedGroup : C02.Mode → Bool
  | .pickedGroup _ => true
  | _ => false

/-- one iteration of the `for rescue_step in …` loop after the grouping is known; `seen` is the
    competition strategy's seen-set at entry (empty on a fresh object) -/
def runPassFrom (cfg : Config) (inp : Input) (seen : List String) (groups : List (List String))
    (extra : List (List String × List Evidence)) (rescueStep : Bool) (scores : List Rat)
    (π₁ π₂ : List Nat) : Except String (PassOut × List String) :=
  match C05.collectEvidence groups inp.pil (razorOf cfg inp) rescueStep with
  | .error e => .error e.toString
  | .ok (infos, peps) =>
    let pepCutoff := C17.cutoff (peps.map C17.PepVal.fin) inp.psm
    let compGroups := groups ++ extra.map (·.1)
    let compInfos := infos ++ extra.map (·.2)
    -- no group has a peptide: multPEP dies in optimize_hyperparameters (empty score table) before the
    -- competition is reached, best-PEP in the competition's `zip(*[])`; either way nothing is ranked
    if compInfos.all (·.isEmpty) then .error "no_ranked_groups" else
    if scores.length ≠ compGroups.length then .error "scores_misaligned" else
    let items := zipItems compGroups compInfos scores
    if !C02.shufflesFit cfg.mode seen ⟨items, π₁, π₂⟩ then .error "shuffles_do_not_fit" else
    let r := C02.competeFrom cfg.mode seen items π₁ π₂
    let ranking := r.1
    if ranking.isEmpty then .error "no_ranked_groups" else
    match C01.calcProteinFdrs (ranking.map (·.group)) (ranking.map (·.score)) with
    | .error e => .error e
    | .ok (fdrs, qvals) =>
      match C06.fromProteinGroups (ranking.map (·.group)) (ranking.map (·.evidence))
              (ranking.map (·.score)) qvals (if rescueStep then some pepCutoff else none) inp.keepAll with
      | .error e => .error e
      | .ok rows =>
        .ok ({ groups := groups, infos := infos, pepList := peps, pepCutoff := pepCutoff,
               compGroups := compGroups, compInfos := compInfos,
               minPeps := compInfos.map C05.minPep,
               ranking := ranking, fdrs := fdrs, qvals := qvals, rows := rows }, r.2)

def shuffleAt (inp : Input) (i : Nat) : List Nat := inp.shuffles.getD i []

def firstGrouping (cfg : Config) (pil : List PepInfo) : List (List String) :=
  match cfg.grouping with
  | .no => C03.noGrouping pil
  | .subset | .rescuedSubset => C03.subsetGrouping pil
  | .pseudoGene => C03.pseudoGeneGrouping pil

/-- `get_protein_group_results` on strategy objects whose seen-set is `seen`; also returns the seen-set
    the competition strategy is left with -/
def runFrom (cfg : Config) (inp : Input) (seen : List String) : Except String (Result × List String) :=
  let groups1 := firstGrouping cfg inp.pil
  match runPassFrom cfg inp seen groups1 [] false inp.scores1 (shuffleAt inp 0) (shuffleAt inp 1) with
  | .error e => .error e
  | .ok (p1, seen1) =>
    if cfg.grouping ≠ .rescuedSubset then
      .ok ({ pass1 := p1, rescueScore := none, rescue := none, pass2 := none, rows := p1.rows }, seen1)
    else
      match C04.rescueScore (p1.rows.map (fun r => (r.score, r.qValue))) inp.thr with
      | none => .error "no_rows"
      | some s =>
        match inp.rescueCutoff with
        | none => .error "missing_rescue_cutoff"
        | some cutoff =>
          match C04.rescueGroups (p1.groups.zip p1.infos) inp.pil cutoff inp.cuts with
          | .error e => .error e
          | .ok out =>
            let extra := if isPickedGroup cfg.mode then out.obsolete.zip out.obsoleteInfos else []
            match runPassFrom cfg inp seen1 out.groups extra true inp.scores2 (shuffleAt inp 2) (shuffleAt inp 3) with
            | .error e => .error e
            | .ok (p2, seen2) =>
              .ok ({ pass1 := p1, rescueScore := some s, rescue := some out, pass2 := some p2, rows := p2.rows },
                   seen2)

/-- `get_protein_group_results` on a freshly constructed method configuration -/
def run (cfg : Config) (inp : Input) : Except String Result :=
  match runFrom cfg inp [] with
  | .error e => .error e
  | .ok (r, _) => .ok r

/-- successive calls on ONE method-configuration object: the only state a call reads before writing it is
    the competition strategy's seen-set.  A call that fails either fails before the greedy pass (seen-set
    untouched) or in `zip(*[])` after `self.reset()`; from an empty seen-set both leave it empty, and that is
    the only situation `callSeq … []` ever reaches (`pipeline_calls_independent`). -/
def callSeq (cfg : Config) : List String → List Input → List (Except String Result)
  | _, [] => []
  | seen, i :: rest =>
    match runFrom cfg i seen with
    | .ok (r, seen') => .ok r :: callSeq cfg seen' rest
    | .error e => .error e :: callSeq cfg seen rest

end PgFdr.Pipeline
