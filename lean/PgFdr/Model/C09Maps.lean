/-
Model of the builder of the ONE-MAP-PER-DIGESTION-PARAMETER-SET list that `python -m picked_group_fdr` and
`python -m picked_group_fdr.quantification` use:

  digestion_params.get_digestion_params_list          (argparse lists -> DigestionParams objects, broadcasting)
  peptide_protein_map.get_peptide_to_protein_maps      (FASTA branch, `--peptide_protein_map` file branch, neither)
  peptide_protein_map.get_peptide_to_protein_maps_from_args   (identifier rule from the flags)
  entrapment.mark_entrapment_proteins / get_entrapment_proteins / mark_entrapment

The map of ONE parameter set is the existing single-parameter-set model `fromParams parse files [p]` of
`Model/C09.lean`; nothing of it is repeated here.  Executable, Mathlib-free.
-/
import PgFdr.Model.C09

namespace PgFdr.C09
open PgFdr.Generated PgFdr.C08

/-- what the list builder can raise: an error of a digest / of reading a map file, the `ValueError` of
    `get_digestion_params_list`, the `ValueError` of `get_peptide_to_protein_maps` without any input -/
inductive MapsErr where
  | map (e : Err)
  | unequalLengths
  | noInput
deriving Repr, DecidableEq

/-! ### digestion_params.get_digestion_params_list -/

/-- the option lists of the argparse namespace (`nargs="+"`) and the `--fasta_contains_decoys` flag -/
structure ArgLists where
  enzyme : List String
  digestion : List String
  minL : List Nat
  maxL : List Nat
  mc : List Nat
  special : List String
  containsDecoys : Bool

/-- `param * max_params` for a list of length one, the list itself otherwise -/
def bcast {α : Type} (n : Nat) : List α → List α
  | [x] => List.replicate n x
  | l => l

/-- `[len(p) for p in params_list]` (the seventh list is `[args.fasta_contains_decoys]`) -/
def argLengths (a : ArgLists) : List Nat :=
  [a.enzyme.length, a.digestion.length, a.minL.length, a.maxL.length, a.mc.length, a.special.length, 1]

/-- `len(set(l)) <= 1` -/
def allSame : List Nat → Bool
  | [] => true
  | x :: xs => xs.all (fun y => y == x)

/-- `max(param_lengths) if len(param_lengths) > 0 else 1` -/
def maxParams : List Nat → Nat
  | [] => 1
  | l => l.foldl max 0

/-- `zip(*params_list_updated)` followed by `DigestionParams(*p)` -/
def zipParams (e d : List String) (mn mx c : List Nat) (s : List String) (b : List Bool) : List Params :=
  List.zipWith (fun (x : String × String × Nat × Nat) (y : Nat × String × Bool) =>
      mkParams x.1 x.2.1 x.2.2.1 x.2.2.2 y.1 y.2.1 y.2.2)
    (e.zip (d.zip (mn.zip mx))) (c.zip (s.zip b))

/-- `digestion_params.get_digestion_params_list(args)`: the lists whose length is not one must agree in length
    (`ValueError` otherwise); `max_params` is that length (1 when every list has length one); lists of length one
    are repeated `max_params` times; one `DigestionParams` per position of the zipped lists -/
def digestionParamsList (a : ArgLists) : Except MapsErr (List Params) :=
  let lens := (argLengths a).filter (fun n => n != 1)
  if !allSame lens then .error .unequalLengths
  else
    let n := maxParams lens
    .ok (zipParams (bcast n a.enzyme) (bcast n a.digestion) (bcast n a.minL) (bcast n a.maxL) (bcast n a.mc)
          (bcast n a.special) (bcast n [a.containsDecoys]))

/-! ### entrapment.mark_entrapment_proteins -/

def entrapmentSuffix : Str := "_entrapment".toList

/-- `get_entrapment_proteins`: the identifiers of the protein-groups file that contain `_entrapment`
    (a set in the code; only membership is used) -/
def entrapmentProteins (groups : List (List Str)) : List Str :=
  groups.flatten.filter (fun p => containsSub entrapmentSuffix p)

/-- `mark_entrapment` on one identifier -/
def markProtein (ent : List Str) (p : Str) : Str :=
  if (p ++ entrapmentSuffix) ∈ ent then p ++ entrapmentSuffix else p

/-- `mark_entrapment` on every entry of a map -/
def markMap (ent : List Str) (m : PMap) : PMap := m.map (fun kv => (kv.1, kv.2.map (markProtein ent)))

/-- `mark_entrapment_proteins(result, mq_protein_groups_file)`; `groups = none`: no file given (`return`).
    Without entrapment identifiers in the file nothing is touched; with some, every entry is rewritten — a
    non-specific result is the `(map, sequences)` tuple, which has no `.items()` (`AttributeError`) -/
def markResult (groups : Option (List (List Str))) (res : PMap × SeqMap) : Except Err (PMap × SeqMap) :=
  match groups with
  | none => .ok res
  | some g =>
    let ent := entrapmentProteins g
    if ent.isEmpty then .ok res
    else if !res.2.isEmpty then .error .attributeError
    else .ok (markMap ent res.1, res.2)

/-! ### peptide_protein_map.get_peptide_to_protein_maps -/

/-- the element of the list that belongs to ONE parameter set:
    `get_peptide_to_protein_map_from_params(fasta_file, [digestion_params], parse_id=…)` followed by
    `mark_entrapment_proteins(·, mq_protein_groups_file)` -/
def mapOf (parse : ParseId) (files : List (List Str)) (groups : Option (List (List Str))) (p : Params) :
    Except Err (PMap × SeqMap) :=
  match fromParams parse files [p] with
  | .error e => .error e
  | .ok res => markResult groups res

/-- the FASTA branch: `for digestion_params in digestion_params_list: maps.append(…)`; the first failing
    parameter set raises -/
def pepMaps (parse : ParseId) (files : List (List Str)) (groups : Option (List (List Str))) :
    List Params → Except Err (List (PMap × SeqMap))
  | [] => .ok []
  | p :: ps =>
    match mapOf parse files groups p with
    | .error e => .error e
    | .ok m =>
      match pepMaps parse files groups ps with
      | .error e => .error e
      | .ok ms => .ok (m :: ms)

/-- the file branch: `get_peptide_to_protein_map_from_file(f, use_hash_key=False)` for every
    `--peptide_protein_map` file (a plain dict: no sequence map) -/
def readMaps : List Str → Except Err (List (PMap × SeqMap))
  | [] => .ok []
  | t :: ts =>
    match readMap t with
    | .error e => .error e
    | .ok m =>
      match readMaps ts with
      | .error e => .error e
      | .ok ms => .ok ((m, []) :: ms)

def liftErr {α : Type} : Except Err α → Except MapsErr α
  | .ok a => .ok a
  | .error e => .error (.map e)

/-- `get_peptide_to_protein_maps(fasta_file, peptide_protein_map_files, digestion_params_list,
    mq_protein_groups_file, parse_id=…)`: `if fasta_file: … elif peptide_protein_map_files: … else: raise` on
    the lists of file contents (`None` and the empty list are both falsy) -/
def pepMapsTop (parse : ParseId) (fasta : List (List Str)) (mapFiles : List Str)
    (groups : Option (List (List Str))) (ps : List Params) : Except MapsErr (List (PMap × SeqMap)) :=
  if !fasta.isEmpty then liftErr (pepMaps parse fasta groups ps)
  else if !mapFiles.isEmpty then liftErr (readMaps mapFiles)
  else .error .noInput

/-- `get_peptide_to_protein_maps_from_args`: `parse_until_first_space`, replaced by the gene rule
    `if args.gene_level and not use_pseudo_genes`, `elif args.fasta_use_uniprot_id` by the accession rule -/
def selectParse (geneLevel usePseudo useUniprot : Bool) : ParseId :=
  if geneLevel && !usePseudo then .gene
  else if useUniprot then .uniprot
  else .firstSpace

/-- `peptide_protein_map.get_peptide_to_protein_maps_from_args(args, use_pseudo_genes)` -/
def pepMapsFromArgs (a : ArgLists) (geneLevel usePseudo useUniprot : Bool) (fasta : List (List Str))
    (mapFiles : List Str) (groups : Option (List (List Str))) : Except MapsErr (List (PMap × SeqMap)) :=
  match digestionParamsList a with
  | .error e => .error e
  | .ok ps => pepMapsTop (selectParse geneLevel usePseudo useUniprot) fasta mapFiles groups ps

end PgFdr.C09
