/-
Model of the digestion AS CONFIGURED BY A USER (`picked_group_fdr/digestion_params.py` and the glue of
`picked_group_fdr/digest.py` around the digestion functions of `PgFdr/Model/C08.lean`):

  * `DigestionParams.__init__` (an omitted argument takes the default constant, a given value — also the falsy
    ones `0`, `""` — is kept; `no_enzyme` forces the non-specific mode; `"none"` = no special residues;
    `methionine_cleavage = True`; `use_hash_key = digestion == "none"`)                        → `mkParams`
  * the argparse defaults of `add_digestion_arguments` (`default=[CONSTANT]` for an option that is not on the
    command line)                                                                           → `argLists`
  * `get_digestion_params_list` (lists of length one are repeated, the other lengths must agree, one
    `DigestionParams(*p)` per position)                                                     → `paramsList`
  * `get_peptide_to_protein_map_from_params_single` → `get_peptide_to_protein_map` → `get_digested_peptides`:
    the digestion call a parameter object is turned into                        → `configuredDigest`, `emitJob`
  * `get_peptide_to_protein_map_from_params` (every file × every parameter set, merged by peptide); observed
    PER PROTEIN: the keys listed for a protein identifier                       → `emissions`, `perProtein`
  * `get_ibaq_peptide_to_protein_map` (REWRITES the parameter objects it is given: window clamped to 6–30, no
    missed cleavage, no Met removal, fully specific, no hash keys) and `get_num_ibaq_peptides_per_protein`
                                                                                → `ibaqParams`, `ibaqCounts`
  * `digest.main` (`python -m picked_group_fdr.digest`): the three output blocks `--prosit_input`,
    `--peptide_protein_map`, `--ibaq_map`, run one after the other ON ONE LIST of parameter objects; the iBAQ block
    leaves the rewritten objects behind                                         → `runBlock`, `runBlocks`, `cliMain`

What is NOT modelled here (C09's part): FASTA parsing (the model receives the records `(identifier, sequence)`
of every file), the order of the map's rows, the list of proteins per peptide.  The decoy sequence of the
`concat` database (`reverse`, then every special residue swapped with its predecessor) is modelled because the
peptides of a decoy protein are the rule's peptides of THAT sequence.

Executable, Mathlib-free.
-/
import PgFdr.Model.C08

namespace PgFdr.C08
open PgFdr.Generated

abbrev Seq := List Char

/-! ### `DigestionParams` -/

/-- the arguments of one `DigestionParams(...)` call; `none` = the argument is omitted -/
structure CtorArgs where
  enzyme : Option String := none
  digestion : Option String := none
  minLength : Option Nat := none
  maxLength : Option Nat := none
  cleavages : Option Nat := none
  specialAas : Option String := none
  containsDecoys : Option Bool := none
deriving Repr, DecidableEq

/-- the attributes of a `DigestionParams` object (`dbTarget`: `db == "target"`, otherwise `"concat"`) -/
structure Params where
  enzyme : String
  digestion : String
  minL : Nat
  maxL : Nat
  mc : Nat
  special : List Char
  met : Bool
  dbTarget : Bool
  useHash : Bool
deriving Repr, DecidableEq

/-- `DigestionParams.__init__` -/
def mkParams (a : CtorArgs) : Params :=
  let enzyme := a.enzyme.getD enzymeDefault
  let dig := if enzyme == "no_enzyme" then "none" else a.digestion.getD digestionDefault
  let sp := a.specialAas.getD specialAasDefault
  { enzyme := enzyme
    digestion := dig
    minL := a.minLength.getD minPeplenDefault
    maxL := a.maxLength.getD maxPeplenDefault
    mc := a.cleavages.getD cleavagesDefault
    special := if sp == "none" then [] else sp.toList
    met := true
    dbTarget := a.containsDecoys.getD false
    useHash := dig == "none" }

/-! ### the command line's option lists -/

/-- the digestion options as they appear on a command line; `none` = the option is not given -/
structure CliOpts where
  enzyme : Option (List String) := none
  digestion : Option (List String) := none
  minLength : Option (List Nat) := none
  maxLength : Option (List Nat) := none
  cleavages : Option (List Nat) := none
  specialAas : Option (List String) := none
  containsDecoys : Bool := false
deriving Repr, DecidableEq

/-- the `argparse.Namespace` fields `get_digestion_params_list` reads -/
structure ArgLists where
  enzyme : List String
  digestion : List String
  minLength : List Nat
  maxLength : List Nat
  cleavages : List Nat
  specialAas : List String
  containsDecoys : Bool
deriving Repr, DecidableEq

/-- `add_digestion_arguments`: `default=[ENZYME_DEFAULT]`, `[CLEAVAGES_DEFAULT]`, … for an absent option -/
def argLists (o : CliOpts) : ArgLists :=
  { enzyme := o.enzyme.getD [enzymeDefault]
    digestion := o.digestion.getD [digestionDefault]
    minLength := o.minLength.getD [minPeplenDefault]
    maxLength := o.maxLength.getD [maxPeplenDefault]
    cleavages := o.cleavages.getD [cleavagesDefault]
    specialAas := o.specialAas.getD [specialAasDefault]
    containsDecoys := o.containsDecoys }

/-- `param * max_params` for a list of length one, any other list unchanged -/
def bcast {α : Type} (n : Nat) : List α → List α
  | [x] => List.replicate n x
  | l => l

/-- `len(set(param_lengths)) > 1` is false -/
def allEq : List Nat → Bool
  | [] => true
  | x :: xs => xs.all (· == x)

/-- `[len(p) for p in params_list if len(p) != 1]` (the seventh list `[fasta_contains_decoys]` has length one) -/
def nonOneLengths (a : ArgLists) : List Nat :=
  [a.enzyme.length, a.digestion.length, a.minLength.length, a.maxLength.length, a.cleavages.length,
   a.specialAas.length].filter (· != 1)

/-- `max(param_lengths) if len(param_lengths) > 0 else 1` (behind the guard all entries are equal: the first) -/
def numParams (a : ArgLists) : Nat := (nonOneLengths a).headD 1

/-- `[DigestionParams(*p) for p in zip(*params_list_updated)]` -/
def zipParams (cd : Bool) :
    List String → List String → List Nat → List Nat → List Nat → List String → List Params
  | e :: es, d :: ds, mn :: mns, mx :: mxs, c :: cs, s :: ss =>
    mkParams { enzyme := some e, digestion := some d, minLength := some mn, maxLength := some mx,
               cleavages := some c, specialAas := some s, containsDecoys := some cd }
      :: zipParams cd es ds mns mxs cs ss
  | _, _, _, _, _, _ => []

/-- errors of the configured digestion -/
inductive CfgErr where
  | unequalLength                 -- `ValueError("Received digestion parameters of unequal length.")`
  | digest (e : Err)              -- `KeyError` of an unknown enzyme, `IndexError` on an empty sequence
  | attributeError                -- `digest.main`: `.items()` on the `(map, sequences)` pair of the hash-key mode
deriving Repr, DecidableEq

/-- `get_digestion_params_list(args)` -/
def paramsList (a : ArgLists) : Except CfgErr (List Params) :=
  if allEq (nonOneLengths a) then
    let n := numParams a
    .ok (zipParams a.containsDecoys (bcast n a.enzyme) (bcast n a.digestion) (bcast n a.minLength)
          (bcast n a.maxLength) (bcast n a.cleavages) (bcast n a.specialAas))
  else .error .unequalLength

/-! ### the digestion a parameter object is turned into -/

/-- `get_peptide_to_protein_map_from_params_single` + the digestion call of `get_peptide_to_protein_map`:
    `get_digested_peptides(seq, params.min_length, params.max_length, *get_cleavage_sites(params.enzyme),
    params.digestion, params.cleavages, params.methionine_cleavage)` -/
def configuredDigest (p : Params) (seq : Seq) : Except Err (List Seq) :=
  digestByName p.enzyme seq p.minL p.maxL p.digestion p.mc p.met

/-- `hash_key = peptide[:6] if use_hash_key else peptide` -/
def hashKey (p : Params) (pep : Seq) : Seq := if p.useHash then pep.take 6 else pep

/-! ### the protein records of a database -/

/-- the records `(identifier, sequence)` of one FASTA file, in file order -/
abbrev Fasta := List (String × Seq)

/-- `swap_special_aas`: left to right, a special residue changes place with the residue before it
    (`held` is the residue currently sitting at the previous position) -/
def swapGo (special : List Char) : Char → Seq → Seq
  | held, [] => [held]
  | held, c :: rest => if special.contains c then c :: swapGo special held rest else held :: swapGo special c rest

def swapSpecial (special : List Char) : Seq → Seq
  | [] => []
  | c :: rest => swapGo special c rest

/-- the generated decoy sequence: `seq[::-1]`, then `swap_special_aas` -/
def decoySeq (special : List Char) (s : Seq) : Seq := swapSpecial special s.reverse

/-- `read_fasta(file, params.db, …, special_aas=params.special_aas)`: the targets (`db = "target"`), or every
    target followed by its decoy (`"concat"`) -/
def records (p : Params) (f : Fasta) : Fasta :=
  if p.dbTarget then f else f.flatMap (fun r => [r, ("REV__" ++ r.1, decoySeq p.special r.2)])

/-! ### peptides per protein -/

/-- a protein identifier with the map keys its digestion contributed (one FASTA record under one parameter set) -/
abbrev Emission := String × List Seq

/-- the loop over the records of `get_peptide_to_protein_map` -/
def emitRecords (r : EnzymeRule) (p : Params) : Fasta → Except Err (List Emission)
  | [] => .ok []
  | rec :: rest =>
    match digestPeptides r rec.2 p.minL p.maxL (modeOf p.digestion) p.mc p.met with
    | .error e => .error e
    | .ok l =>
      match emitRecords r p rest with
      | .error e => .error e
      | .ok out => .ok ((rec.1, l.map (hashKey p)) :: out)

/-- `get_peptide_to_protein_map_from_params_single(fasta_file, params)` -/
def emitJob (p : Params) (f : Fasta) : Except Err (List Emission) :=
  match lookupEnzyme p.enzyme with
  | none => .error .unknownEnzyme
  | some r => emitRecords r p (records p f)

/-- `for fasta_file in fasta_files: for params in digestion_params_list` -/
def jobs (files : List Fasta) (ps : List Params) : List (Fasta × Params) :=
  files.flatMap (fun f => ps.map (fun p => (f, p)))

def emitJobs : List (Fasta × Params) → Except Err (List Emission)
  | [] => .ok []
  | j :: rest =>
    match emitJob j.2 j.1 with
    | .error e => .error e
    | .ok a =>
      match emitJobs rest with
      | .error e => .error e
      | .ok b => .ok (a ++ b)

/-- everything `get_peptide_to_protein_map_from_params(fasta_files, digestion_params_list)` puts into the map, as
    (protein, keys) contributions in loop order -/
def emissions (files : List Fasta) (ps : List Params) : Except Err (List Emission) := emitJobs (jobs files ps)

/-- first occurrences, in order -/
def dedup {α : Type} [DecidableEq α] : List α → List α
  | [] => []
  | x :: xs => x :: (dedup xs).filter (fun y => y ≠ x)

/-- the protein identifiers of the database, first mention first -/
def proteinIds (em : List Emission) : List String := dedup (em.map (·.1))

/-- the distinct map keys that list the protein `id` -/
def keysFor (id : String) (em : List Emission) : List Seq :=
  dedup ((em.filter (fun e => e.1 == id)).flatMap (·.2))

/-- the map inverted: per protein identifier the distinct keys that list it -/
def perProtein (em : List Emission) : List (String × List Seq) :=
  (proteinIds em).map (fun id => (id, keysFor id em))

/-- `len(protein_to_seq_map) > 0`: the result is the pair `(map, sequences)` of the hash-key mode -/
def pairResult (files : List Fasta) (ps : List Params) : Bool :=
  (jobs files ps).any (fun j => j.2.useHash && !(records j.2 j.1).isEmpty)

/-! ### iBAQ peptide numbers -/

/-- the in-place rewrite of `get_ibaq_peptide_to_protein_map` -/
def ibaqParams (p : Params) : Params :=
  { p with minL := max 6 p.minL, maxL := min 30 p.maxL, mc := 0, met := false, digestion := "full",
           useHash := false }

/-- `get_num_peptides_per_protein`: the number of distinct peptides that list a protein (no entry for none) -/
def ibaqCounts (em : List Emission) : List (String × Nat) :=
  (perProtein em).filterMap (fun kv => if kv.2.length = 0 then none else some (kv.1, kv.2.length))

/-! ### the Prosit input -/

/-- `is_valid_prosit_peptide` -/
def validProsit (pep : Seq) : Bool := pep.length ≤ 30 && !pep.contains 'U' && !pep.contains 'X'

/-- `proteins[0]`: the protein of the first contribution that has the key -/
def firstProtein (em : List Emission) (pep : Seq) : String :=
  ((em.find? (fun e => e.2.contains pep)).map (·.1)).getD ""

/-- the peptides of the Prosit input file (each is written with charges 2, 3, 4 and collision energy 30) with the
    protein of the `_with_proteins` file -/
def prositRows (em : List Emission) : List (Seq × String) :=
  ((dedup (em.flatMap (·.2))).filter validProsit).map (fun pep => (pep, firstProtein em pep))

/-! ### `digest.main` -/

inductive Block where
  | prosit | map | ibaq
deriving Repr, DecidableEq

/-- the files written so far (`none`: not written) -/
structure Written where
  prosit : Option (List (Seq × String)) := none
  map : Option (List (String × List Seq)) := none
  ibaq : Option (List (String × Nat)) := none
deriving Repr, DecidableEq

/-- what a block of `main` iterates over: `get_peptide_to_protein_map_from_params(args.fasta, params).items()` -/
def mapItems (files : List Fasta) (ps : List Params) : Except CfgErr (List Emission) :=
  match emissions files ps with
  | .error e => .error (.digest e)
  | .ok em => if pairResult files ps then .error .attributeError else .ok em

/-- one output block of `main`, run on the CURRENT state of the parameter objects; the iBAQ block leaves the
    objects rewritten -/
def runBlock (files : List Fasta) (st : List Params × Written) : Block → Except CfgErr (List Params × Written)
  | .prosit =>
    match mapItems files st.1 with
    | .error e => .error e
    | .ok em => .ok (st.1, { st.2 with prosit := some (prositRows em) })
  | .map =>
    match mapItems files st.1 with
    | .error e => .error e
    | .ok em => .ok (st.1, { st.2 with map := some (perProtein em) })
  | .ibaq =>
    match mapItems files (st.1.map ibaqParams) with
    | .error e => .error e
    | .ok em => .ok (st.1.map ibaqParams, { st.2 with ibaq := some (ibaqCounts em) })

def runBlocks (files : List Fasta) : List Block → List Params × Written → Except CfgErr (List Params × Written)
  | [], st => .ok st
  | b :: rest, st =>
    match runBlock files st b with
    | .error e => .error e
    | .ok st' => runBlocks files rest st'

/-- the order of the blocks in `main`: `if args.prosit_input`, `if args.peptide_protein_map`, `if args.ibaq_map` -/
def mainBlocks (wantProsit wantMap wantIbaq : Bool) : List Block :=
  (if wantProsit then [.prosit] else []) ++ (if wantMap then [.map] else []) ++ (if wantIbaq then [.ibaq] else [])

/-- `digest.main(argv)`: options → parameter objects → the requested blocks -/
def cliMain (o : CliOpts) (files : List Fasta) (wantProsit wantMap wantIbaq : Bool) : Except CfgErr Written :=
  match paramsList (argLists o) with
  | .error e => .error e
  | .ok ps =>
    match runBlocks files (mainBlocks wantProsit wantMap wantIbaq) (ps, {}) with
    | .error e => .error e
    | .ok st => .ok st.2

/-- the in-process path: `get_peptide_to_protein_map_from_params(files, get_digestion_params_list(args))`, or
    `get_ibaq_peptide_to_protein_map` on fresh objects (`ibaq`) -/
def configMap (o : CliOpts) (files : List Fasta) (ibaq : Bool) : Except CfgErr (List (String × List Seq)) :=
  match paramsList (argLists o) with
  | .error e => .error e
  | .ok ps =>
    match emissions files (if ibaq then ps.map ibaqParams else ps) with
    | .error e => .error (.digest e)
    | .ok em => .ok (perProtein em)

end PgFdr.C08
