import PgFdr.Model.Pipeline
import PgFdr.Model.C09
import PgFdr.Model.C10
import PgFdr.Model.C13
import PgFdr.Model.C18Pipeline
import PgFdr.Model.C19

/-!
Model of the GLUE of `python -m picked_group_fdr` for the default (non-quantification) path:
`picked_group_fdr.run_picked_group_fdr` → `run_method` → `writers.finalize_output`
(picked_group_fdr.py:232-343, peptide_protein_map.py, digestion_params.get_digestion_params_list,
parsers/evidence.py, parsers/psm.py:parse_evidence_file_multiple, writers/base.py, writers/minimal.py).

Nothing of a stage is re-modelled here; the stage models are COMPOSED exactly as the call sites do:

  protein_annotation.get_protein_annotations(args.fasta, contains_decoys, gene_level, use_uniprot_id)   C19.getAnnotations
  methods.get_methods(args.methods, use_pseudo_genes)                                                  C18.parseAll over Generated.methods
  methods.requires_peptide_to_protein_map(method_configs)                                              C18.Cfg.needsMap (any)
  peptide_protein_map.get_peptide_to_protein_maps_from_args(args, use_pseudo_genes)
      parse_id rule (gene level without pseudo-genes → gene; elif uniprot → accession; else first word)  `parseIdOf`
      digestion_params.get_digestion_params_list(args)   (lists of length 1 are broadcast)               `digestionParamsList`
      ONE map per parameter set: digest.get_peptide_to_protein_map_from_params(fasta, [params])          C09.fromParams
  for method_config in method_configs:  run_method(...)
      score_type.get_evidence_file(args)  (None → warning, method skipped)                               C18.runMethod / `evidenceOf`
      evidence.parse_evidence_files(files, maps, score_type, …)                                          C10.ingestFiles
          (MaxQuant razor methods read `Leading razor protein` instead of `Leading proteins`)            `rowsFor`
      get_protein_group_results(pil, mq_protein_groups, method_config, plotter,
                                keep_all_proteins, protein_group_fdr_threshold, psm_fdr_cutoff)          Pipeline.run
      MinimalProteinGroupsWriter(protein_annotations); finalize_output(…):
          ProteinAnnotationsColumns.append (headers, three columns per row)                              C13.applyGen / C19.annotationColumns
          _get_output_filename (suffix when several methods were given; directory dropped then)          C18.outputName
          ProteinGroupResults.write through the writer's header dict                                     C13.writeRecords

Everything the stage models take as a recorded parameter (DESIGN.md §4) is a recorded parameter here too,
one record per method: the permutations of `np.random.shuffle`, the answers of `minimum_st_node_cut`, the md5
keys of the razor tie-break, the float protein scores of both competitions, the float rescue cutoff.

The written cells are strings exactly as handed to `csv.writer`, except the two float columns
(`Q-value`, `Score`), which carry the exact rational as `"num/den"` (the harness parses the written text with
`float()` and compares with the rational converted by one division).

Every input type a shipped method reads is composed: MaxQuant evidence, Percolator output (native `PSMId` header or
mokapot `SpecId` header, decided PER FILE as `percolator.get_percolator_column_idxs` does), FragPipe psm.tsv, Sage
results, DIA-NN tsv reports (`evidenceOf` / `modeOf`: one C10 row function per format); the peptide → protein maps come
from `--fasta` + the digestion flags or — without `--fasta` — from `--peptide_protein_map` files (C09.readMap, one map
per file); without `--fasta` the annotations are empty (`C19.getAnnotations none`), whatever `--gene_level` says.

Not covered (the model answers `not_modelled:…`, or the input cannot express it): `--do_quant` (see Model/CliQuant.lean),
`.parquet` DIA-NN reports, ms2rescore-style Percolator files,
`--mq_protein_groups` (native MaxQuant grouping), custom TOML files given by path, non-specific digestion
(`--digestion none` / `--enzyme no_enzyme`: the digest is a (map, sequences) pair the C10 model does not take),
plots, negative integers in the digestion flags.

Executable, total, Mathlib-free.
-/
namespace PgFdr.Cli
open PgFdr.Generated (MethodToml)

abbrev Str := List Char

/-! ## input -/

/-- what is recorded from the implementation's run of ONE method (the fields of `Pipeline.Input` that are
    not arguments of the call) -/
structure MethodRec where
  shuffles : List (List Nat) := []
  cuts : C04.CutMap := []
  razorKeys : List (String × String) := []
  scores1 : List Rat := []
  scores2 : List Rat := []
  rescueCutoff : Option Rat := none

instance : Inhabited MethodRec := ⟨{}⟩

/-- one data row of an evidence file: the cells the C10 row functions read, plus the MaxQuant
    `Leading razor protein` cell (razor methods read it instead of `Leading proteins`) -/
structure EvRow where
  raw : C10.RawRow
  razorProt : String := ""
deriving Repr, Inhabited

/-- the six list-valued digestion flags as given on the command line (`nargs="+"`); the defaults are the
    ones of `digestion_params.py` -/
structure Digestion where
  enzyme : List String := ["trypsin"]
  digestion : List String := ["full"]
  minLength : List Nat := [7]
  maxLength : List Nat := [60]
  cleavages : List Nat := [2]
  specialAas : List String := ["KR"]
deriving Repr, Inhabited

/-- `--protein_groups_out`: directory part as given, `Path.stem`, `Path.suffix` -/
structure OutPath where
  dir : String
  stem : String
  suffix : String
deriving Repr, Inhabited, DecidableEq

structure CliInput where
  /-- `--fasta`: the lines of every file (`none`: flag absent) -/
  fasta : Option (List (List Str))
  /-- `--fasta_contains_decoys` -/
  containsDecoys : Bool
  /-- `--gene_level` -/
  geneLevel : Bool
  /-- `--fasta_use_uniprot_id` -/
  useUniprot : Bool
  dig : Digestion
  /-- `--methods` split at `,` (`methodsOfArg`) -/
  methods : List String
  /-- `--mq_evidence`, `--perc_evidence`, `--fragpipe_psm`, `--sage_results`, `--diann_reports`: rows per file -/
  mq : Option (List (List EvRow))
  perc : Option (List (List EvRow))
  fragpipe : Option (List (List EvRow))
  sage : Option (List (List EvRow))
  diann : Option (List (List EvRow))
  /-- the Percolator files carry a `SpecId` header (mokapot) instead of `PSMId` (every file for which
      `mokapotFiles` does not say otherwise) -/
  mokapot : Bool
  /-- `--protein_group_fdr_threshold` -/
  thr : Rat
  /-- `--psm_fdr_cutoff` -/
  psm : Rat
  /-- `--keep_all_proteins` -/
  keepAll : Bool
  /-- `--protein_groups_out` -/
  out : Option OutPath
  /-- recorded parameters, one record per method of `methods` (by position; missing records are empty) -/
  recs : List MethodRec
  /-- `--peptide_protein_map`: the text of every file (`none`: flag absent).  Read only when `--fasta` is absent
      (`if fasta_file: … elif peptide_protein_map_files: …`) -/
  pepMapFiles : Option (List Str) := none
  /-- header style of the Percolator files by position (`true`: mokapot, `SpecId`; `false`: native, `PSMId`); the
      parser decides it per file from the header line.  Positions beyond the list take `mokapot`. -/
  mokapotFiles : List Bool := []

/-- `methods.get_methods`: `method_names.split(",")`, the default method for an empty value -/
def methodsOfArg (arg : String) : List String :=
  if arg.toList.isEmpty then ["picked_protein_group"] else C10.splitOn "," arg

/-! ## digestion parameters and the peptide → protein maps -/

/-- `param * max_params` for a list of length one -/
def bcast {α} (n : Nat) (l : List α) : List α :=
  if l.length = 1 then (List.replicate n l).flatten else l

/-- `digestion_params.get_digestion_params_list(args)`: the seven parameter lists (the seventh is
    `[args.fasta_contains_decoys]`) must agree in length unless of length one; lists of length one are
    repeated; `zip` builds one `DigestionParams` per position -/
def digestionParamsList (d : Digestion) (containsDecoys : Bool) : Except String (List C09.Params) :=
  let lens := [d.enzyme.length, d.digestion.length, d.minLength.length, d.maxLength.length,
               d.cleavages.length, d.specialAas.length, 1].filter (fun n => n != 1)
  if lens.eraseDups.length > 1 then .error "unequal_digestion_params"
  else
    let n := if lens.isEmpty then 1 else lens.foldl max 0
    .ok (((bcast n d.enzyme).zip ((bcast n d.digestion).zip ((bcast n d.minLength).zip
          ((bcast n d.maxLength).zip ((bcast n d.cleavages).zip ((bcast n d.specialAas).zip
          (bcast n [containsDecoys]))))))).map
        (fun p => C09.mkParams p.1 p.2.1 p.2.2.1 p.2.2.2.1 p.2.2.2.2.1 p.2.2.2.2.2.1 p.2.2.2.2.2.2))

/-- `get_peptide_to_protein_maps_from_args`: the identifier rule handed to the digest
    (`if gene_level and not use_pseudo_genes: gene  elif fasta_use_uniprot_id: accession`) -/
def parseIdOf (geneLevel useUniprot usePseudo : Bool) : C09.ParseId :=
  if geneLevel && !usePseudo then .gene
  else if useUniprot then .uniprot
  else .firstSpace

def c09ErrTag : C09.Err → String
  | .indexError => "index_error"
  | .attributeError => "attribute_error"
  | .unknownEnzyme => "unknown_enzyme"
  | .keyError => "key_error"
  | .unsupportedCsv => "unsupported_csv"

/-- the digest dict in the representation the ingestion model reads -/
def toDMap (m : C09.PMap) : C10.DMap := m.map (fun kv => (String.ofList kv.1, kv.2.map String.ofList))

/-- ONE map per digestion parameter set: `get_peptide_to_protein_map_from_params(fasta_files, [params])` -/
def mapsFor (parse : C09.ParseId) (files : List (List Str)) : List C09.Params → Except String (List C10.DMap)
  | [] => .ok []
  | p :: ps =>
    match C09.fromParams parse files [p] with
    | .error e => .error (c09ErrTag e)
    | .ok res =>
      if !res.2.isEmpty then .error "not_modelled:nonspecific_digestion"
      else
        match mapsFor parse files ps with
        | .error e => .error e
        | .ok ms => .ok (toDMap res.1 :: ms)

/-- one map per `--peptide_protein_map` file: `digest.get_peptide_to_protein_map_from_file(file, use_hash_key=False)` -/
def readMaps : List Str → Except String (List C10.DMap)
  | [] => .ok []
  | t :: ts =>
    match C09.readMap t with
    | .error e => .error (c09ErrTag e)
    | .ok m =>
      match readMaps ts with
      | .error e => .error e
      | .ok ms => .ok (toDMap m :: ms)

/-- `peptide_protein_map.get_peptide_to_protein_maps_from_args(args, use_pseudo_genes)`: the digestion parameter
    lists are built (and their lengths checked) first; then `if fasta_file:` one digest per parameter set,
    `elif peptide_protein_map_files:` one map per file (the digestion flags and the identifier flags are not looked
    at), else the `ValueError`.  Reads only the FASTA files, the map files, the identifier flags and the digestion
    flags of the command line. -/
def pepMaps (fasta : Option (List (List Str))) (mapFiles : Option (List Str))
    (containsDecoys geneLevel useUniprot : Bool) (dig : Digestion)
    (usePseudo : Bool) : Except String (List C10.DMap) :=
  match digestionParamsList dig containsDecoys with
  | .error e => .error e
  | .ok ps =>
    match fasta with
    | some (f :: fs) => mapsFor (parseIdOf geneLevel useUniprot usePseudo) (f :: fs) ps
    | _ =>
      match mapFiles with
      | some (t :: ts) => readMaps (t :: ts)
      | _ => .error C18.Err.missingFasta.tag

/-! ## what every method of a run shares -/

/-- computed once, before the method loop -/
structure Env where
  /-- `protein_annotations` -/
  ann : C19.Dict
  /-- `use_pseudo_genes` -/
  usePseudo : Bool
  /-- `peptide_to_protein_maps`; `[]` stands for the `[None]` of a run in which no method needs a map
      (such a run never looks at it) -/
  maps : List C10.DMap

/-- annotations → method list → (if some method needs one) the peptide → protein maps -/
def setup (inp : CliInput) : Except String (Env × List C18.Cfg) :=
  match C19.getAnnotations inp.fasta inp.containsDecoys inp.geneLevel inp.useUniprot with
  | .error e => .error e.tag
  | .ok (ann, usePseudo) =>
    match C18.parseAll Generated.methods usePseudo (inp.methods.map C18.MethodRef.builtin) with
    | .error e => .error e.tag
    | .ok cfgs =>
      if cfgs.any C18.Cfg.needsMap then
        match pepMaps inp.fasta inp.pepMapFiles inp.containsDecoys inp.geneLevel inp.useUniprot inp.dig usePseudo with
        | .error e => .error e
        | .ok maps => .ok ({ ann := ann, usePseudo := usePseudo, maps := maps }, cfgs)
      else .ok ({ ann := ann, usePseudo := usePseudo, maps := [] }, cfgs)

/-! ## one method -/

/-- `score_type.get_evidence_file(args)` -/
def evidenceOf (inp : CliInput) : C18.Input → Option (List (List EvRow))
  | .mq => inp.mq
  | .perc => inp.perc
  | .fragpipe => inp.fragpipe
  | .sage => inp.sage
  | .diann => inp.diann

/-- `if not evidence_files` is false -/
def given (o : Option (List (List EvRow))) : Bool :=
  match o with
  | some (_ :: _) => true
  | _ => false

/-- a list-valued flag (`nargs="+"`) was given -/
def hasFiles {α} (o : Option (List α)) : Bool :=
  match o with
  | some (_ :: _) => true
  | _ => false

/-- what the command line supplies, in the vocabulary of the C18 model (`map`: `--fasta` or `--peptide_protein_map`) -/
def supplied (inp : CliInput) : C18.Supplied :=
  { mq := given inp.mq, perc := given inp.perc, fragpipe := given inp.fragpipe, sage := given inp.sage,
    diann := given inp.diann, map := hasFiles inp.fasta || hasFiles inp.pepMapFiles, mqGroups := false }

/-- the ingestion mode of a parsed score origin (`C10.modeOfScoreType` on the parsed value) -/
def modeOf (o : C18.Origin) (mokapot : Bool) : C10.Mode :=
  match o with
  | .perc => { format := if mokapot then .percMokapot else .percNative, remap := false }
  | .percRemap => { format := if mokapot then .percMokapot else .percNative, remap := true }
  | .fragpipe => { format := .fragpipe, remap := false }
  | .sage => { format := .sage, remap := false }
  | .diann => { format := .diann, remap := false }
  | .mq => { format := .maxquant, remap := true }
  | .mqNoRemap => { format := .maxquant, remap := false }

/-- the cells the method's parser reads: `parse_mq_evidence_file` takes the protein cell from
    `Leading razor protein` when `score_type.use_razor` -/
def rowsFor (mode : C10.Mode) (razor : Bool) (rows : List EvRow) : List C10.RawRow :=
  rows.map (fun r => if mode.format = .maxquant ∧ razor = true then { r.raw with prot := [r.razorProt] } else r.raw)

/-! ### the two numeric transforms of the PEP column, in double precision

`fragpipe.py`: `score = 1 - float(cell) + 1e-16` — two IEEE operations; `sage.py`: `np.power(10, float(cell))`.
Downstream the code compares these doubles with other doubles (the rescue cutoff, a recorded parameter), so the
composed model must hold the SAME doubles, not the exact real values `C10.exactT` computes: `roundD` is IEEE
round-to-nearest-even into binary64 (normal range), and `doubleT` applies it after every operation.  For Sage the
platform's `pow` is taken to be correctly rounded on integer exponents (asserted by the harness on its grid). -/

/-- the binary64 number nearest to a rational, ties to even (`0 ↦ 0`; exact for |q| in the normal range
    2^-1022 ≤ |q| < 2^1024, which is where PEPs and probabilities live) -/
def roundD (q : Rat) : Rat :=
  if q = 0 then 0 else
  let n := q.num.natAbs
  let d := q.den
  -- e with 2^e ≤ n/d < 2^(e+1): one of e0 - 1, e0
  let e0 : Int := (Nat.log2 n : Int) - (Nat.log2 d : Int)
  let ge : Bool := if 0 ≤ e0 then decide (d * 2 ^ e0.toNat ≤ n) else decide (d ≤ n * 2 ^ (-e0).toNat)
  let e : Int := if ge then e0 else e0 - 1
  -- the significand n/d · 2^(52 - e) ∈ [2^52, 2^53) as a fraction a / b, rounded half-even to k
  let s : Int := 52 - e
  let a : Nat := if 0 ≤ s then n * 2 ^ s.toNat else n
  let b : Nat := if 0 ≤ s then d else d * 2 ^ (-s).toNat
  let f := a / b
  let r := a % b
  let k : Nat := if 2 * r > b ∨ (2 * r = b ∧ f % 2 = 1) then f + 1 else f
  let v : Rat := if 0 ≤ s then (k : Rat) / ((2 ^ s.toNat : Nat) : Rat) else (k : Rat) * ((2 ^ (-s).toNat : Nat) : Rat)
  if q < 0 then -v else v

/-- the transforms as the parsers compute them on doubles: FragPipe `(1 - p) + 1e-16` with both roundings, Sage
    `10 ** x` rounded (integer exponents `x.num`; the driver rejects others) -/
def doubleT : C10.Transforms where
  fragpipe := fun p => roundD (roundD (1 - p) + C10.eps16)
  sage := fun x => roundD (C10.pow10 x.num)

/-- the header style of the `k`-th Percolator file mentioned -/
def mokapotAt (inp : CliInput) (k : Nat) : Bool := (inp.mokapotFiles[k]?).getD inp.mokapot

/-- the evidence files of the method's input type, each reduced to the cells its parser reads -/
def filesFor (inp : CliInput) (cfg : C18.Cfg) : List (List C10.RawRow) :=
  ((evidenceOf inp cfg.input).getD []).map (rowsFor (modeOf cfg.origin inp.mokapot) cfg.razor)

/-- `psm.parse_evidence_file_multiple`: the files paired with their maps (`C10.pairUp`: `[None]` without remapping, one
    map for all files, or `zip`), each pair with the position of its file; the format parser is chosen by the score
    origin (`get_evidence_parser`), and a Percolator file's header style is looked up per file -/
def psmsOf (inp : CliInput) (maps : List C10.DMap) (cfg : C18.Cfg) : List C10.Psm :=
  ((C10.pairUp (modeOf cfg.origin inp.mokapot).remap maps (filesFor inp cfg)).zipIdx).flatMap
    (fun pk => C10.filePsms doubleT (modeOf cfg.origin (mokapotAt inp pk.2)) pk.1.1 pk.1.2)

/-- `evidence.parse_evidence_files(evidence_files, peptide_to_protein_maps, method_config.score_type, …)`: the best
    PSM per peptide (`C10.parse`) over the PSM stream of all files.  With one header style for all Percolator files
    this is `C10.ingestFiles doubleT` (`Proofs/Cli.lean`, `ingest_uniform`). -/
def ingest (inp : CliInput) (maps : List C10.DMap) (cfg : C18.Cfg) : List PepInfo :=
  C10.parse (psmsOf inp maps cfg)

/-- the call `get_protein_group_results(peptide_info_list, args.mq_protein_groups, method_config, plotter,
    args.keep_all_proteins, args.protein_group_fdr_threshold, args.psm_fdr_cutoff)` -/
def pipelineInput (inp : CliInput) (pil : List PepInfo) (rec : MethodRec) : Pipeline.Input :=
  { pil := pil, thr := inp.thr, psm := inp.psm, keepAll := inp.keepAll,
    shuffles := rec.shuffles, cuts := rec.cuts, razorKeys := rec.razorKeys,
    scores1 := rec.scores1, scores2 := rec.scores2, rescueCutoff := rec.rescueCutoff }

/-! ## the writer -/

/-- the exact rational of a float cell -/
def ratCell (q : Rat) : String := toString q.num ++ "/" ++ toString q.den

/-- one `ProteinGroupResult` after `ProteinAnnotationsColumns.append_columns`, every field as handed to
    `csv.writer` (`str()` of the int; the two floats as exact rationals) -/
def cliRow (ann : C19.Dict) (d : C06.RowData) : C13.Row :=
  let r := C06.render d
  let a := C19.annotationColumns ann r.proteinIds.toList
  { proteinIds := r.proteinIds, majorityProteinIds := r.majorityProteinIds,
    peptideCountsUnique := r.peptideCountsUnique, bestPeptide := r.bestPeptide,
    numberOfProteins := toString r.numberOfProteins, qValue := ratCell r.qValue, score := ratCell r.score,
    reverse := r.reverse, potentialContaminant := r.potentialContaminant,
    extra := [String.ofList a.1, String.ofList a.2.1, String.ofList a.2.2] }

/-- attributes of a `ProteinGroupResults` that came out of `from_protein_groups` (no experiments) -/
def minimalCtx : C13.Ctx := { experiments := [] }

/-- `MinimalProteinGroupsWriter.append_quant_columns` + `ProteinGroupsWriter.write`: the records handed to
    `csv.writer` (header first) -/
def renderTable (ann : C19.Dict) (rows : List C06.RowData) : Except String (List (List String)) :=
  match C13.applyGen minimalCtx (C13.Table.init []) .annotations with
  | .error e => .error e.toString
  | .ok t0 =>
    match C13.writeRecords { headers := t0.headers, rows := rows.map (cliRow ann) }
            (some (C13.Writer.minimal.headerDict minimalCtx { headers := t0.headers, rows := rows.map (cliRow ann) })) with
    | .error e => .error e.toString
    | .ok recs => .ok recs

/-- one written protein-group table -/
structure CliTable where
  /-- the method's name as given in `--methods` -/
  method : String
  /-- `_get_output_filename`: the file name -/
  file : String
  /-- the directory of `--protein_groups_out`; `""` when the code drops it (several methods) -/
  dir : String
  /-- the peptide list the method's evidence was ingested to (argument of `get_protein_group_results`) -/
  pil : List PepInfo
  /-- everything `get_protein_group_results` computed for the method (both passes) -/
  run : Pipeline.Result
  /-- the reported rows (`run.rows`) -/
  rows : List C06.RowData
  /-- the records handed to `csv.writer`, header first -/
  records : List (List String)

/-- what a table says, apart from where it was written -/
def CliTable.content (t : CliTable) : String × List PepInfo × List C06.RowData × List (List String) :=
  (t.method, t.pil, t.rows, t.records)

/-- `run_method` for one parsed method: `.ok none` = nothing written (the method was skipped with the
    missing-input warning, or `--protein_groups_out` was not given) -/
def runMethod (inp : CliInput) (env : Env) (several : Bool) (name : String) (cfg : C18.Cfg) (rec : MethodRec) :
    Except String (Option CliTable) :=
  match C18.runMethod (supplied inp) cfg with
  | .error .missingInput => .ok none
  | .error e => .error e.tag
  | .ok () =>
    match C18.toPipelineConfig cfg with
    | none => .error "not_modelled:mq_native_grouping"
    | some pc =>
      match Pipeline.run pc (pipelineInput inp (ingest inp env.maps cfg) rec) with
      | .error e => .error e
      | .ok r =>
        match renderTable env.ann r.rows with
        | .error e => .error e
        | .ok recs =>
          match inp.out with
          | none => .ok none
          | some o =>
            .ok (some { method := name, file := C18.outputName several o.stem o.suffix cfg,
                        dir := if several then "" else o.dir,
                        pil := ingest inp env.maps cfg, run := r, rows := r.rows, records := recs })

/-! ## the method loop -/

/-- the recorded parameters of the first `n` methods, by position -/
def recsFor (inp : CliInput) (n : Nat) : List MethodRec := (List.range n).map (fun k => inp.recs.getD k default)

/-- name, parsed configuration and recorded parameters per method -/
def items (inp : CliInput) (cfgs : List C18.Cfg) : List (String × C18.Cfg × MethodRec) :=
  inp.methods.zip (cfgs.zip (recsFor inp cfgs.length))

/-- `for method_config in method_configs: run_method(…)`: the outcomes of the methods that completed, and the
    error that ended the run (tables written before it stay) -/
def loop (inp : CliInput) (env : Env) (several : Bool) :
    List (String × C18.Cfg × MethodRec) → List (Option CliTable) × Option String
  | [] => ([], none)
  | it :: rest =>
    match runMethod inp env several it.1 it.2.1 it.2.2 with
    | .error e => ([], some e)
    | .ok o => (o :: (loop inp env several rest).1, (loop inp env several rest).2)

/-- `run_picked_group_fdr(args)`: what every method wrote, in order, and the error (if any) the run ended with -/
def cliOutcome (inp : CliInput) : List (Option CliTable) × Option String :=
  match setup inp with
  | .error e => ([], some e)
  | .ok (env, cfgs) => loop inp env (decide (cfgs.length > 1)) (items inp cfgs)

/-- a run that completed: one entry per method of `--methods` (`none`: that method wrote nothing) -/
def cliOutcomes (inp : CliInput) : Except String (List (Option CliTable)) :=
  match cliOutcome inp with
  | (os, none) => .ok os
  | (_, some e) => .error e

/-- a run that completed: the tables written, in order -/
def cliRun (inp : CliInput) : Except String (List CliTable) :=
  match cliOutcomes inp with
  | .error e => .error e
  | .ok os => .ok (os.filterMap id)

/-- the same command line with only the `i`-th method given, and that method's recorded parameters -/
def CliInput.alone (inp : CliInput) (i : Nat) : CliInput :=
  { inp with methods := (inp.methods[i]?).toList, recs := [inp.recs.getD i default] }

end PgFdr.Cli
